From NiflyVerif Require Import Res ShapeClass ShapeQuant ShapeModel ShapeLoops ShapeBsProofs.
From Coq Require Import ZifyBool ZifyNat ZifyN.
Local Open Scope N_scope.

Lemma sa_bit_high_small x n m : x < 2 ^ n -> n <= m -> N.testbit x m = false.
Proof.
  intros H L. rewrite <- (N.mod_small x (2 ^ n)) by exact H. apply N.mod_pow2_bits_high. exact L.
Qed.

(* one SetAttributeOffset never SETS a bit at position 44 or above (attr <= 8, offsets below 2^8) *)
Lemma sa_set_attr_offset_high desc attr off d' m :
  sa_set_attr_offset desc attr off = Ok d' -> attr <= 8 -> off < 256 -> 44 <= m ->
  N.testbit d' m = true -> N.testbit desc m = true.
Proof.
  unfold sa_set_attr_offset. destruct (attr =? 0).
  { intros E. apply (f_equal (fun r => match r with Ok x => x | _ => 0 end)) in E. cbv beta iota in E. rewrite <- E. auto. }
  intros E HA HO HM.
  apply (f_equal (fun r => match r with Ok x => x | _ => 0 end)) in E. cbv beta iota in E. rewrite <- E. clear E.
  rewrite N.lor_spec, N.ldiff_spec.
  assert (A : N.testbit (N.shiftl off (4 * attr + 2) mod sa_two64) m = false).
  { apply (sa_bit_high_small _ 44); [|exact HM].
    eapply N.le_lt_trans; [apply N.mod_le; unfold sa_two64; lia|].
    rewrite N.shiftl_mul_pow2.
    assert (P : 2 ^ (4 * attr + 2) <= 2 ^ 34) by (apply N.pow_le_mono_r; lia).
    change (2 ^ 44) with (256 * 2 ^ 36). change (2 ^ 34) with 17179869184 in P. change (2 ^ 36) with 68719476736. nia. }
  rewrite A. cbn [orb]. intros H. apply andb_true_iff in H. destruct H as [H _]. exact H.
Qed.

Lemma sa_attr_loop_high : forall sizes va d v d' v' m,
  sa_attr_loop sizes va d v = Ok (d', v') -> Forall (fun sz => sz <= 4) sizes ->
  va + N.of_nat (length sizes) <= 9 ->
  v + 16 * N.of_nat (length sizes) < 256 -> 44 <= m ->
  (N.testbit d' m = true -> N.testbit d m = true) /\ v' <= v + 16 * N.of_nat (length sizes).
Proof.
  induction sizes as [|sz rest IH]; intros va d v d' v' m E F VA B HM; cbn [sa_attr_loop] in E.
  - apply (f_equal (fun r => match r with Ok x => x | _ => (0, 0) end)) in E. cbv beta iota in E.
    injection E as <- <-. split; [auto | simpl; lia].
  - inversion F as [|? ? Hsz F']; subst.
    assert (LEN : N.of_nat (length (sz :: rest)) = N.of_nat (length rest) + 1) by (simpl; lia).
    rewrite LEN in *.
    destruct (sz =? 0).
    + destruct (IH _ _ _ _ _ m E F' ltac:(lia) ltac:(lia) HM) as [A C]. split; [exact A | lia].
    + destruct (sa_set_attr_offset d va v) as [d1| |] eqn:S; cbn [bind] in E; try discriminate.
      destruct (IH _ _ _ _ _ m E F' ltac:(lia) ltac:(lia) HM) as [A C]. split; [|lia].
      intros H. apply (sa_set_attr_offset_high d va v d1 m S ltac:(lia) ltac:(lia) HM). apply A. exact H.
Qed.

Lemma sa_attr_sizes_small ver s : Forall (fun sz => sz <= 4) (sa_bs_attr_sizes ver s) /\ length (sa_bs_attr_sizes ver s) = 9%nat.
Proof.
  unfold sa_bs_attr_sizes. split; [|reflexivity].
  repeat constructor; repeat match goal with |- context [if ?b then _ else _] => destruct b end; lia.
Qed.

(* CalcDataSizes keeps the sixteen flag bits of the descriptor *)
Theorem sa_bs_calc_data_sizes_flags ver s s1 k :
  sa_bs_calc_data_sizes ver s = Ok s1 -> k < 16 ->
  N.testbit (sa_b_desc s1) (44 + k) = N.testbit (sa_b_desc s) (44 + k).
Proof.
  unfold sa_bs_calc_data_sizes. intros E K.
  destruct (sa_attr_loop (sa_bs_attr_sizes ver s) 0 (N.land (sa_b_desc s) sa_DESC_MASK_OFFSET) 0) as [[d1 vsize]| |] eqn:L;
    cbn [bind] in E; try discriminate.
  apply (f_equal (fun r => match r with Ok x => sa_b_desc x | _ => 0 end)) in E. cbv beta iota in E.
  cbn [sa_b_desc] in E. rewrite <- E. clear E.
  destruct (sa_attr_sizes_small ver s) as [F LEN].
  destruct (sa_attr_loop_high _ _ _ _ _ _ (44 + k) L F ltac:(rewrite LEN; simpl; lia) ltac:(rewrite LEN; simpl; lia) ltac:(lia)) as [A C].
  rewrite LEN in C. change (0 + 16 * N.of_nat 9) with 144 in C.
  set (m := 44 + k) in *.
  assert (MK : N.testbit sa_DESC_MASK_OFFSET m = true).
  { unfold sa_DESC_MASK_OFFSET. change 0xFFFFFF0000000000 with (N.shiftl (N.ones 24) 40).
    rewrite N.shiftl_spec_high' by (unfold m; lia). apply N.ones_spec_low. unfold m. lia. }
  rewrite !N.lor_spec.
  (* the restored flags *)
  assert (VF : N.testbit (N.shiftl (sa_wrap16 (N.shiftr (N.land (sa_b_desc s) sa_DESC_MASK_OFFSET) 44)) 44) m = N.testbit (sa_b_desc s) m).
  { rewrite N.shiftl_spec_high' by (unfold m; lia). replace (m - 44) with k by (unfold m; lia).
    unfold sa_wrap16. change 65536 with (2 ^ 16). rewrite N.mod_pow2_bits_low by exact K.
    rewrite N.shiftr_spec by lia. rewrite N.land_spec. replace (k + 44) with m by (unfold m; lia). rewrite MK. apply andb_true_r. }
  rewrite VF.
  (* the size nibble cannot reach bit 44 *)
  assert (SZ : N.testbit (N.shiftr vsize 2) m = false).
  { apply (sa_bit_high_small _ 8); [|unfold m; lia]. rewrite N.shiftr_div_pow2. change (2 ^ 8) with 256.
    apply N.div_lt_upper_bound; [discriminate | change (2 ^ 2) with 4; lia]. }
  rewrite SZ, orb_false_r. rewrite N.land_spec.
  destruct (N.testbit (sa_b_desc s) m) eqn:D; [apply orb_true_r|].
  rewrite orb_false_r. destruct (N.testbit d1 m) eqn:D1; [|reflexivity].
  specialize (A eq_refl). rewrite N.land_spec, D in A. discriminate.
Qed.

Corollary sa_bs_calc_data_sizes_has ver s s1 : sa_bs_calc_data_sizes ver s = Ok s1 ->
  sa_bs_has s1 sa_VF_VERTEX = sa_bs_has s sa_VF_VERTEX /\ sa_bs_has s1 sa_VF_UV = sa_bs_has s sa_VF_UV
  /\ sa_bs_has s1 sa_VF_NORMAL = sa_bs_has s sa_VF_NORMAL /\ sa_bs_has s1 sa_VF_TANGENT = sa_bs_has s sa_VF_TANGENT
  /\ sa_bs_has s1 sa_VF_COLORS = sa_bs_has s sa_VF_COLORS /\ sa_bs_has s1 sa_VF_SKINNED = sa_bs_has s sa_VF_SKINNED
  /\ sa_bs_has s1 sa_VF_EYEDATA = sa_bs_has s sa_VF_EYEDATA /\ sa_bs_has s1 sa_VF_FULLPREC = sa_bs_has s sa_VF_FULLPREC.
Proof.
  intros E. unfold sa_bs_has.
  rewrite !sa_has_vertex, !sa_has_uv, !sa_has_normal, !sa_has_tangent, !sa_has_colors, !sa_has_skinned, !sa_has_eye, !sa_has_fullprec.
  pose proof (fun k H => sa_bs_calc_data_sizes_flags ver s s1 k E H) as F.
  repeat split.
  - exact (F 0 ltac:(lia)). - exact (F 1 ltac:(lia)). - exact (F 3 ltac:(lia)). - exact (F 4 ltac:(lia)).
  - exact (F 5 ltac:(lia)). - exact (F 6 ltac:(lia)). - exact (F 8 ltac:(lia)). - exact (F 10 ltac:(lia)).
Qed.
