From Coq Require Import QArith Qround Qminmax Qabs ZArith Lia Lqa.
From NiflyVerif Require Import ShapeQuant.
Local Open Scope Q_scope.

Lemma floor_bounds (y : Q) : inject_Z (Qfloor y) <= y /\ y < inject_Z (Qfloor y) + 1.
Proof.
  split. apply Qfloor_le.
  pose proof (Qlt_floor y) as H. rewrite inject_Z_plus in H. exact H.
Qed.

Lemma floor_unique (y : Q) (k : Z) : inject_Z k <= y -> y < inject_Z k + 1 -> Qfloor y = k.
Proof.
  intros H1 H2. destruct (floor_bounds y) as [F1 F2].
  assert (A : (Qfloor y < k + 1)%Z).
  { rewrite Zlt_Qlt. rewrite inject_Z_plus. change (inject_Z 1) with 1. lra. }
  assert (B : (k < Qfloor y + 1)%Z).
  { rewrite Zlt_Qlt. rewrite inject_Z_plus. change (inject_Z 1) with 1. lra. }
  lia.
Qed.

Ltac qn := unfold sa_norm_dec, sa_col_dec, Qdiv in *; change (/ 2) with (1 # 2) in *; change (/ 255) with (1 # 255) in *.

Lemma norm_enc_nonneg_form (x : Q) : -1 <= x -> sa_norm_enc x = Qfloor (((x + 1) / 2) * 255 + (1 # 2)).
Proof.
  intros H. unfold sa_norm_enc, sa_round_half_away.
  destruct (Qle_bool 0 ((x + 1) / 2 * 255)) eqn:E; [reflexivity|].
  assert (0 <= (x + 1) / 2 * 255) by (qn; lra).
  rewrite <- Qle_bool_iff in H0. congruence.
Qed.

Theorem norm_enc_range (x : Q) : -1 <= x -> x <= 1 -> (0 <= sa_norm_enc x <= 255)%Z.
Proof.
  intros H1 H2. rewrite norm_enc_nonneg_form by assumption.
  set (y := (x + 1) / 2 * 255 + (1 # 2)).
  destruct (floor_bounds y) as [F1 F2].
  assert (Y1 : 1 # 2 <= y) by (unfold y; qn; lra).
  assert (Y2 : y <= 255 + (1 # 2)) by (unfold y; qn; lra).
  split.
  - assert (A : (-1 < Qfloor y)%Z).
    { rewrite Zlt_Qlt. change (inject_Z (-1)) with (-1). lra. }
    lia.
  - assert (A : (Qfloor y < 256)%Z).
    { rewrite Zlt_Qlt. change (inject_Z 256) with 256. lra. }
    lia.
Qed.

Theorem norm_quant_bound (x : Q) : -1 <= x -> x <= 1 -> Qabs (sa_norm_dec (sa_norm_enc x) - x) <= 1 # 255.
Proof.
  intros H1 H2. rewrite norm_enc_nonneg_form by assumption.
  set (y := (x + 1) / 2 * 255 + (1 # 2)).
  destruct (floor_bounds y) as [F1 F2]. unfold sa_norm_dec.
  set (k := inject_Z (Qfloor y)) in *.
  apply Qabs_Qle_condition. unfold y in *. qn. split; lra.
Qed.

Theorem norm_enc_dec_id (b : Z) : (0 <= b <= 255)%Z -> sa_norm_enc (sa_norm_dec b) = b.
Proof.
  intros [H1 H2].
  assert (B1 : 0 <= inject_Z b) by (change 0 with (inject_Z 0); rewrite <- Zle_Qle; lia).
  assert (B2 : inject_Z b <= 255) by (change 255 with (inject_Z 255); rewrite <- Zle_Qle; lia).
  rewrite norm_enc_nonneg_form by (qn; lra).
  apply floor_unique; qn; lra.
Qed.

Lemma col_clamp_range (x : Q) : 0 <= sa_col_clamp x /\ sa_col_clamp x <= 1.
Proof.
  unfold sa_col_clamp. split.
  - apply Q.le_max_l.
  - apply Q.max_lub. lra. apply Q.le_min_l.
Qed.

Lemma col_clamp_id (x : Q) : 0 <= x -> x <= 1 -> sa_col_clamp x == x.
Proof.
  intros. unfold sa_col_clamp. rewrite Q.min_r by assumption. rewrite Q.max_r by assumption. reflexivity.
Qed.

Theorem col_enc_range (x : Q) : (0 <= sa_col_enc x <= 255)%Z.
Proof.
  unfold sa_col_enc. destruct (col_clamp_range x) as [C1 C2]. set (f := sa_col_clamp x) in *.
  destruct (Qeq_bool f 1) eqn:E; [lia|].
  assert (NE : ~ f == 1) by (intro A; apply Qeq_bool_iff in A; congruence).
  assert (LT : f < 1) by (destruct (Qlt_le_dec f 1); [assumption | exfalso; apply NE; lra]).
  destruct (floor_bounds (f * 256)) as [F1 F2].
  split.
  - assert (A : (-1 < Qfloor (f * 256))%Z).
    { rewrite Zlt_Qlt. change (inject_Z (-1)) with (-1). lra. }
    lia.
  - assert (A : (Qfloor (f * 256) < 256)%Z).
    { rewrite Zlt_Qlt. change (inject_Z 256) with 256. lra. }
    lia.
Qed.

Theorem col_quant_bound (x : Q) : Qabs (sa_col_dec (sa_col_enc x) - sa_col_clamp x) <= 1 # 256.
Proof.
  unfold sa_col_enc. destruct (col_clamp_range x) as [C1 C2]. set (f := sa_col_clamp x) in *.
  destruct (Qeq_bool f 1) eqn:E.
  - apply Qeq_bool_iff in E. unfold sa_col_dec. change (inject_Z 255) with 255.
    apply Qabs_Qle_condition. qn. split; lra.
  - assert (NE : ~ f == 1) by (intro A; apply Qeq_bool_iff in A; congruence).
    assert (LT : f < 1) by (destruct (Qlt_le_dec f 1); [assumption | exfalso; apply NE; lra]).
    destruct (floor_bounds (f * 256)) as [F1 F2]. unfold sa_col_dec.
    set (k := inject_Z (Qfloor (f * 256))) in *.
    assert (K0 : 0 <= k).
    { unfold k. change 0 with (inject_Z 0). rewrite <- Zle_Qle.
      assert (A : (-1 < Qfloor (f * 256))%Z).
      { rewrite Zlt_Qlt. change (inject_Z (-1)) with (-1). fold k. lra. }
      lia. }
    assert (K1 : k <= 255).
    { unfold k. change 255 with (inject_Z 255). rewrite <- Zle_Qle.
      assert (A : (Qfloor (f * 256) < 256)%Z).
      { rewrite Zlt_Qlt. change (inject_Z 256) with 256. fold k. lra. }
      lia. }
    apply Qabs_Qle_condition. qn. split; lra.
Qed.

Theorem col_enc_dec_id (b : Z) : (0 <= b <= 255)%Z -> sa_col_enc (sa_col_dec b) = b.
Proof.
  intros [H1 H2].
  assert (B1 : 0 <= inject_Z b) by (change 0 with (inject_Z 0); rewrite <- Zle_Qle; lia).
  assert (B2 : inject_Z b <= 255) by (change 255 with (inject_Z 255); rewrite <- Zle_Qle; lia).
  unfold sa_col_enc.
  assert (CI : sa_col_clamp (sa_col_dec b) == sa_col_dec b) by (apply col_clamp_id; qn; lra).
  destruct (Qeq_bool (sa_col_clamp (sa_col_dec b)) 1) eqn:E.
  - apply Qeq_bool_iff in E. rewrite CI in E. qn.
    assert (A : inject_Z b == inject_Z 255) by (change (inject_Z 255) with 255; clear - E; lra).
    rewrite inject_Z_injective in A. symmetry. exact A.
  - assert (NE : ~ sa_col_clamp (sa_col_dec b) == 1) by (intro A; apply Qeq_bool_iff in A; congruence).
    rewrite CI in NE.
    assert (LT : inject_Z b < 255).
    { destruct (Qlt_le_dec (inject_Z b) 255); [assumption|]. exfalso. apply NE. qn. lra. }
    apply floor_unique.
    + rewrite CI. qn. lra.
    + rewrite CI. qn. lra.
Qed.

(* a colour that is exactly k/255 comes back exactly; a normal component exactly 2k/255-1 too *)
Corollary col_exact_on_grid (b : Z) : (0 <= b <= 255)%Z -> sa_col_dec (sa_col_enc (sa_col_dec b)) == sa_col_dec b.
Proof. intros H. rewrite col_enc_dec_id by assumption. reflexivity. Qed.
Corollary norm_exact_on_grid (b : Z) : (0 <= b <= 255)%Z -> sa_norm_dec (sa_norm_enc (sa_norm_dec b)) == sa_norm_dec b.
Proof. intros H. rewrite norm_enc_dec_id by assumption. reflexivity. Qed.

(* the bounds are attained / not improvable: x = -1 + 1/255 sits exactly between bytes 0 and 1 *)
Example norm_bound_tight : Qabs (sa_norm_dec (sa_norm_enc (-1 + (1 # 255))) - (-1 + (1 # 255))) == 1 # 255.
Proof. vm_compute. reflexivity. Qed.
Example col_example : sa_col_enc (1 # 2) = 128%Z /\ sa_col_dec 128 == 128 # 255.
Proof. split; vm_compute; reflexivity. Qed.
