(* C13 (a): facts about the class-selection table, for every version triple. *)
From NiflyVerif Require Import Res ShapeClass.
From Coq Require Import ZifyBool ZifyN.
Local Open Scope N_scope.

Ltac sa_unfold_preds :=
  unfold sa_is_ob, sa_is_fo3, sa_is_sk, sa_is_sse, sa_is_fo4, sa_is_fo76, sa_is_sf, sa_is_special,
    sa_V10_0_1_0, sa_V10_1_0_106, sa_V10_2_0_0, sa_V20_0_0_4, sa_V20_0_0_5, sa_V20_2_0_7 in *.

Definition sa_b2n (b : bool) : N := if b then 1 else 0.
Definition sa_game_count (v : sa_version) : N :=
  sa_b2n (sa_is_ob v) + sa_b2n (sa_is_fo3 v) + sa_b2n (sa_is_sk v) + sa_b2n (sa_is_sse v)
  + sa_b2n (sa_is_fo4 v) + sa_b2n (sa_is_fo76 v) + sa_b2n (sa_is_sf v) + sa_b2n (sa_is_special v).

(* the eight version predicates are pairwise exclusive *)
Lemma sa_games_exclusive (v : sa_version) : sa_game_count v <= 1.
Proof.
  unfold sa_game_count, sa_b2n. destruct v as [f u s].
  destruct (sa_is_ob _) eqn:A, (sa_is_fo3 _) eqn:B, (sa_is_sk _) eqn:C, (sa_is_sse _) eqn:D,
    (sa_is_fo4 _) eqn:E, (sa_is_fo76 _) eqn:F, (sa_is_sf _) eqn:G, (sa_is_special _) eqn:H;
    try (cbv; discriminate); exfalso; sa_unfold_preds; simpl in *; lia.
Qed.

Definition sa_row_sse := sa_mkRow sa_CBSTriShape None sa_CBSLightingShaderProperty sa_LShaderRef true false 3.
Definition sa_row_fo4 := sa_mkRow sa_CBSSubIndexTriShape None sa_CBSLightingShaderProperty sa_LShaderRef true true 3.
Definition sa_row_sk := sa_mkRow sa_CNiTriShape (Some sa_CNiTriShapeData) sa_CBSLightingShaderProperty sa_LShaderRef true false 4.
Definition sa_row_legacy := sa_mkRow sa_CNiTriShape (Some sa_CNiTriShapeData) sa_CBSShaderPPLightingProperty sa_LPropertyList true false 4.

Lemma sa_create_class_sse v : sa_is_sse v = true -> sa_create_class v = sa_row_sse.
Proof. intros H. unfold sa_create_class. rewrite H. reflexivity. Qed.

Lemma sa_create_class_fo4 v : sa_is_fo4 v = true -> sa_create_class v = sa_row_fo4.
Proof.
  intros H. unfold sa_create_class.
  assert (E : sa_is_sse v = false) by (revert H; sa_unfold_preds; destruct v; simpl; lia).
  rewrite E, H. reflexivity.
Qed.

Lemma sa_create_class_fo76 v : sa_is_fo76 v = true -> sa_create_class v = sa_row_fo4.
Proof.
  intros H. unfold sa_create_class.
  assert (E : sa_is_sse v = false) by (revert H; sa_unfold_preds; destruct v; simpl; lia).
  rewrite E, H. rewrite orb_true_r. reflexivity.
Qed.

Lemma sa_create_class_sk v : sa_is_sk v = true -> sa_create_class v = sa_row_sk.
Proof.
  intros H. unfold sa_create_class.
  assert (E : sa_is_sse v = false) by (revert H; sa_unfold_preds; destruct v; simpl; lia).
  assert (E4 : sa_is_fo4 v = false) by (revert H; sa_unfold_preds; destruct v; simpl; lia).
  assert (E7 : sa_is_fo76 v = false) by (revert H; sa_unfold_preds; destruct v; simpl; lia).
  rewrite E, E4, E7, H. reflexivity.
Qed.

(* every other triple, in particular OB, FO3 and (as the code stands) Starfield, gets the legacy classes *)
Lemma sa_create_class_other v :
  sa_is_sse v = false -> sa_is_fo4 v = false -> sa_is_fo76 v = false -> sa_is_sk v = false ->
  sa_create_class v = sa_row_legacy.
Proof. intros A B C D. unfold sa_create_class. rewrite A, B, C, D. reflexivity. Qed.

Lemma sa_create_class_ob v : sa_is_ob v = true -> sa_create_class v = sa_row_legacy.
Proof.
  intros H. apply sa_create_class_other; revert H; sa_unfold_preds; destruct v; simpl; lia.
Qed.
Lemma sa_create_class_fo3 v : sa_is_fo3 v = true -> sa_create_class v = sa_row_legacy.
Proof.
  intros H. apply sa_create_class_other; revert H; sa_unfold_preds; destruct v; simpl; lia.
Qed.
Lemma sa_create_class_sf v : sa_is_sf v = true -> sa_create_class v = sa_row_legacy.
Proof.
  intros H. apply sa_create_class_other; revert H; sa_unfold_preds; destruct v; simpl; lia.
Qed.

(* totality: the table has exactly four rows and the row is determined by the predicates *)
Lemma sa_create_class_total v :
  (sa_is_sse v = true /\ sa_create_class v = sa_row_sse)
  \/ (sa_is_sse v = false /\ (sa_is_fo4 v = true \/ sa_is_fo76 v = true) /\ sa_create_class v = sa_row_fo4)
  \/ (sa_is_sk v = true /\ sa_create_class v = sa_row_sk)
  \/ (sa_is_sse v = false /\ sa_is_fo4 v = false /\ sa_is_fo76 v = false /\ sa_is_sk v = false
      /\ sa_create_class v = sa_row_legacy).
Proof.
  destruct (sa_is_sse v) eqn:A.
  - left. split; [reflexivity | apply sa_create_class_sse; assumption].
  - destruct (sa_is_fo4 v) eqn:B.
    + right. left. repeat split; auto. apply sa_create_class_fo4; assumption.
    + destruct (sa_is_fo76 v) eqn:C.
      * right. left. repeat split; auto. apply sa_create_class_fo76; assumption.
      * destruct (sa_is_sk v) eqn:D.
        -- right. right. left. split; [reflexivity | apply sa_create_class_sk; assumption].
        -- right. right. right. repeat split; auto. apply sa_create_class_other; assumption.
Qed.

(* structural facts that hold in every row *)
Lemma sa_create_class_shape_data v :
  (sa_cr_data (sa_create_class v) = None <-> sa_cr_shape (sa_create_class v) <> sa_CNiTriShape)
  /\ sa_cr_texset (sa_create_class v) = true
  /\ (sa_cr_link (sa_create_class v) = sa_LPropertyList <-> sa_cr_shader (sa_create_class v) = sa_CBSShaderPPLightingProperty)
  /\ (sa_cr_wet (sa_create_class v) = true <-> sa_cr_shape (sa_create_class v) = sa_CBSSubIndexTriShape)
  /\ sa_cr_blocks (sa_create_class v) = (match sa_cr_data (sa_create_class v) with Some _ => 4 | None => 3 end).
Proof.
  destruct (sa_create_class_total v) as [[_ E] | [[_ [_ E]] | [[_ E] | [_ [_ [_ [_ E]]]]]]]; rewrite E; simpl;
    repeat split; intros; try congruence; try discriminate.
Qed.

(* the factory versions fall into the intended rows *)
Lemma sa_factory_versions :
  sa_is_ob sa_getOB = true /\ sa_is_fo3 sa_getFO3 = true /\ sa_is_sk sa_getSK = true /\ sa_is_sse sa_getSSE = true
  /\ sa_is_fo4 sa_getFO4 = true /\ sa_is_fo76 sa_getFO76 = true /\ sa_is_sf sa_getSF = true.
Proof. repeat split; vm_compute; reflexivity. Qed.

(* the 16-bit triangle counter applies exactly to user >= 12 && stream < 130: SK and SSE among the games *)
Lemma sa_tri_limit_cases v : sa_tri_limit v = 65535 \/ sa_tri_limit v = 4294967295.
Proof. unfold sa_tri_limit. destruct ((12 <=? sa_vuser v) && (sa_vstream v <? 130)); auto. Qed.
