(* C13: BSTriShape::Create / BSSubIndexTriShape::Create and the re-creating SetVertsForShape. *)
From NiflyVerif Require Import Res ShapeClass ShapeQuant ShapeModel ShapeLoops ShapeBsProofs.
From Coq Require Import ZifyBool ZifyNat ZifyN.
Local Open Scope N_scope.

Definition sa_nv_of (verts : list sa_v3) : N := if sa_u16max <? vlen verts then sa_u16max else vlen verts.
Definition sa_nt_of (limit nv : N) (tl : list tri) : N :=
  if nv =? 0 then 0 else if limit <? vlen tl then limit else vlen tl.

Lemma sa_nv_of_le verts : (N.to_nat (sa_nv_of verts) <= length verts)%nat /\ sa_nv_of verts <= 65535.
Proof. unfold sa_nv_of, sa_u16max, vlen. destruct (N.ltb_spec 65535 (N.of_nat (length verts))); lia. Qed.
Lemma sa_nt_of_le limit nv tl : (N.to_nat (sa_nt_of limit nv tl) <= length tl)%nat /\ sa_nt_of limit nv tl <= limit.
Proof. unfold sa_nt_of, vlen. destruct (nv =? 0); [lia|]. destruct (N.ltb_spec limit (N.of_nat (length tl))); lia. Qed.

Section WithOpaque.
  Variable bsphere : list sa_v3 -> sa_bnd.
  Variable btan : list sa_bsvert -> list tri -> nat -> sa_b3 * sa_F * N * N.

(* what CalcTangentSpace leaves alone *)
Definition sa_bs_tan_frame (s s' : sa_bstri) : Prop :=
  sa_b_kind s' = sa_b_kind s /\ sa_b_nv s' = sa_b_nv s /\ sa_b_nt s' = sa_b_nt s /\ sa_b_tris s' = sa_b_tris s
  /\ sa_b_seg s' = sa_b_seg s /\ sa_b_bounds s' = sa_b_bounds s /\ length (sa_b_vd s') = length (sa_b_vd s)
  /\ (forall m, m <> 48 -> N.testbit (sa_b_desc s') m = N.testbit (sa_b_desc s) m)
  /\ map sa_bv_vert (sa_b_vd s') = map sa_bv_vert (sa_b_vd s)
  /\ map sa_bv_uv (sa_b_vd s') = map sa_bv_uv (sa_b_vd s)
  /\ map sa_bv_n (sa_b_vd s') = map sa_bv_n (sa_b_vd s)
  /\ map sa_bv_col (sa_b_vd s') = map sa_bv_col (sa_b_vd s)
  /\ map sa_bv_eye (sa_b_vd s') = map sa_bv_eye (sa_b_vd s).

Lemma sa_bs_calc_tangents_spec s : sa_wf_bs s ->
  exists s', sa_bs_calc_tangents btan s = Ok s' /\ sa_wf_bs s' /\ sa_bs_tan_frame s s'.
Proof.
  intros W. unfold sa_bs_calc_tangents.
  destruct (negb (sa_bs_has s sa_VF_NORMAL) || negb (sa_bs_has s sa_VF_UV)).
  - exists s. split; [reflexivity|]. split; [exact W|]. unfold sa_bs_tan_frame. repeat split; reflexivity.
  - change (sa_b_nv (sa_bs_flag_tangents s true)) with (sa_b_nv s).
    change (sa_b_vd (sa_bs_flag_tangents s true)) with (sa_b_vd s).
    change (sa_b_tris (sa_bs_flag_tangents s true)) with (sa_b_tris s).
    unfold sa_wf_bs in W. rewrite <- W. rewrite sa_upd1_full. cbn [bind].
    eexists. split; [reflexivity|].
    split; [unfold sa_wf_bs; cbn [sa_bs_with_vd sa_bs_flag_tangents sa_bs_with_desc sa_b_vd sa_b_nv]; rewrite sa_mapi_length; exact W|].
    unfold sa_bs_tan_frame. cbn [sa_bs_with_vd sa_bs_flag_tangents sa_bs_with_desc sa_b_kind sa_b_nv sa_b_nt sa_b_desc sa_b_dataSize sa_b_vertexSize sa_b_bounds sa_b_vd sa_b_tris sa_b_seg].
    repeat match goal with |- _ /\ _ => split end; try reflexivity.
    + apply sa_mapi_length.
    + intros m Hm. rewrite sa_put_tangent. destruct (N.eqb_spec m 48); [contradiction | reflexivity].
    + apply sa_mapi_frame. intros i [? ? ? ? ? ? ? ? ?]. destruct (btan _ _ i) as [[[? ?] ?] ?]. reflexivity.
    + apply sa_mapi_frame. intros i [? ? ? ? ? ? ? ? ?]. destruct (btan _ _ i) as [[[? ?] ?] ?]. reflexivity.
    + apply sa_mapi_frame. intros i [? ? ? ? ? ? ? ? ?]. destruct (btan _ _ i) as [[[? ?] ?] ?]. reflexivity.
    + apply sa_mapi_frame. intros i [? ? ? ? ? ? ? ? ?]. destruct (btan _ _ i) as [[[? ?] ?] ?]. reflexivity.
    + apply sa_mapi_frame. intros i [? ? ? ? ? ? ? ? ?]. destruct (btan _ _ i) as [[[? ?] ?] ?]. reflexivity.
Qed.

Definition sa_init_vertex (v : sa_bsvert) (x : sa_v3) : sa_bsvert :=
  sa_mkBV x 0 (sa_bv_uv v) (0, 0, 0) 0 (sa_bv_t v) 0 (255, 255, 255, 255) 0.

Definition sa_uv_clause (s s' : sa_bstri) (nv : N) (uvs : option (list sa_v2)) : Prop :=
  match uvs with
  | Some u => if vlen u =? nv
              then map sa_bv_uv (sa_b_vd s') = u /\ N.testbit (sa_b_desc s') 45 = N.testbit (sa_b_desc s) 45
              else N.testbit (sa_b_desc s') 45 = false
  | None => N.testbit (sa_b_desc s') 45 = N.testbit (sa_b_desc s) 45
            /\ map sa_bv_uv (sa_b_vd s') = map sa_bv_uv (vresize sa_bv_default (sa_b_vd s) nv)
  end.
Definition sa_normal_clause (s' : sa_bstri) (nv : N) (norms : option (list sa_v3)) : Prop :=
  match norms with
  | Some n => if vlen n =? nv
              then N.testbit (sa_b_desc s') 47 = true /\ map sa_bv_n (sa_b_vd s') = map sa_nbyte3 n
              else N.testbit (sa_b_desc s') 47 = false /\ N.testbit (sa_b_desc s') 48 = false
  | None => N.testbit (sa_b_desc s') 47 = false /\ N.testbit (sa_b_desc s') 48 = false
  end.

Lemma sa_bs_create_base_spec ver s verts tris uvs norms :
  let nv := sa_nv_of verts in
  let tl := match tris with Some t => t | None => [] end in
  let nt := sa_nt_of (sa_tri_limit ver) nv tl in
  exists s', sa_bs_create_base bsphere btan ver s verts tris uvs norms = Ok s'
    /\ sa_wf_bs s' /\ sa_b_nv s' = nv /\ sa_b_nt s' = nt /\ sa_b_kind s' = sa_b_kind s /\ sa_b_seg s' = sa_b_seg s
    /\ map sa_bv_vert (sa_b_vd s') = firstn (N.to_nat nv) verts
    /\ sa_b_tris s' = firstn (N.to_nat nt) tl
    /\ (forall m, m <> 45 -> m <> 47 -> m <> 48 -> N.testbit (sa_b_desc s') m = N.testbit (sa_b_desc s) m)
    /\ sa_uv_clause s s' nv uvs /\ sa_normal_clause s' nv norms.
Proof.
  intros nv tl nt.
  destruct (sa_nv_of_le verts) as [NV1 NV2]. fold nv in NV1, NV2.
  destruct (sa_nt_of_le (sa_tri_limit ver) nv tl) as [NT1 _]. fold nt in NT1.
  unfold sa_bs_create_base. fold (sa_nv_of verts). fold nv.
  replace (match tris with Some t => vlen t | None => 0 end) with (vlen tl) by (destruct tris; reflexivity).
  fold (sa_nt_of (sa_tri_limit ver) nv tl). fold nt. fold tl.
  set (vd0 := vresize sa_bv_default (sa_b_vd s) nv).
  assert (L0 : length vd0 = N.to_nat nv) by apply sa_vresize_length.
  (* vertex loop *)
  fold sa_init_vertex.
  rewrite <- L0. rewrite sa_upd2_ok by lia. rewrite firstn_all, skipn_all, app_nil_r. rewrite L0. cbn [bind].
  set (vd1 := sa_zip sa_init_vertex vd0 (firstn (N.to_nat nv) verts)).
  assert (LF : length vd0 = length (firstn (N.to_nat nv) verts)) by (rewrite firstn_length; lia).
  assert (L1 : length vd1 = N.to_nat nv) by (unfold vd1; rewrite sa_zip_length by exact LF; exact L0).
  assert (V1 : map sa_bv_vert vd1 = firstn (N.to_nat nv) verts).
  { unfold vd1. rewrite (sa_zip_map sa_init_vertex sa_bv_vert (fun x => x)) by (auto; intros; reflexivity). apply map_id. }
  (* uv loop *)
  set (use_uv := match uvs with Some u => vlen u =? nv | None => false end).
  set (uvl := match uvs with Some u => u | None => [] end).
  assert (UV : exists vd2, (if use_uv then sa_upd2 sa_bv_set_uv (N.to_nat nv) vd1 uvl else Ok vd1) = Ok vd2
                /\ length vd2 = N.to_nat nv /\ map sa_bv_vert vd2 = map sa_bv_vert vd1
                /\ (use_uv = true -> map sa_bv_uv vd2 = uvl)
                /\ (use_uv = false -> map sa_bv_uv vd2 = map sa_bv_uv vd0)).
  { destruct use_uv eqn:EU.
    - assert (LU : length uvl = N.to_nat nv).
      { unfold use_uv in EU. destruct uvs as [u|]; [|discriminate]. apply N.eqb_eq in EU. unfold uvl, vlen in *. lia. }
      rewrite <- L1. rewrite sa_upd2_full by lia. eexists. split; [reflexivity|].
      split; [rewrite sa_zip_length by lia; reflexivity|].
      split; [apply sa_zip_frame; [intros [] ?; reflexivity | lia]|].
      split; [|discriminate].
      intros _. rewrite (sa_zip_map sa_bv_set_uv sa_bv_uv (fun x => x)) by (try lia; intros [] ?; reflexivity). apply map_id.
    - exists vd1. repeat split; auto; try discriminate.
      intros _. unfold vd1. apply sa_zip_frame; [intros [] ?; reflexivity | exact LF]. }
  destruct UV as [vd2 [EUV [L2 [V2 [U2 U2']]]]]. rewrite EUV. cbn [bind].
  (* triangle loop *)
  set (tr0 := vresize sa_triz (sa_b_tris s) nt).
  assert (LT0 : length tr0 = N.to_nat nt) by apply sa_vresize_length.
  rewrite <- LT0. rewrite sa_upd2_ok by lia. rewrite firstn_all, skipn_all, app_nil_r. rewrite LT0. cbn [bind].
  rewrite sa_zip_snd by (rewrite firstn_length; lia).
  (* raw vertices for the bounding sphere *)
  rewrite <- L2. rewrite sa_rd_full. cbn [bind]. rewrite L2.
  set (desc1 := match uvs with
                | Some u => if negb (vlen u =? nv) then sa_remove_flag (sa_b_desc s) sa_VF_UV else sa_b_desc s
                | None => sa_b_desc s end).
  set (s1 := sa_mkBS (sa_b_kind s) nv nt desc1 (sa_b_dataSize s) (sa_b_vertexSize s) (bsphere (map sa_bv_vert vd2)) vd2
                     (firstn (N.to_nat nt) tl) (sa_b_seg s)).
  assert (W1 : sa_wf_bs s1) by exact L2.
  assert (D1 : forall m, m <> 45 -> N.testbit desc1 m = N.testbit (sa_b_desc s) m).
  { intros m Hm. unfold desc1. destruct uvs as [u|]; [|reflexivity]. destruct (vlen u =? nv); [reflexivity|].
    cbn [negb]. rewrite sa_remove_uv_bit. destruct (N.eqb_spec m 45); [contradiction | apply andb_true_r]. }
  assert (UC1 : sa_uv_clause s s1 nv uvs).
  { unfold sa_uv_clause, s1, desc1. cbn [sa_b_vd sa_b_desc]. destruct uvs as [u|]; [|split; [reflexivity | apply U2'; reflexivity]].
    destruct (vlen u =? nv) eqn:EU; cbn [negb].
    - split; [apply U2; reflexivity | reflexivity].
    - rewrite sa_remove_uv_bit. apply andb_false_r. }
  (* normals *)
  assert (NOFF : forall s2, s2 = sa_bs_flag_tangents (sa_bs_flag_normals s1 false) false ->
           sa_wf_bs s2 /\ sa_b_nv s2 = nv /\ sa_b_nt s2 = nt /\ sa_b_kind s2 = sa_b_kind s /\ sa_b_seg s2 = sa_b_seg s
           /\ map sa_bv_vert (sa_b_vd s2) = firstn (N.to_nat nv) verts /\ sa_b_tris s2 = firstn (N.to_nat nt) tl
           /\ (forall m, m <> 45 -> m <> 47 -> m <> 48 -> N.testbit (sa_b_desc s2) m = N.testbit (sa_b_desc s) m)
           /\ sa_uv_clause s s2 nv uvs
           /\ N.testbit (sa_b_desc s2) 47 = false /\ N.testbit (sa_b_desc s2) 48 = false).
  { intros s2 ->. split; [exact W1|].
    cbn [sa_bs_flag_tangents sa_bs_flag_normals sa_bs_with_desc sa_b_kind sa_b_nv sa_b_nt sa_b_desc sa_b_vd sa_b_tris sa_b_seg s1].
    repeat match goal with |- _ /\ _ => split end; try reflexivity.
    - unfold s1; cbn [sa_b_vd]. rewrite V2. exact V1.
    - intros m H45 H47 H48. unfold s1; cbn [sa_b_desc]. rewrite sa_put_tangent, sa_put_normal.
      destruct (N.eqb_spec m 48); [contradiction|]. destruct (N.eqb_spec m 47); [contradiction|]. apply D1; assumption.
    - unfold sa_uv_clause in *. unfold s1 in *. cbn [sa_bs_flag_tangents sa_bs_flag_normals sa_bs_with_desc sa_b_desc sa_b_vd] in *.
      rewrite sa_put_tangent, sa_put_normal. cbn [N.eqb Pos.eqb]. exact UC1.
    - rewrite sa_put_tangent, sa_put_normal. reflexivity.
    - rewrite sa_put_tangent. reflexivity. }
  destruct norms as [n|].
  2:{ eexists. split; [reflexivity|]. destruct (NOFF _ eq_refl) as [A1 [A2 [A3 [A4 [A5 [A6 [A7 [A8 [A9 [A10 A11]]]]]]]]]].
      unfold sa_normal_clause. repeat match goal with |- _ /\ _ => split end; auto. }
  destruct (vlen n =? nv) eqn:EN.
  2:{ eexists. split; [reflexivity|]. destruct (NOFF _ eq_refl) as [A1 [A2 [A3 [A4 [A5 [A6 [A7 [A8 [A9 [A10 A11]]]]]]]]]].
      repeat match goal with |- _ /\ _ => split end; auto. unfold sa_normal_clause. rewrite EN. split; assumption. }
  assert (LN : length n = N.to_nat (sa_b_nv s1)) by (apply N.eqb_eq in EN; unfold vlen in EN; cbn [s1 sa_b_nv]; lia).
  destruct (sa_bs_set_normals_vec_spec s1 n W1 ltac:(lia)) as [s2 [E2 [W2 [SE2 [H2 M2]]]]].
  rewrite E2. cbn [bind].
  destruct (sa_bs_calc_tangents_spec s2 W2) as [s3 [E3 [W3 TF]]].
  rewrite E3. exists s3. split; [reflexivity|]. split; [exact W3|].
  destruct SE2 as [B1 [B2 [B3 [B4 [B5 [B6 [B7 [B8 [B9 [B10 [B11 [B12 [B13 [B14 [B15 [B16 [B17 [B18 B19]]]]]]]]]]]]]]]]]].
  destruct TF as [C1 [C2 [C3 [C4 [C5 [C6 [C7 [C8 [C9 [C10 [C11 [C12 C13]]]]]]]]]]]].
  destruct B11 as [X|B11]; [discriminate|]. destruct B15 as [X|B15]; [discriminate|].
  split; [rewrite C2, B2; reflexivity|]. split; [rewrite C3, B3; reflexivity|].
  split; [rewrite C1, B1; reflexivity|]. split; [rewrite C5, B8; reflexivity|].
  split; [rewrite C9, B11; unfold s1; cbn [sa_b_vd]; rewrite V2; exact V1|].
  split; [rewrite C4, B7; reflexivity|].
  split.
  { intros m H45 H47 H48. rewrite C8 by exact H48. rewrite B10 by (simpl; congruence). unfold s1; cbn [sa_b_desc]. apply D1; exact H45. }
  split.
  { unfold sa_uv_clause in *. rewrite C10, B15. rewrite C8 by lia. rewrite B10 by (simpl; congruence). exact UC1. }
  unfold sa_normal_clause. rewrite EN. split.
  - rewrite C8 by lia. unfold sa_bs_has in H2. rewrite sa_has_normal in H2. exact H2.
  - rewrite C11, M2. rewrite (sa_firstn_len _ _ LN). reflexivity.
Qed.
End WithOpaque.
