(* C13: lemmas about the vector loops and the vertex-descriptor flag bits of ShapeModel.v. *)
From NiflyVerif Require Import Res ShapeClass ShapeQuant ShapeModel.
From Coq Require Import ZifyBool ZifyNat ZifyN.
Local Open Scope N_scope.

(* ---------- loops ---------- *)

Fixpoint sa_zip {A B} (f : A -> B -> A) (dst : list A) (src : list B) : list A :=
  match dst, src with
  | d :: dst', s :: src' => f d s :: sa_zip f dst' src'
  | _, _ => []
  end.

Lemma sa_upd2_ok {A B} (f : A -> B -> A) : forall n dst src,
  (n <= length dst)%nat -> (n <= length src)%nat ->
  sa_upd2 f n dst src = Ok (sa_zip f (firstn n dst) (firstn n src) ++ skipn n dst).
Proof.
  induction n as [|n IH]; intros dst src H1 H2; simpl.
  - reflexivity.
  - destruct dst as [|d dst]; [simpl in H1; lia|]. destruct src as [|s src]; [simpl in H2; lia|].
    simpl in *. rewrite IH by lia. simpl. reflexivity.
Qed.

Lemma sa_upd2_fault_src {A B} (f : A -> B -> A) : forall n dst src,
  (length src < n)%nat -> (n <= length dst)%nat -> sa_upd2 f n dst src = Fault.
Proof.
  induction n as [|n IH]; intros dst src H1 H2; simpl; [lia|].
  destruct dst as [|d dst]; [simpl in H2; lia|]. destruct src as [|s src]; [reflexivity|].
  simpl in *. rewrite IH by lia. reflexivity.
Qed.

Lemma sa_zip_length {A B} (f : A -> B -> A) : forall dst src, length dst = length src -> length (sa_zip f dst src) = length dst.
Proof. induction dst; destruct src; simpl; intros; try lia. f_equal. apply IHdst. lia. Qed.

Lemma sa_zip_map {A B C} (f : A -> B -> A) (p : A -> C) (e : B -> C) :
  (forall a b, p (f a b) = e b) -> forall dst src, length dst = length src -> map p (sa_zip f dst src) = map e src.
Proof. intros H. induction dst; destruct src; simpl; intros; try lia; auto. rewrite H. f_equal. apply IHdst. lia. Qed.

Lemma sa_zip_frame {A B C} (f : A -> B -> A) (p : A -> C) :
  (forall a b, p (f a b) = p a) -> forall dst src, length dst = length src -> map p (sa_zip f dst src) = map p dst.
Proof. intros H. induction dst; destruct src; simpl; intros; try lia; auto. rewrite H. f_equal. apply IHdst. lia. Qed.

Lemma sa_zip_snd {A} : forall (dst src : list A), length dst = length src -> sa_zip (fun _ x => x) dst src = src.
Proof. induction dst; destruct src; simpl; intros; try lia; auto. f_equal. apply IHdst. lia. Qed.

(* the whole-vector case: n is the length of both *)
Lemma sa_upd2_full {A B} (f : A -> B -> A) dst src :
  length dst = length src -> sa_upd2 f (length dst) dst src = Ok (sa_zip f dst src).
Proof.
  intros H. rewrite sa_upd2_ok by lia. rewrite firstn_all. rewrite H at 1. rewrite firstn_all.
  rewrite skipn_all. rewrite app_nil_r. reflexivity.
Qed.

Lemma sa_rd_ok {A B} (g : A -> B) : forall n src, (n <= length src)%nat -> sa_rd g n src = Ok (map g (firstn n src)).
Proof.
  induction n as [|n IH]; intros src H; simpl; [reflexivity|].
  destruct src as [|s src]; [simpl in H; lia|]. simpl in *. rewrite IH by lia. reflexivity.
Qed.
Lemma sa_rd_full {A B} (g : A -> B) src : sa_rd g (length src) src = Ok (map g src).
Proof. rewrite sa_rd_ok by lia. rewrite firstn_all. reflexivity. Qed.

Fixpoint sa_mapi {A} (f : nat -> A -> A) (i : nat) (l : list A) : list A :=
  match l with [] => [] | x :: r => f i x :: sa_mapi f (S i) r end.
Lemma sa_upd1_ok {A} (f : nat -> A -> A) : forall n i dst, (n <= length dst)%nat ->
  sa_upd1 f i n dst = Ok (sa_mapi f i (firstn n dst) ++ skipn n dst).
Proof.
  induction n as [|n IH]; intros i dst H; simpl; [reflexivity|].
  destruct dst as [|d dst]; [simpl in H; lia|]. simpl in *. rewrite IH by lia. reflexivity.
Qed.
Lemma sa_mapi_length {A} (f : nat -> A -> A) : forall l i, length (sa_mapi f i l) = length l.
Proof. induction l; simpl; intros; auto. Qed.
Lemma sa_mapi_frame {A C} (f : nat -> A -> A) (p : A -> C) : (forall i a, p (f i a) = p a) ->
  forall l i, map p (sa_mapi f i l) = map p l.
Proof. intros H. induction l; simpl; intros; auto. rewrite H, IHl. reflexivity. Qed.
Lemma sa_upd1_full {A} (f : nat -> A -> A) i dst : sa_upd1 f i (length dst) dst = Ok (sa_mapi f i dst).
Proof. rewrite sa_upd1_ok by lia. rewrite firstn_all, skipn_all, app_nil_r. reflexivity. Qed.

Lemma sa_vresize_length {A} (d : A) v n : length (vresize d v n) = N.to_nat n.
Proof. unfold vresize. rewrite app_length, firstn_length, repeat_length. lia. Qed.
Lemma sa_vresize_same {A} (d : A) v n : length v = N.to_nat n -> vresize d v n = v.
Proof.
  intros H. unfold vresize. rewrite <- H. rewrite firstn_all. rewrite Nat.sub_diag. simpl. apply app_nil_r.
Qed.
Lemma sa_vlen_nat {A} (v : list A) : N.to_nat (vlen v) = length v.
Proof. unfold vlen. lia. Qed.

(* ---------- vertex descriptor flag bits ---------- *)

Lemma sa_land_pow2 (x k : N) : N.land x (2 ^ k) = if N.testbit x k then 2 ^ k else 0.
Proof.
  apply N.bits_inj. intros m. rewrite N.land_spec. rewrite N.pow2_bits_eqb.
  destruct (N.eqb_spec k m) as [->|NE].
  - destruct (N.testbit x m) eqn:E; simpl.
    + rewrite N.pow2_bits_eqb. rewrite N.eqb_refl. reflexivity.
    + try rewrite N.bits_0; reflexivity.
  - rewrite andb_false_r. destruct (N.testbit x k).
    + rewrite N.pow2_bits_eqb. destruct (N.eqb_spec k m); [contradiction | reflexivity].
    + try rewrite N.bits_0; reflexivity.
Qed.

Lemma sa_has_flag_bit (d k : N) : sa_has_flag d (2 ^ k) = N.testbit d (44 + k).
Proof.
  unfold sa_has_flag. rewrite sa_land_pow2. rewrite N.shiftr_spec by lia. rewrite (N.add_comm k 44).
  destruct (N.testbit d (44 + k)); simpl.
  - destruct (N.eqb_spec (2 ^ k) 0) as [E|E]; [|reflexivity].
    exfalso. apply (N.pow_nonzero 2 k); [lia | exact E].
  - reflexivity.
Qed.

Lemma sa_set_flag_bit (d k m : N) : N.testbit (sa_set_flag d (2 ^ k)) m = N.testbit d m || (m =? 44 + k).
Proof.
  unfold sa_set_flag. rewrite N.lor_spec. rewrite N.shiftl_mul_pow2. rewrite <- N.pow_add_r.
  rewrite N.pow2_bits_eqb. rewrite (N.add_comm k 44). rewrite (N.eqb_sym m). reflexivity.
Qed.

Lemma sa_remove_flag_bit (d k m : N) : N.testbit (sa_remove_flag d (2 ^ k)) m = N.testbit d m && negb (m =? 44 + k).
Proof.
  unfold sa_remove_flag. rewrite N.ldiff_spec. rewrite N.shiftl_mul_pow2. rewrite <- N.pow_add_r.
  rewrite N.pow2_bits_eqb. rewrite (N.add_comm k 44). rewrite (N.eqb_sym m). reflexivity.
Qed.

Lemma sa_put_flag_bit (d k m : N) (e : bool) :
  N.testbit (sa_put_flag d (2 ^ k) e) m = if m =? 44 + k then e else N.testbit d m.
Proof.
  unfold sa_put_flag. destruct e.
  - rewrite sa_set_flag_bit. destruct (m =? 44 + k); [apply orb_true_r | apply orb_false_r].
  - rewrite sa_remove_flag_bit. destruct (m =? 44 + k); simpl; [apply andb_false_r | apply andb_true_r].
Qed.

(* the flag constants are single bits *)
Lemma sa_vf_pow :
  sa_VF_VERTEX = 2 ^ 0 /\ sa_VF_UV = 2 ^ 1 /\ sa_VF_UV_2 = 2 ^ 2 /\ sa_VF_NORMAL = 2 ^ 3 /\ sa_VF_TANGENT = 2 ^ 4
  /\ sa_VF_COLORS = 2 ^ 5 /\ sa_VF_SKINNED = 2 ^ 6 /\ sa_VF_LANDDATA = 2 ^ 7 /\ sa_VF_EYEDATA = 2 ^ 8 /\ sa_VF_FULLPREC = 2 ^ 10.
Proof. repeat split. Qed.
