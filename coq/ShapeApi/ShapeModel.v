(* C13 (b): the two geometry storage kinds and the NifFile accessor API, line by line.

   Sources (pinned tree):
     NiGeometryData / NiTriBasedGeomData / NiTriShapeData   src/Geometry.cpp:34-263, 1864-1977
     BSTriShape / BSSubIndexTriShape                        src/Geometry.cpp:427-888, 1069-1192, 1314-1353
     VertexDesc                                             include/VertexData.hpp:46-100
     NifFile::Get*ForShape / Set*ForShape                   src/NifFile.cpp:3072-3464, 3667-3682
     NifFile::CreateShapeFromData                           src/NifFile.cpp:2107-2207
     save + reload of one sa_shape (Sync bodies, FinalizeData, PrepareData)   Geometry.cpp:34-109, 436-600,
                                                            1889-1915; NifFile.cpp:129-144, 1977-2079

   Scalars that the code only copies are opaque tokens (the 32-bit pattern of the float, type [sa_F]).
   Where the format stores bytes the quantisation of ShapeQuant.v is applied to the token's value.
   What is NOT modelled and enters as a Section variable (an arbitrary function, no assumption):
     [sa_bsphere]  the Miniball bounding sphere,  [sa_gtan]/[sa_btan] the tangent-space arithmetic
     (only WHERE its results are written and how many are modelled),  [sa_half_rt] binary16 round trip. *)
From NiflyVerif Require Import Res ShapeClass ShapeQuant.
From Coq Require Import QArith.
Local Open Scope N_scope.

Definition sa_F := N.
Definition sa_v3 := (sa_F * sa_F * sa_F)%type.
Definition sa_v2 := (sa_F * sa_F)%type.
Definition sa_c4 := (sa_F * sa_F * sa_F * sa_F)%type.
Definition sa_bnd := (sa_F * sa_F * sa_F * sa_F)%type.
Definition sa_v3z : sa_v3 := (0, 0, 0).
Definition sa_v2z : sa_v2 := (0, 0).
Definition sa_c4z : sa_c4 := (0, 0, 0, 0).
Definition sa_f_one : sa_F := 1065353216.           (* 1.0f *)
Definition sa_c4one : sa_c4 := (sa_f_one, sa_f_one, sa_f_one, sa_f_one).
Definition sa_triz : tri := (0, 0, 0).
Definition sa_b3 := (N * N * N)%type.
Definition sa_b4 := (N * N * N * N)%type.

(* ---------------------------------------------------------------------------------------------- *)
(* loops over vectors.  The C++ loops are index loops  for (i = 0; i < n; i++) dst[i] = f(dst[i], src[i]);
   the models walk both vectors in sa_step with the counter and fault when a vector ends before the
   counter does (operator[] outside the vector). *)

Fixpoint sa_upd2 {A B} (f : A -> B -> A) (n : nat) (dst : list A) (src : list B) : res (list A) :=
  match n with
  | O => Ok dst
  | S n' =>
    match dst, src with
    | d :: dst', s :: src' => bind (sa_upd2 f n' dst' src') (fun r => Ok (f d s :: r))
    | _, _ => Fault
    end
  end.

(* for (i = i0; i < i0 + n; i++) dst[i - i0] = f(i, dst[i - i0]) *)
Fixpoint sa_upd1 {A} (f : nat -> A -> A) (i : nat) (n : nat) (dst : list A) : res (list A) :=
  match n with
  | O => Ok dst
  | S n' =>
    match dst with
    | d :: dst' => bind (sa_upd1 f (S i) n' dst') (fun r => Ok (f i d :: r))
    | [] => Fault
    end
  end.

(* out.resize(n); for (i = 0; i < n; i++) out[i] = g(src[i]) *)
Fixpoint sa_rd {A B} (g : A -> B) (n : nat) (src : list A) : res (list B) :=
  match n with
  | O => Ok []
  | S n' =>
    match src with
    | s :: src' => bind (sa_rd g n' src') (fun r => Ok (g s :: r))
    | [] => Fault
    end
  end.

Definition sa_u16max : N := 65535.
Definition sa_wrap16 (x : N) : N := x mod 65536.
Definition sa_wrap32 (x : N) : N := x mod 4294967296.

(* ---------------------------------------------------------------------------------------------- *)
(* VertexDesc (VertexData.hpp) *)

Definition sa_VF_VERTEX : N := 1.
Definition sa_VF_UV : N := 2.
Definition sa_VF_UV_2 : N := 4.
Definition sa_VF_NORMAL : N := 8.
Definition sa_VF_TANGENT : N := 16.
Definition sa_VF_COLORS : N := 32.
Definition sa_VF_SKINNED : N := 64.
Definition sa_VF_LANDDATA : N := 128.
Definition sa_VF_EYEDATA : N := 256.
Definition sa_VF_FULLPREC : N := 1024.

Definition sa_DESC_MASK_VERT : N := 0xFFFFFFFFFFFFFFF0.
Definition sa_DESC_MASK_OFFSET : N := 0xFFFFFF0000000000.
Definition sa_two64 : N := 18446744073709551616.

Definition sa_set_flag (desc flag : N) : N := N.lor desc (N.shiftl flag 44).        (* desc |= flag << 44 *)
Definition sa_remove_flag (desc flag : N) : N := N.ldiff desc (N.shiftl flag 44).   (* desc &= ~(flag << 44) *)
Definition sa_has_flag (desc flag : N) : bool := negb (N.land (N.shiftr desc 44) flag =? 0).
Definition sa_put_flag (desc flag : N) (enable : bool) : N := if enable then sa_set_flag desc flag else sa_remove_flag desc flag.

(* SetAttributeOffset (VertexData.hpp:83-89): desc = (offset << (4*attr+2)) | (desc & ~(uint64_t(15) << (4*attr+4))),
   all in 64 bits: exactly the attribute's own nibble is cleared.  (Before the repair of
   C13-eyedata-desc-shift the mask was the int expression 15 << (4*attr+4): undefined for attr >= 7, sign-extended
   for attr = 6.)  The result type stays [res] although no branch faults any more. *)
Definition sa_set_attr_offset (desc attr offset : N) : res N :=
  if attr =? 0 then Ok desc
  else Ok (N.lor (N.shiftl offset (4 * attr + 2) mod sa_two64)
                 (N.ldiff desc (N.shiftl 15 (4 * attr + 4) mod sa_two64))).

Definition sa_desc_main_size (desc : N) : N := (N.shiftr (N.land desc 0xFF00) 8) * 4.   (* GetVertexMainSize *)

(* ---------------------------------------------------------------------------------------------- *)
(* BSTriShape storage *)

Record sa_bsvert := sa_mkBV {
  sa_bv_vert : sa_v3; sa_bv_bitX : sa_F; sa_bv_uv : sa_v2;
  sa_bv_n : sa_b3; sa_bv_bitY : N; sa_bv_t : sa_b3; sa_bv_bitZ : N;
  sa_bv_col : sa_b4; sa_bv_eye : sa_F }.
Definition sa_bv_default : sa_bsvert := sa_mkBV sa_v3z 0 sa_v2z (0, 0, 0) 0 (0, 0, 0) 0 (0, 0, 0, 0) 0.

Inductive sa_bskind := sa_KTri | sa_KSubIndex.
(* segmentation summary of BSSubIndexTriShape: numPrimitives, numSegments, numTotalSegments,
   segments.size(), segments.back().numPrimitives *)
Definition sa_segsum := (N * N * N * N * N)%type.
Definition sa_seg_none : sa_segsum := (0, 0, 0, 0, 0).

Record sa_bstri := sa_mkBS {
  sa_b_kind : sa_bskind; sa_b_nv : N; sa_b_nt : N; sa_b_desc : N; sa_b_dataSize : N; sa_b_vertexSize : N;
  sa_b_bounds : sa_bnd; sa_b_vd : list sa_bsvert; sa_b_tris : list tri; sa_b_seg : sa_segsum }.

Definition sa_bs_with_desc (s : sa_bstri) (d : N) : sa_bstri :=
  sa_mkBS (sa_b_kind s) (sa_b_nv s) (sa_b_nt s) d (sa_b_dataSize s) (sa_b_vertexSize s) (sa_b_bounds s) (sa_b_vd s) (sa_b_tris s) (sa_b_seg s).
Definition sa_bs_with_vd (s : sa_bstri) (vd : list sa_bsvert) : sa_bstri :=
  sa_mkBS (sa_b_kind s) (sa_b_nv s) (sa_b_nt s) (sa_b_desc s) (sa_b_dataSize s) (sa_b_vertexSize s) (sa_b_bounds s) vd (sa_b_tris s) (sa_b_seg s).
Definition sa_bs_with_bounds (s : sa_bstri) (b : sa_bnd) : sa_bstri :=
  sa_mkBS (sa_b_kind s) (sa_b_nv s) (sa_b_nt s) (sa_b_desc s) (sa_b_dataSize s) (sa_b_vertexSize s) b (sa_b_vd s) (sa_b_tris s) (sa_b_seg s).
Definition sa_bs_with_tris (s : sa_bstri) (nt : N) (t : list tri) : sa_bstri :=
  sa_mkBS (sa_b_kind s) (sa_b_nv s) nt (sa_b_desc s) (sa_b_dataSize s) (sa_b_vertexSize s) (sa_b_bounds s) (sa_b_vd s) t (sa_b_seg s).
Definition sa_bs_with_seg (s : sa_bstri) (g : sa_segsum) : sa_bstri :=
  sa_mkBS (sa_b_kind s) (sa_b_nv s) (sa_b_nt s) (sa_b_desc s) (sa_b_dataSize s) (sa_b_vertexSize s) (sa_b_bounds s) (sa_b_vd s) (sa_b_tris s) g.

(* BSTriShape::BSTriShape(): flags VERTEX | UV | NORMAL | TANGENT | SKINNED *)
Definition sa_bs_new (k : sa_bskind) : sa_bstri :=
  sa_mkBS k 0 0 (N.shiftl 91 44) 0 0 (0, 0, 0, 0) [] [] sa_seg_none.

Definition sa_bs_has (s : sa_bstri) (flag : N) : bool := sa_has_flag (sa_b_desc s) flag.

(* field writers of one vertex *)
Definition sa_bv_set_vert (v : sa_bsvert) (x : sa_v3) : sa_bsvert :=
  sa_mkBV x (sa_bv_bitX v) (sa_bv_uv v) (sa_bv_n v) (sa_bv_bitY v) (sa_bv_t v) (sa_bv_bitZ v) (sa_bv_col v) (sa_bv_eye v).
Definition sa_bv_set_uv (v : sa_bsvert) (x : sa_v2) : sa_bsvert :=
  sa_mkBV (sa_bv_vert v) (sa_bv_bitX v) x (sa_bv_n v) (sa_bv_bitY v) (sa_bv_t v) (sa_bv_bitZ v) (sa_bv_col v) (sa_bv_eye v).
Definition sa_bv_set_n (v : sa_bsvert) (x : sa_b3) : sa_bsvert :=
  sa_mkBV (sa_bv_vert v) (sa_bv_bitX v) (sa_bv_uv v) x (sa_bv_bitY v) (sa_bv_t v) (sa_bv_bitZ v) (sa_bv_col v) (sa_bv_eye v).
Definition sa_bv_set_t (v : sa_bsvert) (x : sa_b3) : sa_bsvert :=
  sa_mkBV (sa_bv_vert v) (sa_bv_bitX v) (sa_bv_uv v) (sa_bv_n v) (sa_bv_bitY v) x (sa_bv_bitZ v) (sa_bv_col v) (sa_bv_eye v).
Definition sa_bv_set_bit (v : sa_bsvert) (x : sa_F) (y z : N) : sa_bsvert :=
  sa_mkBV (sa_bv_vert v) x (sa_bv_uv v) (sa_bv_n v) y (sa_bv_t v) z (sa_bv_col v) (sa_bv_eye v).
Definition sa_bv_set_col (v : sa_bsvert) (x : sa_b4) : sa_bsvert :=
  sa_mkBV (sa_bv_vert v) (sa_bv_bitX v) (sa_bv_uv v) (sa_bv_n v) (sa_bv_bitY v) (sa_bv_t v) (sa_bv_bitZ v) x (sa_bv_eye v).
Definition sa_bv_set_eye (v : sa_bsvert) (x : sa_F) : sa_bsvert :=
  sa_mkBV (sa_bv_vert v) (sa_bv_bitX v) (sa_bv_uv v) (sa_bv_n v) (sa_bv_bitY v) (sa_bv_t v) (sa_bv_bitZ v) (sa_bv_col v) x.

(* the byte encoders on float tokens *)
Definition sa_nbyte (x : sa_F) : N := sa_u8 (sa_norm_enc (sa_f32_val x)).
Definition sa_cbyte (x : sa_F) : N := sa_u8 (sa_col_enc (sa_f32_val x)).
Definition sa_nbyte3 (x : sa_v3) : sa_b3 := let '(a, b, c) := x in (sa_nbyte a, sa_nbyte b, sa_nbyte c).
Definition sa_cbyte4 (x : sa_c4) : sa_b4 := let '(r, g, b, a) := x in (sa_cbyte r, sa_cbyte g, sa_cbyte b, sa_cbyte a).
(* bitangent: x is kept as a float, y and z are byte-quantised (Geometry.cpp:877-879) *)
Definition sa_bv_set_bitv (v : sa_bsvert) (x : sa_v3) : sa_bsvert :=
  let '(x0, y, z) := x in sa_bv_set_bit v x0 (sa_nbyte y) (sa_nbyte z).
(* and the decoders the getters apply: exact values (the C++ computes them in binary32) *)
Definition sa_ndec (b : N) : Q := sa_norm_dec (Z.of_N b).
Definition sa_cdec (b : N) : Q := sa_col_dec (Z.of_N b).
Definition sa_ndec3 (x : sa_b3) : Q * Q * Q := let '(a, b, c) := x in (sa_ndec a, sa_ndec b, sa_ndec c).
Definition sa_cdec4 (x : sa_b4) : Q * Q * Q * Q := let '(r, g, b, a) := x in (sa_cdec r, sa_cdec g, sa_cdec b, sa_cdec a).

(* flag setters, Geometry.cpp:758-825 *)
Definition sa_bs_flag_uvs (s : sa_bstri) (e : bool) := sa_bs_with_desc s (sa_put_flag (sa_b_desc s) sa_VF_UV e).
Definition sa_bs_flag_normals (s : sa_bstri) (e : bool) := sa_bs_with_desc s (sa_put_flag (sa_b_desc s) sa_VF_NORMAL e).
Definition sa_bs_flag_tangents (s : sa_bstri) (e : bool) := sa_bs_with_desc s (sa_put_flag (sa_b_desc s) sa_VF_TANGENT e).
Definition sa_bs_flag_skinned (s : sa_bstri) (e : bool) := sa_bs_with_desc s (sa_put_flag (sa_b_desc s) sa_VF_SKINNED e).
Definition sa_bs_flag_eye (s : sa_bstri) (e : bool) := sa_bs_with_desc s (sa_put_flag (sa_b_desc s) sa_VF_EYEDATA e).
Definition sa_bs_flag_colors (s : sa_bstri) (e : bool) : sa_bstri :=
  if e then
    let s1 := if sa_bs_has s sa_VF_COLORS then s
              else sa_bs_with_vd s (map (fun v => sa_bv_set_col v (255, 255, 255, 255)) (sa_b_vd s)) in
    sa_bs_with_desc s1 (sa_set_flag (sa_b_desc s1) sa_VF_COLORS)
  else sa_bs_with_desc s (sa_remove_flag (sa_b_desc s) sa_VF_COLORS).
Definition sa_bs_set_fullprec (s : sa_bstri) (e : bool) : sa_bstri :=
  if negb (sa_bs_has s sa_VF_VERTEX) then s else sa_bs_with_desc s (sa_put_flag (sa_b_desc s) sa_VF_FULLPREC e).

Section Model.
  Variable sa_bsphere : list sa_v3 -> sa_bnd.
  (* tangent-space results for vertex i: BSTriShape (tangent bytes, bitangentX, bitangentY, bitangentZ) *)
  Variable sa_btan : list sa_bsvert -> list tri -> nat -> sa_b3 * sa_F * N * N.
  (* NiTriShapeData (tangent, bitangent) from vertices, uv set 0, normals, triangles, numTriangles *)
  Variable sa_gtan : list sa_v3 -> list sa_v2 -> list sa_v3 -> list tri -> N -> nat -> sa_v3 * sa_v3.
  Variable sa_half_rt : sa_F -> sa_F.

  (* BSTriShape::SetNormals(const vector<Vector3>&), Geometry.cpp:851-861: no size check *)
  Definition sa_bs_set_normals_vec (s : sa_bstri) (ns : list sa_v3) : res sa_bstri :=
    let s1 := sa_bs_flag_normals s true in
    bind (sa_upd2 (fun v x => sa_bv_set_n v (sa_nbyte3 x)) (N.to_nat (sa_b_nv s1)) (sa_b_vd s1) ns)
         (fun vd => Ok (sa_bs_with_vd s1 vd)).

  (* Geometry.cpp:863-888 *)
  Definition sa_bs_set_tangent_data (s : sa_bstri) (ts : list sa_v3) : res sa_bstri :=
    let s1 := sa_bs_flag_tangents s true in
    bind (sa_upd2 (fun v x => sa_bv_set_t v (sa_nbyte3 x)) (N.to_nat (sa_b_nv s1)) (sa_b_vd s1) ts)
         (fun vd => Ok (sa_bs_with_vd s1 vd)).
  Definition sa_bs_set_bitangent_data (s : sa_bstri) (bs : list sa_v3) : res sa_bstri :=
    let s1 := sa_bs_flag_tangents s true in
    bind (sa_upd2 sa_bv_set_bitv (N.to_nat (sa_b_nv s1)) (sa_b_vd s1) bs)
         (fun vd => Ok (sa_bs_with_vd s1 vd)).
  Definition sa_bs_set_eye_data (s : sa_bstri) (es : list sa_F) : res sa_bstri :=
    let s1 := sa_bs_flag_eye s true in
    bind (sa_upd2 sa_bv_set_eye (N.to_nat (sa_b_nv s1)) (sa_b_vd s1) es) (fun vd => Ok (sa_bs_with_vd s1 vd)).

  (* BSTriShape::CalcTangentSpace, Geometry.cpp:970-1067: writes tangent, bitangentX/Y/Z of every vertex *)
  Definition sa_bs_calc_tangents (s : sa_bstri) : res sa_bstri :=
    if negb (sa_bs_has s sa_VF_NORMAL) || negb (sa_bs_has s sa_VF_UV) then Ok s
    else
      let s1 := sa_bs_flag_tangents s true in
      bind (sa_upd1 (fun i v => let '(t, bx, by_, bz) := sa_btan (sa_b_vd s1) (sa_b_tris s1) i in
                              sa_bv_set_bit (sa_bv_set_t v t) bx by_ bz)
                 0 (N.to_nat (sa_b_nv s1)) (sa_b_vd s1))
           (fun vd => Ok (sa_bs_with_vd s1 vd)).

  (* BSTriShape::Create, Geometry.cpp:1131-1192 *)
  Definition sa_bs_create_base (ver : sa_version) (s : sa_bstri) (verts : list sa_v3) (tris : option (list tri))
             (uvs : option (list sa_v2)) (norms : option (list sa_v3)) : res sa_bstri :=
    let nv := if sa_u16max <? vlen verts then sa_u16max else vlen verts in
    let maxTri := sa_tri_limit ver in
    let triCount := match tris with Some t => vlen t | None => 0 end in
    let nt := if nv =? 0 then 0 else if maxTri <? triCount then maxTri else triCount in
    let vd0 := vresize sa_bv_default (sa_b_vd s) nv in
    let desc1 := match uvs with
                 | Some u => if negb (vlen u =? nv) then sa_remove_flag (sa_b_desc s) sa_VF_UV else sa_b_desc s
                 | None => sa_b_desc s
                 end in
    let use_uv := match uvs with Some u => vlen u =? nv | None => false end in
    let uvl := match uvs with Some u => u | None => [] end in
    (* per vertex: vert, (uv), bitangent x/y/z, normal, colour, (weights), eye; the tangent bytes are not touched *)
    let init (v : sa_bsvert) (x : sa_v3) : sa_bsvert :=
      sa_mkBV x 0 (sa_bv_uv v) (0, 0, 0) 0 (sa_bv_t v) 0 (255, 255, 255, 255) 0 in
    bind (sa_upd2 init (N.to_nat nv) vd0 verts) (fun vd1 =>
    bind (if use_uv then sa_upd2 sa_bv_set_uv (N.to_nat nv) vd1 uvl else Ok vd1) (fun vd2 =>
    let tl := match tris with Some t => t | None => [] end in
    bind (sa_upd2 (fun _ x => x) (N.to_nat nt) (vresize sa_triz (sa_b_tris s) nt) tl) (fun tr =>
    bind (sa_rd sa_bv_vert (N.to_nat nv) vd2) (fun raw =>
    let s1 := sa_mkBS (sa_b_kind s) nv nt desc1 (sa_b_dataSize s) (sa_b_vertexSize s) (sa_bsphere raw) vd2 tr (sa_b_seg s) in
    match norms with
    | Some n =>
      if vlen n =? nv then bind (sa_bs_set_normals_vec s1 n) sa_bs_calc_tangents
      else Ok (sa_bs_flag_tangents (sa_bs_flag_normals s1 false) false)
    | None => Ok (sa_bs_flag_tangents (sa_bs_flag_normals s1 false) false)
    end)))).

  (* virtual Create: BSSubIndexTriShape::Create adds SetSkinned(true) and SetDefaultSegments() *)
  Definition sa_bs_create (ver : sa_version) (s : sa_bstri) verts tris uvs norms : res sa_bstri :=
    bind (sa_bs_create_base ver s verts tris uvs norms) (fun s1 =>
    match sa_b_kind s1 with
    | sa_KTri => Ok s1
    | sa_KSubIndex => Ok (sa_bs_with_seg (sa_bs_flag_skinned s1 true) (sa_b_nt s1, 4, 4, 4, sa_b_nt s1))
    end).

  (* NifFile setters on BSTriShape, NifFile.cpp:3346-3464, 3677-3681 *)
  Definition sa_bs_api_set_verts (ver : sa_version) (s : sa_bstri) (verts : list sa_v3) : res sa_bstri :=
    if negb (vlen verts =? sa_b_nv s) then sa_bs_create ver s verts None None None
    else bind (sa_upd2 sa_bv_set_vert (N.to_nat (sa_b_nv s)) (sa_b_vd s) verts) (fun vd => Ok (sa_bs_with_vd s vd)).
  Definition sa_bs_api_set_uvs (s : sa_bstri) (uvs : list sa_v2) : res sa_bstri :=
    if vlen uvs =? sa_b_nv s then
      let s1 := sa_bs_flag_uvs s true in
      bind (sa_upd2 sa_bv_set_uv (N.to_nat (sa_b_nv s1)) (sa_b_vd s1) uvs) (fun vd => Ok (sa_bs_with_vd s1 vd))
    else Ok s.
  Definition sa_bs_api_set_colors (s : sa_bstri) (cs : list sa_c4) : res sa_bstri :=
    if vlen cs =? sa_b_nv s then
      let s1 := sa_bs_flag_colors s true in
      bind (sa_upd2 (fun v x => sa_bv_set_col v (sa_cbyte4 x)) (N.to_nat (sa_b_nv s1)) (sa_b_vd s1) cs)
           (fun vd => Ok (sa_bs_with_vd s1 vd))
    else Ok s.
  Definition sa_bs_api_set_normals (s : sa_bstri) (ns : list sa_v3) : res sa_bstri := sa_bs_set_normals_vec s ns.
  Definition sa_bs_api_set_tangents (s : sa_bstri) (ts : list sa_v3) : res sa_bstri :=
    if vlen ts =? sa_b_nv s then sa_bs_set_tangent_data s ts else Ok s.
  Definition sa_bs_api_set_bitangents (s : sa_bstri) (bs : list sa_v3) : res sa_bstri :=
    if vlen bs =? sa_b_nv s then sa_bs_set_bitangent_data s bs else Ok s.
  Definition sa_bs_api_set_eye (s : sa_bstri) (es : list sa_F) : res sa_bstri :=
    if vlen es =? sa_b_nv s then sa_bs_set_eye_data s es else Ok s.
  (* BSTriShape::SetTriangles, Geometry.cpp:836-839 *)
  Definition sa_bs_set_tris (s : sa_bstri) (t : list tri) : sa_bstri := sa_bs_with_tris s (sa_wrap32 (vlen t)) t.
  Definition sa_bs_update_bounds (s : sa_bstri) : res sa_bstri :=
    bind (sa_rd sa_bv_vert (N.to_nat (sa_b_nv s)) (sa_b_vd s)) (fun raw => Ok (sa_bs_with_bounds s (sa_bsphere raw))).

  (* getters (bool variants, NifFile.cpp:3189-3332; the pointer variants go through UpdateRaw*, which
     read the same fields under the same flag; GetNormalsForShape exists only as pointer variant) *)
  Definition sa_bs_get_verts (s : sa_bstri) : res (list sa_v3) := sa_rd sa_bv_vert (N.to_nat (sa_b_nv s)) (sa_b_vd s).
  Definition sa_bs_get_uvs (s : sa_bstri) : res (option (list sa_v2)) :=
    if sa_bs_has s sa_VF_UV then bind (sa_rd sa_bv_uv (N.to_nat (sa_b_nv s)) (sa_b_vd s)) (fun l => Ok (Some l)) else Ok None.
  Definition sa_bs_get_normals (s : sa_bstri) : res (option (list (Q * Q * Q))) :=
    if sa_bs_has s sa_VF_NORMAL then bind (sa_rd (fun v => sa_ndec3 (sa_bv_n v)) (N.to_nat (sa_b_nv s)) (sa_b_vd s)) (fun l => Ok (Some l))
    else Ok None.
  Definition sa_bs_get_tangents (s : sa_bstri) : res (option (list (Q * Q * Q))) :=
    if sa_bs_has s sa_VF_TANGENT then bind (sa_rd (fun v => sa_ndec3 (sa_bv_t v)) (N.to_nat (sa_b_nv s)) (sa_b_vd s)) (fun l => Ok (Some l))
    else Ok None.
  Definition sa_bs_get_bitangents (s : sa_bstri) : res (option (list (sa_F * Q * Q))) :=
    if sa_bs_has s sa_VF_TANGENT then
      bind (sa_rd (fun v => (sa_bv_bitX v, sa_ndec (sa_bv_bitY v), sa_ndec (sa_bv_bitZ v))) (N.to_nat (sa_b_nv s)) (sa_b_vd s))
           (fun l => Ok (Some l))
    else Ok None.
  Definition sa_bs_get_colors (s : sa_bstri) : res (option (list (Q * Q * Q * Q))) :=
    if sa_bs_has s sa_VF_COLORS then bind (sa_rd (fun v => sa_cdec4 (sa_bv_col v)) (N.to_nat (sa_b_nv s)) (sa_b_vd s)) (fun l => Ok (Some l))
    else Ok None.
  Definition sa_bs_get_eye (s : sa_bstri) : res (option (list sa_F)) :=
    if sa_bs_has s sa_VF_EYEDATA then bind (sa_rd sa_bv_eye (N.to_nat (sa_b_nv s)) (sa_b_vd s)) (fun l => Ok (Some l)) else Ok None.
  Definition sa_bs_get_tris (s : sa_bstri) : list tri := sa_b_tris s.

  (* BSTriShape::CalcDataSizes, Geometry.cpp:1069-1129 *)
  Definition sa_bs_attr_sizes (ver : sa_version) (s : sa_bstri) : list N :=
    [ if sa_bs_has s sa_VF_VERTEX then (if sa_bs_has s sa_VF_FULLPREC || (sa_vstream ver =? 100) then 4 else 2) else 0;
      if sa_bs_has s sa_VF_UV then 1 else 0;
      if sa_bs_has s sa_VF_UV_2 then 1 else 0;
      if sa_bs_has s sa_VF_NORMAL then 1 else 0;
      if sa_bs_has s sa_VF_NORMAL && sa_bs_has s sa_VF_TANGENT then 1 else 0;
      if sa_bs_has s sa_VF_COLORS then 1 else 0;
      if sa_bs_has s sa_VF_SKINNED then 3 else 0;
      0;
      if sa_bs_has s sa_VF_EYEDATA then 1 else 0 ].
  Fixpoint sa_attr_loop (sizes : list N) (va : N) (desc vsize : N) : res (N * N) :=
    match sizes with
    | [] => Ok (desc, vsize)
    | sz :: rest =>
      if sz =? 0 then sa_attr_loop rest (va + 1) desc vsize
      else bind (sa_set_attr_offset desc va vsize) (fun d => sa_attr_loop rest (va + 1) d (vsize + sz * 4))
    end.
  Definition sa_bs_calc_data_sizes (ver : sa_version) (s : sa_bstri) : res sa_bstri :=
    let vf := sa_wrap16 (N.shiftr (N.land (sa_b_desc s) sa_DESC_MASK_OFFSET) 44) in          (* GetFlags: VertexFlags is uint16_t *)
    let d0 := N.land (sa_b_desc s) sa_DESC_MASK_OFFSET in                                 (* ClearAttributeOffsets *)
    bind (sa_attr_loop (sa_bs_attr_sizes ver s) 0 d0 0) (fun '(d1, vsize) =>
    let d2 := N.lor (N.land d1 sa_DESC_MASK_VERT) (N.shiftr vsize 2) in                (* SetSize *)
    let d3 := N.lor d2 (N.shiftl vf 44) in                                          (* SetFlags *)
    let ds := sa_wrap32 (vsize * sa_b_nv s + 6 * sa_b_nt s) in
    Ok (sa_mkBS (sa_b_kind s) (sa_b_nv s) (sa_b_nt s) d3 ds vsize (sa_b_bounds s) (sa_b_vd s) (sa_b_tris s) (sa_b_seg s))).

  Definition sa_sse_range (ver : sa_version) : bool := (12 <=? sa_vuser ver) && (sa_vstream ver <? 130).

  (* Save = FinalizeData (CalcDataSizes) ; Optimize (UpdateBounds) ; write.  In-memory effect of writing:
     vertData.resize(numVertices), triangles.resize(numTriangles) (Geometry.cpp:496, 568). *)
  Definition sa_bs_after_save (ver : sa_version) (optimize : bool) (s : sa_bstri) : res sa_bstri :=
    bind (sa_bs_calc_data_sizes ver s) (fun s1 =>
    bind (if optimize then sa_bs_update_bounds s1 else Ok s1) (fun s2 =>
    if sa_sse_range ver && sa_bs_has s2 sa_VF_SKINNED then Ok s2     (* vertex data goes to the partition: nothing synced *)
    else Ok (sa_mkBS (sa_b_kind s2) (sa_b_nv s2) (sa_b_nt s2) (sa_b_desc s2) (sa_b_dataSize s2) (sa_b_vertexSize s2) (sa_b_bounds s2)
                  (vresize sa_bv_default (sa_b_vd s2) (sa_b_nv s2)) (vresize sa_triz (sa_b_tris s2) (sa_b_nt s2)) (sa_b_seg s2)))).

  (* what one vertex looks like after write + read under the descriptor [d] (Geometry.cpp:501-565) *)
  Definition sa_bs_store_vertex (ver : sa_version) (d : N) (v : sa_bsvert) : sa_bsvert :=
    let full := sa_has_flag d sa_VF_FULLPREC || (sa_vstream ver =? 100) in
    let h (x : sa_F) : sa_F := if full then x else sa_half_rt x in
    let h3 (x : sa_v3) : sa_v3 := let '(a, b, c) := x in (h a, h b, h c) in
    let hasv := sa_has_flag d sa_VF_VERTEX in
    sa_mkBV (if hasv then h3 (sa_bv_vert v) else sa_v3z)
         (if hasv then h (sa_bv_bitX v) else 0)
         (if sa_has_flag d sa_VF_UV then (sa_half_rt (fst (sa_bv_uv v)), sa_half_rt (snd (sa_bv_uv v))) else sa_v2z)
         (if sa_has_flag d sa_VF_NORMAL then sa_bv_n v else (0, 0, 0))
         (if sa_has_flag d sa_VF_NORMAL then sa_bv_bitY v else 0)
         (if sa_has_flag d sa_VF_NORMAL && sa_has_flag d sa_VF_TANGENT then sa_bv_t v else (0, 0, 0))
         (if sa_has_flag d sa_VF_NORMAL && sa_has_flag d sa_VF_TANGENT then sa_bv_bitZ v else 0)
         (if sa_has_flag d sa_VF_COLORS then sa_bv_col v else (0, 0, 0, 0))
         (if sa_has_flag d sa_VF_EYEDATA then sa_bv_eye v else 0).

  Definition sa_tri_valid (nv : N) (t : tri) : bool := let '(a, b, c) := t in (a <? nv) && (b <? nv) && (c <? nv).

  (* the freshly loaded sa_shape: BSTriShape::Sync in reading mode on what [s] (already finalised) wrote,
     then PrepareData's RemoveInvalidTris *)
  Definition sa_bs_reload (ver : sa_version) (s : sa_bstri) : res sa_bstri :=
    if sa_sse_range ver && sa_bs_has s sa_VF_SKINNED then
      Ok (sa_mkBS (sa_b_kind s) 0 0 (sa_b_desc s) 0 0 (sa_b_bounds s) [] [] sa_seg_none)
    else if sa_sse_range ver && (65536 <=? sa_b_nt s) then Fault     (* 16-bit count field, all triangles written: unreadable *)
    else if 16 <? sa_desc_main_size (sa_b_desc s) then Fault         (* extra float elements: not modelled *)
    else
      let vd := if 0 <? sa_b_dataSize s then map (sa_bs_store_vertex ver (sa_b_desc s)) (sa_b_vd s)
                else repeat sa_bv_default (N.to_nat (sa_b_nv s)) in
      let tr := if 0 <? sa_b_dataSize s then sa_b_tris s else repeat sa_triz (N.to_nat (sa_b_nt s)) in
      let tr' := filter (sa_tri_valid (sa_b_nv s)) tr in
      let seg := match sa_b_kind s with
                 | sa_KSubIndex => if (130 <=? sa_vstream ver) && (0 <? sa_b_dataSize s) then sa_b_seg s else sa_seg_none
                 | sa_KTri => sa_seg_none
                 end in
      Ok (sa_mkBS (sa_b_kind s) (sa_b_nv s) (sa_wrap32 (vlen tr')) (sa_b_desc s) (sa_b_dataSize s) 0 (sa_b_bounds s) vd tr' seg).

  (* -------------------------------------------------------------------------------------------- *)
  (* NiTriShapeData storage *)

  Record sa_geom := sa_mkG {
    sa_g_nv : N; sa_g_hv : bool; sa_g_hn : bool; sa_g_hc : bool; sa_g_bounds : sa_bnd;
    sa_g_verts : list sa_v3; sa_g_norms : list sa_v3; sa_g_tans : list sa_v3; sa_g_bits : list sa_v3; sa_g_cols : list sa_c4;
    sa_g_df : N; sa_g_uvs : list (list sa_v2);
    sa_g_nt : N; sa_g_ntp : N; sa_g_ht : bool; sa_g_tris : list tri;
    sa_g_xtan : option (list sa_v3 * list sa_v3)      (* OB: "Tangent space (binormal & tangent vectors)" extra data *)
  }.
  Definition sa_geom_new : sa_geom := sa_mkG 0 true false false (0, 0, 0, 0) [] [] [] [] [] 0 [] 0 0 false [] None.

  Definition sa_g_has_uvs (g : sa_geom) : bool := N.testbit (sa_g_df g) 0.
  Definition sa_g_has_tangents (g : sa_geom) : bool := N.testbit (sa_g_df g) 12.

  (* Geometry.cpp:143-182 *)
  Definition sa_g_set_normals (g : sa_geom) (e : bool) : sa_geom :=
    sa_mkG (sa_g_nv g) (sa_g_hv g) e (sa_g_hc g) (sa_g_bounds g) (sa_g_verts g)
        (if e then vresize sa_v3z (sa_g_norms g) (sa_g_nv g) else []) (sa_g_tans g) (sa_g_bits g) (sa_g_cols g)
        (sa_g_df g) (sa_g_uvs g) (sa_g_nt g) (sa_g_ntp g) (sa_g_ht g) (sa_g_tris g) (sa_g_xtan g).
  Definition sa_g_set_colors (g : sa_geom) (e : bool) : sa_geom :=
    sa_mkG (sa_g_nv g) (sa_g_hv g) (sa_g_hn g) e (sa_g_bounds g) (sa_g_verts g) (sa_g_norms g) (sa_g_tans g) (sa_g_bits g)
        (if e then vresize sa_c4one (sa_g_cols g) (sa_g_nv g) else [])
        (sa_g_df g) (sa_g_uvs g) (sa_g_nt g) (sa_g_ntp g) (sa_g_ht g) (sa_g_tris g) (sa_g_xtan g).
  Definition sa_g_set_uvs (g : sa_geom) (e : bool) : sa_geom :=
    sa_mkG (sa_g_nv g) (sa_g_hv g) (sa_g_hn g) (sa_g_hc g) (sa_g_bounds g) (sa_g_verts g) (sa_g_norms g) (sa_g_tans g) (sa_g_bits g) (sa_g_cols g)
        (if e then N.lor (sa_g_df g) 1 else N.ldiff (sa_g_df g) 1)
        (if e then match vresize [] (sa_g_uvs g) 1 with
                   | u0 :: rest => vresize sa_v2z u0 (sa_g_nv g) :: rest
                   | [] => []
                   end
         else [])
        (sa_g_nt g) (sa_g_ntp g) (sa_g_ht g) (sa_g_tris g) (sa_g_xtan g).
  Definition sa_g_set_tangents (g : sa_geom) (e : bool) : sa_geom :=
    sa_mkG (sa_g_nv g) (sa_g_hv g) (sa_g_hn g) (sa_g_hc g) (sa_g_bounds g) (sa_g_verts g) (sa_g_norms g)
        (if e then vresize sa_v3z (sa_g_tans g) (sa_g_nv g) else [])
        (if e then vresize sa_v3z (sa_g_bits g) (sa_g_nv g) else []) (sa_g_cols g)
        (if e then N.lor (sa_g_df g) 4096 else N.ldiff (sa_g_df g) 4096) (sa_g_uvs g)
        (sa_g_nt g) (sa_g_ntp g) (sa_g_ht g) (sa_g_tris g) (sa_g_xtan g).

  Definition sa_g_with_tb (g : sa_geom) (t b : list sa_v3) : sa_geom :=
    sa_mkG (sa_g_nv g) (sa_g_hv g) (sa_g_hn g) (sa_g_hc g) (sa_g_bounds g) (sa_g_verts g) (sa_g_norms g) t b (sa_g_cols g)
        (sa_g_df g) (sa_g_uvs g) (sa_g_nt g) (sa_g_ntp g) (sa_g_ht g) (sa_g_tris g) (sa_g_xtan g).

  (* NiTriShapeData::CalcTangentSpace, Geometry.cpp:1990-2070 *)
  Definition sa_g_calc_tangents (g : sa_geom) : res sa_geom :=
    if negb (sa_g_hn g) || negb (sa_g_has_uvs g) then Ok g
    else
      let g1 := sa_g_set_tangents g true in
      let f := sa_gtan (sa_g_verts g1) (match sa_g_uvs g1 with u :: _ => u | [] => [] end) (sa_g_norms g1) (sa_g_tris g1) (sa_g_nt g1) in
      bind (sa_upd1 (fun i _ => snd (f i)) 0 (N.to_nat (sa_g_nv g1)) (sa_g_bits g1)) (fun b =>
      bind (sa_upd1 (fun i _ => fst (f i)) 0 (N.to_nat (sa_g_nv g1)) (sa_g_tans g1)) (fun t =>
      Ok (sa_g_with_tb g1 t b))).

  (* NiGeometryData::Create, Geometry.cpp:196-243; the uv part and the normal part *)
  Definition sa_g_create_uvs (g1 : sa_geom) (nv : N) (uvs : option (list sa_v2)) : res sa_geom :=
    match uvs with
    | Some u =>
      if vlen u =? nv then
        let g2 := sa_g_set_uvs g1 true in
        match sa_g_uvs g2 with
        | u0 :: rest =>
          bind (sa_upd2 (fun _ x => x) (length u0) u0 u) (fun u0' =>
          Ok (sa_mkG (sa_g_nv g2) (sa_g_hv g2) (sa_g_hn g2) (sa_g_hc g2) (sa_g_bounds g2) (sa_g_verts g2) (sa_g_norms g2) (sa_g_tans g2)
                  (sa_g_bits g2) (sa_g_cols g2) (sa_g_df g2) (u0' :: rest) (sa_g_nt g2) (sa_g_ntp g2) (sa_g_ht g2) (sa_g_tris g2) (sa_g_xtan g2)))
        | [] => Fault
        end
      else Ok (sa_g_set_uvs g1 false)
    | None => Ok (sa_g_set_uvs g1 false)
    end.
  Definition sa_g_create_norms (g3 : sa_geom) (nv : N) (norms : option (list sa_v3)) : res sa_geom :=
    match norms with
    | Some n =>
      if vlen n =? nv then
        let g4 := sa_g_set_normals g3 true in
        sa_g_calc_tangents (sa_mkG (sa_g_nv g4) (sa_g_hv g4) (sa_g_hn g4) (sa_g_hc g4) (sa_g_bounds g4) (sa_g_verts g4) n (sa_g_tans g4)
                             (sa_g_bits g4) (sa_g_cols g4) (sa_g_df g4) (sa_g_uvs g4) (sa_g_nt g4) (sa_g_ntp g4) (sa_g_ht g4) (sa_g_tris g4) (sa_g_xtan g4))
      else Ok (sa_g_set_tangents (sa_g_set_normals g3 false) false)
    | None => Ok (sa_g_set_tangents (sa_g_set_normals g3 false) false)
    end.
  Definition sa_g_create_data (g : sa_geom) (verts : list sa_v3) (uvs : option (list sa_v2)) (norms : option (list sa_v3)) : res sa_geom :=
    let nv := if sa_u16max <? vlen verts then sa_u16max else vlen verts in
    bind (sa_upd2 (fun _ x => x) (N.to_nat nv) (vresize sa_v3z (sa_g_verts g) nv) verts) (fun vs =>
    (* SetVertexColors(hasVertexColors): the colour array follows the new vertex count *)
    let g1 := sa_g_set_colors
                (sa_mkG nv (sa_g_hv g) (sa_g_hn g) (sa_g_hc g) (sa_bsphere vs) vs (sa_g_norms g) (sa_g_tans g) (sa_g_bits g) (sa_g_cols g)
                  (sa_g_df g) (sa_g_uvs g) (sa_g_nt g) (sa_g_ntp g) (sa_g_ht g) (sa_g_tris g) (sa_g_xtan g)) (sa_g_hc g) in
    bind (sa_g_create_uvs g1 nv uvs) (fun g3 => sa_g_create_norms g3 nv norms)).

  (* NiTriBasedGeomData::Create + NiTriShapeData::Create, Geometry.cpp:1868-1943 *)
  Definition sa_g_create (g : sa_geom) (verts : list sa_v3) (tris : option (list tri)) (uvs : option (list sa_v2))
             (norms : option (list sa_v3)) : res sa_geom :=
    bind (sa_g_create_data g verts uvs norms) (fun g1 =>
    let nt := match tris with
              | Some t => if sa_g_nv g1 =? 0 then 0 else if sa_u16max <? vlen t then sa_u16max else vlen t
              | None => sa_g_nt g1
              end in
    let ntp := if 0 <? nt then nt * 3 else 0 in
    let ht := 0 <? nt in
    bind (match tris with
          | Some t => sa_upd2 (fun _ x => x) (N.to_nat nt) (vresize sa_triz (sa_g_tris g1) nt) t
          | None => Ok (sa_g_tris g1)
          end) (fun tr =>
    sa_g_calc_tangents (sa_mkG (sa_g_nv g1) (sa_g_hv g1) (sa_g_hn g1) (sa_g_hc g1) (sa_g_bounds g1) (sa_g_verts g1) (sa_g_norms g1) (sa_g_tans g1)
                         (sa_g_bits g1) (sa_g_cols g1) (sa_g_df g1) (sa_g_uvs g1) nt ntp ht tr (sa_g_xtan g1)))).

  (* NifFile setters on NiGeometryData, NifFile.cpp:3338-3449, 3671-3676 *)
  Definition sa_g_api_set_verts (g : sa_geom) (verts : list sa_v3) : res sa_geom :=
    if negb (vlen verts =? sa_g_nv g) then sa_g_create g verts None None None
    else Ok (sa_mkG (sa_g_nv g) (sa_g_hv g) (sa_g_hn g) (sa_g_hc g) (sa_g_bounds g) verts (sa_g_norms g) (sa_g_tans g) (sa_g_bits g) (sa_g_cols g)
                 (sa_g_df g) (sa_g_uvs g) (sa_g_nt g) (sa_g_ntp g) (sa_g_ht g) (sa_g_tris g) (sa_g_xtan g)).
  Definition sa_g_api_set_uvs (g : sa_geom) (uvs : list sa_v2) : res sa_geom :=
    if vlen uvs =? sa_g_nv g then
      let g1 := sa_g_set_uvs g true in
      match sa_g_uvs g1 with
      | _ :: rest =>
        Ok (sa_mkG (sa_g_nv g1) (sa_g_hv g1) (sa_g_hn g1) (sa_g_hc g1) (sa_g_bounds g1) (sa_g_verts g1) (sa_g_norms g1) (sa_g_tans g1) (sa_g_bits g1)
                (sa_g_cols g1) (sa_g_df g1) (uvs :: rest) (sa_g_nt g1) (sa_g_ntp g1) (sa_g_ht g1) (sa_g_tris g1) (sa_g_xtan g1))
      | [] => Fault
      end
    else Ok g.
  Definition sa_g_api_set_colors (g : sa_geom) (cs : list sa_c4) : sa_geom :=
    if vlen cs =? sa_g_nv g then
      let g1 := sa_g_set_colors g true in
      sa_mkG (sa_g_nv g1) (sa_g_hv g1) (sa_g_hn g1) (sa_g_hc g1) (sa_g_bounds g1) (sa_g_verts g1) (sa_g_norms g1) (sa_g_tans g1) (sa_g_bits g1)
          cs (sa_g_df g1) (sa_g_uvs g1) (sa_g_nt g1) (sa_g_ntp g1) (sa_g_ht g1) (sa_g_tris g1) (sa_g_xtan g1)
    else g.
  Definition sa_g_api_set_normals (g : sa_geom) (ns : list sa_v3) : sa_geom :=       (* no size check *)
    let g1 := sa_g_set_normals g true in
    sa_mkG (sa_g_nv g1) (sa_g_hv g1) (sa_g_hn g1) (sa_g_hc g1) (sa_g_bounds g1) (sa_g_verts g1) ns (sa_g_tans g1) (sa_g_bits g1)
        (sa_g_cols g1) (sa_g_df g1) (sa_g_uvs g1) (sa_g_nt g1) (sa_g_ntp g1) (sa_g_ht g1) (sa_g_tris g1) (sa_g_xtan g1).
  Definition sa_g_api_set_tangents (g : sa_geom) (ts : list sa_v3) : sa_geom :=      (* no size check *)
    let g1 := sa_g_set_tangents g true in sa_g_with_tb g1 ts (sa_g_bits g1).
  Definition sa_g_api_set_bitangents (g : sa_geom) (bs : list sa_v3) : sa_geom :=    (* no size check *)
    let g1 := sa_g_set_tangents g true in sa_g_with_tb g1 (sa_g_tans g1) bs.
  (* NiTriShapeData::SetTriangles, Geometry.cpp:1972-1977 *)
  Definition sa_g_set_tris (g : sa_geom) (t : list tri) : sa_geom :=
    let nt := sa_wrap16 (vlen t) in
    sa_mkG (sa_g_nv g) (sa_g_hv g) (sa_g_hn g) (sa_g_hc g) (sa_g_bounds g) (sa_g_verts g) (sa_g_norms g) (sa_g_tans g) (sa_g_bits g) (sa_g_cols g)
        (sa_g_df g) (sa_g_uvs g) nt (nt * 3) true t (sa_g_xtan g).
  Definition sa_g_with_bounds (g : sa_geom) (b : sa_bnd) : sa_geom :=
    sa_mkG (sa_g_nv g) (sa_g_hv g) (sa_g_hn g) (sa_g_hc g) b (sa_g_verts g) (sa_g_norms g) (sa_g_tans g) (sa_g_bits g) (sa_g_cols g)
        (sa_g_df g) (sa_g_uvs g) (sa_g_nt g) (sa_g_ntp g) (sa_g_ht g) (sa_g_tris g) (sa_g_xtan g).
  Definition sa_g_update_bounds (g : sa_geom) : sa_geom := sa_g_with_bounds g (sa_bsphere (sa_g_verts g)).

  (* getters: bool variants (NifFile.cpp:3189-3318) *)
  Definition sa_g_get_verts (g : sa_geom) : option (list sa_v3) := if sa_g_hv g then Some (sa_g_verts g) else None.
  Definition sa_g_get_uvs (g : sa_geom) : option (list sa_v2) :=
    if sa_g_has_uvs g then match sa_g_uvs g with u :: _ => Some u | [] => None end else None.
  Definition sa_g_get_normals (g : sa_geom) : option (list sa_v3) := if sa_g_hn g then Some (sa_g_norms g) else None.
  Definition sa_g_get_tangents (g : sa_geom) : option (list sa_v3) := if sa_g_has_tangents g then Some (sa_g_tans g) else None.
  Definition sa_g_get_bitangents (g : sa_geom) : option (list sa_v3) := if sa_g_has_tangents g then Some (sa_g_bits g) else None.
  Definition sa_g_get_colors (g : sa_geom) : option (list sa_c4) := if sa_g_hc g then Some (sa_g_cols g) else None.
  Definition sa_g_get_tris (g : sa_geom) : bool * list tri := (sa_g_ht g, sa_g_tris g).

  (* Save: FinalizeData (OB: tangents -> binary extra data), Optimize, NiGeometryData::Sync +
     NiTriBasedGeomData::Sync + NiTriShapeData::Sync in writing mode (they resize the arrays they write). *)
  Definition sa_g_after_save (ver : sa_version) (optimize : bool) (g : sa_geom) : sa_geom :=
    let xt := if sa_is_ob ver then
                (if sa_g_has_tangents g then
                   (if (vlen (sa_g_tans g) =? sa_g_nv g) && (vlen (sa_g_bits g) =? sa_g_nv g) then Some (sa_g_tans g, sa_g_bits g)
                    else sa_g_xtan g)
                 else None)
              else sa_g_xtan g in
    let bd := if optimize then sa_bsphere (sa_g_verts g) else sa_g_bounds g in
    let vs := if sa_g_hv g then vresize sa_v3z (sa_g_verts g) (sa_g_nv g) else sa_g_verts g in
    let df := if sa_is_ob ver then N.ldiff (sa_g_df g) 4096 else sa_g_df g in
    let nbt := negb (N.land df 0xF000 =? 0) in
    let nts := if 34 <=? sa_vstream ver then N.land df 1 else N.land df 63 in
    let ns := if sa_g_hn g then vresize sa_v3z (sa_g_norms g) (sa_g_nv g) else sa_g_norms g in
    let ts := if sa_g_hn g && nbt then vresize sa_v3z (sa_g_tans g) (sa_g_nv g) else sa_g_tans g in
    let bs := if sa_g_hn g && nbt then vresize sa_v3z (sa_g_bits g) (sa_g_nv g) else sa_g_bits g in
    let cs := if sa_g_hc g then vresize sa_c4z (sa_g_cols g) (sa_g_nv g) else sa_g_cols g in
    let us := if 0 <? nts then map (fun u => vresize sa_v2z u (sa_g_nv g)) (vresize [] (sa_g_uvs g) nts) else sa_g_uvs g in
    let tr := if sa_g_ht g then vresize sa_triz (sa_g_tris g) (sa_g_nt g) else sa_g_tris g in
    sa_mkG (sa_g_nv g) (sa_g_hv g) (sa_g_hn g) (sa_g_hc g) bd vs ns ts bs cs df us (sa_g_nt g) (sa_g_ntp g) (sa_g_ht g) tr xt.

  (* the freshly loaded data block read from what [g] (= sa_g_after_save ...) wrote, then PrepareData *)
  Definition sa_g_reload (ver : sa_version) (g : sa_geom) : sa_geom :=
    let nbt := negb (N.land (sa_g_df g) 0xF000 =? 0) in
    let nts := if 34 <=? sa_vstream ver then N.land (sa_g_df g) 1 else N.land (sa_g_df g) 63 in
    let r := sa_mkG (sa_g_nv g) (sa_g_hv g) (sa_g_hn g) (sa_g_hc g) (sa_g_bounds g)
                 (if sa_g_hv g then sa_g_verts g else [])
                 (if sa_g_hn g then sa_g_norms g else [])
                 (if sa_g_hn g && nbt then sa_g_tans g else [])
                 (if sa_g_hn g && nbt then sa_g_bits g else [])
                 (if sa_g_hc g then sa_g_cols g else [])
                 (sa_g_df g)
                 (if 0 <? nts then sa_g_uvs g else [])
                 (sa_g_nt g) (sa_g_ntp g) (sa_g_ht g)
                 (if sa_g_ht g then sa_g_tris g else [])
                 (sa_g_xtan g) in
    (* PrepareData: OB tangents from the extra data when its size matches the vertex count *)
    let r1 := if sa_is_ob ver then
                match sa_g_xtan r with
                | Some (t, b) =>
                  (* GetBinaryTangentData fills its outputs only when the block size is numVerts*24,
                     but returns the block either way, and PrepareData then calls both setters *)
                  if (vlen t =? sa_g_nv r) && (vlen b =? sa_g_nv r)
                  then sa_g_api_set_bitangents (sa_g_api_set_tangents r t) b
                  else sa_g_api_set_bitangents (sa_g_api_set_tangents r []) []
                | None => r
                end
              else r in
    (* RemoveInvalidTris *)
    if sa_g_ht r1 then sa_g_set_tris r1 (filter (sa_tri_valid (sa_g_nv r1)) (sa_g_tris r1)) else r1.

  (* -------------------------------------------------------------------------------------------- *)
  (* the API on either storage kind *)

  Inductive sa_shape := sa_SG (g : sa_geom) | sa_SB (b : sa_bstri).

  (* CreateShapeFromData, NifFile.cpp:2119-2204 *)
  Definition sa_create (ver : sa_version) (verts : list sa_v3) (tris : list tri) (uvs : option (list sa_v2))
             (norms : option (list sa_v3)) : res sa_shape :=
    match sa_cr_shape (sa_create_class ver) with
    | sa_CBSTriShape =>
      bind (sa_bs_create ver (sa_bs_new sa_KTri) verts (Some tris) uvs norms) (fun s => Ok (sa_SB (sa_bs_flag_skinned s false)))
    | sa_CBSSubIndexTriShape =>
      bind (sa_bs_create ver (sa_bs_new sa_KSubIndex) verts (Some tris) uvs norms) (fun s => Ok (sa_SB (sa_bs_flag_skinned s false)))
    | sa_CNiTriShape =>
      bind (sa_g_create sa_geom_new verts (Some tris) uvs norms) (fun g => Ok (sa_SG g))
    end.

  Inductive sa_op :=
  | sa_OSetVerts (l : list sa_v3) | sa_OSetUvs (l : list sa_v2) | sa_OSetNormals (l : list sa_v3) | sa_OSetTangents (l : list sa_v3)
  | sa_OSetBitangents (l : list sa_v3) | sa_OSetColors (l : list sa_c4) | sa_OSetEye (l : list sa_F) | sa_OSetTris (l : list tri)
  | sa_OSetBounds (b : sa_bnd) | sa_OUpdateBounds | sa_OFullPrec (e : bool)
  | sa_OFlagColors (e : bool) | sa_OFlagNormals (e : bool) | sa_OFlagTangents (e : bool) | sa_OFlagUVs (e : bool)
  | sa_OCalcTangents.

  Definition sa_step (ver : sa_version) (s : sa_shape) (o : sa_op) : res sa_shape :=
    match s with
    | sa_SB b =>
      match o with
      | sa_OSetVerts l => bind (sa_bs_api_set_verts ver b l) (fun x => Ok (sa_SB x))
      | sa_OSetUvs l => bind (sa_bs_api_set_uvs b l) (fun x => Ok (sa_SB x))
      | sa_OSetNormals l => bind (sa_bs_api_set_normals b l) (fun x => Ok (sa_SB x))
      | sa_OSetTangents l => bind (sa_bs_api_set_tangents b l) (fun x => Ok (sa_SB x))
      | sa_OSetBitangents l => bind (sa_bs_api_set_bitangents b l) (fun x => Ok (sa_SB x))
      | sa_OSetColors l => bind (sa_bs_api_set_colors b l) (fun x => Ok (sa_SB x))
      | sa_OSetEye l => bind (sa_bs_api_set_eye b l) (fun x => Ok (sa_SB x))
      | sa_OSetTris l => Ok (sa_SB (sa_bs_set_tris b l))
      | sa_OSetBounds bd => Ok (sa_SB (sa_bs_with_bounds b bd))
      | sa_OUpdateBounds => bind (sa_bs_update_bounds b) (fun x => Ok (sa_SB x))
      | sa_OFullPrec e => Ok (sa_SB (sa_bs_set_fullprec b e))
      | sa_OFlagColors e => Ok (sa_SB (sa_bs_flag_colors b e))
      | sa_OFlagNormals e => Ok (sa_SB (sa_bs_flag_normals b e))
      | sa_OFlagTangents e => Ok (sa_SB (sa_bs_flag_tangents b e))
      | sa_OFlagUVs e => Ok (sa_SB (sa_bs_flag_uvs b e))
      | sa_OCalcTangents => bind (sa_bs_calc_tangents b) (fun x => Ok (sa_SB x))
      end
    | sa_SG g =>
      match o with
      | sa_OSetVerts l => bind (sa_g_api_set_verts g l) (fun x => Ok (sa_SG x))
      | sa_OSetUvs l => bind (sa_g_api_set_uvs g l) (fun x => Ok (sa_SG x))
      | sa_OSetNormals l => Ok (sa_SG (sa_g_api_set_normals g l))
      | sa_OSetTangents l => Ok (sa_SG (sa_g_api_set_tangents g l))
      | sa_OSetBitangents l => Ok (sa_SG (sa_g_api_set_bitangents g l))
      | sa_OSetColors l => Ok (sa_SG (sa_g_api_set_colors g l))
      | sa_OSetEye _ => Ok (sa_SG g)
      | sa_OSetTris l => Ok (sa_SG (sa_g_set_tris g l))
      | sa_OSetBounds bd => Ok (sa_SG (sa_g_with_bounds g bd))
      | sa_OUpdateBounds => Ok (sa_SG (sa_g_update_bounds g))
      | sa_OFullPrec _ => Ok (sa_SG g)
      | sa_OFlagColors e => Ok (sa_SG (sa_g_set_colors g e))
      | sa_OFlagNormals e => Ok (sa_SG (sa_g_set_normals g e))
      | sa_OFlagTangents e => Ok (sa_SG (sa_g_set_tangents g e))
      | sa_OFlagUVs e => Ok (sa_SG (sa_g_set_uvs g e))
      | sa_OCalcTangents => bind (sa_g_calc_tangents g) (fun x => Ok (sa_SG x))
      end
    end.

  (* save: (state of the saved-from object, freshly loaded object) *)
  Definition sa_save_reload (ver : sa_version) (optimize : bool) (s : sa_shape) : res (sa_shape * sa_shape) :=
    match s with
    | sa_SB b => bind (sa_bs_after_save ver optimize b) (fun b1 => bind (sa_bs_reload ver b1) (fun b2 => Ok (sa_SB b1, sa_SB b2)))
    | sa_SG g => let g1 := sa_g_after_save ver optimize g in Ok (sa_SG g1, sa_SG (sa_g_reload ver g1))
    end.
End Model.

(* instances used by the extracted oracle: unknown results are a reserved token, the half round trip
   a mark on the token (both resolved by the checker, see tools/props/c13.py) *)
Definition sa_UNK : N := 4294967296.                 (* 2^32: "computed by arithmetic that is not modelled" *)
Definition sa_HALF_MARK : N := 8589934592.           (* 2^33 + x: "x after a binary16 round trip" *)
Definition sa_half_mark (x : sa_F) : sa_F := if x <? 4294967296 then sa_HALF_MARK + x else x.
Definition sa_unk_bsphere (_ : list sa_v3) : sa_bnd := (sa_UNK, sa_UNK, sa_UNK, sa_UNK).
Definition sa_unk_btan (_ : list sa_bsvert) (_ : list tri) (_ : nat) : sa_b3 * sa_F * N * N := ((sa_UNK, sa_UNK, sa_UNK), sa_UNK, sa_UNK, sa_UNK).
Definition sa_unk_gtan (_ : list sa_v3) (_ : list sa_v2) (_ : list sa_v3) (_ : list tri) (_ : N) (_ : nat) : sa_v3 * sa_v3 :=
  ((sa_UNK, sa_UNK, sa_UNK), (sa_UNK, sa_UNK, sa_UNK)).
