(* C13: the API-level statements (CreateShapeFromData in every version, re-creating SetVertsForShape,
   save + reload), assembled from the storage lemmas. *)
From NiflyVerif Require Import Res ShapeClass ShapeClassProofs ShapeQuant ShapeModel ShapeLoops ShapeBsProofs ShapeBsCreate ShapeGeomProofs.
From Coq Require Import ZifyBool ZifyNat ZifyN.
Local Open Scope N_scope.

Definition sa_wf_shape (sh : sa_shape) : Prop :=
  match sh with sa_SG g => sa_wf_g g | sa_SB b => sa_wf_bs b end.

(* the getters of the API on either storage kind *)
Definition sa_get_verts (sh : sa_shape) : res (option (list sa_v3)) :=
  match sh with
  | sa_SG g => Ok (sa_g_get_verts g)
  | sa_SB b => bind (sa_bs_get_verts b) (fun l => Ok (Some l))
  end.
Definition sa_get_uvs (sh : sa_shape) : res (option (list sa_v2)) :=
  match sh with sa_SG g => Ok (sa_g_get_uvs g) | sa_SB b => sa_bs_get_uvs b end.
Definition sa_get_tris (sh : sa_shape) : list tri :=
  match sh with sa_SG g => snd (sa_g_get_tris g) | sa_SB b => sa_bs_get_tris b end.
Definition sa_num_verts (sh : sa_shape) : N := match sh with sa_SG g => sa_g_nv g | sa_SB b => sa_b_nv b end.
Definition sa_num_tris (sh : sa_shape) : N := match sh with sa_SG g => sa_g_nt g | sa_SB b => sa_b_nt b end.

(* the triangle-count limit that applies to the class chosen for [ver] *)
Definition sa_limit_of (ver : sa_version) : N :=
  match sa_cr_shape (sa_create_class ver) with sa_CNiTriShape => 65535 | _ => sa_tri_limit ver end.

Section WithOpaque.
  Variable bsphere : list sa_v3 -> sa_bnd.
  Variable btan : list sa_bsvert -> list tri -> nat -> sa_b3 * sa_F * N * N.
  Variable gtan : list sa_v3 -> list sa_v2 -> list sa_v3 -> list tri -> N -> nat -> sa_v3 * sa_v3.

Lemma sa_flag_skinned_frame s e :
  sa_wf_bs s -> sa_wf_bs (sa_bs_flag_skinned s e)
  /\ sa_b_vd (sa_bs_flag_skinned s e) = sa_b_vd s /\ sa_b_nv (sa_bs_flag_skinned s e) = sa_b_nv s
  /\ sa_b_nt (sa_bs_flag_skinned s e) = sa_b_nt s /\ sa_b_tris (sa_bs_flag_skinned s e) = sa_b_tris s
  /\ (forall m, m <> 50 -> N.testbit (sa_b_desc (sa_bs_flag_skinned s e)) m = N.testbit (sa_b_desc s) m).
Proof.
  intros W. repeat split; auto. intros m Hm. unfold sa_bs_flag_skinned. cbn [sa_bs_with_desc sa_b_desc].
  rewrite sa_put_skinned. destruct (N.eqb_spec m 50); [contradiction | reflexivity].
Qed.

(* virtual Create on either BSTriShape class *)
Lemma sa_bs_create_spec ver s verts tris uvs norms :
  let nv := sa_nv_of verts in
  let tl := match tris with Some t => t | None => [] end in
  let nt := sa_nt_of (sa_tri_limit ver) nv tl in
  exists s', sa_bs_create bsphere btan ver s verts tris uvs norms = Ok s'
    /\ sa_wf_bs s' /\ sa_b_nv s' = nv /\ sa_b_nt s' = nt /\ sa_b_kind s' = sa_b_kind s
    /\ map sa_bv_vert (sa_b_vd s') = firstn (N.to_nat nv) verts
    /\ sa_b_tris s' = firstn (N.to_nat nt) tl
    /\ (forall m, m <> 45 -> m <> 47 -> m <> 48 -> m <> 50 -> N.testbit (sa_b_desc s') m = N.testbit (sa_b_desc s) m)
    /\ sa_uv_clause s s' nv uvs /\ sa_normal_clause s' nv norms
    /\ sa_b_seg s' = (match sa_b_kind s with sa_KTri => sa_b_seg s | sa_KSubIndex => (nt, 4, 4, 4, nt) end).
Proof.
  intros nv tl nt. unfold sa_bs_create.
  destruct (sa_bs_create_base_spec bsphere btan ver s verts tris uvs norms)
    as [s1 [E [W [A1 [A2 [A3 [A4 [A5 [A6 [A7 [A8 A9]]]]]]]]]]].
  fold nv tl nt in A1, A2, A5, A6, A8, A9. rewrite E. cbn [bind]. rewrite A3.
  destruct (sa_b_kind s) eqn:K.
  - exists s1. split; [reflexivity|]. repeat match goal with |- _ /\ _ => split end; auto; try congruence.
  - eexists. split; [reflexivity|].
    destruct (sa_flag_skinned_frame s1 true W) as [W' [B1 [B2 [B3 [B4 B5]]]]].
    split; [exact W'|]. cbn [sa_bs_with_seg sa_b_nv sa_b_nt sa_b_kind sa_b_vd sa_b_tris sa_b_desc sa_b_seg].
    rewrite B1, B2, B3, B4. change (sa_b_kind (sa_bs_flag_skinned s1 true)) with (sa_b_kind s1).
    split; [exact A1|]. split; [exact A2|]. split; [congruence|]. split; [exact A5|]. split; [exact A6|].
    split; [intros m H1 H2 H3 H4; rewrite B5 by exact H4; apply A7; assumption|].
    split.
    { unfold sa_uv_clause in *. cbn [sa_bs_with_seg sa_b_vd sa_b_desc]. rewrite B1. rewrite B5 by lia. exact A8. }
    split.
    { unfold sa_normal_clause in *. cbn [sa_bs_with_seg sa_b_vd sa_b_desc]. rewrite B1. rewrite !B5 by lia. exact A9. }
    rewrite A2. reflexivity.
Qed.

(* ---------- CreateShapeFromData, every version ---------- *)

Lemma sa_bs_new_facts k : sa_b_vd (sa_bs_new k) = [] /\ N.testbit (sa_b_desc (sa_bs_new k)) 45 = true /\ sa_b_kind (sa_bs_new k) = k.
Proof. repeat split. Qed.

Lemma sa_map_uv_default n : map sa_bv_uv (vresize sa_bv_default [] n) = repeat sa_v2z (N.to_nat n).
Proof.
  unfold vresize. rewrite firstn_nil. simpl. rewrite Nat.sub_0_r.
  induction (N.to_nat n); simpl; [reflexivity | f_equal; assumption].
Qed.

Lemma sa_create_bs_case ver k verts tris uvs norms :
  let nv := sa_nv_of verts in
  let nt := sa_nt_of (sa_tri_limit ver) nv tris in
  exists s, bind (sa_bs_create bsphere btan ver (sa_bs_new k) verts (Some tris) uvs norms)
                 (fun s => Ok (sa_SB (sa_bs_flag_skinned s false))) = Ok (sa_SB s)
    /\ sa_wf_bs s /\ sa_b_nv s = nv /\ sa_b_nt s = nt /\ sa_b_kind s = k
    /\ sa_bs_get_verts s = Ok (firstn (N.to_nat nv) verts)
    /\ sa_bs_get_tris s = firstn (N.to_nat nt) tris
    /\ (match uvs with
        | Some u => sa_bs_get_uvs s = Ok (if vlen u =? nv then Some u else None)
        | None => sa_bs_get_uvs s = Ok (Some (repeat sa_v2z (N.to_nat nv)))
        end)
    /\ sa_bs_has s sa_VF_SKINNED = false.
Proof.
  intros nv nt.
  destruct (sa_bs_create_spec ver (sa_bs_new k) verts (Some tris) uvs norms)
    as [s' [E [W [A1 [A2 [A3 [A5 [A6 [A7 [A8 [A9 A10]]]]]]]]]]].
  fold nv in A1, A2, A5, A6, A8, A9. fold nt in A2, A6. rewrite E. cbn [bind]. eexists. split; [reflexivity|].
  destruct (sa_flag_skinned_frame s' false W) as [W' [B1 [B2 [B3 [B4 B5]]]]].
  split; [exact W'|]. split; [rewrite B2; exact A1|]. split; [rewrite B3; exact A2|].
  split; [cbn [sa_bs_flag_skinned sa_bs_with_desc sa_b_kind]; rewrite A3; reflexivity|].
  split; [rewrite sa_bs_get_verts_wf by exact W'; rewrite B1, A5; reflexivity|].
  split; [unfold sa_bs_get_tris; rewrite B4; exact A6|].
  split.
  { rewrite sa_bs_get_uvs_wf by exact W'. unfold sa_bs_has. rewrite sa_has_uv, B1, B5 by lia.
    unfold sa_uv_clause in A8. destruct uvs as [u|].
    - destruct (vlen u =? nv); [destruct A8 as [U1 U2]; rewrite U2, U1; reflexivity | rewrite A8; reflexivity].
    - destruct A8 as [U1 U2]. rewrite U1, U2. cbn [sa_bs_new sa_b_desc sa_b_vd].
      rewrite sa_map_uv_default. reflexivity. }
  unfold sa_bs_has, sa_bs_flag_skinned. cbn [sa_bs_with_desc sa_b_desc]. rewrite sa_has_skinned, sa_put_skinned. reflexivity.
Qed.

Theorem sa_create_spec ver verts tris uvs norms :
  let nv := sa_nv_of verts in
  let nt := sa_nt_of (sa_limit_of ver) nv tris in
  exists sh, sa_create bsphere btan gtan ver verts tris uvs norms = Ok sh
    /\ sa_wf_shape sh /\ sa_num_verts sh = nv /\ sa_num_tris sh = nt
    /\ sa_get_verts sh = Ok (Some (firstn (N.to_nat nv) verts))
    /\ sa_get_tris sh = firstn (N.to_nat nt) tris
    /\ (match uvs with
        | Some u => sa_get_uvs sh = Ok (if vlen u =? nv then Some u else None)
        | None => sa_get_uvs sh = Ok (match sh with sa_SG _ => None | sa_SB _ => Some (repeat sa_v2z (N.to_nat nv)) end)
        end)
    /\ (match sh with
        | sa_SG _ => sa_cr_shape (sa_create_class ver) = sa_CNiTriShape
        | sa_SB b => sa_cr_shape (sa_create_class ver) = (match sa_b_kind b with sa_KTri => sa_CBSTriShape | sa_KSubIndex => sa_CBSSubIndexTriShape end)
        end).
Proof.
  intros nv nt. unfold sa_create. unfold sa_limit_of in nt.
  destruct (sa_cr_shape (sa_create_class ver)) eqn:CS.
  - destruct (sa_create_bs_case ver sa_KTri verts tris uvs norms) as [s [E [W [A1 [A2 [A3 [A4 [A5 [A6 A7]]]]]]]]].
    rewrite E. exists (sa_SB s). split; [reflexivity|].
    cbn [sa_wf_shape sa_num_verts sa_num_tris sa_get_verts sa_get_tris sa_get_uvs]. rewrite A4. cbn [bind]. rewrite A3.
    repeat match goal with |- _ /\ _ => split end; auto.
  - destruct (sa_create_bs_case ver sa_KSubIndex verts tris uvs norms) as [s [E [W [A1 [A2 [A3 [A4 [A5 [A6 A7]]]]]]]]].
    rewrite E. exists (sa_SB s). split; [reflexivity|].
    cbn [sa_wf_shape sa_num_verts sa_num_tris sa_get_verts sa_get_tris sa_get_uvs]. rewrite A4. cbn [bind]. rewrite A3.
    repeat match goal with |- _ /\ _ => split end; auto.
  - destruct (sa_g_create_gen_spec bsphere gtan sa_geom_new verts (Some tris) uvs norms)
      as [g [E [A1 [A2 [A3 [A4 [A5 [A6 [A7 [A8 [A9 [A10 [A11 [A12 [A13 A14]]]]]]]]]]]]]]].
    fold nv in A1, A2, A6, A9, A11, A12, A13, A14. fold nt in A6, A7, A8, A9.
    rewrite E. cbn [bind]. exists (sa_SG g). split; [reflexivity|].
    cbn [sa_wf_shape sa_num_verts sa_num_tris sa_get_verts sa_get_tris sa_get_uvs sa_g_get_tris snd].
    split.
    { apply sa_wf_g_parts. rewrite A1, A2, A4, A5. unfold sa_cols_after. cbn [sa_geom_new sa_g_hc sa_g_cols length].
      split; [rewrite firstn_length; pose proof (sa_nv_of_le verts) as HH; unfold nv; lia|].
      split; [exact A11|]. split; [apply A14; right; split; reflexivity|]. split; [reflexivity | exact A10]. }
    split; [exact A1|]. split; [exact A6|].
    split; [unfold sa_g_get_verts; rewrite A3, A2; reflexivity|].
    split; [exact A9|].
    split; [|reflexivity].
    unfold sa_g_uv_clause in A12. destruct uvs as [u|]; [destruct (vlen u =? nv)|]; rewrite A12; reflexivity.
Qed.

(* ---------- SetVertsForShape with another vertex count: the documented re-creation ---------- *)

Theorem sa_bs_set_verts_recreate ver s verts :
  length verts <> N.to_nat (sa_b_nv s) ->
  let nv := sa_nv_of verts in
  exists s', sa_bs_api_set_verts bsphere btan ver s verts = Ok s' /\ sa_wf_bs s' /\ sa_b_nv s' = nv
    /\ sa_bs_get_verts s' = Ok (firstn (N.to_nat nv) verts) /\ sa_b_nt s' = 0 /\ sa_b_tris s' = [].
Proof.
  intros L nv. unfold sa_bs_api_set_verts. rewrite (sa_vlen_neqb _ _ L). cbn [negb].
  destruct (sa_bs_create_spec ver s verts None None None) as [s' [E [W [A1 [A2 [A3 [A5 [A6 _]]]]]]]].
  fold nv in A1, A2, A5, A6. exists s'. split; [exact E|]. split; [exact W|]. split; [exact A1|].
  split; [rewrite sa_bs_get_verts_wf by exact W; rewrite A5; reflexivity|].
  assert (Z : sa_nt_of (sa_tri_limit ver) nv [] = 0).
  { unfold sa_nt_of, vlen. simpl. destruct (nv =? 0); [reflexivity|]. destruct (sa_tri_limit_cases ver) as [->| ->]; reflexivity. }
  rewrite Z in *. split; [exact A2|]. rewrite A6. reflexivity.
Qed.

(* NiGeometryData::Create keeps the colour array at the new count (cut, or padded with white) *)
Theorem sa_g_set_verts_recreate g verts :
  sa_wf_g g -> length verts <> N.to_nat (sa_g_nv g) ->
  let nv := sa_nv_of verts in
  exists g', sa_g_api_set_verts bsphere gtan g verts = Ok g' /\ sa_g_nv g' = nv
    /\ sa_g_verts g' = firstn (N.to_nat nv) verts
    /\ sa_g_hc g' = sa_g_hc g /\ sa_g_cols g' = sa_cols_after g nv /\ sa_g_tris g' = sa_g_tris g /\ sa_g_nt g' = sa_g_nt g
    /\ sa_g_get_uvs g' = None /\ sa_g_get_normals g' = None /\ sa_g_get_tangents g' = None
    /\ sa_wf_g g'.
Proof.
  intros W L nv. unfold sa_g_api_set_verts. rewrite (sa_vlen_neqb _ _ L). cbn [negb].
  destruct (sa_g_create_gen_spec bsphere gtan g verts None None None)
    as [g' [E [A1 [A2 [A3 [A4 [A5 [A6 [A7 [A8 [A9 [A10 [A11 [A12 [A13 A14]]]]]]]]]]]]]]].
  fold nv in A1, A2, A5, A11, A12, A13, A14. exists g'. split; [exact E|].
  split; [exact A1|]. split; [exact A2|]. split; [exact A4|]. split; [exact A5|]. split; [exact A9|]. split; [exact A6|].
  split; [exact A12|]. destruct A13 as [N1 N2]. split; [exact N1|]. split; [exact N2|].
  apply sa_wf_g_parts. rewrite A1, A2, A4, A5.
  split; [rewrite firstn_length; pose proof (sa_nv_of_le verts); unfold nv; lia|].
  split; [exact A11|]. split; [apply A14; left; reflexivity|]. split; [|exact A10].
  unfold sa_cols_after. destruct (sa_g_hc g); [apply sa_vresize_length | reflexivity].
Qed.

End WithOpaque.

(* the former counterexample (3 coloured vertices, SetVertsForShape with 2): two colours now *)
Definition sa_cex_g : sa_geom :=
  sa_mkG 3 true false true (0, 0, 0, 0) [sa_v3z; sa_v3z; sa_v3z] [] [] [] [sa_c4one; sa_c4one; sa_c4one] 0 [] 0 0 false [] None.
Example sa_g_set_verts_recreate_colors_ex :
  exists g', sa_wf_g sa_cex_g
    /\ sa_g_api_set_verts sa_unk_bsphere sa_unk_gtan sa_cex_g [sa_v3z; sa_v3z] = Ok g'
    /\ sa_g_nv g' = 2 /\ sa_g_get_colors g' = Some [sa_c4one; sa_c4one] /\ sa_wf_g g'.
Proof.
  eexists. split; [unfold sa_wf_g; simpl; repeat split|].
  split; [vm_compute; reflexivity|]. split; [reflexivity|]. split; [reflexivity|].
  unfold sa_wf_g. simpl. repeat split.
Qed.

(* ---------- save + reload ---------- *)

Lemma sa_filter_all {A} (p : A -> bool) l : forallb p l = true -> filter p l = l.
Proof. induction l; simpl; intros H; [reflexivity|]. apply andb_true_iff in H. destruct H as [H1 H2]. rewrite H1. f_equal. auto. Qed.

Section Reload.
  Variable bsphere : list sa_v3 -> sa_bnd.
  Variable half_rt : sa_F -> sa_F.

(* FinalizeData's CalcDataSizes touches only the descriptor and the two sizes *)
Lemma sa_bs_calc_data_sizes_frame ver s s1 : sa_bs_calc_data_sizes ver s = Ok s1 ->
  sa_b_vd s1 = sa_b_vd s /\ sa_b_tris s1 = sa_b_tris s /\ sa_b_nv s1 = sa_b_nv s /\ sa_b_nt s1 = sa_b_nt s
  /\ sa_b_bounds s1 = sa_b_bounds s /\ sa_b_kind s1 = sa_b_kind s /\ sa_b_seg s1 = sa_b_seg s.
Proof.
  unfold sa_bs_calc_data_sizes. destruct (sa_attr_loop _ _ _ _) as [[d1 vsize]| |]; cbn [bind]; try discriminate.
  intros H. apply (f_equal (fun r => match r with Ok x => x | _ => s end)) in H. cbv beta iota in H. rewrite <- H. repeat split.
Qed.

(* since the mask of SetAttributeOffset is built in 64 bits CalcDataSizes is total (eye data included) *)
Lemma sa_attr_loop_total : forall sizes va d v, exists d' v', sa_attr_loop sizes va d v = Ok (d', v').
Proof.
  induction sizes as [|sz rest IH]; intros va d v; cbn [sa_attr_loop]; [eauto|].
  destruct (sz =? 0); [apply IH|]. unfold sa_set_attr_offset. destruct (va =? 0); cbn [bind]; apply IH.
Qed.
Lemma sa_bs_calc_data_sizes_total ver s : exists s1, sa_bs_calc_data_sizes ver s = Ok s1.
Proof.
  unfold sa_bs_calc_data_sizes.
  destruct (sa_attr_loop_total (sa_bs_attr_sizes ver s) 0 (N.land (sa_b_desc s) sa_DESC_MASK_OFFSET) 0) as [d' [v' E]].
  rewrite E. cbn [bind]. eauto.
Qed.

Lemma sa_bs_reload_spec ver s :
  (sa_sse_range ver && sa_bs_has s sa_VF_SKINNED) = false ->
  (sa_sse_range ver && (65536 <=? sa_b_nt s)) = false ->
  (16 <? sa_desc_main_size (sa_b_desc s)) = false -> 0 < sa_b_dataSize s ->
  exists s', sa_bs_reload half_rt ver s = Ok s'
    /\ sa_b_nv s' = sa_b_nv s /\ sa_b_desc s' = sa_b_desc s /\ sa_b_kind s' = sa_b_kind s
    /\ sa_b_vd s' = map (sa_bs_store_vertex half_rt ver (sa_b_desc s)) (sa_b_vd s)
    /\ sa_b_tris s' = filter (sa_tri_valid (sa_b_nv s)) (sa_b_tris s)
    /\ (sa_wf_bs s -> sa_wf_bs s').
Proof.
  intros H1 H2 H3 H4. unfold sa_bs_reload. rewrite H1, H2, H3.
  assert (E : (0 <? sa_b_dataSize s) = true) by (apply N.ltb_lt; exact H4). rewrite E.
  eexists. split; [reflexivity|]. cbn [sa_b_nv sa_b_desc sa_b_kind sa_b_vd sa_b_tris]. repeat split.
  unfold sa_wf_bs. cbn [sa_b_vd sa_b_nv]. rewrite map_length. auto.
Qed.

(* what the stored vertex keeps, field by field *)
Lemma sa_bs_store_vertex_fields ver d v :
  let full := sa_has_flag d sa_VF_FULLPREC || (sa_vstream ver =? 100) in
  let h := fun x => if full then x else half_rt x in
  (sa_has_flag d sa_VF_VERTEX = true ->
     sa_bv_vert (sa_bs_store_vertex half_rt ver d v) = (let '(a, b, c) := sa_bv_vert v in (h a, h b, h c))
     /\ sa_bv_bitX (sa_bs_store_vertex half_rt ver d v) = h (sa_bv_bitX v))
  /\ (sa_has_flag d sa_VF_UV = true ->
     sa_bv_uv (sa_bs_store_vertex half_rt ver d v) = (half_rt (fst (sa_bv_uv v)), half_rt (snd (sa_bv_uv v))))
  /\ (sa_has_flag d sa_VF_NORMAL = true ->
     sa_bv_n (sa_bs_store_vertex half_rt ver d v) = sa_bv_n v /\ sa_bv_bitY (sa_bs_store_vertex half_rt ver d v) = sa_bv_bitY v)
  /\ (sa_has_flag d sa_VF_NORMAL = true -> sa_has_flag d sa_VF_TANGENT = true ->
     sa_bv_t (sa_bs_store_vertex half_rt ver d v) = sa_bv_t v /\ sa_bv_bitZ (sa_bs_store_vertex half_rt ver d v) = sa_bv_bitZ v)
  /\ (sa_has_flag d sa_VF_NORMAL = false ->
     sa_bv_t (sa_bs_store_vertex half_rt ver d v) = (0, 0, 0) /\ sa_bv_n (sa_bs_store_vertex half_rt ver d v) = (0, 0, 0))
  /\ (sa_has_flag d sa_VF_COLORS = true -> sa_bv_col (sa_bs_store_vertex half_rt ver d v) = sa_bv_col v)
  /\ (sa_has_flag d sa_VF_EYEDATA = true -> sa_bv_eye (sa_bs_store_vertex half_rt ver d v) = sa_bv_eye v).
Proof.
  intros full h. unfold sa_bs_store_vertex. fold full.
  repeat split; intros; cbn [sa_bv_vert sa_bv_bitX sa_bv_uv sa_bv_n sa_bv_bitY sa_bv_t sa_bv_bitZ sa_bv_col sa_bv_eye];
    repeat match goal with H : _ = true |- _ => rewrite H | H : _ = false |- _ => rewrite H end; try reflexivity.
Qed.

(* SSE and full-precision shapes: positions come back bit-exactly; otherwise through binary16 *)
Theorem sa_bs_reload_verts ver s s' :
  sa_wf_bs s -> sa_bs_has s sa_VF_VERTEX = true ->
  sa_b_nv s' = sa_b_nv s -> sa_b_vd s' = map (sa_bs_store_vertex half_rt ver (sa_b_desc s)) (sa_b_vd s) ->
  let full := sa_bs_has s sa_VF_FULLPREC || (sa_vstream ver =? 100) in
  exists l, sa_bs_get_verts s = Ok l
    /\ sa_bs_get_verts s' = Ok (map (fun x => let '(a, b, c) := x in
                                     if full then (a, b, c) else (half_rt a, half_rt b, half_rt c)) l).
Proof.
  intros W HV NV VD full. exists (map sa_bv_vert (sa_b_vd s)). split; [apply sa_bs_get_verts_wf; exact W|].
  assert (W' : sa_wf_bs s') by (unfold sa_wf_bs in *; rewrite VD, map_length, NV; exact W).
  rewrite sa_bs_get_verts_wf by exact W'. rewrite VD, !map_map. f_equal. apply map_ext. intros v.
  destruct (sa_bs_store_vertex_fields ver (sa_b_desc s) v) as [F1 _]. destruct (F1 HV) as [E _]. rewrite E.
  unfold full, sa_bs_has. destruct (sa_bv_vert v) as [[a b] c].
  destruct (sa_has_flag (sa_b_desc s) sa_VF_FULLPREC || (sa_vstream ver =? 100)); reflexivity.
Qed.

Theorem sa_bs_reload_uvs ver s s' :
  sa_wf_bs s -> sa_b_nv s' = sa_b_nv s -> sa_b_desc s' = sa_b_desc s ->
  sa_b_vd s' = map (sa_bs_store_vertex half_rt ver (sa_b_desc s)) (sa_b_vd s) ->
  match sa_bs_get_uvs s with
  | Ok (Some l) => sa_bs_get_uvs s' = Ok (Some (map (fun x => (half_rt (fst x), half_rt (snd x))) l))
  | Ok None => sa_bs_get_uvs s' = Ok None
  | _ => False
  end.
Proof.
  intros W NV DE VD.
  assert (W' : sa_wf_bs s') by (unfold sa_wf_bs in *; rewrite VD, map_length, NV; exact W).
  rewrite sa_bs_get_uvs_wf by exact W. rewrite sa_bs_get_uvs_wf by exact W'.
  unfold sa_bs_has. rewrite DE. destruct (sa_has_flag (sa_b_desc s) sa_VF_UV) eqn:HU; [|reflexivity].
  rewrite VD, !map_map. do 2 f_equal. apply map_ext. intros v.
  destruct (sa_bs_store_vertex_fields ver (sa_b_desc s) v) as [_ [F2 _]]. apply F2. exact HU.
Qed.

(* byte fields (normals, colours) and eye data come back unchanged *)
Theorem sa_bs_reload_bytes ver s s' :
  sa_wf_bs s -> sa_b_nv s' = sa_b_nv s -> sa_b_desc s' = sa_b_desc s ->
  sa_b_vd s' = map (sa_bs_store_vertex half_rt ver (sa_b_desc s)) (sa_b_vd s) ->
  sa_bs_get_normals s' = sa_bs_get_normals s /\ sa_bs_get_colors s' = sa_bs_get_colors s /\ sa_bs_get_eye s' = sa_bs_get_eye s
  /\ (sa_bs_has s sa_VF_NORMAL = true -> sa_bs_get_tangents s' = sa_bs_get_tangents s).
Proof.
  intros W NV DE VD.
  assert (W' : sa_wf_bs s') by (unfold sa_wf_bs in *; rewrite VD, map_length, NV; exact W).
  rewrite !sa_bs_get_normals_wf, !sa_bs_get_colors_wf, !sa_bs_get_eye_wf, !sa_bs_get_tangents_wf by assumption.
  unfold sa_bs_has. rewrite DE.
  split.
  { destruct (sa_has_flag (sa_b_desc s) sa_VF_NORMAL) eqn:H; [|reflexivity]. rewrite VD, !map_map. do 2 f_equal.
    apply map_ext. intros v. destruct (sa_bs_store_vertex_fields ver (sa_b_desc s) v) as [_ [_ [F3 _]]].
    destruct (F3 H) as [E _]. rewrite E. reflexivity. }
  split.
  { destruct (sa_has_flag (sa_b_desc s) sa_VF_COLORS) eqn:H; [|reflexivity]. rewrite VD, !map_map. do 2 f_equal.
    apply map_ext. intros v. destruct (sa_bs_store_vertex_fields ver (sa_b_desc s) v) as [_ [_ [_ [_ [_ [F6 _]]]]]].
    rewrite (F6 H). reflexivity. }
  split.
  { destruct (sa_has_flag (sa_b_desc s) sa_VF_EYEDATA) eqn:H; [|reflexivity]. rewrite VD, !map_map. do 2 f_equal.
    apply map_ext. intros v. destruct (sa_bs_store_vertex_fields ver (sa_b_desc s) v) as [_ [_ [_ [_ [_ [_ F7]]]]]].
    rewrite (F7 H). reflexivity. }
  intros HN. destruct (sa_has_flag (sa_b_desc s) sa_VF_TANGENT) eqn:H; [|reflexivity]. rewrite VD, !map_map. do 2 f_equal.
  apply map_ext. intros v. destruct (sa_bs_store_vertex_fields ver (sa_b_desc s) v) as [_ [_ [_ [F4 _]]]].
  destruct (F4 HN H) as [E _]. rewrite E. reflexivity.
Qed.

(* triangles: the loader drops those that name a vertex outside the shape, keeps the others in order *)
Theorem sa_bs_reload_tris s s' :
  sa_b_tris s' = filter (sa_tri_valid (sa_b_nv s)) (sa_b_tris s) ->
  forallb (sa_tri_valid (sa_b_nv s)) (sa_b_tris s) = true -> sa_bs_get_tris s' = sa_bs_get_tris s.
Proof. intros E H. unfold sa_bs_get_tris. rewrite E. apply sa_filter_all. exact H. Qed.

End Reload.

Section ReloadGeom.
  Variable bsphere : list sa_v3 -> sa_bnd.

(* whatever PrepareData does after the read (OB tangents, RemoveInvalidTris) leaves these alone *)
Lemma sa_g_reload_keeps ver g :
  let r := sa_g_reload ver g in
  sa_g_nv r = sa_g_nv g /\ sa_g_hv r = sa_g_hv g /\ sa_g_hn r = sa_g_hn g /\ sa_g_hc r = sa_g_hc g
  /\ sa_g_verts r = (if sa_g_hv g then sa_g_verts g else [])
  /\ sa_g_norms r = (if sa_g_hn g then sa_g_norms g else [])
  /\ sa_g_cols r = (if sa_g_hc g then sa_g_cols g else [])
  /\ sa_g_bounds r = sa_g_bounds g
  /\ N.testbit (sa_g_df r) 0 = N.testbit (sa_g_df g) 0
  /\ sa_g_uvs r = (if 0 <? (if 34 <=? sa_vstream ver then N.land (sa_g_df g) 1 else N.land (sa_g_df g) 63) then sa_g_uvs g else []).
Proof.
  intros r. unfold r, sa_g_reload.
  set (r0 := sa_mkG _ _ _ _ _ _ _ _ _ _ _ _ _ _ _ _ _).
  set (r1 := if sa_is_ob ver then _ else r0).
  assert (K : sa_g_nv r1 = sa_g_nv g /\ sa_g_hv r1 = sa_g_hv g /\ sa_g_hn r1 = sa_g_hn g /\ sa_g_hc r1 = sa_g_hc g
              /\ sa_g_verts r1 = sa_g_verts r0 /\ sa_g_norms r1 = sa_g_norms r0 /\ sa_g_cols r1 = sa_g_cols r0
              /\ sa_g_bounds r1 = sa_g_bounds g /\ N.testbit (sa_g_df r1) 0 = N.testbit (sa_g_df g) 0 /\ sa_g_uvs r1 = sa_g_uvs r0).
  { unfold r1. destruct (sa_is_ob ver); [|repeat split].
    destruct (sa_g_xtan r0) as [[t b]|]; [|repeat split].
    destruct (sa_df_bits (sa_g_df g)) as [_ [_ [_ [_ [_ [_ [T3 _]]]]]]].
    destruct ((vlen t =? sa_g_nv r0) && (vlen b =? sa_g_nv r0));
      unfold sa_g_api_set_bitangents, sa_g_api_set_tangents, sa_g_set_tangents, sa_g_with_tb; sa_gsimpl;
      rewrite !N.lor_spec; change (N.testbit 4096 0) with false; rewrite !orb_false_r; repeat split. }
  destruct K as [K1 [K2 [K3 [K4 [K5 [K6 [K7 [K8 [K9 K10]]]]]]]]].
  destruct (sa_g_ht r1); unfold sa_g_set_tris; sa_gsimpl; repeat split; assumption.
Qed.

Theorem sa_g_reload_verts ver opt g : sa_wf_g g ->
  sa_g_get_verts (sa_g_reload ver (sa_g_after_save bsphere ver opt g)) = sa_g_get_verts g
  /\ sa_g_nv (sa_g_reload ver (sa_g_after_save bsphere ver opt g)) = sa_g_nv g.
Proof.
  intros [A _]. destruct (sa_g_reload_keeps ver (sa_g_after_save bsphere ver opt g)) as [K1 [K2 [_ [_ [K5 _]]]]].
  unfold sa_g_get_verts. rewrite K1, K2, K5. unfold sa_g_after_save. sa_gsimpl.
  split; [|reflexivity]. destruct (sa_g_hv g); [|reflexivity]. rewrite sa_vresize_same by exact A. reflexivity.
Qed.

Theorem sa_g_reload_normals_colors ver opt g : sa_wf_g g ->
  sa_g_get_normals (sa_g_reload ver (sa_g_after_save bsphere ver opt g)) = sa_g_get_normals g
  /\ sa_g_get_colors (sa_g_reload ver (sa_g_after_save bsphere ver opt g)) = sa_g_get_colors g.
Proof.
  intros [_ [B [_ [_ [E _]]]]]. destruct (sa_g_reload_keeps ver (sa_g_after_save bsphere ver opt g)) as [K1 [_ [K3 [K4 [_ [K6 [K7 _]]]]]]].
  unfold sa_g_get_normals, sa_g_get_colors. rewrite K3, K4, K6, K7. unfold sa_g_after_save. sa_gsimpl.
  split.
  - destruct (sa_g_hn g); [|reflexivity]. rewrite sa_vresize_same by exact B. reflexivity.
  - destruct (sa_g_hc g); [|reflexivity]. rewrite sa_vresize_same by exact E. reflexivity.
Qed.

Lemma sa_land_odd df k : N.testbit df 0 = true -> N.testbit k 0 = true -> 0 < N.land df k.
Proof.
  intros H1 H2. destruct (N.eq_dec (N.land df k) 0) as [E|E]; [|lia].
  exfalso. assert (X : N.testbit (N.land df k) 0 = true) by (rewrite N.land_spec, H1, H2; reflexivity).
  rewrite E in X. discriminate.
Qed.

Theorem sa_g_reload_uvs ver opt g : sa_wf_g g ->
  sa_g_get_uvs (sa_g_reload ver (sa_g_after_save bsphere ver opt g)) = sa_g_get_uvs g.
Proof.
  intros [_ [_ [_ [_ [_ F]]]]].
  destruct (sa_g_reload_keeps ver (sa_g_after_save bsphere ver opt g)) as [_ [_ [_ [_ [_ [_ [_ [_ [K9 K10]]]]]]]]].
  unfold sa_g_get_uvs, sa_g_has_uvs in *. rewrite K9, K10. unfold sa_g_after_save. sa_gsimpl.
  set (df := if sa_is_ob ver then N.ldiff (sa_g_df g) 4096 else sa_g_df g).
  assert (D0 : N.testbit df 0 = N.testbit (sa_g_df g) 0).
  { unfold df. destruct (sa_is_ob ver); [|reflexivity]. destruct (sa_df_bits (sa_g_df g)) as [_ [_ [_ [_ [_ [_ [_ T4]]]]]]]. exact T4. }
  rewrite D0. destruct (N.testbit (sa_g_df g) 0) eqn:U; [|reflexivity].
  destruct F as [u [EU LU]].
  set (nts := if 34 <=? sa_vstream ver then N.land df 1 else N.land df 63).
  assert (P : 0 < nts) by (unfold nts; destruct (34 <=? sa_vstream ver); apply sa_land_odd; auto; rewrite D0; exact U).
  assert (PB : (0 <? nts) = true) by (apply N.ltb_lt; exact P). rewrite PB.
  rewrite EU. unfold vresize at 2. simpl firstn.
  assert (NN : exists m, N.to_nat nts = S m) by (exists (pred (N.to_nat nts)); lia). destruct NN as [m NM].
  rewrite NM. cbn [firstn app map]. rewrite sa_vresize_same by exact LU. reflexivity.
Qed.

(* triangles: kept in order when they all name existing vertices and the counter agrees with the list *)
Theorem sa_g_reload_tris ver opt g :
  sa_g_ht g = true -> length (sa_g_tris g) = N.to_nat (sa_g_nt g) ->
  forallb (sa_tri_valid (sa_g_nv g)) (sa_g_tris g) = true ->
  sa_g_get_tris (sa_g_reload ver (sa_g_after_save bsphere ver opt g)) = (true, sa_g_tris g).
Proof.
  intros HT LT V. unfold sa_g_reload.
  set (a := sa_g_after_save bsphere ver opt g).
  assert (A : sa_g_ht a = true /\ sa_g_tris a = sa_g_tris g /\ sa_g_nv a = sa_g_nv g).
  { unfold a, sa_g_after_save. sa_gsimpl. rewrite HT. rewrite sa_vresize_same by exact LT. repeat split. }
  destruct A as [A1 [A2 A3]].
  set (r0 := sa_mkG _ _ _ _ _ _ _ _ _ _ _ _ _ _ _ _ _).
  set (r1 := if sa_is_ob ver then _ else r0).
  assert (K : sa_g_ht r1 = true /\ sa_g_tris r1 = sa_g_tris g /\ sa_g_nv r1 = sa_g_nv g).
  { unfold r1. destruct (sa_is_ob ver).
    - destruct (sa_g_xtan r0) as [[t b]|]; [destruct ((vlen t =? sa_g_nv r0) && (vlen b =? sa_g_nv r0))|];
        unfold r0; sa_gsimpl; rewrite A1, A2, A3; repeat split.
    - unfold r0; sa_gsimpl; rewrite A1, A2, A3; repeat split. }
  destruct K as [K1 [K2 K3]]. rewrite K1. unfold sa_g_get_tris, sa_g_set_tris. sa_gsimpl.
  rewrite K2, K3. rewrite sa_filter_all by exact V. reflexivity.
Qed.

End ReloadGeom.
