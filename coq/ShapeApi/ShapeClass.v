(* C13 (a): which classes NifFile::CreateShapeFromData instantiates, as a total function of the
   sa_version triple.  Transcribed from include/BasicTypes.hpp:158-182 (NiVersion predicates) and
   src/NifFile.cpp:2107-2207 (the if-chain).  No proofs here. *)
From NiflyVerif Require Import Res.
Local Open Scope N_scope.

Record sa_version := sa_mkVer { sa_vfile : N; sa_vuser : N; sa_vstream : N }.

(* enum NiFileVersion (BasicTypes.hpp:68-117), only the members the predicates mention *)
Definition sa_V10_0_1_0   : N := 0x0A000100.
Definition sa_V10_1_0_106 : N := 0x0A01006A.
Definition sa_V10_2_0_0   : N := 0x0A020000.
Definition sa_V20_0_0_4   : N := 0x14000004.
Definition sa_V20_0_0_5   : N := 0x14000005.
Definition sa_V20_2_0_7   : N := 0x14020007.

(* BasicTypes.hpp:164-169 *)
Definition sa_is_ob (v : sa_version) : bool :=
  (((sa_vfile v =? sa_V10_1_0_106) || (sa_vfile v =? sa_V10_2_0_0)) && (3 <=? sa_vuser v) && (sa_vuser v <? 11))
  || ((sa_vfile v =? sa_V20_0_0_4) && ((sa_vuser v =? 10) || (sa_vuser v =? 11)))
  || ((sa_vfile v =? sa_V20_0_0_5) && (sa_vuser v =? 11)).
(* BasicTypes.hpp:172-182 *)
Definition sa_is_fo3  (v : sa_version) : bool := (sa_vfile v =? sa_V20_2_0_7) && (11 <? sa_vstream v) && (sa_vstream v <? 83).
Definition sa_is_sk   (v : sa_version) : bool := (sa_vfile v =? sa_V20_2_0_7) && (sa_vstream v =? 83).
Definition sa_is_sse  (v : sa_version) : bool := (sa_vfile v =? sa_V20_2_0_7) && (sa_vstream v =? 100).
Definition sa_is_fo4  (v : sa_version) : bool := (sa_vfile v =? sa_V20_2_0_7) && (130 <=? sa_vstream v) && (sa_vstream v <=? 139).
Definition sa_is_fo76 (v : sa_version) : bool := (sa_vfile v =? sa_V20_2_0_7) && (sa_vstream v =? 155).
Definition sa_is_sf   (v : sa_version) : bool := (sa_vfile v =? sa_V20_2_0_7) && (172 <=? sa_vstream v) && (sa_vstream v <=? 173).
Definition sa_is_special (v : sa_version) : bool := (sa_vfile v =? sa_V10_0_1_0) && (sa_vuser v =? 0).

(* the factory versions, BasicTypes.hpp:185-197 *)
Definition sa_getOB   := sa_mkVer sa_V20_0_0_5 11 11.
Definition sa_getFO3  := sa_mkVer sa_V20_2_0_7 11 34.
Definition sa_getSK   := sa_mkVer sa_V20_2_0_7 12 83.
Definition sa_getSSE  := sa_mkVer sa_V20_2_0_7 12 100.
Definition sa_getFO4  := sa_mkVer sa_V20_2_0_7 12 130.
Definition sa_getFO76 := sa_mkVer sa_V20_2_0_7 12 155.
Definition sa_getSF   := sa_mkVer sa_V20_2_0_7 12 172.

Inductive sa_shape_class := sa_CBSTriShape | sa_CBSSubIndexTriShape | sa_CNiTriShape.
Inductive sa_data_class := sa_CNiTriShapeData.
Inductive sa_shader_class := sa_CBSLightingShaderProperty | sa_CBSShaderPPLightingProperty.
(* how the sa_shape refers to its shader: shaderPropertyRef, or an entry of the NiAVObject property list *)
Inductive sa_shader_link := sa_LShaderRef | sa_LPropertyList.

Record sa_class_row := sa_mkRow {
  sa_cr_shape : sa_shape_class;
  sa_cr_data : option sa_data_class;      (* separate geometry data block, or none (BSTriShape holds its data) *)
  sa_cr_shader : sa_shader_class;
  sa_cr_link : sa_shader_link;
  sa_cr_texset : bool;                 (* a BSShaderTextureSet block is created and linked to the shader *)
  sa_cr_wet : bool;                    (* wet material name set (FO4/FO76 branch only) *)
  sa_cr_blocks : N                     (* number of blocks added to the header *)
}.

(* NifFile.cpp:2119-2204 *)
Definition sa_create_class (v : sa_version) : sa_class_row :=
  if sa_is_sse v then
    sa_mkRow sa_CBSTriShape None sa_CBSLightingShaderProperty sa_LShaderRef true false 3
  else if sa_is_fo4 v || sa_is_fo76 v then
    sa_mkRow sa_CBSSubIndexTriShape None sa_CBSLightingShaderProperty sa_LShaderRef true true 3
  else if sa_is_sk v then
    sa_mkRow sa_CNiTriShape (Some sa_CNiTriShapeData) sa_CBSLightingShaderProperty sa_LShaderRef true false 4
  else
    sa_mkRow sa_CNiTriShape (Some sa_CNiTriShapeData) sa_CBSShaderPPLightingProperty sa_LPropertyList true false 4.

(* NifFile::GetTriangleLimit / BSTriShape::Create: 16-bit triangle counter for user >= 12 && stream < 130 *)
Definition sa_tri_limit (v : sa_version) : N :=
  if (12 <=? sa_vuser v) && (sa_vstream v <? 130) then 65535 else 4294967295.
