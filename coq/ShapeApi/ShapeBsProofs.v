(* C13: BSTriShape storage -- every setter/getter pair, frame conditions, creation. *)
From NiflyVerif Require Import Res ShapeClass ShapeQuant ShapeQuantProofs ShapeModel ShapeLoops.
From Coq Require Import QArith Qabs ZifyBool ZifyNat ZifyN.
Local Open Scope N_scope.

Definition sa_wf_bs (s : sa_bstri) : Prop := length (sa_b_vd s) = N.to_nat (sa_b_nv s).

Inductive sa_field := FVert | FUv | FNormal | FTangent | FBitangent | FColor | FEye.
(* the descriptor bit a setter may switch on *)
Definition sa_owner_bit (x : sa_field) : option N :=
  match x with
  | FVert => None | FUv => Some 45 | FNormal => Some 47 | FTangent => Some 48 | FBitangent => Some 48
  | FColor => Some 49 | FEye => Some 52
  end.

(* nothing but field [x] of the vertices (and its descriptor bit) differs between s and s' *)
Definition sa_bs_same_except (x : sa_field) (s s' : sa_bstri) : Prop :=
  sa_b_kind s' = sa_b_kind s /\ sa_b_nv s' = sa_b_nv s /\ sa_b_nt s' = sa_b_nt s
  /\ sa_b_dataSize s' = sa_b_dataSize s /\ sa_b_vertexSize s' = sa_b_vertexSize s
  /\ sa_b_bounds s' = sa_b_bounds s /\ sa_b_tris s' = sa_b_tris s /\ sa_b_seg s' = sa_b_seg s
  /\ length (sa_b_vd s') = length (sa_b_vd s)
  /\ (forall m, Some m <> sa_owner_bit x -> N.testbit (sa_b_desc s') m = N.testbit (sa_b_desc s) m)
  /\ (x = FVert \/ map sa_bv_vert (sa_b_vd s') = map sa_bv_vert (sa_b_vd s))
  /\ (x = FBitangent \/ map sa_bv_bitX (sa_b_vd s') = map sa_bv_bitX (sa_b_vd s))
  /\ (x = FBitangent \/ map sa_bv_bitY (sa_b_vd s') = map sa_bv_bitY (sa_b_vd s))
  /\ (x = FBitangent \/ map sa_bv_bitZ (sa_b_vd s') = map sa_bv_bitZ (sa_b_vd s))
  /\ (x = FUv \/ map sa_bv_uv (sa_b_vd s') = map sa_bv_uv (sa_b_vd s))
  /\ (x = FNormal \/ map sa_bv_n (sa_b_vd s') = map sa_bv_n (sa_b_vd s))
  /\ (x = FTangent \/ map sa_bv_t (sa_b_vd s') = map sa_bv_t (sa_b_vd s))
  /\ (x = FColor \/ map sa_bv_col (sa_b_vd s') = map sa_bv_col (sa_b_vd s))
  /\ (x = FEye \/ map sa_bv_eye (sa_b_vd s') = map sa_bv_eye (sa_b_vd s)).

(* a setter of the shape  flag := on ; for i < numVertices: vertData[i] := f(vertData[i], in[i]) *)
Lemma sa_field_loop {B} (f : sa_bsvert -> B -> sa_bsvert) (s : sa_bstri) (src : list B) :
  sa_wf_bs s -> (N.to_nat (sa_b_nv s) <= length src)%nat ->
  sa_upd2 f (N.to_nat (sa_b_nv s)) (sa_b_vd s) src = Ok (sa_zip f (sa_b_vd s) (firstn (N.to_nat (sa_b_nv s)) src))
  /\ length (sa_zip f (sa_b_vd s) (firstn (N.to_nat (sa_b_nv s)) src)) = length (sa_b_vd s)
  /\ length (sa_b_vd s) = length (firstn (N.to_nat (sa_b_nv s)) src).
Proof.
  intros W L. unfold sa_wf_bs in W.
  assert (E : length (sa_b_vd s) = length (firstn (N.to_nat (sa_b_nv s)) src)) by (rewrite firstn_length; lia).
  split; [|split; [apply sa_zip_length; exact E | exact E]].
  rewrite <- W. rewrite sa_upd2_ok by lia. rewrite firstn_all, skipn_all, app_nil_r. rewrite W. reflexivity.
Qed.

Lemma sa_bs_with_desc_wf s d : sa_wf_bs s -> sa_wf_bs (sa_bs_with_desc s d).
Proof. auto. Qed.
Lemma sa_bs_with_vd_wf s vd : length vd = length (sa_b_vd s) -> sa_wf_bs s -> sa_wf_bs (sa_bs_with_vd s vd).
Proof. unfold sa_wf_bs. simpl. intros. lia. Qed.

Ltac sa_flags := unfold sa_VF_VERTEX, sa_VF_UV, sa_VF_UV_2, sa_VF_NORMAL, sa_VF_TANGENT, sa_VF_COLORS, sa_VF_SKINNED,
  sa_VF_LANDDATA, sa_VF_EYEDATA, sa_VF_FULLPREC;
  change 1 with (2 ^ 0); change 2 with (2 ^ 1) at 1; idtac.

Lemma sa_has_uv d : sa_has_flag d sa_VF_UV = N.testbit d 45. Proof. exact (sa_has_flag_bit d 1). Qed.
Lemma sa_has_vertex d : sa_has_flag d sa_VF_VERTEX = N.testbit d 44. Proof. exact (sa_has_flag_bit d 0). Qed.
Lemma sa_has_normal d : sa_has_flag d sa_VF_NORMAL = N.testbit d 47. Proof. exact (sa_has_flag_bit d 3). Qed.
Lemma sa_has_tangent d : sa_has_flag d sa_VF_TANGENT = N.testbit d 48. Proof. exact (sa_has_flag_bit d 4). Qed.
Lemma sa_has_colors d : sa_has_flag d sa_VF_COLORS = N.testbit d 49. Proof. exact (sa_has_flag_bit d 5). Qed.
Lemma sa_has_skinned d : sa_has_flag d sa_VF_SKINNED = N.testbit d 50. Proof. exact (sa_has_flag_bit d 6). Qed.
Lemma sa_has_eye d : sa_has_flag d sa_VF_EYEDATA = N.testbit d 52. Proof. exact (sa_has_flag_bit d 8). Qed.
Lemma sa_has_fullprec d : sa_has_flag d sa_VF_FULLPREC = N.testbit d 54. Proof. exact (sa_has_flag_bit d 10). Qed.

Lemma sa_put_uv d e m : N.testbit (sa_put_flag d sa_VF_UV e) m = if m =? 45 then e else N.testbit d m.
Proof. exact (sa_put_flag_bit d 1 m e). Qed.
Lemma sa_put_normal d e m : N.testbit (sa_put_flag d sa_VF_NORMAL e) m = if m =? 47 then e else N.testbit d m.
Proof. exact (sa_put_flag_bit d 3 m e). Qed.
Lemma sa_put_tangent d e m : N.testbit (sa_put_flag d sa_VF_TANGENT e) m = if m =? 48 then e else N.testbit d m.
Proof. exact (sa_put_flag_bit d 4 m e). Qed.
Lemma sa_put_skinned d e m : N.testbit (sa_put_flag d sa_VF_SKINNED e) m = if m =? 50 then e else N.testbit d m.
Proof. exact (sa_put_flag_bit d 6 m e). Qed.
Lemma sa_put_eye d e m : N.testbit (sa_put_flag d sa_VF_EYEDATA e) m = if m =? 52 then e else N.testbit d m.
Proof. exact (sa_put_flag_bit d 8 m e). Qed.
Lemma sa_put_fullprec d e m : N.testbit (sa_put_flag d sa_VF_FULLPREC e) m = if m =? 54 then e else N.testbit d m.
Proof. exact (sa_put_flag_bit d 10 m e). Qed.
Lemma sa_set_colors_bit d m : N.testbit (sa_set_flag d sa_VF_COLORS) m = N.testbit d m || (m =? 49).
Proof. exact (sa_set_flag_bit d 5 m). Qed.
Lemma sa_remove_colors_bit d m : N.testbit (sa_remove_flag d sa_VF_COLORS) m = N.testbit d m && negb (m =? 49).
Proof. exact (sa_remove_flag_bit d 5 m). Qed.
Lemma sa_remove_uv_bit d m : N.testbit (sa_remove_flag d sa_VF_UV) m = N.testbit d m && negb (m =? 45).
Proof. exact (sa_remove_flag_bit d 1 m). Qed.

(* ---------- per-vertex setters ---------- *)

Ltac sa_refold := repeat match goal with
  | |- context [sa_set_flag ?d ?f] => change (sa_set_flag d f) with (sa_put_flag d f true)
  | |- context [sa_remove_flag ?d ?f] => change (sa_remove_flag d f) with (sa_put_flag d f false)
  end.
Ltac sa_frame_conj := first [ left; reflexivity | right; apply sa_zip_frame; [ intros [? ? ? ? ? ? ? ? ?] ?; reflexivity | assumption ] ].
Ltac sa_same_except_zip :=
  unfold sa_bs_same_except; simpl;
  repeat match goal with |- _ /\ _ => split end; try reflexivity; try assumption.

Lemma sa_bs_set_normals_vec_spec s ns :
  sa_wf_bs s -> (N.to_nat (sa_b_nv s) <= length ns)%nat ->
  exists s', sa_bs_set_normals_vec s ns = Ok s' /\ sa_wf_bs s' /\ sa_bs_same_except FNormal s s'
    /\ sa_bs_has s' sa_VF_NORMAL = true
    /\ map sa_bv_n (sa_b_vd s') = map sa_nbyte3 (firstn (N.to_nat (sa_b_nv s)) ns).
Proof.
  intros W L. unfold sa_bs_set_normals_vec.
  set (s1 := sa_bs_flag_normals s true).
  assert (W1 : sa_wf_bs s1) by exact W.
  destruct (sa_field_loop (fun v x => sa_bv_set_n v (sa_nbyte3 x)) s1 ns W1 L) as [E [LEN LE2]].
  rewrite E. simpl. eexists. split; [reflexivity|]. change (sa_b_nv s1) with (sa_b_nv s) in *. change (sa_b_vd s1) with (sa_b_vd s) in *.
  split; [unfold sa_wf_bs; simpl; unfold sa_wf_bs in W; lia|].
  split.
  - sa_same_except_zip.
    + intros m Hm. sa_refold. rewrite sa_put_normal. destruct (N.eqb_spec m 47); [subst; congruence | reflexivity].
    + sa_frame_conj. + sa_frame_conj. + sa_frame_conj. + sa_frame_conj. + sa_frame_conj. + sa_frame_conj.
    + sa_frame_conj. + sa_frame_conj. + sa_frame_conj.
  - split.
    + unfold sa_bs_has. simpl. sa_refold. rewrite sa_has_normal, sa_put_normal. reflexivity.
    + simpl. apply sa_zip_map; [intros; reflexivity | assumption].
Qed.

(* generic form of "flag on; for i < numVertices: vertData[i] := f(vertData[i], in[i])" *)
Definition sa_preserves {B} (x : sa_field) (f : sa_bsvert -> B -> sa_bsvert) : Prop :=
  (x = FVert \/ forall a b, sa_bv_vert (f a b) = sa_bv_vert a)
  /\ (x = FBitangent \/ forall a b, sa_bv_bitX (f a b) = sa_bv_bitX a)
  /\ (x = FBitangent \/ forall a b, sa_bv_bitY (f a b) = sa_bv_bitY a)
  /\ (x = FBitangent \/ forall a b, sa_bv_bitZ (f a b) = sa_bv_bitZ a)
  /\ (x = FUv \/ forall a b, sa_bv_uv (f a b) = sa_bv_uv a)
  /\ (x = FNormal \/ forall a b, sa_bv_n (f a b) = sa_bv_n a)
  /\ (x = FTangent \/ forall a b, sa_bv_t (f a b) = sa_bv_t a)
  /\ (x = FColor \/ forall a b, sa_bv_col (f a b) = sa_bv_col a)
  /\ (x = FEye \/ forall a b, sa_bv_eye (f a b) = sa_bv_eye a).

Ltac sa_preserves_tac :=
  unfold sa_preserves; repeat split;
  first [ left; reflexivity | right; intros [? ? ? ? ? ? ? ? ?] ?; repeat match goal with p : sa_v3 |- _ => destruct p as [[? ?] ?] | p : (_ * _)%type |- _ => destruct p end; reflexivity ].

Lemma sa_bs_loop_setter {B} (x : sa_field) (f : sa_bsvert -> B -> sa_bsvert) (s : sa_bstri) (d1 : N) (src : list B) :
  sa_wf_bs s -> (N.to_nat (sa_b_nv s) <= length src)%nat ->
  (forall m, Some m <> sa_owner_bit x -> N.testbit d1 m = N.testbit (sa_b_desc s) m) ->
  sa_preserves x f ->
  let vd' := sa_zip f (sa_b_vd s) (firstn (N.to_nat (sa_b_nv s)) src) in
  let s' := sa_bs_with_vd (sa_bs_with_desc s d1) vd' in
  sa_upd2 f (N.to_nat (sa_b_nv s)) (sa_b_vd s) src = Ok vd'
  /\ sa_wf_bs s' /\ sa_bs_same_except x s s'
  /\ length (sa_b_vd s) = length (firstn (N.to_nat (sa_b_nv s)) src).
Proof.
  intros W L HB HP vd' s'.
  destruct (sa_field_loop f s src W L) as [E [LEN LE2]].
  split; [exact E|]. split; [unfold sa_wf_bs; simpl; unfold vd'; unfold sa_wf_bs in W; lia|].
  split; [|exact LE2].
  destruct HP as [P1 [P2 [P3 [P4 [P5 [P6 [P7 [P8 P9]]]]]]]].
  unfold sa_bs_same_except; simpl.
  repeat match goal with |- _ /\ _ => split end; try reflexivity; try assumption;
    match goal with
    | H : _ \/ _ |- _ \/ map ?p _ = map ?p _ =>
      first [ destruct H as [H | H]; [left; exact H | right; apply sa_zip_frame; [exact H | exact LE2]] | fail ]
    end.
Qed.

Lemma sa_bs_same_except_trans x s s1 s2 : sa_bs_same_except x s s1 -> sa_bs_same_except x s1 s2 -> sa_bs_same_except x s s2.
Proof.
  unfold sa_bs_same_except.
  intros [A1 [A2 [A3 [A4 [A5 [A6 [A7 [A8 [A9 [A10 [A11 [A12 [A13 [A14 [A15 [A16 [A17 [A18 A19]]]]]]]]]]]]]]]]]]
         [B1 [B2 [B3 [B4 [B5 [B6 [B7 [B8 [B9 [B10 [B11 [B12 [B13 [B14 [B15 [B16 [B17 [B18 B19]]]]]]]]]]]]]]]]]].
  split; [rewrite B1; exact A1|]. split; [rewrite B2; exact A2|]. split; [rewrite B3; exact A3|].
  split; [rewrite B4; exact A4|]. split; [rewrite B5; exact A5|]. split; [rewrite B6; exact A6|].
  split; [rewrite B7; exact A7|]. split; [rewrite B8; exact A8|]. split; [rewrite B9; exact A9|].
  split; [intros m Hm; rewrite B10 by exact Hm; apply A10; exact Hm|].
  split; [destruct A11 as [A|A]; [left; exact A | destruct B11 as [B|B]; [left; exact B | right; rewrite B; exact A]]|].
  split; [destruct A12 as [A|A]; [left; exact A | destruct B12 as [B|B]; [left; exact B | right; rewrite B; exact A]]|].
  split; [destruct A13 as [A|A]; [left; exact A | destruct B13 as [B|B]; [left; exact B | right; rewrite B; exact A]]|].
  split; [destruct A14 as [A|A]; [left; exact A | destruct B14 as [B|B]; [left; exact B | right; rewrite B; exact A]]|].
  split; [destruct A15 as [A|A]; [left; exact A | destruct B15 as [B|B]; [left; exact B | right; rewrite B; exact A]]|].
  split; [destruct A16 as [A|A]; [left; exact A | destruct B16 as [B|B]; [left; exact B | right; rewrite B; exact A]]|].
  split; [destruct A17 as [A|A]; [left; exact A | destruct B17 as [B|B]; [left; exact B | right; rewrite B; exact A]]|].
  split; [destruct A18 as [A|A]; [left; exact A | destruct B18 as [B|B]; [left; exact B | right; rewrite B; exact A]]|].
  destruct A19 as [A|A]; [left; exact A | destruct B19 as [B|B]; [left; exact B | right; rewrite B; exact A]].
Qed.

Lemma sa_vlen_eqb {A} (l : list A) (n : N) : length l = N.to_nat n -> (vlen l =? n) = true.
Proof. intros H. unfold vlen. apply N.eqb_eq. lia. Qed.
Lemma sa_vlen_neqb {A} (l : list A) (n : N) : length l <> N.to_nat n -> (vlen l =? n) = false.
Proof. intros H. unfold vlen. apply N.eqb_neq. lia. Qed.
Lemma sa_firstn_len {A} (l : list A) n : length l = n -> firstn n l = l.
Proof. intros <-. apply firstn_all. Qed.

Ltac sa_bit_other lem :=
  let m := fresh "m" in let Hm := fresh "Hm" in
  intros m Hm; sa_refold; rewrite lem;
  match goal with |- (if ?m0 =? ?k then _ else _) = _ => destruct (N.eqb_spec m0 k); [subst; simpl in Hm; congruence | reflexivity] end.

Section WithOpaque.
  Variable bsphere : list sa_v3 -> sa_bnd.
  Variable btan : list sa_bsvert -> list tri -> nat -> sa_b3 * sa_F * N * N.

Lemma sa_bs_set_verts_same_spec ver s verts :
  sa_wf_bs s -> length verts = N.to_nat (sa_b_nv s) ->
  exists s', sa_bs_api_set_verts bsphere btan ver s verts = Ok s' /\ sa_wf_bs s' /\ sa_bs_same_except FVert s s'
    /\ map sa_bv_vert (sa_b_vd s') = verts.
Proof.
  intros W L. unfold sa_bs_api_set_verts. rewrite (sa_vlen_eqb _ _ L). simpl.
  destruct (sa_bs_loop_setter FVert sa_bv_set_vert s (sa_b_desc s) verts W ltac:(lia) ltac:(reflexivity) ltac:(sa_preserves_tac))
    as [E [W' [SE LE]]].
  rewrite E. simpl. eexists. split; [reflexivity|].
  assert (EQ : sa_bs_with_desc s (sa_b_desc s) = s) by (destruct s; reflexivity). rewrite EQ in *.
  split; [exact W'|]. split; [exact SE|].
  simpl. rewrite (sa_zip_map sa_bv_set_vert sa_bv_vert (fun x => x)) by (auto; intros [] ?; reflexivity).
  rewrite map_id. apply sa_firstn_len. exact L.
Qed.

Lemma sa_bs_set_uvs_spec s uvs :
  sa_wf_bs s -> length uvs = N.to_nat (sa_b_nv s) ->
  exists s', sa_bs_api_set_uvs s uvs = Ok s' /\ sa_wf_bs s' /\ sa_bs_same_except FUv s s'
    /\ sa_bs_has s' sa_VF_UV = true /\ map sa_bv_uv (sa_b_vd s') = uvs.
Proof.
  intros W L. unfold sa_bs_api_set_uvs. rewrite (sa_vlen_eqb _ _ L).
  destruct (sa_bs_loop_setter FUv sa_bv_set_uv s (sa_put_flag (sa_b_desc s) sa_VF_UV true) uvs W ltac:(lia)
             ltac:(sa_bit_other sa_put_uv) ltac:(sa_preserves_tac)) as [E [W' [SE LE]]].
  change (sa_b_nv (sa_bs_flag_uvs s true)) with (sa_b_nv s). change (sa_b_vd (sa_bs_flag_uvs s true)) with (sa_b_vd s).
  rewrite E. simpl. eexists. split; [reflexivity|]. split; [exact W'|]. split; [exact SE|]. split.
  - unfold sa_bs_has. simpl. sa_refold. rewrite sa_has_uv, sa_put_uv. reflexivity.
  - simpl. rewrite (sa_zip_map sa_bv_set_uv sa_bv_uv (fun x => x)) by (auto; intros [] ?; reflexivity).
    rewrite map_id. apply sa_firstn_len. exact L.
Qed.

Lemma sa_bs_set_normals_spec s ns :
  sa_wf_bs s -> length ns = N.to_nat (sa_b_nv s) ->
  exists s', sa_bs_api_set_normals s ns = Ok s' /\ sa_wf_bs s' /\ sa_bs_same_except FNormal s s'
    /\ sa_bs_has s' sa_VF_NORMAL = true /\ map sa_bv_n (sa_b_vd s') = map sa_nbyte3 ns.
Proof.
  intros W L. assert (LE : (N.to_nat (sa_b_nv s) <= length ns)%nat) by lia.
  destruct (sa_bs_set_normals_vec_spec s ns W LE) as [s' [E [W' [SE [H M]]]]].
  exists s'. unfold sa_bs_api_set_normals. rewrite (sa_firstn_len _ _ L) in M. auto.
Qed.

Lemma sa_bs_set_tangents_spec s ts :
  sa_wf_bs s -> length ts = N.to_nat (sa_b_nv s) ->
  exists s', sa_bs_api_set_tangents s ts = Ok s' /\ sa_wf_bs s' /\ sa_bs_same_except FTangent s s'
    /\ sa_bs_has s' sa_VF_TANGENT = true /\ map sa_bv_t (sa_b_vd s') = map sa_nbyte3 ts.
Proof.
  intros W L. unfold sa_bs_api_set_tangents, sa_bs_set_tangent_data. rewrite (sa_vlen_eqb _ _ L).
  destruct (sa_bs_loop_setter FTangent (fun v x => sa_bv_set_t v (sa_nbyte3 x)) s (sa_put_flag (sa_b_desc s) sa_VF_TANGENT true) ts W ltac:(lia)
             ltac:(sa_bit_other sa_put_tangent) ltac:(sa_preserves_tac)) as [E [W' [SE LE]]].
  change (sa_b_nv (sa_bs_flag_tangents s true)) with (sa_b_nv s). change (sa_b_vd (sa_bs_flag_tangents s true)) with (sa_b_vd s).
  rewrite E. simpl. eexists. split; [reflexivity|]. split; [exact W'|]. split; [exact SE|]. split.
  - unfold sa_bs_has. simpl. sa_refold. rewrite sa_has_tangent, sa_put_tangent. reflexivity.
  - simpl. rewrite (sa_zip_map _ sa_bv_t sa_nbyte3) by (auto; intros [] ?; reflexivity).
    rewrite (sa_firstn_len _ _ L). reflexivity.
Qed.

Definition sa_bit_enc (x : sa_v3) : sa_F * N * N := let '(x0, y, z) := x in (x0, sa_nbyte y, sa_nbyte z).

Lemma sa_bs_set_bitangents_spec s bs :
  sa_wf_bs s -> length bs = N.to_nat (sa_b_nv s) ->
  exists s', sa_bs_api_set_bitangents s bs = Ok s' /\ sa_wf_bs s' /\ sa_bs_same_except FBitangent s s'
    /\ sa_bs_has s' sa_VF_TANGENT = true
    /\ map (fun v => (sa_bv_bitX v, sa_bv_bitY v, sa_bv_bitZ v)) (sa_b_vd s') = map sa_bit_enc bs.
Proof.
  intros W L. unfold sa_bs_api_set_bitangents, sa_bs_set_bitangent_data. rewrite (sa_vlen_eqb _ _ L).
  destruct (sa_bs_loop_setter FBitangent sa_bv_set_bitv
             s (sa_put_flag (sa_b_desc s) sa_VF_TANGENT true) bs W ltac:(lia)
             ltac:(sa_bit_other sa_put_tangent) ltac:(sa_preserves_tac)) as [E [W' [SE LE]]].
  change (sa_b_nv (sa_bs_flag_tangents s true)) with (sa_b_nv s). change (sa_b_vd (sa_bs_flag_tangents s true)) with (sa_b_vd s).
  rewrite E. simpl. eexists. split; [reflexivity|]. split; [exact W'|]. split; [exact SE|]. split.
  - unfold sa_bs_has. simpl. sa_refold. rewrite sa_has_tangent, sa_put_tangent. reflexivity.
  - simpl. rewrite (sa_zip_map _ (fun v => (sa_bv_bitX v, sa_bv_bitY v, sa_bv_bitZ v)) sa_bit_enc)
      by (auto; intros [] [[? ?] ?]; reflexivity).
    rewrite (sa_firstn_len _ _ L). reflexivity.
Qed.

Lemma sa_bs_set_eye_spec s es :
  sa_wf_bs s -> length es = N.to_nat (sa_b_nv s) ->
  exists s', sa_bs_api_set_eye s es = Ok s' /\ sa_wf_bs s' /\ sa_bs_same_except FEye s s'
    /\ sa_bs_has s' sa_VF_EYEDATA = true /\ map sa_bv_eye (sa_b_vd s') = es.
Proof.
  intros W L. unfold sa_bs_api_set_eye, sa_bs_set_eye_data. rewrite (sa_vlen_eqb _ _ L).
  destruct (sa_bs_loop_setter FEye sa_bv_set_eye s (sa_put_flag (sa_b_desc s) sa_VF_EYEDATA true) es W ltac:(lia)
             ltac:(sa_bit_other sa_put_eye) ltac:(sa_preserves_tac)) as [E [W' [SE LE]]].
  change (sa_b_nv (sa_bs_flag_eye s true)) with (sa_b_nv s). change (sa_b_vd (sa_bs_flag_eye s true)) with (sa_b_vd s).
  rewrite E. simpl. eexists. split; [reflexivity|]. split; [exact W'|]. split; [exact SE|]. split.
  - unfold sa_bs_has. simpl. sa_refold. rewrite sa_has_eye, sa_put_eye. reflexivity.
  - simpl. rewrite (sa_zip_map sa_bv_set_eye sa_bv_eye (fun x => x)) by (auto; intros [] ?; reflexivity).
    rewrite map_id. apply sa_firstn_len. exact L.
Qed.

Lemma sa_bs_set_colors_spec s cs :
  sa_wf_bs s -> length cs = N.to_nat (sa_b_nv s) ->
  exists s', sa_bs_api_set_colors s cs = Ok s' /\ sa_wf_bs s' /\ sa_bs_same_except FColor s s'
    /\ sa_bs_has s' sa_VF_COLORS = true /\ map sa_bv_col (sa_b_vd s') = map sa_cbyte4 cs.
Proof.
  intros W L. unfold sa_bs_api_set_colors. rewrite (sa_vlen_eqb _ _ L).
  (* SetVertexColors(true): white-initialises the colour bytes when the flag was off *)
  set (s1 := sa_bs_flag_colors s true).
  assert (S1 : sa_wf_bs s1 /\ sa_bs_same_except FColor s s1 /\ sa_bs_has s1 sa_VF_COLORS = true).
  { unfold s1, sa_bs_flag_colors. destruct (sa_bs_has s sa_VF_COLORS) eqn:HC.
    - split; [exact W|]. split.
      + unfold sa_bs_same_except; cbn [sa_bs_with_desc sa_b_kind sa_b_nv sa_b_nt sa_b_desc sa_b_dataSize sa_b_vertexSize sa_b_bounds sa_b_vd sa_b_tris sa_b_seg].
        repeat match goal with |- _ /\ _ => split end;
          try (intros m Hm; rewrite sa_set_colors_bit; destruct (N.eqb_spec m 49); [subst; simpl in Hm; congruence | apply orb_false_r]);
          try (right; reflexivity); reflexivity.
      + unfold sa_bs_has. cbn [sa_bs_with_desc sa_b_desc]. rewrite sa_has_colors, sa_set_colors_bit. apply orb_true_r.
    - split; [unfold sa_wf_bs; cbn [sa_bs_with_desc sa_bs_with_vd sa_b_vd sa_b_nv]; rewrite map_length; exact W|]. split.
      + unfold sa_bs_same_except; cbn [sa_bs_with_desc sa_bs_with_vd sa_b_kind sa_b_nv sa_b_nt sa_b_desc sa_b_dataSize sa_b_vertexSize sa_b_bounds sa_b_vd sa_b_tris sa_b_seg].
        rewrite map_length.
        repeat match goal with |- _ /\ _ => split end;
          try (intros m Hm; rewrite sa_set_colors_bit; destruct (N.eqb_spec m 49); [subst; simpl in Hm; congruence | apply orb_false_r]);
          try (right; rewrite map_map; apply map_ext; intros []; reflexivity); try (left; reflexivity); reflexivity.
      + unfold sa_bs_has. cbn [sa_bs_with_desc sa_bs_with_vd sa_b_desc]. rewrite sa_has_colors, sa_set_colors_bit. apply orb_true_r. }
  destruct S1 as [W1 [SE1 H1]]. clearbody s1.
  assert (NV : sa_b_nv s1 = sa_b_nv s) by (destruct SE1 as [_ [E _]]; exact E).
  destruct (sa_bs_loop_setter FColor (fun v x => sa_bv_set_col v (sa_cbyte4 x)) s1 (sa_b_desc s1) cs W1 ltac:(lia)
             ltac:(reflexivity) ltac:(sa_preserves_tac)) as [E [W' [SE LE]]].
  rewrite E. simpl. eexists. split; [reflexivity|].
  assert (EQ : sa_bs_with_desc s1 (sa_b_desc s1) = s1) by (destruct s1; reflexivity). rewrite EQ in *.
  split; [exact W'|]. split.
  - exact (sa_bs_same_except_trans _ _ _ _ SE1 SE).
  - split.
    + unfold sa_bs_has in *. simpl. exact H1.
    + simpl. rewrite (sa_zip_map _ sa_bv_col sa_cbyte4) by (auto; intros [] ?; reflexivity).
      rewrite NV. rewrite (sa_firstn_len _ _ L). reflexivity.
Qed.

(* setters that check the size themselves ignore an array of another length *)
Lemma sa_bs_set_wrong_length s :
  (forall uvs, length uvs <> N.to_nat (sa_b_nv s) -> sa_bs_api_set_uvs s uvs = Ok s)
  /\ (forall cs, length cs <> N.to_nat (sa_b_nv s) -> sa_bs_api_set_colors s cs = Ok s)
  /\ (forall ts, length ts <> N.to_nat (sa_b_nv s) -> sa_bs_api_set_tangents s ts = Ok s)
  /\ (forall bs, length bs <> N.to_nat (sa_b_nv s) -> sa_bs_api_set_bitangents s bs = Ok s)
  /\ (forall es, length es <> N.to_nat (sa_b_nv s) -> sa_bs_api_set_eye s es = Ok s).
Proof.
  repeat split; intros l H;
    unfold sa_bs_api_set_uvs, sa_bs_api_set_colors, sa_bs_api_set_tangents, sa_bs_api_set_bitangents, sa_bs_api_set_eye;
    rewrite (sa_vlen_neqb _ _ H); reflexivity.
Qed.

(* SetNormalsForShape does not check: an array shorter than the vertex count is read past its end *)
Lemma sa_bs_set_normals_short_faults s ns :
  sa_wf_bs s -> (length ns < N.to_nat (sa_b_nv s))%nat -> sa_bs_api_set_normals s ns = Fault.
Proof.
  intros W L. unfold sa_bs_api_set_normals, sa_bs_set_normals_vec.
  change (sa_b_nv (sa_bs_flag_normals s true)) with (sa_b_nv s). change (sa_b_vd (sa_bs_flag_normals s true)) with (sa_b_vd s).
  rewrite sa_upd2_fault_src; [reflexivity | lia | unfold sa_wf_bs in W; lia].
Qed.

(* ---------- getters on a well-formed shape ---------- *)

Lemma sa_bs_get_verts_wf s : sa_wf_bs s -> sa_bs_get_verts s = Ok (map sa_bv_vert (sa_b_vd s)).
Proof. intros W. unfold sa_bs_get_verts. rewrite <- W. apply sa_rd_full. Qed.
Lemma sa_bs_get_uvs_wf s : sa_wf_bs s ->
  sa_bs_get_uvs s = Ok (if sa_bs_has s sa_VF_UV then Some (map sa_bv_uv (sa_b_vd s)) else None).
Proof. intros W. unfold sa_bs_get_uvs. destruct (sa_bs_has s sa_VF_UV); [|reflexivity]. rewrite <- W, sa_rd_full. reflexivity. Qed.
Lemma sa_bs_get_normals_wf s : sa_wf_bs s ->
  sa_bs_get_normals s = Ok (if sa_bs_has s sa_VF_NORMAL then Some (map sa_ndec3 (map sa_bv_n (sa_b_vd s))) else None).
Proof. intros W. unfold sa_bs_get_normals. destruct (sa_bs_has s sa_VF_NORMAL); [|reflexivity]. rewrite <- W, sa_rd_full. rewrite map_map. reflexivity. Qed.
Lemma sa_bs_get_tangents_wf s : sa_wf_bs s ->
  sa_bs_get_tangents s = Ok (if sa_bs_has s sa_VF_TANGENT then Some (map sa_ndec3 (map sa_bv_t (sa_b_vd s))) else None).
Proof. intros W. unfold sa_bs_get_tangents. destruct (sa_bs_has s sa_VF_TANGENT); [|reflexivity]. rewrite <- W, sa_rd_full. rewrite map_map. reflexivity. Qed.
Definition sa_bit_dec (x : sa_F * N * N) : sa_F * Q * Q := let '(x0, y, z) := x in (x0, sa_ndec y, sa_ndec z).
Lemma sa_bs_get_bitangents_wf s : sa_wf_bs s ->
  sa_bs_get_bitangents s = Ok (if sa_bs_has s sa_VF_TANGENT
     then Some (map sa_bit_dec (map (fun v => (sa_bv_bitX v, sa_bv_bitY v, sa_bv_bitZ v)) (sa_b_vd s))) else None).
Proof. intros W. unfold sa_bs_get_bitangents. destruct (sa_bs_has s sa_VF_TANGENT); [|reflexivity]. rewrite <- W, sa_rd_full. rewrite map_map. reflexivity. Qed.
Lemma sa_bs_get_colors_wf s : sa_wf_bs s ->
  sa_bs_get_colors s = Ok (if sa_bs_has s sa_VF_COLORS then Some (map sa_cdec4 (map sa_bv_col (sa_b_vd s))) else None).
Proof. intros W. unfold sa_bs_get_colors. destruct (sa_bs_has s sa_VF_COLORS); [|reflexivity]. rewrite <- W, sa_rd_full. rewrite map_map. reflexivity. Qed.
Lemma sa_bs_get_eye_wf s : sa_wf_bs s ->
  sa_bs_get_eye s = Ok (if sa_bs_has s sa_VF_EYEDATA then Some (map sa_bv_eye (sa_b_vd s)) else None).
Proof. intros W. unfold sa_bs_get_eye. destruct (sa_bs_has s sa_VF_EYEDATA); [|reflexivity]. rewrite <- W, sa_rd_full. reflexivity. Qed.

(* ---------- set then get ---------- *)

Theorem sa_bs_set_get_verts ver s verts : sa_wf_bs s -> length verts = N.to_nat (sa_b_nv s) ->
  exists s', sa_bs_api_set_verts bsphere btan ver s verts = Ok s' /\ sa_bs_get_verts s' = Ok verts.
Proof.
  intros W L. destruct (sa_bs_set_verts_same_spec ver s verts W L) as [s' [E [W' [_ M]]]].
  exists s'. split; [exact E|]. rewrite sa_bs_get_verts_wf by exact W'. rewrite M. reflexivity.
Qed.
Theorem sa_bs_set_get_uvs s uvs : sa_wf_bs s -> length uvs = N.to_nat (sa_b_nv s) ->
  exists s', sa_bs_api_set_uvs s uvs = Ok s' /\ sa_bs_get_uvs s' = Ok (Some uvs).
Proof.
  intros W L. destruct (sa_bs_set_uvs_spec s uvs W L) as [s' [E [W' [_ [H M]]]]].
  exists s'. split; [exact E|]. rewrite sa_bs_get_uvs_wf by exact W'. rewrite H, M. reflexivity.
Qed.
Theorem sa_bs_set_get_normals s ns : sa_wf_bs s -> length ns = N.to_nat (sa_b_nv s) ->
  exists s', sa_bs_api_set_normals s ns = Ok s'
    /\ sa_bs_get_normals s' = Ok (Some (map (fun x => sa_ndec3 (sa_nbyte3 x)) ns)).
Proof.
  intros W L. destruct (sa_bs_set_normals_spec s ns W L) as [s' [E [W' [_ [H M]]]]].
  exists s'. split; [exact E|]. rewrite sa_bs_get_normals_wf by exact W'. rewrite H, M, map_map. reflexivity.
Qed.
Theorem sa_bs_set_get_tangents s ts : sa_wf_bs s -> length ts = N.to_nat (sa_b_nv s) ->
  exists s', sa_bs_api_set_tangents s ts = Ok s'
    /\ sa_bs_get_tangents s' = Ok (Some (map (fun x => sa_ndec3 (sa_nbyte3 x)) ts)).
Proof.
  intros W L. destruct (sa_bs_set_tangents_spec s ts W L) as [s' [E [W' [_ [H M]]]]].
  exists s'. split; [exact E|]. rewrite sa_bs_get_tangents_wf by exact W'. rewrite H, M, map_map. reflexivity.
Qed.
Theorem sa_bs_set_get_bitangents s bs : sa_wf_bs s -> length bs = N.to_nat (sa_b_nv s) ->
  exists s', sa_bs_api_set_bitangents s bs = Ok s'
    /\ sa_bs_get_bitangents s' = Ok (Some (map (fun x => sa_bit_dec (sa_bit_enc x)) bs)).
Proof.
  intros W L. destruct (sa_bs_set_bitangents_spec s bs W L) as [s' [E [W' [_ [H M]]]]].
  exists s'. split; [exact E|]. rewrite sa_bs_get_bitangents_wf by exact W'. rewrite H, M, map_map. reflexivity.
Qed.
Theorem sa_bs_set_get_colors s cs : sa_wf_bs s -> length cs = N.to_nat (sa_b_nv s) ->
  exists s', sa_bs_api_set_colors s cs = Ok s'
    /\ sa_bs_get_colors s' = Ok (Some (map (fun x => sa_cdec4 (sa_cbyte4 x)) cs)).
Proof.
  intros W L. destruct (sa_bs_set_colors_spec s cs W L) as [s' [E [W' [_ [H M]]]]].
  exists s'. split; [exact E|]. rewrite sa_bs_get_colors_wf by exact W'. rewrite H, M, map_map. reflexivity.
Qed.
Theorem sa_bs_set_get_eye s es : sa_wf_bs s -> length es = N.to_nat (sa_b_nv s) ->
  exists s', sa_bs_api_set_eye s es = Ok s' /\ sa_bs_get_eye s' = Ok (Some es).
Proof.
  intros W L. destruct (sa_bs_set_eye_spec s es W L) as [s' [E [W' [_ [H M]]]]].
  exists s'. split; [exact E|]. rewrite sa_bs_get_eye_wf by exact W'. rewrite H, M. reflexivity.
Qed.

(* ---------- frame: what same_except means for the getters ---------- *)

Lemma sa_bs_frame_getters x s s' : sa_wf_bs s -> sa_wf_bs s' -> sa_bs_same_except x s s' ->
  sa_b_nv s' = sa_b_nv s /\ sa_b_nt s' = sa_b_nt s /\ sa_bs_get_tris s' = sa_bs_get_tris s /\ sa_b_bounds s' = sa_b_bounds s
  /\ length (sa_b_vd s') = length (sa_b_vd s)
  /\ (x <> FVert -> sa_bs_get_verts s' = sa_bs_get_verts s)
  /\ (x <> FUv -> sa_bs_get_uvs s' = sa_bs_get_uvs s)
  /\ (x <> FNormal -> sa_bs_get_normals s' = sa_bs_get_normals s)
  /\ (x <> FTangent -> sa_bs_has s' sa_VF_TANGENT = sa_bs_has s sa_VF_TANGENT -> sa_bs_get_tangents s' = sa_bs_get_tangents s)
  /\ (x <> FBitangent -> sa_bs_has s' sa_VF_TANGENT = sa_bs_has s sa_VF_TANGENT -> sa_bs_get_bitangents s' = sa_bs_get_bitangents s)
  /\ (x <> FColor -> sa_bs_get_colors s' = sa_bs_get_colors s)
  /\ (x <> FEye -> sa_bs_get_eye s' = sa_bs_get_eye s)
  /\ (x <> FTangent -> x <> FBitangent -> sa_bs_has s' sa_VF_TANGENT = sa_bs_has s sa_VF_TANGENT).
Proof.
  intros W W' [A1 [A2 [A3 [A4 [A5 [A6 [A7 [A8 [A9 [A10 [A11 [A12 [A13 [A14 [A15 [A16 [A17 [A18 A19]]]]]]]]]]]]]]]]]].
  split; [exact A2|]. split; [exact A3|]. split; [exact A7|]. split; [exact A6|]. split; [exact A9|].
  split; [intros N; rewrite !sa_bs_get_verts_wf by assumption; destruct A11 as [A|A]; [contradiction | rewrite A; reflexivity]|].
  split.
  { intros N. rewrite !sa_bs_get_uvs_wf by assumption. unfold sa_bs_has. rewrite !sa_has_uv.
    rewrite (A10 45) by (destruct x; simpl; congruence). destruct A15 as [A|A]; [contradiction | rewrite A; reflexivity]. }
  split.
  { intros N. rewrite !sa_bs_get_normals_wf by assumption. unfold sa_bs_has. rewrite !sa_has_normal.
    rewrite (A10 47) by (destruct x; simpl; congruence). destruct A16 as [A|A]; [contradiction | rewrite A; reflexivity]. }
  split.
  { intros N HT. rewrite !sa_bs_get_tangents_wf by assumption. rewrite HT.
    destruct A17 as [A|A]; [contradiction | rewrite A; reflexivity]. }
  split.
  { intros N HT. rewrite !sa_bs_get_bitangents_wf by assumption. rewrite HT.
    destruct A12 as [A|A]; [contradiction|]. destruct A13 as [B|B]; [contradiction|]. destruct A14 as [C|C]; [contradiction|].
    assert (E : map (fun v => (sa_bv_bitX v, sa_bv_bitY v, sa_bv_bitZ v)) (sa_b_vd s')
                = map (fun v => (sa_bv_bitX v, sa_bv_bitY v, sa_bv_bitZ v)) (sa_b_vd s)).
    { clear - A B C A9. revert A B C A9. generalize (sa_b_vd s). induction (sa_b_vd s') as [|v r IH]; intros [|w l]; simpl; intros; try discriminate; auto.
      injection A as A0 A. injection B as B0 B. injection C as C0 C. injection A9 as L. rewrite A0, B0, C0. f_equal. apply IH; auto. }
    rewrite E. reflexivity. }
  split.
  { intros N. rewrite !sa_bs_get_colors_wf by assumption. unfold sa_bs_has. rewrite !sa_has_colors.
    rewrite (A10 49) by (destruct x; simpl; congruence). destruct A18 as [A|A]; [contradiction | rewrite A; reflexivity]. }
  split.
  { intros N. rewrite !sa_bs_get_eye_wf by assumption. unfold sa_bs_has. rewrite !sa_has_eye.
    rewrite (A10 52) by (destruct x; simpl; congruence). destruct A19 as [A|A]; [contradiction | rewrite A; reflexivity]. }
  intros N1 N2. unfold sa_bs_has. rewrite !sa_has_tangent. apply A10. destruct x; simpl; congruence.
Qed.

(* ---------- quantisation of the byte fields, on tokens ---------- *)

Lemma sa_u8_id z : (0 <= z <= 255)%Z -> Z.of_N (sa_u8 z) = z.
Proof. intros H. unfold sa_u8. rewrite Z.mod_small by lia. lia. Qed.

Lemma sa_nbyte_bound (x : sa_F) :
  (-1 <= sa_f32_val x)%Q -> (sa_f32_val x <= 1)%Q ->
  (Qabs (sa_ndec (sa_nbyte x) - sa_f32_val x) <= 1 # 255)%Q /\ (sa_nbyte x <= 255).
Proof.
  intros H1 H2. unfold sa_ndec, sa_nbyte. pose proof (norm_enc_range _ H1 H2) as R.
  rewrite sa_u8_id by exact R. split; [apply norm_quant_bound; assumption|].
  unfold sa_u8. rewrite Z.mod_small by lia. lia.
Qed.
Lemma sa_cbyte_bound (x : sa_F) :
  (Qabs (sa_cdec (sa_cbyte x) - sa_col_clamp (sa_f32_val x)) <= 1 # 256)%Q /\ (sa_cbyte x <= 255).
Proof.
  unfold sa_cdec, sa_cbyte. pose proof (col_enc_range (sa_f32_val x)) as R.
  rewrite sa_u8_id by exact R. split; [apply col_quant_bound|].
  unfold sa_u8. rewrite Z.mod_small by lia. lia.
Qed.
(* setting what a getter returned stores the same bytes again *)
Lemma sa_byte_fixpoint (b : N) : b <= 255 ->
  sa_u8 (sa_norm_enc (sa_ndec b)) = b /\ sa_u8 (sa_col_enc (sa_cdec b)) = b.
Proof.
  intros H. unfold sa_ndec, sa_cdec. rewrite norm_enc_dec_id, col_enc_dec_id by lia.
  unfold sa_u8. rewrite Z.mod_small by lia. split; lia.
Qed.

(* ---------- triangles, bounds, flags ---------- *)

Lemma sa_bs_set_tris_spec s t :
  sa_bs_get_tris (sa_bs_set_tris s t) = t /\ sa_b_nt (sa_bs_set_tris s t) = sa_wrap32 (vlen t)
  /\ sa_b_vd (sa_bs_set_tris s t) = sa_b_vd s /\ sa_b_desc (sa_bs_set_tris s t) = sa_b_desc s
  /\ sa_b_nv (sa_bs_set_tris s t) = sa_b_nv s /\ sa_b_bounds (sa_bs_set_tris s t) = sa_b_bounds s.
Proof. repeat split. Qed.
Lemma sa_bs_set_bounds_spec s b :
  sa_b_bounds (sa_bs_with_bounds s b) = b /\ sa_b_vd (sa_bs_with_bounds s b) = sa_b_vd s
  /\ sa_b_desc (sa_bs_with_bounds s b) = sa_b_desc s /\ sa_b_tris (sa_bs_with_bounds s b) = sa_b_tris s
  /\ sa_b_nv (sa_bs_with_bounds s b) = sa_b_nv s /\ sa_b_nt (sa_bs_with_bounds s b) = sa_b_nt s.
Proof. repeat split. Qed.

End WithOpaque.
