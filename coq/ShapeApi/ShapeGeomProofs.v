(* C13: NiTriShapeData storage -- setters, getters, frame conditions, creation. *)
From NiflyVerif Require Import Res ShapeClass ShapeQuant ShapeModel ShapeLoops ShapeBsProofs ShapeBsCreate.
From Coq Require Import ZifyBool ZifyNat ZifyN.
Local Open Scope N_scope.

Definition sa_wf_g (g : sa_geom) : Prop :=
  let n := N.to_nat (sa_g_nv g) in
  length (sa_g_verts g) = n
  /\ length (sa_g_norms g) = (if sa_g_hn g then n else O)
  /\ length (sa_g_tans g) = (if sa_g_has_tangents g then n else O)
  /\ length (sa_g_bits g) = (if sa_g_has_tangents g then n else O)
  /\ length (sa_g_cols g) = (if sa_g_hc g then n else O)
  /\ (if sa_g_has_uvs g then exists u, sa_g_uvs g = [u] /\ length u = n else sa_g_uvs g = []).

Lemma sa_df_bits (df : N) :
  N.testbit (N.lor df 1) 0 = true /\ N.testbit (N.ldiff df 1) 0 = false
  /\ N.testbit (N.lor df 1) 12 = N.testbit df 12 /\ N.testbit (N.ldiff df 1) 12 = N.testbit df 12
  /\ N.testbit (N.lor df 4096) 12 = true /\ N.testbit (N.ldiff df 4096) 12 = false
  /\ N.testbit (N.lor df 4096) 0 = N.testbit df 0 /\ N.testbit (N.ldiff df 4096) 0 = N.testbit df 0.
Proof.
  rewrite !N.lor_spec, !N.ldiff_spec.
  change (N.testbit 1 0) with true. change (N.testbit 1 12) with false.
  change (N.testbit 4096 12) with true. change (N.testbit 4096 0) with false. cbn [negb].
  rewrite !orb_true_r, !orb_false_r, !andb_true_r, !andb_false_r. repeat split.
Qed.

Ltac sa_gsimpl := cbn [sa_g_nv sa_g_hv sa_g_hn sa_g_hc sa_g_bounds sa_g_verts sa_g_norms sa_g_tans sa_g_bits sa_g_cols
                       sa_g_df sa_g_uvs sa_g_nt sa_g_ntp sa_g_ht sa_g_tris sa_g_xtan] in *.

(* ---------- flag setters keep the invariant ---------- *)

Lemma sa_g_set_normals_wf g e : sa_wf_g g -> sa_wf_g (sa_g_set_normals g e).
Proof.
  intros [A [B [C [D [E F]]]]]. unfold sa_wf_g, sa_g_set_normals, sa_g_has_tangents, sa_g_has_uvs in *. sa_gsimpl.
  repeat split; auto. destruct e; [apply sa_vresize_length | reflexivity].
Qed.
Lemma sa_g_set_colors_wf g e : sa_wf_g g -> sa_wf_g (sa_g_set_colors g e).
Proof.
  intros [A [B [C [D [E F]]]]]. unfold sa_wf_g, sa_g_set_colors, sa_g_has_tangents, sa_g_has_uvs in *. sa_gsimpl.
  repeat split; auto. destruct e; [apply sa_vresize_length | reflexivity].
Qed.
Lemma sa_g_set_tangents_wf g e : sa_wf_g g -> sa_wf_g (sa_g_set_tangents g e).
Proof.
  intros [A [B [C [D [E F]]]]]. destruct (sa_df_bits (sa_g_df g)) as [_ [_ [_ [_ [T1 [T2 [T3 T4]]]]]]].
  unfold sa_wf_g, sa_g_set_tangents, sa_g_has_tangents, sa_g_has_uvs in *. sa_gsimpl.
  destruct e.
  - rewrite T1, T3. repeat split; auto; apply sa_vresize_length.
  - rewrite T2, T4. repeat split; auto.
Qed.
Lemma sa_g_set_uvs_wf g e : sa_wf_g g -> sa_wf_g (sa_g_set_uvs g e).
Proof.
  intros [A [B [C [D [E F]]]]]. destruct (sa_df_bits (sa_g_df g)) as [U1 [U2 [U3 [U4 _]]]].
  unfold sa_wf_g, sa_g_set_uvs, sa_g_has_tangents, sa_g_has_uvs in *. sa_gsimpl.
  destruct e.
  - rewrite U1, U3. repeat split; auto.
    destruct (N.testbit (sa_g_df g) 0).
    + destruct F as [u [EU LU]]. rewrite EU. exists (vresize sa_v2z u (sa_g_nv g)). split; [reflexivity | apply sa_vresize_length].
    + rewrite F. exists (vresize sa_v2z [] (sa_g_nv g)). split; [reflexivity | apply sa_vresize_length].
  - rewrite U2, U4. repeat split; auto.
Qed.

(* ---------- API setters: set/get, frame, invariant ---------- *)

(* "nothing else changes": every field of the record except the listed ones is identical *)
Definition sa_g_counts_same (g g' : sa_geom) : Prop :=
  sa_g_nv g' = sa_g_nv g /\ sa_g_hv g' = sa_g_hv g /\ sa_g_nt g' = sa_g_nt g /\ sa_g_ntp g' = sa_g_ntp g
  /\ sa_g_ht g' = sa_g_ht g /\ sa_g_tris g' = sa_g_tris g /\ sa_g_bounds g' = sa_g_bounds g /\ sa_g_xtan g' = sa_g_xtan g.

Section WithOpaque.
  Variable bsphere : list sa_v3 -> sa_bnd.
  Variable gtan : list sa_v3 -> list sa_v2 -> list sa_v3 -> list tri -> N -> nat -> sa_v3 * sa_v3.

Theorem sa_g_set_verts_same_spec g verts : sa_wf_g g -> length verts = N.to_nat (sa_g_nv g) ->
  exists g', sa_g_api_set_verts bsphere gtan g verts = Ok g' /\ sa_wf_g g' /\ sa_g_verts g' = verts
    /\ sa_g_counts_same g g' /\ sa_g_hn g' = sa_g_hn g /\ sa_g_hc g' = sa_g_hc g /\ sa_g_df g' = sa_g_df g
    /\ sa_g_norms g' = sa_g_norms g /\ sa_g_tans g' = sa_g_tans g /\ sa_g_bits g' = sa_g_bits g
    /\ sa_g_cols g' = sa_g_cols g /\ sa_g_uvs g' = sa_g_uvs g.
Proof.
  intros W L. unfold sa_g_api_set_verts. rewrite (sa_vlen_eqb _ _ L). cbn [negb].
  eexists. split; [reflexivity|]. unfold sa_g_counts_same. sa_gsimpl.
  split; [|repeat split].
  destruct W as [A [B [C [D [E F]]]]]. unfold sa_wf_g, sa_g_has_tangents, sa_g_has_uvs in *. sa_gsimpl. repeat split; auto.
Qed.

Theorem sa_g_set_uvs_spec g uvs : sa_wf_g g -> length uvs = N.to_nat (sa_g_nv g) ->
  exists g', sa_g_api_set_uvs g uvs = Ok g' /\ sa_wf_g g' /\ sa_g_get_uvs g' = Some uvs
    /\ sa_g_counts_same g g' /\ sa_g_hn g' = sa_g_hn g /\ sa_g_hc g' = sa_g_hc g
    /\ sa_g_has_tangents g' = sa_g_has_tangents g
    /\ sa_g_verts g' = sa_g_verts g /\ sa_g_norms g' = sa_g_norms g /\ sa_g_tans g' = sa_g_tans g
    /\ sa_g_bits g' = sa_g_bits g /\ sa_g_cols g' = sa_g_cols g.
Proof.
  intros W L. unfold sa_g_api_set_uvs. rewrite (sa_vlen_eqb _ _ L).
  pose proof (sa_g_set_uvs_wf g true W) as W1.
  destruct (sa_df_bits (sa_g_df g)) as [U1 [_ [U3 _]]].
  assert (HU : sa_g_has_uvs (sa_g_set_uvs g true) = true) by (unfold sa_g_has_uvs, sa_g_set_uvs; sa_gsimpl; exact U1).
  destruct W1 as [A [B [C [D [E F]]]]]. rewrite HU in F. destruct F as [u [EU LU]].
  rewrite EU. eexists. split; [reflexivity|].
  unfold sa_wf_g, sa_g_get_uvs, sa_g_counts_same, sa_g_has_uvs, sa_g_has_tangents in *.
  unfold sa_g_set_uvs in *. sa_gsimpl. rewrite U1, U3 in *.
  split; [repeat split; auto; exists uvs; split; [reflexivity | exact L]|].
  repeat split.
Qed.

Theorem sa_g_set_colors_spec g cs : sa_wf_g g -> length cs = N.to_nat (sa_g_nv g) ->
  let g' := sa_g_api_set_colors g cs in
  sa_wf_g g' /\ sa_g_get_colors g' = Some cs
    /\ sa_g_counts_same g g' /\ sa_g_hn g' = sa_g_hn g /\ sa_g_df g' = sa_g_df g
    /\ sa_g_verts g' = sa_g_verts g /\ sa_g_norms g' = sa_g_norms g /\ sa_g_tans g' = sa_g_tans g
    /\ sa_g_bits g' = sa_g_bits g /\ sa_g_uvs g' = sa_g_uvs g.
Proof.
  intros W L g'. unfold g', sa_g_api_set_colors. rewrite (sa_vlen_eqb _ _ L).
  destruct W as [A [B [C [D [E F]]]]].
  unfold sa_wf_g, sa_g_get_colors, sa_g_counts_same, sa_g_has_uvs, sa_g_has_tangents, sa_g_set_colors in *. sa_gsimpl.
  repeat split; auto.
Qed.

Theorem sa_g_set_normals_spec g ns : sa_wf_g g -> length ns = N.to_nat (sa_g_nv g) ->
  let g' := sa_g_api_set_normals g ns in
  sa_wf_g g' /\ sa_g_get_normals g' = Some ns
    /\ sa_g_counts_same g g' /\ sa_g_hc g' = sa_g_hc g /\ sa_g_df g' = sa_g_df g
    /\ sa_g_verts g' = sa_g_verts g /\ sa_g_tans g' = sa_g_tans g
    /\ sa_g_bits g' = sa_g_bits g /\ sa_g_cols g' = sa_g_cols g /\ sa_g_uvs g' = sa_g_uvs g.
Proof.
  intros W L g'. unfold g', sa_g_api_set_normals.
  destruct W as [A [B [C [D [E F]]]]].
  unfold sa_wf_g, sa_g_get_normals, sa_g_counts_same, sa_g_has_uvs, sa_g_has_tangents, sa_g_set_normals in *. sa_gsimpl.
  repeat split; auto.
Qed.

(* SetTangents(true) resizes BOTH arrays: the sibling array is kept when the flag was already on,
   and becomes numVertices zero vectors when it was off *)
Theorem sa_g_set_tangents_spec g ts : sa_wf_g g -> length ts = N.to_nat (sa_g_nv g) ->
  let g' := sa_g_api_set_tangents g ts in
  sa_wf_g g' /\ sa_g_get_tangents g' = Some ts
    /\ sa_g_counts_same g g' /\ sa_g_hn g' = sa_g_hn g /\ sa_g_hc g' = sa_g_hc g /\ sa_g_has_uvs g' = sa_g_has_uvs g
    /\ sa_g_verts g' = sa_g_verts g /\ sa_g_norms g' = sa_g_norms g /\ sa_g_cols g' = sa_g_cols g
    /\ sa_g_uvs g' = sa_g_uvs g
    /\ sa_g_bits g' = (if sa_g_has_tangents g then sa_g_bits g else repeat sa_v3z (N.to_nat (sa_g_nv g))).
Proof.
  intros W L g'. unfold g', sa_g_api_set_tangents.
  destruct W as [A [B [C [D [E F]]]]]. destruct (sa_df_bits (sa_g_df g)) as [_ [_ [_ [_ [T1 [_ [T3 _]]]]]]].
  unfold sa_wf_g, sa_g_get_tangents, sa_g_counts_same, sa_g_has_uvs, sa_g_has_tangents, sa_g_set_tangents, sa_g_with_tb in *. sa_gsimpl.
  rewrite T1, T3.
  repeat split; auto; try apply sa_vresize_length.
  destruct (N.testbit (sa_g_df g) 12).
  - apply sa_vresize_same. exact D.
  - unfold vresize. destruct (sa_g_bits g); [|discriminate]. rewrite firstn_nil. simpl. rewrite Nat.sub_0_r. reflexivity.
Qed.

Theorem sa_g_set_bitangents_spec g bs : sa_wf_g g -> length bs = N.to_nat (sa_g_nv g) ->
  let g' := sa_g_api_set_bitangents g bs in
  sa_wf_g g' /\ sa_g_get_bitangents g' = Some bs
    /\ sa_g_counts_same g g' /\ sa_g_hn g' = sa_g_hn g /\ sa_g_hc g' = sa_g_hc g /\ sa_g_has_uvs g' = sa_g_has_uvs g
    /\ sa_g_verts g' = sa_g_verts g /\ sa_g_norms g' = sa_g_norms g /\ sa_g_cols g' = sa_g_cols g
    /\ sa_g_uvs g' = sa_g_uvs g
    /\ sa_g_tans g' = (if sa_g_has_tangents g then sa_g_tans g else repeat sa_v3z (N.to_nat (sa_g_nv g))).
Proof.
  intros W L g'. unfold g', sa_g_api_set_bitangents.
  destruct W as [A [B [C [D [E F]]]]]. destruct (sa_df_bits (sa_g_df g)) as [_ [_ [_ [_ [T1 [_ [T3 _]]]]]]].
  unfold sa_wf_g, sa_g_get_bitangents, sa_g_counts_same, sa_g_has_uvs, sa_g_has_tangents, sa_g_set_tangents, sa_g_with_tb in *. sa_gsimpl.
  rewrite T1, T3.
  repeat split; auto; try apply sa_vresize_length.
  destruct (N.testbit (sa_g_df g) 12).
  - apply sa_vresize_same. exact C.
  - unfold vresize. destruct (sa_g_tans g); [|discriminate]. rewrite firstn_nil. simpl. rewrite Nat.sub_0_r. reflexivity.
Qed.

(* setters that check the size ignore an array of another length; the others store it as it is *)
Lemma sa_g_set_wrong_length g :
  (forall uvs, length uvs <> N.to_nat (sa_g_nv g) -> sa_g_api_set_uvs g uvs = Ok g)
  /\ (forall cs, length cs <> N.to_nat (sa_g_nv g) -> sa_g_api_set_colors g cs = g).
Proof.
  split; intros l H; unfold sa_g_api_set_uvs, sa_g_api_set_colors; rewrite (sa_vlen_neqb _ _ H); reflexivity.
Qed.

(* NiTriShapeData::SetTriangles and the bounds *)
Lemma sa_g_set_tris_spec g t :
  let g' := sa_g_set_tris g t in
  sa_g_get_tris g' = (true, t) /\ sa_g_nt g' = sa_wrap16 (vlen t) /\ sa_g_ntp g' = sa_wrap16 (vlen t) * 3
  /\ sa_g_nv g' = sa_g_nv g /\ sa_g_verts g' = sa_g_verts g /\ sa_g_norms g' = sa_g_norms g /\ sa_g_tans g' = sa_g_tans g
  /\ sa_g_bits g' = sa_g_bits g /\ sa_g_cols g' = sa_g_cols g /\ sa_g_uvs g' = sa_g_uvs g /\ sa_g_df g' = sa_g_df g
  /\ sa_g_hn g' = sa_g_hn g /\ sa_g_hc g' = sa_g_hc g /\ sa_g_bounds g' = sa_g_bounds g.
Proof. repeat split. Qed.
Lemma sa_g_set_tris_wf g t : sa_wf_g g -> sa_wf_g (sa_g_set_tris g t).
Proof. intros W. exact W. Qed.
Lemma sa_g_set_bounds_spec g b :
  let g' := sa_g_with_bounds g b in
  sa_g_bounds g' = b /\ sa_g_nv g' = sa_g_nv g /\ sa_g_verts g' = sa_g_verts g /\ sa_g_norms g' = sa_g_norms g
  /\ sa_g_tans g' = sa_g_tans g /\ sa_g_bits g' = sa_g_bits g /\ sa_g_cols g' = sa_g_cols g /\ sa_g_uvs g' = sa_g_uvs g
  /\ sa_g_df g' = sa_g_df g /\ sa_g_tris g' = sa_g_tris g /\ sa_g_nt g' = sa_g_nt g.
Proof. repeat split. Qed.

(* ---------- CalcTangentSpace and Create ---------- *)

Definition sa_g_tan_frame (g g' : sa_geom) : Prop :=
  sa_g_counts_same g g' /\ sa_g_hn g' = sa_g_hn g /\ sa_g_hc g' = sa_g_hc g /\ sa_g_has_uvs g' = sa_g_has_uvs g
  /\ sa_g_verts g' = sa_g_verts g /\ sa_g_norms g' = sa_g_norms g /\ sa_g_cols g' = sa_g_cols g /\ sa_g_uvs g' = sa_g_uvs g.

Lemma sa_g_tan_frame_refl g : sa_g_tan_frame g g.
Proof. unfold sa_g_tan_frame, sa_g_counts_same. repeat split. Qed.

Lemma sa_g_calc_tangents_spec g : sa_wf_g g ->
  exists g', sa_g_calc_tangents gtan g = Ok g' /\ sa_wf_g g' /\ sa_g_tan_frame g g'.
Proof.
  intros W. unfold sa_g_calc_tangents.
  destruct (negb (sa_g_hn g) || negb (sa_g_has_uvs g)).
  - exists g. split; [reflexivity|]. split; [exact W | apply sa_g_tan_frame_refl].
  - pose proof (sa_g_set_tangents_wf g true W) as W1.
    set (g1 := sa_g_set_tangents g true) in *.
    assert (HT : sa_g_has_tangents g1 = true).
    { unfold g1, sa_g_has_tangents, sa_g_set_tangents. sa_gsimpl. destruct (sa_df_bits (sa_g_df g)) as [_ [_ [_ [_ [T1 _]]]]]. exact T1. }
    destruct W1 as [A [B [C [D [E F]]]]]. rewrite HT in C, D.
    set (f := gtan (sa_g_verts g1) match sa_g_uvs g1 with u :: _ => u | [] => [] end (sa_g_norms g1) (sa_g_tris g1) (sa_g_nt g1)).
    rewrite <- D. rewrite sa_upd1_full. cbn [bind]. rewrite D. rewrite <- C. rewrite sa_upd1_full. cbn [bind].
    eexists. split; [reflexivity|].
    assert (FR : sa_g_tan_frame g g1).
    { unfold g1, sa_g_tan_frame, sa_g_counts_same, sa_g_set_tangents, sa_g_has_uvs. sa_gsimpl.
      destruct (sa_df_bits (sa_g_df g)) as [_ [_ [_ [_ [_ [_ [T3 _]]]]]]]. rewrite T3. repeat split. }
    split.
    + unfold sa_wf_g, sa_g_with_tb, sa_g_has_tangents, sa_g_has_uvs in *. sa_gsimpl. rewrite HT.
      repeat split; auto; rewrite sa_mapi_length; assumption.
    + unfold sa_g_tan_frame, sa_g_counts_same, sa_g_with_tb, sa_g_has_uvs in *. sa_gsimpl. exact FR.
Qed.

Definition sa_g_uv_ok (g : sa_geom) : Prop :=
  if sa_g_has_uvs g then exists u, sa_g_uvs g = [u] /\ length u = N.to_nat (sa_g_nv g) else sa_g_uvs g = [].
Definition sa_g_tan_ok (g : sa_geom) : Prop :=
  length (sa_g_tans g) = (if sa_g_has_tangents g then N.to_nat (sa_g_nv g) else O)
  /\ length (sa_g_bits g) = (if sa_g_has_tangents g then N.to_nat (sa_g_nv g) else O).
Lemma sa_wf_g_parts g : sa_wf_g g <->
  length (sa_g_verts g) = N.to_nat (sa_g_nv g) /\ length (sa_g_norms g) = (if sa_g_hn g then N.to_nat (sa_g_nv g) else O)
  /\ sa_g_tan_ok g /\ length (sa_g_cols g) = (if sa_g_hc g then N.to_nat (sa_g_nv g) else O) /\ sa_g_uv_ok g.
Proof. unfold sa_wf_g, sa_g_tan_ok, sa_g_uv_ok. tauto. Qed.

(* fields that neither the uv part nor the normal part of Create touches *)
Definition sa_g_core_same (g g' : sa_geom) : Prop :=
  sa_g_counts_same g g' /\ sa_g_hc g' = sa_g_hc g /\ sa_g_verts g' = sa_g_verts g /\ sa_g_cols g' = sa_g_cols g.

Definition sa_g_uv_clause (g' : sa_geom) (nv : N) (uvs : option (list sa_v2)) : Prop :=
  match uvs with
  | Some u => if vlen u =? nv then sa_g_get_uvs g' = Some u else sa_g_get_uvs g' = None
  | None => sa_g_get_uvs g' = None
  end.
Definition sa_g_normal_clause (g' : sa_geom) (nv : N) (norms : option (list sa_v3)) : Prop :=
  match norms with
  | Some n => if vlen n =? nv then sa_g_get_normals g' = Some n
              else sa_g_get_normals g' = None /\ sa_g_get_tangents g' = None
  | None => sa_g_get_normals g' = None /\ sa_g_get_tangents g' = None
  end.

Lemma sa_g_create_uvs_spec g1 uvs :
  exists g3, sa_g_create_uvs g1 (sa_g_nv g1) uvs = Ok g3 /\ sa_g_core_same g1 g3 /\ sa_g_uv_ok g3
    /\ sa_g_uv_clause g3 (sa_g_nv g1) uvs
    /\ sa_g_hn g3 = sa_g_hn g1 /\ sa_g_norms g3 = sa_g_norms g1 /\ sa_g_tans g3 = sa_g_tans g1 /\ sa_g_bits g3 = sa_g_bits g1
    /\ sa_g_has_tangents g3 = sa_g_has_tangents g1.
Proof.
  destruct (sa_df_bits (sa_g_df g1)) as [U1 [U2 [U3 [U4 _]]]].
  assert (OFF : forall g3, g3 = sa_g_set_uvs g1 false ->
            sa_g_core_same g1 g3 /\ sa_g_uv_ok g3 /\ sa_g_get_uvs g3 = None
            /\ sa_g_hn g3 = sa_g_hn g1 /\ sa_g_norms g3 = sa_g_norms g1 /\ sa_g_tans g3 = sa_g_tans g1 /\ sa_g_bits g3 = sa_g_bits g1
            /\ sa_g_has_tangents g3 = sa_g_has_tangents g1).
  { intros g3 ->. unfold sa_g_core_same, sa_g_counts_same, sa_g_uv_ok, sa_g_get_uvs, sa_g_has_uvs, sa_g_has_tangents, sa_g_set_uvs. sa_gsimpl.
    rewrite U2, U4. repeat split. }
  unfold sa_g_create_uvs, sa_g_uv_clause.
  destruct uvs as [u|].
  2:{ eexists. split; [reflexivity|]. destruct (OFF _ eq_refl) as [O1 [O2 [O3 O4]]]. auto. }
  destruct (vlen u =? sa_g_nv g1) eqn:EU.
  2:{ eexists. split; [reflexivity|]. destruct (OFF _ eq_refl) as [O1 [O2 [O3 O4]]]. auto. }
  assert (LU : length u = N.to_nat (sa_g_nv g1)) by (apply N.eqb_eq in EU; unfold vlen in EU; lia).
  cbv zeta.
  assert (EX : exists u0, sa_g_uvs (sa_g_set_uvs g1 true) = [u0] /\ length u0 = N.to_nat (sa_g_nv g1)).
  { unfold sa_g_set_uvs. sa_gsimpl.
    assert (L1 : length (vresize (@nil sa_v2) (sa_g_uvs g1) 1) = 1%nat) by apply sa_vresize_length.
    destruct (vresize [] (sa_g_uvs g1) 1) as [|u0 [|b r]]; simpl in L1; try discriminate.
    exists (vresize sa_v2z u0 (sa_g_nv g1)). split; [reflexivity | apply sa_vresize_length]. }
  destruct EX as [u0 [E0 L0]]. rewrite E0.
  rewrite sa_upd2_full by lia. cbn [bind]. rewrite sa_zip_snd by lia.
  eexists. split; [reflexivity|].
  unfold sa_g_core_same, sa_g_counts_same, sa_g_uv_ok, sa_g_get_uvs, sa_g_has_uvs, sa_g_has_tangents, sa_g_set_uvs. sa_gsimpl.
  rewrite U1, U3. repeat split. exists u. split; [reflexivity | exact LU].
Qed.

Lemma sa_g_create_norms_spec g3 norms :
  exists g5, sa_g_create_norms gtan g3 (sa_g_nv g3) norms = Ok g5 /\ sa_g_core_same g3 g5
    /\ length (sa_g_norms g5) = (if sa_g_hn g5 then N.to_nat (sa_g_nv g5) else O)
    /\ sa_g_normal_clause g5 (sa_g_nv g3) norms
    /\ sa_g_uvs g5 = sa_g_uvs g3 /\ sa_g_has_uvs g5 = sa_g_has_uvs g3
    /\ (norms = None \/ sa_g_tan_ok g3 -> sa_g_tan_ok g5).
Proof.
  assert (OFF : forall g5, g5 = sa_g_set_tangents (sa_g_set_normals g3 false) false ->
     sa_g_core_same g3 g5 /\ length (sa_g_norms g5) = (if sa_g_hn g5 then N.to_nat (sa_g_nv g5) else O)
     /\ (sa_g_get_normals g5 = None /\ sa_g_get_tangents g5 = None)
     /\ sa_g_uvs g5 = sa_g_uvs g3 /\ sa_g_has_uvs g5 = sa_g_has_uvs g3 /\ sa_g_tan_ok g5).
  { intros g5 ->. destruct (sa_df_bits (sa_g_df g3)) as [_ [_ [_ [_ [_ [T2 [_ T4]]]]]]].
    unfold sa_g_core_same, sa_g_counts_same, sa_g_tan_ok, sa_g_get_normals, sa_g_get_tangents, sa_g_has_tangents, sa_g_has_uvs,
      sa_g_set_tangents, sa_g_set_normals. sa_gsimpl. rewrite T2, T4. repeat split. }
  unfold sa_g_create_norms, sa_g_normal_clause.
  destruct norms as [n|].
  2:{ eexists. split; [reflexivity|]. destruct (OFF _ eq_refl) as [O1 [O2 [O3 [O4 [O5 O6]]]]]. auto 10. }
  destruct (vlen n =? sa_g_nv g3) eqn:EN.
  2:{ eexists. split; [reflexivity|]. destruct (OFF _ eq_refl) as [O1 [O2 [O3 [O4 [O5 O6]]]]]. auto 10. }
  assert (LN : length n = N.to_nat (sa_g_nv g3)) by (apply N.eqb_eq in EN; unfold vlen in EN; lia).
  cbv zeta.
  set (g4 := sa_mkG _ _ _ _ _ _ n _ _ _ _ _ _ _ _ _ _).
  unfold sa_g_calc_tangents.
  assert (HN : sa_g_hn g4 = true) by reflexivity. rewrite HN. cbn [negb orb].
  assert (HU4 : sa_g_has_uvs g4 = sa_g_has_uvs g3) by reflexivity.
  destruct (sa_g_has_uvs g4) eqn:HU; cbn [negb].
  - set (g6 := sa_g_set_tangents g4 true).
    destruct (sa_df_bits (sa_g_df g4)) as [_ [_ [_ [_ [T1 [_ [T3 _]]]]]]].
    assert (LT : length (sa_g_tans g6) = N.to_nat (sa_g_nv g3) /\ length (sa_g_bits g6) = N.to_nat (sa_g_nv g3)).
    { unfold g6, sa_g_set_tangents. sa_gsimpl. split; apply sa_vresize_length. }
    destruct LT as [LT LB].
    change (sa_g_nv g6) with (sa_g_nv g3).
    rewrite <- LB. rewrite sa_upd1_full. cbn [bind]. rewrite LB. rewrite <- LT. rewrite sa_upd1_full. cbn [bind].
    eexists. split; [reflexivity|].
    unfold sa_g_core_same, sa_g_counts_same, sa_g_tan_ok, sa_g_get_normals, sa_g_has_tangents, sa_g_has_uvs, sa_g_with_tb. sa_gsimpl.
    unfold g6, sa_g_set_tangents. sa_gsimpl. rewrite T1, T3.
    repeat split; auto; rewrite sa_mapi_length; apply sa_vresize_length.
  - eexists. split; [reflexivity|].
    unfold sa_g_core_same, sa_g_counts_same, sa_g_tan_ok, sa_g_get_normals, sa_g_has_tangents, sa_g_has_uvs in *. sa_gsimpl.
    repeat split; auto; match goal with HH : _ \/ _ |- _ => destruct HH as [X | [H1 H2]]; [discriminate|] end; [exact H1 | exact H2].
Qed.

Lemma sa_g_calc_tangents_spec2 g :
  exists g', sa_g_calc_tangents gtan g = Ok g' /\ sa_g_tan_frame g g' /\ (sa_g_tan_ok g -> sa_g_tan_ok g').
Proof.
  unfold sa_g_calc_tangents.
  destruct (negb (sa_g_hn g) || negb (sa_g_has_uvs g)).
  - exists g. split; [reflexivity|]. split; [apply sa_g_tan_frame_refl | auto].
  - set (g1 := sa_g_set_tangents g true).
    destruct (sa_df_bits (sa_g_df g)) as [_ [_ [_ [_ [T1 [_ [T3 _]]]]]]].
    assert (LT : length (sa_g_tans g1) = N.to_nat (sa_g_nv g) /\ length (sa_g_bits g1) = N.to_nat (sa_g_nv g)).
    { unfold g1, sa_g_set_tangents. sa_gsimpl. split; apply sa_vresize_length. }
    destruct LT as [LT LB]. change (sa_g_nv g1) with (sa_g_nv g).
    rewrite <- LB. rewrite sa_upd1_full. cbn [bind]. rewrite LB. rewrite <- LT. rewrite sa_upd1_full. cbn [bind].
    eexists. split; [reflexivity|].
    unfold sa_g_tan_frame, sa_g_counts_same, sa_g_tan_ok, sa_g_has_tangents, sa_g_has_uvs, sa_g_with_tb. sa_gsimpl.
    unfold g1, sa_g_set_tangents. sa_gsimpl. rewrite T1, T3.
    repeat split; auto; fold (sa_g_set_tangents g true); fold g1; rewrite sa_mapi_length; assumption.
Qed.

(* the colour array after Create: cut or padded with white to the new count, or still absent *)
Definition sa_cols_after (g : sa_geom) (nv : N) : list sa_c4 :=
  if sa_g_hc g then vresize sa_c4one (sa_g_cols g) nv else [].

Lemma sa_g_create_data_spec g verts uvs norms :
  let nv := sa_nv_of verts in
  exists g', sa_g_create_data bsphere gtan g verts uvs norms = Ok g'
    /\ sa_g_nv g' = nv /\ sa_g_verts g' = firstn (N.to_nat nv) verts
    /\ sa_g_hv g' = sa_g_hv g /\ sa_g_hc g' = sa_g_hc g /\ sa_g_cols g' = sa_cols_after g nv
    /\ sa_g_nt g' = sa_g_nt g /\ sa_g_ntp g' = sa_g_ntp g /\ sa_g_ht g' = sa_g_ht g /\ sa_g_tris g' = sa_g_tris g
    /\ sa_g_xtan g' = sa_g_xtan g
    /\ sa_g_uv_ok g' /\ length (sa_g_norms g') = (if sa_g_hn g' then N.to_nat nv else O)
    /\ sa_g_uv_clause g' nv uvs /\ sa_g_normal_clause g' nv norms
    /\ (norms = None \/ (length (sa_g_tans g) = (if sa_g_has_tangents g then N.to_nat nv else O)
                          /\ length (sa_g_bits g) = (if sa_g_has_tangents g then N.to_nat nv else O)) -> sa_g_tan_ok g').
Proof.
  intros nv. destruct (sa_nv_of_le verts) as [NV1 NV2]. fold nv in NV1, NV2.
  unfold sa_g_create_data. fold (sa_nv_of verts). fold nv.
  set (v0 := vresize sa_v3z (sa_g_verts g) nv).
  assert (L0 : length v0 = N.to_nat nv) by apply sa_vresize_length.
  rewrite <- L0. rewrite sa_upd2_ok by lia. rewrite firstn_all, skipn_all, app_nil_r. rewrite L0. cbn [bind].
  rewrite sa_zip_snd by (rewrite firstn_length; lia).
  set (vs := firstn (N.to_nat nv) verts).
  match goal with |- context [sa_g_create_uvs ?x nv uvs] => set (g1 := x) end.
  destruct (sa_g_create_uvs_spec g1 uvs) as [g3 [E3 [CS3 [UO3 [UC3 [A1 [A2 [A3 [A4 A5]]]]]]]]].
  change (sa_g_nv g1) with nv in *. rewrite E3. cbn [bind].
  destruct CS3 as [[B1 [B2 [B3 [B4 [B5 [B6 [B7 B8]]]]]]] [B9 [B10 B11]]].
  destruct (sa_g_create_norms_spec g3 norms) as [g5 [E5 [CS5 [NL5 [NC5 [C1 [C2 C3]]]]]]].
  rewrite B1 in *. change (sa_g_nv g1) with nv in *. rewrite E5.
  destruct CS5 as [[D1 [D2 [D3 [D4 [D5 [D6 [D7 D8]]]]]]] [D9 [D10 D11]]].
  exists g5. split; [reflexivity|].
  split; [congruence|]. split; [rewrite D10, B10; reflexivity|]. split; [rewrite D2, B2; reflexivity|].
  split; [rewrite D9, B9; reflexivity|]. split; [rewrite D11, B11; reflexivity|].
  split; [rewrite D3, B3; reflexivity|]. split; [rewrite D4, B4; reflexivity|]. split; [rewrite D5, B5; reflexivity|].
  split; [rewrite D6, B6; reflexivity|]. split; [rewrite D8, B8; reflexivity|].
  split.
  { unfold sa_g_uv_ok in *. rewrite C2, C1, D1, B1. rewrite B1 in UO3. exact UO3. }
  split; [rewrite D1, B1 in NL5; exact NL5|].
  split.
  { unfold sa_g_uv_clause, sa_g_get_uvs in *. rewrite C2, C1. exact UC3. }
  split; [exact NC5|].
  intros H. apply C3. destruct H as [H | [H1 H2]]; [left; exact H | right].
  unfold sa_g_tan_ok. rewrite A3, A4, A5, B1. split; assumption.
Qed.

(* NiTriShapeData::Create on any data block *)
Lemma sa_g_create_gen_spec g verts tris uvs norms :
  let nv := sa_nv_of verts in
  let nt := match tris with Some t => sa_nt_of 65535 nv t | None => sa_g_nt g end in
  exists g', sa_g_create bsphere gtan g verts tris uvs norms = Ok g'
    /\ sa_g_nv g' = nv /\ sa_g_verts g' = firstn (N.to_nat nv) verts /\ sa_g_hv g' = sa_g_hv g
    /\ sa_g_hc g' = sa_g_hc g /\ sa_g_cols g' = sa_cols_after g nv
    /\ sa_g_nt g' = nt /\ sa_g_ntp g' = (if 0 <? nt then nt * 3 else 0) /\ sa_g_ht g' = (0 <? nt)
    /\ sa_g_tris g' = match tris with Some t => firstn (N.to_nat nt) t | None => sa_g_tris g end
    /\ sa_g_uv_ok g' /\ length (sa_g_norms g') = (if sa_g_hn g' then N.to_nat nv else O)
    /\ sa_g_uv_clause g' nv uvs /\ sa_g_normal_clause g' nv norms
    /\ (norms = None \/ (length (sa_g_tans g) = (if sa_g_has_tangents g then N.to_nat nv else O)
                          /\ length (sa_g_bits g) = (if sa_g_has_tangents g then N.to_nat nv else O)) -> sa_g_tan_ok g').
Proof.
  intros nv nt. unfold sa_g_create.
  destruct (sa_g_create_data_spec g verts uvs norms) as [g1 [E1 [A1 [A2 [A3 [A4 [A5 [A6 [A7 [A8 [A9 [A10 [A11 [A12 [A13 [A14 A15]]]]]]]]]]]]]]]].
  fold nv in A1, A2, A5, A12, A13, A14, A15. rewrite E1. cbn [bind]. rewrite A1.
  assert (NTE : match tris with
                | Some t => if nv =? 0 then 0 else if sa_u16max <? vlen t then sa_u16max else vlen t
                | None => sa_g_nt g1 end = nt).
  { unfold nt. destruct tris; [reflexivity | exact A6]. }
  rewrite NTE.
  assert (TRE : exists tr, match tris with
                           | Some t => sa_upd2 (fun _ x => x) (N.to_nat nt) (vresize sa_triz (sa_g_tris g1) nt) t
                           | None => Ok (sa_g_tris g1) end = Ok tr
                  /\ tr = match tris with Some t => firstn (N.to_nat nt) t | None => sa_g_tris g end).
  { destruct tris as [t|].
    - destruct (sa_nt_of_le 65535 nv t) as [NT1 _]. fold nt in NT1. unfold nt in *.
      set (tr0 := vresize sa_triz (sa_g_tris g1) (sa_nt_of 65535 nv t)).
      assert (LT0 : length tr0 = N.to_nat (sa_nt_of 65535 nv t)) by apply sa_vresize_length.
      rewrite <- LT0. rewrite sa_upd2_ok by lia. rewrite firstn_all, skipn_all, app_nil_r. rewrite LT0.
      rewrite sa_zip_snd by (rewrite firstn_length; lia). eexists. split; reflexivity.
    - eexists. split; [reflexivity | exact A9]. }
  destruct TRE as [tr [ETR TRV]]. rewrite ETR. cbn [bind].
  set (g2 := sa_mkG _ _ _ _ _ _ _ _ _ _ _ _ nt _ _ tr _).
  destruct (sa_g_calc_tangents_spec2 g2) as [g3 [E3 [[[B1 [B2 [B3 [B4 [B5 [B6 [B7 B8]]]]]]] [B9 [B10 [B11 [B12 [B13 [B14 B15]]]]]]] TO]]].
  rewrite E3. exists g3. split; [reflexivity|]. unfold g2 in *. sa_gsimpl.
  split; [congruence|]. split; [congruence|]. split; [congruence|]. split; [congruence|]. split; [congruence|].
  split; [congruence|]. split; [exact B4|]. split; [exact B5|]. split; [rewrite B6; exact TRV|].
  split.
  { unfold sa_g_uv_ok, sa_g_has_uvs in *. sa_gsimpl. rewrite B11, B15, B1. rewrite A1 in A11. exact A11. }
  split; [rewrite B13, B9; sa_gsimpl; exact A12|].
  split; [unfold sa_g_uv_clause, sa_g_get_uvs, sa_g_has_uvs in *; sa_gsimpl; rewrite B11, B15; exact A13|].
  split.
  { unfold sa_g_normal_clause, sa_g_get_normals, sa_g_get_tangents in *. rewrite B9, B13. sa_gsimpl.
    destruct norms as [n|]; [destruct (vlen n =? nv); [exact A14|] |].
    all: destruct A14 as [N1 N2]; split; [exact N1|].
    all: (* tangents stay off: the second CalcTangentSpace returns at once because there are no normals *)
      clear - E3 N1 N2; unfold sa_g_calc_tangents in E3;
      assert (HN : sa_g_hn g1 = false) by (destruct (sa_g_hn g1); [discriminate | reflexivity]);
      sa_gsimpl; rewrite HN in E3; cbn [negb orb] in E3; injection E3 as <-; sa_gsimpl; exact N2. }
  intros H. apply TO. specialize (A15 H). unfold sa_g_tan_ok, sa_g_has_tangents in *. sa_gsimpl. rewrite A1 in A15. exact A15.
Qed.

Lemma sa_geom_new_wf : sa_wf_g sa_geom_new.
Proof. unfold sa_wf_g. simpl. repeat split. Qed.

End WithOpaque.
