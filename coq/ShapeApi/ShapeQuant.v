(* C13: the quantisation maps of the BSTriShape vertex format, over exact rationals.
   Geometry.cpp:857-859 / 867-869 / 878-879 / 964-966 (byte normals, tangents, bitangent y/z):
       b = (uint8_t) std::round(((x + 1.0f) / 2.0f) * 255.0f)      read back: (b / 255.0f) * 2.0f - 1.0f
   NifFile.cpp:3399-3409 (byte colours):
       f = max(0, min(1, c));  b = (uint8_t) floor(f == 1.0f ? 255 : f * 256.0)   read back: b / 255.0f
   Float rounding is NOT modelled: these are the formulas over Q. *)
From Coq Require Import QArith Qround Qminmax ZArith NArith.
Local Open Scope Q_scope.

(* std::round: half away from zero *)
Definition sa_round_half_away (q : Q) : Z :=
  if Qle_bool 0 q then Qfloor (q + (1 # 2)) else (- Qfloor ((- q) + (1 # 2)))%Z.

Definition sa_norm_enc (x : Q) : Z := sa_round_half_away (((x + 1) / 2) * 255).
Definition sa_norm_dec (b : Z) : Q := (inject_Z b / 255) * 2 - 1.

Definition sa_col_clamp (x : Q) : Q := Qmax 0 (Qmin 1 x).
Definition sa_col_enc (x : Q) : Z :=
  let f := sa_col_clamp x in if Qeq_bool f 1 then 255%Z else Qfloor (f * 256).
Definition sa_col_dec (b : Z) : Q := inject_Z b / 255.

(* static_cast<uint8_t>(double): defined only for values in 0..255 (the theorems show the argument is);
   outside it is undefined behaviour in C++, modelled here as wrap-around and never relied upon *)
Definition sa_u8 (z : Z) : N := Z.to_N (z mod 256).

(* value of an IEEE binary32 bit pattern (finite ones; infinities/NaN are mapped to 0 and never used) *)
Definition sa_qpow2 (e : Z) : Q :=
  match e with
  | Z0 => 1
  | Zpos p => inject_Z (Z.pow_pos 2 p)
  | Zneg p => 1 # (Pos.pow 2 p)
  end.
Definition sa_f32_val (b : N) : Q :=
  let e := ((b / 8388608) mod 256)%N in
  let m := (b mod 8388608)%N in
  let mag : Q :=
    if (e =? 0)%N then inject_Z (Z.of_N m) * sa_qpow2 (-149)
    else if (e =? 255)%N then 0
    else inject_Z (Z.of_N (8388608 + m)) * sa_qpow2 (Z.of_N e - 150) in
  if N.testbit b 31 then - mag else mag.
