(* C15 -- the theorems of RobustSorter / RobustBasics instantiated on the dumped graph of a file, the
   soundness of the run-time certificate checkers, and the concrete refutations. *)
From NiflyVerif Require Import Res GraphModel GraphInv GraphDelete GraphOrder RobustModel RobustBasics RobustSorter.
From Coq Require Import ZifyBool ZifyNat ZifyN.
Local Open Scope N_scope.

Lemma vlen_to_nat {A} (l : list A) : N.to_nat (vlen l) = length l.
Proof. unfold vlen. apply Nat2N.id. Qed.

(* ---------------------------------------------------------------------------------------------- *)
(* certificate: a rank  =>  PrettySortBlocks terminates within (n+1)^2+1 *)
Lemma rb_rank_ok_sound n children entities before ranks :
  rb_rank_ok n children entities before ranks = true ->
  forall p c, rb_valid n p = true -> In c (rb_pre_targets n children entities before p) ->
    (N.to_nat (rb_rank_of ranks c) < N.to_nat (rb_rank_of ranks p))%nat.
Proof.
  unfold rb_rank_ok. rewrite forallb_forall. intros H p c V Hin.
  assert (Hp : In p (rb_all_ids n)) by (apply rb_in_all_ids; eapply valid_lt; eauto).
  specialize (H p Hp). rewrite forallb_forall in H. specialize (H c Hin).
  apply N.ltb_lt in H. lia.
Qed.

Lemma rb_rank_of_bound ranks m i : forallb (fun r => r <=? m) ranks = true -> rb_rank_of ranks i <= m.
Proof.
  intros H. unfold rb_rank_of. destruct (vget ranks i) as [r|] eqn:E; [|lia].
  rewrite forallb_forall in H. apply in_vget in E. specialize (H r E). apply N.leb_le in H. exact H.
Qed.

Theorem rg_pretty_sort_total g ranks ob unk :
  rg_rank_ok g ranks = true -> exists order, rg_pretty_sort (rb_sort_fuel g) g ob unk = Ok order.
Proof.
  unfold rg_rank_ok, rg_pretty_sort. intros H. apply andb_prop in H. destruct H as [H1 H2].
  destruct unk; [eauto|].
  destruct (pretty_sort_total (vlen g) (rg_children g) (rg_entities g) (rg_before g) (rg_is_coll g) (rg_script g ob)
              (fun i => N.to_nat (rb_rank_of ranks i)) (length g)
              (rb_rank_ok_sound _ _ _ _ _ H1)
              (fun p => ltac:(pose proof (rb_rank_of_bound ranks (vlen g) p H2); unfold vlen in *; lia))
              (rb_root_level g 0 g)) as (st & E & _).
  unfold rb_sort_fuel. rewrite vlen_to_nat in E. rewrite E. cbn [bind]. eauto.
Qed.

Theorem rg_pretty_sort_no_fault fuel g ob unk : rg_pretty_sort fuel g ob unk <> Fault.
Proof.
  unfold rg_pretty_sort. destruct unk; [discriminate|].
  pose proof (pretty_sort_no_fault (vlen g) (rg_children g) (rg_entities g) (rg_before g) (rg_is_coll g)
                (rg_script g ob) fuel (rb_root_level g 0 g)) as H.
  destruct (rb_pretty_sort _ _ _ _ _ _ _ _); cbn [bind]; congruence.
Qed.

(* certificate: a closed set  =>  SortCollision never completes on its members while they are unvisited *)
Lemma rb_closed_ok_sound n children entities before C :
  rb_closed_ok n children entities before C = true ->
  forall p, In p C ->
    rb_valid n p = true /\ exists c, In c C /\ In c (rb_pre_targets n children entities before p).
Proof.
  unfold rb_closed_ok. rewrite forallb_forall. intros H p Hp. specialize (H p Hp).
  apply andb_prop in H. destruct H as [V H]. split; [exact V|].
  apply existsb_exists in H. destruct H as (c & Hin & Hm). exists c. split; [apply rb_mem_in; exact Hm|exact Hin].
Qed.

Theorem rg_sort_collision_diverges g C :
  rg_closed_ok g C = true ->
  forall fuel p st, In p C -> (forall x, In x C -> rb_is_visited st x = false) -> wf (vlen g) st ->
    rb_sort_collision (vlen g) (rg_children g) (rg_entities g) (rg_before g) fuel p st = OutOfFuel.
Proof.
  intros H fuel p st Hp U W.
  exact (sort_collision_out_of_fuel (vlen g) (rg_children g) (rg_entities g) (rg_before g)
           (rg_is_coll g) (rg_script g false) C
           (rb_closed_ok_sound _ _ _ _ _ H) fuel p st Hp U W).
Qed.

(* ---------------------------------------------------------------------------------------------- *)
(* GetTree on a dumped graph *)
Lemma rb_first_node_range : forall l i, rb_first_node i l = NPOS \/ (i <= rb_first_node i l < i + vlen l).
Proof.
  induction l as [|b l IH]; intros i; cbn [rb_first_node]; [left; reflexivity|].
  rewrite vlen_cons. destruct (rs_node b); [right; lia|].
  destruct (IH (i + 1)) as [->|H]; [left; reflexivity|right; lia].
Qed.

Theorem rg_get_tree_total g : exists r, rg_get_tree (S (length g)) g = Ok r.
Proof.
  unfold rg_get_tree. destruct (N.eqb_spec (rg_root g) NPOS) as [|Hn]; [eauto|].
  assert (Hlt : rg_root g < vlen g).
  { unfold rg_root in *. destruct (rb_has g rs_node 0) eqn:Hh.
    - unfold rb_has in Hh. destruct (rb_lookup g rs_node 0) eqn:L; [|discriminate].
      apply rb_lookup_some in L. lia.
    - destruct (rb_first_node_range g 0) as [E|H]; [contradiction|lia]. }
  destruct (get_tree_total (vlen g) (rg_children g) (rg_root g) Hlt) as (r & E & _).
  rewrite vlen_to_nat in E. eauto.
Qed.

(* ---------------------------------------------------------------------------------------------- *)
(* concrete refutations (replayed on the implementation by the check: synth cases of tools/props/c15.py) *)
Definition rb_blk (fl : N) (ci : list N) (coll : N) (childrefs : list N) : rb_sblock :=
  mkRbSB fl ci ci [] [] NPOS [] coll childrefs (vlen childrefs) 2 NPOS NPOS NPOS NPOS NPOS NPOS NPOS
         [] [] NPOS NPOS [] NPOS NPOS [] [] 0.

(* NiNode (collision object 1) ; bhkCollisionObject (body 2) ; bhkRigidBody whose shape reference is ITSELF
   = the API-built model "N:1|+C:2+B:2|" *)
Definition rb_g_self : rb_graph :=
  [ rb_blk 2 [NPOS; 1] 1 [] ; rb_blk 1 [2] NPOS [] ; rb_blk 32 [2] NPOS [] ].

Lemma rb_g_self_sc2 fuel st :
  wf 3 st -> rb_is_visited st 2 = false ->
  rb_sort_collision 3 (rg_children rb_g_self) (rg_entities rb_g_self) (rg_before rb_g_self) fuel 2 st = OutOfFuel.
Proof.
  intros W U.
  apply (rg_sort_collision_diverges rb_g_self [2] eq_refl fuel 2 st (or_introl eq_refl)); [|exact W].
  intros x [<-|[]]. exact U.
Qed.

Lemma rb_g_self_sc1 f st :
  wf 3 st -> rb_is_visited st 2 = false ->
  rb_sort_collision 3 (rg_children rb_g_self) (rg_entities rb_g_self) (rg_before rb_g_self) (S f) 1 st = OutOfFuel.
Proof.
  intros W U. cbn [rb_sort_collision].
  replace (rg_entities rb_g_self 1) with (@nil N) by reflexivity.
  replace (rg_children rb_g_self 1) with [2] by reflexivity.
  cbn [rb_iter bind]. unfold rb_call at 1.
  replace (rb_valid 3 2) with true by reflexivity. rewrite U.
  replace (rg_before rb_g_self 2) with true by reflexivity. cbn [negb andb].
  rewrite rb_g_self_sc2 by auto. reflexivity.
Qed.

Theorem sort_collision_total_refuted :
  exists g, forall fuel, rg_pretty_sort fuel g false false = OutOfFuel.
Proof.
  exists rb_g_self. intros fuel.
  destruct fuel as [|[|f]]; [reflexivity|reflexivity|].
  unfold rg_pretty_sort, rb_pretty_sort.
  replace (rb_root_level rb_g_self 0 rb_g_self) with [0] by reflexivity.
  replace (vlen rb_g_self) with 3 by reflexivity.
  remember (S f) as f1 eqn:Hf1.
  cbn [rb_iter]. cbn [rb_set_sort_indices].
  replace (rb_valid 3 0) with true by reflexivity.
  replace (rb_is_visited (rb_st0 3) 0) with false by reflexivity.
  replace (rg_is_coll rb_g_self 0) with false by reflexivity.
  replace (rg_script rb_g_self false 0) with [RbVisit NPOS; RbColl 1] by reflexivity.
  cbn [negb].
  replace (rb_assign 0 (rb_st0 3)) with (Ok (mkRbSt [true; false; false] [0; 1; 2] 1)) by reflexivity.
  cbn [bind rb_iter rb_run_action].
  subst f1. cbn [rb_set_sort_indices].
  replace (rb_valid 3 NPOS) with false by reflexivity. cbn [negb bind].
  replace (rb_valid 3 1) with true by reflexivity.
  replace (rg_is_coll rb_g_self 1) with true by reflexivity. cbn [andb].
  rewrite rb_g_self_sc1; [reflexivity| |reflexivity].
  split; reflexivity.
Qed.

(* a NiNode that lists itself as a child = the API-built model "N:x|0" *)
Definition rb_g_loop : rb_graph := [ rb_blk 2 [NPOS; NPOS; 0] NPOS [0] ].

Theorem to_global_total_refuted :
  exists g i, forall fuel, rg_to_global fuel g i = OutOfFuel.
Proof.
  exists rb_g_loop, 0. intros fuel. unfold rg_to_global.
  apply (to_global_diverges (rg_node_children rb_g_loop) [0]); [|left; reflexivity].
  intros p [<-|[]]. exists 0. split; [reflexivity|left; reflexivity].
Qed.

Theorem rg_to_global_diverges g C :
  rb_pclosed_ok (rg_node_children g) C = true ->
  forall fuel i, In i C -> rg_to_global fuel g i = OutOfFuel.
Proof.
  intros H fuel i Hi. unfold rg_to_global. eapply to_global_diverges; eauto.
  apply rb_pclosed_ok_sound. exact H.
Qed.

(* graphs without any before-parent call (no bhk blocks, no constraints): linear fuel *)
Theorem pretty_sort_total_no_bhk n children entities before is_coll script roots :
  (forall p, entities p = []) -> (forall c, before c = false) ->
  exists st, rb_pretty_sort n children entities before is_coll script (S (N.to_nat n + 1)) roots = Ok st.
Proof.
  intros He Hb.
  destruct (pretty_sort_total n children entities before is_coll script (fun _ => 0%nat) 0%nat) with (roots := roots)
    as (st & E & _).
  - intros p c _ Hin. unfold rb_pre_targets in Hin. rewrite He in Hin. cbn [filter app] in Hin.
    apply filter_In in Hin. destruct Hin as [_ H]. rewrite Hb, andb_false_r in H. discriminate.
  - intros _. lia.
  - replace ((N.to_nat n + 1) * (0 + 1))%nat with (N.to_nat n + 1)%nat in E by lia. eauto.
Qed.

(* the hypotheses are satisfiable: a well-formed collision tree has a rank, the self-referencing body a closed set *)
Definition rb_g_ok : rb_graph :=
  [ rb_blk 2 [NPOS; 1] 1 [] ; rb_blk 1 [2] NPOS [] ; rb_blk 32 [3] NPOS [] ; rb_blk 32 [] NPOS [] ].
