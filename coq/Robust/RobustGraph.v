(* C15 -- the theorems of RobustSorter / RobustBasics instantiated on the dumped graph of a file, and
   the two graphs on which the code diverged before the repairs (C15-sortcollision-cycle,
   C15-node-cycle-global-transform-hang), now inside the totality theorems. *)
From NiflyVerif Require Import Res GraphModel GraphInv GraphDelete GraphOrder RobustModel RobustBasics RobustSorter.
From Coq Require Import ZifyBool ZifyNat ZifyN.
Local Open Scope N_scope.

Lemma vlen_to_nat {A} (l : list A) : N.to_nat (vlen l) = length l.
Proof. unfold vlen. apply Nat2N.id. Qed.

(* PrettySortBlocks on a dumped graph: total for EVERY graph, fuel numBlocks + 2 *)
Theorem rg_pretty_sort_total g ob unk :
  exists order, rg_pretty_sort (rb_sort_fuel g) g ob unk = Ok order.
Proof.
  unfold rg_pretty_sort. destruct unk; [eauto|].
  destruct (pretty_sort_total (vlen g) (rg_children g) (rg_entities g) (rg_before g) (rg_is_coll g)
              (rg_script g ob) (rb_root_level g 0 g)) as (st & E & _).
  unfold rb_sort_fuel. rewrite vlen_to_nat in E. rewrite E. cbn [bind]. eauto.
Qed.

Theorem rg_pretty_sort_no_fault fuel g ob unk : rg_pretty_sort fuel g ob unk <> Fault.
Proof.
  unfold rg_pretty_sort. destruct unk; [discriminate|].
  pose proof (pretty_sort_no_fault (vlen g) (rg_children g) (rg_entities g) (rg_before g) (rg_is_coll g)
                (rg_script g ob) fuel (rb_root_level g 0 g)) as H.
  destruct (rb_pretty_sort _ _ _ _ _ _ _ _); cbn [bind]; congruence.
Qed.

(* the class of the former defect, as the check recognises it *)
Lemma rb_closed_ok_sound n children entities before C :
  rb_closed_ok n children entities before C = true ->
  forall p, In p C ->
    rb_valid n p = true /\ exists c, In c C /\ In c (rb_pre_targets n children entities before p).
Proof.
  unfold rb_closed_ok. rewrite forallb_forall. intros H p Hp. specialize (H p Hp).
  apply andb_prop in H. destruct H as [V H]. split; [exact V|].
  apply existsb_exists in H. destruct H as (c & Hin & Hm). exists c. split; [apply rb_mem_in; exact Hm|exact Hin].
Qed.

(* ---------------------------------------------------------------------------------------------- *)
(* GetTree on a dumped graph *)
Lemma rb_first_node_range : forall l i, rb_first_node i l = NPOS \/ (i <= rb_first_node i l < i + vlen l).
Proof.
  induction l as [|b l IH]; intros i; cbn [rb_first_node]; [left; reflexivity|].
  rewrite vlen_cons. destruct (rs_node b); [right; lia|].
  destruct (IH (i + 1)) as [->|H]; [left; reflexivity|right; lia].
Qed.

Theorem rg_get_tree_total g : exists r, rg_get_tree (S (length g)) g = Ok r.
Proof.
  unfold rg_get_tree. destruct (N.eqb_spec (rg_root g) NPOS) as [|Hn]; [eauto|].
  assert (Hlt : rg_root g < vlen g).
  { unfold rg_root in *. destruct (rb_has g rs_node 0) eqn:Hh.
    - unfold rb_has in Hh. destruct (rb_lookup g rs_node 0) eqn:L; [|discriminate].
      apply rb_lookup_some in L. lia.
    - destruct (rb_first_node_range g 0) as [E|H]; [contradiction|lia]. }
  destruct (get_tree_total (vlen g) (rg_children g) (rg_root g) Hlt) as (r & E & _).
  rewrite vlen_to_nat in E. eauto.
Qed.

(* the parent walk of GetNodeTransformToGlobal from any block of a dumped graph *)
Theorem rg_to_global_total g i : i < vlen g -> exists k, rg_to_global (S (length g)) g i = Ok k.
Proof.
  intros Hi. unfold rg_to_global.
  assert (Hv : vlen (rg_node_children g) = vlen g) by (unfold rg_node_children; apply vlen_map).
  apply to_global_total.
  - rewrite Hv. split; [constructor; [intros []|constructor]|constructor; [exact Hi|constructor]].
  - rewrite Hv, vlen_to_nat. cbn [length]. lia.
Qed.

(* ---------------------------------------------------------------------------------------------- *)
(* the two graphs on which the unrepaired code diverged (API-built models of tools/props/c15.py) *)
Definition rb_blk (fl : N) (ci : list N) (coll : N) (childrefs : list N) : rb_sblock :=
  mkRbSB fl ci ci [] [] NPOS [] coll childrefs (vlen childrefs) 2 NPOS NPOS NPOS NPOS NPOS NPOS NPOS
         [] [] NPOS NPOS [] NPOS NPOS [] [] 0.

(* NiNode (collision object 1) ; bhkCollisionObject (body 2) ; bhkRigidBody whose shape reference is ITSELF
   = "N:1|+C:2+B:2|" *)
Definition rb_g_self : rb_graph :=
  [ rb_blk 2 [NPOS; 1] 1 [] ; rb_blk 1 [2] NPOS [] ; rb_blk 32 [2] NPOS [] ].

(* a NiNode that lists itself as a child = "N:x|0" *)
Definition rb_g_loop : rb_graph := [ rb_blk 2 [NPOS; NPOS; 0] NPOS [0] ].

(* a well-formed collision tree: node -> collision object -> body -> shape *)
Definition rb_g_ok : rb_graph :=
  [ rb_blk 2 [NPOS; 1] 1 [] ; rb_blk 1 [2] NPOS [] ; rb_blk 32 [3] NPOS [] ; rb_blk 32 [] NPOS [] ].
