(* C15 -- proofs about the guarded lookups, GetTree, the parent walk, DeleteUnreferencedBlocks
   (termination for ARBITRARY headers) and the reference guards of SetBlockOrder / BlockDeleted. *)
From NiflyVerif Require Import Res GraphModel GraphInv GraphDelete GraphOrder RobustModel.
From Coq Require Import ZifyBool ZifyNat ZifyN Permutation.
Local Open Scope N_scope.

(* ---------------------------------------------------------------------------------------------- *)
(* iteration lemmas *)
Lemma rb_iter_inv {A S} (Inv : S -> Prop) (f : A -> S -> res S) : forall l s,
  Inv s ->
  (forall a s, In a l -> Inv s -> exists s', f a s = Ok s' /\ Inv s') ->
  exists s', rb_iter f l s = Ok s' /\ Inv s'.
Proof.
  induction l as [|a l IH]; intros s Hs Hf; cbn [rb_iter].
  - eauto.
  - destruct (Hf a s (or_introl eq_refl) Hs) as (s1 & E & H1). rewrite E. cbn [bind].
    apply IH; auto. intros b t Hb. apply Hf. right. exact Hb.
Qed.

(* never a Fault, and the invariant holds when the loop completes *)
Definition rb_safe {S} (Inv : S -> Prop) (r : res S) : Prop :=
  match r with Ok s => Inv s | Fault => False | OutOfFuel => True end.

Lemma rb_iter_safe {A S} (Inv : S -> Prop) (f : A -> S -> res S) : forall l s,
  Inv s -> (forall a s, In a l -> Inv s -> rb_safe Inv (f a s)) -> rb_safe Inv (rb_iter f l s).
Proof.
  induction l as [|a l IH]; intros s Hs Hf; cbn [rb_iter]; [exact Hs|].
  specialize (Hf a s (or_introl eq_refl) Hs) as H1.
  destruct (f a s) as [s1| |]; cbn [bind rb_safe] in *; auto.
  apply IH; auto. intros b t Hb. apply Hf. right. exact Hb.
Qed.

(* an invariant that every completed step preserves holds after a completed loop *)
Lemma rb_iter_preserve {A S} (Inv : S -> Prop) (f : A -> S -> res S) : forall l s s',
  (forall a s s', In a l -> Inv s -> f a s = Ok s' -> Inv s') ->
  Inv s -> rb_iter f l s = Ok s' -> Inv s'.
Proof.
  induction l as [|a l IH]; intros s s' Hf Hs H; cbn [rb_iter] in H.
  - inversion H; subst. exact Hs.
  - destruct (f a s) as [s1| |] eqn:E; cbn [bind] in H; try discriminate.
    eapply IH; [| |exact H].
    + intros b t t' Hb. apply Hf. right. exact Hb.
    + eapply Hf; eauto. left. reflexivity.
Qed.

(* a loop that contains a step which can never complete cannot complete *)
Lemma rb_iter_blocked {A S} (Inv : S -> Prop) (f : A -> S -> res S) (a0 : A) : forall l s s',
  (forall a s s', In a l -> Inv s -> f a s = Ok s' -> Inv s') ->
  (forall s s', Inv s -> f a0 s = Ok s' -> False) ->
  In a0 l -> Inv s -> rb_iter f l s = Ok s' -> False.
Proof.
  induction l as [|a l IH]; intros s s' Hf Hb Hin Hs H; [destruct Hin|].
  cbn [rb_iter] in H. destruct (f a s) as [s1| |] eqn:E; cbn [bind] in H; try discriminate.
  destruct Hin as [->|Hin].
  - eapply Hb; eauto.
  - eapply IH; [| exact Hb | exact Hin | | exact H].
    + intros b t t' Hb'. apply Hf. right. exact Hb'.
    + eapply Hf; eauto. left. reflexivity.
Qed.

Lemma rb_iter_app {A S} (f : A -> S -> res S) l1 l2 s :
  rb_iter f (l1 ++ l2) s = bind (rb_iter f l1 s) (rb_iter f l2).
Proof.
  revert s. induction l1 as [|a l1 IH]; intros s; cbn [rb_iter app bind]; [reflexivity|].
  destruct (f a s); cbn [bind]; auto.
Qed.

Lemma rb_mem_in x l : rb_mem x l = true <-> In x l.
Proof.
  unfold rb_mem. rewrite existsb_exists. split.
  - intros (y & Hy & E). apply N.eqb_eq in E. subst. exact Hy.
  - intros H. exists x. split; [exact H|apply N.eqb_refl].
Qed.

Lemma rb_in_all_ids n i : In i (rb_all_ids n) <-> i < n.
Proof.
  unfold rb_all_ids. rewrite in_map_iff. split.
  - intros (k & <- & Hk). apply in_seq in Hk. lia.
  - intros H. exists (N.to_nat i). split; [lia|]. apply in_seq. lia.
Qed.

(* ---------------------------------------------------------------------------------------------- *)
(* (i) GetBlock<T> *)
Theorem get_block_guard_none {A} (bl : list A) nb is_t id :
  id = NPOS \/ nb <= id -> get_block_guard bl nb is_t id = Ok None.
Proof.
  unfold get_block_guard. intros [->|H].
  - reflexivity.
  - destruct (N.eqb_spec id NPOS); cbn; [reflexivity|].
    destruct (N.ltb_spec id nb); [lia|reflexivity].
Qed.

Theorem get_block_guard_some {A} (bl : list A) nb is_t id :
  nb <= vlen bl -> id <> NPOS -> id < nb ->
  exists b, vget bl id = Some b /\
            get_block_guard bl nb is_t id = Ok (if is_t b then Some b else None).
Proof.
  intros Hn Hid Hlt. destruct (vget_lt bl id ltac:(lia)) as (b & Hb). exists b. split; [exact Hb|].
  unfold get_block_guard. destruct (N.eqb_spec id NPOS); [contradiction|].
  destruct (N.ltb_spec id nb); [|lia]. cbn. rewrite Hb. reflexivity.
Qed.

Theorem get_block_guard_no_fault {A} (bl : list A) nb is_t id :
  nb <= vlen bl -> get_block_guard bl nb is_t id <> Fault.
Proof.
  intros Hn. destruct (N.eq_dec id NPOS) as [->|Hne]; [discriminate|].
  destruct (N.lt_ge_cases id nb) as [Hlt|Hge].
  - destruct (get_block_guard_some bl nb is_t id Hn Hne Hlt) as (b & _ & ->). discriminate.
  - rewrite get_block_guard_none by auto. discriminate.
Qed.

(* the result is the block AT that id and passes the type test, or nothing *)
Theorem get_block_guard_sound {A} (bl : list A) nb is_t id b :
  get_block_guard bl nb is_t id = Ok (Some b) ->
  id <> NPOS /\ id < nb /\ vget bl id = Some b /\ is_t b = true.
Proof.
  unfold get_block_guard. destruct (N.eqb_spec id NPOS); cbn; [discriminate|].
  destruct (N.ltb_spec id nb); cbn; [|discriminate].
  destruct (vget bl id) as [c|] eqn:E; [|discriminate].
  destruct (is_t c) eqn:T; intros Hx; inversion Hx; subst. auto.
Qed.

(* the total form used by the concrete scripts *)
Lemma rb_lookup_some g is_t id b :
  rb_lookup g is_t id = Some b -> id <> NPOS /\ id < vlen g /\ vget g id = Some b /\ is_t b = true.
Proof.
  unfold rb_lookup. destruct (get_block_guard g (vlen g) is_t id) as [[c|]| |] eqn:E; try discriminate.
  intros H. inversion H; subst. eapply get_block_guard_sound; eauto.
Qed.

(* GetBlockTypeStringById *)
Theorem rb_block_type_string_no_fault h id :
  nblocks h <= vlen (tidx h) -> ntypes h <= vlen (tnames h) -> rb_block_type_string h id <> Fault.
Proof.
  intros Hb Ht. unfold rb_block_type_string.
  destruct (N.eqb_spec id NPOS); cbn; [discriminate|].
  destruct (N.ltb_spec id (nblocks h)); cbn; [|discriminate].
  destruct (vget_lt (tidx h) id ltac:(lia)) as (t & ->).
  destruct (N.ltb_spec t (ntypes h)); [|discriminate].
  destruct (vget_lt (tnames h) t ltac:(lia)) as (s & ->). discriminate.
Qed.

Theorem rb_block_type_string_none h id :
  id = NPOS \/ nblocks h <= id -> rb_block_type_string h id = Ok None.
Proof.
  unfold rb_block_type_string. intros [->|H]; [reflexivity|].
  destruct (N.eqb_spec id NPOS); cbn; [reflexivity|].
  destruct (N.ltb_spec id (nblocks h)); [lia|reflexivity].
Qed.

(* ---------------------------------------------------------------------------------------------- *)
(* reference guards of SetBlockOrder (remap_ref) and BlockDeleted (shift_ref): any number is accepted *)
Theorem remap_ref_outside order r : r = NPOS \/ vlen order <= r -> remap_ref order r = r.
Proof.
  unfold remap_ref. intros [->|H]; [reflexivity|].
  destruct (N.eqb_spec r NPOS); [reflexivity|].
  destruct (N.ltb_spec r (vlen order)); [lia|reflexivity].
Qed.

Theorem remap_ref_inside order r :
  r <> NPOS -> r < vlen order -> vget order r = Some (remap_ref order r).
Proof.
  intros Hn Hlt. unfold remap_ref. destruct (N.eqb_spec r NPOS); [contradiction|].
  destruct (N.ltb_spec r (vlen order)); [|lia].
  destruct (vget_lt order r Hlt) as (x & ->). reflexivity.
Qed.

Theorem shift_ref_cases id r :
  shift_ref id r = (if r =? NPOS then NPOS else if r =? id then NPOS else if id <? r then r - 1 else r)
  /\ (shift_ref id r = NPOS \/ shift_ref id r <= r).
Proof.
  unfold shift_ref. destruct (N.eqb_spec r NPOS) as [->|]; [split; [reflexivity|left; reflexivity]|].
  destruct (N.eqb_spec r id); [split; [reflexivity|left; reflexivity]|].
  destruct (N.ltb_spec id r); split; try reflexivity; right; lia.
Qed.

(* IsBlockReferenced for arbitrary reference values *)
Theorem is_referenced_spec h id p :
  is_referenced h id p = true <->
  id <> NPOS /\ exists b, In b (blocks h) /\ In id (refs_of p b).
Proof.
  unfold is_referenced. destruct (N.eqb_spec id NPOS) as [->|Hn].
  - split; [discriminate|intros [H _]; contradiction].
  - rewrite existsb_exists. split.
    + intros (b & Hb & H). split; [exact Hn|]. exists b. split; [exact Hb|].
      apply existsb_exists in H. destruct H as (y & Hy & E). apply N.eqb_eq in E. subst. exact Hy.
    + intros (_ & b & Hb & Hin). exists b. split; [exact Hb|].
      apply existsb_exists. exists id. split; [exact Hin|apply N.eqb_refl].
Qed.

(* ---------------------------------------------------------------------------------------------- *)
(* DeleteUnreferencedBlocks terminates for EVERY header (no invariant at all): each recursion
   follows a successful DeleteBlock, which shortens the block vector *)
Lemma verase_length {A} (v v' : list A) i : verase v i = Some v' -> S (length v') = length v.
Proof.
  unfold verase, vlen. destruct (N.ltb_spec i (N.of_nat (length v))); [|discriminate].
  remember (skipn (S (N.to_nat i)) v) as sk eqn:Hsk. intros Hx. inversion Hx; subst v'.
  rewrite app_length, firstn_length, Hsk, skipn_length. lia.
Qed.

Lemma delete_block_shrinks h id h' :
  id <> NPOS -> delete_block h id = Ok h' -> S (length (blocks h')) = length (blocks h).
Proof.
  unfold delete_block. destruct (N.eqb_spec id NPOS); [contradiction|]. intros _.
  destruct (vget (tidx h) id) as [tid|]; [|discriminate].
  destruct (release_type h tid) as [[[tn nt] ti]| |]; cbn [bind]; try discriminate.
  destruct (verase ti id); [|discriminate].
  destruct (if has_sizes h then verase (sizes h) id else Some (sizes h)); [|discriminate].
  destruct (verase (blocks h) id) as [bl'|] eqn:E; [|discriminate].
  intros H. inversion H; subst. cbn. rewrite map_length. eapply verase_length; eauto.
Qed.

Lemma delete_block_not_oof h id : delete_block h id <> OutOfFuel.
Proof.
  unfold delete_block. destruct (id =? NPOS); [discriminate|].
  destruct (vget (tidx h) id) as [tid|]; [|discriminate].
  unfold release_type. destruct (count_eq tid (tidx h) <? 2).
  - destruct (verase (tnames h) tid); cbn [bind]; [|discriminate].
    destruct (verase _ id); [|discriminate].
    destruct (if has_sizes h then verase (sizes h) id else Some (sizes h)); [|discriminate].
    destruct (verase (blocks h) id); discriminate.
  - cbn [bind]. destruct (verase (tidx h) id); [|discriminate].
    destruct (if has_sizes h then verase (sizes h) id else Some (sizes h)); [|discriminate].
    destruct (verase (blocks h) id); discriminate.
Qed.

Lemma first_unreferenced_lt of_type h root : forall bl i k,
  first_unreferenced of_type h root i bl = Some k -> i <= k /\ k < i + vlen bl.
Proof.
  induction bl as [|b bl IH]; intros i k H; cbn in H; [discriminate|].
  rewrite vlen_cons.
  destruct (negb (i =? root) && of_type (tname b) && negb (is_referenced h i true))%bool.
  - inversion H; subst. lia.
  - apply IH in H. lia.
Qed.

Theorem delete_unreferenced_terminates of_type : forall fuel h root count,
  (length (blocks h) < fuel)%nat -> nblocks h < NPOS ->
  delete_unreferenced fuel of_type h root count <> OutOfFuel.
Proof.
  induction fuel as [|f IH]; intros h root count Hf Hsmall; [lia|].
  cbn [delete_unreferenced]. destruct (root =? NPOS); [discriminate|].
  destruct (first_unreferenced of_type h root 0 (firstn (N.to_nat (nblocks h)) (blocks h))) as [i|] eqn:E; [|discriminate].
  apply first_unreferenced_lt in E.
  assert (Hi : i <> NPOS).
  { unfold vlen in E. rewrite firstn_length in E. lia. }
  destruct (delete_block h i) as [h'| |] eqn:D; cbn [bind]; try discriminate;
    [|exfalso; eapply delete_block_not_oof; eauto].
  pose proof (delete_block_shrinks h i h' Hi D) as Hl.
  apply IH; [lia|].
  (* the counter of h' is the counter of h minus one *)
  unfold delete_block in D. destruct (N.eqb_spec i NPOS); [contradiction|].
  destruct (vget (tidx h) i) as [tid|]; [|discriminate].
  destruct (release_type h tid) as [[[tn nt] ti]| |]; cbn [bind] in D; try discriminate.
  destruct (verase ti i); [|discriminate].
  destruct (if has_sizes h then verase (sizes h) i else Some (sizes h)); [|discriminate].
  destruct (verase (blocks h) i); [|discriminate].
  inversion D; subst. cbn. lia.
Qed.

(* ---------------------------------------------------------------------------------------------- *)
(* GetTree: total for every child relation, recursion depth at most numBlocks + 1 *)
Section TreeProofs.
  Variable n : N.
  Variable children : N -> list N.

  (* every id in the result exists, no id twice *)
  Definition tree_inv (r : list N) : Prop := NoDup r /\ Forall (fun i => i < n) r.

  Lemma tree_inv_len r : tree_inv r -> (length r <= N.to_nat n)%nat.
  Proof.
    intros [Hnd Hall].
    assert (Hincl : incl r (rb_all_ids n)).
    { intros x Hx. apply rb_in_all_ids. rewrite Forall_forall in Hall. auto. }
    pose proof (NoDup_incl_length Hnd Hincl) as H.
    unfold rb_all_ids in H. rewrite map_length, seq_length in H. exact H.
  Qed.

  Lemma get_tree_total_gen : forall fuel parent r,
    tree_inv r -> parent < n -> ~ In parent r -> (N.to_nat n - length r < fuel)%nat ->
    exists r', rb_get_tree n children fuel parent r = Ok r' /\ tree_inv r' /\ incl r r' /\ In parent r'.
  Proof.
    induction fuel as [|f IH]; intros parent r Hinv Hp Hnin Hf; [lia|].
    cbn [rb_get_tree].
    assert (Hinv1 : tree_inv (r ++ [parent])).
    { destruct Hinv as [Hnd Hall]. split.
      - apply (Permutation_NoDup (l := parent :: r)).
        + apply Permutation_cons_append.
        + constructor; auto.
      - apply Forall_app. split; auto. }
    pose proof (tree_inv_len _ Hinv1) as Hlen1. rewrite app_length in Hlen1. cbn in Hlen1.
    destruct (rb_iter_inv
      (fun r1 => tree_inv r1 /\ incl (r ++ [parent]) r1)
      (fun i r0 => if (rb_valid n i && negb (rb_mem i r0))%bool then rb_get_tree n children f i r0 else Ok r0)
      (children parent) (r ++ [parent])) as (r' & E & (Hi' & Hincl')).
    - split; [exact Hinv1|apply incl_refl].
    - intros a r0 _ [Hinv0 Hincl0].
      destruct (rb_valid n a && negb (rb_mem a r0))%bool eqn:C.
      + apply andb_prop in C. destruct C as [Hv Hm].
        unfold rb_valid in Hv. apply andb_prop in Hv. destruct Hv as [_ Hlt]. apply N.ltb_lt in Hlt.
        assert (Hnin0 : ~ In a r0).
        { intros Hin. apply rb_mem_in in Hin. rewrite Hin in Hm. discriminate. }
        assert (Hlen0 : (length (r ++ [parent]) <= length r0)%nat).
        { apply NoDup_incl_length; [apply Hinv1|exact Hincl0]. }
        rewrite app_length in Hlen0. cbn in Hlen0.
        destruct (IH a r0 Hinv0 Hlt Hnin0 ltac:(lia)) as (r1 & E1 & Hinv1' & Hincl1 & _).
        exists r1. split; [exact E1|]. split; [exact Hinv1'|].
        eapply incl_tran; eauto.
      + exists r0. auto.
    - exists r'. split; [exact E|]. split; [exact Hi'|]. split.
      + eapply incl_tran; [|exact Hincl']. apply incl_appl. apply incl_refl.
      + apply Hincl'. apply in_or_app. right. left. reflexivity.
  Qed.

  Theorem get_tree_total root : root < n ->
    exists r, rb_get_tree n children (S (N.to_nat n)) root [] = Ok r /\ NoDup r /\ Forall (fun i => i < n) r /\ In root r.
  Proof.
    intros H.
    destruct (get_tree_total_gen (S (N.to_nat n)) root []) as (r & E & [Hnd Hall] & _ & Hin).
    - split; constructor.
    - exact H.
    - intros [].
    - cbn. lia.
    - eauto.
  Qed.
End TreeProofs.

(* ---------------------------------------------------------------------------------------------- *)
(* the parent walk of GetNodeTransformToGlobal, with its visited set: total for EVERY node graph *)
Section ParentProofs.
  Variable nc : list (option (list N)).

  Lemma rb_first_parent_range i : forall l j q, rb_first_parent i j l = Some q -> j <= q < j + vlen l.
  Proof.
    induction l as [|o l IH]; intros j q H; cbn [rb_first_parent] in H; [discriminate|].
    rewrite vlen_cons. destruct o as [ch|].
    - destruct (rb_mem i ch); [inversion H; subst; lia|]. apply IH in H. lia.
    - apply IH in H. lia.
  Qed.

  Lemma rb_get_parent_node_lt i q : rb_get_parent_node nc i = Some q -> q < vlen nc.
  Proof. unfold rb_get_parent_node. intros H. apply rb_first_parent_range in H. lia. Qed.

  Theorem to_global_total : forall fuel i visited,
    tree_inv (vlen nc) visited -> (N.to_nat (vlen nc) - length visited < fuel)%nat ->
    exists k, rb_to_global nc fuel i visited = Ok k.
  Proof.
    induction fuel as [|f IH]; intros i visited Hinv Hf; [lia|].
    cbn [rb_to_global]. destruct (rb_get_parent_node nc i) as [p|] eqn:E; [|eauto].
    destruct (rb_mem p visited) eqn:M; [eauto|].
    assert (Hinv1 : tree_inv (vlen nc) (visited ++ [p])).
    { destruct Hinv as [Hnd Hall]. split.
      - apply (Permutation_NoDup (l := p :: visited)); [apply Permutation_cons_append|].
        constructor; [|exact Hnd]. intros Hin. apply rb_mem_in in Hin. congruence.
      - apply Forall_app. split; [exact Hall|]. constructor; [|constructor].
        eapply rb_get_parent_node_lt; eauto. }
    pose proof (tree_inv_len _ _ Hinv1) as Hlen. rewrite app_length in Hlen. cbn in Hlen.
    apply IH; [exact Hinv1|]. rewrite app_length. cbn. lia.
  Qed.

  Lemma rb_pclosed_ok_sound C : rb_pclosed_ok nc C = true ->
    forall p, In p C -> exists q, rb_get_parent_node nc p = Some q /\ In q C.
  Proof.
    unfold rb_pclosed_ok. rewrite forallb_forall. intros H p Hp. specialize (H p Hp).
    destruct (rb_get_parent_node nc p) as [q|]; [|discriminate]. exists q. split; [reflexivity|].
    apply rb_mem_in. exact H.
  Qed.
End ParentProofs.

(* ---------------------------------------------------------------------------------------------- *)
(* DeleteUnreferencedBlocks is total (no Fault either) as soon as the header TABLES are consistent;
   nothing is assumed about the references *)
Definition TInv (h : hdr) : Prop :=
  nblocks h = vlen (blocks h) /\ length (tidx h) = length (blocks h) /\
  (has_sizes h = true -> length (sizes h) = length (blocks h)) /\
  Forall (fun t => t < vlen (tnames h)) (tidx h).

Lemma verase_some {A} (v : list A) i : i < vlen v -> exists v', verase v i = Some v'.
Proof. unfold verase. intros H. destruct (N.ltb_spec i (vlen v)); [eauto|lia]. Qed.

Lemma Forall_verase {A} (P : A -> Prop) (v v' : list A) i : Forall P v -> verase v i = Some v' -> Forall P v'.
Proof.
  unfold verase. destruct (i <? vlen v); [|discriminate].
  remember (skipn (S (N.to_nat i)) v) as sk eqn:Hsk. intros HP Hx. inversion Hx; subst v'.
  apply Forall_app. split.
  - rewrite Forall_forall in *. intros x Hin. apply HP.
    rewrite <- (firstn_skipn (N.to_nat i) v). apply in_or_app. left. exact Hin.
  - rewrite Hsk. rewrite Forall_forall in *. intros x Hin. apply HP.
    rewrite <- (firstn_skipn (S (N.to_nat i)) v). apply in_or_app. right. exact Hin.
Qed.

Lemma delete_block_tinv h id : TInv h -> id < nblocks h ->
  exists h', delete_block h id = Ok h' /\ TInv h' /\ (length (blocks h') <= length (blocks h))%nat /\
             (id <> NPOS -> S (length (blocks h')) = length (blocks h)).
Proof.
  intros (Hn & Hti & Hsz & Hty) Hid. unfold delete_block.
  destruct (N.eqb_spec id NPOS) as [->|Hne].
  { exists h. repeat split; auto. intros Hx; contradiction. }
  assert (Hidb : id < vlen (blocks h)) by lia.
  assert (Hidt : id < vlen (tidx h)) by (unfold vlen in *; lia).
  destruct (vget_lt (tidx h) id Hidt) as (tid & Etid). rewrite Etid.
  assert (Htid : tid < vlen (tnames h)).
  { rewrite Forall_forall in Hty. apply Hty. eapply in_vget; eauto. }
  destruct (split_at (tidx h) id Hidt) as (pre & x & post & Esplit & Hpre).
  assert (x = tid).
  { rewrite Esplit in Etid. rewrite <- Hpre in Etid. rewrite vget_mid in Etid. congruence. }
  subst x.
  destruct (verase_some (blocks h) id Hidb) as (bl' & Ebl).
  assert (Esz : exists sz', (if has_sizes h then verase (sizes h) id else Some (sizes h)) = Some sz' /\
                            (has_sizes h = true -> length sz' = length bl')).
  { destruct (has_sizes h) eqn:Hs.
    - destruct (verase_some (sizes h) id) as (sz' & E); [unfold vlen in *; rewrite Hsz by reflexivity; lia|].
      exists sz'. split; [exact E|]. intros _.
      pose proof (verase_length _ _ _ E). pose proof (verase_length _ _ _ Ebl). rewrite Hsz in * by reflexivity. lia.
    - exists (sizes h). split; [reflexivity|discriminate]. }
  destruct Esz as (sz' & Esz & Hsz').
  pose proof (verase_length _ _ _ Ebl) as Hbl.
  unfold release_type.
  destruct (N.ltb_spec (count_eq tid (tidx h)) 2) as [Hc|Hc].
  - (* the block was the only user of its type: the name goes, larger indices shift *)
    destruct (verase_some (tnames h) tid Htid) as (tn & Etn). rewrite Etn. cbn [bind].
    set (f := fun t => if tid <? t then t - 1 else t).
    assert (Emap : map f (tidx h) = map f pre ++ f tid :: map f post) by (rewrite Esplit, map_app; reflexivity).
    assert (Eti : verase (map f (tidx h)) id = Some (map f pre ++ map f post)).
    { rewrite Emap. rewrite <- Hpre. rewrite <- (vlen_map f pre). apply verase_mid. }
    rewrite Eti, Esz, Ebl. eexists. split; [reflexivity|].
    split; [|split; [cbn; rewrite map_length; lia|intros _; cbn; rewrite map_length; exact Hbl]].
    split; [|split; [|split]]; cbn [blocks nblocks tidx tnames sizes has_sizes].
    + rewrite vlen_map. unfold vlen in *. lia.
    + rewrite map_length, app_length, !map_length.
      assert (length (tidx h) = length pre + S (length post))%nat by (rewrite Esplit, app_length; reflexivity). lia.
    + intros Hs. rewrite map_length. auto.
    + rewrite Esplit, count_eq_app, count_eq_cons_same in Hc.
      assert (Hp0 : count_eq tid pre = 0) by lia. assert (Hq0 : count_eq tid post = 0) by lia.
      apply count_eq_zero in Hp0. apply count_eq_zero in Hq0.
      pose proof (verase_length _ _ _ Etn) as Hlen.
      rewrite Esplit in Hty. apply Forall_app in Hty. destruct Hty as [Hty1 Hty2]. inversion Hty2 as [|? ? _ Hty3]; subst.
      apply Forall_app. split; apply Forall_map; rewrite Forall_forall in *; intros y Hy.
      * specialize (Hty1 y Hy). specialize (Hp0 y Hy). unfold f, vlen in *. destruct (N.ltb_spec tid y); lia.
      * specialize (Hty3 y Hy). specialize (Hq0 y Hy). unfold f, vlen in *. destruct (N.ltb_spec tid y); lia.
  - cbn [bind].
    destruct (verase_some (tidx h) id Hidt) as (ti' & Eti). rewrite Eti, Esz, Ebl.
    eexists. split; [reflexivity|].
    split; [|split; [cbn; rewrite map_length; lia|intros _; cbn; rewrite map_length; exact Hbl]].
    pose proof (verase_length _ _ _ Eti) as Hl.
    split; [|split; [|split]]; cbn [blocks nblocks tidx tnames sizes has_sizes].
    + rewrite vlen_map. unfold vlen in *. lia.
    + rewrite map_length. lia.
    + intros Hs. rewrite map_length. auto.
    + eapply Forall_verase; eauto.
Qed.

Theorem delete_unreferenced_total of_type : forall fuel h root count,
  TInv h -> (length (blocks h) < fuel)%nat -> nblocks h < NPOS ->
  exists h' c, delete_unreferenced fuel of_type h root count = Ok (h', c) /\ TInv h'.
Proof.
  induction fuel as [|f IH]; intros h root count Hinv Hf Hsmall; [lia|].
  cbn [delete_unreferenced]. destruct (root =? NPOS); [eauto|].
  destruct (first_unreferenced of_type h root 0 (firstn (N.to_nat (nblocks h)) (blocks h))) as [i|] eqn:E; [|eauto].
  apply first_unreferenced_lt in E.
  assert (Hi : i < nblocks h).
  { unfold vlen in E. rewrite firstn_length in E. lia. }
  destruct (delete_block_tinv h i Hinv Hi) as (h1 & E1 & Hinv1 & _ & Hl).
  rewrite E1. cbn [bind].
  specialize (Hl ltac:(lia)).
  apply IH; [exact Hinv1|lia|].
  destruct Hinv as (Hn & _), Hinv1 as (Hn1 & _). unfold vlen in *. lia.
Qed.
