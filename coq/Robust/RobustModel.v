(* C15 -- hand model of the logic that is meant to absorb corrupted block references.
   Every reference may hold ANY number; nothing here assumes the header invariant of GraphInv.

   (i)   NiHeader::GetBlock<T>                      include/BasicTypes.hpp:1100-1106
   (ii)  NiHeader::GetBlockTypeStringById           src/BasicTypes.cpp:415-423
         NifFile::GetTree                           src/NifFile.cpp:2337-2354
         NifFile::GetParentNode                     src/NifFile.cpp:28-44
         the parent walk of GetNodeTransformToGlobal (with its visited set)
         (IsBlockReferenced, DeleteUnreferencedBlocks, BlockDeleted's shift_ref and SetBlockOrder's
          remap_ref are the definitions of GraphModel.v)
   (iii) SetSortIndices / SortCollision / PrettySortBlocks visited bookkeeping
                                                    src/NifFile.cpp:289-352, 418-473, 632-662
         over an ABSTRACT rb_graph: functions [children], [entities], kind tests and a per-block
         [script] of what SetSortIndices does after assigning the index, all with arbitrary values.
         The concrete instance (the scripts of SortGraph / SortShape / SortController /
         SortNiObjectNET / SortAVObject, NifFile.cpp:354-416, 475-630) is built from the dump of a
         loaded file at the end of this file. *)
From NiflyVerif Require Export Res GraphModel.
Local Open Scope N_scope.

(* ---------------------------------------------------------------------------------------------- *)
(* (i) T* GetBlock<T>(blockId): if (blockId != NIF_NPOS && blockId < numBlocks)
                                   return dynamic_cast<T*>(( *blocks)[blockId].get());
                                 return nullptr;
   [is_t] is the dynamic_cast test; the vector access is a Fault outside the vector. *)
Definition get_block_guard {A} (bl : list A) (nb : N) (is_t : A -> bool) (id : N) : res (option A) :=
  if (negb (id =? NPOS) && (id <? nb))%bool then
    match vget bl id with
    | Some b => Ok (if is_t b then Some b else None)
    | None => Fault
    end
  else Ok None.

(* GetBlockTypeStringById *)
Definition rb_block_type_string (h : hdr) (id : N) : res (option N) :=
  if (negb (id =? NPOS) && (id <? nblocks h))%bool then
    match vget (tidx h) id with
    | None => Fault
    | Some t =>
      if t <? ntypes h then
        match vget (tnames h) t with Some s => Ok (Some s) | None => Fault end
      else Ok None
    end
  else Ok None.

(* a for-loop over a container with a body that may fail *)
Fixpoint rb_iter {A S} (f : A -> S -> res S) (l : list A) (s : S) : res S :=
  match l with
  | [] => Ok s
  | a :: r => bind (f a s) (rb_iter f r)
  end.

Definition rb_mem (x : N) (l : list N) : bool := existsb (N.eqb x) l.

(* ---------------------------------------------------------------------------------------------- *)
(* (iii) the sorter over an abstract graph *)

Inductive rb_action :=
| RbVisit (c : N)     (* SetSortIndices(c, sortState) *)
| RbColl (c : N).     (* col = GetBlock<NiCollisionObject>(c); if (col) SortCollision(col, c, sortState) *)

(* SortState: visitedIndices (a std::set of block ids, here one flag per block id; only ids that
   passed the GetBlock guard are ever inserted), newIndices, newIndex *)
Record rb_sstate := mkRbSt { rb_visited : list bool; rb_new_indices : list N; rb_new_index : N }.

Definition rb_is_visited (st : rb_sstate) (i : N) : bool :=
  match vget (rb_visited st) i with Some true => true | _ => false end.

(* sortState.newIndices[i] = sortState.newIndex++; sortState.visitedIndices.insert(i); *)
Definition rb_assign (i : N) (st : rb_sstate) : res rb_sstate :=
  match vset (rb_new_indices st) i (rb_new_index st), vset (rb_visited st) i true with
  | Some ni, Some vi => Ok (mkRbSt vi ni (rb_new_index st + 1))
  | _, _ => Fault
  end.

(* sortState.visitedIndices.insert(i)  (alone) *)
Definition rb_mark (i : N) (st : rb_sstate) : res rb_sstate :=
  match vset (rb_visited st) i true with
  | Some vi => Ok (mkRbSt vi (rb_new_indices st) (rb_new_index st))
  | None => Fault
  end.

(* sortState.newIndices[i] = sortState.newIndex++;  (alone) *)
Definition rb_set_index (i : N) (st : rb_sstate) : res rb_sstate :=
  match vset (rb_new_indices st) i (rb_new_index st) with
  | Some ni => Ok (mkRbSt (rb_visited st) ni (rb_new_index st + 1))
  | None => Fault
  end.

Section Sorter.
  Variable n : N.                         (* numBlocks *)
  Variable children : N -> list N.        (* GetChildIndices of block i *)
  Variable entities : N -> list N.        (* entityRefs of a bhkConstraint followed by chainedEntityRefs,
                                             entityARef, entityBRef of a bhkBallSocketConstraintChain *)
  Variable before : N -> bool.            (* HasType<bhkRefObject> && !bhkConstraint && !chain *)
  Variable is_coll : N -> bool.           (* dynamic_cast<NiCollisionObject*> *)
  Variable script : N -> list rb_action.     (* what SetSortIndices does for block i after the assignment *)

  (* hdr.GetBlock<NiObject>(i) != nullptr *)
  Definition rb_valid (i : N) : bool := (negb (i =? NPOS) && (i <? n))%bool.

  (* one guarded recursive call of SortCollision:
       auto child = hdr.GetBlock<NiObject>(id);
       if (child && sortState.visitedIndices.count(id) == 0) { if (cond) SortCollision(child, id, sortState); } *)
  Definition rb_call (sc : N -> rb_sstate -> res rb_sstate) (cond : N -> bool) (c : N) (st : rb_sstate)
    : res rb_sstate :=
    if (rb_valid c && negb (rb_is_visited st c) && cond c)%bool then sc c st else Ok st.

  (* NifFile::SortCollision(parent, parentIndex, sortState), as repaired by
     "fix: SortCollision marks its parent as visited before it descends":
       bool assignIndex = sortState.visitedIndices.insert(parentIndex).second;
       ... entities, child-before-parent children ...
       if (assignIndex) sortState.newIndices[parentIndex] = sortState.newIndex++;
       ... the other children ...                                                    *)
  Fixpoint rb_sort_collision (fuel : nat) (p : N) (st : rb_sstate) : res rb_sstate :=
    match fuel with
    | O => OutOfFuel
    | S f =>
      let assign_index := negb (rb_is_visited st p) in
      bind (if assign_index then rb_mark p st else Ok st) (fun st0 =>
      bind (rb_iter (rb_call (rb_sort_collision f) (fun _ => true)) (entities p) st0) (fun st1 =>
      bind (rb_iter (rb_call (rb_sort_collision f) before) (children p) st1) (fun st2 =>
      bind (if assign_index then rb_set_index p st2 else Ok st2) (fun st3 =>
      rb_iter (rb_call (rb_sort_collision f) (fun c => negb (before c))) (children p) st3))))
    end.

  Definition rb_run_action (ssi sc : N -> rb_sstate -> res rb_sstate) (a : rb_action) (st : rb_sstate) : res rb_sstate :=
    match a with
    | RbVisit c => ssi c st
    | RbColl c => if (rb_valid c && is_coll c)%bool then sc c st else Ok st
    end.

  (* NifFile::SetSortIndices(refIndex, sortState) *)
  Fixpoint rb_set_sort_indices (fuel : nat) (i : N) (st : rb_sstate) : res rb_sstate :=
    match fuel with
    | O => OutOfFuel
    | S f =>
      if negb (rb_valid i) then Ok st
      else if rb_is_visited st i then Ok st
      else if is_coll i then rb_sort_collision f i st
      else bind (rb_assign i st) (rb_iter (rb_run_action (rb_set_sort_indices f) (rb_sort_collision f)) (script i))
    end.

  Definition rb_st0 : rb_sstate :=
    mkRbSt (repeat false (N.to_nat n)) (map N.of_nat (seq 0 (N.to_nat n))) 0.

  Definition rb_all_ids : list N := map N.of_nat (seq 0 (N.to_nat n)).

  (* the body of PrettySortBlocks: root-level nodes, then every block not reached *)
  Definition rb_pretty_sort (fuel : nat) (roots : list N) : res rb_sstate :=
    bind (rb_iter (rb_set_sort_indices fuel) roots rb_st0) (fun st =>
      rb_iter (fun i st => if rb_is_visited st i then Ok st else rb_assign i st) rb_all_ids st).
End Sorter.

(* ---------------------------------------------------------------------------------------------- *)
(* (ii) GetTree: result.push_back(parent); for (i : children) { child = GetBlock<NiObject>(i);
        if (child && !contains(result, child)) GetTree(result, child); }           *)
Section Tree.
  Variable n : N.
  Variable children : N -> list N.

  Fixpoint rb_get_tree (fuel : nat) (parent : N) (result : list N) : res (list N) :=
    match fuel with
    | O => OutOfFuel
    | S f =>
      rb_iter (fun i r => if (rb_valid n i && negb (rb_mem i r))%bool then rb_get_tree f i r else Ok r)
           (children parent) (result ++ [parent])
    end.
End Tree.

(* GetParentNode(child): the first block that is a NiNode and holds the child's id in childRefs;
   the walk of GetNodeTransformToGlobal *)
Section Parent.
  Variable node_children : list (option (list N)).   (* per block: Some childRefs when it is a NiNode *)

  Fixpoint rb_first_parent (i : N) (j : N) (l : list (option (list N))) : option N :=
    match l with
    | [] => None
    | Some ch :: r => if rb_mem i ch then Some j else rb_first_parent i (j + 1) r
    | None :: r => rb_first_parent i (j + 1) r
    end.

  Definition rb_get_parent_node (i : N) : option N := rb_first_parent i 0 node_children.

  (* as repaired by "fix: GetNodeTransformToGlobal stops when a parent node repeats":
       std::set<NiNode*> visited{node};
       while (parent && visited.insert(parent).second) { ...; parent = GetParentNode(parent); }
     [visited] holds the start node and every parent composed so far; the result is their number *)
  Fixpoint rb_to_global (fuel : nat) (i : N) (visited : list N) : res N :=
    match fuel with
    | O => OutOfFuel
    | S f =>
      match rb_get_parent_node i with
      | None => Ok (vlen visited)
      | Some p => if rb_mem p visited then Ok (vlen visited) else rb_to_global f p (visited ++ [p])
      end
    end.
End Parent.

(* ---------------------------------------------------------------------------------------------- *)
(* the concrete graph: what the oracle dumps for every block of a loaded file *)
Record rb_sblock := mkRbSB {
  rs_flags : N;            (* bit k = the k-th dynamic_cast test, see the accessors below *)
  rs_children : list N;    (* GetChildIndices *)
  rs_crefs : list N;       (* GetChildRefs *)
  rs_ptrs : list N;        (* GetPtrs *)
  rs_extra : list N; rs_ctrlref : N;                         (* NiObjectNET *)
  rs_props : list N; rs_collref : N;                         (* NiAVObject *)
  rs_childrefs : list N; rs_nsize : N; rs_npre : N;           (* NiNode: childRefs, its size, length of the NiAVObject part of GetChildIndices *)
  rs_data : N; rs_skin : N; rs_shaderref : N; rs_alpha : N;    (* NiShape accessors (a null accessor is dumped as NPOS) *)
  rs_skindata : N; rs_skinpart : N;                          (* NiSkinInstance / BSSkinInstance *)
  rs_texset : N;                                            (* NiShader::TextureSetRef *)
  rs_entities : list N;                                     (* bhkConstraint::entityRefs *)
  rs_chained : list N; rs_ea : N; rs_eb : N;                  (* bhkBallSocketConstraintChain *)
  rs_cblocks : list (N * N); rs_textkey : N; rs_animnotes : N; rs_animnoteslist : list N;  (* NiControllerSequence *)
  rs_noterefs : list N;                                     (* BSAnimNotes *)
  rs_firstname : N                                          (* NiNode: the first node block with the same name *)
}.

Definition rb_flag (k : N) (b : rb_sblock) : bool := N.testbit (rs_flags b) k.
Definition rs_coll := rb_flag 0.      (* NiCollisionObject *)
Definition rs_node := rb_flag 1.      (* NiNode *)
Definition rs_shape := rb_flag 2.     (* NiShape *)
Definition rs_ctrl := rb_flag 3.      (* NiTimeController *)
Definition rs_shader := rb_flag 4.    (* NiShader *)
Definition rs_bhk := rb_flag 5.       (* bhkRefObject *)
Definition rs_cons := rb_flag 6.      (* bhkConstraint *)
Definition rs_chain := rb_flag 7.     (* bhkBallSocketConstraintChain *)
Definition rs_ordered := rb_flag 8.   (* BSOrderedNode *)
Definition rs_niskin := rb_flag 9.    (* NiSkinInstance *)
Definition rs_bsskin := rb_flag 10.   (* BSSkinInstance *)
Definition rs_seq := rb_flag 11.      (* NiControllerSequence *)
Definition rs_notes := rb_flag 12.    (* BSAnimNotes *)
Definition rs_interp := rb_flag 13.   (* NiInterpolator *)

Definition rb_graph := list rb_sblock.

(* GetBlock<T> through the guard, with numBlocks = blocks.size() *)
Definition rb_lookup (g : rb_graph) (is_t : rb_sblock -> bool) (id : N) : option rb_sblock :=
  match get_block_guard g (vlen g) is_t id with Ok r => r | _ => None end.
Definition rb_has (g : rb_graph) (is_t : rb_sblock -> bool) (id : N) : bool :=
  match rb_lookup g is_t id with Some _ => true | None => false end.
Definition rb_anyb (_ : rb_sblock) : bool := true.

Definition rg_children (g : rb_graph) (i : N) : list N :=
  match vget g i with Some b => rs_children b | None => [] end.
Definition rg_entities (g : rb_graph) (i : N) : list N :=
  match vget g i with
  | Some b => (if rs_cons b then rs_entities b else []) ++
              (if rs_chain b then rs_chained b ++ [rs_ea b; rs_eb b] else [])
  | None => []
  end.
Definition rb_before_kind (b : rb_sblock) : bool := (rs_bhk b && negb (rs_cons b) && negb (rs_chain b))%bool.
Definition rg_before (g : rb_graph) (i : N) : bool := match vget g i with Some b => rb_before_kind b | None => false end.
Definition rg_is_coll (g : rb_graph) (i : N) : bool := match vget g i with Some b => rs_coll b | None => false end.

(* SortController (NifFile.cpp:378-416): everything it calls is SetSortIndices *)
Definition rb_notes_script (g : rb_graph) (r : N) : list rb_action :=
  match rb_lookup g rs_notes r with
  | Some nb => RbVisit r :: map RbVisit (rs_noterefs nb)
  | None => []
  end.
Definition rb_seq_script (g : rb_graph) (idx : N) : list rb_action :=
  match rb_lookup g rs_seq idx with
  | Some sb =>
    flat_map (fun ic => (if rb_has g rs_interp (fst ic) then [RbVisit (fst ic)] else []) ++
                        (if rb_has g rs_ctrl (snd ic) then [RbVisit (snd ic)] else [])) (rs_cblocks sb)
    ++ [RbVisit (rs_textkey sb)]
    ++ rb_notes_script g (rs_animnotes sb)
    ++ flat_map (rb_notes_script g) (rs_animnoteslist sb)
  | None => []
  end.
Definition rb_controller_script (g : rb_graph) (cb : rb_sblock) : list rb_action :=
  flat_map (fun idx => RbVisit idx :: rb_seq_script g idx) (rs_children cb).

(* SortNiObjectNET (354-364) *)
Definition rb_net_script (g : rb_graph) (b : rb_sblock) : list rb_action :=
  map RbVisit (rs_extra b) ++ [RbVisit (rs_ctrlref b)] ++
  match rb_lookup g rs_ctrl (rs_ctrlref b) with Some cb => rb_controller_script g cb | None => [] end.

(* SortAVObject (366-376) *)
Definition rb_av_script (g : rb_graph) (b : rb_sblock) : list rb_action :=
  rb_net_script g b ++ map RbVisit (rs_props b) ++ [RbColl (rs_collref b)].

(* SortShape (475-500) *)
Definition rb_shape_script (g : rb_graph) (b : rb_sblock) : list rb_action :=
  rb_av_script g b ++ [RbVisit (rs_data b); RbVisit (rs_skin b)] ++
  (match rb_lookup g rs_niskin (rs_skin b) with
   | Some sk => [RbVisit (rs_skindata sk); RbVisit (rs_skinpart sk)] | None => [] end) ++
  (match rb_lookup g rs_bsskin (rs_skin b) with
   | Some sk => [RbVisit (rs_skindata sk)] | None => [] end) ++
  [RbVisit (rs_shaderref b); RbVisit (rs_alpha b)] ++ map RbVisit (rs_children b).

(* SortGraph (502-630): the new order of the child array (rootShapeOrder is empty in PrettySortBlocks) *)
Definition rb_add_missing (g : rb_graph) (acc : list N) (idx : N) : list N :=
  if rb_mem idx acc then acc else if rb_has g rb_anyb idx then acc ++ [idx] else acc.
Definition rb_new_child_order (g : rb_graph) (ob : bool) (ch : list N) : list N :=
  let nodes := filter (fun idx => match rb_lookup g rs_node idx with
                                  | Some nb => if ob then 0 <? rs_nsize nb else true
                                  | None => false end) ch in
  let shapes := filter (rb_has g rs_shape) ch in
  fold_left (rb_add_missing g) ch (nodes ++ shapes) ++ filter (N.eqb NPOS) ch.
Definition rb_node_script (g : rb_graph) (ob : bool) (b : rb_sblock) : list rb_action :=
  rb_av_script g b ++
  match rs_childrefs b with
  | [] => []
  | _ =>
    map RbVisit
      (if rs_ordered b then rs_children b
       else firstn (N.to_nat (rs_npre b)) (rs_children b) ++ rb_new_child_order g ob (rs_childrefs b)
            ++ skipn (N.to_nat (rs_npre b) + length (rs_childrefs b)) (rs_children b))
  end.

(* the dynamic_cast chain of SetSortIndices after the assignment (306-351) *)
Definition rb_block_script (g : rb_graph) (ob : bool) (b : rb_sblock) : list rb_action :=
  if rs_node b then rb_node_script g ob b
  else if rs_shape b then rb_shape_script g b
  else if rs_ctrl b then rb_controller_script g b
  else if rs_shader b then rb_net_script g b ++ [RbVisit (rs_texset b)]
  else map RbVisit (rs_children b).
Definition rg_script (g : rb_graph) (ob : bool) (i : N) : list rb_action :=
  match vget g i with Some b => rb_block_script g ob b | None => [] end.

(* GetParentNode / root-level nodes of PrettySortBlocks (645-651) *)
Definition rg_node_children (g : rb_graph) : list (option (list N)) :=
  map (fun b => if rs_node b then Some (rs_childrefs b) else None) g.
Fixpoint rb_root_level (g : rb_graph) (i : N) (l : rb_graph) : list N :=
  match l with
  | [] => []
  | b :: r => (if (rs_node b && match rb_get_parent_node (rg_node_children g) i with None => true | Some _ => false end)%bool
               then [i] else []) ++ rb_root_level g (i + 1) r
  end.

Definition rb_sort_fuel (g : rb_graph) : nat := S (S (length g)).

Definition rg_pretty_sort (fuel : nat) (g : rb_graph) (ob unk : bool) : res (list N) :=
  if unk then Ok (rb_all_ids (vlen g))
  else
    bind (rb_pretty_sort (vlen g) (rg_children g) (rg_entities g) (rg_before g) (rg_is_coll g) (rg_script g ob)
                      fuel (rb_root_level g 0 g))
         (fun st => Ok (rb_new_indices st)).

(* NifFile::GetRootNode: block 0 when it is a node, else the first node block *)
Fixpoint rb_first_node (i : N) (l : rb_graph) : N :=
  match l with [] => NPOS | b :: r => if rs_node b then i else rb_first_node (i + 1) r end.
Definition rg_root (g : rb_graph) : N := if rb_has g rs_node 0 then 0 else rb_first_node 0 g.

Definition rg_get_tree (fuel : nat) (g : rb_graph) : res (list N) :=
  if rg_root g =? NPOS then Ok [] else rb_get_tree (vlen g) (rg_children g) fuel (rg_root g) [].

Definition rg_to_global (fuel : nat) (g : rb_graph) (i : N) : res N :=
  rb_to_global (rg_node_children g) fuel i [i].

(* the header seen by IsBlockReferenced / GetBlockRefCount / DeleteUnreferencedBlocks *)
Definition rg_blocks (g : rb_graph) (tn : list N) : list block :=
  map (fun bt => mkBlock 0 (snd bt) (rs_crefs (fst bt)) (rs_ptrs (fst bt))) (combine g tn).

(* the reference fields after SetBlockOrder(newIndices) *)
Definition rg_remap (order : list N) (refs : list N) : list N := map (remap_ref order) refs.

(* ---------------------------------------------------------------------------------------------- *)
(* the input classes of the two repaired defects (C15-sortcollision-cycle, C15-node-cycle-global-
   transform-hang), kept as decidable predicates so that the check can tell when a crash of the
   implementation is one of them coming back; the model above is total on these graphs too *)
Section Checkers.
  Variable n : N.
  Variable children : N -> list N.
  Variable entities : N -> list N.
  Variable before : N -> bool.

  (* the calls SortCollision(p) makes before its "Assign new sort index" step: existing entities,
     and existing children of the before-parent kind *)
  Definition rb_pre_targets (p : N) : list N :=
    filter (rb_valid n) (entities p) ++ filter (fun c => (rb_valid n c && before c)%bool) (children p).

  (* every member of C exists and makes such a call into C: C contains a cycle of them *)
  Definition rb_closed_ok (C : list N) : bool :=
    forallb (fun p => (rb_valid n p && existsb (fun c => rb_mem c C) (rb_pre_targets p))%bool) C.
End Checkers.

Definition rg_closed_ok (g : rb_graph) (C : list N) : bool :=
  rb_closed_ok (vlen g) (rg_children g) (rg_entities g) (rg_before g) C.

(* every member of C has its parent node in C: a cycle of node parents *)
Definition rb_pclosed_ok (nc : list (option (list N))) (C : list N) : bool :=
  forallb (fun p => match rb_get_parent_node nc p with Some q => rb_mem q C | None => false end) C.

(* ---------------------------------------------------------------------------------------------- *)
(* family-unique entry points for the model oracle (all families share one extracted module) *)
Definition rb_header (g : rb_graph) (tn : list N) : hdr :=
  fold_left (fun h b => fst (add_block h b)) (rg_blocks g tn) (empty_hdr true).
Definition rb_is_referenced (h : hdr) (id : N) (include_ptrs : bool) : bool := is_referenced h id include_ptrs.
Definition rb_ref_count (h : hdr) (id : N) (include_ptrs : bool) : N := ref_count h id include_ptrs.
(* DeleteUnreferencedBlocks<NiObject>(root): number of deleted blocks and remaining block count *)
Definition rb_prune (fuel : nat) (h : hdr) (root : N) : res (N * N) :=
  bind (delete_unreferenced fuel (fun _ => true) h root 0) (fun r => Ok (snd r, nblocks (fst r))).
Definition rb_mk_sblock := mkRbSB.
