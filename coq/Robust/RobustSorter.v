(* C15 -- the visited bookkeeping of SetSortIndices / SortCollision / PrettySortBlocks over ARBITRARY
   graphs and scripts: never a Fault; total with an explicit fuel when the "before-parent" calls of
   SortCollision admit a rank (no cycle among them); never completes when they contain a cycle that
   is unvisited at the call. *)
From NiflyVerif Require Import Res GraphModel GraphInv GraphDelete GraphOrder RobustModel RobustBasics.
From Coq Require Import ZifyBool ZifyNat ZifyN.
Local Open Scope N_scope.

(* number of unvisited entries *)
Fixpoint nfalse (l : list bool) : nat :=
  match l with [] => 0 | b :: r => (if b then 0 else 1) + nfalse r end%nat.

Lemma nfalse_le_length l : (nfalse l <= length l)%nat.
Proof. induction l as [|[] l IH]; cbn; lia. Qed.

Lemma nfalse_mono : forall l l', length l = length l' ->
  (forall k, nth_error l k = Some true -> nth_error l' k = Some true) ->
  (nfalse l' <= nfalse l)%nat.
Proof.
  induction l as [|b l IH]; intros [|b' l'] Hl Hk; cbn in *; try lia.
  assert (IH' : (nfalse l' <= nfalse l)%nat).
  { apply IH; [lia|]. intros k. apply (Hk (S k)). }
  destruct b, b'; cbn; try lia.
  specialize (Hk 0%nat eq_refl). discriminate.
Qed.

Lemma nfalse_strict : forall l l' p, length l = length l' ->
  (forall k, nth_error l k = Some true -> nth_error l' k = Some true) ->
  nth_error l p = Some false -> nth_error l' p = Some true ->
  (nfalse l' < nfalse l)%nat.
Proof.
  induction l as [|b l IH]; intros [|b' l'] p Hl Hk Hp Hp'; cbn in *; try lia.
  - destruct p; discriminate.
  - destruct p as [|p]; cbn in *.
    + inversion Hp; inversion Hp'; subst. cbn.
      pose proof (nfalse_mono l l' ltac:(lia) (fun k => Hk (S k))). lia.
    + assert (IH' : (nfalse l' < nfalse l)%nat).
      { eapply IH; eauto. intros k. apply (Hk (S k)). }
      destruct b, b'; cbn; try lia.
      specialize (Hk 0%nat eq_refl). discriminate.
Qed.

Section SorterProofs.
  Variable n : N.
  Variable children : N -> list N.
  Variable entities : N -> list N.
  Variable before : N -> bool.
  Variable is_coll : N -> bool.
  Variable script : N -> list rb_action.

  Notation sc := (rb_sort_collision n children entities before).
  Notation ssi := (rb_set_sort_indices n children entities before is_coll script).

  Definition wf (st : rb_sstate) : Prop :=
    length (rb_visited st) = N.to_nat n /\ length (rb_new_indices st) = N.to_nat n.
  Definition unv (st : rb_sstate) : nat := nfalse (rb_visited st).
  Definition mono (st st' : rb_sstate) : Prop :=
    forall i, rb_is_visited st i = true -> rb_is_visited st' i = true.

  Lemma mono_refl st : mono st st. Proof. intros i H. exact H. Qed.
  Lemma mono_trans a b c : mono a b -> mono b c -> mono a c.
  Proof. intros H1 H2 i H. auto. Qed.

  Lemma valid_lt i : rb_valid n i = true -> i < n.
  Proof. unfold rb_valid. intros H. apply andb_prop in H. destruct H as [_ H]. apply N.ltb_lt. exact H. Qed.

  Lemma is_visited_true st i : rb_is_visited st i = true <-> vget (rb_visited st) i = Some true.
  Proof.
    unfold rb_is_visited. destruct (vget (rb_visited st) i) as [[]|]; split; intros H; try discriminate; reflexivity.
  Qed.

  Lemma is_visited_false st i : wf st -> i < n -> rb_is_visited st i = false ->
    vget (rb_visited st) i = Some false.
  Proof.
    intros [Hl _] Hi H. destruct (vget_lt (rb_visited st) i) as (b & Hb); [unfold vlen; lia|].
    unfold rb_is_visited in H. rewrite Hb in *. destruct b; [discriminate|reflexivity].
  Qed.

  Lemma vget_nat {A} (l : list A) k : vget l (N.of_nat k) = nth_error l k.
  Proof. unfold vget. rewrite Nat2N.id. reflexivity. Qed.

  Lemma mono_unv st st' : wf st -> wf st' -> mono st st' -> (unv st' <= unv st)%nat.
  Proof.
    intros [H1 _] [H2 _] Hm. apply nfalse_mono; [lia|].
    intros k Hk. rewrite <- vget_nat in *. apply is_visited_true. apply Hm. apply is_visited_true. exact Hk.
  Qed.

  Lemma mono_unv_strict st st' p : wf st -> wf st' -> mono st st' -> p < n ->
    rb_is_visited st p = false -> rb_is_visited st' p = true -> (unv st' < unv st)%nat.
  Proof.
    intros W1 W2 Hm Hp Hf Ht. pose proof (is_visited_false st p W1 Hp Hf) as Hf'.
    apply is_visited_true in Ht. destruct W1 as [H1 _], W2 as [H2 _].
    apply nfalse_strict with (p := N.to_nat p); [lia| | |].
    - intros k Hk. rewrite <- vget_nat in *. apply is_visited_true. apply Hm. apply is_visited_true. exact Hk.
    - exact Hf'.
    - exact Ht.
  Qed.

  Lemma unv_le_n st : wf st -> (unv st <= N.to_nat n)%nat.
  Proof. intros [H _]. unfold unv. pose proof (nfalse_le_length (rb_visited st)). lia. Qed.

  Lemma assign_ok i st : wf st -> i < n ->
    exists st', rb_assign i st = Ok st' /\ wf st' /\ mono st st' /\ rb_is_visited st' i = true /\
                (forall j, j <> i -> rb_is_visited st' j = rb_is_visited st j).
  Proof.
    intros [Hv Hn] Hi. unfold rb_assign.
    destruct (vset_ok (rb_new_indices st) i (rb_new_index st)) as (ni & Eni); [unfold vlen; lia|].
    destruct (vset_ok (rb_visited st) i true) as (vi & Evi); [unfold vlen; lia|].
    rewrite Eni, Evi. eexists. split; [reflexivity|].
    assert (Hget : forall j, rb_is_visited (mkRbSt vi ni (rb_new_index st + 1)) j
                             = if j =? i then true else rb_is_visited st j).
    { intros j. unfold rb_is_visited. cbn [rb_visited]. rewrite (vget_vset _ _ _ _ j Evi).
      destruct (j =? i); reflexivity. }
    split; [|split; [|split]].
    - split; cbn [rb_visited rb_new_indices].
      + rewrite (vset_len _ _ _ _ Evi). exact Hv.
      + rewrite (vset_len _ _ _ _ Eni). exact Hn.
    - intros j Hj. rewrite Hget. destruct (j =? i); auto.
    - rewrite Hget, N.eqb_refl. reflexivity.
    - intros j Hj. rewrite Hget. destruct (N.eqb_spec j i); [contradiction|reflexivity].
  Qed.

  (* ------------------------------------------------------------------------------------------ *)
  (* never a Fault: every index used on newIndices / visitedIndices passed the GetBlock guard *)
  Lemma safe_call f cond c st :
    (forall p st, wf st -> rb_valid n p = true -> rb_safe wf (sc f p st)) ->
    wf st -> rb_safe wf (rb_call n (sc f) cond c st).
  Proof.
    intros IH W. unfold rb_call.
    destruct (rb_valid n c) eqn:V; cbn [andb]; [|exact W].
    destruct (negb (rb_is_visited st c) && cond c)%bool; [|exact W].
    apply IH; auto.
  Qed.

  Lemma safe_mark p st : wf st -> rb_valid n p = true ->
    rb_safe wf (if rb_is_visited st p then Ok st else rb_assign p st).
  Proof.
    intros W V. destruct (rb_is_visited st p); [exact W|].
    destruct (assign_ok p st W (valid_lt p V)) as (st' & -> & W' & _). exact W'.
  Qed.

  Lemma safe_bind {S} (Inv : S -> Prop) (r : res S) (k : S -> res S) :
    rb_safe Inv r -> (forall s, Inv s -> rb_safe Inv (k s)) -> rb_safe Inv (bind r k).
  Proof. destruct r; cbn; auto. Qed.

  Lemma safe_sc : forall fuel p st, wf st -> rb_valid n p = true -> rb_safe wf (sc fuel p st).
  Proof.
    induction fuel as [|f IH]; intros p st W V; [exact I|].
    cbn [rb_sort_collision].
    apply safe_bind; [apply rb_iter_safe; [exact W|intros; apply safe_call; auto]|].
    intros st1 W1. apply safe_bind; [apply rb_iter_safe; [exact W1|intros; apply safe_call; auto]|].
    intros st2 W2. apply safe_bind; [apply safe_mark; auto|].
    intros st3 W3. apply rb_iter_safe; [exact W3|intros; apply safe_call; auto].
  Qed.

  Lemma safe_ssi : forall fuel i st, wf st -> rb_safe wf (ssi fuel i st).
  Proof.
    induction fuel as [|f IH]; intros i st W; [exact I|].
    cbn [rb_set_sort_indices].
    destruct (rb_valid n i) eqn:V; cbn [negb]; [|exact W].
    destruct (rb_is_visited st i); [exact W|].
    destruct (is_coll i); [apply safe_sc; auto|].
    destruct (assign_ok i st W (valid_lt i V)) as (st1 & -> & W1 & _). cbn [bind].
    apply rb_iter_safe; [exact W1|].
    intros a s _ Ws. destruct a as [c|c]; cbn [rb_run_action]; [apply IH; auto|].
    destruct (rb_valid n c) eqn:Vc; cbn [andb]; [|exact Ws].
    destruct (is_coll c); [|exact Ws]. apply safe_sc; auto.
  Qed.

  Lemma wf_st0 : wf (rb_st0 n).
  Proof. split; cbn; [apply repeat_length|rewrite map_length, seq_length; reflexivity]. Qed.

  Theorem pretty_sort_no_fault fuel roots :
    rb_pretty_sort n children entities before is_coll script fuel roots <> Fault.
  Proof.
    assert (H : rb_safe wf (rb_pretty_sort n children entities before is_coll script fuel roots)).
    { unfold rb_pretty_sort. apply safe_bind.
      - apply rb_iter_safe; [apply wf_st0|]. intros; apply safe_ssi; auto.
      - intros st W. apply rb_iter_safe; [exact W|].
        intros i s Hi Ws. apply rb_in_all_ids in Hi.
        destruct (rb_is_visited s i); [exact Ws|].
        destruct (assign_ok i s Ws Hi) as (s' & -> & W' & _). exact W'. }
    intros E. rewrite E in H. exact H.
  Qed.

  (* ------------------------------------------------------------------------------------------ *)
  (* totality when the before-parent calls admit a rank *)
  Section Ranked.
    Variable rank : N -> nat.
    Variable R : nat.
    Hypothesis Hrank : forall p c, rb_valid n p = true ->
      In c (rb_pre_targets n children entities before p) -> (rank c < rank p)%nat.
    Hypothesis HR : forall p, (rank p <= R)%nat.

    Definition need (st : rb_sstate) (p : N) : nat :=
      (unv st * (R + 1) + (if rb_is_visited st p then R + 1 else rank p))%nat.

    Definition post (st : rb_sstate) (r : res rb_sstate) : Prop :=
      exists st', r = Ok st' /\ wf st' /\ mono st st'.

    Lemma in_pre_entities p c : rb_valid n c = true -> In c (entities p) ->
      In c (rb_pre_targets n children entities before p).
    Proof.
      intros V H. unfold rb_pre_targets. apply in_or_app. left. apply filter_In. auto.
    Qed.
    Lemma in_pre_children p c : rb_valid n c = true -> before c = true -> In c (children p) ->
      In c (rb_pre_targets n children entities before p).
    Proof.
      intros V B H. unfold rb_pre_targets. apply in_or_app. right. apply filter_In.
      split; [exact H|]. rewrite V, B. reflexivity.
    Qed.

    (* one guarded call, given a bound on what it needs *)
    Lemma total_call f cond c s :
      (forall p st, wf st -> rb_valid n p = true -> (need st p < f)%nat -> post st (sc f p st)) ->
      wf s ->
      (rb_valid n c = true -> rb_is_visited s c = false -> cond c = true -> (need s c < f)%nat) ->
      post s (rb_call n (sc f) cond c s).
    Proof.
      intros IH W Hb. unfold rb_call.
      destruct (rb_valid n c) eqn:V; cbn [andb]; [|exists s; auto using mono_refl].
      destruct (rb_is_visited s c) eqn:Vis; cbn [negb andb]; [exists s; auto using mono_refl|].
      destruct (cond c) eqn:C; [|exists s; auto using mono_refl].
      apply IH; auto.
    Qed.

    Lemma total_both : forall fuel,
      (forall p st, wf st -> rb_valid n p = true -> (need st p < fuel)%nat -> post st (sc fuel p st)) /\
      (forall i st, wf st -> ((unv st + 1) * (R + 1) < fuel)%nat -> post st (ssi fuel i st)).
    Proof.
      induction fuel as [|f [IHsc IHssi]]; [split; intros; lia|].
      assert (Hsc : forall p st, wf st -> rb_valid n p = true -> (need st p < S f)%nat -> post st (sc (S f) p st)).
      { intros p st W V Hneed. cbn [rb_sort_collision].
        (* arithmetic: what a pre-call on an unvisited c with a smaller rank needs *)
        assert (Hpre : forall s c, wf s -> mono st s -> rb_valid n c = true -> rb_is_visited s c = false ->
                                   (rank c < rank p)%nat -> (need s c < f)%nat).
        { intros s c Ws Hm Vc Visc Hr. unfold need in *. rewrite Visc.
          pose proof (mono_unv st s W Ws Hm) as Hu.
          pose proof (Nat.mul_le_mono_r _ _ (R + 1) Hu) as Hmul.
          pose proof (HR c). pose proof (HR p).
          destruct (rb_is_visited st p); lia. }
        (* loop 1: entities *)
        destruct (rb_iter_inv (fun s => wf s /\ mono st s) (rb_call n (sc f) (fun _ => true)) (entities p) st)
          as (st1 & E1 & W1 & M1); [split; auto using mono_refl| |].
        { intros c s Hin [Ws Hm].
          destruct (total_call f (fun _ => true) c s IHsc Ws) as (s' & E & Ws' & Hm').
          - intros Vc Visc _. apply Hpre; auto. apply Hrank; auto. apply in_pre_entities; auto.
          - exists s'. split; [exact E|]. split; [exact Ws'|]. eapply mono_trans; eauto. }
        rewrite E1. cbn [bind].
        (* loop 2: before-parent children *)
        destruct (rb_iter_inv (fun s => wf s /\ mono st s) (rb_call n (sc f) before) (children p) st1)
          as (st2 & E2 & W2 & M2); [split; auto| |].
        { intros c s Hin [Ws Hm].
          destruct (total_call f before c s IHsc Ws) as (s' & E & Ws' & Hm').
          - intros Vc Visc Bc. apply Hpre; auto. apply Hrank; auto. apply in_pre_children; auto.
          - exists s'. split; [exact E|]. split; [exact Ws'|]. eapply mono_trans; eauto. }
        rewrite E2. cbn [bind].
        (* the mark *)
        assert (Hmark : exists st3, (if rb_is_visited st2 p then Ok st2 else rb_assign p st2) = Ok st3 /\
                                    wf st3 /\ mono st st3 /\ rb_is_visited st3 p = true).
        { destruct (rb_is_visited st2 p) eqn:V2; [exists st2; auto|].
          destruct (assign_ok p st2 W2 (valid_lt p V)) as (st3 & E3 & W3 & M3 & V3 & _).
          exists st3. split; [exact E3|]. split; [exact W3|]. split; [eapply mono_trans; eauto|exact V3]. }
        destruct Hmark as (st3 & E3 & W3 & M3 & V3). rewrite E3. cbn [bind].
        (* loop 3: the other children, the parent is visited now *)
        destruct (rb_iter_inv (fun s => wf s /\ mono st s /\ rb_is_visited s p = true)
                    (rb_call n (sc f) (fun c => negb (before c))) (children p) st3)
          as (st4 & E4 & W4 & M4 & _); [auto| |].
        { intros c s Hin (Ws & Hm & Vsp).
          destruct (total_call f (fun c => negb (before c)) c s IHsc Ws) as (s' & E & Ws' & Hm').
          - intros Vc Visc _. unfold need in *. rewrite Visc.
            pose proof (HR c). pose proof (HR p).
            destruct (rb_is_visited st p) eqn:Vp.
            + pose proof (mono_unv st s W Ws Hm) as Hu.
              pose proof (Nat.mul_le_mono_r _ _ (R + 1) Hu). lia.
            + assert (Hs : (unv s < unv st)%nat)
                by (apply mono_unv_strict with (p := p); auto using valid_lt).
              assert (Hmul : ((unv s + 1) * (R + 1) <= unv st * (R + 1))%nat) by (apply Nat.mul_le_mono_r; lia).
              lia.
          - exists s'. split; [exact E|]. split; [exact Ws'|]. split; [eapply mono_trans; eauto|]. apply Hm'. exact Vsp. }
        exists st4. rewrite E4. auto. }
      split; [exact Hsc|].
      intros i st W Hf. cbn [rb_set_sort_indices].
      destruct (rb_valid n i) eqn:V; cbn [negb]; [|exists st; auto using mono_refl].
      destruct (rb_is_visited st i) eqn:Vis; [exists st; auto using mono_refl|].
      destruct (is_coll i).
      { apply IHsc; auto. unfold need. rewrite Vis. pose proof (HR i). lia. }
      destruct (assign_ok i st W (valid_lt i V)) as (st1 & -> & W1 & M1 & V1 & _). cbn [bind].
      assert (Hu1 : (unv st1 < unv st)%nat) by (apply mono_unv_strict with (p := i); auto using valid_lt).
      destruct (rb_iter_inv (fun s => wf s /\ mono st1 s)
                  (rb_run_action n is_coll (ssi f) (sc f)) (script i) st1) as (st2 & E2 & W2 & M2);
        [split; auto using mono_refl| |].
      { intros a s _ [Ws Hm].
        pose proof (mono_unv st1 s W1 Ws Hm) as Hu.
        assert (Hmul : ((unv s + 1) * (R + 1) <= unv st * (R + 1))%nat) by (apply Nat.mul_le_mono_r; lia).
        destruct a as [c|c]; cbn [rb_run_action].
        - destruct (IHssi c s Ws) as (s' & E & Ws' & Hm'); [lia|].
          exists s'. split; [exact E|]. split; [exact Ws'|]. eapply mono_trans; eauto.
        - destruct (rb_valid n c) eqn:Vc; cbn [andb]; [|exists s; auto].
          destruct (is_coll c); [|exists s; auto].
          destruct (IHsc c s Ws Vc) as (s' & E & Ws' & Hm').
          + unfold need. pose proof (HR c). destruct (rb_is_visited s c); lia.
          + exists s'. split; [exact E|]. split; [exact Ws'|]. eapply mono_trans; eauto. }
      exists st2. split; [exact E2|]. split; [exact W2|]. eapply mono_trans; eauto.
    Qed.

    (* PrettySortBlocks terminates within fuel (n+1)(R+1)+1 *)
    Theorem pretty_sort_total roots :
      exists st, rb_pretty_sort n children entities before is_coll script
                   (S ((N.to_nat n + 1) * (R + 1))) roots = Ok st /\ wf st.
    Proof.
      unfold rb_pretty_sort.
      destruct (rb_iter_inv wf (ssi (S ((N.to_nat n + 1) * (R + 1)))) roots (rb_st0 n)) as (st1 & E1 & W1);
        [apply wf_st0| |].
      { intros i s _ Ws.
        destruct (proj2 (total_both (S ((N.to_nat n + 1) * (R + 1)))) i s Ws) as (s' & E & Ws' & _).
        - pose proof (unv_le_n s Ws) as Hu.
          assert (((unv s + 1) * (R + 1) <= (N.to_nat n + 1) * (R + 1))%nat) by (apply Nat.mul_le_mono_r; lia).
          lia.
        - eauto. }
      rewrite E1. cbn [bind].
      apply rb_iter_inv; [exact W1|].
      intros i s Hi Ws. apply rb_in_all_ids in Hi.
      destruct (rb_is_visited s i); [eauto|].
      destruct (assign_ok i s Ws Hi) as (s' & E & W' & _). eauto.
    Qed.
  End Ranked.

  (* ------------------------------------------------------------------------------------------ *)
  (* divergence: a set C of existing blocks, each of which makes a before-parent call into C *)
  Section Cyclic.
    Variable C : list N.
    Hypothesis Hclosed : forall p, In p C ->
      rb_valid n p = true /\ exists c, In c C /\ In c (rb_pre_targets n children entities before p).

    Definition unvC (st : rb_sstate) : Prop := forall x, In x C -> rb_is_visited st x = false.

    Lemma diverges_gen : forall fuel c st st',
      unvC st -> sc fuel c st = Ok st' -> ~ In c C /\ unvC st'.
    Proof.
      induction fuel as [|f IH]; intros p st st' U E; [discriminate|].
      cbn [rb_sort_collision] in E.
      (* a guarded call preserves "C unvisited" when it completes *)
      assert (Hpres : forall cond c s s', unvC s -> rb_call n (sc f) cond c s = Ok s' -> unvC s').
      { intros cond c s s' Us Ec. unfold rb_call in Ec.
        destruct (rb_valid n c && negb (rb_is_visited s c) && cond c)%bool.
        - eapply IH; eauto.
        - inversion Ec; subst. exact Us. }
      (* a guarded call on a member of C that passes its condition never completes *)
      assert (Hblock : forall (cond : N -> bool) c s s', In c C -> cond c = true -> unvC s ->
                         rb_call n (sc f) cond c s = Ok s' -> False).
      { intros cond c s s' Hc Hcond Us Ec. unfold rb_call in Ec.
        destruct (Hclosed c Hc) as [Vc _]. rewrite Vc, (Us c Hc), Hcond in Ec. cbn in Ec.
        destruct (IH c s s' Us Ec) as [Hn _]. contradiction. }
      destruct (rb_iter (rb_call n (sc f) (fun _ => true)) (entities p) st) as [st1| |] eqn:E1; cbn [bind] in E; try discriminate.
      destruct (rb_iter (rb_call n (sc f) before) (children p) st1) as [st2| |] eqn:E2; cbn [bind] in E; try discriminate.
      assert (U1 : unvC st1).
      { eapply (rb_iter_preserve unvC); [|exact U|exact E1]. intros a s s' _. apply Hpres. }
      assert (U2 : unvC st2).
      { eapply (rb_iter_preserve unvC); [|exact U1|exact E2]. intros a s s' _. apply Hpres. }
      assert (Hnot : ~ In p C).
      { intros Hp. destruct (Hclosed p Hp) as [_ (c & Hc & Hin)].
        unfold rb_pre_targets in Hin. apply in_app_or in Hin. destruct Hin as [Hin|Hin].
        - apply filter_In in Hin. destruct Hin as [Hin _].
          eapply (rb_iter_blocked unvC (rb_call n (sc f) (fun _ => true)) c); [| |exact Hin|exact U|exact E1].
          + intros a s s' _. apply Hpres.
          + intros s s' Us. apply (Hblock (fun _ => true)); auto.
        - apply filter_In in Hin. destruct Hin as [Hin Hb]. apply andb_prop in Hb. destruct Hb as [_ Hb].
          eapply (rb_iter_blocked unvC (rb_call n (sc f) before) c); [| |exact Hin|exact U1|exact E2].
          + intros a s s' _. apply Hpres.
          + intros s s' Us. apply (Hblock before); auto. }
      split; [exact Hnot|].
      destruct (if rb_is_visited st2 p then Ok st2 else rb_assign p st2) as [st3| |] eqn:E3; cbn [bind] in E; try discriminate.
      assert (U3 : unvC st3).
      { destruct (rb_is_visited st2 p); [inversion E3; subst; exact U2|].
        unfold rb_assign in E3.
        destruct (vset (rb_new_indices st2) p (rb_new_index st2)) as [ni|]; [|discriminate].
        destruct (vset (rb_visited st2) p true) as [vi|] eqn:Evi; [|discriminate].
        inversion E3; subst. intros x Hx. unfold rb_is_visited. cbn [rb_visited].
        rewrite (vget_vset _ _ _ _ x Evi).
        destruct (N.eqb_spec x p) as [->|_]; [contradiction|]. apply (U2 x Hx). }
      eapply (rb_iter_preserve unvC); [|exact U3|exact E]. intros a s s' _. apply Hpres.
    Qed.

    Theorem sort_collision_diverges fuel p st :
      In p C -> unvC st -> forall st', sc fuel p st <> Ok st'.
    Proof.
      intros Hp U st' E. destruct (diverges_gen fuel p st st' U E) as [Hn _]. contradiction.
    Qed.

    Theorem sort_collision_out_of_fuel fuel p st :
      In p C -> unvC st -> wf st -> sc fuel p st = OutOfFuel.
    Proof.
      intros Hp U W. destruct (Hclosed p Hp) as [V _].
      pose proof (safe_sc fuel p st W V) as Hs.
      destruct (sc fuel p st) as [st'| |] eqn:E; [|contradiction|reflexivity].
      exfalso. eapply sort_collision_diverges; eauto.
    Qed.
  End Cyclic.
End SorterProofs.
