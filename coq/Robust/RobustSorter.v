(* C15 -- the visited bookkeeping of SetSortIndices / SortCollision / PrettySortBlocks over ARBITRARY
   graphs and scripts: never a Fault, and total with the explicit fuel numBlocks + 2 (SortCollision
   inserts its parent into visitedIndices on entry since the repair of C15-sortcollision-cycle, so
   every recursive call consumes an unvisited block). *)
From NiflyVerif Require Import Res GraphModel GraphInv GraphDelete GraphOrder RobustModel RobustBasics.
From Coq Require Import ZifyBool ZifyNat ZifyN.
Local Open Scope N_scope.

(* number of unvisited entries *)
Fixpoint nfalse (l : list bool) : nat :=
  match l with [] => 0 | b :: r => (if b then 0 else 1) + nfalse r end%nat.

Lemma nfalse_le_length l : (nfalse l <= length l)%nat.
Proof. induction l as [|[] l IH]; cbn; lia. Qed.

Lemma nfalse_mono : forall l l', length l = length l' ->
  (forall k, nth_error l k = Some true -> nth_error l' k = Some true) ->
  (nfalse l' <= nfalse l)%nat.
Proof.
  induction l as [|b l IH]; intros [|b' l'] Hl Hk; cbn in *; try lia.
  assert (IH' : (nfalse l' <= nfalse l)%nat).
  { apply IH; [lia|]. intros k. apply (Hk (S k)). }
  destruct b, b'; cbn; try lia.
  specialize (Hk 0%nat eq_refl). discriminate.
Qed.

Lemma nfalse_strict : forall l l' p, length l = length l' ->
  (forall k, nth_error l k = Some true -> nth_error l' k = Some true) ->
  nth_error l p = Some false -> nth_error l' p = Some true ->
  (nfalse l' < nfalse l)%nat.
Proof.
  induction l as [|b l IH]; intros [|b' l'] p Hl Hk Hp Hp'; cbn in *; try lia.
  - destruct p; discriminate.
  - destruct p as [|p]; cbn in *.
    + inversion Hp; inversion Hp'; subst. cbn.
      pose proof (nfalse_mono l l' ltac:(lia) (fun k => Hk (S k))). lia.
    + assert (IH' : (nfalse l' < nfalse l)%nat).
      { eapply IH; eauto. intros k. apply (Hk (S k)). }
      destruct b, b'; cbn; try lia.
      specialize (Hk 0%nat eq_refl). discriminate.
Qed.

Section SorterProofs.
  Variable n : N.
  Variable children : N -> list N.
  Variable entities : N -> list N.
  Variable before : N -> bool.
  Variable is_coll : N -> bool.
  Variable script : N -> list rb_action.

  Notation sc := (rb_sort_collision n children entities before).
  Notation ssi := (rb_set_sort_indices n children entities before is_coll script).

  Definition wf (st : rb_sstate) : Prop :=
    length (rb_visited st) = N.to_nat n /\ length (rb_new_indices st) = N.to_nat n.
  Definition unv (st : rb_sstate) : nat := nfalse (rb_visited st).
  Definition mono (st st' : rb_sstate) : Prop :=
    forall i, rb_is_visited st i = true -> rb_is_visited st' i = true.

  Lemma mono_refl st : mono st st. Proof. intros i H. exact H. Qed.
  Lemma mono_trans a b c : mono a b -> mono b c -> mono a c.
  Proof. intros H1 H2 i H. auto. Qed.

  Lemma valid_lt i : rb_valid n i = true -> i < n.
  Proof. unfold rb_valid. intros H. apply andb_prop in H. destruct H as [_ H]. apply N.ltb_lt. exact H. Qed.

  Lemma is_visited_true st i : rb_is_visited st i = true <-> vget (rb_visited st) i = Some true.
  Proof.
    unfold rb_is_visited. destruct (vget (rb_visited st) i) as [[]|]; split; intros H; try discriminate; reflexivity.
  Qed.

  Lemma is_visited_false st i : wf st -> i < n -> rb_is_visited st i = false ->
    vget (rb_visited st) i = Some false.
  Proof.
    intros [Hl _] Hi H. destruct (vget_lt (rb_visited st) i) as (b & Hb); [unfold vlen; lia|].
    unfold rb_is_visited in H. rewrite Hb in *. destruct b; [discriminate|reflexivity].
  Qed.

  Lemma vget_nat {A} (l : list A) k : vget l (N.of_nat k) = nth_error l k.
  Proof. unfold vget. rewrite Nat2N.id. reflexivity. Qed.

  Lemma mono_unv st st' : wf st -> wf st' -> mono st st' -> (unv st' <= unv st)%nat.
  Proof.
    intros [H1 _] [H2 _] Hm. apply nfalse_mono; [lia|].
    intros k Hk. rewrite <- vget_nat in *. apply is_visited_true. apply Hm. apply is_visited_true. exact Hk.
  Qed.

  Lemma mono_unv_strict st st' p : wf st -> wf st' -> mono st st' -> p < n ->
    rb_is_visited st p = false -> rb_is_visited st' p = true -> (unv st' < unv st)%nat.
  Proof.
    intros W1 W2 Hm Hp Hf Ht. pose proof (is_visited_false st p W1 Hp Hf) as Hf'.
    apply is_visited_true in Ht. destruct W1 as [H1 _], W2 as [H2 _].
    apply nfalse_strict with (p := N.to_nat p); [lia| | |].
    - intros k Hk. rewrite <- vget_nat in *. apply is_visited_true. apply Hm. apply is_visited_true. exact Hk.
    - exact Hf'.
    - exact Ht.
  Qed.

  Lemma unv_le_n st : wf st -> (unv st <= N.to_nat n)%nat.
  Proof. intros [H _]. unfold unv. pose proof (nfalse_le_length (rb_visited st)). lia. Qed.

  Lemma assign_ok i st : wf st -> i < n ->
    exists st', rb_assign i st = Ok st' /\ wf st' /\ mono st st' /\ rb_is_visited st' i = true /\
                (forall j, j <> i -> rb_is_visited st' j = rb_is_visited st j).
  Proof.
    intros [Hv Hn] Hi. unfold rb_assign.
    destruct (vset_ok (rb_new_indices st) i (rb_new_index st)) as (ni & Eni); [unfold vlen; lia|].
    destruct (vset_ok (rb_visited st) i true) as (vi & Evi); [unfold vlen; lia|].
    rewrite Eni, Evi. eexists. split; [reflexivity|].
    assert (Hget : forall j, rb_is_visited (mkRbSt vi ni (rb_new_index st + 1)) j
                             = if j =? i then true else rb_is_visited st j).
    { intros j. unfold rb_is_visited. cbn [rb_visited]. rewrite (vget_vset _ _ _ _ j Evi).
      destruct (j =? i); reflexivity. }
    split; [|split; [|split]].
    - split; cbn [rb_visited rb_new_indices].
      + rewrite (vset_len _ _ _ _ Evi). exact Hv.
      + rewrite (vset_len _ _ _ _ Eni). exact Hn.
    - intros j Hj. rewrite Hget. destruct (j =? i); auto.
    - rewrite Hget, N.eqb_refl. reflexivity.
    - intros j Hj. rewrite Hget. destruct (N.eqb_spec j i); [contradiction|reflexivity].
  Qed.

  Lemma mark_ok i st : wf st -> i < n ->
    exists st', rb_mark i st = Ok st' /\ wf st' /\ mono st st' /\ rb_is_visited st' i = true.
  Proof.
    intros [Hv Hn] Hi. unfold rb_mark.
    destruct (vset_ok (rb_visited st) i true) as (vi & Evi); [unfold vlen; lia|].
    rewrite Evi. eexists. split; [reflexivity|].
    assert (Hget : forall j, rb_is_visited (mkRbSt vi (rb_new_indices st) (rb_new_index st)) j
                             = if j =? i then true else rb_is_visited st j).
    { intros j. unfold rb_is_visited. cbn [rb_visited]. rewrite (vget_vset _ _ _ _ j Evi).
      destruct (j =? i); reflexivity. }
    split; [|split].
    - split; cbn [rb_visited rb_new_indices]; [rewrite (vset_len _ _ _ _ Evi); exact Hv|exact Hn].
    - intros j Hj. rewrite Hget. destruct (j =? i); auto.
    - rewrite Hget, N.eqb_refl. reflexivity.
  Qed.

  Lemma set_index_ok i st : wf st -> i < n ->
    exists st', rb_set_index i st = Ok st' /\ wf st' /\ mono st st'.
  Proof.
    intros [Hv Hn] Hi. unfold rb_set_index.
    destruct (vset_ok (rb_new_indices st) i (rb_new_index st)) as (ni & Eni); [unfold vlen; lia|].
    rewrite Eni. eexists. split; [reflexivity|]. split.
    - split; cbn [rb_visited rb_new_indices]; [exact Hv|rewrite (vset_len _ _ _ _ Eni); exact Hn].
    - intros j Hj. exact Hj.
  Qed.

  (* ------------------------------------------------------------------------------------------ *)
  (* never a Fault: every index used on newIndices / visitedIndices passed the GetBlock guard *)
  Lemma safe_call f cond c st :
    (forall p st, wf st -> rb_valid n p = true -> rb_safe wf (sc f p st)) ->
    wf st -> rb_safe wf (rb_call n (sc f) cond c st).
  Proof.
    intros IH W. unfold rb_call.
    destruct (rb_valid n c) eqn:V; cbn [andb]; [|exact W].
    destruct (negb (rb_is_visited st c) && cond c)%bool; [|exact W].
    apply IH; auto.
  Qed.

  Lemma safe_mark (b : bool) p st : wf st -> rb_valid n p = true ->
    rb_safe wf (if b then rb_mark p st else Ok st).
  Proof.
    intros W V. destruct b; [|exact W].
    destruct (mark_ok p st W (valid_lt p V)) as (st' & -> & W' & _). exact W'.
  Qed.

  Lemma safe_set_index (b : bool) p st : wf st -> rb_valid n p = true ->
    rb_safe wf (if b then rb_set_index p st else Ok st).
  Proof.
    intros W V. destruct b; [|exact W].
    destruct (set_index_ok p st W (valid_lt p V)) as (st' & -> & W' & _). exact W'.
  Qed.

  Lemma safe_bind {S} (Inv : S -> Prop) (r : res S) (k : S -> res S) :
    rb_safe Inv r -> (forall s, Inv s -> rb_safe Inv (k s)) -> rb_safe Inv (bind r k).
  Proof. destruct r; cbn; auto. Qed.

  Lemma safe_sc : forall fuel p st, wf st -> rb_valid n p = true -> rb_safe wf (sc fuel p st).
  Proof.
    induction fuel as [|f IH]; intros p st W V; [exact I|].
    cbn [rb_sort_collision].
    apply safe_bind; [apply safe_mark; auto|].
    intros st0 W0. apply safe_bind; [apply rb_iter_safe; [exact W0|intros; apply safe_call; auto]|].
    intros st1 W1. apply safe_bind; [apply rb_iter_safe; [exact W1|intros; apply safe_call; auto]|].
    intros st2 W2. apply safe_bind; [apply safe_set_index; auto|].
    intros st3 W3. apply rb_iter_safe; [exact W3|intros; apply safe_call; auto].
  Qed.

  Lemma safe_ssi : forall fuel i st, wf st -> rb_safe wf (ssi fuel i st).
  Proof.
    induction fuel as [|f IH]; intros i st W; [exact I|].
    cbn [rb_set_sort_indices].
    destruct (rb_valid n i) eqn:V; cbn [negb]; [|exact W].
    destruct (rb_is_visited st i); [exact W|].
    destruct (is_coll i); [apply safe_sc; auto|].
    destruct (assign_ok i st W (valid_lt i V)) as (st1 & -> & W1 & _). cbn [bind].
    apply rb_iter_safe; [exact W1|].
    intros a s _ Ws. destruct a as [c|c]; cbn [rb_run_action]; [apply IH; auto|].
    destruct (rb_valid n c) eqn:Vc; cbn [andb]; [|exact Ws].
    destruct (is_coll c); [|exact Ws]. apply safe_sc; auto.
  Qed.

  Lemma wf_st0 : wf (rb_st0 n).
  Proof. split; cbn; [apply repeat_length|rewrite map_length, seq_length; reflexivity]. Qed.

  Theorem pretty_sort_no_fault fuel roots :
    rb_pretty_sort n children entities before is_coll script fuel roots <> Fault.
  Proof.
    assert (H : rb_safe wf (rb_pretty_sort n children entities before is_coll script fuel roots)).
    { unfold rb_pretty_sort. apply safe_bind.
      - apply rb_iter_safe; [apply wf_st0|]. intros; apply safe_ssi; auto.
      - intros st W. apply rb_iter_safe; [exact W|].
        intros i s Hi Ws. apply rb_in_all_ids in Hi.
        destruct (rb_is_visited s i); [exact Ws|].
        destruct (assign_ok i s Ws Hi) as (s' & -> & W' & _). exact W'. }
    intros E. rewrite E in H. exact H.
  Qed.

  (* ------------------------------------------------------------------------------------------ *)
  (* totality for EVERY graph and every script: each recursive call marks a so far unvisited block
     before it recurses, so the nesting depth is bounded by the number of unvisited blocks *)
  Definition need (st : rb_sstate) (p : N) : nat :=
    (unv st + (if rb_is_visited st p then 1 else 0))%nat.

  Definition post (st : rb_sstate) (r : res rb_sstate) : Prop :=
    exists st', r = Ok st' /\ wf st' /\ mono st st'.

  Lemma total_call f cond c s :
    (forall p st, wf st -> rb_valid n p = true -> (need st p < f)%nat -> post st (sc f p st)) ->
    wf s -> (unv s < f)%nat -> post s (rb_call n (sc f) cond c s).
  Proof.
    intros IH W Hb. unfold rb_call.
    destruct (rb_valid n c) eqn:V; cbn [andb]; [|exists s; auto using mono_refl].
    destruct (rb_is_visited s c) eqn:Vis; cbn [negb andb]; [exists s; auto using mono_refl|].
    destruct (cond c) eqn:C; [|exists s; auto using mono_refl].
    apply IH; auto. unfold need. rewrite Vis. lia.
  Qed.

  Lemma total_loop f cond l st0 :
    (forall p st, wf st -> rb_valid n p = true -> (need st p < f)%nat -> post st (sc f p st)) ->
    wf st0 -> (unv st0 < f)%nat -> post st0 (rb_iter (rb_call n (sc f) cond) l st0).
  Proof.
    intros IH W0 Hb.
    destruct (rb_iter_inv (fun s => wf s /\ mono st0 s) (rb_call n (sc f) cond) l st0)
      as (st1 & E1 & W1 & M1); [split; auto using mono_refl| |exists st1; auto].
    intros c s _ [Ws Hm].
    pose proof (mono_unv st0 s W0 Ws Hm) as Hu.
    destruct (total_call f cond c s IH Ws ltac:(lia)) as (s' & E & Ws' & Hm').
    exists s'. split; [exact E|]. split; [exact Ws'|]. eapply mono_trans; eauto.
  Qed.

  Lemma total_both : forall fuel,
    (forall p st, wf st -> rb_valid n p = true -> (need st p < fuel)%nat -> post st (sc fuel p st)) /\
    (forall i st, wf st -> (unv st + 1 < fuel)%nat -> post st (ssi fuel i st)).
  Proof.
    induction fuel as [|f [IHsc IHssi]]; [split; intros; lia|].
    assert (Hsc : forall p st, wf st -> rb_valid n p = true -> (need st p < S f)%nat -> post st (sc (S f) p st)).
    { intros p st W V Hneed. cbn [rb_sort_collision].
      (* the insertion on entry *)
      assert (H0 : exists st0, (if negb (rb_is_visited st p) then rb_mark p st else Ok st) = Ok st0 /\
                               wf st0 /\ mono st st0 /\ (unv st0 < f)%nat).
      { unfold need in Hneed. destruct (rb_is_visited st p) eqn:Vp; cbn [negb].
        - exists st. split; [reflexivity|]. split; [exact W|]. split; [apply mono_refl|lia].
        - destruct (mark_ok p st W (valid_lt p V)) as (st0 & E0 & W0 & M0 & V0).
          exists st0. split; [exact E0|]. split; [exact W0|]. split; [exact M0|].
          pose proof (mono_unv_strict st st0 p W W0 M0 (valid_lt p V) Vp V0). lia. }
      destruct H0 as (st0 & -> & W0 & M0 & Hb0). cbn [bind].
      destruct (total_loop f (fun _ => true) (entities p) st0 IHsc W0 Hb0) as (st1 & -> & W1 & M1). cbn [bind].
      pose proof (mono_unv st0 st1 W0 W1 M1) as Hu1.
      destruct (total_loop f before (children p) st1 IHsc W1 ltac:(lia)) as (st2 & -> & W2 & M2). cbn [bind].
      pose proof (mono_unv st1 st2 W1 W2 M2) as Hu2.
      assert (H3 : exists st3, (if negb (rb_is_visited st p) then rb_set_index p st2 else Ok st2) = Ok st3 /\
                               wf st3 /\ mono st2 st3).
      { destruct (negb (rb_is_visited st p)); [|exists st2; auto using mono_refl].
        destruct (set_index_ok p st2 W2 (valid_lt p V)) as (st3 & E3 & W3 & M3). eauto. }
      destruct H3 as (st3 & -> & W3 & M3). cbn [bind].
      pose proof (mono_unv st2 st3 W2 W3 M3) as Hu3.
      destruct (total_loop f (fun c => negb (before c)) (children p) st3 IHsc W3 ltac:(lia)) as (st4 & -> & W4 & M4).
      exists st4. split; [reflexivity|]. split; [exact W4|].
      eapply mono_trans; [exact M0|]. eapply mono_trans; [exact M1|]. eapply mono_trans; [exact M2|].
      eapply mono_trans; eauto. }
    split; [exact Hsc|].
    intros i st W Hf. cbn [rb_set_sort_indices].
    destruct (rb_valid n i) eqn:V; cbn [negb]; [|exists st; auto using mono_refl].
    destruct (rb_is_visited st i) eqn:Vis; [exists st; auto using mono_refl|].
    destruct (is_coll i).
    { apply IHsc; auto. unfold need. rewrite Vis. lia. }
    destruct (assign_ok i st W (valid_lt i V)) as (st1 & -> & W1 & M1 & V1 & _). cbn [bind].
    assert (Hu1 : (unv st1 < unv st)%nat) by (apply mono_unv_strict with (p := i); auto using valid_lt).
    destruct (rb_iter_inv (fun s => wf s /\ mono st1 s)
                (rb_run_action n is_coll (ssi f) (sc f)) (script i) st1) as (st2 & E2 & W2 & M2);
      [split; auto using mono_refl| |].
    { intros a s _ [Ws Hm].
      pose proof (mono_unv st1 s W1 Ws Hm) as Hu.
      destruct a as [c|c]; cbn [rb_run_action].
      - destruct (IHssi c s Ws) as (s' & E & Ws' & Hm'); [lia|].
        exists s'. split; [exact E|]. split; [exact Ws'|]. eapply mono_trans; eauto.
      - destruct (rb_valid n c) eqn:Vc; cbn [andb]; [|exists s; auto].
        destruct (is_coll c); [|exists s; auto].
        destruct (IHsc c s Ws Vc) as (s' & E & Ws' & Hm').
        + unfold need. destruct (rb_is_visited s c); lia.
        + exists s'. split; [exact E|]. split; [exact Ws'|]. eapply mono_trans; eauto. }
    exists st2. split; [exact E2|]. split; [exact W2|]. eapply mono_trans; eauto.
  Qed.

  (* PrettySortBlocks terminates within fuel numBlocks + 2, for every graph *)
  Theorem pretty_sort_total roots :
    exists st, rb_pretty_sort n children entities before is_coll script (S (S (N.to_nat n))) roots = Ok st /\ wf st.
  Proof.
    unfold rb_pretty_sort.
    destruct (rb_iter_inv wf (ssi (S (S (N.to_nat n)))) roots (rb_st0 n)) as (st1 & E1 & W1);
      [apply wf_st0| |].
    { intros i s _ Ws.
      destruct (proj2 (total_both (S (S (N.to_nat n)))) i s Ws) as (s' & E & Ws' & _).
      - pose proof (unv_le_n s Ws). lia.
      - eauto. }
    rewrite E1. cbn [bind].
    apply rb_iter_inv; [exact W1|].
    intros i s Hi Ws. apply rb_in_all_ids in Hi.
    destruct (rb_is_visited s i); [eauto|].
    destruct (assign_ok i s Ws Hi) as (s' & E & W' & _). eauto.
  Qed.

  (* SortCollision alone: any entry point, fuel = unvisited blocks + 2 *)
  Theorem sort_collision_total p st : wf st -> rb_valid n p = true ->
    exists st', sc (S (S (unv st))) p st = Ok st' /\ wf st'.
  Proof.
    intros W V. destruct (proj1 (total_both (S (S (unv st)))) p st W V) as (st' & E & W' & _).
    - unfold need. destruct (rb_is_visited st p); lia.
    - eauto.
  Qed.
End SorterProofs.
