(* All extraction happens here (compiled from /verif/ocaml so model.ml lands there).
   Only ExtrOcamlBasic is used: bool, option, prod, list, unit, sumbool map to OCaml's;
   nat, positive, N, Z stay the extracted inductive types. No Extract Constant directives. *)
From Coq Require Extraction.
From Coq Require Import ExtrOcamlBasic.
From NiflyVerif Require Import Res UtilModel UtilSpec.

Extraction Language OCaml.
Extraction "model.ml"
  N.add N.mul N.pow N.compare N.div N.modulo Z.add Z.mul Z.compare Z.opp N.of_nat N.to_nat Z.of_N Z.to_N
  erase_model insert_model collapse_model expand_model apply_map_tris_model strips_model
  max_tri_index
  erase_spec collapse_spec expand_spec apply_map_spec strips_spec.
