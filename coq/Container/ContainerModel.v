(* Hand model of the container layer of nifly:
     NiString::Read/Write            src/BasicTypes.cpp:56-110
     NiStringRef::Read/Write         src/BasicTypes.cpp:124-153
     string table functions          src/BasicTypes.cpp:459-547
     NiHeader::Get / NiHeader::Put   src/BasicTypes.cpp:564-770
     NiUnknown                       src/BasicTypes.cpp:773-791
     NifFile::Load block loop        src/NifFile.cpp:185-239
     NifFile::Save                   src/NifFile.cpp:1452-1494
   Bytes are [N] (< 256), byte strings [list N], integers little-endian of explicit width.
   A stream read that runs past the end of the input is [Fault] (the C++ sets failbit and carries
   on with stale values; truncated inputs belong to another property). *)
From NiflyVerif Require Export Res.
Local Open Scope N_scope.

Definition cNPOS : N := 4294967295.

(* ------------------------------------------------------------------------------------------- *)
(* primitive transfers                                                                          *)

(* operator<< of an unsigned integer of [w] bytes *)
Fixpoint le_bytes (w : nat) (x : N) : list N :=
  match w with O => [] | S w' => (x mod 256) :: le_bytes w' (x / 256) end.

Fixpoint le_val (l : list N) : N :=
  match l with [] => 0 | b :: r => b + 256 * le_val r end.

(* stream.read(ptr, n): the next [n] bytes, None when the input is shorter *)
Fixpoint take_n (s : list N) (n : N) : option (list N * list N) :=
  if n =? 0 then Some ([], s)
  else match s with
       | [] => None
       | b :: r => match take_n r (n - 1) with
                   | Some (a, r') => Some (b :: a, r')
                   | None => None
                   end
       end.

(* operator>> of an unsigned integer of [w] bytes *)
Definition rd_uint (w : nat) (s : list N) : res (N * list N) :=
  match take_n s (N.of_nat w) with
  | Some (a, r) => Ok (le_val a, r)
  | None => Fault
  end.

(* std::string assigned from a char buffer: cut at the first NUL byte *)
Fixpoint cstr (l : list N) : list N :=
  match l with
  | [] => []
  | b :: r => if b =? 0 then [] else b :: cstr r
  end.

(* ---- NiString (BasicTypes.cpp:56-121), size prefix of w = 1, 2 or 4 bytes ----
   Read: size, that many bytes into a zero-terminated buffer, then [str = buf.get()].
   With w = 4 and size 0xFFFFFFFF the expression [bigSize + 1] wraps to 0: a zero-length buffer is
   read into (undefined) -> Fault. *)
Definition rd_nistring (w : nat) (s : list N) : res (list N * list N) :=
  bind (rd_uint w s) (fun nr =>
    let '(n, r) := nr in
    if (Nat.eqb w 4 && (n =? cNPOS))%bool then Fault
    else match take_n r n with
         | Some (a, r') => Ok (cstr a, r')
         | None => Fault
         end).

(* Write: the string is cut in place to the longest one the size prefix can express (the size
   counts the terminator when nullOutput is set): [maxLength = nullOutput ? max - 1 : max;
   if (str.length() > maxLength) str.resize(maxLength); stream << uintW(length (+ 1));
   stream.write(str); if (nullOutput) stream << uint8_t(0)].
   Returns the bytes and the string as it is left in memory. *)
Definition wr_nistring (w : nat) (null_out : bool) (str : list N) : list N * list N :=
  let max_size := 256 ^ N.of_nat w - 1 in
  let max_len := if null_out then max_size - 1 else max_size in
  let str' := if max_len <? vlen str then firstn (N.to_nat max_len) str else str in
  let sz := if null_out then vlen str' + 1 else vlen str' in
  (le_bytes w sz ++ str' ++ (if null_out then [0] else []), str').

(* ---- NiStringRef (BasicTypes.cpp:124-153): (index, str) ---- *)
Definition V20_1_0_3 : N := 0x14010003.

Definition rd_stringref (file : N) (s : list N) : res ((N * list N) * list N) :=
  if file <? V20_1_0_3 then
    bind (rd_uint 4 s) (fun nr =>
      let '(sz, r) := nr in
      if sz <? 2049 then
        match take_n r sz with
        | Some (a, r') => Ok ((cNPOS, cstr a), r')
        | None => Fault
        end
      else Ok ((cNPOS, []), r))        (* nothing is read: the stream is NOT advanced *)
  else bind (rd_uint 4 s) (fun nr => let '(i, r) := nr in Ok ((i, []), r)).

Definition wr_stringref (file : N) (x : N * list N) : list N * (N * list N) :=
  if file <? V20_1_0_3 then
    let sz := vlen (snd x) mod 256 ^ 4 in
    let str' := firstn (N.to_nat sz) (snd x) in
    (le_bytes 4 sz ++ str', (fst x, str'))
  else (le_bytes 4 (fst x), x).

(* ------------------------------------------------------------------------------------------- *)
(* versions (include/BasicTypes.hpp:68-198)                                                     *)

Record nifver := mkVer { v_file : N; v_user : N; v_stream : N }.

Definition V3_1 : N := 0x03010000.
Definition V5_0_0_1 : N := 0x05000001.
Definition V5_0_0_6 : N := 0x05000006.
Definition V10_0_0_0 : N := 0x0A000000.
Definition V10_0_1_0 : N := 0x0A000100.
Definition V10_0_1_8 : N := 0x0A000108.
Definition V10_1_0_106 : N := 0x0A01006A.
Definition V10_2_0_0 : N := 0x0A020000.
Definition V20_0_0_3 : N := 0x14000003.
Definition V20_0_0_4 : N := 0x14000004.
Definition V20_0_0_5 : N := 0x14000005.
Definition V20_1_0_1 : N := 0x14010001.
Definition V20_2_0_5 : N := 0x14020005.
Definition V20_2_0_7 : N := 0x14020007.
Definition V30_0_0_2 : N := 0x1E000002.

Definition is_ob (v : nifver) : bool :=
  ((((v_file v =? V10_1_0_106) || (v_file v =? V10_2_0_0)) && (3 <=? v_user v) && (v_user v <? 11))
   || ((v_file v =? V20_0_0_4) && ((v_user v =? 10) || (v_user v =? 11)))
   || ((v_file v =? V20_0_0_5) && (v_user v =? 11)))%bool.
Definition is_bethesda (v : nifver) : bool :=
  (((v_file v =? V20_2_0_7) && (11 <=? v_user v)) || is_ob v)%bool.
Definition is_special (v : nifver) : bool := ((v_file v =? V10_0_1_0) && (v_user v =? 0))%bool.
Definition is_fo3 v := ((v_file v =? V20_2_0_7) && (11 <? v_stream v) && (v_stream v <? 83))%bool.
Definition is_sk v := ((v_file v =? V20_2_0_7) && (v_stream v =? 83))%bool.
Definition is_sse v := ((v_file v =? V20_2_0_7) && (v_stream v =? 100))%bool.
Definition is_fo4 v := ((v_file v =? V20_2_0_7) && (130 <=? v_stream v) && (v_stream v <=? 139))%bool.
Definition is_fo76 v := ((v_file v =? V20_2_0_7) && (v_stream v =? 155))%bool.
Definition is_sf v := ((v_file v =? V20_2_0_7) && (172 <=? v_stream v) && (v_stream v <=? 173))%bool.
(* the test of NifFile::Load (NifFile.cpp:200) *)
Definition supported (v : nifver) : bool :=
  (is_ob v || is_fo3 v || is_sk v || is_sse v || is_fo4 v || is_fo76 v || is_sf v || is_special v)%bool.

(* ------------------------------------------------------------------------------------------- *)
(* the version line                                                                             *)

Module StrConst.
  Import String Ascii.
  Definition bytes_of (s : string) : list N := map N_of_ascii (list_ascii_of_string s).
  Definition s_gamebryo : list N := Eval vm_compute in bytes_of "Gamebryo File Format".
  Definition s_netimmerse : list N := Eval vm_compute in bytes_of "NetImmerse File Format".
  Definition s_nds : list N := Eval vm_compute in bytes_of "NDSNIF....@....@....".
  Definition s_verstring : list N := Eval vm_compute in bytes_of ", Version ".
End StrConst.
Export StrConst.

(* std::to_string of a byte *)
Definition dec_byte (b : N) : list N :=
  if b <? 10 then [48 + b]
  else if b <? 100 then [48 + b / 10; 48 + b mod 10]
  else [48 + b / 100; 48 + (b / 10) mod 10; 48 + b mod 10].

(* NiVersion::SetFile for fileVer > V3_1 and nds = 0: the text of the first line *)
Definition ver_text (file : N) : list N :=
  (if file <? V10_0_0_0 then s_netimmerse else s_gamebryo) ++ s_verstring
  ++ dec_byte ((file / 16777216) mod 256) ++ [46] ++ dec_byte ((file / 65536) mod 256) ++ [46]
  ++ dec_byte ((file / 256) mod 256) ++ [46] ++ dec_byte (file mod 256).

(* stream.getline(buf, 128): up to 127 characters and the line feed *)
Fixpoint split_line (fuel : nat) (s : list N) : option (list N * list N) :=
  match fuel with
  | O => None
  | S f => match s with
           | [] => None
           | b :: r => if b =? 10 then Some ([], r)
                       else match split_line f r with
                            | Some (l, r') => Some (b :: l, r')
                            | None => None
                            end
           end
  end.

Fixpoint strip_prefix (p s : list N) : option (list N) :=
  match p with
  | [] => Some s
  | a :: p' => match s with
               | b :: s' => if a =? b then strip_prefix p' s' else None
               | [] => None
               end
  end.

(* strstr(s, p): the text behind the first occurrence of p *)
Fixpoint find_after (p s : list N) : option (list N) :=
  match strip_prefix p s with
  | Some r => Some r
  | None => match s with [] => None | _ :: s' => find_after p s' end
  end.

Definition is_digit (c : N) : bool := ((48 <=? c) && (c <=? 57))%bool.

(* one regex_search of "25[0-5]|2[0-4][0-9]|1[0-9][0-9]|[1-9]?[0-9]" (ordered alternation, leftmost
   match): value of the match and the suffix *)
Definition match_num (c0 : N) (t0 : list N) : N * list N :=
  match t0 with
  | c1 :: t1 =>
    if is_digit c1 then
      match t1 with
      | c2 :: t2 =>
        if (is_digit c2 && (((c0 =? 50) && (c1 =? 53) && (c2 <=? 53)) || ((c0 =? 50) && (c1 <=? 52)) || (c0 =? 49)))%bool
        then (100 * (c0 - 48) + 10 * (c1 - 48) + (c2 - 48), t2)
        else if c0 =? 48 then (0, t0) else (10 * (c0 - 48) + (c1 - 48), t1)
      | [] => if c0 =? 48 then (0, t0) else (10 * (c0 - 48) + (c1 - 48), t1)
      end
    else (c0 - 48, t0)
  | [] => (c0 - 48, t0)
  end.

Fixpoint next_num (s : list N) : option (N * list N) :=
  match s with
  | [] => None
  | c0 :: t0 => if is_digit c0 then Some (match_num c0 t0) else next_num t0
  end.

(* while (regex_search(...) && m < 4) v[m++] = stoi(match) *)
Fixpoint parse_nums (m : nat) (s : list N) : list N :=
  match m with
  | O => []
  | S m' => match next_num s with
            | Some (x, r) => x :: parse_nums m' r
            | None => []
            end
  end.

Definition to_file (l : list N) : N :=
  nth 0 l 0 * 16777216 + nth 1 l 0 * 65536 + nth 2 l 0 * 256 + nth 3 l 0.

(* what NiHeader::Get derives from the first line: None = not a NIF (Load returns 1),
   Some (isNDS, version number of the text) *)
Definition parse_ver_line (line0 : list N) : option (bool * N) :=
  let line := cstr line0 in
  let net := match find_after s_netimmerse line with Some _ => true | None => false end in
  let gam := match find_after s_gamebryo line with Some _ => true | None => false end in
  let nds := match find_after s_nds line with Some _ => true | None => false end in
  if (negb net && negb gam && negb nds)%bool then None
  else Some (nds, match find_after s_verstring line with
                  | Some r => to_file (parse_nums 4 r)
                  | None => 4294967295        (* UNKNOWN *)
                  end).

(* the first line of a file as written by Put is understood by Get as a post-3.1, non-NDS file *)
Definition line_ok (file : N) : bool :=
  match split_line 128 (ver_text file ++ [10]) with
  | Some (l, []) => match parse_ver_line l with
                    | Some (false, tv) => V3_1 <? tv
                    | _ => false
                    end
  | _ => false
  end.

(* ------------------------------------------------------------------------------------------- *)
(* header tables (the members of NiHeader that Get/Put transfer)                                *)

Record tables := mkTables {
  h_ver : nifver;
  h_endian : N;
  h_nblocks : N;                 (* numBlocks *)
  h_creator : list N;
  h_unkint : N;                  (* unkInt1 *)
  h_exp1 : list N; h_exp2 : list N; h_exp3 : list N;
  h_embed_size : N; h_embed : list N;
  h_ntypes : N;                  (* numBlockTypes (uint16_t) *)
  h_types : list (list N);       (* blockTypes *)
  h_tidx : list N;               (* blockTypeIndices (uint16_t) *)
  h_sizes : list N;              (* blockSizes *)
  h_nstrings : N; h_maxlen : N;
  h_strings : list (list N);
  h_ngroups : N; h_groups : list N
}.

(* for (i = 0; i < n; i++) read item : the counter runs down here; fuel = bytes left + 1 *)
Fixpoint rd_items {A} (rd : list N -> res (A * list N)) (fuel : nat) (n : N) (s : list N)
  : res (list A * list N) :=
  if n =? 0 then Ok ([], s)
  else match fuel with
       | O => OutOfFuel
       | S f => bind (rd s) (fun xr => let '(x, r) := xr in
                bind (rd_items rd f (n - 1) r) (fun xsr => let '(xs, r') := xsr in Ok (x :: xs, r')))
       end.
Definition rd_tab {A} (rd : list N -> res (A * list N)) (n : N) (s : list N) : res (list A * list N) :=
  rd_items rd (S (length s)) n s.

(* for (i = 0; i < n; i++) write v[i] : Fault when n exceeds the vector *)
Fixpoint wr_items {A} (wr : A -> list N) (v : list A) (fuel : nat) (i n : N) : res (list N) :=
  if i <? n then
    match fuel with
    | O => OutOfFuel
    | S f => match vget v i with
             | None => Fault
             | Some x => bind (wr_items wr v f (i + 1) n) (fun r => Ok (wr x ++ r))
             end
    end
  else Ok [].
Definition wr_tab {A} (wr : A -> list N) (v : list A) (n : N) : res (list N) :=
  wr_items wr v (S (length v)) 0 n.

Definition wr_str4 (s : list N) : list N := fst (wr_nistring 4 false s).
Definition ge (a b : N) : bool := b <=? a.

(* ---- NiHeader::Get (BasicTypes.cpp:564-687) ----
   Branches not modelled (Fault): NDS files and files up to version 3.1 (copyright lines); Load
   rejects both with code 2 anyway. *)
Definition get_beth (v : nifver) (s : list N) : res ((N * list N * N * list N * list N * list N) * list N) :=
  bind (rd_uint 4 s) (fun x => let '(vstream, s) := x in
  bind (rd_nistring 1 s) (fun x => let '(creator, s) := x in
  bind (if 130 <? vstream then rd_uint 4 s else Ok (0, s)) (fun x => let '(unk, s) := x in
  bind (rd_nistring 1 s) (fun x => let '(e1, s) := x in
  bind (rd_nistring 1 s) (fun x => let '(e2, s) := x in
  bind (if vstream =? 130 then rd_nistring 1 s else Ok ([], s)) (fun x => let '(e3, s) := x in
  Ok ((vstream, creator, unk, e1, e2, e3), s))))))).

Definition get_hdr (s0 : list N) : res (tables * list N) :=
  match split_line 128 s0 with
  | None => Fault
  | Some (line, s) =>
    match parse_ver_line line with
    | None => Fault                                  (* not valid: Load returns 1 before using it *)
    | Some (true, _) => Fault                        (* NDS: not modelled *)
    | Some (false, tv) =>
      if negb (V3_1 <? tv) then Fault                (* copyright lines: not modelled *)
      else
      bind (rd_uint 4 s) (fun x => let '(file, s) := x in
      bind (if ge file V20_0_0_3 then rd_uint 1 s else Ok (1, s)) (fun x => let '(endian, s) := x in
      bind (if ge file V10_0_1_8 then rd_uint 4 s else Ok (0, s)) (fun x => let '(user, s) := x in
      bind (rd_uint 4 s) (fun x => let '(nblocks, s) := x in
      bind (if is_bethesda (mkVer file user 0)
            then bind (get_beth (mkVer file user 0) s) (fun y => let '(b, s) := y in Ok ((b, (0, [])), s))
            else if ge file V30_0_0_2
                 then bind (rd_uint 4 s) (fun y => let '(n, s) := y in
                      bind (rd_tab (rd_uint 1) n s) (fun z => let '(e, s) := z in
                      Ok (((0, [], 0, [], [], []), (n, e)), s)))
                 else Ok (((0, [], 0, [], [], []), (0, [])), s)) (fun x =>
        let '((vstream, creator, unk, e1, e2, e3), (esz, emb), s) := x in
      bind (if ge file V5_0_0_1
            then bind (rd_uint 2 s) (fun y => let '(nt, s) := y in
                 bind (rd_tab (rd_nistring 4) nt s) (fun y => let '(ty, s) := y in
                 bind (rd_tab (rd_uint 2) nblocks s) (fun y => let '(ti, s) := y in
                 Ok ((nt, ty, ti), s))))
            else Ok ((0, [], []), s)) (fun x => let '((nt, ty, ti), s) := x in
      bind (if ge file V20_2_0_5 then rd_tab (rd_uint 4) nblocks s else Ok ([], s)) (fun x => let '(sz, s) := x in
      bind (if ge file V20_1_0_1
            then bind (rd_uint 4 s) (fun y => let '(ns, s) := y in
                 bind (rd_uint 4 s) (fun y => let '(ml, s) := y in
                 bind (rd_tab (rd_nistring 4) ns s) (fun y => let '(st, s) := y in
                 Ok ((ns, ml, st), s))))
            else Ok ((0, 0, []), s)) (fun x => let '((ns, ml, st), s) := x in
      bind (if ge file V5_0_0_6
            then bind (rd_uint 4 s) (fun y => let '(ng, s) := y in
                 bind (rd_tab (rd_uint 4) ng s) (fun y => let '(g, s) := y in Ok ((ng, g), s)))
            else Ok ((0, []), s)) (fun x => let '((ng, g), s) := x in
      Ok (mkTables (mkVer file user vstream) endian nblocks creator unk e1 e2 e3 esz emb
                   nt ty ti sz ns ml st ng g, s))))))))))
    end
  end.

(* ---- NiHeader::Put (BasicTypes.cpp:689-770) ----
   The output comes in three parts (before the size table, the size table, behind it) so that
   Save can patch the middle one; [po_tables] is the header as Put leaves it in memory (the
   1-byte-sized strings are truncated in place). *)
Record put_out := mkPut { po_pre : list N; po_sizes : list N; po_post : list N; po_tables : tables }.

Definition po_bytes (p : put_out) : list N := po_pre p ++ po_sizes p ++ po_post p.
(* blockSizePos: 0 = default-constructed streampos = "not set" *)
Definition po_size_pos (p : put_out) : N :=
  if ge (v_file (h_ver (po_tables p))) V20_2_0_5 then vlen (po_pre p) else 0.

Definition put_hdr (t : tables) : res put_out :=
  let v := h_ver t in
  let file := v_file v in
  if negb (V3_1 <? file) then Fault
  else
  let a := ver_text file ++ [10] ++ le_bytes 4 file
           ++ (if ge file V20_0_0_3 then le_bytes 1 (h_endian t) else [])
           ++ (if ge file V10_0_1_8 then le_bytes 4 (v_user v) else [])
           ++ le_bytes 4 (h_nblocks t) in
  let wc := wr_nistring 1 true (h_creator t) in
  let w1 := wr_nistring 1 true (h_exp1 t) in
  let w2 := wr_nistring 1 true (h_exp2 t) in
  let w3 := wr_nistring 1 true (h_exp3 t) in
  bind (if is_bethesda v
        then Ok (le_bytes 4 (v_stream v) ++ fst wc
                 ++ (if 130 <? v_stream v then le_bytes 4 (h_unkint t) else [])
                 ++ fst w1 ++ fst w2 ++ (if v_stream v =? 130 then fst w3 else []))
        else if ge file V30_0_0_2
             then bind (wr_tab (le_bytes 1) (h_embed t) (h_embed_size t)) (fun e =>
                  Ok (le_bytes 4 (h_embed_size t) ++ e))
             else Ok []) (fun b =>
  bind (if ge file V5_0_0_1
        then bind (wr_tab wr_str4 (h_types t) (h_ntypes t)) (fun ty =>
             bind (wr_tab (le_bytes 2) (h_tidx t) (h_nblocks t)) (fun ti =>
             Ok (le_bytes 2 (h_ntypes t) ++ ty ++ ti)))
        else Ok []) (fun c =>
  bind (if ge file V20_2_0_5 then wr_tab (le_bytes 4) (h_sizes t) (h_nblocks t) else Ok []) (fun d =>
  bind (if ge file V20_1_0_1
        then bind (wr_tab wr_str4 (h_strings t) (h_nstrings t)) (fun st =>
             Ok (le_bytes 4 (h_nstrings t) ++ le_bytes 4 (h_maxlen t) ++ st))
        else Ok []) (fun e =>
  bind (if ge file V5_0_0_6
        then bind (wr_tab (le_bytes 4) (h_groups t) (h_ngroups t)) (fun g =>
             Ok (le_bytes 4 (h_ngroups t) ++ g))
        else Ok []) (fun f =>
  let t' := if is_bethesda v
            then mkTables (h_ver t) (h_endian t) (h_nblocks t) (snd wc) (h_unkint t) (snd w1) (snd w2)
                          (if v_stream v =? 130 then snd w3 else h_exp3 t)
                          (h_embed_size t) (h_embed t) (h_ntypes t) (h_types t) (h_tidx t) (h_sizes t)
                          (h_nstrings t) (h_maxlen t) (h_strings t) (h_ngroups t) (h_groups t)
            else t in
  Ok (mkPut (a ++ b ++ c) d (e ++ f) t')))))).

(* ------------------------------------------------------------------------------------------- *)
(* the independent reader: header, then skip sizes[i] bytes per block, then exactly the footer  *)

Definition footer : list N := le_bytes 4 1 ++ le_bytes 4 0.

Fixpoint skip_blocks (sizes : list N) (s : list N) : option (list (list N) * list N) :=
  match sizes with
  | [] => Some ([], s)
  | n :: r => match take_n s n with
              | Some (p, s') => match skip_blocks r s' with
                                | Some (ps, s'') => Some (p :: ps, s'')
                                | None => None
                                end
              | None => None
              end
  end.

Fixpoint bytes_eqb (a b : list N) : bool :=
  match a, b with
  | [], [] => true
  | x :: a', y :: b' => ((x =? y) && bytes_eqb a' b')%bool
  | _, _ => false
  end.

(* tables and the payload slices *)
Definition walkb (s : list N) : option (tables * list (list N)) :=
  match get_hdr s with
  | Ok (t, r) =>
    if negb (ge (v_file (h_ver t)) V20_2_0_5) then None
    else match skip_blocks (h_sizes t) r with
         | Some (ps, tail) => if bytes_eqb tail footer then Some (t, ps) else None
         | None => None
         end
  | _ => None
  end.

Definition walk (s : list N) : option tables :=
  match walkb s with Some (t, _) => Some t | None => None end.

(* ------------------------------------------------------------------------------------------- *)
(* string table (BasicTypes.cpp:459-547)                                                        *)

Fixpoint find_str (i : N) (l : list (list N)) (s : list N) : option N :=
  match l with
  | [] => None
  | x :: r => if bytes_eqb x s then Some i else find_str (i + 1) r s
  end.

(* the three members the string functions touch *)
Record strtab := mkStr { st_strings : list (list N); st_n : N; st_maxlen : N }.

(* AddOrFindStringId: the search runs over strings[0 .. numStrings) *)
Definition add_or_find_string (tb : strtab) (s : list N) (add_empty : bool) : res (strtab * N) :=
  if vlen (st_strings tb) <? st_n tb then Fault
  else match find_str 0 (firstn (N.to_nat (st_n tb)) (st_strings tb)) s with
       | Some i => Ok (tb, i)
       | None =>
         if (negb add_empty && match s with [] => true | _ => false end)%bool then Ok (tb, cNPOS)
         else if cNPOS <=? vlen (st_strings tb) then Ok (tb, cNPOS)
         else let n' := (st_n tb + 1) mod 4294967296 in
              Ok (mkStr (st_strings tb ++ [s]) n' (st_maxlen tb), (n' + 4294967295) mod 4294967296)
       end.

(* UpdateMaxStringLength *)
Definition max_string_len (l : list (list N)) : N :=
  fold_left (fun m s => let len := vlen s mod 4294967296 in if m <? len then len else m) l 0.

(* the string references of one block: (index, str) in GetStringRefs order *)
Definition srefs := list (N * list N).

Fixpoint uhs_refs (tb : strtab) (rs : srefs) : res (strtab * srefs) :=
  match rs with
  | [] => Ok (tb, [])
  | (idx, str) :: r =>
    bind (add_or_find_string tb str (negb (idx =? cNPOS))) (fun x => let '(tb1, id) := x in
    bind (uhs_refs tb1 r) (fun y => let '(tb2, r') := y in Ok (tb2, (id, str) :: r')))
  end.

Fixpoint uhs_blocks (tb : strtab) (bs : list srefs) : res (strtab * list srefs) :=
  match bs with
  | [] => Ok (tb, [])
  | b :: r =>
    bind (uhs_refs tb b) (fun x => let '(tb1, b') := x in
    bind (uhs_blocks tb1 r) (fun y => let '(tb2, r') := y in Ok (tb2, b' :: r')))
  end.

(* UpdateHeaderStrings(hasUnknown) *)
Definition update_header_strings (file : N) (has_unknown : bool) (tb : strtab) (bs : list srefs)
  : res (strtab * list srefs) :=
  let tb1 := if has_unknown then tb else mkStr [] 0 0 in
  if file <? V20_1_0_1 then Ok (tb1, bs)
  else bind (uhs_blocks tb1 bs) (fun x => let '(tb2, bs') := x in
       Ok (mkStr (st_strings tb2) (st_n tb2) (max_string_len (st_strings tb2)), bs')).

(* FillStringRefs *)
Definition get_string_by_id (tb : strtab) (id : N) : res (list N) :=
  if (negb (id =? cNPOS) && (id <? st_n tb))%bool
  then match vget (st_strings tb) id with Some s => Ok s | None => Fault end
  else Ok [].

Fixpoint fill_refs (tb : strtab) (rs : srefs) : res srefs :=
  match rs with
  | [] => Ok []
  | (idx, _) :: r =>
    let idx' := if (negb (idx =? cNPOS) && (st_n tb <=? idx))%bool then idx - st_n tb else idx in
    bind (get_string_by_id tb idx') (fun s =>
    bind (fill_refs tb r) (fun r' => Ok ((idx', s) :: r')))
  end.

Fixpoint fill_blocks (tb : strtab) (bs : list srefs) : res (list srefs) :=
  match bs with
  | [] => Ok []
  | b :: r => bind (fill_refs tb b) (fun b' => bind (fill_blocks tb r) (fun r' => Ok (b' :: r')))
  end.

Definition fill_string_refs (file : N) (tb : strtab) (bs : list srefs) : res (list srefs) :=
  if file <? V20_1_0_1 then Ok bs else fill_blocks tb bs.

Definition tab_of (t : tables) : strtab := mkStr (h_strings t) (h_nstrings t) (h_maxlen t).
Definition set_tab (t : tables) (tb : strtab) : tables :=
  mkTables (h_ver t) (h_endian t) (h_nblocks t) (h_creator t) (h_unkint t) (h_exp1 t) (h_exp2 t) (h_exp3 t)
           (h_embed_size t) (h_embed t) (h_ntypes t) (h_types t) (h_tidx t) (h_sizes t)
           (st_n tb) (st_maxlen tb) (st_strings tb) (h_ngroups t) (h_groups t).
Definition set_sizes (t : tables) (sz : list N) : tables :=
  mkTables (h_ver t) (h_endian t) (h_nblocks t) (h_creator t) (h_unkint t) (h_exp1 t) (h_exp2 t) (h_exp3 t)
           (h_embed_size t) (h_embed t) (h_ntypes t) (h_types t) (h_tidx t) sz
           (h_nstrings t) (h_maxlen t) (h_strings t) (h_ngroups t) (h_groups t).

(* ------------------------------------------------------------------------------------------- *)
(* blocks, Load, Save                                                                           *)

Section Container.
  (* the content of a block of a known type, apart from its string references; its codec and the
     per-block data preparation steps belong to other layers *)
  Variable blk : Type.
  Variable put_blk : tables -> srefs -> blk -> list N.          (* block->Put(stream) *)
  Variable get_blk : tables -> list N -> list N -> res ((srefs * blk) * list N).   (* factory->Load(stream) *)
  Variable known : list N -> bool.                             (* GetFactoryByName(name) != nullptr *)

  Inductive cblock :=
  | CKnown (rs : srefs) (b : blk)
  | CUnknown (data : list N) (bsize : N).      (* NiUnknown: data, blockSize *)

  Record model := mkModel { m_hdr : tables; m_blocks : list cblock; m_has_unknown : bool }.

  (* transformations of known blocks done by PrepareData / FinalizeData / Optimize (they read the
     whole model, they change blocks of known types only), and the two header-level operations
     that hasUnknown switches off *)
  Variable prepare_blk : model -> srefs * blk -> srefs * blk.
  Variable finalize_blk : model -> srefs * blk -> srefs * blk.
  Variable bounds_blk : model -> srefs * blk -> srefs * blk.
  Variable prune : model -> model.             (* DeleteUnreferencedBlocks *)
  Variable sort : model -> model.              (* PrettySortBlocks *)

  Definition map_known (f : srefs * blk -> srefs * blk) (bs : list cblock) : list cblock :=
    map (fun b => match b with
                  | CKnown rs x => let '(rs', x') := f (rs, x) in CKnown rs' x'
                  | CUnknown d n => CUnknown d n
                  end) bs.

  Definition refs_of_block (b : cblock) : srefs := match b with CKnown rs _ => rs | CUnknown _ _ => [] end.
  Definition set_refs (b : cblock) (rs : srefs) : cblock :=
    match b with CKnown _ x => CKnown rs x | CUnknown d n => CUnknown d n end.
  Fixpoint set_all_refs (bs : list cblock) (rss : list srefs) : list cblock :=
    match bs, rss with
    | b :: r, rs :: rr => set_refs b rs :: set_all_refs r rr
    | _, _ => bs
    end.

  (* GetBlockTypeStringById *)
  Definition type_name (t : tables) (i : N) : res (list N) :=
    if (negb (i =? cNPOS) && (i <? h_nblocks t))%bool then
      match vget (h_tidx t) i with
      | None => Fault
      | Some ti => if ti <? h_ntypes t
                   then match vget (h_types t) ti with Some n => Ok n | None => Fault end
                   else Ok []
      end
    else Ok [].

  (* GetBlockSize *)
  Definition block_size (t : tables) (i : N) : N :=
    if ((i <? h_nblocks t) && (i <? vlen (h_sizes t)))%bool
    then match vget (h_sizes t) i with Some n => n | None => cNPOS end
    else cNPOS.

  Inductive load_res := Loaded (m : model) | LoadErr (code : N) | LoadFault.

  (* the block loop of Load (NifFile.cpp:210-227); [consumed] is what each block took *)
  Fixpoint load_blocks (fuel : nat) (t : tables) (i : N) (s : list N) : res (option (list cblock * list N)) :=
    if i <? h_nblocks t then
      match fuel with
      | O => OutOfFuel
      | S f =>
        bind (type_name t i) (fun name =>
        if known name then
          bind (get_blk t name s) (fun x => let '((rs, b), s') := x in
          bind (load_blocks f t (i + 1) s') (fun y =>
            match y with
            | Some (bs, s'') => Ok (Some (CKnown rs b :: bs, s''))
            | None => Ok None
            end))
        else if v_file (h_ver t) <? V20_2_0_5 then Ok None          (* return 3 *)
        else let n := block_size t i in
             match take_n s n with
             | None => Fault
             | Some (d, s') =>
               bind (load_blocks f t (i + 1) s') (fun y =>
                 match y with
                 | Some (bs, s'') => Ok (Some (CUnknown d n :: bs, s''))
                 | None => Ok None
                 end)
             end)
      end
    else Ok (Some ([], s)).

  Definition is_unknown (b : cblock) : bool := match b with CUnknown _ _ => true | _ => false end.

  Definition load (s : list N) : load_res :=
    match split_line 128 s with
    | None => LoadFault
    | Some (line, _) =>
      match parse_ver_line line with
      | None => LoadErr 1
      | Some _ =>
        match get_hdr s with
        | Ok (t, r) =>
          if negb (supported (h_ver t)) then LoadErr 2
          else match load_blocks (S (N.to_nat (h_nblocks t))) t 0 r with
               | Ok None => LoadErr 3
               | Ok (Some (bs, _)) =>
                 (* PrepareData: FillStringRefs, then the per-shape steps *)
                 match fill_string_refs (v_file (h_ver t)) (tab_of t) (map refs_of_block bs) with
                 | Ok rss =>
                   let bs1 := set_all_refs bs rss in
                   let m1 := mkModel t bs1 (existsb is_unknown bs1) in
                   Loaded (mkModel t (map_known (prepare_blk m1) bs1) (m_has_unknown m1))
                 | _ => LoadFault
                 end
               | _ => LoadFault
               end
        | _ => LoadFault
        end
      end
    end.

  (* NiUnknown::Sync on writing *)
  Definition put_block (t : tables) (b : cblock) : res (list N) :=
    match b with
    | CKnown rs x => Ok (put_blk t rs x)
    | CUnknown d n => match d with
                      | [] => Ok []
                      | _ => if n <=? vlen d then Ok (firstn (N.to_nat n) d) else Fault
                      end
    end.

  (* for (i = 0; i < hdr.GetNumBlocks(); i++) blocks[i]->Put(stream) : the payloads *)
  Fixpoint put_blocks (t : tables) (bs : list cblock) (fuel : nat) (i n : N) : res (list (list N)) :=
    if i <? n then
      match fuel with
      | O => OutOfFuel
      | S f => match vget bs i with
               | None => Fault
               | Some b => bind (put_block t b) (fun p =>
                           bind (put_blocks t bs f (i + 1) n) (fun ps => Ok (p :: ps)))
               end
      end
    else Ok [].

  (* file.seekp(pos); write [new] over what is there *)
  Definition patch (pos : N) (new : list N) (file : list N) : list N :=
    firstn (N.to_nat pos) file ++ new ++ skipn (N.to_nat pos + length new) file.

  (* Save from hdr.Put on (NifFile.cpp:1463-1488): bytes and the header left in memory *)
  Definition save_core (m : model) : res (list N * model) :=
    bind (put_hdr (m_hdr m)) (fun po =>
    let t := po_tables po in
    bind (put_blocks t (m_blocks m) (S (length (m_blocks m))) 0 (h_nblocks t)) (fun ps =>
    let file := po_bytes po ++ concat ps ++ footer in
    let file' := if po_size_pos po =? 0 then file
                 else patch (po_size_pos po) (flat_map (fun p => le_bytes 4 (vlen p)) ps) file in
    Ok (file', mkModel t (m_blocks m) (m_has_unknown m)))).

  (* FinalizeData for the versions that can hold unknown blocks (>= 20.2.0.5: the shape loop
     changes blocks of known types in place), then UpdateHeaderStrings(hasUnknown) *)
  Definition finalize (m : model) : res model :=
    let bs1 := map_known (finalize_blk m) (m_blocks m) in
    bind (update_header_strings (v_file (h_ver (m_hdr m))) (m_has_unknown m) (tab_of (m_hdr m))
                                (map refs_of_block bs1)) (fun x =>
      let '(tb, rss) := x in
      Ok (mkModel (set_tab (m_hdr m) tb) (set_all_refs bs1 rss) (m_has_unknown m))).

  (* Optimize: UpdateBounds on every shape, then DeleteUnreferencedBlocks (NifFile.hpp:206-214) *)
  Definition optimize (m : model) : model :=
    let m1 := mkModel (m_hdr m) (map_known (bounds_blk m) (m_blocks m)) (m_has_unknown m) in
    if m_has_unknown m1 then m1 else prune m1.

  (* PrettySortBlocks (NifFile.cpp:633-635) *)
  Definition sort_blocks (m : model) : model := if m_has_unknown m then m else sort m.

  Record save_opts := mkOpts { o_optimize : bool; o_sort : bool }.

  Definition pre_save (o : save_opts) (m : model) : res model :=
    bind (finalize m) (fun m1 =>
    let m2 := if o_optimize o then optimize m1 else m1 in
    Ok (if o_sort o then sort_blocks m2 else m2)).

  Definition save (o : save_opts) (m : model) : res (list N * model) :=
    bind (pre_save o m) save_core.

End Container.
