(* Entry points for extraction: family-unique names (ct_...) over basic types only (numbers, lists,
   pairs, bool, option, res), so that ocaml/d_container.ml never touches a record field or a
   constructor of the model (all families share one extracted OCaml module). Thin wrappers: the
   theorems are about the functions they call. *)
From NiflyVerif Require Import ContainerModel.
Local Open Scope N_scope.

(* header tables, flat: numbers  = [file; user; stream; endian; nblocks; unk; esz; nt; ns; maxlen; ng]
                         strs     = [creator; e1; e2; e3; emb]
                         types, strings
                         lists    = [tidx; sizes; groups] *)
Definition ct_flat : Type := (list N * list (list N)) * (list (list N) * list (list N)) * list (list N).

Definition ct_nth (l : list N) (i : nat) : N := nth i l 0.
Definition ct_nthl {A} (l : list (list A)) (i : nat) : list A := nth i l [].

Definition ct_tables_of (f : ct_flat) : tables :=
  let '((nums, strs), (types, strings), lists) := f in
  mkTables (mkVer (ct_nth nums 0) (ct_nth nums 1) (ct_nth nums 2)) (ct_nth nums 3) (ct_nth nums 4)
           (ct_nthl strs 0) (ct_nth nums 5) (ct_nthl strs 1) (ct_nthl strs 2) (ct_nthl strs 3)
           (ct_nth nums 6) (ct_nthl strs 4) (ct_nth nums 7) types (ct_nthl lists 0) (ct_nthl lists 1)
           (ct_nth nums 8) (ct_nth nums 9) strings (ct_nth nums 10) (ct_nthl lists 2).

Definition ct_tables_to (t : tables) : ct_flat :=
  (([v_file (h_ver t); v_user (h_ver t); v_stream (h_ver t); h_endian t; h_nblocks t; h_unkint t;
     h_embed_size t; h_ntypes t; h_nstrings t; h_maxlen t; h_ngroups t],
    [h_creator t; h_exp1 t; h_exp2 t; h_exp3 t; h_embed t]),
   (h_types t, h_strings t), [h_tidx t; h_sizes t; h_groups t]).

Definition ct_get_hdr (s : list N) : res (ct_flat * list N) :=
  bind (get_hdr s) (fun x => Ok (ct_tables_to (fst x), snd x)).

(* bytes, blockSizePos, header left in memory *)
Definition ct_put_hdr (f : ct_flat) : res ((list N * N) * ct_flat) :=
  bind (put_hdr (ct_tables_of f)) (fun po => Ok ((po_bytes po, po_size_pos po), ct_tables_to (po_tables po))).

(* the independent reader: lengths of the payload slices *)
Definition ct_walk (s : list N) : option (list N) :=
  match walkb s with
  | Some (_, ps) => Some (map (@vlen N) ps)
  | None => None
  end.
Definition ct_walk_ok (s : list N) : bool := match walk s with Some _ => true | None => false end.

Definition ct_wr_nistring (w : N) (null_out : bool) (s : list N) : list N * list N :=
  wr_nistring (N.to_nat w) null_out s.
Definition ct_rd_nistring (w : N) (s : list N) : res (list N * list N) := rd_nistring (N.to_nat w) s.
Definition ct_wr_stringref (file : N) (x : N * list N) : list N * (N * list N) := wr_stringref file x.
Definition ct_rd_stringref (file : N) (s : list N) : res ((N * list N) * list N) := rd_stringref file s.

(* string table as (strings, numStrings, maxStringLen) *)
Definition ct_tab : Type := (list (list N) * N) * N.
Definition ct_tab_of (x : ct_tab) : strtab := mkStr (fst (fst x)) (snd (fst x)) (snd x).
Definition ct_tab_to (tb : strtab) : ct_tab := ((st_strings tb, st_n tb), st_maxlen tb).

Definition ct_update_header_strings (file : N) (hu : bool) (tb : ct_tab) (bs : list srefs) : res (ct_tab * list srefs) :=
  bind (update_header_strings file hu (ct_tab_of tb) bs) (fun x => Ok (ct_tab_to (fst x), snd x)).
Definition ct_fill_string_refs (file : N) (tb : ct_tab) (bs : list srefs) : res (list srefs) :=
  fill_string_refs file (ct_tab_of tb) bs.

(* the block layer instantiated with raw payloads *)
Definition ct_put_raw (t : tables) (rs : srefs) (b : list N) : list N := b.
Definition ct_idb (m : model (list N)) (x : srefs * list N) : srefs * list N := x.
Definition ct_idm (m : model (list N)) : model (list N) := m.

(* Save from hdr.Put on: the header nifly holds + the payloads *)
Definition ct_save_core (f : ct_flat) (ps : list (list N)) (hu : bool) : res (list N) :=
  bind (save_core (list N) ct_put_raw (mkModel _ (ct_tables_of f) (map (fun p => CKnown _ [] p) ps) hu))
       (fun x => Ok (fst x)).

(* a file none of whose block types has a factory: Load, then Save with the options.
   status 0 = saved (bytes, hasUnknown); 1..3 = Load's error code; 10 = load fault; 11 = save fault *)
Definition ct_load_save_unknown (s : list N) (optimize sort : bool) : N * (list N * bool) :=
  match load (list N) (fun _ _ _ => Fault) (fun _ => false) ct_idb s with
  | Loaded _ m =>
    match save (list N) ct_put_raw ct_idb ct_idb ct_idm ct_idm (mkOpts optimize sort) m with
    | Ok (bytes, _) => (0, (bytes, m_has_unknown _ m))
    | _ => (11, ([], m_has_unknown _ m))
    end
  | LoadErr _ k => (k, ([], false))
  | LoadFault _ => (10, ([], false))
  end.

Definition ct_line_ok (file : N) : bool := line_ok file.
Definition ct_supported (file user stream : N) : bool := supported (mkVer file user stream).
