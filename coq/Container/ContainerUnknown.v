(* C03: blocks of unknown type go through Load and Save untouched. *)
From NiflyVerif Require Import ContainerModel ContainerBase ContainerHdr ContainerWalk ContainerStrings.
From Coq Require Import ZifyBool ZifyNat ZifyN.
Local Open Scope N_scope.

Lemma get_hdr_line : forall s t r, get_hdr s = Ok (t, r) ->
  exists line rest x, split_line 128 s = Some (line, rest) /\ parse_ver_line line = Some x.
Proof.
  intros s t r H. unfold get_hdr in H.
  destruct (split_line 128 s) as [[line rest]|] eqn:E1; [|discriminate].
  destruct (parse_ver_line line) as [x|] eqn:E2; [|discriminate].
  exists line, rest, x. split; [reflexivity|assumption].
Qed.

Lemma wf_set_tab : forall t tb, wf_tables t ->
  ge (v_file (h_ver t)) V20_1_0_1 = true ->
  st_n tb = vlen (st_strings tb) -> u32 (st_n tb) -> u32 (st_maxlen tb) -> Forall str4_ok (st_strings tb) ->
  wf_tables (set_tab t tb).
Proof.
  intros t tb W G A B C D. destruct W.
  constructor; unfold set_tab;
    cbn [h_ver h_endian h_nblocks h_creator h_unkint h_exp1 h_exp2 h_exp3 h_embed_size h_embed
         h_ntypes h_types h_tidx h_sizes h_nstrings h_maxlen h_strings h_ngroups h_groups]; try assumption.
  rewrite G. repeat split; assumption.
Qed.

Lemma max_string_len_u32 : forall l, u32 (max_string_len l).
Proof.
  intros l. destruct (max_string_len_spec l) as [_ [[_ ->]|[s [_ ->]]]]; unfold u32; [lia|].
  unfold slen. apply N.mod_lt. lia.
Qed.

  Lemma block_size_at : forall t (pre : list (list N)) p ps,
    h_sizes t = map (@vlen N) (pre ++ p :: ps) -> vlen (pre ++ p :: ps) = h_nblocks t ->
    block_size t (vlen pre) = vlen p.
  Proof.
    intros t pre p ps Hs Hn. unfold block_size.
    assert (L : vlen (h_sizes t) = h_nblocks t) by (rewrite Hs; unfold vlen in *; rewrite map_length; assumption).
    rewrite L. rewrite <- Hn. rewrite vlen_app, vlen_cons.
    destruct (vlen pre <? vlen pre + (vlen ps + 1)) eqn:E; [|lia]. cbn [andb].
    rewrite Hs. unfold vget. replace (N.to_nat (vlen pre)) with (length pre) by (unfold vlen; lia). rewrite map_app.
    rewrite nth_error_app2 by (rewrite map_length; lia). rewrite map_length, Nat.sub_diag. reflexivity.
  Qed.

  (* ---- FillStringRefs never faults on a table whose counter is in step ---- *)
  Lemma fill_refs_total : forall tb rs, st_n tb = vlen (st_strings tb) -> exists rs', fill_refs tb rs = Ok rs'.
  Proof.
    intros tb rs I. induction rs as [|[idx str] rs [rs' IH]]; [exists []; reflexivity|].
    cbn [fill_refs]. set (idx' := if (negb (idx =? cNPOS) && (st_n tb <=? idx))%bool then idx - st_n tb else idx).
    assert (G : exists x, get_string_by_id tb idx' = Ok x).
    { unfold get_string_by_id. destruct (negb (idx' =? cNPOS) && (idx' <? st_n tb))%bool eqn:E; [|eauto].
      destruct (vget (st_strings tb) idx') eqn:V; [eauto|].
      exfalso. unfold vget in V. apply nth_error_None in V. unfold vlen in I. lia. }
    destruct G as [x ->]. cbn [bind]. rewrite IH. cbn [bind]. eauto.
  Qed.
  Lemma fill_blocks_total : forall tb bs, st_n tb = vlen (st_strings tb) -> exists bs', fill_blocks tb bs = Ok bs'.
  Proof.
    intros tb bs I. induction bs as [|b bs [bs' IH]]; [exists []; reflexivity|].
    cbn [fill_blocks]. destruct (fill_refs_total tb b I) as [b' ->]. cbn [bind]. rewrite IH. cbn [bind]. eauto.
  Qed.

Section Unknown.
  Variable blk : Type.
  Variable put_blk : tables -> srefs -> blk -> list N.
  Variable get_blk : tables -> list N -> list N -> res ((srefs * blk) * list N).
  Variable known : list N -> bool.

  Notation cblock := (cblock blk).
  Notation model := (model blk).
  Notation CKnown := (CKnown blk).
  Notation CUnknown := (CUnknown blk).

  Variable prepare_blk : model -> srefs * blk -> srefs * blk.
  Variable finalize_blk : model -> srefs * blk -> srefs * blk.
  Variable bounds_blk : model -> srefs * blk -> srefs * blk.
  Variable prune : model -> model.
  Variable sort : model -> model.

  Notation load := (load blk get_blk known prepare_blk).
  Notation load_blocks := (load_blocks blk get_blk known).
  Notation pre_save := (pre_save blk finalize_blk bounds_blk prune sort).
  Notation save := (save blk put_blk finalize_blk bounds_blk prune sort).
  Notation save_core := (save_core blk put_blk).
  Notation put_block := (put_block blk put_blk).
  Notation is_unknown := (is_unknown blk).
  Notation map_known := (map_known blk).
  Notation set_all_refs := (set_all_refs blk).
  Notation refs_of_block := (refs_of_block blk).

  (* ---- unknown blocks are carried along unchanged by every step that works on known blocks ---- *)
  Definition keeps (b b' : cblock) : Prop :=
    match b with
    | ContainerModel.CUnknown _ d n => b' = CUnknown d n
    | ContainerModel.CKnown _ _ _ => is_unknown b' = false
    end.
  Definition same_unknown (bs bs' : list cblock) : Prop := Forall2 keeps bs bs'.

  Lemma keeps_refl : forall b, keeps b b.
  Proof. destruct b; simpl; reflexivity. Qed.
  Lemma keeps_trans : forall a b c, keeps a b -> keeps b c -> keeps a c.
  Proof.
    intros a b c H1 H2. destruct a; simpl in *.
    - destruct b; simpl in *; [assumption|discriminate].
    - subst b. simpl in H2. assumption.
  Qed.
  Lemma same_unknown_refl : forall bs, same_unknown bs bs.
  Proof. induction bs; constructor; [apply keeps_refl|assumption]. Qed.
  Lemma same_unknown_trans : forall a b c, same_unknown a b -> same_unknown b c -> same_unknown a c.
  Proof.
    intros a b c H. revert c. induction H; intros c H2; inversion H2; subst; constructor.
    - eapply keeps_trans; eauto.
    - apply IHForall2. assumption.
  Qed.
  Lemma same_unknown_map_known : forall f bs, same_unknown bs (map_known f bs).
  Proof.
    intros f. induction bs as [|b bs IH]; simpl; constructor; [|assumption].
    destruct b; simpl; [destruct (f (rs, b)); reflexivity|reflexivity].
  Qed.
  Lemma same_unknown_set_refs : forall bs rss, same_unknown bs (set_all_refs bs rss).
  Proof.
    induction bs as [|b bs IH]; intros rss; simpl; [constructor|].
    destruct rss as [|rs rss]; [apply same_unknown_refl|].
    constructor; [|apply IH]. destruct b; simpl; reflexivity.
  Qed.
  Lemma same_unknown_exists : forall bs bs', same_unknown bs bs' ->
    existsb is_unknown bs' = existsb is_unknown bs.
  Proof.
    induction 1; simpl; [reflexivity|]. rewrite IHForall2. f_equal.
    destruct x; simpl in *; [assumption|subst; reflexivity].
  Qed.
  Lemma same_unknown_length : forall bs bs', same_unknown bs bs' -> length bs' = length bs.
  Proof. induction 1; simpl; congruence. Qed.

  (* the payloads found at the positions of unknown blocks *)
  Definition unknown_slices {A} (bs : list cblock) (ps : list A) : list (option A) :=
    map (fun bp => if is_unknown (fst bp) then Some (snd bp) else None) (combine bs ps).
  Definition unk_data (bs : list cblock) : list (option (list N)) :=
    map (fun b => match b with ContainerModel.CUnknown _ d _ => Some d | _ => None end) bs.

  Lemma unknown_slices_map : forall A B (f : A -> B) bs ps,
    unknown_slices bs (map f ps) = map (option_map f) (unknown_slices bs ps).
  Proof.
    intros A B f. induction bs as [|b bs IH]; intros ps; [reflexivity|].
    destruct ps as [|p ps]; [reflexivity|]. unfold unknown_slices in *. simpl. rewrite IH.
    destruct (is_unknown b); reflexivity.
  Qed.

  (* ---- the input file: what the block loop of Load meets ---- *)
  (* blocks_ok t i ps bs: from block index i on, the payload slices ps decode to bs: a block whose
     type name has a factory is consumed exactly by its codec, whatever follows it (the codec law
     of the block layer); any other block is taken verbatim *)
  Inductive blocks_ok (t : tables) : N -> list (list N) -> list cblock -> Prop :=
  | bo_nil : forall i, blocks_ok t i [] []
  | bo_known : forall i p ps name rs b bs,
      type_name t i = Ok name -> known name = true ->
      (forall r, get_blk t name (p ++ r) = Ok ((rs, b), r)) ->
      blocks_ok t (i + 1) ps bs -> blocks_ok t i (p :: ps) (CKnown rs b :: bs)
  | bo_unknown : forall i p ps name bs,
      type_name t i = Ok name -> known name = false ->
      blocks_ok t (i + 1) ps bs -> blocks_ok t i (p :: ps) (CUnknown p (vlen p) :: bs).

  Lemma blocks_ok_length : forall t i ps bs, blocks_ok t i ps bs -> length bs = length ps.
  Proof. induction 1; simpl; congruence. Qed.

  Lemma blocks_ok_slices : forall t i ps bs, blocks_ok t i ps bs -> unknown_slices bs ps = unk_data bs.
  Proof.
    induction 1; [reflexivity| |]; unfold unknown_slices in *; simpl; rewrite IHblocks_ok; reflexivity.
  Qed.

  Definition unk_sized (b : cblock) : Prop :=
    match b with ContainerModel.CUnknown _ d n => n = vlen d | _ => True end.
  Lemma blocks_ok_sized : forall t i ps bs, blocks_ok t i ps bs -> Forall unk_sized bs.
  Proof. induction 1; constructor; simpl; auto. Qed.


  Lemma load_blocks_ok : forall t ps bs i, blocks_ok t i ps bs ->
    forall pre tail fuel, vlen pre = i ->
    h_sizes t = map (@vlen N) (pre ++ ps) -> vlen (pre ++ ps) = h_nblocks t ->
    ge (v_file (h_ver t)) V20_2_0_5 = true -> (length ps < fuel)%nat ->
    load_blocks fuel t i (concat ps ++ tail) = Ok (Some (bs, tail)).
  Proof.
    induction 1 as [i | i p ps name rs b bs Hn Hk Hg Hr IH | i p ps name bs Hn Hk Hr IH];
      intros pre tail fuel Hi Hs Hc Hv Hf.
    - rewrite app_nil_r in Hc. destruct fuel; cbn [ContainerModel.load_blocks concat app];
        (destruct (i <? h_nblocks t) eqn:E; [lia|reflexivity]).
    - destruct fuel as [|fuel]; [simpl in Hf; lia|]. cbn [ContainerModel.load_blocks].
      destruct (i <? h_nblocks t) eqn:E; [|rewrite vlen_app, vlen_cons in Hc; lia].
      rewrite Hn. cbn [bind]. rewrite Hk. cbn [concat]. rewrite <- app_assoc. rewrite Hg. cbn [bind].
      assert (A1 : vlen (pre ++ [p]) = i + 1) by (rewrite vlen_app, Hi; reflexivity).
      assert (A2 : h_sizes t = map (@vlen N) ((pre ++ [p]) ++ ps)) by (rewrite <- app_assoc; exact Hs).
      assert (A3 : vlen ((pre ++ [p]) ++ ps) = h_nblocks t) by (rewrite <- app_assoc; exact Hc).
      assert (A5 : (length ps < fuel)%nat) by (simpl in Hf; lia).
      rewrite (IH (pre ++ [p]) tail fuel A1 A2 A3 Hv A5). reflexivity.
    - destruct fuel as [|fuel]; [simpl in Hf; lia|]. cbn [ContainerModel.load_blocks].
      destruct (i <? h_nblocks t) eqn:E; [|rewrite vlen_app, vlen_cons in Hc; lia].
      rewrite Hn. cbn [bind]. rewrite Hk.
      pose proof Hv as Hv'. unfold ge in Hv'. destruct (v_file (h_ver t) <? V20_2_0_5) eqn:EV; [lia|].
      rewrite <- Hi. rewrite (block_size_at t pre p ps Hs Hc).
      cbn [concat]. rewrite <- app_assoc. rewrite take_n_app.
      rewrite Hi.
      assert (A1 : vlen (pre ++ [p]) = i + 1) by (rewrite vlen_app, Hi; reflexivity).
      assert (A2 : h_sizes t = map (@vlen N) ((pre ++ [p]) ++ ps)) by (rewrite <- app_assoc; exact Hs).
      assert (A3 : vlen ((pre ++ [p]) ++ ps) = h_nblocks t) by (rewrite <- app_assoc; exact Hc).
      assert (A5 : (length ps < fuel)%nat) by (simpl in Hf; lia).
      rewrite (IH (pre ++ [p]) tail fuel A1 A2 A3 Hv A5). reflexivity.
  Qed.

  (* below 20.2.0.5 the loop stops at the first block without a factory: Load returns 3 *)
  Inductive reaches_unknown (t : tables) : N -> list N -> Prop :=
  | ru_here : forall i s name, i < h_nblocks t -> type_name t i = Ok name -> known name = false ->
      reaches_unknown t i s
  | ru_later : forall i s name x s', i < h_nblocks t -> type_name t i = Ok name -> known name = true ->
      get_blk t name s = Ok (x, s') -> reaches_unknown t (i + 1) s' -> reaches_unknown t i s.

  Lemma load_blocks_err3 : forall t i s, reaches_unknown t i s ->
    v_file (h_ver t) <? V20_2_0_5 = true ->
    forall fuel, (N.to_nat (h_nblocks t - i) < fuel)%nat -> load_blocks fuel t i s = Ok None.
  Proof.
    induction 1 as [i s name Hi Hn Hk | i s name x s' Hi Hn Hk Hg Hr IH]; intros Hv fuel Hf.
    - destruct fuel as [|fuel]; [lia|]. cbn [ContainerModel.load_blocks].
      destruct (i <? h_nblocks t) eqn:E; [|lia]. rewrite Hn. cbn [bind]. rewrite Hk, Hv. reflexivity.
    - destruct fuel as [|fuel]; [lia|]. cbn [ContainerModel.load_blocks].
      destruct (i <? h_nblocks t) eqn:E; [|lia]. rewrite Hn. cbn [bind]. rewrite Hk, Hg. cbn [bind].
      destruct x as [rs b]. rewrite IH by (try assumption; lia). reflexivity.
  Qed.

  Theorem load_err3 : forall s t r,
    get_hdr s = Ok (t, r) -> supported (h_ver t) = true ->
    v_file (h_ver t) <? V20_2_0_5 = true -> reaches_unknown t 0 r ->
    load s = LoadErr _ 3.
  Proof.
    intros s t r G S V R. unfold ContainerModel.load.
    destruct (get_hdr_line s t r G) as (line & rest & x & L1 & L2). rewrite L1, L2, G, S. cbn [negb].
    rewrite (load_blocks_err3 t 0 r R V) by lia. reflexivity.
  Qed.


  (* ---- Load of a file with unknown block types ---- *)
  Theorem load_unknown : forall s t pays bs0,
    walkb s = Some (t, pays) -> wf_tables (clip_tables t) -> supported (h_ver t) = true ->
    vlen pays = h_nblocks t -> blocks_ok t 0 pays bs0 ->
    exists m, load s = Loaded _ m /\ m_hdr _ m = t /\ same_unknown bs0 (m_blocks _ m) /\
              m_has_unknown _ m = existsb is_unknown bs0.
  Proof.
    intros s t pays bs0 Wk Wf Sup Cnt BO.
    destruct (walkb_sound s t pays Wk) as (r & G & -> & Sz).
    assert (Hv : ge (v_file (h_ver t)) V20_2_0_5 = true).
    { unfold walkb in Wk. rewrite G in Wk. destruct (ge (v_file (h_ver t)) V20_2_0_5); [reflexivity|discriminate]. }
    unfold ContainerModel.load.
    destruct (get_hdr_line s t _ G) as (line & rest & x & L1 & L2). rewrite L1, L2, G, Sup. cbn [negb].
    rewrite (load_blocks_ok t pays bs0 0 BO [] footer (S (N.to_nat (h_nblocks t)))); try assumption; try reflexivity.
    2:{ simpl. symmetry. assumption. }
    2:{ unfold vlen in Cnt. lia. }
    assert (Hs : ge (v_file (h_ver t)) V20_1_0_1 = true) by (unfold ge, V20_1_0_1, V20_2_0_5 in *; lia).
    pose proof (wf_strings _ Wf) as WS. unfold clip_tables in WS.
    cbn [h_ver h_nstrings h_maxlen h_strings] in WS. rewrite Hs in WS. destruct WS as (WS1 & _).
    unfold fill_string_refs. unfold ge in Hs. destruct (v_file (h_ver t) <? V20_1_0_1) eqn:E; [lia|].
    destruct (fill_blocks_total (tab_of t) (map refs_of_block bs0) WS1) as [rss ->].
    eexists. split; [reflexivity|]. cbn [m_hdr m_blocks m_has_unknown]. split; [reflexivity|].
    assert (SU : same_unknown bs0 (map_known (prepare_blk (mkModel _ t (set_all_refs bs0 rss) (existsb is_unknown (set_all_refs bs0 rss)))) (set_all_refs bs0 rss))).
    { eapply same_unknown_trans; [apply same_unknown_set_refs|apply same_unknown_map_known]. }
    split; [exact SU|].
    apply same_unknown_exists. apply same_unknown_set_refs.
  Qed.

  (* ---- the save pipeline with hasUnknown set: nothing is reordered, deleted or rebuilt ---- *)
  Lemma pre_save_unknown : forall o m,
    m_has_unknown _ m = true -> tab_inv (tab_of (m_hdr _ m)) ->
    exists m' tb', pre_save o m = Ok m' /\
      m_has_unknown _ m' = true /\
      same_unknown (m_blocks _ m) (m_blocks _ m') /\
      m_hdr _ m' = set_tab (m_hdr _ m) tb' /\ tab_inv tb' /\ tab_ext (tab_of (m_hdr _ m)) tb' /\
      st_maxlen tb' = (if v_file (h_ver (m_hdr _ m)) <? V20_1_0_1 then h_maxlen (m_hdr _ m)
                       else max_string_len (st_strings tb')).
  Proof.
    intros o m HU TI. destruct m as [t bs hu]. cbn [m_hdr m_blocks m_has_unknown] in *. subst hu.
    unfold ContainerModel.pre_save, ContainerModel.finalize. cbn [m_hdr m_blocks m_has_unknown].
    set (bs1 := map_known (finalize_blk (mkModel _ t bs true)) bs).
    destruct (uhs_total (v_file (h_ver t)) true (tab_of t) (map refs_of_block bs1) (fun _ => TI))
      as (tb' & rss & U & I' & _ & E & _ & M).
    rewrite U. cbn [bind].
    set (bs2 := set_all_refs bs1 rss).
    assert (S12 : same_unknown bs bs2).
    { eapply same_unknown_trans; [apply same_unknown_map_known|apply same_unknown_set_refs]. }
    (* Optimize and PrettySortBlocks do not reach prune / sort *)
    set (m1 := mkModel _ (set_tab t tb') bs2 true).
    assert (OPT : (if o_optimize o then ContainerModel.optimize blk bounds_blk prune m1 else m1) =
                  mkModel _ (set_tab t tb') (if o_optimize o then map_known (bounds_blk m1) bs2 else bs2) true).
    { destruct (o_optimize o); reflexivity. }
    rewrite OPT.
    assert (SRT : forall mm, m_has_unknown _ mm = true ->
                  (if o_sort o then ContainerModel.sort_blocks blk sort mm else mm) = mm).
    { intros mm Hm. destruct (o_sort o); [|reflexivity]. unfold ContainerModel.sort_blocks. rewrite Hm. reflexivity. }
    rewrite SRT by reflexivity.
    eexists. exists tb'. split; [reflexivity|]. cbn [m_hdr m_blocks m_has_unknown].
    assert (S13 : same_unknown bs (if o_optimize o then map_known (bounds_blk m1) bs2 else bs2)).
    { destruct (o_optimize o); [|assumption]. eapply same_unknown_trans; [exact S12|apply same_unknown_map_known]. }
    split; [reflexivity|]. split; [exact S13|]. split; [reflexivity|]. split; [exact I'|]. split; [exact E|].
    destruct (v_file (h_ver t) <? V20_1_0_1) eqn:EV.
    - unfold update_header_strings in U. rewrite EV in U. inversion U; subst. reflexivity.
    - destruct (M eq_refl) as [M1 _]. exact M1.
  Qed.

  (* the save pipeline with hasUnknown set, for BOTH option sets: nothing is reordered, deleted
     or rebuilt; the header keeps its block count, type table, type indices and every string *)
  Theorem no_reorder : forall o m,
    m_has_unknown _ m = true -> tab_inv (tab_of (m_hdr _ m)) ->
    exists m', pre_save o m = Ok m' /\
      m_has_unknown _ m' = true /\
      same_unknown (m_blocks _ m) (m_blocks _ m') /\ length (m_blocks _ m') = length (m_blocks _ m) /\
      h_ver (m_hdr _ m') = h_ver (m_hdr _ m) /\
      h_nblocks (m_hdr _ m') = h_nblocks (m_hdr _ m) /\ h_ntypes (m_hdr _ m') = h_ntypes (m_hdr _ m) /\
      h_types (m_hdr _ m') = h_types (m_hdr _ m) /\ h_tidx (m_hdr _ m') = h_tidx (m_hdr _ m) /\
      h_sizes (m_hdr _ m') = h_sizes (m_hdr _ m) /\
      (exists e, h_strings (m_hdr _ m') = h_strings (m_hdr _ m) ++ e).
  Proof.
    intros o m HU TI. destruct (pre_save_unknown o m HU TI) as (m' & tb' & P & H1 & H2 & H3 & H4 & H5 & H6).
    exists m'. split; [exact P|]. split; [exact H1|]. split; [exact H2|].
    split; [apply same_unknown_length; assumption|]. rewrite H3. unfold set_tab.
    cbn [h_ver h_nblocks h_ntypes h_types h_tidx h_sizes h_strings].
    repeat (split; [reflexivity|]). exact H5.
  Qed.

  (* payloads written for a block list whose unknown blocks carry their declared size *)
  Definition payload_of (t : tables) (b : cblock) : list N :=
    match b with
    | ContainerModel.CKnown _ rs x => put_blk t rs x
    | ContainerModel.CUnknown _ d _ => d
    end.

  Lemma put_block_payload : forall t b, unk_sized b -> put_block t b = Ok (payload_of t b).
  Proof.
    intros t b H. destruct b as [rs x|d n]; simpl in *; [reflexivity|]. subst n.
    destruct d; [reflexivity|]. rewrite N.leb_refl. rewrite firstn_vlen. reflexivity.
  Qed.

  Lemma keeps_sized : forall b b', keeps b b' -> unk_sized b -> unk_sized b'.
  Proof.
    intros b b' K U. destruct b; simpl in *.
    - destruct b'; simpl in *; [trivial|discriminate].
    - subst b'. exact U.
  Qed.

  Lemma same_unknown_sized : forall bs bs', same_unknown bs bs' -> Forall unk_sized bs -> Forall unk_sized bs'.
  Proof.
    induction 1; intros F; inversion F; subst; constructor; [eapply keeps_sized; eauto|auto].
  Qed.

  Lemma same_unknown_payloads : forall t bs bs', same_unknown bs bs' ->
    unknown_slices bs (map (payload_of t) bs') = unk_data bs.
  Proof.
    induction 1; [reflexivity|]. unfold unknown_slices in *. simpl. rewrite IHForall2.
    destruct x; simpl in *; [reflexivity|]. subst y. reflexivity.
  Qed.

  (* ---- C03: Load then Save with either option set ---- *)
  Theorem unknown_payload : forall s t pays bs0 o,
    walkb s = Some (t, pays) -> wf_tables (clip_tables t) -> supported (h_ver t) = true ->
    vlen pays = h_nblocks t -> blocks_ok t 0 pays bs0 -> existsb is_unknown bs0 = true ->
    exists m m', load s = Loaded _ m /\ pre_save o m = Ok m' /\
      (* writable strings and payloads of the known blocks (their codecs are another layer) *)
      (Forall str4_ok (h_strings (m_hdr _ m')) -> u32 (vlen (h_strings (m_hdr _ m'))) ->
       Forall (fun b => u32 (vlen (payload_of (clip_tables (m_hdr _ m')) b))) (m_blocks _ m') ->
       exists bytes pays' t',
         save o m = Ok (bytes, clip_model blk m') /\ walkb bytes = Some (t', pays') /\
         length pays' = length pays /\
         h_nblocks t' = h_nblocks t /\ h_types t' = h_types t /\ h_tidx t' = h_tidx t /\
         unknown_slices bs0 pays' = unknown_slices bs0 pays /\
         unknown_slices bs0 (h_sizes t') = unknown_slices bs0 (h_sizes t) /\
         exists e, h_strings t' = h_strings t ++ e).
  Proof.
    intros s t pays bs0 o Wk Wf Sup Cnt BO EX.
    destruct (load_unknown s t pays bs0 Wk Wf Sup Cnt BO) as (m & L & Hh & SU & HU).
    destruct (walkb_sound s t pays Wk) as (r & G & -> & Sz).
    assert (Hv : ge (v_file (h_ver t)) V20_2_0_5 = true).
    { unfold walkb in Wk. rewrite G in Wk. destruct (ge (v_file (h_ver t)) V20_2_0_5); [reflexivity|discriminate]. }
    assert (Hs : ge (v_file (h_ver t)) V20_1_0_1 = true) by (unfold ge, V20_1_0_1, V20_2_0_5 in *; lia).
    pose proof (wf_strings _ Wf) as WS. unfold clip_tables in WS.
    cbn [h_ver h_nstrings h_maxlen h_strings] in WS. rewrite Hs in WS. destruct WS as (WS1 & WS2 & _).
    assert (TI : tab_inv (tab_of (m_hdr _ m))).
    { rewrite Hh. split; [exact WS1|]. cbn [tab_of st_strings]. rewrite <- WS1. unfold u32, cNPOS in *. lia. }
    rewrite EX in HU.
    destruct (pre_save_unknown o m HU TI) as (m' & tb' & PS & HU' & SU' & Eh & I' & Ext & Eml).
    exists m, m'. split; [exact L|]. split; [exact PS|]. intros Hstr Hcnt Hpay.
    rewrite Hh in *.
    assert (SU2 : same_unknown bs0 (m_blocks _ m')) by (eapply same_unknown_trans; eauto).
    assert (SZD : Forall unk_sized (m_blocks _ m')).
    { eapply same_unknown_sized; [exact SU2|]. eapply blocks_ok_sized; eauto. }
    assert (LN : length (m_blocks _ m') = length pays).
    { rewrite (same_unknown_length _ _ SU2). eapply blocks_ok_length; eauto. }
    set (ps' := map (payload_of (clip_tables (m_hdr _ m'))) (m_blocks _ m')).
    assert (Wt' : wf_tables (clip_tables (m_hdr _ m'))).
    { rewrite Eh. change (wf_tables (set_tab (clip_tables t) tb')). rewrite Eh in Hstr, Hcnt. unfold set_tab in Hstr, Hcnt. cbn [h_strings] in Hstr, Hcnt.
      destruct I' as [I1 I2]. apply wf_set_tab; try assumption.
      - rewrite I1. exact Hcnt.
      - rewrite Eml. destruct (v_file (h_ver t) <? V20_1_0_1) eqn:EV; [unfold ge in Hs; lia|].
        apply max_string_len_u32. }
    assert (Wm : wf_model blk put_blk (clip_model blk m') ps').
    { constructor; unfold clip_model; cbn [m_hdr m_blocks m_has_unknown].
      - exact Wt'.
      - rewrite Eh. exact Hv.
      - rewrite Eh. unfold set_tab, clip_tables. cbn [h_nblocks]. rewrite <- Cnt. unfold vlen. rewrite LN. reflexivity.
      - unfold ps'. clear -SZD. induction SZD; simpl; constructor; [apply put_block_payload; assumption|assumption].
      - unfold ps'. clear -Hpay. induction Hpay; simpl; constructor; assumption. }
    destruct (walk_save_long blk put_blk m' ps' Wm) as (bytes & hb & S1 & S2 & S3 & S4 & S5).
    exists bytes, ps', (set_sizes (clip_tables (m_hdr _ m')) (map (@vlen N) ps')).
    split; [unfold ContainerModel.save; rewrite PS; cbn [bind]; exact S1|].
    split; [exact S4|].
    split; [unfold ps'; rewrite map_length; exact LN|].
    rewrite Eh. unfold set_sizes, set_tab, clip_tables. cbn [h_nblocks h_types h_tidx h_sizes h_strings].
    repeat (split; [reflexivity|]).
    assert (P1 : unknown_slices bs0 ps' = unknown_slices bs0 pays).
    { unfold ps'. rewrite (same_unknown_payloads _ _ _ SU2). symmetry. eapply blocks_ok_slices; eauto. }
    split; [exact P1|].
    split; [rewrite unknown_slices_map, P1, <- Sz, unknown_slices_map; reflexivity|].
    exact Ext.
  Qed.
End Unknown.
