(* The string table functions (BasicTypes.cpp:459-547): UpdateHeaderStrings in its two modes. *)
From NiflyVerif Require Import ContainerModel ContainerBase.
From Coq Require Import ZifyBool ZifyNat ZifyN.
Local Open Scope N_scope.

(* numStrings in step with the vector, and not beyond the 2^32-1 entries AddOrFindStringId allows *)
Definition tab_inv (tb : strtab) : Prop :=
  st_n tb = vlen (st_strings tb) /\ vlen (st_strings tb) <= cNPOS.

(* tb' holds every string of tb at its index *)
Definition tab_ext (tb tb' : strtab) : Prop := exists e, st_strings tb' = st_strings tb ++ e.

(* a stored string index: empty, or inside the table and denoting the reference's own string *)
Definition ref_ok (tb : strtab) (r : N * list N) : Prop :=
  fst r = cNPOS \/ (fst r < st_n tb /\ vget (st_strings tb) (fst r) = Some (snd r)).

Lemma tab_ext_refl : forall tb, tab_ext tb tb.
Proof. intros. exists []. rewrite app_nil_r. reflexivity. Qed.

Lemma tab_ext_trans : forall a b c, tab_ext a b -> tab_ext b c -> tab_ext a c.
Proof. intros a b c [e1 H1] [e2 H2]. exists (e1 ++ e2). rewrite H2, H1, app_assoc. reflexivity. Qed.

Lemma vget_app1 : forall A (l e : list A) i x, vget l i = Some x -> vget (l ++ e) i = Some x.
Proof.
  intros. unfold vget in *. rewrite nth_error_app1; [assumption|].
  apply nth_error_Some. congruence.
Qed.

Lemma ref_ok_ext : forall tb tb' r, tab_inv tb' -> tab_ext tb tb' -> ref_ok tb r -> ref_ok tb' r.
Proof.
  intros tb tb' r [I1 I2] [e E] [H|[H1 H2]]; [left; assumption|]. right.
  assert (V : vget (st_strings tb') (fst r) = Some (snd r)) by (rewrite E; apply vget_app1; assumption).
  split; [|assumption].
  rewrite I1. unfold vget in V. assert (N.to_nat (fst r) < length (st_strings tb'))%nat by (apply nth_error_Some; congruence).
  unfold vlen. lia.
Qed.

Lemma find_str_some : forall l i s j, find_str i l s = Some j ->
  i <= j /\ nth_error l (N.to_nat (j - i)) = Some s.
Proof.
  induction l as [|x l IH]; intros i s j H; simpl in H; [discriminate|].
  destruct (bytes_eqb x s) eqn:E.
  - inversion H; subst. apply bytes_eqb_eq in E. subst. split; [lia|]. rewrite N.sub_diag. reflexivity.
  - apply IH in H. destruct H as [H1 H2]. split; [lia|].
    replace (N.to_nat (j - i)) with (S (N.to_nat (j - (i + 1)))) by lia. exact H2.
Qed.

Lemma find_str_none : forall l i s, find_str i l s = None -> ~ In s l.
Proof.
  induction l as [|x l IH]; intros i s H; simpl in *; [tauto|].
  destruct (bytes_eqb x s) eqn:E; [discriminate|].
  intros [->|HI].
  - rewrite bytes_eqb_refl in E. discriminate.
  - eapply IH; eauto.
Qed.

Lemma NoDup_snoc : forall A (l : list A) x, NoDup l -> ~ In x l -> NoDup (l ++ [x]).
Proof.
  induction l as [|a l IH]; intros x ND NI; simpl.
  - constructor; [tauto|constructor].
  - inversion ND; subst. constructor.
    + rewrite in_app_iff. simpl. intros [H|[H|[]]]; [tauto|]. subst. apply NI. left. reflexivity.
    + apply IH; [assumption|]. intro. apply NI. right. assumption.
Qed.

Lemma add_or_find_spec : forall tb s ae, tab_inv tb ->
  exists tb' id, add_or_find_string tb s ae = Ok (tb', id) /\
    tab_inv tb' /\ tab_ext tb tb' /\
    (NoDup (st_strings tb) -> NoDup (st_strings tb')) /\
    st_maxlen tb' = st_maxlen tb /\
    ref_ok tb' (id, s).
Proof.
  intros tb s ae [I1 I2]. unfold add_or_find_string.
  destruct (vlen (st_strings tb) <? st_n tb) eqn:E0; [lia|].
  rewrite I1. rewrite firstn_vlen.
  destruct (find_str 0 (st_strings tb) s) as [j|] eqn:F.
  - exists tb, j. split; [reflexivity|]. split; [split; assumption|]. split; [apply tab_ext_refl|].
    split; [tauto|]. split; [reflexivity|].
    apply find_str_some in F. destruct F as [_ F]. rewrite N.sub_0_r in F. right. cbn [fst snd].
    split; [|exact F].
    assert (N.to_nat j < length (st_strings tb))%nat by (apply nth_error_Some; congruence).
    rewrite I1. unfold vlen. lia.
  - destruct (negb ae && match s with [] => true | _ :: _ => false end)%bool.
    + exists tb, cNPOS. repeat split; try assumption; try apply tab_ext_refl; try tauto. left. reflexivity.
    + destruct (cNPOS <=? vlen (st_strings tb)) eqn:E1.
      * exists tb, cNPOS. repeat split; try assumption; try apply tab_ext_refl; try tauto. left. reflexivity.
      * unfold cNPOS in *.
        assert (Hn : (vlen (st_strings tb) + 1) mod 4294967296 = vlen (st_strings tb) + 1) by (apply N.mod_small; lia).
        rewrite Hn.
        assert (Hi : (vlen (st_strings tb) + 1 + 4294967295) mod 4294967296 = vlen (st_strings tb)).
        { replace (vlen (st_strings tb) + 1 + 4294967295) with (vlen (st_strings tb) + 1 * 4294967296) by lia.
          rewrite N.mod_add by lia. apply N.mod_small. lia. }
        rewrite Hi.
        eexists. eexists. split; [reflexivity|]. cbn [st_strings st_n st_maxlen].
        unfold tab_inv, tab_ext, ref_ok. cbn [st_strings st_n st_maxlen fst snd].
        split; [split; [rewrite vlen_app; reflexivity | rewrite vlen_app; unfold cNPOS; unfold vlen at 2; simpl length; lia]|].
        split; [exists [s]; reflexivity|].
        split.
        { intros ND. apply find_str_none in F. apply NoDup_snoc; assumption. }
        split; [reflexivity|].
        right. split; [lia|].
        unfold vget. unfold vlen. rewrite Nat2N.id. rewrite nth_error_app2 by lia.
        rewrite Nat.sub_diag. reflexivity.
Qed.

(* all references of a block / of all blocks *)
Lemma uhs_refs_spec : forall rs tb, tab_inv tb ->
  exists tb' rs', uhs_refs tb rs = Ok (tb', rs') /\
    tab_inv tb' /\ tab_ext tb tb' /\
    (NoDup (st_strings tb) -> NoDup (st_strings tb')) /\
    st_maxlen tb' = st_maxlen tb /\
    Forall (ref_ok tb') rs' /\ map snd rs' = map snd rs.
Proof.
  induction rs as [|[idx str] rs IH]; intros tb I.
  - exists tb, []. simpl. repeat split; try apply I; try apply tab_ext_refl; try tauto; constructor.
  - simpl uhs_refs.
    destruct (add_or_find_spec tb str (negb (idx =? cNPOS)) I) as (tb1 & id & A1 & A2 & A3 & A4 & A5 & A6).
    rewrite A1. cbn [bind].
    destruct (IH tb1 A2) as (tb2 & rs' & B1 & B2 & B3 & B4 & B5 & B6 & B7).
    rewrite B1. cbn [bind].
    exists tb2, ((id, str) :: rs'). split; [reflexivity|]. split; [assumption|].
    split; [eapply tab_ext_trans; eauto|]. split; [tauto|]. split; [congruence|].
    split; [constructor; [eapply ref_ok_ext; eauto|assumption]|].
    simpl. rewrite B7. reflexivity.
Qed.

Lemma uhs_blocks_spec : forall bs tb, tab_inv tb ->
  exists tb' bs', uhs_blocks tb bs = Ok (tb', bs') /\
    tab_inv tb' /\ tab_ext tb tb' /\
    (NoDup (st_strings tb) -> NoDup (st_strings tb')) /\
    st_maxlen tb' = st_maxlen tb /\
    Forall (Forall (ref_ok tb')) bs' /\ map (map snd) bs' = map (map snd) bs.
Proof.
  induction bs as [|b bs IH]; intros tb I.
  - exists tb, []. simpl. repeat split; try apply I; try apply tab_ext_refl; try tauto; constructor.
  - simpl uhs_blocks.
    destruct (uhs_refs_spec b tb I) as (tb1 & b' & A1 & A2 & A3 & A4 & A5 & A6 & A7).
    rewrite A1. cbn [bind].
    destruct (IH tb1 A2) as (tb2 & bs' & B1 & B2 & B3 & B4 & B5 & B6 & B7).
    rewrite B1. cbn [bind].
    exists tb2, (b' :: bs'). split; [reflexivity|]. split; [assumption|].
    split; [eapply tab_ext_trans; eauto|]. split; [tauto|]. split; [congruence|].
    split.
    + constructor; [|assumption].
      eapply Forall_impl; [|exact A6]. intros r Hr. eapply ref_ok_ext; eauto.
    + simpl. rewrite A7, B7. reflexivity.
Qed.

(* UpdateMaxStringLength computes the maximum *)
Definition slen (s : list N) : N := vlen s mod 4294967296.

Lemma max_fold_ge : forall l m,
  m <= fold_left (fun m s => if m <? slen s then slen s else m) l m /\
  Forall (fun s => slen s <= fold_left (fun m s => if m <? slen s then slen s else m) l m) l /\
  (fold_left (fun m s => if m <? slen s then slen s else m) l m = m \/
   exists s, In s l /\ fold_left (fun m s => if m <? slen s then slen s else m) l m = slen s).
Proof.
  induction l as [|x l IH]; intros m; simpl.
  - split; [lia|]. split; [constructor|]. left. reflexivity.
  - destruct (IH (if m <? slen x then slen x else m)) as (H1 & H2 & H3).
    split; [destruct (m <? slen x) eqn:E; lia|].
    split.
    + constructor; [destruct (m <? slen x) eqn:E; lia|assumption].
    + destruct H3 as [H3|[s [Hs H3]]].
      * destruct (m <? slen x) eqn:E; [right; exists x; split; [left; reflexivity|assumption]|left; assumption].
      * right. exists s. split; [right; assumption|assumption].
Qed.

Lemma max_string_len_spec : forall l,
  Forall (fun s => slen s <= max_string_len l) l /\
  ((l = [] /\ max_string_len l = 0) \/ exists s, In s l /\ max_string_len l = slen s).
Proof.
  intros l.
  assert (E : max_string_len l = fold_left (fun m s => if m <? slen s then slen s else m) l 0) by reflexivity.
  rewrite E. clear E.
  destruct (max_fold_ge l 0) as (H1 & H2 & H3). split; [assumption|].
  destruct H3 as [H3|H3]; [|right; assumption].
  destruct l as [|x l]; [left; split; [reflexivity|assumption]|].
  right. rewrite H3 in H2. inversion H2; subst.
  exists x. split; [left; reflexivity|]. rewrite H3. lia.
Qed.

(* ---- the four facts about UpdateHeaderStrings ---- *)
Definition empty_tab : strtab := mkStr [] 0 0.
Lemma empty_tab_inv : tab_inv empty_tab.
Proof. split; [reflexivity|]. rewrite vlen_nil. unfold cNPOS. lia. Qed.

Definition start_tab (hu : bool) (tb : strtab) : strtab := if hu then tb else empty_tab.

Lemma uhs_total : forall file hu tb bs, (hu = true -> tab_inv tb) ->
  exists tb' bs', update_header_strings file hu tb bs = Ok (tb', bs') /\ tab_inv tb' /\
    map (map snd) bs' = map (map snd) bs /\ tab_ext (start_tab hu tb) tb' /\
    (NoDup (st_strings (start_tab hu tb)) -> NoDup (st_strings tb')) /\
    (file <? V20_1_0_1 = false ->
       st_maxlen tb' = max_string_len (st_strings tb') /\ Forall (Forall (ref_ok tb')) bs').
Proof.
  intros file hu tb bs Hi. unfold update_header_strings.
  assert (I0 : tab_inv (start_tab hu tb)) by (destruct hu; [auto|apply empty_tab_inv]).
  fold empty_tab. fold (start_tab hu tb).
  destruct (file <? V20_1_0_1) eqn:EV.
  - exists (start_tab hu tb), bs. repeat split; try apply I0; try apply tab_ext_refl; try tauto; discriminate.
  - destruct (uhs_blocks_spec bs (start_tab hu tb) I0) as (tb2 & bs' & B1 & B2 & B3 & B4 & B5 & B6 & B7).
    rewrite B1. cbn [bind]. eexists. eexists. split; [reflexivity|].
    destruct B2 as [I1 I2].
    split; [split; assumption|]. split; [assumption|]. split; [exact B3|]. split; [exact B4|].
    intros _. split; [reflexivity|].
    eapply Forall_impl; [|exact B6]. intros rs Hrs. eapply Forall_impl; [|exact Hrs].
    intros r Hr. exact Hr.
Qed.

(* rebuild mode (no unknown blocks): every string once *)
Theorem strings_nodup : forall file tb bs tb' bs',
  update_header_strings file false tb bs = Ok (tb', bs') -> NoDup (st_strings tb').
Proof.
  intros file tb bs tb' bs' H.
  destruct (uhs_total file false tb bs ltac:(discriminate)) as (tb2 & bs2 & A & _ & _ & _ & ND & _).
  rewrite A in H. inversion H; subst. apply ND. constructor.
Qed.

(* the recorded maximum length is the true maximum (of the lengths as 32-bit numbers) *)
Theorem maxlen_is_max : forall file hu tb bs tb' bs',
  (hu = true -> tab_inv tb) -> file <? V20_1_0_1 = false ->
  update_header_strings file hu tb bs = Ok (tb', bs') ->
  Forall (fun s => slen s <= st_maxlen tb') (st_strings tb') /\
  ((st_strings tb' = [] /\ st_maxlen tb' = 0) \/ exists s, In s (st_strings tb') /\ st_maxlen tb' = slen s).
Proof.
  intros file hu tb bs tb' bs' Hi HV H.
  destruct (uhs_total file hu tb bs Hi) as (tb2 & bs2 & A & _ & _ & _ & _ & M).
  rewrite A in H. inversion H; subst. destruct (M HV) as [M1 _]. rewrite M1.
  apply max_string_len_spec.
Qed.

(* below 20.1.0.1 in rebuild mode the table is simply emptied *)
Theorem maxlen_old_versions : forall file tb bs tb' bs',
  file <? V20_1_0_1 = true -> update_header_strings file false tb bs = Ok (tb', bs') ->
  st_strings tb' = [] /\ st_n tb' = 0 /\ st_maxlen tb' = 0.
Proof.
  intros file tb bs tb' bs' HV H. unfold update_header_strings in H. rewrite HV in H.
  inversion H; subst. repeat split.
Qed.

(* every stored index is empty or inside the table, and then denotes the reference's string *)
Theorem string_indices_in_range : forall file hu tb bs tb' bs',
  (hu = true -> tab_inv tb) -> file <? V20_1_0_1 = false ->
  update_header_strings file hu tb bs = Ok (tb', bs') ->
  st_n tb' = vlen (st_strings tb') /\
  map (map snd) bs' = map (map snd) bs /\
  Forall (Forall (fun r => fst r = cNPOS \/
                           (fst r < st_n tb' /\ vget (st_strings tb') (fst r) = Some (snd r)))) bs'.
Proof.
  intros file hu tb bs tb' bs' Hi HV H.
  destruct (uhs_total file hu tb bs Hi) as (tb2 & bs2 & A & I & S & _ & _ & M).
  rewrite A in H. inversion H; subst. destruct (M HV) as [_ M2].
  split; [apply I|]. split; [assumption|]. exact M2.
Qed.

(* append-only mode (unknown blocks present): every existing string keeps its index *)
Theorem strings_prefix : forall file tb bs tb' bs',
  tab_inv tb -> update_header_strings file true tb bs = Ok (tb', bs') ->
  exists e, st_strings tb' = st_strings tb ++ e.
Proof.
  intros file tb bs tb' bs' Hi H.
  destruct (uhs_total file true tb bs (fun _ => Hi)) as (tb2 & bs2 & A & _ & _ & E & _).
  rewrite A in H. inversion H; subst. exact E.
Qed.

Corollary strings_prefix_index : forall file tb bs tb' bs' i s,
  tab_inv tb -> update_header_strings file true tb bs = Ok (tb', bs') ->
  vget (st_strings tb) i = Some s -> vget (st_strings tb') i = Some s.
Proof.
  intros. destruct (strings_prefix _ _ _ _ _ H H0) as [e ->]. apply vget_app1. assumption.
Qed.
