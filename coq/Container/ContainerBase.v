(* Basic facts about the primitive transfers of ContainerModel.v: every write is read back. *)
From NiflyVerif Require Import ContainerModel.
From Coq Require Import ZifyBool ZifyNat ZifyN.
Local Open Scope N_scope.

Lemma vlen_cons : forall A (x : A) l, vlen (x :: l) = vlen l + 1.
Proof. intros. unfold vlen. simpl length. lia. Qed.

Lemma vlen_app : forall A (a b : list A), vlen (a ++ b) = vlen a + vlen b.
Proof. intros. unfold vlen. rewrite app_length. lia. Qed.

Lemma vlen_nil : forall A, vlen (@nil A) = 0.
Proof. reflexivity. Qed.

Lemma take_n_0 : forall s, take_n s 0 = Some ([], s).
Proof. destruct s; reflexivity. Qed.

Lemma take_n_app : forall a r, take_n (a ++ r) (vlen a) = Some (a, r).
Proof.
  induction a as [|b a IH]; intros r.
  - simpl. apply take_n_0.
  - rewrite vlen_cons. simpl app. simpl take_n.
    destruct (vlen a + 1 =? 0) eqn:E; [lia|].
    replace (vlen a + 1 - 1) with (vlen a) by lia. rewrite IH. reflexivity.
Qed.

Lemma take_n_app_len : forall a r n, n = vlen a -> take_n (a ++ r) n = Some (a, r).
Proof. intros; subst; apply take_n_app. Qed.

(* what take_n returns is a split of the input *)
Lemma take_n_split : forall s n a r, take_n s n = Some (a, r) -> s = a ++ r /\ vlen a = n.
Proof.
  induction s as [|b s IH]; intros n a r H; simpl in H.
  - destruct (n =? 0) eqn:E; [|discriminate]. inversion H; subst. split; [reflexivity|]. rewrite vlen_nil. lia.
  - destruct (n =? 0) eqn:E.
    + inversion H; subst. split; [reflexivity|]. rewrite vlen_nil. lia.
    + destruct (take_n s (n - 1)) as [[a' r']|] eqn:T; [|discriminate].
      inversion H; subst. apply IH in T. destruct T as [-> L]. split; [reflexivity|].
      rewrite vlen_cons. lia.
Qed.

Lemma le_bytes_length : forall w x, length (le_bytes w x) = w.
Proof. induction w; intros; simpl; [reflexivity|]. rewrite IHw. reflexivity. Qed.

Lemma vlen_le_bytes : forall w x, vlen (le_bytes w x) = N.of_nat w.
Proof. intros. unfold vlen. rewrite le_bytes_length. reflexivity. Qed.

Lemma le_val_le_bytes : forall w x, x < 256 ^ N.of_nat w -> le_val (le_bytes w x) = x.
Proof.
  induction w as [|w IH]; intros x H.
  - simpl in *. lia.
  - cbn [le_bytes le_val].
    rewrite IH.
    + assert (D : x = 256 * (x / 256) + x mod 256) by (apply N.div_mod; lia). lia.
    + replace (N.of_nat (S w)) with (N.succ (N.of_nat w)) in H by lia.
      rewrite N.pow_succ_r' in H. apply N.div_lt_upper_bound; lia.
Qed.

Lemma rd_uint_le : forall w x r, x < 256 ^ N.of_nat w -> rd_uint w (le_bytes w x ++ r) = Ok (x, r).
Proof.
  intros. unfold rd_uint. rewrite take_n_app_len by (rewrite vlen_le_bytes; reflexivity).
  rewrite le_val_le_bytes by assumption. reflexivity.
Qed.

(* bytes of a little-endian integer are bytes *)
Lemma le_bytes_range : forall w x, Forall (fun b => b < 256) (le_bytes w x).
Proof.
  induction w; intros; simpl; constructor; [|apply IHw].
  apply N.mod_lt. lia.
Qed.

Definition nul_free (s : list N) : Prop := Forall (fun b => b <> 0) s.

Lemma cstr_nul_free : forall s, nul_free s -> cstr s = s.
Proof.
  induction 1; simpl; [reflexivity|].
  destruct (x =? 0) eqn:E; [lia|]. rewrite IHForall. reflexivity.
Qed.

Lemma cstr_app0 : forall s r, nul_free s -> cstr (s ++ 0 :: r) = s.
Proof.
  induction 1; simpl; [reflexivity|].
  destruct (x =? 0) eqn:E; [lia|]. rewrite IHForall. reflexivity.
Qed.

Lemma cstr_is_nul_free : forall s, nul_free (cstr s).
Proof.
  induction s; simpl; [constructor|].
  destruct (a =? 0) eqn:E; [constructor|]. constructor; [lia|assumption].
Qed.

Lemma firstn_vlen : forall A (l : list A), firstn (N.to_nat (vlen l)) l = l.
Proof. intros. unfold vlen. rewrite Nat2N.id. apply firstn_all. Qed.

(* a header string (4-byte size, no terminator) that can be written and read back *)
Definition str4_ok (s : list N) : Prop := nul_free s /\ vlen s < cNPOS.

Lemma wr_str4_eq : forall s, vlen s < 4294967296 -> wr_str4 s = le_bytes 4 (vlen s) ++ s.
Proof.
  intros. unfold wr_str4, wr_nistring. cbn [fst].
  replace (256 ^ N.of_nat 4 - 1) with 4294967295 by reflexivity.
  destruct (4294967295 <? vlen s) eqn:E; [lia|]. rewrite app_nil_r. reflexivity.
Qed.

Lemma rd_wr_str4 : forall s r, str4_ok s -> rd_nistring 4 (wr_str4 s ++ r) = Ok (s, r).
Proof.
  intros s r [Hn Hl]. unfold cNPOS in Hl.
  rewrite wr_str4_eq by lia. rewrite <- app_assoc.
  unfold rd_nistring. rewrite rd_uint_le by (change (256 ^ N.of_nat 4) with 4294967296; lia).
  cbn [bind]. replace (Nat.eqb 4 4) with true by reflexivity.
  destruct (vlen s =? cNPOS) eqn:E; [unfold cNPOS in E; lia|]. cbn [andb].
  rewrite take_n_app. rewrite cstr_nul_free by assumption. reflexivity.
Qed.

(* the 1-byte-sized, zero-terminated strings of the Bethesda header: Write cuts them to 254
   characters, the longest string whose size (with the terminator) fits the prefix *)
Definition clip1 (s : list N) : list N := firstn 254 s.
Definition str1_ok (s : list N) : Prop := nul_free s /\ vlen s < 255.

Lemma clip1_short : forall s, vlen s < 255 -> clip1 s = s.
Proof. intros. unfold clip1. apply firstn_all2. unfold vlen in H. lia. Qed.

Lemma clip1_len : forall s, vlen (clip1 s) < 255.
Proof. intros. unfold clip1, vlen. rewrite firstn_length. lia. Qed.

Lemma Forall_firstn_N : forall (P : N -> Prop) n l, Forall P l -> Forall P (firstn n l).
Proof. induction n; intros l H; simpl; [constructor|]. destruct H; constructor; auto. Qed.

Lemma clip1_nul_free : forall s, nul_free s -> nul_free (clip1 s).
Proof. intros. unfold clip1, nul_free. apply Forall_firstn_N. assumption. Qed.

Lemma clip1_ok : forall s, nul_free s -> str1_ok (clip1 s).
Proof. intros. split; [apply clip1_nul_free; assumption|apply clip1_len]. Qed.

Lemma clip1_idem : forall s, clip1 (clip1 s) = clip1 s.
Proof. intros. apply clip1_short. apply clip1_len. Qed.

Lemma wr_str1_any : forall s,
  wr_nistring 1 true s = (le_bytes 1 (vlen (clip1 s) + 1) ++ clip1 s ++ [0], clip1 s).
Proof.
  intros. unfold wr_nistring.
  replace (256 ^ N.of_nat 1 - 1 - 1) with 254 by reflexivity.
  destruct (254 <? vlen s) eqn:E.
  - replace (N.to_nat 254) with 254%nat by reflexivity. reflexivity.
  - rewrite clip1_short by lia. reflexivity.
Qed.

Lemma wr_str1_eq : forall s, vlen s < 255 ->
  wr_nistring 1 true s = (le_bytes 1 (vlen s + 1) ++ s ++ [0], s).
Proof. intros. rewrite wr_str1_any. rewrite clip1_short by assumption. reflexivity. Qed.

Lemma wr_str1_clip : forall s, wr_nistring 1 true (clip1 s) = wr_nistring 1 true s.
Proof. intros. rewrite !wr_str1_any. rewrite clip1_idem. reflexivity. Qed.

Lemma rd_wr_str1 : forall s r, str1_ok s ->
  rd_nistring 1 (fst (wr_nistring 1 true s) ++ r) = Ok (s, r) /\ snd (wr_nistring 1 true s) = s.
Proof.
  intros s r [Hn Hl]. rewrite wr_str1_eq by assumption. cbn [fst snd]. split; [|reflexivity].
  rewrite <- app_assoc. unfold rd_nistring.
  rewrite rd_uint_le by (change (256 ^ N.of_nat 1) with 256; lia).
  cbn [bind]. replace (Nat.eqb 1 4) with false by reflexivity. cbn [andb].
  rewrite take_n_app_len by (rewrite vlen_app; reflexivity).
  rewrite cstr_app0 by assumption. reflexivity.
Qed.

(* for a string of ANY length: what is read back is what Write left in memory, the first 254
   characters *)
Lemma rd_wr_str1_any : forall s r, nul_free s ->
  rd_nistring 1 (fst (wr_nistring 1 true s) ++ r) = Ok (clip1 s, r) /\ snd (wr_nistring 1 true s) = clip1 s.
Proof.
  intros s r Hn. rewrite <- wr_str1_clip. apply rd_wr_str1. apply clip1_ok. assumption.
Qed.

(* ---- tables ---- *)
Lemma rd_items_put : forall A (rd : list N -> res (A * list N)) (wr : A -> list N) (P : A -> Prop),
  (forall x r, P x -> rd (wr x ++ r) = Ok (x, r)) ->
  forall xs fuel r, Forall P xs -> (length xs <= fuel)%nat ->
  rd_items rd fuel (vlen xs) (flat_map wr xs ++ r) = Ok (xs, r).
Proof.
  intros A rd wr P H. induction xs as [|x xs IH]; intros fuel r HP Hf.
  - destruct fuel; reflexivity.
  - destruct fuel as [|fuel]; [simpl in Hf; lia|].
    inversion HP; subst. rewrite vlen_cons. simpl rd_items.
    destruct (vlen xs + 1 =? 0) eqn:E; [lia|].
    simpl flat_map. rewrite <- app_assoc. rewrite H by assumption. cbn [bind].
    replace (vlen xs + 1 - 1) with (vlen xs) by lia.
    rewrite IH by (try assumption; simpl in Hf; lia). reflexivity.
Qed.

Lemma flat_map_length_ge : forall A (wr : A -> list N) xs,
  (forall x, wr x <> []) -> (length xs <= length (flat_map wr xs))%nat.
Proof.
  intros A wr xs H. induction xs as [|x xs IH]; simpl; [lia|].
  rewrite app_length. specialize (H x). destruct (wr x); [congruence|]. simpl. lia.
Qed.

Lemma rd_tab_put : forall A (rd : list N -> res (A * list N)) (wr : A -> list N) (P : A -> Prop),
  (forall x r, P x -> rd (wr x ++ r) = Ok (x, r)) -> (forall x, wr x <> []) ->
  forall xs r n, Forall P xs -> n = vlen xs ->
  rd_tab rd n (flat_map wr xs ++ r) = Ok (xs, r).
Proof.
  intros A rd wr P H Hne xs r n HP ->. unfold rd_tab.
  eapply rd_items_put; eauto.
  rewrite app_length. pose proof (flat_map_length_ge A wr xs Hne). lia.
Qed.

Lemma wr_items_all : forall A (wr : A -> list N) (pre v : list A) fuel,
  (length v < fuel)%nat ->
  wr_items wr (pre ++ v) fuel (vlen pre) (vlen (pre ++ v)) = Ok (flat_map wr v).
Proof.
  intros A wr pre v. revert pre. induction v as [|x v IH]; intros pre fuel Hf.
  - rewrite app_nil_r. destruct fuel; simpl; rewrite N.ltb_irrefl; reflexivity.
  - destruct fuel as [|fuel]; [lia|]. simpl wr_items.
    destruct (vlen pre <? vlen (pre ++ x :: v)) eqn:E; [|rewrite vlen_app, vlen_cons in E; lia].
    unfold vget. unfold vlen at 1. rewrite Nat2N.id. rewrite nth_error_app2 by lia.
    rewrite Nat.sub_diag. simpl nth_error.
    replace (vlen pre + 1) with (vlen (pre ++ [x])) by (rewrite vlen_app; reflexivity).
    replace (pre ++ x :: v) with ((pre ++ [x]) ++ v) by (rewrite <- app_assoc; reflexivity).
    rewrite IH by (simpl in Hf; lia). reflexivity.
Qed.

Lemma wr_tab_all : forall A (wr : A -> list N) (v : list A) n,
  n = vlen v -> wr_tab wr v n = Ok (flat_map wr v).
Proof.
  intros A wr v n ->. unfold wr_tab.
  apply (wr_items_all A wr [] v). lia.
Qed.

Lemma le_bytes_ne : forall w x, w <> O -> le_bytes w x <> [].
Proof. destruct w; intros; [congruence|]. simpl. discriminate. Qed.

Lemma wr_str4_ne : forall s, wr_str4 s <> [].
Proof. intros. unfold wr_str4, wr_nistring. cbn [fst le_bytes app]. discriminate. Qed.

Lemma bytes_eqb_refl : forall a, bytes_eqb a a = true.
Proof. induction a; simpl; [reflexivity|]. rewrite N.eqb_refl, IHa. reflexivity. Qed.

Lemma bytes_eqb_eq : forall a b, bytes_eqb a b = true <-> a = b.
Proof.
  induction a; destruct b; simpl; split; intro H; try congruence; try discriminate.
  - apply andb_true_iff in H. destruct H as [H1 H2]. apply N.eqb_eq in H1. apply IHa in H2. congruence.
  - inversion H; subst. rewrite N.eqb_refl. simpl. apply IHa. reflexivity.
Qed.

(* ---- NiStringRef (block level): index from 20.1.0.3 on, inline sized string before ---- *)
Lemma rd_wr_stringref_new : forall file idx s r,
  file <? V20_1_0_3 = false -> idx < 4294967296 ->
  rd_stringref file (fst (wr_stringref file (idx, s)) ++ r) = Ok ((idx, []), r)
  /\ snd (wr_stringref file (idx, s)) = (idx, s).
Proof.
  intros file idx s r Hv Hi. unfold rd_stringref, wr_stringref. rewrite Hv. cbn [fst snd].
  rewrite rd_uint_le by (change (256 ^ N.of_nat 4) with 4294967296; assumption). split; reflexivity.
Qed.

Lemma rd_wr_stringref_old : forall file idx s r,
  file <? V20_1_0_3 = true -> nul_free s -> vlen s < 2049 ->
  rd_stringref file (fst (wr_stringref file (idx, s)) ++ r) = Ok ((cNPOS, s), r)
  /\ snd (wr_stringref file (idx, s)) = (idx, s).
Proof.
  intros file idx s r Hv Hn Hl. unfold rd_stringref, wr_stringref. rewrite Hv. cbn [fst snd].
  change (256 ^ 4) with 4294967296. rewrite N.mod_small by lia. rewrite firstn_vlen.
  rewrite <- app_assoc. rewrite rd_uint_le by (change (256 ^ N.of_nat 4) with 4294967296; lia). cbn [bind].
  destruct (vlen s <? 2049) eqn:E; [|lia]. rewrite take_n_app. rewrite cstr_nul_free by assumption.
  split; reflexivity.
Qed.

(* before 20.1.0.3 a string of 2049 characters or more is written in full but read back as the
   empty string WITHOUT consuming its characters (NiStringRef::Read, BasicTypes.cpp:131-134) *)
Lemma rd_wr_stringref_old_long : forall file idx s r,
  file <? V20_1_0_3 = true -> 2049 <= vlen s -> vlen s < 4294967296 ->
  rd_stringref file (fst (wr_stringref file (idx, s)) ++ r) = Ok ((cNPOS, []), s ++ r).
Proof.
  intros file idx s r Hv Hl Hu. unfold rd_stringref, wr_stringref. rewrite Hv. cbn [fst snd].
  change (256 ^ 4) with 4294967296. rewrite N.mod_small by lia. rewrite firstn_vlen.
  rewrite <- app_assoc. rewrite rd_uint_le by (change (256 ^ N.of_nat 4) with 4294967296; lia). cbn [bind].
  destruct (vlen s <? 2049) eqn:E; [lia|]. reflexivity.
Qed.
