(* NiHeader::Get reads back what NiHeader::Put wrote, for every version branch behind the first
   line (post-3.1, non-NDS), and Put leaves a well-formed header unchanged in memory. *)
From NiflyVerif Require Import ContainerModel ContainerBase.
From Coq Require Import ZifyBool ZifyNat ZifyN.
Local Open Scope N_scope.

Definition u32 (x : N) : Prop := x < 4294967296.
Definition u16 (x : N) : Prop := x < 65536.
Definition u8 (x : N) : Prop := x < 256.

(* The members as any NiHeader holds them after Get, or after edits through the API with the
   counters in step with their vectors (the invariant of C06), with the members a version does not
   transfer at their defaults, and with strings that fit their size prefix. *)
Record wf_tables (t : tables) : Prop := mkWf {
  wf_line : line_ok (v_file (h_ver t)) = true;
  wf_file : V3_1 < v_file (h_ver t) /\ u32 (v_file (h_ver t));
  wf_endian : if ge (v_file (h_ver t)) V20_0_0_3 then u8 (h_endian t) else h_endian t = 1;
  wf_user : if ge (v_file (h_ver t)) V10_0_1_8 then u32 (v_user (h_ver t)) else v_user (h_ver t) = 0;
  wf_nblocks : u32 (h_nblocks t);
  wf_beth : if is_bethesda (h_ver t)
            then u32 (v_stream (h_ver t)) /\ str1_ok (h_creator t)
                 /\ (if 130 <? v_stream (h_ver t) then u32 (h_unkint t) else h_unkint t = 0)
                 /\ str1_ok (h_exp1 t) /\ str1_ok (h_exp2 t)
                 /\ (if v_stream (h_ver t) =? 130 then str1_ok (h_exp3 t) else h_exp3 t = [])
            else v_stream (h_ver t) = 0 /\ h_creator t = [] /\ h_unkint t = 0
                 /\ h_exp1 t = [] /\ h_exp2 t = [] /\ h_exp3 t = [];
  wf_embed : if (negb (is_bethesda (h_ver t)) && ge (v_file (h_ver t)) V30_0_0_2)%bool
             then h_embed_size t = vlen (h_embed t) /\ u32 (h_embed_size t) /\ Forall u8 (h_embed t)
             else h_embed_size t = 0 /\ h_embed t = [];
  wf_types : if ge (v_file (h_ver t)) V5_0_0_1
             then h_ntypes t = vlen (h_types t) /\ u16 (h_ntypes t) /\ Forall str4_ok (h_types t)
                  /\ vlen (h_tidx t) = h_nblocks t /\ Forall u16 (h_tidx t)
             else h_ntypes t = 0 /\ h_types t = [] /\ h_tidx t = [];
  wf_sizes : if ge (v_file (h_ver t)) V20_2_0_5
             then vlen (h_sizes t) = h_nblocks t /\ Forall u32 (h_sizes t)
             else h_sizes t = [];
  wf_strings : if ge (v_file (h_ver t)) V20_1_0_1
               then h_nstrings t = vlen (h_strings t) /\ u32 (h_nstrings t) /\ u32 (h_maxlen t)
                    /\ Forall str4_ok (h_strings t)
               else h_nstrings t = 0 /\ h_maxlen t = 0 /\ h_strings t = [];
  wf_groups : if ge (v_file (h_ver t)) V5_0_0_6
              then h_ngroups t = vlen (h_groups t) /\ u32 (h_ngroups t) /\ Forall u32 (h_groups t)
              else h_ngroups t = 0 /\ h_groups t = []
}.

Lemma split_line_app : forall fuel a l r0 r,
  split_line fuel a = Some (l, r0) -> split_line fuel (a ++ r) = Some (l, r0 ++ r).
Proof.
  induction fuel as [|f IH]; intros a l r0 r H; simpl in *; [discriminate|].
  destruct a as [|b a]; [discriminate|]. simpl.
  destruct (b =? 10).
  - inversion H; subst. reflexivity.
  - destruct (split_line f a) as [[l' r']|] eqn:E; [|discriminate].
    inversion H; subst. rewrite (IH _ _ _ r E). reflexivity.
Qed.

Lemma rd_u8 : forall x r, u8 x -> rd_uint 1 (le_bytes 1 x ++ r) = Ok (x, r).
Proof. intros. apply rd_uint_le. exact H. Qed.
Lemma rd_u16 : forall x r, u16 x -> rd_uint 2 (le_bytes 2 x ++ r) = Ok (x, r).
Proof. intros. apply rd_uint_le. exact H. Qed.
Lemma rd_u32 : forall x r, u32 x -> rd_uint 4 (le_bytes 4 x ++ r) = Ok (x, r).
Proof. intros. apply rd_uint_le. exact H. Qed.

Lemma rd_tab_u8 : forall xs r n, Forall u8 xs -> n = vlen xs ->
  rd_tab (rd_uint 1) n (flat_map (le_bytes 1) xs ++ r) = Ok (xs, r).
Proof. intros. eapply rd_tab_put; eauto using rd_u8. intro. apply le_bytes_ne. lia. Qed.
Lemma rd_tab_u16 : forall xs r n, Forall u16 xs -> n = vlen xs ->
  rd_tab (rd_uint 2) n (flat_map (le_bytes 2) xs ++ r) = Ok (xs, r).
Proof. intros. eapply rd_tab_put; eauto using rd_u16. intro. apply le_bytes_ne. lia. Qed.
Lemma rd_tab_u32 : forall xs r n, Forall u32 xs -> n = vlen xs ->
  rd_tab (rd_uint 4) n (flat_map (le_bytes 4) xs ++ r) = Ok (xs, r).
Proof. intros. eapply rd_tab_put; eauto using rd_u32. intro. apply le_bytes_ne. lia. Qed.
Lemma rd_tab_str4 : forall xs r n, Forall str4_ok xs -> n = vlen xs ->
  rd_tab (rd_nistring 4) n (flat_map wr_str4 xs ++ r) = Ok (xs, r).
Proof. intros. eapply rd_tab_put; eauto using rd_wr_str4, wr_str4_ne. Qed.

Lemma is_bethesda_stream : forall f u s, is_bethesda (mkVer f u s) = is_bethesda (mkVer f u 0).
Proof. reflexivity. Qed.

(* ---- the parts of the header, as explicit byte strings ---- *)
Definition str1_bytes (s : list N) : list N := le_bytes 1 (vlen s + 1) ++ s ++ [0].

Definition part_a (t : tables) : list N :=
  let file := v_file (h_ver t) in
  ver_text file ++ [10] ++ le_bytes 4 file
  ++ (if ge file V20_0_0_3 then le_bytes 1 (h_endian t) else [])
  ++ (if ge file V10_0_1_8 then le_bytes 4 (v_user (h_ver t)) else [])
  ++ le_bytes 4 (h_nblocks t).

Definition part_b (t : tables) : list N :=
  let v := h_ver t in
  if is_bethesda v
  then le_bytes 4 (v_stream v) ++ str1_bytes (h_creator t)
       ++ (if 130 <? v_stream v then le_bytes 4 (h_unkint t) else [])
       ++ str1_bytes (h_exp1 t) ++ str1_bytes (h_exp2 t)
       ++ (if v_stream v =? 130 then str1_bytes (h_exp3 t) else [])
  else if ge (v_file v) V30_0_0_2
       then le_bytes 4 (h_embed_size t) ++ flat_map (le_bytes 1) (h_embed t)
       else [].

Definition part_c (t : tables) : list N :=
  if ge (v_file (h_ver t)) V5_0_0_1
  then le_bytes 2 (h_ntypes t) ++ flat_map wr_str4 (h_types t) ++ flat_map (le_bytes 2) (h_tidx t)
  else [].

Definition part_d (t : tables) : list N :=
  if ge (v_file (h_ver t)) V20_2_0_5 then flat_map (le_bytes 4) (h_sizes t) else [].

Definition part_e (t : tables) : list N :=
  if ge (v_file (h_ver t)) V20_1_0_1
  then le_bytes 4 (h_nstrings t) ++ le_bytes 4 (h_maxlen t) ++ flat_map wr_str4 (h_strings t)
  else [].

Definition part_f (t : tables) : list N :=
  if ge (v_file (h_ver t)) V5_0_0_6
  then le_bytes 4 (h_ngroups t) ++ flat_map (le_bytes 4) (h_groups t)
  else [].

(* Put on a well-formed header: no fault, the explicit bytes, the header unchanged in memory *)
Lemma put_hdr_wf : forall t, wf_tables t ->
  put_hdr t = Ok (mkPut (part_a t ++ part_b t ++ part_c t) (part_d t) (part_e t ++ part_f t) t).
Proof.
  intros t W. destruct W. destruct t as [v en nb cr unk e1 e2 e3 esz emb nt ty ti sz ns ml st ng g].
  cbn [h_ver h_endian h_nblocks h_creator h_unkint h_exp1 h_exp2 h_exp3 h_embed_size h_embed
       h_ntypes h_types h_tidx h_sizes h_nstrings h_maxlen h_strings h_ngroups h_groups] in *.
  unfold put_hdr, part_a, part_b, part_c, part_d, part_e, part_f.
  cbn [h_ver h_endian h_nblocks h_creator h_unkint h_exp1 h_exp2 h_exp3 h_embed_size h_embed
       h_ntypes h_types h_tidx h_sizes h_nstrings h_maxlen h_strings h_ngroups h_groups].
  destruct wf_file0 as [Hgt Hf].
  destruct (V3_1 <? v_file v) eqn:E1; [|lia]. cbn [negb].
  (* part b *)
  destruct (is_bethesda v) eqn:EB.
  - destruct wf_beth0 as (Hs & Hc & Hu & H1 & H2 & H3).
    rewrite (wr_str1_eq cr) by apply Hc. rewrite (wr_str1_eq e1) by apply H1.
    rewrite (wr_str1_eq e2) by apply H2.
    assert (X3 : (if v_stream v =? 130 then fst (wr_nistring 1 true e3) else []) =
                 (if v_stream v =? 130 then str1_bytes e3 else [])
                 /\ (if v_stream v =? 130 then snd (wr_nistring 1 true e3) else e3) = e3).
    { destruct (v_stream v =? 130); [|split; reflexivity].
      rewrite (wr_str1_eq e3) by apply H3. split; reflexivity. }
    destruct X3 as [X3 X4]. rewrite X3, X4. cbn [fst snd bind]. fold (str1_bytes cr) (str1_bytes e1) (str1_bytes e2).
    destruct (ge (v_file v) V5_0_0_1) eqn:E5.
    + destruct wf_types0 as (T1 & T2 & T3 & T4 & T5).
      rewrite (wr_tab_all _ wr_str4 ty nt T1). rewrite (wr_tab_all _ (le_bytes 2) ti nb (eq_sym T4)). cbn [bind].
      destruct (ge (v_file v) V20_2_0_5) eqn:E6.
      * destruct wf_sizes0 as (S1 & S2). rewrite (wr_tab_all _ (le_bytes 4) sz nb (eq_sym S1)). cbn [bind].
        destruct (ge (v_file v) V20_1_0_1) eqn:E7.
        -- destruct wf_strings0 as (R1 & _). rewrite (wr_tab_all _ wr_str4 st ns R1). cbn [bind].
           destruct (ge (v_file v) V5_0_0_6) eqn:E8.
           ++ destruct wf_groups0 as (G1 & _). rewrite (wr_tab_all _ (le_bytes 4) g ng G1). reflexivity.
           ++ reflexivity.
        -- cbn [bind]. destruct (ge (v_file v) V5_0_0_6) eqn:E8.
           ++ destruct wf_groups0 as (G1 & _). rewrite (wr_tab_all _ (le_bytes 4) g ng G1). reflexivity.
           ++ reflexivity.
      * cbn [bind]. destruct (ge (v_file v) V20_1_0_1) eqn:E7.
        -- destruct wf_strings0 as (R1 & _). rewrite (wr_tab_all _ wr_str4 st ns R1). cbn [bind].
           destruct (ge (v_file v) V5_0_0_6) eqn:E8.
           ++ destruct wf_groups0 as (G1 & _). rewrite (wr_tab_all _ (le_bytes 4) g ng G1). reflexivity.
           ++ reflexivity.
        -- cbn [bind]. destruct (ge (v_file v) V5_0_0_6) eqn:E8.
           ++ destruct wf_groups0 as (G1 & _). rewrite (wr_tab_all _ (le_bytes 4) g ng G1). reflexivity.
           ++ reflexivity.
    + (* a Bethesda file version is above 5.0.0.1 *)
      exfalso. unfold is_bethesda, is_ob, ge, V5_0_0_1, V20_2_0_7, V10_1_0_106, V10_2_0_0, V20_0_0_4, V20_0_0_5 in *. lia.
  - cbn [negb andb] in wf_embed0.
    assert (XB : (if ge (v_file v) V30_0_0_2
                  then bind (wr_tab (le_bytes 1) emb esz) (fun e => Ok (le_bytes 4 esz ++ e))
                  else Ok []) =
                 Ok (if ge (v_file v) V30_0_0_2 then le_bytes 4 esz ++ flat_map (le_bytes 1) emb else [])).
    { destruct (ge (v_file v) V30_0_0_2); [|reflexivity].
      destruct wf_embed0 as (M1 & _). rewrite (wr_tab_all _ (le_bytes 1) emb esz M1). reflexivity. }
    rewrite XB. cbn [bind].
    assert (XC : (if ge (v_file v) V5_0_0_1
                  then bind (wr_tab wr_str4 ty nt) (fun ty0 =>
                       bind (wr_tab (le_bytes 2) ti nb) (fun ti0 => Ok (le_bytes 2 nt ++ ty0 ++ ti0)))
                  else Ok []) =
                 Ok (if ge (v_file v) V5_0_0_1
                     then le_bytes 2 nt ++ flat_map wr_str4 ty ++ flat_map (le_bytes 2) ti else [])).
    { destruct (ge (v_file v) V5_0_0_1); [|reflexivity].
      destruct wf_types0 as (T1 & T2 & T3 & T4 & T5).
      rewrite (wr_tab_all _ wr_str4 ty nt T1). rewrite (wr_tab_all _ (le_bytes 2) ti nb (eq_sym T4)). reflexivity. }
    rewrite XC. cbn [bind].
    assert (XD : (if ge (v_file v) V20_2_0_5 then wr_tab (le_bytes 4) sz nb else Ok []) =
                 Ok (if ge (v_file v) V20_2_0_5 then flat_map (le_bytes 4) sz else [])).
    { destruct (ge (v_file v) V20_2_0_5); [|reflexivity].
      destruct wf_sizes0 as (S1 & S2). rewrite (wr_tab_all _ (le_bytes 4) sz nb (eq_sym S1)). reflexivity. }
    rewrite XD. cbn [bind].
    assert (XE : (if ge (v_file v) V20_1_0_1
                  then bind (wr_tab wr_str4 st ns) (fun st0 => Ok (le_bytes 4 ns ++ le_bytes 4 ml ++ st0))
                  else Ok []) =
                 Ok (if ge (v_file v) V20_1_0_1 then le_bytes 4 ns ++ le_bytes 4 ml ++ flat_map wr_str4 st else [])).
    { destruct (ge (v_file v) V20_1_0_1); [|reflexivity].
      destruct wf_strings0 as (R1 & _). rewrite (wr_tab_all _ wr_str4 st ns R1). reflexivity. }
    rewrite XE. cbn [bind].
    assert (XF : (if ge (v_file v) V5_0_0_6
                  then bind (wr_tab (le_bytes 4) g ng) (fun g0 => Ok (le_bytes 4 ng ++ g0))
                  else Ok []) =
                 Ok (if ge (v_file v) V5_0_0_6 then le_bytes 4 ng ++ flat_map (le_bytes 4) g else [])).
    { destruct (ge (v_file v) V5_0_0_6); [|reflexivity].
      destruct wf_groups0 as (G1 & _). rewrite (wr_tab_all _ (le_bytes 4) g ng G1). reflexivity. }
    rewrite XF. cbn [bind]. reflexivity.
Qed.

(* ---- reading the parts back ---- *)
Lemma rd_str1_bytes : forall s r, str1_ok s -> rd_nistring 1 (str1_bytes s ++ r) = Ok (s, r).
Proof.
  intros s r H. pose proof (rd_wr_str1 s r H) as [A _].
  rewrite wr_str1_eq in A by apply H. exact A.
Qed.

Lemma get_beth_put : forall v cr unk e1 e2 e3 r,
  u32 (v_stream v) -> str1_ok cr ->
  (if 130 <? v_stream v then u32 unk else unk = 0) ->
  str1_ok e1 -> str1_ok e2 -> (if v_stream v =? 130 then str1_ok e3 else e3 = []) ->
  forall v0,
  get_beth v0 ((le_bytes 4 (v_stream v) ++ str1_bytes cr
       ++ (if 130 <? v_stream v then le_bytes 4 unk else [])
       ++ str1_bytes e1 ++ str1_bytes e2
       ++ (if v_stream v =? 130 then str1_bytes e3 else [])) ++ r)
  = Ok ((v_stream v, cr, unk, e1, e2, e3), r).
Proof.
  intros v cr unk e1 e2 e3 r Hs Hc Hu H1 H2 H3 v0. unfold get_beth.
  repeat rewrite <- app_assoc.
  rewrite rd_u32 by assumption. cbn [bind].
  rewrite rd_str1_bytes by assumption. cbn [bind].
  destruct (130 <? v_stream v) eqn:E.
  - rewrite rd_u32 by assumption. cbn [bind].
    rewrite rd_str1_bytes by assumption. cbn [bind].
    rewrite rd_str1_bytes by assumption. cbn [bind].
    destruct (v_stream v =? 130) eqn:E2; [lia|]. cbn [bind app]. subst e3. reflexivity.
  - cbn [app bind]. subst unk.
    rewrite rd_str1_bytes by assumption. cbn [bind].
    rewrite rd_str1_bytes by assumption. cbn [bind].
    destruct (v_stream v =? 130) eqn:E2.
    + rewrite rd_str1_bytes by assumption. reflexivity.
    + cbn [bind app]. subst e3. reflexivity.
Qed.

Theorem hdr_get_put : forall t r, wf_tables t ->
  exists po, put_hdr t = Ok po /\ po_tables po = t /\ get_hdr (po_bytes po ++ r) = Ok (t, r).
Proof.
  intros t r W. eexists. split; [apply put_hdr_wf; assumption|]. split; [reflexivity|].
  unfold po_bytes. cbn [po_pre po_sizes po_post].
  destruct W. destruct t as [v en nb cr unk e1 e2 e3 esz emb nt ty ti sz ns ml st ng g].
  destruct v as [file user stream].
  cbn [h_ver h_endian h_nblocks h_creator h_unkint h_exp1 h_exp2 h_exp3 h_embed_size h_embed
       h_ntypes h_types h_tidx h_sizes h_nstrings h_maxlen h_strings h_ngroups h_groups
       v_file v_user v_stream] in *.
  destruct wf_file0 as [Hgt Hf].
  unfold get_hdr, part_a.
  cbn [h_ver h_endian h_nblocks v_file v_user v_stream].
  (* the first line *)
  unfold line_ok in wf_line0.
  destruct (split_line 128 (ver_text file ++ [10])) as [[l l0]|] eqn:EL; [|discriminate].
  destruct l0; [|discriminate].
  destruct (parse_ver_line l) as [[nds tv]|] eqn:EP; [|discriminate].
  destruct nds; [discriminate|].
  repeat rewrite <- app_assoc.
  rewrite (app_assoc (ver_text file) [10]).
  rewrite (split_line_app _ _ _ _ _ EL). cbn [app]. rewrite EP. rewrite wf_line0. cbn [negb].
  rewrite rd_u32 by assumption. cbn [bind].
  (* endian, user, numBlocks *)
  assert (XE : forall rest (k : N * list N -> res (tables * list N)),
             bind (if ge file V20_0_0_3
                   then rd_uint 1 ((if ge file V20_0_0_3 then le_bytes 1 en else []) ++ rest)
                   else Ok (1, (if ge file V20_0_0_3 then le_bytes 1 en else []) ++ rest)) k = k (en, rest)).
  { intros. destruct (ge file V20_0_0_3); [rewrite rd_u8 by assumption|subst en]; reflexivity. }
  rewrite XE. clear XE.
  assert (XU : forall rest (k : N * list N -> res (tables * list N)),
             bind (if ge file V10_0_1_8
                   then rd_uint 4 ((if ge file V10_0_1_8 then le_bytes 4 user else []) ++ rest)
                   else Ok (0, (if ge file V10_0_1_8 then le_bytes 4 user else []) ++ rest)) k = k (user, rest)).
  { intros. destruct (ge file V10_0_1_8); [rewrite rd_u32 by assumption|subst user]; reflexivity. }
  rewrite XU. clear XU.
  rewrite rd_u32 by assumption. cbn [bind].
  (* Bethesda part / embedded data *)
  rewrite (is_bethesda_stream file user stream) in *.
  assert (XB : forall rest,
    (if is_bethesda (mkVer file user 0)
     then bind (get_beth (mkVer file user 0) (part_b (mkTables (mkVer file user stream) en nb cr unk e1 e2 e3 esz emb nt ty ti sz ns ml st ng g) ++ rest))
               (fun y => let '(b, s) := y in Ok ((b, (0, [])), s))
     else if ge file V30_0_0_2
          then bind (rd_uint 4 (part_b (mkTables (mkVer file user stream) en nb cr unk e1 e2 e3 esz emb nt ty ti sz ns ml st ng g) ++ rest))
                    (fun y => let '(n, s) := y in
                     bind (rd_tab (rd_uint 1) n s) (fun z => let '(e, s0) := z in
                     Ok (((0, [], 0, [], [], []), (n, e)), s0)))
          else Ok (((0, [], 0, [], [], []), (0, [])),
                   part_b (mkTables (mkVer file user stream) en nb cr unk e1 e2 e3 esz emb nt ty ti sz ns ml st ng g) ++ rest))
    = Ok (((stream, cr, unk, e1, e2, e3), (esz, emb)), rest)).
  { intros rest. unfold part_b.
    cbn [h_ver h_creator h_unkint h_exp1 h_exp2 h_exp3 h_embed_size h_embed v_file v_user v_stream].
    rewrite (is_bethesda_stream file user stream).
    destruct (is_bethesda (mkVer file user 0)) eqn:EB.
    - destruct wf_beth0 as (Hs & Hc & Hu & H1 & H2 & H3).
      cbn [negb andb] in wf_embed0. destruct wf_embed0 as [-> ->].
      pose proof (get_beth_put (mkVer file user stream) cr unk e1 e2 e3 rest Hs Hc Hu H1 H2 H3 (mkVer file user 0)) as G.
      cbn [v_stream] in G. rewrite G. reflexivity.
    - destruct wf_beth0 as (-> & -> & -> & -> & -> & ->). cbn [negb andb] in wf_embed0.
      destruct (ge file V30_0_0_2).
      + destruct wf_embed0 as (M1 & M2 & M3). rewrite <- app_assoc.
        rewrite rd_u32 by assumption. cbn [bind]. rewrite rd_tab_u8 by assumption. reflexivity.
      + destruct wf_embed0 as [-> ->]. reflexivity. }
  rewrite XB. clear XB. cbn [bind].
  (* block types *)
  assert (XC : forall rest,
    (if ge file V5_0_0_1
     then bind (rd_uint 2 (part_c (mkTables (mkVer file user stream) en nb cr unk e1 e2 e3 esz emb nt ty ti sz ns ml st ng g) ++ rest))
               (fun y => let '(nt0, s) := y in
                bind (rd_tab (rd_nistring 4) nt0 s) (fun y0 => let '(ty0, s0) := y0 in
                bind (rd_tab (rd_uint 2) nb s0) (fun y1 => let '(ti0, s1) := y1 in Ok ((nt0, ty0, ti0), s1))))
     else Ok ((0, [], []), part_c (mkTables (mkVer file user stream) en nb cr unk e1 e2 e3 esz emb nt ty ti sz ns ml st ng g) ++ rest))
    = Ok ((nt, ty, ti), rest)).
  { intros rest. unfold part_c. cbn [h_ver h_ntypes h_types h_tidx v_file].
    destruct (ge file V5_0_0_1).
    - destruct wf_types0 as (T1 & T2 & T3 & T4 & T5). repeat rewrite <- app_assoc.
      rewrite rd_u16 by assumption. cbn [bind]. rewrite rd_tab_str4 by assumption. cbn [bind].
      rewrite rd_tab_u16 by (try assumption; symmetry; assumption). reflexivity.
    - destruct wf_types0 as (-> & -> & ->). reflexivity. }
  rewrite XC. clear XC. cbn [bind].
  (* block sizes *)
  assert (XD : forall rest,
    (if ge file V20_2_0_5
     then rd_tab (rd_uint 4) nb (part_d (mkTables (mkVer file user stream) en nb cr unk e1 e2 e3 esz emb nt ty ti sz ns ml st ng g) ++ rest)
     else Ok ([], part_d (mkTables (mkVer file user stream) en nb cr unk e1 e2 e3 esz emb nt ty ti sz ns ml st ng g) ++ rest))
    = Ok (sz, rest)).
  { intros rest. unfold part_d. cbn [h_ver h_sizes v_file].
    destruct (ge file V20_2_0_5).
    - destruct wf_sizes0 as (S1 & S2). rewrite rd_tab_u32 by (try assumption; symmetry; assumption). reflexivity.
    - subst sz. reflexivity. }
  rewrite XD. clear XD. cbn [bind].
  (* strings *)
  assert (XS : forall rest,
    (if ge file V20_1_0_1
     then bind (rd_uint 4 (part_e (mkTables (mkVer file user stream) en nb cr unk e1 e2 e3 esz emb nt ty ti sz ns ml st ng g) ++ rest))
               (fun y => let '(ns0, s) := y in
                bind (rd_uint 4 s) (fun y0 => let '(ml0, s0) := y0 in
                bind (rd_tab (rd_nistring 4) ns0 s0) (fun y1 => let '(st0, s1) := y1 in Ok ((ns0, ml0, st0), s1))))
     else Ok ((0, 0, []), part_e (mkTables (mkVer file user stream) en nb cr unk e1 e2 e3 esz emb nt ty ti sz ns ml st ng g) ++ rest))
    = Ok ((ns, ml, st), rest)).
  { intros rest. unfold part_e. cbn [h_ver h_nstrings h_maxlen h_strings v_file].
    destruct (ge file V20_1_0_1).
    - destruct wf_strings0 as (R1 & R2 & R3 & R4). repeat rewrite <- app_assoc.
      rewrite rd_u32 by assumption. cbn [bind]. rewrite rd_u32 by assumption. cbn [bind].
      rewrite rd_tab_str4 by assumption. reflexivity.
    - destruct wf_strings0 as (-> & -> & ->). reflexivity. }
  rewrite XS. clear XS. cbn [bind].
  (* groups *)
  assert (XG :
    (if ge file V5_0_0_6
     then bind (rd_uint 4 (part_f (mkTables (mkVer file user stream) en nb cr unk e1 e2 e3 esz emb nt ty ti sz ns ml st ng g) ++ r))
               (fun y => let '(ng0, s) := y in
                bind (rd_tab (rd_uint 4) ng0 s) (fun y0 => let '(g0, s0) := y0 in Ok ((ng0, g0), s0)))
     else Ok ((0, []), part_f (mkTables (mkVer file user stream) en nb cr unk e1 e2 e3 esz emb nt ty ti sz ns ml st ng g) ++ r))
    = Ok ((ng, g), r)).
  { unfold part_f. cbn [h_ver h_ngroups h_groups v_file].
    destruct (ge file V5_0_0_6).
    - destruct wf_groups0 as (G1 & G2 & G3). rewrite <- app_assoc.
      rewrite rd_u32 by assumption. cbn [bind]. rewrite rd_tab_u32 by assumption. reflexivity.
    - destruct wf_groups0 as (-> & ->). reflexivity. }
  rewrite XG. reflexivity.
Qed.

(* ---- 1-byte-sized strings of any length: Put cuts them to 254 characters in memory and in the
   file alike, so Get reads back the header Put leaves in memory ---- *)
Definition clip_tables (t : tables) : tables :=
  mkTables (h_ver t) (h_endian t) (h_nblocks t) (clip1 (h_creator t)) (h_unkint t)
           (clip1 (h_exp1 t)) (clip1 (h_exp2 t)) (clip1 (h_exp3 t))
           (h_embed_size t) (h_embed t) (h_ntypes t) (h_types t) (h_tidx t) (h_sizes t)
           (h_nstrings t) (h_maxlen t) (h_strings t) (h_ngroups t) (h_groups t).

Lemma clip1_nil_inv : forall s, clip1 s = [] -> s = [].
Proof. intros s H. destruct s; [reflexivity|]. unfold clip1 in H. simpl in H. discriminate. Qed.

Lemma clip_tables_wf_id : forall t, wf_tables t -> clip_tables t = t.
Proof.
  intros t W. destruct W. destruct t as [v en nb cr unk e1 e2 e3 esz emb nt ty ti sz ns ml st ng g].
  cbn [h_ver h_creator h_unkint h_exp1 h_exp2 h_exp3] in *. unfold clip_tables.
  cbn [h_ver h_endian h_nblocks h_creator h_unkint h_exp1 h_exp2 h_exp3 h_embed_size h_embed
       h_ntypes h_types h_tidx h_sizes h_nstrings h_maxlen h_strings h_ngroups h_groups].
  destruct (is_bethesda v).
  - destruct wf_beth0 as (_ & Hc & _ & H1 & H2 & H3).
    rewrite (clip1_short cr) by apply Hc. rewrite (clip1_short e1) by apply H1. rewrite (clip1_short e2) by apply H2.
    destruct (v_stream v =? 130); [rewrite (clip1_short e3) by apply H3|subst e3]; reflexivity.
  - destruct wf_beth0 as (_ & -> & _ & -> & -> & ->). reflexivity.
Qed.

Lemma put_hdr_clip : forall t,
  (is_bethesda (h_ver t) = false -> h_creator t = [] /\ h_exp1 t = [] /\ h_exp2 t = [] /\ h_exp3 t = []) ->
  (v_stream (h_ver t) =? 130 = false -> h_exp3 t = []) ->
  put_hdr t = put_hdr (clip_tables t).
Proof.
  intros t HB H3. destruct t as [v en nb cr unk e1 e2 e3 esz emb nt ty ti sz ns ml st ng g].
  cbn [h_ver h_creator h_exp1 h_exp2 h_exp3] in *.
  unfold put_hdr, clip_tables.
  cbn [h_ver h_endian h_nblocks h_creator h_unkint h_exp1 h_exp2 h_exp3 h_embed_size h_embed
       h_ntypes h_types h_tidx h_sizes h_nstrings h_maxlen h_strings h_ngroups h_groups].
  rewrite !wr_str1_clip.
  destruct (is_bethesda v) eqn:EB.
  - destruct (v_stream v =? 130) eqn:E3; [reflexivity|].
    rewrite (H3 eq_refl). reflexivity.
  - destruct (HB eq_refl) as (-> & -> & -> & ->). reflexivity.
Qed.

Lemma put_hdr_clip_wf : forall t, wf_tables (clip_tables t) -> put_hdr t = put_hdr (clip_tables t).
Proof.
  intros t W. apply put_hdr_clip.
  - intros EB. pose proof (wf_beth _ W) as B.
    replace (is_bethesda (h_ver (clip_tables t))) with (is_bethesda (h_ver t)) in B by reflexivity.
    rewrite EB in B. destruct B as (_ & Bc & _ & B1 & B2 & B3).
    repeat split; apply clip1_nil_inv; assumption.
  - intros E3. pose proof (wf_beth _ W) as B.
    replace (is_bethesda (h_ver (clip_tables t))) with (is_bethesda (h_ver t)) in B by reflexivity.
    replace (v_stream (h_ver (clip_tables t))) with (v_stream (h_ver t)) in B by reflexivity.
    destruct (is_bethesda (h_ver t)).
    + destruct B as (_ & _ & _ & _ & _ & B3). rewrite E3 in B3. apply clip1_nil_inv. exact B3.
    + destruct B as (_ & _ & _ & _ & _ & B3). apply clip1_nil_inv. exact B3.
Qed.

Theorem hdr_get_put_long : forall t r, wf_tables (clip_tables t) ->
  exists po, put_hdr t = Ok po /\ po_tables po = clip_tables t /\
             get_hdr (po_bytes po ++ r) = Ok (clip_tables t, r).
Proof.
  intros t r W. rewrite (put_hdr_clip_wf t W). apply hdr_get_put. exact W.
Qed.
