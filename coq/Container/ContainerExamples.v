(* Satisfiability of the hypotheses used in Properties_C03/C07, the first line for the supported
   versions, and the refuted statements about 1-byte-sized strings (DESIGN.md section 7, #10). *)
From NiflyVerif Require Import ContainerModel ContainerBase ContainerHdr ContainerWalk ContainerStrings ContainerUnknown.
From Coq Require Import ZifyBool ZifyNat ZifyN.
Local Open Scope N_scope.

(* the first line written by Put is understood by Get for every version Load accepts *)
Lemma line_ok_supported : forall v, supported v = true -> line_ok (v_file v) = true.
Proof.
  intros v H.
  assert (C : v_file v = V10_1_0_106 \/ v_file v = V10_2_0_0 \/ v_file v = V20_0_0_4 \/ v_file v = V20_0_0_5
              \/ v_file v = V20_2_0_7 \/ v_file v = V10_0_1_0).
  { unfold supported, is_ob, is_fo3, is_sk, is_sse, is_fo4, is_fo76, is_sf, is_special in H.
    repeat match goal with
           | H : (_ || _)%bool = true |- _ => apply orb_true_iff in H; destruct H as [H|H]
           | H : (_ && _)%bool = true |- _ => let H' := fresh in apply andb_true_iff in H; destruct H as [H H']
           end;
    repeat match goal with H : (v_file v =? _) = true |- _ => apply N.eqb_eq in H end; tauto. }
  destruct C as [-> | [-> | [-> | [-> | [-> | ->]]]]]; vm_compute; reflexivity.
Qed.

(* ---- NiString::Write with a 1-byte size and strings of 255 characters and more (DESIGN.md
   section 7, #10; repaired: the string is cut to what the prefix can express) ---- *)
Definition str255 : list N := repeat 65 255.
Definition str300 : list N := repeat 66 300.

Lemma str255_nul_free : nul_free str255.
Proof. apply Forall_forall; intros x Hx; apply repeat_spec in Hx; subst; discriminate. Qed.

(* the former failing inputs, now read back as their first 254 characters *)
Lemma nistring1_len255 : forall r,
  rd_nistring 1 (fst (wr_nistring 1 true str255) ++ r) = Ok (repeat 65 254, r)
  /\ snd (wr_nistring 1 true str255) = repeat 65 254.
Proof. intros r. apply (rd_wr_str1_any str255 r str255_nul_free). Qed.

Lemma nistring1_len300 : vlen (snd (wr_nistring 1 true str300)) = 254.
Proof. reflexivity. Qed.

(* ---- a concrete instance of the block layer: payload = one length byte + that many bytes ---- *)
Definition ex_put (t : tables) (rs : srefs) (b : list N) : list N := le_bytes 1 (vlen b) ++ b.
Definition ex_get (t : tables) (name : list N) (s : list N) : res ((srefs * list N) * list N) :=
  bind (rd_uint 1 s) (fun x => let '(n, r) := x in
    match take_n r n with Some (b, r') => Ok (([], b), r') | None => Fault end).
Definition ex_known (name : list N) : bool := bytes_eqb name [75].        (* "K" *)
Definition ex_id (m : model (list N)) (x : srefs * list N) := x.
Definition ex_idm (m : model (list N)) := m.

Definition ex_ver : nifver := mkVer V20_2_0_7 12 100.
Definition ex_tables (creator : list N) : tables :=
  mkTables ex_ver 1 2 creator 0 [69] [] [] 0 [] 2 [[75]; [122; 122; 85]] [0; 1] [3; 5]
           1 3 [[97; 98; 99]] 0 [].
Definition ex_pays : list (list N) := [[2; 7; 8]; [1; 2; 3; 4; 5]].
Definition ex_blocks : list (cblock (list N)) := [CKnown _ [] [7; 8]; CUnknown _ [1; 2; 3; 4; 5] 5].

Definition ex_file : list N :=
  match put_hdr (ex_tables [110; 105; 102]) with
  | Ok po => po_bytes po ++ concat ex_pays ++ footer
  | _ => []
  end.

Lemma ex_wf : wf_tables (ex_tables [110; 105; 102]).
Proof.
  constructor; cbn; try reflexivity; unfold u32, u16, u8, str1_ok, str4_ok, nul_free, cNPOS;
    repeat split; repeat constructor; try discriminate; try (vm_compute; reflexivity).
Qed.

Lemma ex_walk : walkb ex_file = Some (ex_tables [110; 105; 102], ex_pays).
Proof. vm_compute. reflexivity. Qed.

Lemma ex_codec : forall t name b r, vlen b < 256 -> ex_get t name (ex_put t [] b ++ r) = Ok (([], b), r).
Proof.
  intros. unfold ex_get, ex_put. rewrite <- app_assoc.
  rewrite rd_uint_le by (change (256 ^ N.of_nat 1) with 256; assumption). cbn [bind].
  rewrite take_n_app. reflexivity.
Qed.

Lemma ex_blocks_ok : blocks_ok (list N) ex_get ex_known (ex_tables [110; 105; 102]) 0 ex_pays ex_blocks.
Proof.
  unfold ex_pays, ex_blocks.
  eapply bo_known with (name := [75]); [reflexivity|reflexivity| |].
  - intros r. apply (ex_codec (ex_tables [110; 105; 102]) [75] [7; 8] r). reflexivity.
  - change [1; 2; 3; 4; 5] with [1; 2; 3; 4; 5] at 1.
    apply (bo_unknown (list N) ex_get ex_known (ex_tables [110; 105; 102]) (0 + 1) [1; 2; 3; 4; 5] [] [122; 122; 85] []);
      [reflexivity|reflexivity|constructor].
Qed.

(* the whole chain on the example: load keeps the unknown block, both option sets write it back *)
Definition ex_save_walk (o : save_opts) (m : model (list N)) : option (tables * list (list N)) :=
  match save (list N) ex_put ex_id ex_id ex_idm ex_idm o m with
  | Ok (bytes, _) => walkb bytes
  | _ => None
  end.

Lemma ex_roundtrip :
  match load (list N) ex_get ex_known ex_id ex_file with
  | Loaded _ m =>
    m_has_unknown _ m = true /\
    ex_save_walk (mkOpts false false) m = Some (ex_tables [110; 105; 102], ex_pays) /\
    ex_save_walk (mkOpts true true) m = Some (ex_tables [110; 105; 102], ex_pays)
  | _ => False
  end.
Proof. vm_compute. repeat split. Qed.

(* ---- a 255-character creator string at header level: the file is described by the header Put
   leaves in memory (creator cut to 254 characters) ---- *)
Lemma ex_wf_any : forall c, nul_free c -> wf_tables (clip_tables (ex_tables c)).
Proof.
  intros c C. pose proof (clip1_ok c C) as [C1 C2].
  constructor; cbn; try reflexivity; unfold u32, u16, u8, str1_ok, str4_ok, nul_free, cNPOS;
    repeat split; repeat constructor; try discriminate; try assumption; try (vm_compute; reflexivity).
Qed.

Lemma hdr_creator255 :
  exists po, put_hdr (ex_tables str255) = Ok po /\
    po_tables po = ex_tables (repeat 65 254) /\
    walkb (po_bytes po ++ concat ex_pays ++ footer) = Some (ex_tables (repeat 65 254), ex_pays).
Proof.
  eexists. split; [vm_compute; reflexivity|]. split; [reflexivity|]. vm_compute. reflexivity.
Qed.
