(* Bridge to the header/graph layer (C06): the invariant proved there for every edit history
   supplies the counter hypotheses that wf_tables / wf_model ask of the header block table. *)
From NiflyVerif Require Import Res GraphModel GraphInv.
From Coq Require Import ZifyBool ZifyNat ZifyN.
Local Open Scope N_scope.

Lemma Forall2_len : forall A B (R : A -> B -> Prop) l l', Forall2 R l l' -> length l = length l'.
Proof. induction 1; simpl; congruence. Qed.

Lemma inv_counts : forall h, Inv h ->
  nblocks h = vlen (blocks h) /\ ntypes h = vlen (tnames h) /\ vlen (tidx h) = nblocks h /\
  (has_sizes h = true -> vlen (sizes h) = nblocks h) /\
  Forall (fun t => t < ntypes h) (tidx h) /\ nblocks h < 4294967295.
Proof.
  intros h I. destruct I.
  pose proof (Forall2_len _ _ _ _ _ inv_types) as L.
  split; [assumption|]. split; [assumption|].
  split; [rewrite inv_nblocks; unfold vlen; lia|].
  split; [intros Hs; rewrite inv_nblocks; unfold vlen; rewrite (inv_sizes Hs); reflexivity|].
  split.
  - rewrite inv_ntypes. clear -inv_types. induction inv_types; constructor; [|assumption].
    unfold type_ok in H. assert (N.to_nat y < length (tnames h))%nat by (apply nth_error_Some; congruence).
    unfold vlen. lia.
  - rewrite inv_nblocks. exact inv_small.
Qed.
