(* C07: the file written by Save is walked by the independent reader, which finds the payloads
   exactly where the (patched) size table says and lands on the footer at the end of the file. *)
From NiflyVerif Require Import ContainerModel ContainerBase ContainerHdr.
From Coq Require Import ZifyBool ZifyNat ZifyN.
Local Open Scope N_scope.

Lemma skip_blocks_concat : forall ps r, skip_blocks (map (@vlen N) ps) (concat ps ++ r) = Some (ps, r).
Proof.
  induction ps as [|p ps IH]; intros r; simpl; [reflexivity|].
  rewrite <- app_assoc. rewrite take_n_app. rewrite IH. reflexivity.
Qed.

(* the walker only returns slices of its input: header bytes, then the payloads, then the footer *)
Lemma skip_blocks_split : forall sizes s ps r,
  skip_blocks sizes s = Some (ps, r) -> s = concat ps ++ r /\ map (@vlen N) ps = sizes.
Proof.
  induction sizes as [|n sizes IH]; intros s ps r H; simpl in H.
  - inversion H; subst. split; reflexivity.
  - destruct (take_n s n) as [[p s']|] eqn:T; [|discriminate].
    destruct (skip_blocks sizes s') as [[ps' s'']|] eqn:K; [|discriminate].
    inversion H; subst. apply take_n_split in T. destruct T as [-> L].
    apply IH in K. destruct K as [-> M]. simpl. rewrite <- app_assoc, M, L. split; reflexivity.
Qed.

Lemma patch_mid : forall (a d d' z : list N),
  length d' = length d -> patch (vlen a) d' (a ++ d ++ z) = a ++ d' ++ z.
Proof.
  intros a d d' z L. unfold patch. unfold vlen. rewrite Nat2N.id.
  rewrite firstn_app, firstn_all, Nat.sub_diag. simpl firstn. rewrite app_nil_r.
  rewrite skipn_app. rewrite skipn_all2 by lia. simpl app.
  replace (length a + length d' - length a)%nat with (length d) by lia.
  rewrite skipn_app, skipn_all, Nat.sub_diag. reflexivity.
Qed.

Lemma flat_map_le4_length : forall l, length (flat_map (le_bytes 4) l) = (4 * length l)%nat.
Proof. induction l; [reflexivity|]. cbn [flat_map]. rewrite app_length, le_bytes_length, IHl. simpl length. lia. Qed.

Lemma flat_map_map : forall A B (f : A -> B) (g : B -> list N) l, flat_map g (map f l) = flat_map (fun x => g (f x)) l.
Proof. induction l; simpl; [reflexivity|]. rewrite IHl. reflexivity. Qed.

Lemma part_a_ne : forall t, vlen (part_a t) <> 0.
Proof.
  intros. unfold part_a. cbv zeta. rewrite !vlen_app. unfold vlen at 2. simpl length. lia.
Qed.

Lemma wf_set_sizes : forall t sz, wf_tables t ->
  ge (v_file (h_ver t)) V20_2_0_5 = true -> vlen sz = h_nblocks t -> Forall u32 sz ->
  wf_tables (set_sizes t sz).
Proof.
  intros t sz W G L F. destruct W.
  constructor; unfold set_sizes;
    cbn [h_ver h_endian h_nblocks h_creator h_unkint h_exp1 h_exp2 h_exp3 h_embed_size h_embed
         h_ntypes h_types h_tidx h_sizes h_nstrings h_maxlen h_strings h_ngroups h_groups]; try assumption.
  rewrite G. split; assumption.
Qed.

Section Walk.
  Variable blk : Type.
  Variable put_blk : tables -> srefs -> blk -> list N.

  Notation cblock := (cblock blk).
  Notation model := (model blk).
  Notation put_block := (put_block blk put_blk).
  Notation put_blocks := (put_blocks blk put_blk).
  Notation save_core := (save_core blk put_blk).

  Lemma put_blocks_all : forall t (pre bs : list cblock) ps fuel,
    Forall2 (fun b p => put_block t b = Ok p) bs ps -> (length bs < fuel)%nat ->
    put_blocks t (pre ++ bs) fuel (vlen pre) (vlen (pre ++ bs)) = Ok ps.
  Proof.
    intros t pre bs ps. revert pre ps. induction bs as [|b bs IH]; intros pre ps fuel F Hf.
    - inversion F; subst. rewrite app_nil_r. destruct fuel; cbn [ContainerModel.put_blocks]; rewrite N.ltb_irrefl; reflexivity.
    - inversion F as [|? p ? ps' Hb F']; subst. destruct fuel as [|fuel]; [lia|]. cbn [ContainerModel.put_blocks].
      destruct (vlen pre <? vlen (pre ++ b :: bs)) eqn:E; [|rewrite vlen_app, vlen_cons in E; lia].
      unfold vget. unfold vlen at 1. rewrite Nat2N.id. rewrite nth_error_app2 by lia.
      rewrite Nat.sub_diag. simpl nth_error. cbv iota beta. rewrite Hb. cbn [bind].
      replace (vlen pre + 1) with (vlen (pre ++ [b])) by (rewrite vlen_app; reflexivity).
      replace (pre ++ b :: bs) with ((pre ++ [b]) ++ bs) by (rewrite <- app_assoc; reflexivity).
      rewrite (IH (pre ++ [b]) ps' fuel F') by (simpl in Hf; lia). reflexivity.
  Qed.

  (* what Save needs of the in-memory model (after FinalizeData / Optimize / sorting): a
     well-formed header whose block count is the length of the block vector (C06's invariant), a
     version that carries the size table, payloads below 4 GiB *)
  Record wf_model (m : model) (ps : list (list N)) : Prop := mkWfm {
    wfm_hdr : wf_tables (m_hdr _ m);
    wfm_ver : ge (v_file (h_ver (m_hdr _ m))) V20_2_0_5 = true;
    wfm_count : h_nblocks (m_hdr _ m) = vlen (m_blocks _ m);
    wfm_put : Forall2 (fun b p => put_block (m_hdr _ m) b = Ok p) (m_blocks _ m) ps;
    wfm_small : Forall (fun p => u32 (vlen p)) ps
  }.

  Lemma Forall2_length : forall A B (R : A -> B -> Prop) l l', Forall2 R l l' -> length l = length l'.
  Proof. induction 1; simpl; congruence. Qed.

  Theorem walk_save : forall m ps, wf_model m ps ->
    let t' := set_sizes (m_hdr _ m) (map (@vlen N) ps) in
    exists bytes hb,
      save_core m = Ok (bytes, m) /\
      bytes = hb ++ concat ps ++ footer /\
      get_hdr bytes = Ok (t', concat ps ++ footer) /\
      walkb bytes = Some (t', ps) /\ walk bytes = Some t'.
  Proof.
    intros m ps W t'. destruct W as [Wh Wv Wc Wp Ws].
    destruct m as [t bs hu]. cbn [m_hdr m_blocks m_has_unknown] in *.
    assert (Ln : length bs = length ps) by (eapply Forall2_length; eauto).
    assert (Wt' : wf_tables t').
    { apply wf_set_sizes; try assumption.
      - unfold vlen. rewrite map_length. rewrite Wc. unfold vlen. lia.
      - clear -Ws. induction Ws; simpl; constructor; assumption. }
    pose proof (put_hdr_wf t Wh) as P.
    pose proof (put_hdr_wf t' Wt') as P'.
    pose proof (hdr_get_put t' (concat ps ++ footer) Wt') as (po & Q1 & Q2 & Q3).
    rewrite P' in Q1. inversion Q1; subst po. clear Q1 Q2.
    unfold po_bytes in Q3. cbn [po_pre po_sizes po_post] in Q3.
    (* the parts that do not depend on the size table *)
    assert (Ea : part_a t' = part_a t) by reflexivity.
    assert (Eb : part_b t' = part_b t) by reflexivity.
    assert (Ec : part_c t' = part_c t) by reflexivity.
    assert (Ee : part_e t' = part_e t) by reflexivity.
    assert (Ef : part_f t' = part_f t) by reflexivity.
    assert (Ed : part_d t' = flat_map (fun p => le_bytes 4 (vlen p)) ps).
    { unfold part_d, t', set_sizes. cbn [h_ver h_sizes]. rewrite Wv. apply flat_map_map. }
    assert (Ed0 : part_d t = flat_map (le_bytes 4) (h_sizes t)).
    { unfold part_d. rewrite Wv. reflexivity. }
    rewrite Ea, Eb, Ec, Ee, Ef, Ed in Q3.
    exists ((part_a t ++ part_b t ++ part_c t) ++ flat_map (fun p => le_bytes 4 (vlen p)) ps ++ part_e t ++ part_f t ++ concat ps ++ footer).
    exists ((part_a t ++ part_b t ++ part_c t) ++ flat_map (fun p => le_bytes 4 (vlen p)) ps ++ part_e t ++ part_f t).
    assert (S : save_core (mkModel _ t bs hu) =
                Ok ((part_a t ++ part_b t ++ part_c t) ++ flat_map (fun p => le_bytes 4 (vlen p)) ps
                    ++ part_e t ++ part_f t ++ concat ps ++ footer, mkModel _ t bs hu)).
    { unfold save_core. cbn [m_hdr m_blocks m_has_unknown]. rewrite P. cbn [bind po_tables].
      rewrite Wc.
      pose proof (put_blocks_all t [] bs ps (S (length bs)) Wp ltac:(lia)) as PB.
      simpl app in PB. rewrite vlen_nil in PB. rewrite PB. cbn [bind].
      unfold po_size_pos, po_bytes. cbn [po_tables po_pre po_sizes po_post]. rewrite Wv.
      destruct (vlen (part_a t ++ part_b t ++ part_c t) =? 0) eqn:E0.
      { exfalso. pose proof (part_a_ne t). rewrite vlen_app in E0. lia. }
      f_equal. f_equal.
      repeat rewrite <- app_assoc.
      replace (part_a t ++ part_b t ++ part_c t ++ part_d t ++ part_e t ++ part_f t ++ concat ps ++ footer)
        with ((part_a t ++ part_b t ++ part_c t) ++ part_d t ++ (part_e t ++ part_f t ++ concat ps ++ footer))
        by (repeat rewrite <- app_assoc; reflexivity).
      replace (vlen (part_a t ++ part_b t ++ part_c t))
        with (vlen ((part_a t ++ part_b t ++ part_c t))) by reflexivity.
      rewrite patch_mid.
      - repeat rewrite <- app_assoc. reflexivity.
      - rewrite Ed0. rewrite <- (flat_map_map _ _ (@vlen N) (le_bytes 4)).
        rewrite !flat_map_le4_length. rewrite map_length.
        pose proof (wf_sizes _ Wh) as Z. rewrite Wv in Z. destruct Z as [L _].
        rewrite Wc in L. unfold vlen in L. lia. }
    split; [exact S|]. split; [repeat rewrite <- app_assoc; reflexivity|].
    assert (G : get_hdr ((part_a t ++ part_b t ++ part_c t) ++ flat_map (fun p => le_bytes 4 (vlen p)) ps
                         ++ part_e t ++ part_f t ++ concat ps ++ footer) = Ok (t', concat ps ++ footer)).
    { rewrite <- Q3. f_equal. repeat rewrite <- app_assoc. reflexivity. }
    split; [exact G|].
    assert (WB : walkb ((part_a t ++ part_b t ++ part_c t) ++ flat_map (fun p => le_bytes 4 (vlen p)) ps
                         ++ part_e t ++ part_f t ++ concat ps ++ footer) = Some (t', ps)).
    { unfold walkb. rewrite G.
      replace (v_file (h_ver t')) with (v_file (h_ver t)) by reflexivity. rewrite Wv. cbn [negb].
      replace (h_sizes t') with (map (@vlen N) ps) by reflexivity.
      rewrite skip_blocks_concat. rewrite bytes_eqb_refl. reflexivity. }
    split; [exact WB|]. unfold walk. rewrite WB. reflexivity.
  Qed.


  (* the same with 1-byte-sized header strings of any length: Save leaves the header with those
     strings cut to 254 characters, and that header describes the file *)
  Definition clip_model (m : model) : model :=
    mkModel _ (clip_tables (m_hdr _ m)) (m_blocks _ m) (m_has_unknown _ m).

  Lemma save_core_clip : forall m, wf_tables (clip_tables (m_hdr _ m)) ->
    save_core m = save_core (clip_model m).
  Proof.
    intros m W. unfold ContainerModel.save_core, clip_model. cbn [m_hdr m_blocks m_has_unknown].
    rewrite (put_hdr_clip_wf _ W). reflexivity.
  Qed.

  Theorem walk_save_long : forall m ps, wf_model (clip_model m) ps ->
    let t' := set_sizes (clip_tables (m_hdr _ m)) (map (@vlen N) ps) in
    exists bytes hb,
      save_core m = Ok (bytes, clip_model m) /\
      bytes = hb ++ concat ps ++ footer /\
      get_hdr bytes = Ok (t', concat ps ++ footer) /\
      walkb bytes = Some (t', ps) /\ walk bytes = Some t'.
  Proof.
    intros m ps W. rewrite save_core_clip by (apply (wfm_hdr _ _ W)).
    exact (walk_save (clip_model m) ps W).
  Qed.

  (* conversely: whatever the walker accepts is header ++ payloads of the declared sizes ++ footer,
     with nothing behind the footer *)
  Theorem walkb_sound : forall s t ps, walkb s = Some (t, ps) ->
    exists r, get_hdr s = Ok (t, r) /\ r = concat ps ++ footer /\ map (@vlen N) ps = h_sizes t.
  Proof.
    intros s t ps H. unfold walkb in H.
    destruct (get_hdr s) as [[t0 r]| |] eqn:G; try discriminate.
    destruct (negb (ge (v_file (h_ver t0)) V20_2_0_5)); [discriminate|].
    destruct (skip_blocks (h_sizes t0) r) as [[ps0 tail]|] eqn:K; [|discriminate].
    destruct (bytes_eqb tail footer) eqn:B; [|discriminate].
    inversion H; subst. apply bytes_eqb_eq in B. subst tail.
    apply skip_blocks_split in K. destruct K as [-> M].
    exists (concat ps ++ footer). repeat split; assumption.
  Qed.
End Walk.
