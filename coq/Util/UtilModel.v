(* Loop-faithful models of include/NifUtil.hpp:16-182.
   Every C++ loop is a recursion on explicit fuel; every container access goes through
   [vget]/[vset], which fail outside the container, so "never reads or writes outside its
   containers" is the statement that a run is not [Fault]. Counters carry their C width. *)
From NiflyVerif Require Export Res.
Local Open Scope N_scope.

(* ++x for a counter of [w] value bits; unsigned wraps, signed overflow is undefined -> Fault *)
Definition incr (w : N) (sgn : bool) (x : N) : res N :=
  if x + 1 <? 2 ^ w then Ok (x + 1) else if sgn then Fault else Ok 0.

(* static_cast<IndexType>(size_t) as the loops use it for bounds *)
Definition cast_len (w : N) (sgn : bool) (n : N) : N :=
  if sgn then (if n <? 2 ^ w then n else 0) else wrapN w n.

(* ---------------------------------------------------------------------------------------- *)
(* Generic in-place forward compaction loop:
     for (; si < bound; ++si) { if (skip) {...} else v[di++] = f(v[si]); }
   shared by EraseVectorIndices and ApplyMapToTriangles. [dec s si x] is the loop body's decision
   for the element x = v[si] in auxiliary state s: the new auxiliary state and either nothing
   (element dropped) or the value stored at v[di]. *)
Section Compact.
  Context {A S : Type}.
  Variable dec : S -> N -> A -> res (S * option A).
  Variable inc_si inc_di : N -> res N.

  Fixpoint compact_loop (fuel : nat) (bound : N) (v : list A) (s : S) (di si : N)
    : res (list A * S * N) :=
    match fuel with
    | O => OutOfFuel
    | Datatypes.S f =>
      if si <? bound then
        match vget v si with
        | None => Fault
        | Some x =>
          bind (dec s si x) (fun so =>
            match snd so with
            | None => bind (inc_si si) (fun si' => compact_loop f bound v (fst so) di si')
            | Some y =>
              match vset v di y with
              | None => Fault
              | Some v' =>
                bind (inc_di di) (fun di' =>
                bind (inc_si si) (fun si' => compact_loop f bound v' (fst so) di' si'))
              end
            end)
        end
      else Ok (v, s, di)
    end.
End Compact.

(* ---------------------------------------------------------------------------------------- *)
(* EraseVectorIndices<VectorType, IndexType>  (NifUtil.hpp:58-75); IndexType unsigned, w bits *)
Section Erase.
  Context {A : Type}.
  Variable w : N.          (* value bits of IndexType *)

  (* body: if (indi < indices.size() && si == indices[indi]) ++indi; else v[di++] = move(v[si]); *)
  Definition erase_dec (idx : list N) (indi : N) (si : N) (x : A) : res (N * option A) :=
    if indi <? vlen idx then
      match vget idx indi with
      | None => Fault
      | Some k => if si =? k then Ok (indi + 1, None) else Ok (indi, Some x)
      end
    else Ok (indi, Some x).

  Definition erase_model (d : A) (v : list A) (idx : list N) : res (list A) :=
    match idx with
    | [] => Ok v                                         (* indices.empty() *)
    | i0 :: _ =>
      if vlen v <=? i0 then Ok v                         (* indices[0] >= v.size() *)
      else
        bind (incr w false i0) (fun si0 =>               (* IndexType si = di + 1 *)
        bind (compact_loop (erase_dec idx) (incr w false) (incr w false)
                           (Datatypes.S (length v)) (vlen v) v 1 i0 si0)
             (fun r => Ok (vresize d (fst (fst r)) (snd r))))   (* v.resize(di) *)
    end.
End Erase.

(* ---------------------------------------------------------------------------------------- *)
(* ApplyMapToTriangles<IndexType1, IndexType2>  (NifUtil.hpp:19-44).
   Triangles are triples of 16-bit values; the map holds IndexType1 values (Z: may be negative);
   si has IndexType2 ([w2] value bits, signedness [sg2]); di is an int. *)

Definition wrap16Z (z : Z) : N := Z.to_N (Z.modulo z 65536).

Section ApplyMap.
  Variable w2 : N.
  Variable sg2 : bool.

  Definition map_ok (map : list Z) (p : N) : res bool :=      (* p < mapsz && !(map[p] < 0) *)
    if p <? vlen map then
      match vget map p with None => Fault | Some m => Ok (negb (Z.ltb m 0)) end
    else Ok false.

  Definition amt_dec (map : list Z) (deleted : list N) (si : N) (t : tri)
    : res (list N * option tri) :=
    let '(p1, p2, p3) := t in
    (* the C++ condition is a short-circuit || chain: range tests first, then the three look-ups *)
    if (p1 <? vlen map) && (p2 <? vlen map) && (p3 <? vlen map) then
      match vget map p1, vget map p2, vget map p3 with
      | Some m1, Some m2, Some m3 =>
        if (Z.ltb m1 0 || Z.ltb m2 0 || Z.ltb m3 0)%bool
        then Ok (deleted ++ [si], None)
        else Ok (deleted, Some (wrap16Z m1, wrap16Z m2, wrap16Z m3))
      | _, _, _ => Fault
      end
    else Ok (deleted ++ [si], None).

  (* returns the new triangle list and the deletedTris list *)
  Definition apply_map_tris_model (tris : list tri) (map : list Z) : res (list tri * list N) :=
    bind (compact_loop (amt_dec map) (incr w2 sg2) (incr 31 true)
                       (Datatypes.S (length tris)) (cast_len w2 sg2 (vlen tris)) tris [] 0 0)
         (fun r => Ok (vresize (0, 0, 0) (fst (fst r)) (snd r), snd (fst r))).
End ApplyMap.

(* ---------------------------------------------------------------------------------------- *)
(* Generic forward fill loop: for (si = 0; si < n; ++si) { map[si] = g(state); } *)
Section Fill.
  Context {S : Type}.
  Variable body : S -> N -> res (S * Z).       (* value stored at map[si] and next state *)
  Variable inc_si : N -> res N.

  Fixpoint fill_loop (fuel : nat) (n : N) (m : list Z) (s : S) (si : N) : res (list Z) :=
    match fuel with
    | O => OutOfFuel
    | Datatypes.S f =>
      if si <? n then
        bind (body s si) (fun sz =>
          match vset m si (snd sz) with
          | None => Fault
          | Some m' => bind (inc_si si) (fun si' => fill_loop f n m' (fst sz) si')
          end)
      else Ok m
    end.
End Fill.

(* GenerateIndexCollapseMap<IndexType1, IndexType2>  (NifUtil.hpp:99-115).
   state = (indi, di); static_cast<int>(di) is the identity below 2^31. *)
Section Collapse.
  Variable w2 : N.
  Variable sg2 : bool.

  Definition to_int (x : N) : Z :=                (* static_cast<int>(unsigned value) *)
    let z := Z.modulo (Z.of_N x) 4294967296 in
    if Z.ltb z 2147483648 then z else (z - 4294967296)%Z.

  Definition collapse_body (idx : list N) (s : N * N) (si : N) : res ((N * N) * Z) :=
    let '(indi, di) := s in
    if indi <? vlen idx then
      match vget idx indi with
      | None => Fault
      | Some k =>
        if si =? k then Ok ((indi + 1, di), (-1)%Z)
        else bind (incr w2 sg2 di) (fun di' => Ok ((indi, di'), to_int di))
      end
    else bind (incr w2 sg2 di) (fun di' => Ok ((indi, di'), to_int di)).

  Definition collapse_model (idx : list N) (mapSize : N) : res (list Z) :=
    fill_loop (collapse_body idx) (incr w2 sg2) (Datatypes.S (N.to_nat mapSize)) mapSize
              (repeat 0%Z (N.to_nat mapSize)) (0, 0) 0.

  (* GenerateIndexExpandMap (NifUtil.hpp:117-130):
       for (si = 0, di = 0; si < mapSize; ++si, ++di) {
         while (indi < indices.size() && di == indices[indi]) ++di, ++indi;
         map[si] = (int) di; }                                                        *)
  Fixpoint expand_skip (fuel : nat) (idx : list N) (indi di : N) : res (N * N) :=
    match fuel with
    | O => OutOfFuel
    | Datatypes.S f =>
      if indi <? vlen idx then
        match vget idx indi with
        | None => Fault
        | Some k =>
          if di =? k then bind (incr w2 sg2 di) (fun di' => expand_skip f idx (indi + 1) di')
          else Ok (indi, di)
        end
      else Ok (indi, di)
    end.

  Definition expand_body (idx : list N) (s : N * N) (si : N) : res ((N * N) * Z) :=
    let '(indi, di) := s in
    bind (expand_skip (Datatypes.S (length idx)) idx indi di) (fun s' =>
    bind (incr w2 sg2 (snd s')) (fun di' => Ok ((fst s', di'), to_int (snd s')))).

  Definition expand_model (idx : list N) (mapSize : N) : res (list Z) :=
    fill_loop (expand_body idx) (incr w2 sg2) (Datatypes.S (N.to_nat mapSize)) mapSize
              (repeat 0%Z (N.to_nat mapSize)) (0, 0) 0.
End Collapse.

(* ---------------------------------------------------------------------------------------- *)
(* InsertVectorIndices<VectorType, IndexType>  (NifUtil.hpp:77-97), IndexType unsigned [w] bits.
     indi = indices.size()-1 (int64); di = v.size()+indices.size()-1; si = v.size()-1;
     v.resize(di+1);
     while (true) { while (indi >= 0 && di == indices[indi]) --di, --indi;
                    if (indi < 0) break;  v[di--] = move(v[si--]); }
   indi is kept as "indi+1" (a natural number: 0 means indi = -1). *)
Section Insert.
  Context {A : Type}.
  Variable w : N.

  Definition decr (x : N) : N := if x =? 0 then 2 ^ w - 1 else x - 1.   (* unsigned --x *)

  Fixpoint insert_skip (fuel : nat) (idx : list N) (indi1 di : N) : res (N * N) :=
    match fuel with
    | O => OutOfFuel
    | Datatypes.S f =>
      if 0 <? indi1 then
        match vget idx (indi1 - 1) with
        | None => Fault
        | Some k => if di =? k then insert_skip f idx (indi1 - 1) (decr di) else Ok (indi1, di)
        end
      else Ok (indi1, di)
    end.

  Fixpoint insert_loop (fuel : nat) (v : list A) (idx : list N) (indi1 di si : N) : res (list A) :=
    match fuel with
    | O => OutOfFuel
    | Datatypes.S f =>
      bind (insert_skip (Datatypes.S (length idx)) idx indi1 di) (fun s =>
        if fst s =? 0 then Ok v
        else match vget v si with
             | None => Fault
             | Some x => match vset v (snd s) x with
                         | None => Fault
                         | Some v' => insert_loop f v' idx (fst s) (decr (snd s)) (decr si)
                         end
             end)
    end.

  Definition insert_model (d : A) (v : list A) (idx : list N) : res (list A) :=
    match idx with
    | [] => Ok v
    | _ =>
      if vlen v + vlen idx <=? last idx 0 then Ok v       (* indices.back() >= v.size()+indices.size() *)
      else
        let di := wrapN w (vlen v + vlen idx - 1) in
        let si := if vlen v =? 0 then 2 ^ w - 1 else wrapN w (vlen v - 1) in
        (* v.resize(di + 1): a sub-int IndexType is promoted to int (no wrap), otherwise unsigned wrap *)
        let v1 := vresize d v (if w <? 32 then di + 1 else wrapN w (di + 1)) in
        insert_loop (Datatypes.S (length v + length idx)) v1 idx (vlen idx) di si
    end.
End Insert.

(* ---------------------------------------------------------------------------------------- *)
(* GenerateTrianglesFromStrips<IndexType> (NifUtil.hpp:155-182); points are cast to uint16_t *)
Definition wrap16 (x : N) : N := wrapN 16 x.

Fixpoint strip_loop (fuel : nat) (strip : list N) (i a b : N) (acc : list tri) : res (list tri) :=
  match fuel with
  | O => OutOfFuel
  | Datatypes.S f =>
    if i <? vlen strip then
      match vget strip i with
      | None => Fault
      | Some c0 =>
        let c := wrap16 c0 in
        let acc' :=
          if (negb (a =? b) && negb (b =? c) && negb (c =? a))%bool
          then (if N.land i 1 =? 0 then acc ++ [(a, b, c)] else acc ++ [(a, c, b)])
          else acc in
        strip_loop f strip (i + 1) b c acc'
      end
    else Ok acc
  end.

Definition strip_model (strip : list N) (acc : list tri) : res (list tri) :=
  if vlen strip <? 3 then Ok acc
  else match vget strip 0, vget strip 1 with
       | Some a, Some b => strip_loop (Datatypes.S (length strip)) strip 2 (wrap16 a) (wrap16 b) acc
       | _, _ => Fault
       end.

Fixpoint strips_model_from (strips : list (list N)) (acc : list tri) : res (list tri) :=
  match strips with
  | [] => Ok acc
  | s :: rest => bind (strip_model s acc) (fun acc' => strips_model_from rest acc')
  end.

Definition strips_model (strips : list (list N)) : res (list tri) := strips_model_from strips [].

(* CalcMaxTriangleIndex (NifUtil.hpp:46-56) *)
Definition max_tri_index (v : list tri) : N :=
  fold_left (fun m t => let '(p1, p2, p3) := t in N.max (N.max (N.max m p1) p2) p3) v 0.
