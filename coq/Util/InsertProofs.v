(* InsertVectorIndices: the backwards in-place loop equals the naive definition [insert_spec];
   erasing the inserted positions gives the original vector back, and re-inserting after an erase
   restores every surviving element to its old position. *)
From NiflyVerif Require Import Res UtilModel UtilSpec CompactProofs EraseProofs FillProofs InsertSpec RankProofs.
From Coq Require Import ZifyBool ZifyNat ZifyN Sorted.
Local Open Scope N_scope.

(* ---------------------------------------------------------------------------------------- *)
(* facts about the naive definition alone *)
Section InsertSpecFacts.
  Context {A : Type}.

  Lemma insert_spec_length (d : A) v idx : length (insert_spec d v idx) = (length v + length idx)%nat.
  Proof. unfold insert_spec. rewrite map_length, seq_length. reflexivity. Qed.

  Lemma erase_from_length : forall (u : list A) pos idx,
    vlen (erase_from pos u idx) = rank_from pos (length u) idx.
  Proof.
    induction u as [|x u IH]; intros pos idx; cbn [erase_from rank_from length]; [reflexivity|].
    destruct (memN pos idx).
    - rewrite IH. lia.
    - unfold vlen in *. cbn [length]. rewrite <- IH. lia.
  Qed.

  Lemma rank_all_below idx t : NoDup idx -> Forall (fun i => i < t) idx -> rank idx t + vlen idx = t.
  Proof.
    intros Hnd Hf. pose proof (rank_split idx [] t) as H. rewrite app_nil_r in H.
    apply H; auto.
  Qed.

  Lemma erase_spec_length (u : list A) idx :
    NoDup idx -> Forall (fun i => i < vlen u) idx -> vlen (erase_spec u idx) + vlen idx = vlen u.
  Proof.
    intros Hnd Hf. unfold erase_spec. rewrite erase_from_length.
    pose proof (rank_all_below idx (vlen u) Hnd Hf) as H.
    assert (E : rank idx (vlen u) = rank_from 0 (length u) idx)
      by (unfold rank, vlen; rewrite Nat2N.id; reflexivity).
    rewrite <- E. exact H.
  Qed.

  (* erasing the first t positions of the naive result gives the first (rank t) elements of v *)
  Lemma erase_insert_prefix (d : A) v idx (f : nat -> A) :
    (forall p, memN (N.of_nat p) idx = false -> f p = nth (N.to_nat (rank idx (N.of_nat p))) v d) ->
    forall t, rank idx (N.of_nat t) <= vlen v ->
    erase_from 0 (map f (seq 0 t)) idx = firstn (N.to_nat (rank idx (N.of_nat t))) v.
  Proof.
    intros Hf. induction t as [|t IH]; intros Hr; [reflexivity|].
    replace (N.of_nat (Datatypes.S t)) with (N.of_nat t + 1) in * by lia.
    rewrite rank_succ in *.
    rewrite seq_S, map_app, erase_from_app. cbn [plus map].
    assert (Hl : 0 + vlen (map f (seq 0 t)) = N.of_nat t)
      by (unfold vlen; rewrite map_length, seq_length; lia).
    rewrite Hl. cbn [erase_from].
    rewrite IH by (destruct (memN (N.of_nat t) idx); lia).
    destruct (memN (N.of_nat t) idx) eqn:Hm.
    - rewrite N.add_0_r, app_nil_r. reflexivity.
    - replace (N.to_nat (rank idx (N.of_nat t) + 1)) with (Datatypes.S (N.to_nat (rank idx (N.of_nat t)))) by lia.
      rewrite (firstn_snoc_nth v _ d) by (unfold vlen in Hr; lia).
      rewrite (Hf t Hm). reflexivity.
  Qed.

  (* "erase ... re-insert": the inserted positions erased again give v back *)
  Theorem erase_insert_spec (d : A) (v : list A) (idx : list N) :
    NoDup idx -> Forall (fun i => i < vlen v + vlen idx) idx ->
    erase_spec (insert_spec d v idx) idx = v.
  Proof.
    intros Hnd Hf. unfold erase_spec, insert_spec.
    pose proof (rank_all_below idx (vlen v + vlen idx) Hnd Hf) as Hr.
    assert (Ht : N.of_nat (length v + length idx) = vlen v + vlen idx) by (unfold vlen; lia).
    rewrite (erase_insert_prefix d v idx).
    - rewrite Ht. replace (rank idx (vlen v + vlen idx)) with (vlen v) by lia.
      unfold vlen. rewrite Nat2N.id. apply firstn_all.
    - intros p Hm. rewrite Hm. reflexivity.
    - rewrite Ht. lia.
  Qed.

  (* two vectors of the same length with the same erasure agree on every unlisted position *)
  Lemma erase_from_agree : forall (a b : list A) pos idx,
    length a = length b -> erase_from pos a idx = erase_from pos b idx ->
    forall q, memN (pos + N.of_nat q) idx = false -> nth_error a q = nth_error b q.
  Proof.
    induction a as [|x a IH]; intros [|y b] pos idx Hl He q Hq; cbn [length] in Hl; try lia; [reflexivity|].
    cbn [erase_from] in He.
    destruct q as [|q].
    - rewrite N.add_0_r in Hq. rewrite Hq in He. cbn. congruence.
    - cbn [nth_error]. apply (IH b (pos + 1) idx); [lia| |].
      + destruct (memN pos idx); congruence.
      + rewrite <- Hq. f_equal. lia.
  Qed.

  (* erase then re-insert restores positions *)
  Theorem insert_erase_spec_restores (d : A) (u : list A) (idx : list N) :
    NoDup idx -> Forall (fun i => i < vlen u) idx ->
    length (insert_spec d (erase_spec u idx) idx) = length u /\
    forall p, memN p idx = false ->
      nth_error (insert_spec d (erase_spec u idx) idx) (N.to_nat p) = nth_error u (N.to_nat p).
  Proof.
    intros Hnd Hf. pose proof (erase_spec_length u idx Hnd Hf) as Hl.
    assert (Hlen : length (insert_spec d (erase_spec u idx) idx) = length u)
      by (rewrite insert_spec_length; unfold vlen in Hl; lia).
    split; [exact Hlen|]. intros p Hp.
    apply (erase_from_agree _ _ 0 idx Hlen).
    - apply (erase_insert_spec d (erase_spec u idx) idx Hnd). rewrite Hl. exact Hf.
    - rewrite N.add_0_l, N2Nat.id. exact Hp.
  Qed.
End InsertSpecFacts.

(* the shape of the model on a non-empty index list *)
Lemma insert_model_shape {A} (w : N) (d : A) (v : list A) (idx : list N) : idx <> [] ->
  insert_model w d v idx =
  if vlen v + vlen idx <=? last idx 0 then Ok v
  else insert_loop w (Datatypes.S (length v + length idx))
         (vresize d v (if w <? 32 then wrapN w (vlen v + vlen idx - 1) + 1
                       else wrapN w (wrapN w (vlen v + vlen idx - 1) + 1)))
         idx (vlen idx) (wrapN w (vlen v + vlen idx - 1))
         (if vlen v =? 0 then 2 ^ w - 1 else wrapN w (vlen v - 1)).
Proof. intros H. destruct idx; [congruence|reflexivity]. Qed.

(* ---------------------------------------------------------------------------------------- *)
(* the loop model *)
Section InsertCorrect.
  Context {A : Type}.
  Variable w : N.
  Variable d : A.
  Variable v : list A.
  Variable idx : list N.
  Hypothesis Hsorted : sorted_lt idx.
  Hypothesis Hwidth : vlen v + vlen idx < 2 ^ w.

  (* a downward counter holding "x - 1" in unsigned arithmetic: 0 is stored as 2^w - 1 *)
  Definition enc (x : N) : N := if x =? 0 then 2 ^ w - 1 else x - 1.

  Lemma decr_enc x : 1 <= x -> x < 2 ^ w -> decr w (enc x) = enc (x - 1).
  Proof.
    unfold decr, enc. intros H1 H2.
    destruct (N.eqb_spec x 0); [lia|].
    destruct (N.eqb_spec (x - 1) 0); [reflexivity|].
    destruct (N.eqb_spec (x - 1 - 1) 0); lia.
  Qed.

  Let f (p : nat) : A :=
    if memN (N.of_nat p) idx then nth p v d else nth (N.to_nat (rank idx (N.of_nat p))) v d.

  (* the inner while loop, with the processed indices written as a reversed prefix [rp]:
     it stops with no index left, or at a position that is not listed and with m >= 1 source
     elements still to move *)
  Lemma insert_skip_ok : forall rp suf fuel m,
    idx = rev rp ++ suf ->
    Forall (fun i => i < m + vlen rp) rp -> Forall (fun i => m + vlen rp <= i) suf ->
    m + vlen rp < 2 ^ w -> (length rp < fuel)%nat ->
    exists rp' suf',
      idx = rev rp' ++ suf' /\
      insert_skip w fuel idx (vlen rp) (enc (m + vlen rp)) = Ok (vlen rp', enc (m + vlen rp')) /\
      Forall (fun i => m + vlen rp' <= i) suf' /\ vlen rp' <= vlen rp /\
      (rp' = [] \/ (rp' <> [] /\ 1 <= m /\ Forall (fun i => i < m + vlen rp' - 1) rp')).
  Proof.
    induction rp as [|a rp IH]; intros suf fuel m He Hrp Hsuf Hw Hf;
      (destruct fuel as [|fu]; [cbn [length] in Hf; lia|]); cbn [insert_skip].
    - change (vlen (@nil N)) with 0. cbn [N.ltb N.compare].
      exists [], suf. repeat split; auto. unfold vlen; cbn [length]; lia.
    - assert (Hvl : vlen (a :: rp) = vlen rp + 1) by (unfold vlen; cbn [length]; lia).
      cbn [rev] in He. rewrite <- app_assoc in He. cbn [app] in He.
      assert (Hs' : sorted_lt (rev rp ++ a :: suf)) by (rewrite <- He; exact Hsorted).
      pose proof (sorted_lt_before _ _ _ Hs') as Hbef.
      pose proof (sorted_lt_pos _ _ _ Hs') as Hpos.
      assert (Hrl : vlen (rev rp) = vlen rp) by (unfold vlen; rewrite rev_length; reflexivity).
      rewrite Hrl in Hpos.
      assert (Hbef' : Forall (fun i => i < a) rp).
      { rewrite Forall_forall in *. intros x Hx. apply Hbef. apply -> in_rev. exact Hx. }
      destruct (N.ltb_spec 0 (vlen (a :: rp))) as [_|Hc]; [|lia].
      assert (Hg : vget idx (vlen (a :: rp) - 1) = Some a).
      { rewrite He. unfold vget. replace (N.to_nat (vlen (a :: rp) - 1)) with (length (rev rp))
          by (rewrite rev_length; unfold vlen in *; lia).
        rewrite nth_error_app2 by lia. rewrite Nat.sub_diag. reflexivity. }
      rewrite Hg.
      pose proof (Forall_inv Hrp) as Ha. cbn beta in Ha.
      assert (Henc : enc (m + vlen (a :: rp)) = m + vlen rp).
      { unfold enc. destruct (N.eqb_spec (m + vlen (a :: rp)) 0); lia. }
      rewrite Henc.
      destruct (N.eqb_spec (m + vlen rp) a) as [Heq|Hne].
      + replace (vlen (a :: rp) - 1) with (vlen rp) by lia.
        replace (decr w (m + vlen rp)) with (enc (m + vlen rp)).
        2:{ reflexivity. }
        destruct (IH (a :: suf) fu m He) as (rp' & suf' & He' & Hrun & H1 & H2 & H3).
        * rewrite Heq. exact Hbef'.
        * constructor; [lia|]. eapply Forall_impl; [|exact Hsuf]. cbn beta; intros; lia.
        * lia.
        * cbn [length] in Hf. lia.
        * exists rp', suf'. repeat split; auto. lia.
      + exists (a :: rp), suf. rewrite Henc.
        split; [cbn [rev]; rewrite <- app_assoc; exact He|].
        split; [reflexivity|]. split; [exact Hsuf|]. split; [lia|].
        right. split; [discriminate|]. split; [lia|].
        constructor; [lia|]. eapply Forall_impl; [|exact Hbef']. cbn beta; intros; lia.
  Qed.

  Let T : nat := (length v + length idx)%nat.

  (* cur holds the untouched resized vector below position t and the final values from t on *)
  Definition ins_inv (cur : list A) (t : N) : Prop :=
    length cur = T /\
    forall p, (p < T)%nat -> nth p cur d = if N.of_nat p <? t then nth p v d else f p.

  Lemma ins_inv_done cur m : Forall (fun i => m <= i) idx -> ins_inv cur m -> cur = insert_spec d v idx.
  Proof.
    intros Hall [Hlen Hnth]. unfold insert_spec. fold T.
    apply (nth_ext _ _ d d).
    - rewrite map_length, seq_length. exact Hlen.
    - intros p Hp. rewrite Hlen in Hp. rewrite Hnth by exact Hp.
      rewrite (nth_map_seq _ T p d Hp). fold (f p).
      destruct (N.ltb_spec (N.of_nat p) m) as [Hlt|Hge]; [|reflexivity].
      unfold f.
      assert (Hm : memN (N.of_nat p) idx = false).
      { apply memN_false_iff. eapply Forall_impl; [|exact Hall]. cbn beta; intros; lia. }
      rewrite Hm.
      pose proof (rank_split [] idx (N.of_nat p) (sorted_lt_NoDup _ Hsorted) (Forall_nil _)) as Hr.
      cbn [app] in Hr. change (vlen (@nil N)) with 0 in Hr.
      rewrite N.add_0_r in Hr. rewrite Hr.
      + rewrite Nat2N.id. reflexivity.
      + eapply Forall_impl; [|exact Hall]. cbn beta; intros; lia.
  Qed.

  Lemma insert_loop_ok : forall fuel cur rp suf m,
    idx = rev rp ++ suf ->
    Forall (fun i => i < m + vlen rp) rp -> Forall (fun i => m + vlen rp <= i) suf ->
    m <= vlen v -> vlen rp <= vlen idx -> (N.to_nat m < fuel)%nat ->
    ins_inv cur (m + vlen rp) ->
    insert_loop w fuel cur idx (vlen rp) (enc (m + vlen rp)) (enc m) = Ok (insert_spec d v idx).
  Proof.
    induction fuel as [|fu IH]; intros cur rp suf m He Hrp Hsuf Hm Hj Hf Hinv; [lia|].
    cbn [insert_loop].
    destruct (insert_skip_ok rp suf (Datatypes.S (length idx)) m He Hrp Hsuf)
      as (rp' & suf' & He' & Hrun & Hsuf' & Hle & Hcase).
    { lia. }
    { unfold vlen in Hj. lia. }
    rewrite Hrun. cbn [bind fst snd].
    assert (Hinv' : ins_inv cur (m + vlen rp')).
    { (* positions between the two counters were all listed and hold their old value already *)
      destruct Hinv as [Hlen Hnth]. split; [exact Hlen|]. intros p Hp. rewrite (Hnth p Hp).
      destruct (N.ltb_spec (N.of_nat p) (m + vlen rp)) as [H1|H1];
        destruct (N.ltb_spec (N.of_nat p) (m + vlen rp')) as [H2|H2]; try reflexivity; try lia.
      (* m + |rp'| <= p < m + |rp| : p is listed *)
      unfold f.
      assert (Hin : memN (N.of_nat p) idx = true).
      { destruct (memN (N.of_nat p) idx) eqn:E; [reflexivity|exfalso].
        (* p unlisted: count the listed indices below p+1 in two ways *)
        pose proof (sorted_lt_NoDup _ Hsorted) as Hnd.
        assert (Hr1 : rank idx (m + vlen rp) + vlen rp = m + vlen rp).
        { pose proof (rank_split (rev rp) suf (m + vlen rp)) as Hr. rewrite <- He in Hr.
          replace (vlen (rev rp)) with (vlen rp) in Hr by (unfold vlen; rewrite rev_length; reflexivity).
          apply Hr; auto. rewrite Forall_forall in *. intros x Hx. apply Hrp. apply in_rev. exact Hx. }
        assert (Hr2 : rank idx (m + vlen rp') + vlen rp' = m + vlen rp').
        { pose proof (rank_split (rev rp') suf' (m + vlen rp')) as Hr. rewrite <- He' in Hr.
          replace (vlen (rev rp')) with (vlen rp') in Hr by (unfold vlen; rewrite rev_length; reflexivity).
          apply Hr; auto.
          destruct Hcase as [->|(_ & _ & Hlt)]; [constructor|].
          rewrite Forall_forall in *. intros x Hx. apply in_rev in Hx. specialize (Hlt x Hx). lia. }
        pose proof (rank_mono idx (m + vlen rp') (N.of_nat p) H2) as M1.
        pose proof (rank_mono idx (N.of_nat p + 1) (m + vlen rp) ltac:(lia)) as M2.
        rewrite rank_succ, E in M2. lia. }
      rewrite Hin. reflexivity. }
    destruct Hcase as [->|(Hne & Hm1 & Hlt)].
    - change (vlen (@nil N)) with 0. cbn [N.eqb].
      f_equal. apply (ins_inv_done cur m).
      + cbn [rev app] in He'. subst suf'. change (vlen (@nil N)) with 0 in Hsuf'.
        rewrite N.add_0_r in Hsuf'. exact Hsuf'.
      + change (vlen (@nil N)) with 0 in Hinv'. rewrite N.add_0_r in Hinv'. exact Hinv'.
    - assert (Hj' : 1 <= vlen rp') by (destruct rp'; [congruence|unfold vlen; cbn [length]; lia]).
      destruct (N.eqb_spec (vlen rp') 0) as [Hc|_]; [lia|].
      destruct Hinv' as [Hlen Hnth].
      assert (Hem : enc m = m - 1) by (unfold enc; destruct (N.eqb_spec m 0); lia).
      assert (Het : enc (m + vlen rp') = m + vlen rp' - 1)
        by (unfold enc; destruct (N.eqb_spec (m + vlen rp') 0); lia).
      rewrite Hem, Het.
      assert (HT : N.of_nat T = vlen v + vlen idx) by (unfold T, vlen; lia).
      assert (Hg : vget cur (m - 1) = Some (nth (N.to_nat (m - 1)) v d)).
      { unfold vget. rewrite (nth_error_nth' cur d) by (unfold vlen in *; lia).
        rewrite Hnth by (unfold vlen in *; lia).
        destruct (N.ltb_spec (N.of_nat (N.to_nat (m - 1))) (m + vlen rp')); [reflexivity|lia]. }
      rewrite Hg.
      set (x := nth (N.to_nat (m - 1)) v d).
      set (di := m + vlen rp' - 1).
      assert (Hdi : di < vlen cur) by (unfold vlen, di; rewrite Hlen; unfold vlen in *; lia).
      unfold vset. fold (vlen cur). destruct (N.ltb_spec di (vlen cur)) as [_|Hc]; [|lia].
      rewrite <- Hem.
      replace (decr w di) with (enc (m - 1 + vlen rp')).
      2:{ unfold di. rewrite <- Het. rewrite decr_enc by lia. f_equal. lia. }
      replace (decr w (enc m)) with (enc (m - 1)) by (rewrite decr_enc by lia; reflexivity).
      apply (IH _ rp' suf' (m - 1) He').
      + eapply Forall_impl; [|exact Hlt]. cbn beta; intros; lia.
      + eapply Forall_impl; [|exact Hsuf']. cbn beta; intros; lia.
      + lia.
      + lia.
      + lia.
      + split.
        * rewrite app_length. cbn [length]. rewrite firstn_length, skipn_length.
          unfold vlen in Hdi. lia.
        * intros p Hp. rewrite nth_upd by (unfold vlen in Hdi; lia).
          destruct (Nat.eqb_spec p (N.to_nat di)) as [->|Hpne].
          -- destruct (N.ltb_spec (N.of_nat (N.to_nat di)) (m - 1 + vlen rp')) as [Hc|_]; [unfold di in Hc; lia|].
             unfold f. rewrite N2Nat.id.
             assert (Hmem : memN di idx = false).
             { apply memN_false_iff. rewrite He'. apply Forall_app. split.
               - rewrite Forall_forall in *. intros y Hy. apply in_rev in Hy. specialize (Hlt y Hy).
                 unfold di. lia.
               - eapply Forall_impl; [|exact Hsuf']. cbn beta; intros; unfold di; lia. }
             rewrite Hmem.
             pose proof (rank_split (rev rp') suf' di) as Hr. rewrite <- He' in Hr.
             replace (vlen (rev rp')) with (vlen rp') in Hr by (unfold vlen; rewrite rev_length; reflexivity).
             assert (Hrk : rank idx di + vlen rp' = di).
             { apply Hr.
               - apply sorted_lt_NoDup. exact Hsorted.
               - rewrite Forall_forall in *. intros y Hy. apply in_rev in Hy. specialize (Hlt y Hy).
                 unfold di. lia.
               - eapply Forall_impl; [|exact Hsuf']. cbn beta; intros; unfold di; lia. }
             replace (rank idx di) with (m - 1) by (unfold di in *; lia). reflexivity.
          -- rewrite Hnth by exact Hp.
             destruct (N.ltb_spec (N.of_nat p) (m + vlen rp')) as [H1|H1];
               destruct (N.ltb_spec (N.of_nat p) (m - 1 + vlen rp')) as [H2|H2]; try reflexivity;
               unfold di in Hpne; lia.
  Qed.

  Lemma nth_app_repeat (k p : nat) : nth p (v ++ repeat d k) d = nth p v d.
  Proof.
    destruct (Nat.ltb_spec p (length v)) as [H|H].
    - apply app_nth1. exact H.
    - rewrite app_nth2 by lia. rewrite (nth_overflow v) by lia.
      destruct (Nat.ltb_spec (p - length v) k) as [H2|H2].
      + apply nth_repeat.
      + apply nth_overflow. rewrite repeat_length. lia.
  Qed.

  Theorem insert_correct_sec :
    Forall (fun i => i < vlen v + vlen idx) idx ->
    insert_model w d v idx = Ok (insert_spec d v idx).
  Proof.
    intros Hrange.
    assert (Hcase : idx = [] \/ idx <> []) by (clear; destruct idx; [left; reflexivity|right; discriminate]).
    destruct Hcase as [Hnil|Hne].
    - (* nothing to insert *)
      transitivity (Ok v); [rewrite Hnil; reflexivity|].
      f_equal. apply (ins_inv_done v (vlen v)).
      + rewrite Hnil. constructor.
      + split; [unfold T; rewrite Hnil; cbn [length]; lia|].
        intros p Hp. unfold T in Hp. rewrite Hnil in Hp. cbn [length] in Hp.
        destruct (N.ltb_spec (N.of_nat p) (vlen v)); [reflexivity|unfold vlen in *; lia].
    - rewrite (insert_model_shape w d v idx Hne).
      pose proof (Forall_last _ idx 0 Hne Hrange) as Hlast. cbn beta in Hlast.
      destruct (N.leb_spec (vlen v + vlen idx) (last idx 0)) as [Hc|_]; [lia|].
      assert (Hk : 1 <= vlen idx).
      { clear - Hne. destruct idx; [congruence|unfold vlen; cbn [length]; lia]. }
      assert (Hdi : wrapN w (vlen v + vlen idx - 1) = enc (vlen v + vlen idx)).
      { unfold wrapN, enc. rewrite N.mod_small by lia.
        destruct (N.eqb_spec (vlen v + vlen idx) 0); [lia|reflexivity]. }
      assert (Hsi : (if vlen v =? 0 then 2 ^ w - 1 else wrapN w (vlen v - 1)) = enc (vlen v)).
      { unfold wrapN, enc. destruct (N.eqb_spec (vlen v) 0); [reflexivity|]. apply N.mod_small. lia. }
      rewrite Hdi, Hsi.
      assert (Hsz : (if w <? 32 then enc (vlen v + vlen idx) + 1 else wrapN w (enc (vlen v + vlen idx) + 1))
                    = vlen v + vlen idx).
      { unfold wrapN, enc. destruct (N.eqb_spec (vlen v + vlen idx) 0); [lia|].
        destruct (w <? 32); [lia|]. rewrite N.mod_small by lia. lia. }
      rewrite Hsz.
      assert (Hres : vresize d v (vlen v + vlen idx) = v ++ repeat d (length idx)).
      { unfold vresize. rewrite firstn_all2 by (unfold vlen; lia). f_equal. f_equal. unfold vlen. lia. }
      rewrite Hres.
      assert (Hrl : vlen (rev idx) = vlen idx) by (unfold vlen; rewrite rev_length; reflexivity).
      rewrite <- Hrl.
      apply (insert_loop_ok _ _ (rev idx) [] (vlen v)).
      + rewrite rev_involutive, app_nil_r. reflexivity.
      + rewrite Hrl. rewrite Forall_forall in *. intros x Hx. apply Hrange. apply in_rev. exact Hx.
      + constructor.
      + lia.
      + lia.
      + unfold vlen. lia.
      + rewrite Hrl. split.
        * rewrite app_length, repeat_length. reflexivity.
        * intros p Hp. rewrite nth_app_repeat.
          destruct (N.ltb_spec (N.of_nat p) (vlen v + vlen idx)); [reflexivity|unfold T, vlen in *; lia].
  Qed.
End InsertCorrect.

(* ---------------------------------------------------------------------------------------- *)
(* closed statements *)
Theorem insert_correct {A} (w : N) (d : A) (v : list A) (idx : list N) :
  sorted_lt idx -> Forall (fun i => i < vlen v + vlen idx) idx -> vlen v + vlen idx < 2 ^ w ->
  insert_model w d v idx = Ok (insert_spec d v idx).
Proof. intros Hs Hr Hw. apply insert_correct_sec; assumption. Qed.

(* the guarded early return: a last index that cannot be a position of the result leaves v alone
   (no hypothesis on order or widths) *)
Theorem insert_out_of_range {A} (w : N) (d : A) (v : list A) (idx : list N) :
  idx = [] \/ vlen v + vlen idx <= last idx 0 -> insert_model w d v idx = Ok v.
Proof.
  intros H. unfold insert_model. destruct idx as [|i0 rest] eqn:E; [reflexivity|].
  destruct H as [H|H]; [discriminate|].
  destruct (N.leb_spec (vlen v + vlen (i0 :: rest)) (last (i0 :: rest) 0)); [reflexivity|lia].
Qed.

(* insert, then erase the same positions: the loop models compose to the identity *)
Theorem insert_then_erase {A} (w : N) (d : A) (v : list A) (idx : list N) :
  sorted_lt idx -> Forall (fun i => i < vlen v + vlen idx) idx -> vlen v + vlen idx < 2 ^ w ->
  bind (insert_model w d v idx) (fun r => erase_model w d r idx) = Ok v.
Proof.
  intros Hs Hr Hw. rewrite insert_correct by assumption. cbn [bind].
  rewrite erase_correct.
  - f_equal. apply erase_insert_spec; [apply sorted_lt_NoDup; exact Hs|exact Hr].
  - exact Hs.
  - unfold vlen. rewrite insert_spec_length. unfold vlen in Hw. lia.
Qed.

(* erase, then re-insert at the same positions: same length, and every surviving element is back
   at its old position *)
Theorem erase_then_insert {A} (w : N) (d : A) (u : list A) (idx : list N) :
  sorted_lt idx -> Forall (fun i => i < vlen u) idx -> vlen u < 2 ^ w ->
  exists r, bind (erase_model w d u idx) (fun v => insert_model w d v idx) = Ok r /\
            length r = length u /\
            forall p, memN p idx = false -> nth_error r (N.to_nat p) = nth_error u (N.to_nat p).
Proof.
  intros Hs Hr Hw. pose proof (sorted_lt_NoDup _ Hs) as Hnd.
  rewrite erase_correct by assumption. cbn [bind].
  pose proof (erase_spec_length u idx Hnd Hr) as Hl.
  rewrite insert_correct; [|exact Hs|rewrite Hl; exact Hr|rewrite Hl; exact Hw].
  eexists. split; [reflexivity|]. apply insert_erase_spec_restores; assumption.
Qed.
