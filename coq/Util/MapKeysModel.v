(* Line-by-line model of ApplyIndexMapToMapKeys<MapType> (include/NifUtil.hpp:132-153):

     using KeyType = typename MapType::key_type;
     MapType copy;
     for (auto& d : keyMap) {
       if (d.first >= indexMap.size()) {
         auto keyVal = static_cast<KeyType>(d.first + defaultOffset);
         copy[keyVal] = std::move(d.second);
       }
       else if (indexMap[d.first] >= 0) {
         auto keyVal = static_cast<KeyType>(indexMap[d.first]);
         copy[keyVal] = std::move(d.second);
       }
     }
     keyMap = std::move(copy);

   keyMap is an association list IN THE ORDER THE CONTAINER ITERATES (std::map: ascending keys;
   std::unordered_map: whatever order the hash table yields; the model takes the order as input).
   Nothing is erased while iterating: the function fills a fresh container [copy] and move-assigns it
   at the end. [copy[k] = v] is insert-or-overwrite; [copy] is kept as a list with strictly
   ascending keys (what a std::map iterates; for an unordered_map this is the canonical form in
   which the oracle prints the result). Keys and map entries are [Z], values are arbitrary. *)
From NiflyVerif Require Export Res.
Local Open Scope Z_scope.

(* the key types the template is instantiated with *)
Inductive mk_kty := MK_int | MK_u16 | MK_u32.

Definition mk_kty_of_N (n : N) : mk_kty :=
  match n with 16%N => MK_u16 | 32%N => MK_u32 | _ => MK_int end.
(* value bits and signedness *)
Definition mk_kty_w (kt : mk_kty) : N := match kt with MK_int => 31%N | MK_u16 => 16%N | MK_u32 => 32%N end.
Definition mk_kty_sg (kt : mk_kty) : bool := match kt with MK_int => true | _ => false end.

(* [d.first >= indexMap.size()]: the key is converted to size_t, so a negative int key becomes a
   huge value and takes this branch (sizes stay far below 2^64 - 2^31) *)
Definition mk_oor (k : Z) (sz : N) : bool := (k <? 0) || (Z.of_N sz <=? k).

Definition mk_int_range (s : Z) : bool := (-2147483648 <=? s) && (s <? 2147483648).

(* [static_cast<KeyType>(d.first + defaultOffset)]:
     int key: int + int, overflow is undefined behaviour -> Fault;
     uint16_t key: promoted to int, int + int (overflow -> Fault), then truncated to 16 bits;
     uint32_t key: the int offset is converted to unsigned, the sum wraps modulo 2^32 *)
Definition mk_shift (kt : mk_kty) (k off : Z) : res Z :=
  match kt with
  | MK_int => if mk_int_range (k + off) then Ok (k + off) else Fault
  | MK_u16 => if mk_int_range (k + off) then Ok ((k + off) mod 65536) else Fault
  | MK_u32 => Ok ((k + off) mod 4294967296)
  end.

(* [static_cast<KeyType>(indexMap[d.first])] for a non-negative int entry *)
Definition mk_cast (kt : mk_kty) (m : Z) : Z :=
  match kt with
  | MK_int => m
  | MK_u16 => m mod 65536
  | MK_u32 => m mod 4294967296
  end.

(* What the two branches compute, as one function of the old key (used to state the theorems):
   [mk_noub]: evaluating d.first + defaultOffset does not overflow a signed int;
   [mk_ctarget]: the new key with the casts of the code; None = the entry is dropped. *)
Definition mk_noub (kt : mk_kty) (im : list Z) (off k : Z) : bool :=
  if mk_oor k (vlen im) then match kt with MK_u32 => true | _ => mk_int_range (k + off) end else true.
Definition mk_ctarget (kt : mk_kty) (im : list Z) (off k : Z) : option Z :=
  if mk_oor k (vlen im) then Some (mk_cast kt (k + off))
  else match vget im (Z.to_N k) with
       | Some m => if 0 <=? m then Some (mk_cast kt m) else None
       | None => None
       end.

Section MapKeys.
  Context {V : Type}.

  (* copy[k] = v on a list with ascending keys: overwrite an existing entry, else insert in place *)
  Fixpoint mk_put (k : Z) (v : V) (c : list (Z * V)) : list (Z * V) :=
    match c with
    | [] => [(k, v)]
    | (k1, v1) :: r =>
      if k <? k1 then (k, v) :: c
      else if k =? k1 then (k, v) :: r
      else (k1, v1) :: mk_put k v r
    end.

  (* the loop body, branch by branch *)
  Definition mk_body (kt : mk_kty) (im : list Z) (off : Z) (copy : list (Z * V)) (d : Z * V)
    : res (list (Z * V)) :=
    if mk_oor (fst d) (vlen im) then
      bind (mk_shift kt (fst d) off) (fun keyVal => Ok (mk_put keyVal (snd d) copy))
    else
      match vget im (Z.to_N (fst d)) with
      | None => Fault                                     (* indexMap[d.first] outside the vector *)
      | Some m =>
        if 0 <=? m then Ok (mk_put (mk_cast kt m) (snd d) copy)
        else Ok copy
      end.

  (* for (auto& d : keyMap) *)
  Fixpoint mk_loop (kt : mk_kty) (im : list Z) (off : Z) (km : list (Z * V)) (copy : list (Z * V))
    : res (list (Z * V)) :=
    match km with
    | [] => Ok copy
    | d :: r => bind (mk_body kt im off copy d) (fun copy' => mk_loop kt im off r copy')
    end.

  (* MapType copy; loop; keyMap = std::move(copy) *)
  Definition mapkeys_model (kt : mk_kty) (km : list (Z * V)) (im : list Z) (off : Z)
    : res (list (Z * V)) :=
    mk_loop kt im off km [].
End MapKeys.
