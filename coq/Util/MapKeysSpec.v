(* The naive definition ApplyIndexMapToMapKeys is compared with (the comment in front of it,
   NifUtil.hpp:132-135): a key k inside the index map is deleted when indexMap[k] is negative and
   becomes indexMap[k] otherwise; a key outside the index map becomes k + defaultOffset; values stay
   with their entry. No widths, no containers, no loop state. *)
From NiflyVerif Require Export Res.
Local Open Scope Z_scope.

(* new key of old key k; None = the entry is deleted *)
Definition mk_target (im : list Z) (off k : Z) : option Z :=
  if (0 <=? k) && (k <? Z.of_nat (length im)) then
    match nth_error im (Z.to_nat k) with
    | Some m => if m <? 0 then None else Some m
    | None => None
    end
  else Some (k + off).

(* the values a key type can hold *)
Definition mk_key_range (w : N) (sg : bool) (k : Z) : Prop :=
  if sg then - 2 ^ Z.of_N w <= k < 2 ^ Z.of_N w else 0 <= k < 2 ^ Z.of_N w.

Section Spec.
  Context {V : Type}.

  (* the surviving entries under their new keys, in iteration order; [tgt] is the key renaming *)
  Definition mk_image_with (tgt : Z -> option Z) (km : list (Z * V)) : list (Z * V) :=
    flat_map (fun d => match tgt (fst d) with
                       | Some t => [(t, snd d)]
                       | None => []
                       end) km.
  Definition mk_image (im : list Z) (off : Z) (km : list (Z * V)) : list (Z * V) :=
    mk_image_with (mk_target im off) km.

  (* value of the LAST entry of [img] with key t *)
  Fixpoint mk_last (t : Z) (img : list (Z * V)) : option V :=
    match img with
    | [] => None
    | (k, v) :: r =>
      match mk_last t r with
      | Some x => Some x
      | None => if k =? t then Some v else None
      end
    end.

  (* first entry with key t: what a look-up in the resulting container returns *)
  Fixpoint mk_find (t : Z) (c : list (Z * V)) : option V :=
    match c with
    | [] => None
    | (k, v) :: r => if k =? t then Some v else mk_find t r
    end.

  (* the distinct keys of a list, ascending *)
  Fixpoint mk_ins_key (k : Z) (l : list Z) : list Z :=
    match l with
    | [] => [k]
    | a :: r => if k <? a then k :: l else if k =? a then l else a :: mk_ins_key k r
    end.
  Definition mk_keys (img : list (Z * V)) : list Z := fold_right mk_ins_key [] (map fst img).

  (* the resulting map, listed by ascending key: every new key that occurs, with the value of the
     last entry (in iteration order) that was sent there. When no two surviving entries get the
     same new key this is just the image sorted by key (mapkeys_spec_perm). *)
  Definition mk_tab (img : list (Z * V)) (keys : list Z) : list (Z * V) :=
    flat_map (fun t => match mk_last t img with Some v => [(t, v)] | None => [] end) keys.
  Definition mapkeys_spec_with (tgt : Z -> option Z) (km : list (Z * V)) : list (Z * V) :=
    let img := mk_image_with tgt km in mk_tab img (mk_keys img).
  Definition mapkeys_spec (km : list (Z * V)) (im : list Z) (off : Z) : list (Z * V) :=
    mapkeys_spec_with (mk_target im off) km.

  (* all new keys fit the key type: neither cast changes a value, k + defaultOffset does not
     overflow *)
  Definition mk_fits (w : N) (sg : bool) (im : list Z) (off : Z) (km : list (Z * V)) : Prop :=
    Forall (fun d => match mk_target im off (fst d) with
                     | Some t => mk_key_range w sg t
                     | None => True
                     end) km.

  (* decidable form for the driver *)
  Definition mk_key_rangeb (w : N) (sg : bool) (k : Z) : bool :=
    if sg then (- 2 ^ Z.of_N w <=? k) && (k <? 2 ^ Z.of_N w)
    else (0 <=? k) && (k <? 2 ^ Z.of_N w).
  Definition mk_fitsb (w : N) (sg : bool) (im : list Z) (off : Z) (km : list (Z * V)) : bool :=
    forallb (fun d => match mk_target im off (fst d) with
                      | Some t => mk_key_rangeb w sg t
                      | None => true
                      end) km.

  (* no two surviving entries collide *)
  Definition mk_injective_with (tgt : Z -> option Z) (km : list (Z * V)) : Prop :=
    NoDup (map fst (mk_image_with tgt km)).
  Definition mk_injective (im : list Z) (off : Z) (km : list (Z * V)) : Prop :=
    mk_injective_with (mk_target im off) km.
End Spec.
