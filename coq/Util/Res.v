(* Common result type and list helpers shared by all hand models. *)
From Coq Require Export List NArith ZArith Bool Lia.
Export ListNotations.

Inductive res (T : Type) : Type :=
| Ok (t : T)
| Fault            (* an access outside a container, a division by zero, ... *)
| OutOfFuel.       (* the explicit fuel of a loop model ran out *)
Arguments Ok {T} t.
Arguments Fault {T}.
Arguments OutOfFuel {T}.

Definition bind {A B} (r : res A) (f : A -> res B) : res B :=
  match r with Ok a => f a | Fault => Fault | OutOfFuel => OutOfFuel end.

(* C integer wrap-around at width [w] bits (unsigned). *)
Definition wrapN (w : N) (x : N) : N := N.modulo x (N.pow 2 w).

(* std::vector<T>::operator[] for reading: a fault outside the vector. *)
Definition vget {A} (v : list A) (i : N) : option A := nth_error v (N.to_nat i).

(* v[i] = x : a fault outside the vector. *)
Definition vset {A} (v : list A) (i : N) (x : A) : option (list A) :=
  if N.ltb i (N.of_nat (length v))
  then Some (firstn (N.to_nat i) v ++ x :: skipn (S (N.to_nat i)) v)
  else None.

Definition vlen {A} (v : list A) : N := N.of_nat (length v).

(* std::vector<T>::resize(n) with value-initialised new elements [d]. *)
Definition vresize {A} (d : A) (v : list A) (n : N) : list A :=
  firstn (N.to_nat n) v ++ repeat d (N.to_nat n - length v).

(* a triangle: three 16-bit vertex indices *)
Definition tri := (N * N * N)%type.
