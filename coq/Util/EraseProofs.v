(* EraseVectorIndices and ApplyMapToTriangles: loop model = naive definition, and safety. *)
From NiflyVerif Require Import Res UtilModel UtilSpec CompactProofs.
From Coq Require Import ZifyBool ZifyNat ZifyN Sorted.
Local Open Scope N_scope.

Definition sorted_lt (idx : list N) : Prop := StronglySorted N.lt idx.

Lemma memN_false_iff i l : memN i l = false <-> Forall (fun k => k <> i) l.
Proof.
  unfold memN. induction l as [|a l IH]; cbn.
  - split; auto.
  - rewrite orb_false_iff, IH. split.
    + intros [H1 H2]. constructor; auto. intros ->. rewrite N.eqb_refl in H1. discriminate.
    + intros H. inversion H; subst. split; auto. apply N.eqb_neq. congruence.
Qed.

Lemma memN_true_iff i l : memN i l = true <-> In i l.
Proof.
  unfold memN. rewrite existsb_exists. split.
  - intros (x & Hx & He). apply N.eqb_eq in He. subst; auto.
  - intros H. exists i. split; auto. apply N.eqb_refl.
Qed.

Section EraseCorrect.
  Context {A : Type}.

  Lemma erase_from_none : forall (v : list A) pos idx,
    Forall (fun k => k < pos \/ pos + vlen v <= k) idx -> erase_from pos v idx = v.
  Proof.
    induction v as [|x v IH]; intros pos idx H; cbn [erase_from]; [reflexivity|].
    assert (Hm : memN pos idx = false).
    { apply memN_false_iff. eapply Forall_impl; [|exact H]. unfold vlen; cbn [length]. intros k Hk. lia. }
    rewrite Hm. f_equal. apply IH. eapply Forall_impl; [|exact H].
    unfold vlen; cbn [length]. intros k Hk. lia.
  Qed.

  Lemma erase_from_app : forall (a b : list A) pos idx,
    erase_from pos (a ++ b) idx = erase_from pos a idx ++ erase_from (pos + vlen a) b idx.
  Proof.
    induction a as [|x a IH]; intros b pos idx; cbn [app erase_from].
    - unfold vlen; cbn. rewrite N.add_0_r. reflexivity.
    - rewrite IH. replace (pos + 1 + vlen a) with (pos + vlen (x :: a)) by (unfold vlen; cbn [length]; lia).
      destruct (memN pos idx); reflexivity.
  Qed.

  (* the threaded loop body computes membership correctly when indi is the number of listed
     indices below si *)
  Lemma fm_erase : forall (l : list A) pre suf si,
    Forall (fun k => k < si) pre -> sorted_lt suf -> Forall (fun k => si <= k) suf ->
    exists s', fm (erase_dec (pre ++ suf)) (vlen pre) si l = Ok (erase_from si l (pre ++ suf), s').
  Proof.
    induction l as [|x l IH]; intros pre suf si Hpre Hs Hsuf; cbn [fm erase_from].
    - eexists; reflexivity.
    - unfold erase_dec at 1.
      destruct suf as [|k suf].
      + rewrite app_nil_r in *.
        destruct (N.ltb_spec (vlen pre) (vlen pre)) as [Hc|_]; [lia|]. cbn [bind fst snd].
        assert (Hm : memN si pre = false).
        { apply memN_false_iff. eapply Forall_impl; [|exact Hpre]. cbn. intros; lia. }
        rewrite Hm.
        destruct (IH pre [] (si + 1)) as (s' & Hs').
        * eapply Forall_impl; [|exact Hpre]. cbn; intros; lia.
        * constructor.
        * constructor.
        * rewrite app_nil_r in Hs'. rewrite Hs'. cbn [bind fst snd]. eexists; reflexivity.
      + destruct (N.ltb_spec (vlen pre) (vlen (pre ++ k :: suf))) as [_|Hc];
          [|unfold vlen in Hc; rewrite app_length in Hc; cbn [length] in Hc; lia].
        assert (Hg : vget (pre ++ k :: suf) (vlen pre) = Some k).
        { unfold vget, vlen. rewrite Nat2N.id. rewrite nth_error_app2 by lia.
          rewrite Nat.sub_diag. reflexivity. }
        rewrite Hg.
        inversion Hs as [|? ? Hs1 Hs2]; subst. inversion Hsuf as [|? ? Hk Hsuf']; subst.
        destruct (N.eqb_spec si k) as [->|Hne]; cbn [bind fst snd].
        * assert (Hm : memN k (pre ++ k :: suf) = true).
          { apply memN_true_iff. apply in_or_app. right. left. reflexivity. }
          rewrite Hm.
          destruct (IH (pre ++ [k]) suf (k + 1)) as (s' & Hs').
          -- apply Forall_app. split.
             ++ eapply Forall_impl; [|exact Hpre]. cbn; intros; lia.
             ++ constructor; [lia|constructor].
          -- exact Hs1.
          -- eapply Forall_impl; [|exact Hs2]. cbn; intros; lia.
          -- rewrite <- app_assoc in Hs'. cbn [app] in Hs'.
             replace (vlen (pre ++ [k])) with (vlen pre + 1) in Hs'
               by (unfold vlen; rewrite app_length; cbn [length]; lia).
             rewrite Hs'. cbn [bind fst snd]. eexists; reflexivity.
        * assert (Hm : memN si (pre ++ k :: suf) = false).
          { apply memN_false_iff. apply Forall_app. split.
            - eapply Forall_impl; [|exact Hpre]. cbn; intros; lia.
            - constructor; [congruence|]. eapply Forall_impl; [|exact Hs2]. cbn; intros; lia. }
          rewrite Hm.
          destruct (IH pre (k :: suf) (si + 1)) as (s' & Hs').
          -- eapply Forall_impl; [|exact Hpre]. cbn; intros; lia.
          -- exact Hs.
          -- constructor; [lia|]. eapply Forall_impl; [|exact Hs2]. cbn; intros; lia.
          -- rewrite Hs'. cbn [bind fst snd]. eexists; reflexivity.
  Qed.

  (* without any assumption on idx the loop body still never faults *)
  Lemma fm_erase_total : forall (l : list A) idx indi si,
    exists out s', fm (erase_dec idx) indi si l = Ok (out, s').
  Proof.
    induction l as [|x l IH]; intros idx indi si; cbn [fm].
    - do 2 eexists; reflexivity.
    - unfold erase_dec at 1.
      destruct (N.ltb_spec indi (vlen idx)) as [Hlt|Hge].
      + destruct (vget_skipn idx indi Hlt) as (k & Hk & _). rewrite Hk.
        destruct (si =? k); cbn [bind fst snd].
        * destruct (IH idx (indi + 1) (si + 1)) as (o & s' & H). rewrite H. cbn. do 2 eexists; reflexivity.
        * destruct (IH idx indi (si + 1)) as (o & s' & H). rewrite H. cbn. do 2 eexists; reflexivity.
      + cbn [bind fst snd].
        destruct (IH idx indi (si + 1)) as (o & s' & H). rewrite H. cbn. do 2 eexists; reflexivity.
  Qed.

  Variable w : N.

  Lemma incr_ok x b : x + 1 < 2 ^ w -> incr w b x = Ok (x + 1).
  Proof. unfold incr. intros H. destruct (N.ltb_spec (x + 1) (2 ^ w)); [reflexivity|lia]. Qed.

  Lemma vresize_firstn (d : A) (v : list A) n : (N.to_nat n <= length v)%nat ->
    vresize d v n = firstn (N.to_nat n) v.
  Proof.
    unfold vresize. intros H. replace (N.to_nat n - length v)%nat with 0%nat by lia.
    cbn. apply app_nil_r.
  Qed.

  Lemma erase_from_split (v : list A) i0 rest :
    i0 < vlen v -> Forall (N.lt i0) rest ->
    erase_from 0 v (i0 :: rest) =
    firstn (N.to_nat i0) v ++ erase_from (i0 + 1) (skipn (N.to_nat (i0 + 1)) v) (i0 :: rest).
  Proof.
    intros Hlt Hs2.
    assert (Hfl : vlen (firstn (N.to_nat i0) v) = i0)
      by (unfold vlen in *; rewrite firstn_length_le; lia).
    rewrite <- (firstn_skipn (N.to_nat i0) v) at 1.
    rewrite erase_from_app.
    rewrite erase_from_none.
    2:{ rewrite Hfl. constructor; [lia|]. eapply Forall_impl; [|exact Hs2]. cbn; intros; lia. }
    f_equal. rewrite Hfl, N.add_0_l.
    destruct (vget_skipn v i0 Hlt) as (x & _ & Hsk). rewrite Hsk. cbn [erase_from].
    assert (Hm : memN i0 (i0 :: rest) = true) by (apply memN_true_iff; left; reflexivity).
    rewrite Hm. replace (N.to_nat (i0 + 1)) with (Datatypes.S (N.to_nat i0)) by lia. reflexivity.
  Qed.

  Theorem erase_correct (d : A) (v : list A) (idx : list N) :
    sorted_lt idx -> vlen v < 2 ^ w ->
    erase_model w d v idx = Ok (erase_spec v idx).
  Proof.
    intros Hs Hw. unfold erase_model, erase_spec.
    destruct idx as [|i0 rest].
    - rewrite erase_from_none; [reflexivity|constructor].
    - inversion Hs as [|? ? Hs1 Hs2]; subst.
      destruct (N.leb_spec (vlen v) i0) as [Hle|Hlt].
      + rewrite erase_from_none; [reflexivity|].
        constructor; [lia|]. eapply Forall_impl; [|exact Hs2]. cbn; intros; lia.
      + rewrite incr_ok by lia. cbn [bind].
        pose proof (compact_ok (A:=A) (erase_dec (i0 :: rest)) (incr w false) (incr w false) (vlen v)) as HC.
        specialize (HC (fun x Hx => incr_ok x false ltac:(lia)) (fun x Hx => incr_ok x false ltac:(lia))).
        specialize (HC (Datatypes.S (length v)) v 1 i0 (i0 + 1) eq_refl ltac:(lia) ltac:(lia)
                       ltac:(unfold vlen; lia)).
        destruct (fm_erase (skipn (N.to_nat (i0 + 1)) v) [i0] rest (i0 + 1)) as (s' & Hfm).
        { constructor; [lia|constructor]. }
        { exact Hs1. }
        { eapply Forall_impl; [|exact Hs2]. cbn; intros; lia. }
        cbn [app] in Hfm. change (vlen [i0]) with 1 in Hfm. rewrite Hfm in HC.
        destruct HC as (v' & Hrun & Hlen & Hfst & Hlo).
        rewrite Hrun. cbn [bind fst snd].
        rewrite vresize_firstn by (unfold vlen in *; lia).
        rewrite Hfst. f_equal. symmetry. apply erase_from_split; auto.
  Qed.

  (* for ANY index list (unsorted, duplicates, out of range) the erase loop stays inside v *)
  Theorem erase_safe (d : A) (v : list A) (idx : list N) :
    vlen v < 2 ^ w -> exists r, erase_model w d v idx = Ok r /\ (length r <= length v)%nat.
  Proof.
    intros Hw. unfold erase_model.
    destruct idx as [|i0 rest]; [exists v; auto|].
    destruct (N.leb_spec (vlen v) i0) as [Hle|Hlt]; [exists v; auto|].
    rewrite incr_ok by lia. cbn [bind].
    pose proof (compact_ok (A:=A) (erase_dec (i0 :: rest)) (incr w false) (incr w false) (vlen v)) as HC.
    specialize (HC (fun x Hx => incr_ok x false ltac:(lia)) (fun x Hx => incr_ok x false ltac:(lia))).
    specialize (HC (Datatypes.S (length v)) v 1 i0 (i0 + 1) eq_refl ltac:(lia) ltac:(lia)
                   ltac:(unfold vlen; lia)).
    destruct (fm_erase_total (skipn (N.to_nat (i0 + 1)) v) (i0 :: rest) 1 (i0 + 1)) as (out & s' & Hfm).
    rewrite Hfm in HC. destruct HC as (v' & Hrun & Hlen & Hfst & Hlo).
    rewrite Hrun. cbn [bind fst snd]. eexists; split; [reflexivity|].
    rewrite vresize_firstn by (unfold vlen in *; lia).
    rewrite firstn_length. lia.
  Qed.
End EraseCorrect.

(* ---------------------------------------------------------------------------------------- *)
Section ApplyMapCorrect.
  Variable w2 : N.
  Variable sg2 : bool.

  Lemma wrap16Z_store16 z : wrap16Z z = store16 z.
  Proof. reflexivity. Qed.

  Lemma fm_amt : forall (l : list tri) map del si,
    fm (amt_dec map) del si l =
    Ok (fst (apply_map_from si l map), del ++ snd (apply_map_from si l map)).
  Proof.
    induction l as [|[[p1 p2] p3] l IH]; intros map del si; cbn [fm apply_map_from].
    - cbn. rewrite app_nil_r. reflexivity.
    - unfold amt_dec at 1. unfold map_tri, map_corner. unfold vget.
      destruct (N.ltb_spec p1 (vlen map)) as [H1|H1]; cbn [andb].
      2:{ rewrite (proj2 (nth_error_None map (N.to_nat p1))) by (unfold vlen in *; lia).
          cbn [bind fst snd]. rewrite IH. destruct (apply_map_from (si + 1) l map) as [kept dl].
          cbn. rewrite <- app_assoc. reflexivity. }
      destruct (N.ltb_spec p2 (vlen map)) as [H2|H2]; cbn [andb].
      2:{ rewrite (proj2 (nth_error_None map (N.to_nat p2))) by (unfold vlen in *; lia).
          cbn [bind fst snd]. rewrite IH. destruct (apply_map_from (si + 1) l map) as [kept dl].
          destruct (nth_error map (N.to_nat p1)) as [m1|]; [destruct (Z.ltb m1 0)|];
            cbn; rewrite <- app_assoc; reflexivity. }
      destruct (N.ltb_spec p3 (vlen map)) as [H3|H3]; cbn [andb].
      2:{ rewrite (proj2 (nth_error_None map (N.to_nat p3))) by (unfold vlen in *; lia).
          cbn [bind fst snd]. rewrite IH. destruct (apply_map_from (si + 1) l map) as [kept dl].
          destruct (nth_error map (N.to_nat p1)) as [m1|]; [destruct (Z.ltb m1 0)|];
          (destruct (nth_error map (N.to_nat p2)) as [m2|]; [destruct (Z.ltb m2 0)|]);
            cbn; rewrite <- app_assoc; reflexivity. }
      destruct (vget_skipn map p1 H1) as (m1 & Hm1 & _).
      destruct (vget_skipn map p2 H2) as (m2 & Hm2 & _).
      destruct (vget_skipn map p3 H3) as (m3 & Hm3 & _).
      unfold vget in Hm1, Hm2, Hm3. rewrite Hm1, Hm2, Hm3.
      destruct (Z.ltb m1 0); cbn [orb bind fst snd];
        [rewrite IH; destruct (apply_map_from (si + 1) l map) as [kept dl]; cbn;
         rewrite <- app_assoc; reflexivity|].
      destruct (Z.ltb m2 0); cbn [orb bind fst snd];
        [rewrite IH; destruct (apply_map_from (si + 1) l map) as [kept dl]; cbn;
         rewrite <- app_assoc; reflexivity|].
      destruct (Z.ltb m3 0); cbn [orb bind fst snd];
        [rewrite IH; destruct (apply_map_from (si + 1) l map) as [kept dl]; cbn;
         rewrite <- app_assoc; reflexivity|].
      rewrite IH. destruct (apply_map_from (si + 1) l map) as [kept dl]. cbn. reflexivity.
  Qed.

  Lemma cast_len_small n : n < 2 ^ w2 -> cast_len w2 sg2 n = n.
  Proof.
    unfold cast_len, wrapN. intros H. destruct sg2.
    - destruct (N.ltb_spec n (2 ^ w2)); [reflexivity|lia].
    - apply N.mod_small. exact H.
  Qed.

  Lemma incr_ok' w b x : x + 1 < 2 ^ w -> incr w b x = Ok (x + 1).
  Proof. unfold incr. intros H. destruct (N.ltb_spec (x + 1) (2 ^ w)); [reflexivity|lia]. Qed.

  (* no hypothesis on the map or on the triangles' corners: safety and functional correctness
     hold for every input below the counter widths *)
  Theorem apply_map_tris_correct (tris : list tri) (map : list Z) :
    vlen tris < 2 ^ w2 -> vlen tris < 2 ^ 31 ->
    apply_map_tris_model w2 sg2 tris map = Ok (apply_map_spec tris map).
  Proof.
    intros Hw Hi. unfold apply_map_tris_model, apply_map_spec.
    rewrite cast_len_small by exact Hw.
    pose proof (compact_ok (amt_dec map) (incr w2 sg2) (incr 31 true) (vlen tris)) as HC.
    assert (H1 : forall x, x < vlen tris -> incr w2 sg2 x = Ok (x + 1)) by (intros x Hx; apply incr_ok'; lia).
    assert (H2 : forall x, x < vlen tris -> incr 31 true x = Ok (x + 1)) by (intros x Hx; apply incr_ok'; lia).
    specialize (HC H1 H2).
    specialize (HC (Datatypes.S (length tris)) tris [] 0 0 eq_refl ltac:(lia) ltac:(lia)
                   ltac:(unfold vlen; lia)).
    cbn [N.to_nat skipn] in HC. rewrite fm_amt in HC.
    destruct HC as (v' & Hrun & Hlen & Hfst & Hlo).
    rewrite Hrun. cbn [bind fst snd app].
    assert (Hle : (N.to_nat (0 + vlen (fst (apply_map_from 0 tris map))) <= length v')%nat)
      by (clear - Hlo Hlen; unfold vlen; lia).
    rewrite (vresize_firstn _ _ _ Hle).
    rewrite Hfst. cbn [N.to_nat firstn app].
    destruct (apply_map_from 0 tris map); reflexivity.
  Qed.
End ApplyMapCorrect.
