(* Naive ("mathematical") definitions the utilities of include/NifUtil.hpp are compared with.
   Nothing here mentions loops, counters or widths. *)
From NiflyVerif Require Export Res.
Local Open Scope N_scope.

Definition memN (i : N) (l : list N) : bool := existsb (N.eqb i) l.

Section Spec.
  Context {A : Type}.

  (* the elements of v whose position (counted from [pos]) is not listed in idx, in order *)
  Fixpoint erase_from (pos : N) (v : list A) (idx : list N) : list A :=
    match v with
    | [] => []
    | x :: r => if memN pos idx then erase_from (pos + 1) r idx else x :: erase_from (pos + 1) r idx
    end.
  Definition erase_spec (v : list A) (idx : list N) : list A := erase_from 0 v idx.
End Spec.

(* number of positions below i that are not listed in idx = new position of survivor i *)
Fixpoint rank_from (pos : N) (n : nat) (idx : list N) : N :=
  match n with
  | O => 0
  | S n' => (if memN pos idx then 0 else 1) + rank_from (pos + 1) n' idx
  end.
Definition rank (idx : list N) (i : N) : N := rank_from 0 (N.to_nat i) idx.

(* collapse map: deleted -> -1, survivor -> its rank *)
Definition collapse_spec (idx : list N) (n : N) : list Z :=
  map (fun i => let i := N.of_nat i in if memN i idx then (-1)%Z else Z.of_N (rank idx i))
      (seq 0 (N.to_nat n)).

(* expand map: new position j -> the j-th position not listed in idx *)
Fixpoint nth_free (fuel : nat) (idx : list N) (pos : N) (j : nat) : N :=
  match fuel with
  | O => pos
  | S f => if memN pos idx then nth_free f idx (pos + 1) j
           else match j with O => pos | S j' => nth_free f idx (pos + 1) j' end
  end.
Definition expand_spec (idx : list N) (n : N) : list Z :=
  map (fun j => Z.of_N (nth_free (j + length idx + 1) idx 0 j)) (seq 0 (N.to_nat n)).


(* remap a triangle through an index map; None when a corner is outside the map or maps below 0 *)
Definition map_corner (map : list Z) (p : N) : option Z :=
  match nth_error map (N.to_nat p) with
  | Some m => if Z.ltb m 0 then None else Some m
  | None => None
  end.
Definition map_tri (map : list Z) (t : tri) : option (Z * Z * Z) :=
  let '(p1, p2, p3) := t in
  match map_corner map p1, map_corner map p2, map_corner map p3 with
  | Some a, Some b, Some c => Some (a, b, c)
  | _, _, _ => None
  end.
Definition store16 (z : Z) : N := Z.to_N (Z.modulo z 65536).     (* stored into a uint16_t corner *)

Fixpoint apply_map_from (pos : N) (tris : list tri) (map : list Z) : list tri * list N :=
  match tris with
  | [] => ([], [])
  | t :: r =>
    let '(kept, del) := apply_map_from (pos + 1) r map in
    match map_tri map t with
    | Some (a, b, c) => ((store16 a, store16 b, store16 c) :: kept, del)
    | None => (kept, pos :: del)
    end
  end.
Definition apply_map_spec (tris : list tri) (map : list Z) : list tri * list N :=
  apply_map_from 0 tris map.

(* triangle strips: every window of three consecutive points that are pairwise distinct gives
   a triangle, wound (a,b,c) at even window end position and (a,c,b) at odd *)
Definition trunc16 (x : N) : N := N.modulo x 65536.
Fixpoint strip_windows (i : N) (s : list N) : list tri :=
  match s with
  | a :: ((b :: c :: _) as r) =>
    let a := trunc16 a in let b := trunc16 b in let c := trunc16 c in
    (if (negb (a =? b) && negb (b =? c) && negb (c =? a))%bool
     then [if N.even i then (a, b, c) else (a, c, b)] else [])
    ++ strip_windows (i + 1) r
  | _ => []
  end.
Definition strips_spec (strips : list (list N)) : list tri :=
  flat_map (strip_windows 2) strips.
