(* Facts about [rank] (number of unlisted positions below a position) shared by the proofs of
   InsertVectorIndices and GenerateIndexExpandMap. *)
From NiflyVerif Require Import Res UtilModel UtilSpec CompactProofs EraseProofs FillProofs InsertSpec.
From Coq Require Import ZifyBool ZifyNat ZifyN Sorted.
Local Open Scope N_scope.

Lemma sorted_lt_NoDup idx : sorted_lt idx -> NoDup idx.
Proof.
  induction 1 as [|a l Hs IH Hf]; constructor; auto.
  intros Hin. rewrite Forall_forall in Hf. specialize (Hf _ Hin). lia.
Qed.

(* number of listed indices below p *)
Definition cnt_lt (idx : list N) (p : N) : N := vlen (filter (fun i => i <? p) idx).

Lemma cnt_lt_0 idx : cnt_lt idx 0 = 0.
Proof.
  unfold cnt_lt, vlen. induction idx as [|a l IH]; cbn [filter]; [reflexivity|].
  destruct (N.ltb_spec a 0); [lia|exact IH].
Qed.

Lemma cnt_lt_succ idx p : NoDup idx ->
  cnt_lt idx (p + 1) = cnt_lt idx p + (if memN p idx then 1 else 0).
Proof.
  unfold cnt_lt, vlen, memN. induction 1 as [|a l Hni Hnd IH]; cbn [filter existsb]; [reflexivity|].
  destruct (N.eqb_spec p a) as [->|Hne]; cbn [orb].
  - assert (Hm : existsb (N.eqb a) l = false).
    { destruct (existsb (N.eqb a) l) eqn:E; [|reflexivity].
      apply (proj1 (memN_true_iff a l)) in E. contradiction. }
    rewrite Hm in IH.
    destruct (N.ltb_spec a (a + 1)); [|lia]. destruct (N.ltb_spec a a); [lia|].
    cbn [length]. lia.
  - destruct (N.ltb_spec a (p + 1)); destruct (N.ltb_spec a p); try lia; cbn [length]; lia.
Qed.

Lemma cnt_lt_le idx p : cnt_lt idx p <= vlen idx.
Proof.
  unfold cnt_lt, vlen. induction idx as [|a l IH]; cbn [filter length]; [lia|].
  destruct (a <? p); cbn [length]; lia.
Qed.

Lemma cnt_lt_split pre suf p :
  Forall (fun i => i < p) pre -> Forall (fun i => p <= i) suf -> cnt_lt (pre ++ suf) p = vlen pre.
Proof.
  intros Hp Hs. unfold cnt_lt, vlen. rewrite filter_app, app_length.
  assert (H1 : length (filter (fun i => i <? p) pre) = length pre).
  { induction Hp as [|a l Ha _ IH]; cbn [filter length]; [reflexivity|].
    destruct (N.ltb_spec a p); [cbn [length]; lia|lia]. }
  assert (H2 : length (filter (fun i => i <? p) suf) = 0%nat).
  { induction Hs as [|a l Ha _ IH]; cbn [filter length]; [reflexivity|].
    destruct (N.ltb_spec a p); [lia|exact IH]. }
  lia.
Qed.

(* every position below p is either listed or counted by rank *)
Lemma rank_cnt idx p : NoDup idx -> rank idx p + cnt_lt idx p = p.
Proof.
  intros Hnd. induction p as [|p IH] using N.peano_ind.
  - rewrite cnt_lt_0. reflexivity.
  - replace (N.succ p) with (p + 1) by lia.
    rewrite rank_succ, cnt_lt_succ by exact Hnd. destruct (memN p idx); lia.
Qed.

Lemma rank_split pre suf p :
  NoDup (pre ++ suf) -> Forall (fun i => i < p) pre -> Forall (fun i => p <= i) suf ->
  rank (pre ++ suf) p + vlen pre = p.
Proof.
  intros Hnd Hp Hs. pose proof (rank_cnt (pre ++ suf) p Hnd) as H.
  rewrite (cnt_lt_split pre suf p Hp Hs) in H. exact H.
Qed.

Lemma rank_mono idx p q : p <= q -> rank idx p <= rank idx q.
Proof.
  induction q as [|q IH] using N.peano_ind; intros H.
  - assert (p = 0) by lia. subst. lia.
  - destruct (N.eq_dec p (N.succ q)) as [->|Hne]; [lia|].
    replace (N.succ q) with (q + 1) by lia. rewrite rank_succ.
    assert (rank idx p <= rank idx q) by (apply IH; lia). destruct (memN q idx); lia.
Qed.

(* two unlisted positions of the same rank coincide *)
Lemma free_rank_unique idx p q j : free_rank idx p j -> free_rank idx q j -> p = q.
Proof.
  intros [Hp1 Hp2] [Hq1 Hq2].
  destruct (N.lt_trichotomy p q) as [H|[H|H]]; [exfalso|exact H|exfalso].
  - pose proof (rank_mono idx (p + 1) q ltac:(lia)) as Hm. rewrite rank_succ, Hp1 in Hm. lia.
  - pose proof (rank_mono idx (q + 1) p ltac:(lia)) as Hm. rewrite rank_succ, Hq1 in Hm. lia.
Qed.

(* the rank takes every value below rank idx q at an unlisted position below q *)
Lemma free_rank_exists idx j q : j < rank idx q -> exists p, p < q /\ free_rank idx p j.
Proof.
  induction q as [|q IH] using N.peano_ind; intros H.
  - cbn in H. lia.
  - replace (N.succ q) with (q + 1) in H by lia. rewrite rank_succ in H.
    destruct (N.ltb_spec j (rank idx q)) as [Hlt|Hge].
    + destruct (IH Hlt) as (p & Hp & Hf). exists p. split; [lia|exact Hf].
    + exists q. split; [lia|]. unfold free_rank. destruct (memN q idx); [lia|]. split; [reflexivity|lia].
Qed.

(* strictly ascending lists: everything before an element is smaller, and the element is at
   least its position *)
Lemma sorted_lt_before l a r : sorted_lt (l ++ a :: r) -> Forall (fun i => i < a) l.
Proof.
  induction l as [|x l IH]; cbn [app]; intros H; [constructor|].
  inversion H as [|? ? Hs Hf]; subst. constructor; [|apply IH; exact Hs].
  rewrite Forall_forall in Hf. apply Hf. apply in_elt.
Qed.

Lemma sorted_lt_after l a r : sorted_lt (l ++ a :: r) -> Forall (fun i => a < i) r.
Proof.
  induction l as [|x l IH]; cbn [app]; intros H.
  - inversion H; subst; assumption.
  - inversion H; subst. apply IH. assumption.
Qed.

Lemma sorted_lt_pos_le : forall l a r b,
  sorted_lt (l ++ a :: r) -> Forall (fun i => b <= i) (l ++ a :: r) -> b + vlen l <= a.
Proof.
  induction l as [|x l IH]; cbn [app]; intros a r b Hs Hb.
  - inversion Hb; subst. unfold vlen; cbn [length]. lia.
  - inversion Hs as [|? ? Hs1 Hf]; subst. inversion Hb as [|? ? Hbx _]; subst.
    specialize (IH a r (x + 1) Hs1).
    assert (Hb' : Forall (fun i => x + 1 <= i) (l ++ a :: r))
      by (eapply Forall_impl; [|exact Hf]; cbn; intros; lia).
    specialize (IH Hb'). unfold vlen in *; cbn [length]. lia.
Qed.

Lemma sorted_lt_pos l a r : sorted_lt (l ++ a :: r) -> vlen l <= a.
Proof.
  intros H. pose proof (sorted_lt_pos_le l a r 0 H) as H0.
  rewrite N.add_0_l in H0. apply H0. clear. induction (l ++ a :: r); constructor; auto; lia.
Qed.

Lemma Forall_last {T} (P : T -> Prop) (l : list T) d : l <> [] -> Forall P l -> P (last l d).
Proof.
  induction l as [|a l IH]; intros Hne H; [congruence|].
  inversion H; subst. destruct l as [|b l]; [assumption|].
  change (last (a :: b :: l) d) with (last (b :: l) d). apply IH; [discriminate|assumption].
Qed.

Lemma sorted_lt_le_last idx : sorted_lt idx -> Forall (fun i => i <= last idx 0) idx.
Proof.
  induction 1 as [|a l Hs IH Hf]; [constructor|].
  destruct l as [|b l]; [constructor; [cbn; lia|constructor]|].
  change (last (a :: b :: l) 0) with (last (b :: l) 0).
  constructor; [|exact IH].
  inversion Hf; subst. inversion IH; subst. lia.
Qed.

(* list helpers about nth *)
Lemma nth_map_seq {T} (f : nat -> T) (t p : nat) (d : T) : (p < t)%nat -> nth p (map f (seq 0 t)) d = f p.
Proof.
  intros H. rewrite (nth_indep _ d (f 0%nat)) by (rewrite map_length, seq_length; exact H).
  rewrite map_nth, seq_nth by exact H. reflexivity.
Qed.

Lemma nth_upd {T} : forall (l : list T) (i p : nat) (x d : T), (i < length l)%nat ->
  nth p (firstn i l ++ x :: skipn (Datatypes.S i) l) d = if Nat.eqb p i then x else nth p l d.
Proof.
  induction l as [|a l IH]; intros i p x d Hi; cbn [length] in Hi; [lia|].
  destruct i as [|i]; destruct p as [|p]; cbn; try reflexivity.
  apply IH. lia.
Qed.

Lemma firstn_snoc_nth {T} : forall (l : list T) (r : nat) (d : T), (r < length l)%nat ->
  firstn (Datatypes.S r) l = firstn r l ++ [nth r l d].
Proof.
  induction l as [|a l IH]; intros r d H; cbn [length] in H; [lia|].
  destruct r as [|r]; [reflexivity|].
  cbn [firstn nth app]. f_equal. apply IH. lia.
Qed.
