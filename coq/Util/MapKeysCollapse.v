(* ApplyIndexMapToMapKeys used the way its comment intends: with the collapse map of a vertex
   deletion (GenerateIndexCollapseMap) and defaultOffset = -(number of deleted indices). Then no
   two surviving keys collide, so no entry is lost (MapKeysProofs.mapkeys_spec_complete/_perm apply). *)
From NiflyVerif Require Import Res UtilSpec EraseProofs FillProofs RankProofs.
From NiflyVerif Require Import MapKeysModel MapKeysSpec MapKeysProofs.
From Coq Require Import ZifyBool ZifyNat ZifyN.
Local Open Scope Z_scope.

Lemma collapse_spec_length idx n : length (collapse_spec idx n) = N.to_nat n.
Proof. unfold collapse_spec. rewrite map_length, seq_length. reflexivity. Qed.

Lemma collapse_spec_nth idx n k : (k < N.to_nat n)%nat ->
  nth_error (collapse_spec idx n) k =
  Some (if memN (N.of_nat k) idx then -1 else Z.of_N (rank idx (N.of_nat k))).
Proof.
  intros H. unfold collapse_spec. rewrite nth_error_map.
  rewrite (nth_error_nth' _ 0%nat) by (rewrite seq_length; exact H).
  rewrite seq_nth by exact H. reflexivity.
Qed.

(* the new key of old key k: deleted positions vanish, a surviving position below n goes to its
   rank, everything else is shifted down by the number of deleted positions *)
Lemma mk_target_collapse idx n k :
  mk_target (collapse_spec idx n) (- Z.of_N (vlen idx)) k =
  if (0 <=? k) && (k <? Z.of_N n)
  then (if memN (Z.to_N k) idx then None else Some (Z.of_N (rank idx (Z.to_N k))))
  else Some (k - Z.of_N (vlen idx)).
Proof.
  unfold mk_target. rewrite collapse_spec_length.
  replace (Z.of_nat (N.to_nat n)) with (Z.of_N n) by lia.
  destruct ((0 <=? k) && (k <? Z.of_N n)) eqn:E; [|f_equal; lia].
  rewrite collapse_spec_nth by lia.
  replace (N.of_nat (Z.to_nat k)) with (Z.to_N k) by lia.
  destruct (memN (Z.to_N k) idx); [reflexivity|].
  destruct (Z.ltb_spec (Z.of_N (rank idx (Z.to_N k))) 0); [lia|reflexivity].
Qed.

Lemma rank_inj idx a b :
  memN a idx = false -> memN b idx = false -> rank idx a = rank idx b -> a = b.
Proof.
  assert (H : forall a b, memN a idx = false -> (a < b)%N -> (rank idx a < rank idx b)%N).
  { intros x y Hx Hlt. pose proof (rank_succ idx x) as Hs. rewrite Hx in Hs.
    pose proof (rank_mono idx (x + 1) y). lia. }
  intros Ha Hb E. destruct (N.lt_trichotomy a b) as [L|[L|L]]; [|exact L|].
  - specialize (H a b Ha L). lia.
  - specialize (H b a Hb L). lia.
Qed.

Lemma rank_all_below idx n : NoDup idx -> Forall (fun i => (i < n)%N) idx ->
  (rank idx n + vlen idx = n)%N.
Proof.
  intros Hnd Hf. pose proof (rank_cnt idx n Hnd) as H.
  pose proof (cnt_lt_split idx [] n Hf (Forall_nil _)) as Hc. rewrite app_nil_r in Hc.
  rewrite Hc in H. exact H.
Qed.

Theorem mapkeys_collapse_injective {V : Type} (km : list (Z * V)) (idx : list N) (n : N) :
  NoDup idx -> Forall (fun i => (i < n)%N) idx -> NoDup (map fst km) ->
  mk_injective (collapse_spec idx n) (- Z.of_N (vlen idx)) km.
Proof.
  intros Hnd Hf Hk. apply mk_injective_with_intro; [exact Hk|].
  intros k1 k2 t _ _. rewrite !mk_target_collapse.
  pose proof (rank_all_below idx n Hnd Hf) as Hn.
  assert (Hlt : forall a, (a < n)%N -> memN a idx = false -> (rank idx a < rank idx n)%N).
  { intros a Ha Hm. pose proof (rank_succ idx a) as Hs. rewrite Hm in Hs.
    pose proof (rank_mono idx (a + 1) n). lia. }
  destruct ((0 <=? k1) && (k1 <? Z.of_N n)) eqn:E1; destruct ((0 <=? k2) && (k2 <? Z.of_N n)) eqn:E2.
  - destruct (memN (Z.to_N k1) idx) eqn:M1; [discriminate|].
    destruct (memN (Z.to_N k2) idx) eqn:M2; [discriminate|].
    intros H1 H2. assert (rank idx (Z.to_N k1) = rank idx (Z.to_N k2)) by (injection H1; injection H2; lia).
    pose proof (rank_inj idx _ _ M1 M2 H). lia.
  - destruct (memN (Z.to_N k1) idx) eqn:M1; [discriminate|].
    intros H1 H2. injection H1 as H1. injection H2 as H2.
    pose proof (Hlt (Z.to_N k1) ltac:(lia) M1). lia.
  - destruct (memN (Z.to_N k2) idx) eqn:M2; [intros _ H; discriminate|].
    intros H1 H2. injection H1 as H1. injection H2 as H2.
    pose proof (Hlt (Z.to_N k2) ltac:(lia) M2). lia.
  - intros H1 H2. injection H1 as H1. injection H2 as H2. lia.
Qed.
