(* The generic in-place compaction loop equals a threaded filter-map over the unread suffix. *)
From NiflyVerif Require Import Res UtilModel.
From Coq Require Import ZifyBool ZifyNat ZifyN.
Local Open Scope N_scope.

Lemma skipn_skipn' {A} (l : list A) : forall a b, skipn a (skipn b l) = skipn (b + a) l.
Proof.
  intros a b. revert l. induction b as [|b IH]; intros l; [reflexivity|].
  destruct l as [|x l]; cbn [skipn plus]; [apply skipn_nil|apply IH].
Qed.

Lemma vget_skipn {A} (v : list A) (i : N) :
  i < vlen v -> exists x, vget v i = Some x /\ skipn (N.to_nat i) v = x :: skipn (S (N.to_nat i)) v.
Proof.
  unfold vget, vlen. intros H.
  assert (Hn : (N.to_nat i < length v)%nat) by lia.
  clear H. revert Hn. generalize (N.to_nat i) as n. intros n. revert v.
  induction n as [|n IH]; intros [|a v] Hn; cbn in *; try lia.
  - eexists; split; reflexivity.
  - apply IH. lia.
Qed.

Lemma vget_none {A} (v : list A) (i : N) : vlen v <= i -> vget v i = None.
Proof. unfold vget, vlen. intros H. apply nth_error_None. lia. Qed.

Lemma vget_some_lt {A} (v : list A) (i : N) x : vget v i = Some x -> i < vlen v.
Proof.
  unfold vget, vlen. intros H.
  assert (nth_error v (N.to_nat i) <> None) as H1 by congruence.
  apply nth_error_Some in H1. lia.
Qed.

Lemma vset_spec {A} (v : list A) (i : N) (x : A) :
  i < vlen v ->
  exists v', vset v i x = Some v' /\ length v' = length v /\
             firstn (S (N.to_nat i)) v' = firstn (N.to_nat i) v ++ [x] /\
             (forall k, (N.to_nat i < k)%nat -> skipn k v' = skipn k v).
Proof.
  unfold vset, vlen. intros H.
  destruct (N.ltb_spec i (N.of_nat (length v))) as [_|Hc]; [|lia].
  assert (Hn : (N.to_nat i < length v)%nat) by lia. clear H.
  revert Hn. generalize (N.to_nat i) as n. intros n Hn.
  eexists; split; [reflexivity|].
  assert (Hl : length (firstn n v) = n) by (apply firstn_length_le; lia).
  split; [|split].
  - rewrite app_length. cbn [length]. rewrite Hl, skipn_length. lia.
  - replace (S n) with (length (firstn n v) + 1)%nat at 1 by lia.
    rewrite firstn_app_2. cbn. reflexivity.
  - intros k Hk.
    replace k with (length (firstn n v) + (k - n))%nat at 1 by lia.
    rewrite skipn_app.
    rewrite skipn_all2 by lia. cbn [app].
    replace (length (firstn n v) + (k - n) - length (firstn n v))%nat with (k - n)%nat by lia.
    destruct (k - n)%nat as [|m] eqn:Hm; [lia|]. rewrite skipn_cons.
    rewrite skipn_skipn'. f_equal. lia.
Qed.

Lemma vset_none {A} (v : list A) (i : N) (x : A) : vlen v <= i -> vset v i x = None.
Proof. unfold vset, vlen. intros H. destruct (N.ltb_spec i (N.of_nat (length v))); [lia|reflexivity]. Qed.

Section CompactCorrect.
  Context {A S : Type}.
  Variable dec : S -> N -> A -> res (S * option A).
  Variable inc_si inc_di : N -> res N.

  (* the loop's effect, described without indices: thread the auxiliary state over the elements *)
  Fixpoint fm (s : S) (si : N) (l : list A) : res (list A * S) :=
    match l with
    | [] => Ok ([], s)
    | x :: r =>
      bind (dec s si x) (fun so =>
      bind (fm (fst so) (si + 1) r) (fun os =>
        Ok (match snd so with None => fst os | Some y => y :: fst os end, snd os)))
    end.

  Variable bound : N.
  Hypothesis inc_si_ok : forall x, x < bound -> inc_si x = Ok (x + 1).
  Hypothesis inc_di_ok : forall x, x < bound -> inc_di x = Ok (x + 1).

  Lemma compact_ok : forall fuel v s di si,
    bound = vlen v -> di <= si -> si <= bound -> (N.to_nat (bound - si) < fuel)%nat ->
    match fm s si (skipn (N.to_nat si) v) with
    | Ok (out, s') =>
      exists v', compact_loop dec inc_si inc_di fuel bound v s di si = Ok (v', s', di + vlen out)
                 /\ length v' = length v
                 /\ firstn (N.to_nat (di + vlen out)) v' = firstn (N.to_nat di) v ++ out
                 /\ (length out <= length v - N.to_nat si)%nat
    | Fault => compact_loop dec inc_si inc_di fuel bound v s di si = Fault
    | OutOfFuel => compact_loop dec inc_si inc_di fuel bound v s di si = OutOfFuel
    end.
  Proof.
    induction fuel as [|f IH]; intros v s di si Hb Hdi Hsi Hf; [lia|].
    cbn [compact_loop].
    destruct (N.ltb_spec si bound) as [Hlt|Hge].
    - destruct (vget_skipn v si) as (x & Hx & Hsk); [lia|].
      rewrite Hx, Hsk. cbn [fm].
      destruct (dec s si x) as [[s1 o]| |] eqn:Hd; cbn [bind fst snd].
      + destruct o as [y|].
        * destruct (vset_spec v di y) as (v1 & Hv1 & Hlen1 & Hfst1 & Hskip1); [lia|].
          rewrite Hv1. rewrite inc_di_ok by lia. rewrite inc_si_ok by lia. cbn [bind].
          specialize (IH v1 s1 (di + 1) (si + 1)).
          replace (N.to_nat (si + 1)) with (Datatypes.S (N.to_nat si)) in IH by lia.
          rewrite Hskip1 in IH by lia.
          destruct (fm s1 (si + 1) (skipn (Datatypes.S (N.to_nat si)) v)) as [[out s2]| |];
            cbn [bind fst snd].
          -- destruct IH as (v2 & Hrun & Hlen2 & Hfst2 & Hlo); try (unfold vlen in *; lia).
             exists v2. split; [|split; [|split]].
             ++ rewrite Hrun. f_equal. f_equal. unfold vlen; cbn [length]. lia.
             ++ lia.
             ++ replace (N.to_nat (di + vlen (y :: out))) with (N.to_nat (di + 1 + vlen out))
                  by (unfold vlen; cbn [length]; lia).
                rewrite Hfst2.
                replace (N.to_nat (di + 1)) with (Datatypes.S (N.to_nat di)) by lia.
                rewrite Hfst1. rewrite <- app_assoc. reflexivity.
             ++ cbn [length]. unfold vlen in *. lia.
          -- apply IH; unfold vlen in *; lia.
          -- apply IH; unfold vlen in *; lia.
        * rewrite inc_si_ok by lia. cbn [bind].
          specialize (IH v s1 di (si + 1)).
          replace (N.to_nat (si + 1)) with (Datatypes.S (N.to_nat si)) in IH by lia.
          destruct (fm s1 (si + 1) (skipn (Datatypes.S (N.to_nat si)) v)) as [[out s2]| |];
            cbn [bind fst snd]; try (apply IH; lia).
          destruct IH as (v2 & Hrun & Hlen2 & Hfst2 & Hlo); try lia.
          exists v2. repeat split; auto. unfold vlen in *. lia.
      + reflexivity.
      + reflexivity.
    - assert (si = bound) by lia. subst si.
      rewrite Hb. unfold vlen. rewrite Nat2N.id, skipn_all. cbn [fm].
      exists v. unfold vlen; cbn [length]. rewrite N.add_0_r, app_nil_r. repeat split; auto. lia.
  Qed.
End CompactCorrect.
