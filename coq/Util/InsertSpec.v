(* Naive definition InsertVectorIndices is compared with (kept apart from UtilSpec.v, which many
   other layers import, so that adding it does not invalidate their compiled files).
   Nothing here mentions loops, counters or widths. *)
From NiflyVerif Require Export Res UtilSpec.
Local Open Scope N_scope.

Section InsertSpec.
  Context {A : Type}.

  (* The vector with |v| + |idx| elements in which the unlisted positions hold the elements of v
     in order (position p holds v[rank idx p]).  The listed positions are "holes": the property
     does not constrain them; a copying move leaves there what the resized vector held before
     (v[p], or the fill value d beyond the old end), which is what [nth p v d] says. *)
  Definition insert_spec (d : A) (v : list A) (idx : list N) : list A :=
    map (fun p => if memN (N.of_nat p) idx then nth p v d
                  else nth (N.to_nat (rank idx (N.of_nat p))) v d)
        (seq 0 (length v + length idx)).
End InsertSpec.

(* p is the j-th position (counting from 0) that is not listed in idx *)
Definition free_rank (idx : list N) (p j : N) : Prop := memN p idx = false /\ rank idx p = j.
