(* GenerateTrianglesFromStrips: the indexed loops equal the window definition. *)
From NiflyVerif Require Import Res UtilModel UtilSpec CompactProofs.
From Coq Require Import ZifyBool ZifyNat ZifyN.
Local Open Scope N_scope.

Lemma wrap16_trunc16 x : wrap16 x = trunc16 x.
Proof. reflexivity. Qed.

Lemma land1_even i : (N.land i 1 =? 0) = N.even i.
Proof. destruct i as [|[p|p|]]; reflexivity. Qed.

Lemma even_succ_flip i : N.even (i + 1) = negb (N.even i).
Proof. replace (i + 1) with (N.succ i) by lia. rewrite N.even_succ. rewrite <- N.negb_even. reflexivity. Qed.

Lemma strip_loop_ok : forall rest fuel strip pre a0 b0 i acc,
  strip = pre ++ a0 :: b0 :: rest -> i = vlen pre + 2 -> (length rest < fuel)%nat ->
  strip_loop fuel strip i (trunc16 a0) (trunc16 b0) acc = Ok (acc ++ strip_windows i (a0 :: b0 :: rest)).
Proof.
  induction rest as [|c rest IH]; intros fuel strip pre a0 b0 i acc Hs Hi Hf;
    (destruct fuel as [|f]; [cbn in Hf; lia|]); cbn [strip_loop strip_windows].
  - destruct (N.ltb_spec i (vlen strip)) as [Hc|_].
    + subst strip. unfold vlen in *. rewrite app_length in Hc. cbn [length] in Hc. lia.
    + rewrite app_nil_r. reflexivity.
  - destruct (N.ltb_spec i (vlen strip)) as [_|Hc].
    2:{ subst strip. unfold vlen in *. rewrite app_length in Hc. cbn [length] in Hc. lia. }
    assert (Hg : vget strip i = Some c).
    { subst strip i. unfold vget, vlen.
      replace (N.to_nat (N.of_nat (length pre) + 2)) with (length pre + 2)%nat by lia.
      rewrite nth_error_app2 by lia. replace (length pre + 2 - length pre)%nat with 2%nat by lia.
      reflexivity. }
    rewrite Hg. change (wrap16 c) with (trunc16 c). rewrite land1_even.
    rewrite (IH f strip (pre ++ [a0]) b0 c (i + 1)).
    + destruct (negb (trunc16 a0 =? trunc16 b0) && negb (trunc16 b0 =? trunc16 c)
                && negb (trunc16 c =? trunc16 a0))%bool.
      * destruct (N.even i); rewrite <- app_assoc; reflexivity.
      * reflexivity.
    + subst strip. rewrite <- app_assoc. reflexivity.
    + subst i. unfold vlen. rewrite app_length. cbn [length]. lia.
    + cbn [length] in Hf. lia.
Qed.

Lemma strip_model_ok (s : list N) acc : strip_model s acc = Ok (acc ++ strip_windows 2 s).
Proof.
  unfold strip_model.
  destruct s as [|a [|b [|c rest]]]; try (cbn; rewrite app_nil_r; reflexivity).
  destruct (N.ltb_spec (vlen (a :: b :: c :: rest)) 3) as [Hc|_];
    [unfold vlen in Hc; cbn [length] in Hc; lia|].
  change (vget (a :: b :: c :: rest) 0) with (Some a).
  change (vget (a :: b :: c :: rest) 1) with (Some b).
  change (wrap16 a) with (trunc16 a). change (wrap16 b) with (trunc16 b).
  apply (strip_loop_ok (c :: rest) _ _ []); [reflexivity|reflexivity|cbn [length]; lia].
Qed.

Lemma strips_model_from_ok : forall strips acc,
  strips_model_from strips acc = Ok (acc ++ flat_map (strip_windows 2) strips).
Proof.
  induction strips as [|s strips IH]; intros acc; cbn [strips_model_from flat_map].
  - rewrite app_nil_r. reflexivity.
  - rewrite strip_model_ok. cbn [bind]. rewrite IH, app_assoc. reflexivity.
Qed.

(* no hypothesis: holds for every list of strips (any lengths, any point values) *)
Theorem strips_correct (strips : list (list N)) : strips_model strips = Ok (strips_spec strips).
Proof. unfold strips_model, strips_spec. rewrite strips_model_from_ok. reflexivity. Qed.

Lemma strip_windows_cons3 i a b c r :
  strip_windows i (a :: b :: c :: r) =
  (if (negb (trunc16 a =? trunc16 b) && negb (trunc16 b =? trunc16 c) && negb (trunc16 c =? trunc16 a))%bool
   then [if N.even i then (trunc16 a, trunc16 b, trunc16 c) else (trunc16 a, trunc16 c, trunc16 b)] else [])
  ++ strip_windows (i + 1) (b :: c :: r).
Proof. reflexivity. Qed.

(* every emitted triangle is non-degenerate *)
Lemma strip_windows_nondegenerate : forall s i a b c,
  In (a, b, c) (strip_windows i s) -> a <> b /\ b <> c /\ c <> a.
Proof.
  induction s as [|x s IH]; intros i a b c Hin; [destruct Hin|].
  destruct s as [|y [|z r]]; try destruct Hin.
  rewrite strip_windows_cons3 in Hin. apply in_app_or in Hin. destruct Hin as [Hin|Hin]; [|eauto].
  destruct (N.eqb_spec (trunc16 x) (trunc16 y)); cbn in Hin; [destruct Hin|].
  destruct (N.eqb_spec (trunc16 y) (trunc16 z)); cbn in Hin; [destruct Hin|].
  destruct (N.eqb_spec (trunc16 z) (trunc16 x)); cbn in Hin; [destruct Hin|].
  destruct Hin as [Hin|[]]. destruct (N.even i); inversion Hin; subst; repeat split; congruence.
Qed.
