(* ApplyIndexMapToMapKeys: the loop model (MapKeysModel.v) against the naive definition
   (MapKeysSpec.v), for all inputs. *)
From NiflyVerif Require Import Res MapKeysModel MapKeysSpec.
From Coq Require Import ZifyBool ZifyNat ZifyN Sorted Permutation.
Local Open Scope Z_scope.

Section Proofs.
  Context {V : Type}.
  Implicit Types (c copy img km : list (Z * V)) (d : Z * V).

  (* the invariant of a std::map: strictly ascending (hence unique) keys *)
  Definition mk_sorted c : Prop := StronglySorted Z.lt (map fst c).

  (* ------------------------------------------------------------------ copy[k] = v *)
  Lemma mk_find_put k v c t :
    mk_find t (mk_put k v c) = if k =? t then Some v else mk_find t c.
  Proof.
    induction c as [|[k1 v1] r IH]; cbn [mk_put mk_find]; [reflexivity|].
    destruct (Z.ltb_spec k k1) as [Hlt|Hge].
    - cbn [mk_find]. reflexivity.
    - destruct (Z.eqb_spec k k1) as [->|Hne].
      + cbn [mk_find]. destruct (Z.eqb_spec k1 t); reflexivity.
      + cbn [mk_find]. rewrite IH. destruct (Z.eqb_spec k1 t) as [->|]; [|reflexivity].
        destruct (Z.eqb_spec k t); [lia|reflexivity].
  Qed.

  Lemma mk_put_keys_Forall (P : Z -> Prop) k v c :
    P k -> Forall P (map fst c) -> Forall P (map fst (mk_put k v c)).
  Proof.
    intros Hk. induction c as [|[k1 v1] r IH]; cbn [mk_put map fst]; intros H.
    - constructor; [exact Hk|constructor].
    - inversion H as [|? ? H1 H2]; subst. destruct (k <? k1).
      + cbn [map fst]. constructor; [exact Hk|]. constructor; assumption.
      + destruct (k =? k1); cbn [map fst]; constructor; auto.
  Qed.

  Lemma mk_put_sorted k v c : mk_sorted c -> mk_sorted (mk_put k v c).
  Proof.
    unfold mk_sorted. induction c as [|[k1 v1] r IH]; cbn [mk_put map fst]; intros H.
    - constructor; constructor.
    - inversion H as [|? ? Hs Hf]; subst. destruct (Z.ltb_spec k k1) as [Hlt|Hge].
      + cbn [map fst]. constructor; [exact H|]. constructor; [exact Hlt|].
        eapply Forall_impl; [|exact Hf]. cbn. intros; lia.
      + destruct (Z.eqb_spec k k1) as [->|Hne]; cbn [map fst].
        * constructor; assumption.
        * constructor; [apply IH; exact Hs|]. apply mk_put_keys_Forall; [lia|exact Hf].
  Qed.

  Lemma mk_put_length k v c : (length (mk_put k v c) <= S (length c))%nat.
  Proof.
    induction c as [|[k1 v1] r IH]; cbn [mk_put length]; [lia|].
    destruct (k <? k1); [cbn [length]; lia|]. destruct (k =? k1); cbn [length]; lia.
  Qed.

  (* ------------------------------------------------------------------ a run of assignments *)
  Fixpoint mk_puts img c : list (Z * V) :=
    match img with
    | [] => c
    | (k, v) :: r => mk_puts r (mk_put k v c)
    end.

  Lemma mk_puts_app a b c : mk_puts (a ++ b) c = mk_puts b (mk_puts a c).
  Proof. revert c. induction a as [|[k v] r IH]; intros c; cbn [app mk_puts]; [reflexivity|apply IH]. Qed.

  Lemma mk_find_puts img : forall c t,
    mk_find t (mk_puts img c) = match mk_last t img with Some v => Some v | None => mk_find t c end.
  Proof.
    induction img as [|[k v] r IH]; intros c t; cbn [mk_puts mk_last]; [reflexivity|].
    rewrite IH, mk_find_put. destruct (mk_last t r); [reflexivity|].
    destruct (k =? t); reflexivity.
  Qed.

  Lemma mk_puts_sorted img : forall c, mk_sorted c -> mk_sorted (mk_puts img c).
  Proof.
    induction img as [|[k v] r IH]; intros c H; cbn [mk_puts]; [exact H|].
    apply IH, mk_put_sorted, H.
  Qed.

  Lemma mk_puts_length img : forall c, (length (mk_puts img c) <= length img + length c)%nat.
  Proof.
    induction img as [|[k v] r IH]; intros c; cbn [mk_puts length]; [lia|].
    specialize (IH (mk_put k v c)). pose proof (mk_put_length k v c). lia.
  Qed.

  (* ------------------------------------------------------------------ the loop *)
  Lemma mk_body_eq kt im off copy d :
    mk_body kt im off copy d =
    if mk_noub kt im off (fst d)
    then Ok (match mk_ctarget kt im off (fst d) with
             | Some t => mk_put t (snd d) copy
             | None => copy
             end)
    else Fault.
  Proof.
    destruct d as [k v]. cbn [fst snd]. unfold mk_body, mk_noub, mk_ctarget. cbn [fst snd].
    destruct (mk_oor k (vlen im)) eqn:Eo.
    - unfold mk_shift. destruct kt; cbn [mk_cast].
      + destruct (mk_int_range (k + off)); reflexivity.
      + destruct (mk_int_range (k + off)); reflexivity.
      + reflexivity.
    - unfold mk_oor, vlen in Eo. unfold vget.
      destruct (nth_error im (N.to_nat (Z.to_N k))) as [m|] eqn:En.
      + destruct (0 <=? m); reflexivity.
      + exfalso. apply nth_error_None in En. lia.
  Qed.

  Lemma mk_loop_eq kt im off km : forall copy,
    forallb (fun d => mk_noub kt im off (fst d)) km = true ->
    mk_loop kt im off km copy = Ok (mk_puts (mk_image_with (mk_ctarget kt im off) km) copy).
  Proof.
    induction km as [|d r IH]; intros copy H; cbn [mk_loop]; [reflexivity|].
    cbn [forallb] in H. apply andb_true_iff in H. destruct H as [H1 H2].
    rewrite mk_body_eq, H1. cbn [bind]. rewrite IH by exact H2.
    unfold mk_image_with. cbn [flat_map].
    destruct (mk_ctarget kt im off (fst d)); cbn [app mk_puts]; reflexivity.
  Qed.

  Lemma mk_loop_fault kt im off km : forall copy,
    forallb (fun d => mk_noub kt im off (fst d)) km = false ->
    mk_loop kt im off km copy = Fault.
  Proof.
    induction km as [|d r IH]; intros copy H; cbn [forallb] in H; [discriminate|].
    cbn [mk_loop]. rewrite mk_body_eq.
    destruct (mk_noub kt im off (fst d)); cbn [andb] in H; [|reflexivity].
    cbn [bind]. apply IH, H.
  Qed.

  (* ------------------------------------------------------------------ sorted lists are
     determined by their look-ups *)
  Lemma mk_find_lt k t c : Forall (Z.lt k) (map fst c) -> t <= k -> mk_find t c = None.
  Proof.
    induction c as [|[k1 v1] r IH]; cbn [map fst mk_find]; intros H Ht; [reflexivity|].
    inversion H as [|? ? H1 H2]; subst. destruct (Z.eqb_spec k1 t); [lia|]. apply IH; assumption.
  Qed.

  Lemma mk_find_none t c : ~ In t (map fst c) -> mk_find t c = None.
  Proof.
    induction c as [|[k1 v1] r IH]; cbn [map fst mk_find In]; intros H; [reflexivity|].
    destruct (Z.eqb_spec k1 t); [tauto|]. apply IH. tauto.
  Qed.

  Lemma mk_find_in t v c : mk_find t c = Some v -> In (t, v) c.
  Proof.
    induction c as [|[k1 v1] r IH]; cbn [mk_find In]; intros H; [discriminate|].
    destruct (Z.eqb_spec k1 t) as [->|]; [injection H as ->; left; reflexivity|right; auto].
  Qed.

  Lemma mk_sorted_ext c1 : forall c2,
    mk_sorted c1 -> mk_sorted c2 -> (forall t, mk_find t c1 = mk_find t c2) -> c1 = c2.
  Proof.
    unfold mk_sorted.
    induction c1 as [|[k1 v1] r1 IH]; intros [|[k2 v2] r2] S1 S2 H.
    - reflexivity.
    - specialize (H k2). cbn [mk_find] in H. rewrite Z.eqb_refl in H. discriminate.
    - specialize (H k1). cbn [mk_find] in H. rewrite Z.eqb_refl in H. discriminate.
    - cbn [map fst] in S1, S2.
      inversion S1 as [|? ? S1' F1]; inversion S2 as [|? ? S2' F2]; subst.
      assert (Hk : k1 = k2).
      { destruct (Z.lt_trichotomy k1 k2) as [L|[E|G]]; [|exact E|].
        - pose proof (H k1) as H1. cbn [mk_find] in H1. rewrite Z.eqb_refl in H1.
          destruct (Z.eqb_spec k2 k1); [lia|].
          rewrite (mk_find_lt k2 k1 r2 F2) in H1 by lia. discriminate.
        - pose proof (H k2) as H1. cbn [mk_find] in H1. rewrite Z.eqb_refl in H1.
          destruct (Z.eqb_spec k1 k2); [lia|].
          rewrite (mk_find_lt k1 k2 r1 F1) in H1 by lia. discriminate. }
      subst k2.
      assert (Hv : v1 = v2).
      { pose proof (H k1) as H1. cbn [mk_find] in H1. rewrite Z.eqb_refl in H1. congruence. }
      subst v2. f_equal. apply IH; [assumption|assumption|].
      intros t. pose proof (H t) as Ht. cbn [mk_find] in Ht.
      destruct (Z.eqb_spec k1 t) as [Et|]; [|exact Ht].
      rewrite <- Et. rewrite (mk_find_lt k1 k1 r1 F1), (mk_find_lt k1 k1 r2 F2) by lia. reflexivity.
  Qed.

  (* ------------------------------------------------------------------ the naive definition *)
  Lemma mk_ins_key_in x k l : In x (mk_ins_key k l) <-> x = k \/ In x l.
  Proof.
    induction l as [|a r IH]; cbn [mk_ins_key In]; [intuition|].
    destruct (k <? a); [cbn [In]; intuition|].
    destruct (Z.eqb_spec k a) as [->|]; cbn [In]; [intuition|]. rewrite IH. intuition.
  Qed.

  Lemma mk_ins_key_Forall (P : Z -> Prop) k l : P k -> Forall P l -> Forall P (mk_ins_key k l).
  Proof.
    intros Hk H. apply Forall_forall. intros x Hx. apply mk_ins_key_in in Hx.
    destruct Hx as [->|Hx]; [exact Hk|]. rewrite Forall_forall in H. auto.
  Qed.

  Lemma mk_ins_key_sorted k l : StronglySorted Z.lt l -> StronglySorted Z.lt (mk_ins_key k l).
  Proof.
    induction l as [|a r IH]; cbn [mk_ins_key]; intros H.
    - constructor; constructor.
    - inversion H as [|? ? Hs Hf]; subst. destruct (Z.ltb_spec k a) as [Hlt|Hge].
      + constructor; [exact H|]. constructor; [exact Hlt|].
        eapply Forall_impl; [|exact Hf]. cbn. intros; lia.
      + destruct (Z.eqb_spec k a) as [->|Hne]; [exact H|].
        constructor; [apply IH; exact Hs|]. apply mk_ins_key_Forall; [lia|exact Hf].
  Qed.

  Lemma mk_keys_in x img : In x (mk_keys img) <-> In x (map fst img).
  Proof.
    unfold mk_keys. induction (map fst img) as [|a r IH]; cbn [fold_right In]; [tauto|].
    rewrite mk_ins_key_in, IH. intuition.
  Qed.

  Lemma mk_keys_sorted img : StronglySorted Z.lt (mk_keys img).
  Proof.
    unfold mk_keys. induction (map fst img) as [|a r IH]; cbn [fold_right]; [constructor|].
    apply mk_ins_key_sorted, IH.
  Qed.

  Lemma mk_last_none t img : ~ In t (map fst img) -> mk_last t img = None.
  Proof.
    induction img as [|[k v] r IH]; cbn [map fst mk_last In]; intros H; [reflexivity|].
    rewrite IH by tauto. destruct (Z.eqb_spec k t); [tauto|reflexivity].
  Qed.

  Lemma mk_last_some t img : In t (map fst img) -> exists v, mk_last t img = Some v.
  Proof.
    induction img as [|[k v] r IH]; cbn [map fst mk_last In]; intros H; [tauto|].
    destruct (mk_last t r) as [x|] eqn:E; [eauto|].
    destruct (Z.eqb_spec k t); [eauto|]. destruct H as [H|H]; [tauto|].
    destruct (IH H) as [x Hx]. discriminate.
  Qed.

  Lemma mk_last_in t v img : mk_last t img = Some v -> In (t, v) img.
  Proof.
    induction img as [|[k x] r IH]; cbn [mk_last In]; intros H; [discriminate|].
    destruct (mk_last t r) as [y|] eqn:E.
    - right. apply IH. exact H.
    - destruct (Z.eqb_spec k t) as [->|]; [|discriminate]. injection H as ->. left. reflexivity.
  Qed.

  (* with unique keys every entry is the last one for its key *)
  Lemma mk_last_unique t v img : NoDup (map fst img) -> In (t, v) img -> mk_last t img = Some v.
  Proof.
    induction img as [|[k x] r IH]; cbn [map fst mk_last In]; intros Hnd H; [tauto|].
    inversion Hnd as [|? ? Hni Hnd']; subst. destruct H as [H|H].
    - injection H as -> ->. rewrite mk_last_none by exact Hni. rewrite Z.eqb_refl. reflexivity.
    - rewrite (IH Hnd' H). reflexivity.
  Qed.

  Lemma mk_tab_keys_Forall (P : Z -> Prop) img L : Forall P L -> Forall P (map fst (mk_tab img L)).
  Proof.
    unfold mk_tab. induction 1 as [|a r Ha _ IH]; cbn [flat_map]; [constructor|].
    destruct (mk_last a img); cbn [app map fst]; [constructor; assumption|assumption].
  Qed.

  Lemma mk_tab_sorted img L : StronglySorted Z.lt L -> mk_sorted (mk_tab img L).
  Proof.
    unfold mk_sorted. induction 1 as [|a r Hs IH Hf]; [constructor|].
    unfold mk_tab. cbn [flat_map]. fold (mk_tab img r).
    destruct (mk_last a img); cbn [app map fst]; [|exact IH].
    constructor; [exact IH|]. apply mk_tab_keys_Forall, Hf.
  Qed.

  Lemma mk_tab_find img L t : StronglySorted Z.lt L ->
    mk_find t (mk_tab img L) = if existsb (Z.eqb t) L then mk_last t img else None.
  Proof.
    induction 1 as [|a r Hs IH Hf]; [reflexivity|].
    unfold mk_tab. cbn [flat_map existsb]. fold (mk_tab img r).
    destruct (Z.eqb_spec t a) as [->|Hne]; cbn [orb].
    - assert (Hn : mk_find a (mk_tab img r) = None).
      { apply (mk_find_lt a a); [apply mk_tab_keys_Forall, Hf|lia]. }
      destruct (mk_last a img) as [v|]; cbn [app mk_find]; [rewrite Z.eqb_refl; reflexivity|exact Hn].
    - destruct (mk_last a img) as [v|]; cbn [app mk_find]; [|exact IH].
      destruct (Z.eqb_spec a t); [congruence|exact IH].
  Qed.

  Section WithTarget.
    Variable tgt : Z -> option Z.

    Lemma mapkeys_spec_with_sorted km : mk_sorted (mapkeys_spec_with tgt km).
    Proof. apply mk_tab_sorted, mk_keys_sorted. Qed.

    (* a look-up in the result returns the value of the LAST entry (in iteration order) whose key
       is sent to t, and nothing when no entry is sent there *)
    Lemma mapkeys_spec_with_find km t :
      mk_find t (mapkeys_spec_with tgt km) = mk_last t (mk_image_with tgt km).
    Proof.
      unfold mapkeys_spec_with. cbv zeta. rewrite mk_tab_find by apply mk_keys_sorted.
      destruct (existsb (Z.eqb t) (mk_keys (mk_image_with tgt km))) eqn:E; [reflexivity|].
      symmetry. apply mk_last_none. intros Hin. apply mk_keys_in in Hin.
      assert (existsb (Z.eqb t) (mk_keys (mk_image_with tgt km)) = true); [|congruence].
      apply existsb_exists. exists t. split; [exact Hin|apply Z.eqb_refl].
    Qed.

    Lemma mk_puts_is_spec km : mk_puts (mk_image_with tgt km) [] = mapkeys_spec_with tgt km.
    Proof.
      apply mk_sorted_ext.
      - apply mk_puts_sorted. constructor.
      - apply mapkeys_spec_with_sorted.
      - intros t. rewrite mk_find_puts, mapkeys_spec_with_find. cbn [mk_find].
        destruct (mk_last t (mk_image_with tgt km)); reflexivity.
    Qed.

    Lemma mk_image_with_in t v km :
      In (t, v) (mk_image_with tgt km) <-> exists k, In (k, v) km /\ tgt k = Some t.
    Proof.
      unfold mk_image_with. rewrite in_flat_map. split.
      - intros [[k x] [Hin H]]. cbn [fst snd] in H. destruct (tgt k) as [t'|] eqn:E; [|destruct H].
        destruct H as [H|[]]. injection H as -> ->. eauto.
      - intros [k [Hin E]]. exists (k, v). split; [exact Hin|]. cbn [fst snd]. rewrite E. left. reflexivity.
    Qed.

    (* every entry of the result is an old entry under its new key, value unchanged; entries sent
       to "deleted" ([tgt k = None]) therefore never show up *)
    Lemma mapkeys_spec_with_sound km t v :
      In (t, v) (mapkeys_spec_with tgt km) -> exists k, In (k, v) km /\ tgt k = Some t.
    Proof.
      intros H. apply mk_image_with_in. apply mk_last_in.
      rewrite <- mapkeys_spec_with_find.
      assert (Hs := mapkeys_spec_with_sorted km). revert H Hs. unfold mk_sorted.
      generalize (mapkeys_spec_with tgt km). intros c. induction c as [|[k1 v1] r IH]; cbn [In map fst mk_find]; [tauto|].
      intros [H|H] Hs.
      - injection H as -> ->. rewrite Z.eqb_refl. reflexivity.
      - inversion Hs as [|? ? Hs' Hf]; subst. destruct (Z.eqb_spec k1 t) as [->|]; [|auto].
        exfalso. rewrite Forall_forall in Hf. specialize (Hf t (in_map fst _ _ H)). cbn in Hf. lia.
    Qed.

    Lemma mapkeys_spec_with_in km t v :
      In (t, v) (mapkeys_spec_with tgt km) <-> mk_last t (mk_image_with tgt km) = Some v.
    Proof.
      rewrite <- mapkeys_spec_with_find. split; [|apply mk_find_in].
      assert (Hs := mapkeys_spec_with_sorted km). revert Hs. unfold mk_sorted.
      generalize (mapkeys_spec_with tgt km). intros c. induction c as [|[k1 v1] r IH]; cbn [In map fst mk_find]; [tauto|].
      intros Hs [H|H].
      - injection H as -> ->. rewrite Z.eqb_refl. reflexivity.
      - inversion Hs as [|? ? Hs' Hf]; subst. destruct (Z.eqb_spec k1 t) as [->|]; [|auto].
        exfalso. rewrite Forall_forall in Hf. specialize (Hf t (in_map fst _ _ H)). cbn in Hf. lia.
    Qed.

    (* when no two surviving entries get the same new key, no entry is lost ... *)
    Lemma mapkeys_spec_with_complete km k v t :
      mk_injective_with tgt km -> In (k, v) km -> tgt k = Some t ->
      mk_find t (mapkeys_spec_with tgt km) = Some v.
    Proof.
      intros Hinj Hin Ht. rewrite mapkeys_spec_with_find. apply mk_last_unique; [exact Hinj|].
      apply mk_image_with_in. eauto.
    Qed.

    Lemma mk_sorted_NoDup c : mk_sorted c -> NoDup c.
    Proof.
      unfold mk_sorted. induction c as [|[k v] r IH]; cbn [map fst]; intros H; constructor.
      - inversion H as [|? ? _ Hf]; subst. intros Hin. rewrite Forall_forall in Hf.
        specialize (Hf k (in_map fst _ _ Hin)). cbn in Hf. lia.
      - inversion H; auto.
    Qed.

    (* ... and the result is exactly the image, re-ordered by key *)
    Lemma mapkeys_spec_with_perm km :
      mk_injective_with tgt km -> Permutation (mapkeys_spec_with tgt km) (mk_image_with tgt km).
    Proof.
      intros Hinj. apply NoDup_Permutation.
      - apply mk_sorted_NoDup, mapkeys_spec_with_sorted.
      - eapply NoDup_map_inv. exact Hinj.
      - intros [t v]. rewrite mapkeys_spec_with_in. split; [apply mk_last_in|].
        apply mk_last_unique. exact Hinj.
    Qed.

    (* the number of entries of the result = number of distinct new keys; it equals the number of
       surviving entries exactly when no two collide *)
    Lemma mk_ins_key_length k l : StronglySorted Z.lt l ->
      length (mk_ins_key k l) = if existsb (Z.eqb k) l then length l else S (length l).
    Proof.
      induction 1 as [|a r Hs IH Hf]; [reflexivity|]. cbn [mk_ins_key existsb].
      destruct (Z.ltb_spec k a) as [Hlt|Hge].
      - destruct (Z.eqb_spec k a); [lia|]. cbn [orb].
        assert (E : existsb (Z.eqb k) r = false).
        { destruct (existsb (Z.eqb k) r) eqn:E; [|reflexivity]. apply existsb_exists in E.
          destruct E as [x [Hx Hxe]]. rewrite Forall_forall in Hf. specialize (Hf x Hx). lia. }
        rewrite E. reflexivity.
      - destruct (Z.eqb_spec k a) as [->|Hne]; cbn [orb]; [reflexivity|].
        cbn [length]. rewrite IH. destruct (existsb (Z.eqb k) r); reflexivity.
    Qed.

    Lemma mk_keys_length img : (length (mk_keys img) <= length img)%nat /\
      (length (mk_keys img) = length img -> NoDup (map fst img)).
    Proof.
      unfold mk_keys. rewrite <- (map_length fst img).
      induction (map fst img) as [|a r [IH1 IH2]]; cbn [fold_right length].
      - split; [lia|constructor].
      - assert (Hs : StronglySorted Z.lt (fold_right mk_ins_key [] r)).
        { clear. induction r; cbn [fold_right]; [constructor|apply mk_ins_key_sorted; assumption]. }
        rewrite (mk_ins_key_length a _ Hs).
        destruct (existsb (Z.eqb a) (fold_right mk_ins_key [] r)) eqn:E; split; try lia.
        intros H. constructor; [|apply IH2; lia].
        intros Hin. assert (existsb (Z.eqb a) (fold_right mk_ins_key [] r) = true); [|congruence].
        apply existsb_exists. exists a. split; [|apply Z.eqb_refl].
        clear - Hin. induction r as [|b r IH]; cbn [fold_right]; [destruct Hin|].
        apply mk_ins_key_in. destruct Hin as [->|Hin]; auto.
    Qed.

    Lemma mk_tab_length img L : (forall t, In t L -> In t (map fst img)) ->
      length (mk_tab img L) = length L.
    Proof.
      unfold mk_tab. induction L as [|a r IH]; intros H; cbn [flat_map length]; [reflexivity|].
      destruct (mk_last_some a img (H a (or_introl eq_refl))) as [v ->].
      cbn [app length]. f_equal. apply IH. intros t Ht. apply H. right. exact Ht.
    Qed.

    Lemma mapkeys_spec_with_length km :
      (length (mapkeys_spec_with tgt km) <= length (mk_image_with tgt km))%nat /\
      (length (mapkeys_spec_with tgt km) = length (mk_image_with tgt km) <-> mk_injective_with tgt km).
    Proof.
      unfold mapkeys_spec_with. cbv zeta. rewrite mk_tab_length by (intros t; apply mk_keys_in).
      destruct (mk_keys_length (mk_image_with tgt km)) as [H1 H2]. split; [exact H1|].
      split; [exact H2|]. intros Hinj.
      pose proof (Permutation_length (mapkeys_spec_with_perm km Hinj)) as Hp.
      unfold mapkeys_spec_with in Hp. cbv zeta in Hp.
      rewrite mk_tab_length in Hp by (intros t; apply mk_keys_in). exact Hp.
    Qed.

    Lemma mk_image_with_length km : (length (mk_image_with tgt km) <= length km)%nat.
    Proof.
      unfold mk_image_with. induction km as [|d r IH]; cbn [flat_map length]; [lia|].
      destruct (tgt (fst d)); cbn [app length]; lia.
    Qed.

    (* a sufficient condition for "no collision" in terms of the old keys *)
    Lemma mk_injective_with_intro km :
      NoDup (map fst km) ->
      (forall k1 k2 t, In k1 (map fst km) -> In k2 (map fst km) ->
                       tgt k1 = Some t -> tgt k2 = Some t -> k1 = k2) ->
      mk_injective_with tgt km.
    Proof.
      unfold mk_injective_with, mk_image_with.
      induction km as [|[k v] r IH]; cbn [map fst flat_map]; intros Hnd Hinj; [constructor|].
      inversion Hnd as [|? ? Hni Hnd']; subst.
      assert (IH' : NoDup (map fst (flat_map (fun d => match tgt (fst d) with Some t => [(t, snd d)] | None => [] end) r))).
      { apply IH; [exact Hnd'|]. intros k1 k2 t H1 H2. apply Hinj; right; assumption. }
      destruct (tgt k) as [t|] eqn:Et; cbn [app map fst]; [|exact IH'].
      constructor; [|exact IH'].
      intros Hin. apply in_map_iff in Hin. destruct Hin as [[t' v'] [Ht' Hin]]. cbn [fst] in Ht'. subst t'.
      apply (mk_image_with_in t v' r) in Hin. destruct Hin as [k2 [Hin2 Et2]].
      assert (k = k2).
      { apply (Hinj k k2 t); [left; reflexivity|right; apply (in_map fst _ _ Hin2)|exact Et|exact Et2]. }
      subst k2. apply Hni. apply (in_map fst _ _ Hin2).
    Qed.
  End WithTarget.

  (* ------------------------------------------------------------------ theorems *)

  (* ALL inputs: the run is a fault exactly when some key outside the index map makes
     d.first + defaultOffset overflow a signed int (undefined behaviour; impossible for uint32_t
     keys); otherwise it ends, never reads outside indexMap, and yields the map that the naive
     definition gives for the key renaming the code computes (casts included). *)
  Theorem mapkeys_defined kt km im off :
    mapkeys_model kt km im off =
    if forallb (fun d => mk_noub kt im off (fst d)) km
    then Ok (mapkeys_spec_with (mk_ctarget kt im off) km)
    else Fault.
  Proof.
    unfold mapkeys_model. destruct (forallb (fun d => mk_noub kt im off (fst d)) km) eqn:E.
    - rewrite mk_loop_eq by exact E. rewrite mk_puts_is_spec. reflexivity.
    - apply mk_loop_fault, E.
  Qed.

  (* when every new key fits the key type, the code's renaming is the naive one *)
  Lemma mk_ctarget_fits kt im off k :
    match mk_target im off k with
    | Some t => mk_key_range (mk_kty_w kt) (mk_kty_sg kt) t
    | None => True
    end ->
    mk_noub kt im off k = true /\ mk_ctarget kt im off k = mk_target im off k.
  Proof.
    unfold mk_noub, mk_ctarget, mk_target.
    assert (E : mk_oor k (vlen im) = negb ((0 <=? k) && (k <? Z.of_nat (length im)))).
    { unfold mk_oor, vlen. lia. }
    rewrite E. destruct ((0 <=? k) && (k <? Z.of_nat (length im))) eqn:Hin; cbn [negb].
    - unfold vget. rewrite Z_N_nat.
      destruct (nth_error im (Z.to_nat k)) as [m|] eqn:En; [|auto].
      destruct (Z.ltb_spec m 0); destruct (Z.leb_spec 0 m); try lia; [auto|].
      intros Hr. split; [reflexivity|]. f_equal.
      destruct kt; unfold mk_key_range, mk_kty_w, mk_kty_sg, mk_cast in *; [reflexivity| |];
        apply Z.mod_small; cbn in Hr; lia.
    - intros Hr. destruct kt; unfold mk_key_range, mk_kty_w, mk_kty_sg, mk_cast, mk_int_range in *;
        cbn in Hr.
      + split; [lia|reflexivity].
      + split; [lia|]. f_equal. apply Z.mod_small. lia.
      + split; [reflexivity|]. f_equal. apply Z.mod_small. lia.
  Qed.

  Lemma mk_image_with_ext (f g : Z -> option Z) km :
    Forall (fun d => f (fst d) = g (fst d)) km -> mk_image_with f km = mk_image_with g km.
  Proof.
    unfold mk_image_with. induction 1 as [|d r Hd _ IH]; cbn [flat_map]; [reflexivity|].
    rewrite Hd, IH. reflexivity.
  Qed.

  (* the functional statement: all new keys fit the key type -> the loop returns the naive result *)
  Theorem mapkeys_correct kt km im off :
    mk_fits (mk_kty_w kt) (mk_kty_sg kt) im off km ->
    mapkeys_model kt km im off = Ok (mapkeys_spec km im off).
  Proof.
    intros Hf. rewrite mapkeys_defined.
    assert (H1 : forallb (fun d => mk_noub kt im off (fst d)) km = true).
    { apply forallb_forall. intros d Hd. unfold mk_fits in Hf. rewrite Forall_forall in Hf.
      apply (mk_ctarget_fits kt im off (fst d)), Hf, Hd. }
    rewrite H1. f_equal. unfold mapkeys_spec, mapkeys_spec_with.
    rewrite (mk_image_with_ext (mk_ctarget kt im off) (mk_target im off) km); [reflexivity|].
    unfold mk_fits in Hf. eapply Forall_impl; [|exact Hf]. cbn beta. intros d Hd.
    apply (mk_ctarget_fits kt im off (fst d)), Hd.
  Qed.

  Lemma mk_fitsb_spec w sg im off km : mk_fitsb w sg im off km = true -> mk_fits w sg im off km.
  Proof.
    unfold mk_fitsb, mk_fits. intros H. apply Forall_forall. intros d Hd.
    rewrite forallb_forall in H. specialize (H d Hd).
    destruct (mk_target im off (fst d)); [|exact I].
    unfold mk_key_rangeb in H. unfold mk_key_range. destruct sg; lia.
  Qed.

  (* the naive result, for ALL inputs: strictly ascending unique keys; look-up = last entry sent
     there; every entry comes from an old entry with its value; never more entries than survivors *)
  Theorem mapkeys_spec_sorted km im off : StronglySorted Z.lt (map fst (mapkeys_spec km im off)).
  Proof. apply mapkeys_spec_with_sorted. Qed.

  Theorem mapkeys_spec_find km im off t :
    mk_find t (mapkeys_spec km im off) = mk_last t (mk_image im off km).
  Proof. apply mapkeys_spec_with_find. Qed.

  Theorem mapkeys_spec_sound km im off t v :
    In (t, v) (mapkeys_spec km im off) -> exists k, In (k, v) km /\ mk_target im off k = Some t.
  Proof. apply mapkeys_spec_with_sound. Qed.

  Theorem mapkeys_spec_complete km im off k v t :
    mk_injective im off km -> In (k, v) km -> mk_target im off k = Some t ->
    mk_find t (mapkeys_spec km im off) = Some v.
  Proof. apply mapkeys_spec_with_complete. Qed.

  Theorem mapkeys_spec_perm km im off :
    mk_injective im off km -> Permutation (mapkeys_spec km im off) (mk_image im off km).
  Proof. apply mapkeys_spec_with_perm. Qed.

  Theorem mapkeys_spec_length km im off :
    (length (mapkeys_spec km im off) <= length (mk_image im off km) <= length km)%nat /\
    (length (mapkeys_spec km im off) = length (mk_image im off km) <-> mk_injective im off km).
  Proof.
    destruct (mapkeys_spec_with_length (mk_target im off) km) as [H1 H2].
    pose proof (mk_image_with_length (mk_target im off) km).
    unfold mapkeys_spec, mk_image, mk_injective. split; [lia|exact H2].
  Qed.
End Proofs.
