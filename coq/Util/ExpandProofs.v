(* GenerateIndexExpandMap: the fill loop with its inner skip loop equals the naive definition,
   and the naive definition is the inverse of the collapse map on the surviving positions. *)
From NiflyVerif Require Import Res UtilModel UtilSpec CompactProofs EraseProofs FillProofs InsertSpec RankProofs.
From Coq Require Import ZifyBool ZifyNat ZifyN Sorted.
Local Open Scope N_scope.

(* [nth_free] started with enough fuel finds THE unlisted position with j unlisted positions
   between pos and it *)
Lemma nth_free_from : forall fuel idx pos j p,
  pos <= p -> memN p idx = false ->
  rank_from pos (N.to_nat (p - pos)) idx = N.of_nat j -> (N.to_nat (p - pos) < fuel)%nat ->
  nth_free fuel idx pos j = p.
Proof.
  induction fuel as [|f IH]; intros idx pos j p Hle Hm Hr Hf; [lia|].
  cbn [nth_free].
  destruct (N.eq_dec pos p) as [->|Hne].
  - rewrite Hm. rewrite N.sub_diag in Hr. cbn in Hr. destruct j; [reflexivity|lia].
  - replace (N.to_nat (p - pos)) with (Datatypes.S (N.to_nat (p - (pos + 1)))) in Hr by lia.
    cbn [rank_from] in Hr.
    destruct (memN pos idx).
    + apply IH; lia.
    + destruct j as [|j']; [lia|]. apply IH; lia.
Qed.

Lemma nth_free_char fuel idx j p :
  free_rank idx p (N.of_nat j) -> (N.to_nat p < fuel)%nat -> nth_free fuel idx 0 j = p.
Proof.
  intros [Hm Hr] Hf. apply nth_free_from; try lia; try exact Hm.
  - rewrite N.sub_0_r. exact Hr.
Qed.

(* the naive definition, characterised without fuel: entry j is the j-th unlisted position *)
Theorem expand_spec_char (idx : list N) (n : N) (j : nat) :
  NoDup idx -> (j < N.to_nat n)%nat ->
  exists p, nth_error (expand_spec idx n) j = Some (Z.of_N p) /\ free_rank idx p (N.of_nat j)
            /\ p <= N.of_nat j + vlen idx.
Proof.
  intros Hnd Hj.
  set (q := N.of_nat j + vlen idx + 1).
  assert (Hq : N.of_nat j < rank idx q).
  { pose proof (rank_cnt idx q Hnd). pose proof (cnt_lt_le idx q). lia. }
  destruct (free_rank_exists idx (N.of_nat j) q Hq) as (p & Hp & Hfr).
  exists p. split; [|split; [exact Hfr|lia]].
  unfold expand_spec.
  erewrite map_nth_error; [|rewrite (nth_error_nth' _ 0%nat) by (rewrite seq_length; exact Hj);
                            rewrite seq_nth by exact Hj; reflexivity].
  cbn [plus]. rewrite (nth_free_char _ idx j p Hfr); [reflexivity|unfold vlen in *; lia].
Qed.

(* expand is the inverse of collapse on survivors: collapse[expand[j]] = j *)
Theorem collapse_expand (idx : list N) (n m : N) (j : nat) (p : N) :
  NoDup idx -> nth_error (expand_spec idx n) j = Some (Z.of_N p) -> p < m ->
  nth_error (collapse_spec idx m) (N.to_nat p) = Some (Z.of_nat j).
Proof.
  intros Hnd Hj Hm.
  assert (Hjn : (j < N.to_nat n)%nat).
  { assert (Hne : nth_error (expand_spec idx n) j <> None) by congruence.
    apply nth_error_Some in Hne. unfold expand_spec in Hne. rewrite map_length, seq_length in Hne. exact Hne. }
  destruct (expand_spec_char idx n j Hnd Hjn) as (p' & Hp' & [Hfree Hrank] & _).
  rewrite Hp' in Hj. assert (p' = p) by (injection Hj; lia). subst p'.
  unfold collapse_spec.
  erewrite map_nth_error; [|rewrite (nth_error_nth' _ 0%nat) by (rewrite seq_length; lia);
                            rewrite seq_nth by lia; reflexivity].
  cbn [plus]. rewrite N2Nat.id, Hfree, Hrank. f_equal. lia.
Qed.

(* ... and the entries are strictly ascending unlisted positions *)
Theorem expand_spec_ascending (idx : list N) (n : N) (i j : nat) (p q : N) :
  NoDup idx -> (i < j)%nat ->
  nth_error (expand_spec idx n) i = Some (Z.of_N p) -> nth_error (expand_spec idx n) j = Some (Z.of_N q) ->
  p < q.
Proof.
  intros Hnd Hij Hi Hj.
  assert (Hjn : (j < N.to_nat n)%nat).
  { assert (Hne : nth_error (expand_spec idx n) j <> None) by congruence.
    apply nth_error_Some in Hne. unfold expand_spec in Hne. rewrite map_length, seq_length in Hne. exact Hne. }
  destruct (expand_spec_char idx n i Hnd ltac:(lia)) as (p' & Hp' & [Hfp Hrp] & _).
  destruct (expand_spec_char idx n j Hnd Hjn) as (q' & Hq' & [Hfq Hrq] & _).
  rewrite Hp' in Hi. rewrite Hq' in Hj.
  assert (p' = p) by (injection Hi; lia). assert (q' = q) by (injection Hj; lia). subst p' q'.
  destruct (N.ltb_spec p q) as [H|H]; [exact H|exfalso].
  pose proof (rank_mono idx q p H). lia.
Qed.

Section ExpandCorrect.
  Variable w2 : N.
  Variable sg2 : bool.

  (* the inner while loop: skips the run of listed indices starting at di *)
  Lemma expand_skip_ok : forall suf pre di fuel,
    Forall (fun j => j < di) pre -> sorted_lt suf -> Forall (fun j => di <= j) suf ->
    di + vlen suf < 2 ^ w2 -> (length suf < fuel)%nat ->
    exists pre' suf' di',
      pre ++ suf = pre' ++ suf' /\
      expand_skip w2 sg2 fuel (pre ++ suf) (vlen pre) di = Ok (vlen pre', di') /\
      Forall (fun j => j < di') pre' /\ sorted_lt suf' /\ Forall (fun j => di' < j) suf' /\
      di' + vlen pre = di + vlen pre' /\ di' + vlen suf' <= di + vlen suf.
  Proof.
    induction suf as [|j suf IH]; intros pre di fuel Hpre Hs Hsuf Hw Hf;
      (destruct fuel as [|f]; [cbn [length] in Hf; lia|]); cbn [expand_skip].
    - rewrite app_nil_r.
      destruct (N.ltb_spec (vlen pre) (vlen pre)) as [Hc|_]; [lia|].
      exists pre, [], di. rewrite app_nil_r. repeat split; auto; try constructor; lia.
    - destruct (N.ltb_spec (vlen pre) (vlen (pre ++ j :: suf))) as [_|Hc];
        [|unfold vlen in Hc; rewrite app_length in Hc; cbn [length] in Hc; lia].
      assert (Hg : vget (pre ++ j :: suf) (vlen pre) = Some j).
      { unfold vget, vlen. rewrite Nat2N.id. rewrite nth_error_app2 by lia.
        rewrite Nat.sub_diag. reflexivity. }
      rewrite Hg.
      inversion Hs as [|? ? Hs1 Hs2]; subst. inversion Hsuf as [|? ? Hk Hsuf']; subst.
      assert (Hvl : vlen (j :: suf) = vlen suf + 1) by (unfold vlen; cbn [length]; lia).
      destruct (N.eqb_spec di j) as [->|Hne].
      + rewrite incr_ok' by lia. cbn [bind].
        destruct (IH (pre ++ [j]) (j + 1) f) as (pre' & suf' & di' & He & Hrun & H1 & H2 & H3 & H4 & H5).
        * apply Forall_app. split.
          -- eapply Forall_impl; [|exact Hpre]. cbn; intros; lia.
          -- constructor; [lia|constructor].
        * exact Hs1.
        * eapply Forall_impl; [|exact Hs2]. cbn; intros; lia.
        * lia.
        * cbn [length] in Hf. lia.
        * rewrite <- app_assoc in He, Hrun. cbn [app] in He, Hrun.
          assert (Hvp : vlen (pre ++ [j]) = vlen pre + 1)
            by (unfold vlen; rewrite app_length; cbn [length]; lia).
          rewrite Hvp in Hrun, H4.
          exists pre', suf', di'. repeat split; auto; lia.
      + exists pre, (j :: suf), di. repeat split; auto; try lia.
        constructor; [lia|]. eapply Forall_impl; [|exact Hs2]. cbn; intros; lia.
  Qed.

  Lemma fl_expand : forall k idx pre suf si di,
    idx = pre ++ suf -> NoDup idx ->
    Forall (fun j => j < di) pre -> sorted_lt suf -> Forall (fun j => di <= j) suf ->
    di = si + vlen pre ->
    si + N.of_nat k + vlen idx < 2 ^ w2 -> si + N.of_nat k + vlen idx < 2 ^ 31 ->
    fl (expand_body w2 sg2 idx) (vlen pre, di) si k =
    Ok (map (fun j => Z.of_N (nth_free (j + length idx + 1) idx 0 j)) (seq (N.to_nat si) k)).
  Proof.
    induction k as [|k IH]; intros idx pre suf si di He Hnd Hpre Hs Hsuf Hdi Hw Hi;
      cbn [fl seq map]; [reflexivity|].
    assert (Hvi : vlen idx = vlen pre + vlen suf)
      by (subst idx; unfold vlen; rewrite app_length; lia).
    unfold expand_body at 1.
    destruct (expand_skip_ok suf pre di (Datatypes.S (length idx)) Hpre Hs Hsuf)
      as (pre' & suf' & di' & He' & Hrun & H1 & H2 & H3 & H4 & H5).
    { lia. }
    { subst idx. rewrite app_length. lia. }
    rewrite <- He in Hrun, He'. rewrite Hrun. cbn [bind fst snd].
    assert (Hvi' : vlen idx = vlen pre' + vlen suf')
      by (rewrite He'; unfold vlen; rewrite app_length; lia).
    rewrite incr_ok' by lia. cbn [bind fst snd].
    rewrite to_int_small by lia.
    assert (Hfr : free_rank idx di' si).
    { split.
      - apply memN_false_iff. rewrite He'. apply Forall_app. split.
        + eapply Forall_impl; [|exact H1]. cbn; intros; lia.
        + eapply Forall_impl; [|exact H3]. cbn; intros; lia.
      - pose proof (rank_split pre' suf' di') as Hr. rewrite <- He' in Hr.
        specialize (Hr Hnd H1). 
        assert (Hle : Forall (fun i => di' <= i) suf')
          by (eapply Forall_impl; [|exact H3]; cbn; intros; lia).
        specialize (Hr Hle). lia. }
    rewrite (nth_free_char _ idx (N.to_nat si) di').
    2:{ rewrite N2Nat.id. exact Hfr. }
    2:{ unfold vlen in *. lia. }
    rewrite (IH idx pre' suf' (si + 1) (di' + 1)); try assumption.
    - replace (N.to_nat (si + 1)) with (Datatypes.S (N.to_nat si)) by lia. reflexivity.
    - eapply Forall_impl; [|exact H1]. cbn; intros; lia.
    - eapply Forall_impl; [|exact H3]. cbn; intros; lia.
    - lia.
    - lia.
    - lia.
  Qed.

  Theorem expand_correct (idx : list N) (n : N) :
    sorted_lt idx -> n + vlen idx < 2 ^ w2 -> n + vlen idx < 2 ^ 31 ->
    expand_model w2 sg2 idx n = Ok (expand_spec idx n).
  Proof.
    intros Hs Hw Hi. unfold expand_model, expand_spec.
    pose proof (fill_ok (expand_body w2 sg2 idx) (incr w2 sg2) n) as HF.
    assert (H1 : forall x, x < n -> incr w2 sg2 x = Ok (x + 1)) by (intros x Hx; apply incr_ok'; lia).
    specialize (HF H1 (Datatypes.S (N.to_nat n)) (repeat 0%Z (N.to_nat n)) (0, 0) 0).
    rewrite N.sub_0_r in HF.
    pose proof (fl_expand (N.to_nat n) idx [] idx 0 0 eq_refl (sorted_lt_NoDup idx Hs)) as HL.
    change (vlen []) with 0 in HL.
    rewrite HL in HF.
    - cbn [N.to_nat firstn app] in HF. apply HF.
      + unfold vlen. rewrite repeat_length. lia.
      + lia.
      + lia.
    - constructor.
    - exact Hs.
    - clear. induction idx; constructor; auto; lia.
    - lia.
    - lia.
    - lia.
  Qed.
End ExpandCorrect.
