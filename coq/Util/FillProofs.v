(* GenerateIndexCollapseMap: the fill loop equals the naive rank-based definition. *)
From NiflyVerif Require Import Res UtilModel UtilSpec CompactProofs EraseProofs.
From Coq Require Import ZifyBool ZifyNat ZifyN Sorted.
Local Open Scope N_scope.

Section FillCorrect.
  Context {S : Type}.
  Variable body : S -> N -> res (S * Z).
  Variable inc_si : N -> res N.

  Fixpoint fl (s : S) (si : N) (k : nat) : res (list Z) :=
    match k with
    | O => Ok []
    | Datatypes.S k' =>
      bind (body s si) (fun sz => bind (fl (fst sz) (si + 1) k') (fun r => Ok (snd sz :: r)))
    end.

  Variable n : N.
  Hypothesis inc_ok : forall x, x < n -> inc_si x = Ok (x + 1).

  Lemma fill_ok : forall fuel m s si,
    vlen m = n -> si <= n -> (N.to_nat (n - si) < fuel)%nat ->
    match fl s si (N.to_nat (n - si)) with
    | Ok out => fill_loop body inc_si fuel n m s si = Ok (firstn (N.to_nat si) m ++ out)
    | Fault => fill_loop body inc_si fuel n m s si = Fault
    | OutOfFuel => fill_loop body inc_si fuel n m s si = OutOfFuel
    end.
  Proof.
    induction fuel as [|f IH]; intros m s si Hm Hsi Hf; [lia|].
    cbn [fill_loop].
    destruct (N.ltb_spec si n) as [Hlt|Hge].
    - replace (N.to_nat (n - si)) with (Datatypes.S (N.to_nat (n - (si + 1)))) by lia.
      cbn [fl].
      destruct (body s si) as [[s1 z]| |]; cbn [bind fst snd]; try reflexivity.
      destruct (vset_spec m si z) as (m1 & Hset & Hlen & Hfst & Hsk); [lia|].
      rewrite Hset. rewrite inc_ok by lia. cbn [bind].
      specialize (IH m1 s1 (si + 1)).
      destruct (fl s1 (si + 1) (N.to_nat (n - (si + 1)))) as [out| |]; cbn [bind].
      + rewrite IH by (unfold vlen in *; lia).
        replace (N.to_nat (si + 1)) with (Datatypes.S (N.to_nat si)) by lia.
        rewrite Hfst. rewrite <- app_assoc. reflexivity.
      + apply IH; unfold vlen in *; lia.
      + apply IH; unfold vlen in *; lia.
    - assert (si = n) by lia. subst si. rewrite N.sub_diag. cbn [N.to_nat fl].
      rewrite app_nil_r. rewrite <- Hm. unfold vlen. rewrite Nat2N.id, firstn_all. reflexivity.
  Qed.
End FillCorrect.

Lemma rank_from_snoc : forall k pos idx,
  rank_from pos (Datatypes.S k) idx =
  rank_from pos k idx + (if memN (pos + N.of_nat k) idx then 0 else 1).
Proof.
  induction k as [|k IH]; intros pos idx.
  - cbn. rewrite !N.add_0_r. destruct (memN pos idx); lia.
  - change (rank_from pos (Datatypes.S (Datatypes.S k)) idx)
      with ((if memN pos idx then 0 else 1) + rank_from (pos + 1) (Datatypes.S k) idx).
    rewrite IH. cbn [rank_from].
    replace (pos + 1 + N.of_nat k) with (pos + N.of_nat (Datatypes.S k)) by lia.
    destruct (memN pos idx); destruct (memN (pos + N.of_nat (Datatypes.S k)) idx); lia.
Qed.

Lemma rank_succ idx i : rank idx (i + 1) = rank idx i + (if memN i idx then 0 else 1).
Proof.
  unfold rank. replace (N.to_nat (i + 1)) with (Datatypes.S (N.to_nat i)) by lia.
  rewrite rank_from_snoc. rewrite N.add_0_l, N2Nat.id. reflexivity.
Qed.

Lemma rank_le idx i : rank idx i <= i.
Proof.
  induction i as [|i IH] using N.peano_ind.
  - cbn. lia.
  - replace (N.succ i) with (i + 1) by lia. rewrite rank_succ. destruct (memN i idx); lia.
Qed.

Section CollapseCorrect.
  Variable w2 : N.
  Variable sg2 : bool.

  Lemma to_int_small x : x < 2 ^ 31 -> to_int x = Z.of_N x.
  Proof.
    intros H. unfold to_int.
    assert (H31 : (2 ^ 31 = 2147483648)%N) by reflexivity. rewrite H31 in H.
    rewrite Z.mod_small by lia.
    destruct (Z.ltb_spec (Z.of_N x) 2147483648); [reflexivity|lia].
  Qed.

  Lemma fl_collapse : forall k pre suf si,
    Forall (fun j => j < si) pre -> sorted_lt suf -> Forall (fun j => si <= j) suf ->
    si + N.of_nat k < 2 ^ w2 -> si + N.of_nat k < 2 ^ 31 ->
    fl (collapse_body w2 sg2 (pre ++ suf)) (vlen pre, rank (pre ++ suf) si) si k =
    Ok (map (fun i => let i := N.of_nat i in
                      if memN i (pre ++ suf) then (-1)%Z else Z.of_N (rank (pre ++ suf) i))
            (seq (N.to_nat si) k)).
  Proof.
    induction k as [|k IH]; intros pre suf si Hpre Hs Hsuf Hw Hi; cbn [fl seq map]; [reflexivity|].
    rewrite N2Nat.id.
    unfold collapse_body at 1.
    pose proof (rank_le (pre ++ suf) si) as Hr.
    assert (Hinc : incr w2 sg2 (rank (pre ++ suf) si) = Ok (rank (pre ++ suf) si + 1))
      by (apply incr_ok'; lia).
    assert (Hti : to_int (rank (pre ++ suf) si) = Z.of_N (rank (pre ++ suf) si))
      by (apply to_int_small; lia).
    replace (Datatypes.S (N.to_nat si)) with (N.to_nat (si + 1)) by lia.
    destruct suf as [|j suf].
    - rewrite app_nil_r in *.
      destruct (N.ltb_spec (vlen pre) (vlen pre)) as [Hc|_]; [lia|].
      assert (Hm : memN si pre = false).
      { apply memN_false_iff. eapply Forall_impl; [|exact Hpre]. cbn; intros; lia. }
      rewrite Hm, Hinc, Hti. cbn [bind fst snd].
      specialize (IH pre [] (si + 1)). rewrite app_nil_r in IH.
      rewrite rank_succ, Hm in IH. rewrite IH; [reflexivity| | | |lia|lia].
      + eapply Forall_impl; [|exact Hpre]. cbn; intros; lia.
      + constructor.
      + constructor.
    - destruct (N.ltb_spec (vlen pre) (vlen (pre ++ j :: suf))) as [_|Hc];
        [|unfold vlen in Hc; rewrite app_length in Hc; cbn [length] in Hc; lia].
      assert (Hg : vget (pre ++ j :: suf) (vlen pre) = Some j).
      { unfold vget, vlen. rewrite Nat2N.id. rewrite nth_error_app2 by lia.
        rewrite Nat.sub_diag. reflexivity. }
      rewrite Hg.
      inversion Hs as [|? ? Hs1 Hs2]; subst. inversion Hsuf as [|? ? Hk Hsuf']; subst.
      destruct (N.eqb_spec si j) as [->|Hne]; cbn [bind fst snd].
      + assert (Hm : memN j (pre ++ j :: suf) = true).
        { apply memN_true_iff. apply in_or_app. right. left. reflexivity. }
        rewrite Hm.
        specialize (IH (pre ++ [j]) suf (j + 1)).
        rewrite <- app_assoc in IH. cbn [app] in IH.
        rewrite rank_succ, Hm, N.add_0_r in IH.
        replace (vlen (pre ++ [j])) with (vlen pre + 1) in IH
          by (unfold vlen; rewrite app_length; cbn [length]; lia).
        rewrite IH; [reflexivity| | | |lia|lia].
        * apply Forall_app. split.
          -- eapply Forall_impl; [|exact Hpre]. cbn; intros; lia.
          -- constructor; [lia|constructor].
        * exact Hs1.
        * eapply Forall_impl; [|exact Hs2]. cbn; intros; lia.
      + assert (Hm : memN si (pre ++ j :: suf) = false).
        { apply memN_false_iff. apply Forall_app. split.
          - eapply Forall_impl; [|exact Hpre]. cbn; intros; lia.
          - constructor; [congruence|]. eapply Forall_impl; [|exact Hs2]. cbn; intros; lia. }
        rewrite Hm, Hinc, Hti. cbn [bind fst snd].
        specialize (IH pre (j :: suf) (si + 1)).
        rewrite rank_succ, Hm in IH.
        rewrite IH; [reflexivity| | | |lia|lia].
        * eapply Forall_impl; [|exact Hpre]. cbn; intros; lia.
        * exact Hs.
        * constructor; [lia|]. eapply Forall_impl; [|exact Hs2]. cbn; intros; lia.
  Qed.

  Theorem collapse_correct (idx : list N) (n : N) :
    sorted_lt idx -> n < 2 ^ w2 -> n < 2 ^ 31 ->
    collapse_model w2 sg2 idx n = Ok (collapse_spec idx n).
  Proof.
    intros Hs Hw Hi. unfold collapse_model, collapse_spec.
    pose proof (fill_ok (collapse_body w2 sg2 idx) (incr w2 sg2) n) as HF.
    assert (H1 : forall x, x < n -> incr w2 sg2 x = Ok (x + 1)) by (intros x Hx; apply incr_ok'; lia).
    specialize (HF H1 (Datatypes.S (N.to_nat n)) (repeat 0%Z (N.to_nat n)) (0, 0) 0).
    rewrite N.sub_0_r in HF.
    pose proof (fl_collapse (N.to_nat n) [] idx 0) as HL.
    cbn [app] in HL. change (vlen []) with 0 in HL. change (rank idx 0) with 0 in HL.
    rewrite HL in HF.
    - cbn [N.to_nat firstn app] in HF. apply HF.
      + unfold vlen. rewrite repeat_length. lia.
      + lia.
      + lia.
    - constructor.
    - exact Hs.
    - clear. induction idx; constructor; auto; lia.
    - lia.
    - lia.
  Qed.
End CollapseCorrect.
