(* Family-unique entry points for the extracted clone model (all families are extracted into one
   OCaml module; ocaml/d_clone.ml reaches the model only through the names below). No logic here. *)
From NiflyVerif Require Import Res GraphModel GraphInv CopyModel CloneModel.
Local Open Scope N_scope.

(* blocks and header tables *)
Definition clone_api_mk_block (u t : N) (c p : list N) : block := mkBlock u t c p.
Definition clone_api_block_uid (b : block) : N := uid b.
Definition clone_api_block_type (b : block) : N := tname b.
Definition clone_api_block_crefs (b : block) : list N := crefs b.
Definition clone_api_block_ptrs (b : block) : list N := ptrs b.
Definition clone_api_mk_hdr (bl : list block) (nb : N) (tn : list N) (nt : N) (ti sz : list N) (hs : bool) : hdr :=
  mkHdr bl nb tn nt ti sz hs.
Definition clone_api_hdr_blocks (h : hdr) : list block := blocks h.
Definition clone_api_hdr_nblocks (h : hdr) : N := nblocks h.
Definition clone_api_hdr_tnames (h : hdr) : list N := tnames h.
Definition clone_api_hdr_ntypes (h : hdr) : N := ntypes h.
Definition clone_api_hdr_tidx (h : hdr) : list N := tidx h.
Definition clone_api_hdr_sizes (h : hdr) : list N := sizes h.
Definition clone_api_hdr_has_sizes (h : hdr) : bool := has_sizes h.

(* per-object fields *)
Definition clone_api_mk_aux (s : list N) (t : N) (ds : option N) (ca : option (N * N)) (np : option N)
  (nd : option (N * N * list (option N) * N)) (sk : option N) (bn : option (N * N)) : aux :=
  mkAux s t ds ca np nd sk bn.
Definition clone_api_aux0 : aux := aux0.
Definition clone_api_aux_strs (a : aux) : list N := astrs a.
Definition clone_api_aux_tok (a : aux) : N := atok a.
Definition clone_api_aux_dslot (a : aux) : option N := adslot a.
Definition clone_api_aux_cached (a : aux) : option (N * N) := acached a.
Definition clone_api_aux_namepos (a : aux) : option N := anamepos a.
Definition clone_api_aux_node (a : aux) : option (N * N * list (option N) * N) := anode a.
Definition clone_api_aux_skin (a : aux) : option N := askin a.
Definition clone_api_aux_bones (a : aux) : option (N * N) := abones a.

(* models *)
Definition clone_api_mk_file (id : N) (h : hdr) (own : N) (strs : list N) (hp : N -> aux) : file :=
  mkFile id h own strs hp.
Definition clone_api_file_id (f : file) : N := fid f.
Definition clone_api_file_hdr (f : file) : hdr := fh f.
Definition clone_api_file_strs (f : file) : list N := fstrs f.
Definition clone_api_file_aux (f : file) (u : N) : aux := heap f u.

(* whole-model copy (C11) and edits of one model *)
Definition clone_api_copy_from (compat : N -> N -> bool) (me base : N) (f : file) : res file := copy_from compat me base f.
Definition clone_api_link_inv_b (compat : N -> N -> bool) (f : file) : bool := link_inv_b compat f.
Definition clone_api_add (f : file) (b : block) (a : aux) : file := f_add f b a.
Definition clone_api_delete (f : file) (id : N) : res file := f_delete f id.
Definition clone_api_order (f : file) (order : list N) : res file := f_order f order.
Definition clone_api_prune (f : file) (root : N) : res file :=
  bind (step (fh f) (OpPrune root)) (fun h => Ok (with_hdr f h)).
Definition clone_api_delete_by_type (f : file) (name : N) (orphaned_only : bool) : res file :=
  bind (step (fh f) (OpDeleteByType name orphaned_only)) (fun h => Ok (with_hdr f h)).

(* shape cloning (C14): destination, next fresh identity -> (destination, id of the clone) *)
Definition clone_api_shape (compat : N -> N -> bool) (src : option file) (empty : N) (enum : N -> nat -> list N)
  (fuel : nat) (dst : file) (next : N) (si name : N) : res (file * N) :=
  bind (clone_shape compat src empty enum fuel (mkCst dst next) si name) (fun r => Ok (cfile (fst r), snd r)).
Definition clone_api_enum_canon : N -> nat -> list N := enum_canon.
