(* Proofs about CloneModel.v: CloneChildren clones the closure of a block into the destination,
   leaves every other block alone, registers the strings, and terminates on sources whose child
   relation below the block has finite depth. *)
From NiflyVerif Require Import Res GraphModel GraphInv GraphDelete GraphAdd GraphOrder CopyModel CopyProofs CloneModel.
From Coq Require Import ZifyBool ZifyNat ZifyN.
Local Open Scope N_scope.

(* ---- the elementary state changes ---- *)
Lemma add_block_blocks h b :
  blocks (fst (add_block h b)) = blocks h ++ [b] /\
  nblocks (fst (add_block h b)) = nblocks h + 1 /\ snd (add_block h b) = nblocks h.
Proof.
  unfold add_block, add_or_find_type. destruct (find_type_from 0 (tnames h) (tname b)); cbn; auto.
Qed.

Lemma vget_app1 {A} (l l' : list A) i : i < vlen l -> vget (l ++ l') i = vget l i.
Proof. unfold vget, vlen. intros H. apply nth_error_app1. lia. Qed.

Lemma vget_app_last {A} (l : list A) x : vget (l ++ [x]) (vlen l) = Some x.
Proof. unfold vget, vlen. rewrite Nat2N.id, nth_error_app2, Nat.sub_diag by lia. reflexivity. Qed.

Lemma vget_some_lt {A} (v : list A) i x : vget v i = Some x -> i < vlen v.
Proof. apply vget_some_lt'. Qed.

Ltac splits := repeat match goal with |- _ /\ _ => split end.

Definition bl (st : cst) : list block := blocks (fh (cfile st)).

Record WF (st : cst) : Prop := mkWF {
  wf_nb : nblocks (fh (cfile st)) = vlen (bl st);
  wf_uid : forall b, In b (bl st) -> uid b < cnext st
}.

Lemma add_object_spec st tn cr pt a :
  WF st ->
  let st1 := fst (add_object st tn cr pt a) in
  WF st1 /\ bl st1 = bl st ++ [mkBlock (cnext st) tn cr pt] /\
  snd (add_object st tn cr pt a) = vlen (bl st) /\
  cnext st1 = cnext st + 1 /\ fstrs (cfile st1) = fstrs (cfile st) /\
  (forall u, heap (cfile st1) u = if u =? cnext st then a else heap (cfile st) u) /\
  fid (cfile st1) = fid (cfile st) /\ hown (cfile st1) = hown (cfile st).
Proof.
  intros [Hnb Hu]. unfold add_object, bl in *. cbn [fst snd cfile cnext fh heap fstrs fid hown].
  destruct (add_block_blocks (fh (cfile st)) (mkBlock (cnext st) tn cr pt)) as (E1 & E2 & E3).
  split; [|repeat split; auto].
  - constructor; unfold bl; cbn [cfile fh cnext].
    + rewrite E1, E2, Hnb, vlen_app. unfold vlen at 3. cbn. lia.
    + intros b Hb. rewrite E1 in Hb. apply in_app_or in Hb. destruct Hb as [Hb|[<-|[]]].
      * specialize (Hu b Hb). lia.
      * cbn. lia.
  - rewrite E3. exact Hnb.
Qed.

Lemma upd_block_spec f i g f' :
  upd_block f i g = Ok f' ->
  exists b, vget (blocks (fh f)) i = Some b /\
    (forall k, vget (blocks (fh f')) k = if k =? i then Some (g b) else vget (blocks (fh f)) k) /\
    length (blocks (fh f')) = length (blocks (fh f)) /\
    nblocks (fh f') = nblocks (fh f) /\ heap f' = heap f /\ fstrs f' = fstrs f /\ fid f' = fid f /\ hown f' = hown f.
Proof.
  unfold upd_block. destruct (vget (blocks (fh f)) i) as [b|] eqn:Eb; [|discriminate].
  destruct (vset (blocks (fh f)) i (g b)) as [l|] eqn:Es; [|discriminate].
  intros H. inversion H; subst; clear H. exists b. split; [reflexivity|]. cbn.
  repeat split; auto.
  - intros k. apply (vget_vset _ _ _ _ k Es).
  - apply (vset_len _ _ _ _ Es).
Qed.

Lemma upd_block_ok f i g b :
  vget (blocks (fh f)) i = Some b -> exists f', upd_block f i g = Ok f'.
Proof.
  intros Hb. unfold upd_block. rewrite Hb.
  destruct (vset_ok (blocks (fh f)) i (g b) (vget_some_lt _ _ _ Hb)) as (l & ->). eauto.
Qed.

Lemma in_vget_iff {A} (l : list A) x : In x l <-> exists i, vget l i = Some x.
Proof. split; [apply in_vget_ex|intros (i & H); eapply in_vget; eauto]. Qed.

(* ---- string registration only ever adds ---- *)
Lemma add_or_find_string_incl empty strs s x : In x strs -> In x (add_or_find_string empty strs s).
Proof.
  unfold add_or_find_string. destruct (find_type_from 0 strs s); auto.
  destruct (s =? empty); auto. intros H. apply in_or_app. auto.
Qed.

Lemma add_or_find_string_has empty strs s : s <> empty -> In s (add_or_find_string empty strs s).
Proof.
  intros Hne. unfold add_or_find_string. destruct (find_type_from 0 strs s) as [i|] eqn:E.
  - destruct (find_type_from_some _ _ _ _ E) as (_ & H). apply nth_error_In in H. exact H.
  - destruct (N.eqb_spec s empty); [congruence|]. apply in_or_app. right. left. reflexivity.
Qed.

Lemma register_strings_incl empty : forall l strs x, In x strs -> In x (register_strings empty strs l).
Proof.
  unfold register_strings. induction l as [|s l IH]; intros strs x H; cbn [fold_left]; auto.
  apply IH. apply add_or_find_string_incl. exact H.
Qed.

Lemma register_strings_has empty : forall l strs s, In s l -> s <> empty -> In s (register_strings empty strs l).
Proof.
  unfold register_strings. induction l as [|a l IH]; intros strs s H Hne; [contradiction|]. cbn [fold_left].
  destruct H as [->|H].
  - apply (register_strings_incl empty). apply add_or_find_string_has. exact Hne.
  - apply IH; auto.
Qed.

(* ---------------------------------------------------------------------------------------- *)
Section Main.
Variable src : option file.
Variable empty : N.
Variable enum : N -> nat -> list N.
(* std::set<NiRef*>: every reference of the block exactly once *)
Hypothesis enum_ok : forall u n, NoDup (enum u n) /\ forall j, In j (enum u n) <-> j < N.of_nat n.

(* the source as it is when CloneChildren starts: blocks 0 .. sbound-1 of S0, whose child references
   are empty or designate source blocks. srcNif != this: the whole other model. srcNif == this: the
   destination's blocks in front of the block whose children are cloned. *)
Variable S0 : file.
Variable sbound : N.
Hypothesis S0_len : sbound <= vlen (blocks (fh S0)).
Hypothesis S0_closed : forall r b, r < sbound -> vget (blocks (fh S0)) r = Some b -> Forall (ref_ok sbound) (crefs b).

Definition sget0 (r : N) : option block :=
  if (negb (r =? NPOS) && (r <? sbound))%bool then vget (blocks (fh S0)) r else None.

Definition Agree (st : cst) : Prop :=
  match src with
  | Some s => s = S0 /\ nblocks (fh S0) = sbound /\ vlen (blocks (fh S0)) = sbound
  | None => sbound <= vlen (bl st) /\
            (forall r, r < sbound -> vget (bl st) r = vget (blocks (fh S0)) r) /\
            (forall r b, r < sbound -> vget (blocks (fh S0)) r = Some b -> heap (cfile st) (uid b) = heap S0 (uid b))
  end.

Lemma sget0_some r sb : sget0 r = Some sb -> r <> NPOS /\ r < sbound /\ vget (blocks (fh S0)) r = Some sb.
Proof.
  unfold sget0. destruct (N.eqb_spec r NPOS); cbn; [discriminate|].
  destruct (N.ltb_spec r sbound); [|discriminate]. auto.
Qed.

Lemma sget0_closed r sb : sget0 r = Some sb -> Forall (ref_ok sbound) (crefs sb).
Proof. intros H. destruct (sget0_some _ _ H) as (_ & Hlt & Hg). eapply S0_closed; eauto. Qed.

Lemma src_get_agree st r :
  WF st -> Agree st -> ref_ok sbound r ->
  src_get (src_of src st) r = Ok (sget0 r) /\
  (forall sb, sget0 r = Some sb -> heap (src_of src st) (uid sb) = heap S0 (uid sb)).
Proof.
  intros [Hnb _] HA Hok. unfold Agree, src_of in *. destruct src as [s|].
  - destruct HA as (-> & Hn & Hl). split; [|auto]. unfold src_get, sget0. rewrite Hn.
    destruct (negb (r =? NPOS) && (r <? sbound))%bool eqn:E; [|reflexivity].
    apply andb_true_iff in E. destruct E as [_ E]. apply N.ltb_lt in E.
    destruct (vget_lt (blocks (fh S0)) r ltac:(lia)) as (b & ->). reflexivity.
  - destruct HA as (Hle & Hv & Hh). unfold src_get, sget0. rewrite Hnb.
    destruct Hok as [->|Hlt].
    + rewrite N.eqb_refl. cbn. split; [reflexivity|discriminate].
    + destruct (N.eqb_spec r NPOS); cbn; [split; [reflexivity|discriminate]|].
      destruct (N.ltb_spec r (vlen (bl st))); [|lia]. destruct (N.ltb_spec r sbound); [|lia].
      unfold bl in Hv. rewrite (Hv r Hlt).
      destruct (vget_lt (blocks (fh S0)) r ltac:(lia)) as (b & Hb). rewrite Hb. split; [reflexivity|].
      intros sb Hs. inversion Hs; subst. eauto.
Qed.

(* ---- the mirror relation: block di of the destination is a clone of source block si, cloned
   while (pold, pnew) was the pointer-rebinding pair, and so are, hereditarily, the targets of its
   child references; every block of the clone tree lies in [lo, hi) ---- *)
Fixpoint mir (dst : file) (lo hi : N) (d : nat) (pold pnew si di : N) {struct d} : Prop :=
  match d with
  | O => False
  | S d' =>
    exists sb db, sget0 si = Some sb /\ vget (blocks (fh dst)) di = Some db /\ lo <= di < hi /\
      tname db = tname sb /\ heap dst (uid db) = heap S0 (uid sb) /\
      ptrs db = (if pold =? NPOS then ptrs sb else map (rebind pold pnew) (ptrs sb)) /\
      (forall x, In x (astrs (heap S0 (uid sb))) -> x <> empty -> In x (fstrs dst)) /\
      Forall2 (fun r r' => match sget0 r with
                           | None => r' = r
                           | Some _ => mir dst lo hi d' (if pold =? NPOS then si else pold)
                                           (if pold =? NPOS then di else pnew) r r'
                           end) (crefs sb) (crefs db)
  end.

Definition crel (dst : file) (lo hi : N) (d : nat) (pold pnew r r' : N) : Prop :=
  match sget0 r with None => r' = r | Some _ => mir dst lo hi d pold pnew r r' end.

Lemma Forall2_impl' {A B} (P Q : A -> B -> Prop) l l' :
  (forall a b, In a l -> P a b -> Q a b) -> Forall2 P l l' -> Forall2 Q l l'.
Proof.
  intros H F. induction F; constructor.
  - apply H; [left; reflexivity|assumption].
  - apply IHF. intros a b Ha. apply H. right. exact Ha.
Qed.

Lemma mir_frame dst1 dst2 lo hi lo' hi' : lo' <= lo -> hi <= hi' ->
  (forall k, lo <= k < hi -> vget (blocks (fh dst2)) k = vget (blocks (fh dst1)) k) ->
  (forall k b, lo <= k < hi -> vget (blocks (fh dst1)) k = Some b -> heap dst2 (uid b) = heap dst1 (uid b)) ->
  (forall x, In x (fstrs dst1) -> In x (fstrs dst2)) ->
  forall d pold pnew si di, mir dst1 lo hi d pold pnew si di -> mir dst2 lo' hi' d pold pnew si di.
Proof.
  intros Hlo Hhi Hb Hh Hs. induction d as [|d IH]; intros pold pnew si di H; [exact H|].
  cbn [mir] in *. destruct H as (sb & db & H1 & H2 & H3 & H4 & H5 & H6 & H8 & H7).
  exists sb, db. repeat split; auto; try lia.
  - rewrite Hb; auto.
  - rewrite (Hh di db); auto.
  - eapply Forall2_impl'; [|exact H7]. intros r r' _ Hr. cbn beta in *.
    destruct (sget0 r); auto.
Qed.

(* Agree and WF under the elementary steps *)
Lemma agree_add st tn cr pt a :
  WF st -> Agree st -> Agree (fst (add_object st tn cr pt a)).
Proof.
  intros HW HA. destruct (add_object_spec st tn cr pt a HW) as (_ & Eb & _ & _ & _ & Eh & _).
  unfold Agree in *. destruct src; [exact HA|]. destruct HA as (Hle & Hv & Hh).
  rewrite Eb. split; [rewrite vlen_app; lia|split].
  - intros r Hr. rewrite vget_app1 by lia. auto.
  - intros r b Hr Hg. rewrite Eh. destruct (N.eqb_spec (uid b) (cnext st)) as [He|_]; [|eauto].
    exfalso. rewrite <- (Hv r Hr) in Hg. apply in_vget in Hg. apply (wf_uid _ HW) in Hg. lia.
Qed.

Lemma wf_upd st f' i g :
  WF st -> upd_block (cfile st) i g = Ok f' -> (forall b, uid (g b) = uid b) ->
  WF (mkCst f' (cnext st)).
Proof.
  intros [Hnb Hu] E Hg. destruct (upd_block_spec _ _ _ _ E) as (b & Hb & Hk & Hl & Hn & _).
  constructor; unfold bl in *; cbn [cfile cnext].
  - rewrite Hn, Hnb. unfold vlen. rewrite Hl. reflexivity.
  - intros c Hc. destruct (in_vget_ex _ _ Hc) as (k & Hkc). rewrite Hk in Hkc.
    destruct (N.eqb_spec k i).
    + inversion Hkc; subst. rewrite Hg. apply Hu. eapply in_vget; eauto.
    + apply Hu. eapply in_vget; eauto.
Qed.

Lemma agree_upd st f' i g :
  Agree st -> upd_block (cfile st) i g = Ok f' -> (src = None -> sbound <= i) ->
  Agree (mkCst f' (cnext st)).
Proof.
  intros HA E Hi. destruct (upd_block_spec _ _ _ _ E) as (b & Hb & Hk & Hl & Hn & Hh & _).
  unfold Agree in *. destruct src; [exact HA|]. specialize (Hi eq_refl). destruct HA as (Hle & Hv & Hhp).
  unfold bl in *. cbn [cfile]. split; [unfold vlen in *; rewrite Hl; exact Hle|split].
  - intros r Hr. rewrite Hk. destruct (N.eqb_spec r i); [lia|]. auto.
  - intros r c Hr Hg. rewrite Hh. eauto.
Qed.

Lemma agree_strs st s : Agree st -> Agree (mkCst (set_strs (cfile st) s) (cnext st)).
Proof. unfold Agree. destruct src; auto. Qed.

Lemma wf_strs st s : WF st -> WF (mkCst (set_strs (cfile st) s) (cnext st)).
Proof. intros [A B]. constructor; auto. Qed.


Definition Frame (st st' : cst) (bi : N) : Prop :=
  (forall k, k < vlen (bl st) -> k <> bi -> vget (bl st') k = vget (bl st) k) /\
  (forall u, u < cnext st -> heap (cfile st') u = heap (cfile st) u) /\
  vlen (bl st) <= vlen (bl st') /\ cnext st <= cnext st' /\
  (forall x, In x (fstrs (cfile st)) -> In x (fstrs (cfile st'))) /\
  fid (cfile st') = fid (cfile st) /\ hown (cfile st') = hown (cfile st).

Lemma frame_refl st bi : Frame st st bi.
Proof. unfold Frame. repeat split; auto; lia. Qed.

Lemma frame_trans st1 st2 st3 bi :
  bi < vlen (bl st1) -> Frame st1 st2 bi -> Frame st2 st3 bi -> Frame st1 st3 bi.
Proof.
  intros Hbi (A1 & A2 & A3 & A4 & A5 & A6 & A7) (B1 & B2 & B3 & B4 & B5 & B6 & B7).
  unfold Frame. repeat split; try lia; try congruence.
  - intros k Hk Hne. rewrite B1 by lia. auto.
  - intros u Hu. rewrite B2 by lia. auto.
  - auto.
Qed.

Definition Post (d : nat) (st : cst) (bi pold pnew : N) (b : block) (st' : cst) : Prop :=
  WF st' /\ Agree st' /\ Frame st st' bi /\
  exists b', vget (bl st') bi = Some b' /\ uid b' = uid b /\ tname b' = tname b /\ ptrs b' = ptrs b /\
    Forall2 (crel (cfile st') (vlen (bl st)) (vlen (bl st')) d pold pnew) (crefs b) (crefs b').

Definition RecSpec (f : nat) : Prop :=
  forall st bi pold pnew b st',
    WF st -> Agree st -> vget (bl st) bi = Some b -> Forall (ref_ok sbound) (crefs b) ->
    (src = None -> sbound <= bi) ->
    clone_rec src empty enum f st bi pold pnew = Ok st' ->
    Post (pred f) st bi pold pnew b st'.

Lemma set_cref_spec j x b :
  j < vlen (crefs b) ->
  uid (set_cref j x b) = uid b /\ tname (set_cref j x b) = tname b /\ ptrs (set_cref j x b) = ptrs b /\
  length (crefs (set_cref j x b)) = length (crefs b) /\
  (forall k, vget (crefs (set_cref j x b)) k = if k =? j then Some x else vget (crefs b) k).
Proof.
  intros Hj. unfold set_cref. cbn [uid tname ptrs crefs].
  destruct (vset_ok (crefs b) j x Hj) as (l & E). rewrite E. repeat split; auto.
  - apply (vset_len _ _ _ _ E).
  - intros k. apply (vget_vset _ _ _ _ k E).
Qed.

(* one iteration of the loop over the child references of block bi *)
Lemma one_post f (IH : RecSpec f) st bi j pold pnew bc r st' :
  WF st -> Agree st -> vget (bl st) bi = Some bc -> vget (crefs bc) j = Some r -> ref_ok sbound r ->
  (src = None -> sbound <= bi) ->
  clone_one src empty (clone_rec src empty enum f) st bi j pold pnew = Ok st' ->
  WF st' /\ Agree st' /\ Frame st st' bi /\
  exists b', vget (bl st') bi = Some b' /\ uid b' = uid bc /\ tname b' = tname bc /\ ptrs b' = ptrs bc /\
    length (crefs b') = length (crefs bc) /\
    (forall k, k <> j -> vget (crefs b') k = vget (crefs bc) k) /\
    exists r', vget (crefs b') j = Some r' /\ crel (cfile st') (vlen (bl st)) (vlen (bl st')) f pold pnew r r'.
Proof.
  intros HW HA Hb Hj Hok Hsb E. unfold clone_one in E. unfold bl in Hb. rewrite Hb, Hj in E.
  destruct (src_get_agree st r HW HA Hok) as (Eg & Hheap). rewrite Eg in E. cbn [bind] in E.
  pose proof (vget_some_lt _ _ _ Hb) as Hbi. fold (bl st) in Hbi, Hb. pose proof (vget_some_lt _ _ _ Hj) as Hjl.
  destruct (sget0 r) as [sb|] eqn:Es.
  - (* the reference resolves in the source: clone, rebind, recurse *)
    specialize (Hheap sb eq_refl).
    set (sa := heap (src_of src st) (uid sb)) in *.
    destruct (add_object st (tname sb) (crefs sb) (ptrs sb) sa) as [st1 destId] eqn:Ea.
    pose proof (add_object_spec st (tname sb) (crefs sb) (ptrs sb) sa HW) as Hadd. rewrite Ea in Hadd. cbn [fst snd] in Hadd.
    destruct Hadd as (HW1 & Eb1 & Eid & En1 & Es1 & Eh1 & Ef1 & Eo1).
    pose proof (agree_add st (tname sb) (crefs sb) (ptrs sb) sa HW HA) as HA1. rewrite Ea in HA1. cbn [fst] in HA1.
    assert (Hb1 : vget (bl st1) bi = Some bc) by (rewrite Eb1, vget_app1; auto).
    destruct (upd_block (cfile st1) bi (set_cref j destId)) as [f2| |] eqn:E2; cbn [bind] in E; try discriminate.
    destruct (upd_block_spec _ _ _ _ E2) as (bc' & Hbc' & Hk2 & Hl2 & Hn2 & Hh2 & Hs2 & Hf2 & Ho2).
    unfold bl in Hb1. rewrite Hb1 in Hbc'. inversion Hbc'; subst bc'; clear Hbc'.
    destruct (set_cref_spec j destId bc Hjl) as (Su & St & Sp & Sl & Sg).
    pose proof (wf_upd st1 f2 bi (set_cref j destId) HW1 E2 ltac:(intros; reflexivity)) as HW2.
    pose proof (agree_upd st1 f2 bi (set_cref j destId) HA1 E2 Hsb) as HA2.
    set (f3 := set_strs f2 (register_strings empty (fstrs f2) (astrs sa))) in *.
    pose proof (wf_strs _ (register_strings empty (fstrs f2) (astrs sa)) HW2) as HW3.
    pose proof (agree_strs _ (register_strings empty (fstrs f2) (astrs sa)) HA2) as HA3.
    cbn [cfile cnext] in HW3, HA3. fold f3 in HW3, HA3.
    assert (Hdest : destId = vlen (bl st)) by exact Eid.
    assert (Hnew2 : vget (blocks (fh f2)) destId = Some (mkBlock (cnext st) (tname sb) (crefs sb) (ptrs sb))).
    { rewrite Hk2. destruct (N.eqb_spec destId bi); [lia|]. fold (bl st1). rewrite Eb1, Hdest. apply vget_app_last. }
    assert (Hsbd : src = None -> sbound <= destId).
    { intros Hs. unfold Agree in HA. rewrite Hs in HA. destruct HA as (Hle & _). lia. }
    pose proof (sget0_closed _ _ Es) as Hcl.
    (* the two ways of recursing *)
    assert (Hrec : exists stX nb pp1 pp2,
               clone_rec src empty enum f stX destId pp1 pp2 = Ok st' /\
               WF stX /\ Agree stX /\ vget (bl stX) destId = Some nb /\
               uid nb = cnext st /\ tname nb = tname sb /\ crefs nb = crefs sb /\
               ptrs nb = (if pold =? NPOS then ptrs sb else map (rebind pold pnew) (ptrs sb)) /\
               pp1 = (if pold =? NPOS then r else pold) /\ pp2 = (if pold =? NPOS then destId else pnew) /\
               (forall k, k <> destId -> vget (bl stX) k = vget (blocks (fh f2)) k) /\
               length (bl stX) = length (blocks (fh f2)) /\
               heap (cfile stX) = heap f2 /\ cnext stX = cnext st1 /\ fstrs (cfile stX) = fstrs f3 /\
               fid (cfile stX) = fid f2 /\ hown (cfile stX) = hown f2).
    { destruct (N.eqb_spec pold NPOS) as [Hp|Hp]; cbn [negb] in E.
      - exists (mkCst f3 (cnext st1)), (mkBlock (cnext st) (tname sb) (crefs sb) (ptrs sb)), r, destId.
        unfold bl. cbn [cfile cnext]. splits; auto.
      - destruct (upd_block f3 destId (rebind_ptrs pold pnew)) as [f4| |] eqn:E4; cbn [bind] in E; try discriminate.
        destruct (upd_block_spec _ _ _ _ E4) as (nb0 & Hnb0 & Hk4 & Hl4 & Hn4 & Hh4 & Hs4 & Hf4 & Ho4).
        change (blocks (fh f3)) with (blocks (fh f2)) in Hnb0, Hk4, Hl4. rewrite Hnew2 in Hnb0. inversion Hnb0; subst nb0; clear Hnb0.
        exists (mkCst f4 (cnext st1)), (rebind_ptrs pold pnew (mkBlock (cnext st) (tname sb) (crefs sb) (ptrs sb))), pold, pnew.
        unfold bl. cbn [cfile cnext]. splits; auto.
        + apply (wf_upd (mkCst f3 (cnext st1)) f4 destId (rebind_ptrs pold pnew) HW3 E4). intros; reflexivity.
        + apply (agree_upd (mkCst f3 (cnext st1)) f4 destId (rebind_ptrs pold pnew) HA3 E4 Hsbd).
        + rewrite Hk4, N.eqb_refl. reflexivity.
        + intros k Hk. rewrite Hk4. destruct (N.eqb_spec k destId); [congruence|reflexivity]. }
    destruct Hrec as (stX & nb & pp1 & pp2 & Erec & HWX & HAX & HbX & Nu & Nt & Nc & Np & Epp1 & Epp2 & HkX & HlX & HhX & HnX & HsX & HfX & HoX).
    assert (HclX : Forall (ref_ok sbound) (crefs nb)) by (rewrite Nc; exact Hcl).
    destruct (IH stX destId pp1 pp2 nb st' HWX HAX HbX HclX Hsbd Erec)
      as (HW' & HA' & (F1 & F2 & F3 & F4 & F5 & F6 & F7) & b'c & Hb'c & Cu & Ct & Cp & Cc).
    assert (HlenX : vlen (bl stX) = vlen (bl st) + 1).
    { unfold vlen. rewrite HlX, Hl2. fold (bl st1). rewrite Eb1, app_length. cbn. lia. }
    split; [exact HW'|]. split; [exact HA'|]. split.
    + (* frame *)
      unfold Frame. splits.
      * intros k Hk Hne. rewrite F1 by lia. rewrite HkX by lia. rewrite Hk2.
        destruct (N.eqb_spec k bi); [congruence|]. fold (bl st1). rewrite Eb1. apply vget_app1. exact Hk.
      * intros u Hu. rewrite F2 by lia. rewrite HhX, Hh2, Eh1. destruct (N.eqb_spec u (cnext st)); [lia|reflexivity].
      * lia.
      * lia.
      * intros x Hx. apply F5. rewrite HsX. unfold f3. cbn [set_strs fstrs]. apply register_strings_incl.
        rewrite Hs2, Es1. exact Hx.
      * rewrite F6, HfX, Hf2, Ef1. reflexivity.
      * rewrite F7, HoX, Ho2, Eo1. reflexivity.
    + exists (set_cref j destId bc). split.
      * rewrite F1 by lia. rewrite HkX by lia. rewrite Hk2, N.eqb_refl. reflexivity.
      * split; [exact Su|]. split; [exact St|]. split; [exact Sp|]. split; [exact Sl|]. split.
        -- intros k Hk. rewrite Sg. destruct (N.eqb_spec k j); [congruence|reflexivity].
        -- exists destId. split; [rewrite Sg, N.eqb_refl; reflexivity|].
           unfold crel. rewrite Es.
           (* the recursive call went through: f = S f' *)
           destruct f as [|f']; [cbn in Erec; discriminate|]. cbn [pred] in Cc.
           cbn [mir]. exists sb, b'c. split; [exact Es|]. split; [exact Hb'c|]. split; [lia|].
           split; [congruence|]. split.
           { rewrite Cu, Nu. rewrite F2 by lia. rewrite HhX, Hh2, Eh1, N.eqb_refl. exact Hheap. }
           split; [congruence|]. split.
           { intros x Hx Hne. apply F5. rewrite HsX. unfold f3. cbn [set_strs fstrs].
             apply register_strings_has; [|exact Hne]. rewrite Hheap. exact Hx. }
           rewrite <- Nc. eapply Forall2_impl'; [|exact Cc]. intros c c' _ Hc. unfold crel in Hc. cbn beta.
           destruct (sget0 c); [|exact Hc]. rewrite <- Epp1, <- Epp2.
           eapply (mir_frame (cfile st') (cfile st') (vlen (bl stX)) (vlen (bl st'))); try exact Hc; auto; lia.
  - (* empty or unresolvable in the source: left alone *)
    inversion E; subst st'. split; [exact HW|]. split; [exact HA|]. split; [apply frame_refl|].
    exists bc. splits; auto. exists r. split; [exact Hj|]. unfold crel. rewrite Es. reflexivity.
Qed.

Lemma crel_frame dst1 dst2 lo hi lo' hi' d pold pnew r r' : lo' <= lo -> hi <= hi' ->
  (forall k, lo <= k < hi -> vget (blocks (fh dst2)) k = vget (blocks (fh dst1)) k) ->
  (forall k b, lo <= k < hi -> vget (blocks (fh dst1)) k = Some b -> heap dst2 (uid b) = heap dst1 (uid b)) ->
  (forall x, In x (fstrs dst1) -> In x (fstrs dst2)) ->
  crel dst1 lo hi d pold pnew r r' -> crel dst2 lo' hi' d pold pnew r r'.
Proof.
  intros H1 H2 H3 H4 H5. unfold crel. destruct (sget0 r); auto. apply mir_frame; auto.
Qed.

(* a finished subtree is not touched by what follows: later steps only append and rewrite bi *)
Lemma crel_later st1 st' bi lo d pold pnew r r' :
  WF st1 -> Frame st1 st' bi -> bi < lo -> lo <= vlen (bl st1) ->
  crel (cfile st1) lo (vlen (bl st1)) d pold pnew r r' ->
  crel (cfile st') lo (vlen (bl st')) d pold pnew r r'.
Proof.
  intros HW (F1 & F2 & F3 & F4 & F5 & _) Hbi Hlo. apply crel_frame; auto; try lia.
  - intros k Hk. apply F1; lia.
  - intros k b Hk Hb. apply F2. apply (wf_uid _ HW). eapply in_vget; eauto.
Qed.

Lemma loop_post f (IH : RecSpec f) pold pnew bi b : forall js st st' bc,
  WF st -> Agree st -> vget (bl st) bi = Some bc ->
  uid bc = uid b -> tname bc = tname b -> ptrs bc = ptrs b -> length (crefs bc) = length (crefs b) ->
  (forall j, In j js -> vget (crefs bc) j = vget (crefs b) j) ->
  NoDup js -> (forall j, In j js -> j < vlen (crefs b)) ->
  Forall (ref_ok sbound) (crefs b) -> (src = None -> sbound <= bi) ->
  clone_loop src empty (clone_rec src empty enum f) js st bi pold pnew = Ok st' ->
  WF st' /\ Agree st' /\ Frame st st' bi /\
  exists b', vget (bl st') bi = Some b' /\ uid b' = uid b /\ tname b' = tname b /\ ptrs b' = ptrs b /\
    length (crefs b') = length (crefs b) /\
    (forall j, ~ In j js -> vget (crefs b') j = vget (crefs bc) j) /\
    (forall j r, In j js -> vget (crefs b) j = Some r ->
       exists r', vget (crefs b') j = Some r' /\ crel (cfile st') (vlen (bl st)) (vlen (bl st')) f pold pnew r r').
Proof.
  induction js as [|j js IHjs]; intros st st' bc HW HA Hb Eu Et Ep El Hun Hnd Hrng Hcl Hsb E; cbn [clone_loop] in E.
  - inversion E; subst st'. split; [exact HW|]. split; [exact HA|]. split; [apply frame_refl|].
    exists bc. splits; auto. intros j r [].
  - destruct (clone_one src empty (clone_rec src empty enum f) st bi j pold pnew) as [st1| |] eqn:E1; cbn [bind] in E; try discriminate.
    inversion Hnd as [|? ? Hnj Hnd']; subst.
    assert (Hjl : j < vlen (crefs b)) by (apply Hrng; left; reflexivity).
    destruct (vget_lt _ _ Hjl) as (r & Hr).
    assert (Hrc : vget (crefs bc) j = Some r) by (rewrite Hun; [exact Hr|left; reflexivity]).
    assert (Hrok : ref_ok sbound r) by (rewrite Forall_forall in Hcl; apply Hcl; eapply in_vget; eauto).
    pose proof (vget_some_lt _ _ _ Hb) as Hbi.
    destruct (one_post f IH st bi j pold pnew bc r st1 HW HA Hb Hrc Hrok Hsb E1)
      as (HW1 & HA1 & HF1 & b1 & Hb1 & U1 & T1 & P1 & L1 & K1 & r1 & Hr1 & C1).
    destruct (IHjs st1 st' b1 HW1 HA1 Hb1 ltac:(congruence) ltac:(congruence) ltac:(congruence) ltac:(congruence))
      as (HW' & HA' & HF' & b' & Hb' & U' & T' & P' & L' & K' & R'); auto.
    { intros j' Hj'. rewrite K1; [apply Hun; right; exact Hj'|]. intros ->. contradiction. }
    { intros j' Hj'. apply Hrng. right. exact Hj'. }
    pose proof HF1 as (_ & _ & G3 & _).
    split; [exact HW'|]. split; [exact HA'|]. split; [eapply frame_trans; eauto|].
    exists b'. splits; auto.
    + intros j0 Hj0. rewrite K'; [|intros H; apply Hj0; right; exact H].
      apply K1. intros ->. apply Hj0. left. reflexivity.
    + intros j0 r0 [<-|Hin] Hr0.
      * rewrite Hr in Hr0. inversion Hr0; subst r0. exists r1. split.
        -- rewrite K'; auto.
        -- exact (crel_later st1 st' bi (vlen (bl st)) f pold pnew r r1 HW1 HF' Hbi G3 C1).
      * destruct (R' j0 r0 Hin Hr0) as (r' & Hg & Hc). exists r'. split; [exact Hg|].
        eapply crel_frame; try exact Hc; auto; lia.
Qed.

Theorem rec_spec : forall f, RecSpec f.
Proof.
  induction f as [|f IH]; intros st bi pold pnew b st' HW HA Hb Hcl Hsb E; [discriminate|].
  cbn [clone_rec] in E. unfold bl in Hb. rewrite Hb in E. fold (bl st) in Hb.
  destruct (enum_ok (uid b) (length (crefs b))) as (Hnd & Hin).
  assert (Hrng : forall j, In j (enum (uid b) (length (crefs b))) -> j < vlen (crefs b)).
  { intros j Hj. apply Hin in Hj. exact Hj. }
  destruct (loop_post f IH pold pnew bi b (enum (uid b) (length (crefs b))) st st' b HW HA Hb eq_refl eq_refl eq_refl eq_refl
              ltac:(intros; reflexivity) Hnd Hrng Hcl Hsb E)
    as (HW' & HA' & HF' & b' & Hb' & U' & T' & P' & L' & K' & R').
  cbn [pred]. split; [exact HW'|]. split; [exact HA'|]. split; [exact HF'|].
  exists b'. splits; auto. apply Forall2_pointwise; [congruence|].
  intros i r r' Hr Hr'. pose proof (vget_some_lt _ _ _ Hr) as Hlt.
  destruct (R' i r ltac:(apply Hin; exact Hlt) Hr) as (r'' & Hg & Hc). congruence.
Qed.

(* ---- what CloneChildren achieves (whenever it returns) ---- *)
Theorem clone_children_post fuel st bi b st' :
  WF st -> Agree st -> vget (bl st) bi = Some b -> Forall (ref_ok sbound) (crefs b) ->
  (src = None -> sbound <= bi) ->
  clone_children src empty enum fuel st bi = Ok st' ->
  Post (pred fuel) st bi NPOS NPOS b st'.
Proof. intros. eapply rec_spec; eauto. Qed.

(* ---- termination: finite depth of the source below the block ---- *)
Fixpoint fin (d : nat) (r : N) {struct d} : Prop :=
  match d with
  | O => sget0 r = None
  | S d' => match sget0 r with None => True | Some sb => Forall (fin d') (crefs sb) end
  end.

Lemma fin_mono : forall d r, fin d r -> fin (S d) r.
Proof.
  induction d as [|d IH]; intros r H.
  - cbn in *. rewrite H. exact I.
  - cbn [fin] in *. destruct (sget0 r); [|exact I].
    eapply Forall_impl; [|exact H]. intros c Hc. apply IH. exact Hc.
Qed.

Lemma fin_le d d' r : (d <= d')%nat -> fin d r -> fin d' r.
Proof. induction 1; auto. intros. apply fin_mono. auto. Qed.

Definition Tot (f : nat) : Prop :=
  forall st bi pold pnew b,
    WF st -> Agree st -> vget (bl st) bi = Some b -> Forall (ref_ok sbound) (crefs b) ->
    (src = None -> sbound <= bi) -> Forall (fin f) (crefs b) ->
    exists st', clone_rec src empty enum (S f) st bi pold pnew = Ok st'.

Lemma one_total f (IHt : forall g, (g < f)%nat -> Tot g) st bi j pold pnew bc r :
  WF st -> Agree st -> vget (bl st) bi = Some bc -> vget (crefs bc) j = Some r -> ref_ok sbound r ->
  (src = None -> sbound <= bi) -> fin f r ->
  exists st', clone_one src empty (clone_rec src empty enum f) st bi j pold pnew = Ok st'.
Proof.
  intros HW HA Hb Hj Hok Hsb Hfin. unfold clone_one. unfold bl in Hb. rewrite Hb, Hj. fold (bl st) in Hb.
  destruct (src_get_agree st r HW HA Hok) as (Eg & Hheap). rewrite Eg. cbn [bind].
  pose proof (vget_some_lt _ _ _ Hb) as Hbi. pose proof (vget_some_lt _ _ _ Hj) as Hjl.
  destruct (sget0 r) as [sb|] eqn:Es; [|eauto].
  destruct f as [|f']; [cbn in Hfin; congruence|]. cbn [fin] in Hfin. rewrite Es in Hfin.
  set (sa := heap (src_of src st) (uid sb)).
  destruct (add_object st (tname sb) (crefs sb) (ptrs sb) sa) as [st1 destId] eqn:Ea.
  pose proof (add_object_spec st (tname sb) (crefs sb) (ptrs sb) sa HW) as Hadd. rewrite Ea in Hadd. cbn [fst snd] in Hadd.
  destruct Hadd as (HW1 & Eb1 & Eid & En1 & Es1 & Eh1 & Ef1 & Eo1).
  pose proof (agree_add st (tname sb) (crefs sb) (ptrs sb) sa HW HA) as HA1. rewrite Ea in HA1. cbn [fst] in HA1.
  assert (Hb1 : vget (bl st1) bi = Some bc) by (rewrite Eb1, vget_app1; auto).
  destruct (upd_block_ok (cfile st1) bi (set_cref j destId) bc Hb1) as (f2 & E2). rewrite E2. cbn [bind].
  destruct (upd_block_spec _ _ _ _ E2) as (bc' & Hbc' & Hk2 & Hl2 & Hn2 & Hh2 & Hs2 & Hf2 & Ho2).
  pose proof (wf_upd st1 f2 bi (set_cref j destId) HW1 E2 ltac:(intros; reflexivity)) as HW2.
  pose proof (agree_upd st1 f2 bi (set_cref j destId) HA1 E2 Hsb) as HA2.
  set (f3 := set_strs f2 (register_strings empty (fstrs f2) (astrs sa))).
  pose proof (wf_strs _ (register_strings empty (fstrs f2) (astrs sa)) HW2) as HW3.
  pose proof (agree_strs _ (register_strings empty (fstrs f2) (astrs sa)) HA2) as HA3.
  cbn [cfile cnext] in HW3, HA3. fold f3 in HW3, HA3.
  assert (Hnew2 : vget (blocks (fh f2)) destId = Some (mkBlock (cnext st) (tname sb) (crefs sb) (ptrs sb))).
  { rewrite Hk2. destruct (N.eqb_spec destId bi); [lia|]. fold (bl st1). rewrite Eb1, Eid. apply vget_app_last. }
  assert (Hsbd : src = None -> sbound <= destId).
  { intros Hs. unfold Agree in HA. rewrite Hs in HA. destruct HA as (Hle & _). lia. }
  pose proof (sget0_closed _ _ Es) as Hcl.
  destruct (N.eqb_spec pold NPOS) as [Hp|Hp]; cbn [negb].
  - apply (IHt f' ltac:(lia) (mkCst f3 (cnext st1)) destId r destId (mkBlock (cnext st) (tname sb) (crefs sb) (ptrs sb))); auto.
  - change (blocks (fh f2)) with (blocks (fh f3)) in Hnew2.
    destruct (upd_block_ok f3 destId (rebind_ptrs pold pnew) _ Hnew2) as (f4 & E4). rewrite E4. cbn [bind].
    destruct (upd_block_spec _ _ _ _ E4) as (nb0 & Hnb0 & Hk4 & _).
    apply (IHt f' ltac:(lia) (mkCst f4 (cnext st1)) destId pold pnew (rebind_ptrs pold pnew (mkBlock (cnext st) (tname sb) (crefs sb) (ptrs sb)))); auto.
    + apply (wf_upd (mkCst f3 (cnext st1)) f4 destId (rebind_ptrs pold pnew) HW3 E4). intros; reflexivity.
    + apply (agree_upd (mkCst f3 (cnext st1)) f4 destId (rebind_ptrs pold pnew) HA3 E4 Hsbd).
    + unfold bl. cbn [cfile]. rewrite Hk4, N.eqb_refl. rewrite Hnew2 in Hnb0. inversion Hnb0. reflexivity.
Qed.

Lemma loop_total f (IHt : forall g, (g < f)%nat -> Tot g) pold pnew bi b : forall js st bc,
  WF st -> Agree st -> vget (bl st) bi = Some bc ->
  uid bc = uid b -> tname bc = tname b -> ptrs bc = ptrs b -> length (crefs bc) = length (crefs b) ->
  (forall j, In j js -> vget (crefs bc) j = vget (crefs b) j) ->
  NoDup js -> (forall j, In j js -> j < vlen (crefs b)) ->
  Forall (ref_ok sbound) (crefs b) -> (src = None -> sbound <= bi) -> Forall (fin f) (crefs b) ->
  exists st', clone_loop src empty (clone_rec src empty enum f) js st bi pold pnew = Ok st'.
Proof.
  induction js as [|j js IHjs]; intros st bc HW HA Hb Eu Et Ep El Hun Hnd Hrng Hcl Hsb Hfin; cbn [clone_loop]; [eauto|].
  inversion Hnd as [|? ? Hnj Hnd']; subst.
  assert (Hjl : j < vlen (crefs b)) by (apply Hrng; left; reflexivity).
  destruct (vget_lt _ _ Hjl) as (r & Hr).
  assert (Hrc : vget (crefs bc) j = Some r) by (rewrite Hun; [exact Hr|left; reflexivity]).
  assert (Hrok : ref_ok sbound r) by (rewrite Forall_forall in Hcl; apply Hcl; eapply in_vget; eauto).
  assert (Hrfin : fin f r) by (rewrite Forall_forall in Hfin; apply Hfin; eapply in_vget; eauto).
  destruct (one_total f IHt st bi j pold pnew bc r HW HA Hb Hrc Hrok Hsb Hrfin) as (st1 & E1). rewrite E1. cbn [bind].
  destruct (one_post f (rec_spec f) st bi j pold pnew bc r st1 HW HA Hb Hrc Hrok Hsb E1)
    as (HW1 & HA1 & HF1 & b1 & Hb1 & U1 & T1 & P1 & L1 & K1 & _).
  apply (IHjs st1 b1); auto; try congruence.
  - intros j' Hj'. rewrite K1; [apply Hun; right; exact Hj'|]. intros ->. contradiction.
  - intros j' Hj'. apply Hrng. right. exact Hj'.
Qed.

Theorem tot_all : forall f, Tot f.
Proof.
  induction f as [f IH] using lt_wf_ind. intros st bi pold pnew b HW HA Hb Hcl Hsb Hfin.
  cbn [clone_rec]. unfold bl in Hb. rewrite Hb. fold (bl st) in Hb.
  destruct (enum_ok (uid b) (length (crefs b))) as (Hnd & Hin).
  apply (loop_total f IH pold pnew bi b _ st b); auto.
  intros j Hj. apply Hin in Hj. exact Hj.
Qed.

(* explicit fuel bound: any fuel above the depth of the source below the block *)
Theorem clone_total fuel d st bi b :
  WF st -> Agree st -> vget (bl st) bi = Some b -> Forall (ref_ok sbound) (crefs b) ->
  (src = None -> sbound <= bi) -> Forall (fin d) (crefs b) -> (d < fuel)%nat ->
  exists st', clone_children src empty enum fuel st bi = Ok st' /\ Post (pred fuel) st bi NPOS NPOS b st'.
Proof.
  intros HW HA Hb Hcl Hsb Hfin Hlt. destruct fuel as [|f]; [lia|].
  destruct (tot_all f st bi NPOS NPOS b HW HA Hb Hcl Hsb) as (st' & E).
  - eapply Forall_impl; [|exact Hfin]. intros c Hc. apply (fin_le d f); [lia|exact Hc].
  - exists st'. split; [exact E|]. eapply clone_children_post; eauto.
Qed.

(* acyclic sources: a rank that decreases along every resolvable child reference *)
Definition ranked (rank : N -> nat) : Prop :=
  forall r sb c, sget0 r = Some sb -> In c (crefs sb) -> sget0 c <> None -> (rank c < rank r)%nat.

Lemma fin_none n c : sget0 c = None -> fin n c.
Proof. intros H. destruct n; cbn; rewrite H; auto. Qed.

Lemma ranked_fin rank : ranked rank -> forall n r, (rank r < n)%nat -> fin n r.
Proof.
  intros HR. induction n as [|n IH]; intros r Hlt; [lia|].
  cbn [fin]. destruct (sget0 r) as [sb|] eqn:Es; [|exact I].
  rewrite Forall_forall. intros c Hc. destruct (sget0 c) eqn:Ec.
  - apply IH. assert (rank c < rank r)%nat by (apply (HR r sb c); auto; congruence). lia.
  - apply fin_none. exact Ec.
Qed.

(* clone_total_acyclic: with a decreasing rank, any fuel above the largest rank among the block's
   own references (+1) suffices *)
Theorem clone_total_acyclic rank fuel st bi b :
  ranked rank ->
  WF st -> Agree st -> vget (bl st) bi = Some b -> Forall (ref_ok sbound) (crefs b) ->
  (src = None -> sbound <= bi) ->
  (0 < fuel)%nat -> (forall c, In c (crefs b) -> (S (rank c) < fuel)%nat) ->
  exists st', clone_children src empty enum fuel st bi = Ok st' /\ Post (pred fuel) st bi NPOS NPOS b st'.
Proof.
  intros HR HW HA Hb Hcl Hsb Hpos Hbound. destruct fuel as [|f]; [lia|].
  apply (clone_total (S f) f st bi b); auto.
  rewrite Forall_forall. intros c Hc. apply (ranked_fin rank HR). specialize (Hbound c Hc). lia.
Qed.

End Main.
