(* Proofs about CopyModel.v: the copy writes what the source writes, owns every object it points
   to, and the ownership invariant is what makes one model's observations independent of the other. *)
From NiflyVerif Require Import Res GraphModel GraphInv GraphDelete GraphAdd GraphOrder CopyModel.
From Coq Require Import ZifyBool ZifyNat ZifyN.
Local Open Scope N_scope.

Section CopyProofs.
Variable compat : N -> N -> bool.

(* DataRef() is one of the enumerated child references *)
Definition SlotOk (f : file) : Prop :=
  forall b k, In b (blocks (fh f)) -> adslot (heap f (uid b)) = Some k -> k < vlen (crefs b).

(* ---- small list facts ---- *)
Lemma vget_cons_succ {A} (x : A) l j : vget (x :: l) (j + 1) = vget l j.
Proof. unfold vget. replace (N.to_nat (j + 1)) with (S (N.to_nat j)) by lia. reflexivity. Qed.

Lemma vget_cons_zero {A} (x : A) l : vget (x :: l) 0 = Some x.
Proof. reflexivity. Qed.

Lemma vget_none_ge {A} (v : list A) i : vlen v <= i -> vget v i = None.
Proof. unfold vget, vlen. intros H. apply nth_error_None. lia. Qed.

(* ---- clone_all ---- *)
Lemma clone_all_length base : forall bl i, length (clone_all base i bl) = length bl.
Proof. induction bl; intros; cbn; auto. Qed.

Lemma clone_all_vlen base bl i : vlen (clone_all base i bl) = vlen bl.
Proof. unfold vlen. rewrite clone_all_length. reflexivity. Qed.

Lemma clone_all_vget base : forall bl i j,
  vget (clone_all base i bl) j =
  option_map (fun b => mkBlock (base + i + j) (tname b) (crefs b) (ptrs b)) (vget bl j).
Proof.
  induction bl as [|b bl IH]; intros i j.
  - unfold vget. cbn. destruct (N.to_nat j); reflexivity.
  - destruct (N.eqb_spec j 0) as [->|Hj].
    + cbn [clone_all]. rewrite !vget_cons_zero. cbn. rewrite N.add_0_r. reflexivity.
    + replace j with ((j - 1) + 1) by lia. cbn [clone_all]. rewrite !vget_cons_succ.
      rewrite IH. destruct (vget bl (j - 1)); cbn; [|reflexivity]. f_equal. f_equal. lia.
Qed.

Lemma clone_all_uids base : forall bl i u,
  In u (map uid (clone_all base i bl)) <-> base + i <= u < base + i + vlen bl.
Proof.
  induction bl as [|b bl IH]; intros i u; cbn [clone_all map In].
  - unfold vlen. cbn. lia.
  - rewrite IH. rewrite vlen_cons. cbn [uid]. lia.
Qed.

Lemma clone_all_nodup base : forall bl i, NoDup (map uid (clone_all base i bl)).
Proof.
  induction bl as [|b bl IH]; intros i; cbn [clone_all map]; constructor; auto.
  rewrite clone_all_uids. cbn [uid]. lia.
Qed.

Lemma clone_heap_at base bl hp j b :
  vget bl j = Some b -> clone_heap base bl hp (base + j) = hp (uid b).
Proof.
  intros H. unfold clone_heap. pose proof (vget_some_lt' _ _ _ H) as Hlt.
  destruct (N.leb_spec base (base + j)); [|lia].
  destruct (N.ltb_spec (base + j) (base + vlen bl)); [|lia]. cbn.
  replace (base + j - base) with j by lia. rewrite H. reflexivity.
Qed.

(* ---- LinkGeomData only ever writes the cached pointer ---- *)
Definition same_fields (a a' : aux) : Prop :=
  astrs a' = astrs a /\ atok a' = atok a /\ adslot a' = adslot a.

Lemma link_one_fields me bl nb b hp hp' :
  link_one compat me bl nb b hp = Ok hp' -> forall x, same_fields (hp x) (hp' x).
Proof.
  unfold link_one, same_fields. intros H x.
  destruct (adslot (hp (uid b))) as [k|]; [|inversion H; subst; auto].
  destruct (vget (crefs b) k) as [r|]; [|discriminate].
  destruct (negb (r =? NPOS) && (r <? nb))%bool; [|inversion H; subst; auto].
  destruct (vget bl r) as [d|]; [|discriminate].
  destruct (compat (tname b) (tname d)); inversion H; subst; auto.
  unfold upd. destruct (x =? uid b) eqn:E; auto.
  apply N.eqb_eq in E. subst. cbn. auto.
Qed.

Lemma link_loop_fields me bl nb : forall todo hp hp',
  link_loop compat me bl nb todo hp = Ok hp' -> forall x, same_fields (hp x) (hp' x).
Proof.
  induction todo as [|b todo IH]; intros hp hp' H x; cbn [link_loop] in H.
  - inversion H; subst. unfold same_fields; auto.
  - destruct (link_one compat me bl nb b hp) as [hp1| |] eqn:E; cbn [bind] in H; try discriminate.
    pose proof (link_one_fields _ _ _ _ _ _ E x) as (A1 & A2 & A3).
    pose proof (IH _ _ H x) as (B1 & B2 & B3).
    unfold same_fields. rewrite B1, B2, B3. auto.
Qed.

(* ---- copy_equal: whatever the cached pointers are, the copy's header tables, string table and
   per-block class / references / strings / payload are the source's ---- *)
Lemma map_clone_view base hp hp' : forall suf i,
  (forall j b, vget suf j = Some b -> same_fields (hp (uid b)) (hp' (base + i + j))) ->
  map (block_view hp') (clone_all base i suf) = map (block_view hp) suf.
Proof.
  induction suf as [|b suf IH]; intros i H; cbn [clone_all map]; [reflexivity|]. f_equal.
  - unfold block_view. cbn [uid tname crefs ptrs].
    destruct (H 0 b (vget_cons_zero _ _)) as (A1 & A2 & _). rewrite N.add_0_r in *. rewrite A1, A2. reflexivity.
  - apply IH. intros j c Hj. specialize (H (j + 1) c). rewrite vget_cons_succ in H.
    replace (base + (i + 1) + j) with (base + i + (j + 1)) by lia. auto.
Qed.

Theorem copy_equal me base f c :
  copy_from compat me base f = Ok c -> save_view c = save_view f.
Proof.
  unfold copy_from, link_geom_data. cbn [fh heap blocks nblocks hown fid fstrs].
  destruct (link_loop _ _ _ _ _ _) as [hp| |] eqn:E; cbn [bind]; try discriminate.
  intros H. inversion H; subst; clear H. unfold save_view. cbn [fh heap blocks nblocks tnames ntypes tidx sizes has_sizes fstrs].
  f_equal. apply map_clone_view. intros j b Hj. rewrite N.add_0_r.
  pose proof (link_loop_fields _ _ _ _ _ _ E (base + j)) as (A1 & A2 & A3).
  rewrite (clone_heap_at _ _ _ _ _ Hj) in *. unfold same_fields. auto.
Qed.

(* ---- the effect of the linking loop, object by object ---- *)
Definition link_aux (me : N) (bl : list block) (nb : N) (b : block) (a : aux) : aux :=
  match adslot a with
  | None => a
  | Some k =>
    match vget (crefs b) k with
    | None => a
    | Some r =>
      if (negb (r =? NPOS) && (r <? nb))%bool then
        match vget bl r with
        | Some d => if compat (tname b) (tname d) then set_cached a (Some (me, uid d)) else a
        | None => a
        end
      else a
    end
  end.

Definition safe (bl : list block) (nb : N) (hp : N -> aux) (b : block) : Prop :=
  forall k, adslot (hp (uid b)) = Some k ->
    exists r, vget (crefs b) k = Some r /\ (r = NPOS \/ nb <= r \/ r < vlen bl).

Lemma link_one_ok me bl nb b hp :
  safe bl nb hp b ->
  exists hp', link_one compat me bl nb b hp = Ok hp' /\
    forall x, hp' x = if x =? uid b then link_aux me bl nb b (hp (uid b)) else hp x.
Proof.
  intros Hs. unfold link_one, link_aux. unfold safe in Hs.
  destruct (adslot (hp (uid b))) as [k|] eqn:Ek.
  - destruct (Hs k eq_refl) as (r & Hr & Hok). rewrite Hr.
    destruct (negb (r =? NPOS) && (r <? nb))%bool eqn:Eg.
    + assert (r < vlen bl) as Hlt.
      { destruct Hok as [->|[Hge|Hlt]]; auto.
        - rewrite N.eqb_refl in Eg. discriminate.
        - apply andb_true_iff in Eg. destruct Eg as [_ Eg]. apply N.ltb_lt in Eg. lia. }
      destruct (vget_lt bl r Hlt) as (d & Hd). rewrite Hd.
      destruct (compat (tname b) (tname d)).
      * eexists; split; [reflexivity|]. intros x. reflexivity.
      * exists hp. split; [reflexivity|]. intros x. destruct (N.eqb_spec x (uid b)); subst; reflexivity.
    + exists hp. split; [reflexivity|]. intros x. destruct (N.eqb_spec x (uid b)); subst; reflexivity.
  - exists hp. split; [reflexivity|]. intros x. destruct (N.eqb_spec x (uid b)); subst; reflexivity.
Qed.

Definition find_uid (x : N) (l : list block) : option block := find (fun b => uid b =? x) l.

Lemma find_uid_in x l b : NoDup (map uid l) -> In b l -> uid b = x -> find_uid x l = Some b.
Proof.
  unfold find_uid. induction l as [|c l IH]; intros Hnd Hin Hu; [contradiction|].
  cbn [find]. cbn [map] in Hnd. inversion Hnd as [|? ? Hni Hnd']; subst.
  destruct Hin as [->|Hin].
  - rewrite N.eqb_refl. reflexivity.
  - destruct (N.eqb_spec (uid c) (uid b)) as [He|_].
    + exfalso. apply Hni. rewrite He. apply in_map. exact Hin.
    + apply IH; auto.
Qed.

Lemma find_uid_none x l : ~ In x (map uid l) -> find_uid x l = None.
Proof.
  unfold find_uid. induction l as [|c l IH]; intros H; [reflexivity|]. cbn [find].
  cbn [map In] in H. destruct (N.eqb_spec (uid c) x); [exfalso; auto|]. apply IH. auto.
Qed.

Lemma link_aux_dslot me bl nb b a : adslot (link_aux me bl nb b a) = adslot a.
Proof.
  unfold link_aux. destruct (adslot a) eqn:E; [|auto].
  destruct (vget (crefs b) n); [|auto]. destruct (_ && _)%bool; [|auto].
  destruct (vget bl n0); [|auto]. destruct (compat _ _); auto.
Qed.

Lemma link_loop_ok me bl nb : forall todo hp,
  NoDup (map uid todo) -> Forall (safe bl nb hp) todo ->
  exists hp', link_loop compat me bl nb todo hp = Ok hp' /\
    forall x, hp' x = match find_uid x todo with
                      | Some b => link_aux me bl nb b (hp x)
                      | None => hp x
                      end.
Proof.
  induction todo as [|b todo IH]; intros hp Hnd Hs; cbn [link_loop].
  - exists hp. split; [reflexivity|]. intros x. reflexivity.
  - cbn [map] in Hnd. inversion Hnd as [|? ? Hni Hnd']; subst.
    inversion Hs as [|? ? Hsb Hst]; subst.
    destruct (link_one_ok me bl nb b hp Hsb) as (hp1 & E1 & H1). rewrite E1. cbn [bind].
    assert (Hs1 : Forall (safe bl nb hp1) todo).
    { rewrite Forall_forall in *. intros c Hc k Hk. apply (Hst c Hc k).
      rewrite H1 in Hk. destruct (N.eqb_spec (uid c) (uid b)) as [He|_]; [|exact Hk].
      exfalso. apply Hni. rewrite <- He. apply in_map. exact Hc. }
    destruct (IH hp1 Hnd' Hs1) as (hp2 & E2 & H2). exists hp2. split; [exact E2|].
    intros x. rewrite H2. unfold find_uid. cbn [find]. fold (find_uid x todo).
    destruct (N.eqb_spec (uid b) x) as [He|Hne].
    + subst x. rewrite (find_uid_none (uid b) todo Hni). rewrite H1, N.eqb_refl. reflexivity.
    + rewrite H1. destruct (N.eqb_spec x (uid b)); [congruence|]. reflexivity.
Qed.

(* ---- views ---- *)
Lemma view_in_block h e : In e (view h) -> exists b, In b (blocks h) /\ e = view_block (blocks h) b.
Proof. unfold view. rewrite in_map_iff. intros (b & <- & Hb). eauto. Qed.

Lemma block_in_view h b : In b (blocks h) -> In (view_block (blocks h) b) (view h).
Proof. unfold view. apply in_map. Qed.

Lemma resolve_some bl r w : resolve bl r = Some w ->
  r <> NPOS /\ exists d, vget bl r = Some d /\ uid d = w.
Proof.
  unfold resolve. destruct (N.eqb_spec r NPOS); [discriminate|].
  destruct (vget bl r) as [d|]; cbn; [|discriminate]. intros H. inversion H. eauto.
Qed.

Lemma resolve_of bl r d : r <> NPOS -> vget bl r = Some d -> resolve bl r = Some (uid d).
Proof. unfold resolve. intros Hn Hd. destruct (N.eqb_spec r NPOS); [congruence|]. rewrite Hd. reflexivity. Qed.

Lemma uid_inj_in bl b c : NoDup (map uid bl) -> In b bl -> In c bl -> uid b = uid c -> b = c.
Proof.
  induction bl as [|x bl IH]; intros Hnd Hb Hc He; [contradiction|].
  cbn [map] in Hnd. inversion Hnd as [|? ? Hni Hnd']; subst.
  destruct Hb as [->|Hb], Hc as [->|Hc]; auto.
  - exfalso. apply Hni. rewrite He. apply in_map. exact Hc.
  - exfalso. apply Hni. rewrite <- He. apply in_map. exact Hb.
Qed.

(* ---- LinkGeomData establishes the ownership invariant whenever every stale pointer is going
   to be overwritten ---- *)
Definition relinkable (bl : list block) (hp : N -> aux) (b : block) : Prop :=
  exists k r d, adslot (hp (uid b)) = Some k /\ vget (crefs b) k = Some r /\ r <> NPOS /\
                vget bl r = Some d /\ compat (tname b) (tname d) = true.

Definition stale_ok (f : file) : Prop :=
  forall b, In b (blocks (fh f)) ->
    acached (heap f (uid b)) = None \/ relinkable (blocks (fh f)) (heap f) b.

Lemma slot_safe f : Inv (fh f) -> SlotOk f ->
  Forall (safe (blocks (fh f)) (nblocks (fh f)) (heap f)) (blocks (fh f)).
Proof.
  intros HI HS. rewrite Forall_forall. intros b Hb k Hk.
  pose proof (HS b k Hb Hk) as Hlt. destruct (vget_lt _ _ Hlt) as (r & Hr). exists r. split; [exact Hr|].
  pose proof (inv_refs _ HI) as Hrefs. rewrite Forall_forall in Hrefs. destruct (Hrefs b Hb) as [Hc _].
  rewrite Forall_forall in Hc. destruct (Hc r (in_vget _ _ _ Hr)) as [->|Hlt']; auto.
Qed.

Theorem link_geom_data_establishes f :
  Inv (fh f) -> SlotOk f -> hown f = fid f -> stale_ok f ->
  exists f', link_geom_data compat f = Ok f' /\ LinkInv compat f' /\
             fh f' = fh f /\ fid f' = fid f /\ fstrs f' = fstrs f /\
             (forall x, same_fields (heap f x) (heap f' x)).
Proof.
  intros HI HS Hown Hst. unfold link_geom_data.
  pose proof (inv_uids _ HI) as Hnd. pose proof (inv_nblocks _ HI) as Hnb.
  destruct (link_loop_ok (hown f) (blocks (fh f)) (nblocks (fh f)) (blocks (fh f)) (heap f) Hnd (slot_safe f HI HS))
    as (hp & E & Hhp).
  rewrite E. cbn [bind]. eexists. split; [reflexivity|].
  split; [|split; [reflexivity|split; [reflexivity|split; [reflexivity|]]]].
  2:{ intros x. exact (link_loop_fields _ _ _ _ _ _ E x). }
  unfold LinkInv. cbn [hown fid fh heap]. split; [exact Hown|].
  rewrite Forall_forall. intros e He.
  destruct (view_in_block _ _ He) as (b & Hb & ->). unfold view_block, linked.
  rewrite Hhp. rewrite (find_uid_in (uid b) _ b Hnd Hb eq_refl).
  rewrite link_aux_dslot.
  destruct (adslot (heap f (uid b))) as [k|] eqn:Ek.
  - (* a NiGeometry *)
    unfold link_aux. rewrite Ek.
    destruct (vget_lt _ _ (HS b k Hb Ek)) as (r & Hr). rewrite Hr.
    destruct (negb (r =? NPOS) && (r <? nblocks (fh f)))%bool eqn:Eg.
    + apply andb_true_iff in Eg. destruct Eg as [Eg1 Eg2]. apply negb_true_iff, N.eqb_neq in Eg1. apply N.ltb_lt in Eg2.
      rewrite Hnb in Eg2. destruct (vget_lt _ _ Eg2) as (d & Hd). rewrite Hd.
      destruct (compat (tname b) (tname d)) eqn:Ec.
      * right. exists (uid d), (tname d), (map (resolve (blocks (fh f))) (crefs d)), (map (resolve (blocks (fh f))) (ptrs d)).
        cbn [acached set_cached]. rewrite Hown. repeat split; auto.
        -- rewrite vget_map, Hr. cbn. f_equal. apply resolve_of; auto.
        -- apply (block_in_view (fh f) d). eapply in_vget; eauto.
      * (* the dynamic_cast fails: the pointer keeps its old value, which must have been null *)
        destruct (Hst b Hb) as [Hn|(k' & r' & d' & Hk' & Hr' & Hn' & Hd' & Hc')]; [left; exact Hn|].
        rewrite Ek in Hk'. inversion Hk'; subst k'. rewrite Hr in Hr'. inversion Hr'; subst r'.
        rewrite Hd in Hd'. inversion Hd'; subst d'. congruence.
    + destruct (Hst b Hb) as [Hn|(k' & r' & d' & Hk' & Hr' & Hn' & Hd' & Hc')]; [left; exact Hn|].
      rewrite Ek in Hk'. inversion Hk'; subst k'. rewrite Hr in Hr'. inversion Hr'; subst r'.
      exfalso. apply andb_false_iff in Eg. destruct Eg as [Eg|Eg].
      * apply negb_false_iff, N.eqb_eq in Eg. congruence.
      * apply N.ltb_ge in Eg. rewrite Hnb in Eg. pose proof (vget_some_lt' _ _ _ Hd'). lia.
  - (* not a NiGeometry: nothing is written; the block has no cached pointer *)
    unfold link_aux. rewrite Ek.
    destruct (Hst b Hb) as [Hn|(k' & r' & d' & Hk' & _)]; [exact Hn|congruence].
Qed.

(* a model whose pointers are all null (what Load produces before PrepareData links them) *)
Corollary link_after_load f :
  Inv (fh f) -> SlotOk f -> hown f = fid f ->
  (forall b, In b (blocks (fh f)) -> acached (heap f (uid b)) = None) ->
  exists f', link_geom_data compat f = Ok f' /\ LinkInv compat f'.
Proof.
  intros HI HS Ho Hn. destruct (link_geom_data_establishes f HI HS Ho) as (f' & E & HL & _).
  - intros b Hb. left. auto.
  - eauto.
Qed.

(* ---- consequences of the invariant ---- *)
Lemma link_inv_owned f : LinkInv compat f ->
  forall b o w, In b (blocks (fh f)) -> acached (heap f (uid b)) = Some (o, w) ->
    o = fid f /\ In w (map uid (blocks (fh f))).
Proof.
  intros [_ HL] b o w Hb Hc. rewrite Forall_forall in HL.
  specialize (HL _ (block_in_view _ _ Hb)). unfold view_block, linked in HL.
  destruct (adslot (heap f (uid b))) as [k|].
  - destruct HL as [Hn|(w' & tw & cw & pw & _ & Hin & _ & Hc')]; [congruence|].
    rewrite Hc in Hc'. inversion Hc'; subst. split; [reflexivity|].
    destruct (view_in_block _ _ Hin) as (d & Hd & Hv). unfold view_block in Hv. inversion Hv; subst.
    apply in_map. exact Hd.
  - congruence.
Qed.

Lemma link_inv_stale_ok f : Inv (fh f) -> LinkInv compat f -> stale_ok f.
Proof.
  intros HI [_ HL] b Hb. rewrite Forall_forall in HL.
  specialize (HL _ (block_in_view _ _ Hb)). unfold view_block, linked in HL.
  destruct (adslot (heap f (uid b))) as [k|] eqn:Ek; [|left; exact HL].
  destruct HL as [Hn|(w & tw & cw & pw & Hg & Hin & Hc & Hca)]; [left; exact Hn|]. right.
  rewrite vget_map in Hg. destruct (vget (crefs b) k) as [r|] eqn:Hr; cbn in Hg; [|discriminate].
  inversion Hg as [Hres]. destruct (resolve_some _ _ _ Hres) as (Hn & d & Hd & Hu).
  exists k, r, d. repeat split; auto.
  destruct (view_in_block _ _ Hin) as (d' & Hd' & Hv). unfold view_block in Hv. inversion Hv; subst.
  assert (d = d') by (eapply uid_inj_in; eauto using in_vget, inv_uids). subst. exact Hc.
Qed.

(* ---- the copy ---- *)
Lemma Forall2_clone_types tn base : forall bl i ti,
  Forall2 (type_ok tn) bl ti -> Forall2 (type_ok tn) (clone_all base i bl) ti.
Proof.
  induction bl as [|b bl IH]; intros i ti H; inversion H; subst; cbn [clone_all]; constructor; auto.
Qed.

Lemma clone_all_block_ok n base : forall bl i,
  Forall (block_ok n) bl -> Forall (block_ok n) (clone_all base i bl).
Proof.
  induction bl as [|b bl IH]; intros i H; inversion H; subst; cbn [clone_all]; constructor; auto.
Qed.

Definition pre_link (me base : N) (f : file) : file :=
  let h := fh f in
  mkFile me (mkHdr (clone_all base 0 (blocks h)) (nblocks h) (tnames h) (ntypes h) (tidx h) (sizes h) (has_sizes h))
         me (fstrs f) (clone_heap base (blocks h) (heap f)).

Lemma pre_link_inv me base f : Inv (fh f) -> Inv (fh (pre_link me base f)).
Proof.
  intros [Hnb Hnt Hty Hnd Hused Hsz Huid Hrefs Hsmall]. unfold pre_link. cbn [fh].
  constructor; cbn [blocks nblocks tnames ntypes tidx sizes has_sizes]; rewrite ?clone_all_vlen; auto.
  - apply Forall2_clone_types. exact Hty.
  - intros H. rewrite clone_all_length. auto.
  - apply clone_all_nodup.
  - apply clone_all_block_ok. exact Hrefs.
Qed.

Lemma in_clone_all base bl b' : In b' (clone_all base 0 bl) ->
  exists j b, vget bl j = Some b /\ b' = mkBlock (base + j) (tname b) (crefs b) (ptrs b).
Proof.
  intros H. destruct (in_vget_ex _ _ H) as (j & Hj). rewrite clone_all_vget in Hj.
  destruct (vget bl j) as [b|] eqn:Eb; cbn in Hj; [|discriminate]. inversion Hj; subst.
  exists j, b. rewrite N.add_0_r. auto.
Qed.

Theorem copy_link_inv me base f :
  Inv (fh f) -> SlotOk f -> LinkInv compat f ->
  exists c, copy_from compat me base f = Ok c /\ LinkInv compat c /\ Inv (fh c) /\ fid c = me /\
            save_view c = save_view f.
Proof.
  intros HI HS HL.
  assert (E0 : copy_from compat me base f = link_geom_data compat (pre_link me base f)) by reflexivity.
  pose proof (pre_link_inv me base f HI) as HI'.
  pose proof (link_inv_stale_ok f HI HL) as Hst.
  destruct (link_geom_data_establishes (pre_link me base f) HI') as (c & E & HLc & Hh & Hf & _).
  - (* SlotOk of the clones *)
    intros b' k Hb' Hk. cbn [pre_link fh blocks heap] in *.
    destruct (in_clone_all _ _ _ Hb') as (j & b & Hj & ->). cbn [uid crefs] in *.
    rewrite (clone_heap_at _ _ _ _ _ Hj) in Hk. apply (HS b k); eauto using in_vget.
  - reflexivity.
  - (* every copied pointer is null or about to be overwritten *)
    intros b' Hb'. cbn [pre_link fh blocks heap] in *.
    destruct (in_clone_all _ _ _ Hb') as (j & b & Hj & ->). cbn [uid].
    rewrite (clone_heap_at _ _ _ _ _ Hj).
    destruct (Hst b (in_vget _ _ _ Hj)) as [Hn|(k & r & d & Hk & Hr & Hn & Hd & Hc)]; [left; exact Hn|]. right.
    exists k, r, (mkBlock (base + 0 + r) (tname d) (crefs d) (ptrs d)). cbn [uid crefs tname].
    rewrite (clone_heap_at _ _ _ _ _ Hj). repeat split; auto.
    rewrite clone_all_vget, Hd. reflexivity.
  - exists c. rewrite E0. split; [exact E|]. split; [exact HLc|]. split; [rewrite Hh; exact HI'|].
    split; [exact Hf|]. apply (copy_equal me base). rewrite E0. exact E.
Qed.

(* no pointer of the copy designates the source: its owner tag is the copy, its target is one of
   the copy's own objects, and those are new objects *)
Theorem copy_independent me base f c :
  Inv (fh f) -> SlotOk f -> LinkInv compat f -> me <> fid f ->
  (forall u, In u (map uid (blocks (fh f))) -> u < base) ->
  copy_from compat me base f = Ok c ->
  (forall b o w, In b (blocks (fh c)) -> acached (heap c (uid b)) = Some (o, w) ->
     o = me /\ o <> fid f /\ In w (map uid (blocks (fh c))) /\ ~ In w (map uid (blocks (fh f)))) /\
  (forall u, In u (map uid (blocks (fh c))) -> ~ In u (map uid (blocks (fh f)))) /\
  hown c = me.
Proof.
  intros HI HS HL Hne Hfresh E.
  destruct (copy_link_inv me base f HI HS HL) as (c' & E' & HLc & _ & Hf & _).
  rewrite E in E'. inversion E'; subst c'; clear E'.
  assert (Hblocks : blocks (fh c) = clone_all base 0 (blocks (fh f))).
  { unfold copy_from, link_geom_data in E. cbn [fh heap blocks nblocks hown fid fstrs] in E.
    destruct (link_loop _ _ _ _ _ _); cbn [bind] in E; try discriminate. inversion E; subst. reflexivity. }
  assert (Hdisj : forall u, In u (map uid (blocks (fh c))) -> ~ In u (map uid (blocks (fh f)))).
  { intros u Hu Hu'. rewrite Hblocks in Hu. apply clone_all_uids in Hu. specialize (Hfresh u Hu'). lia. }
  split; [|split; [exact Hdisj|]].
  - intros b o w Hb Hc. destruct (link_inv_owned c HLc b o w Hb Hc) as [-> Hw].
    rewrite Hf. repeat split; auto.
  - destruct HLc as [Ho _]. congruence.
Qed.

End CopyProofs.
