(* The cloneNodes walk returns (no fault, no exhausted fuel) on every source whose node tree below
   the walked node has finite depth, for any fuel above the depth; source = another model. *)
From NiflyVerif Require Import Res GraphModel GraphInv GraphDelete GraphAdd GraphOrder CopyModel CopyProofs CloneModel CloneProofs CloneExtras CloneHier CloneHierProofs.
From Coq Require Import ZifyBool ZifyNat ZifyN.
Local Open Scope N_scope.

(* block i is a node *)
Definition node_at (f : file) (i : N) : Prop := exists x, obs f i = Some x /\ anode (snd x) <> None.

Lemma node_at_lt f i : node_at f i -> i < vlen (blocks (fh f)).
Proof. intros (x & Hx & _). eapply obs_some_lt; eauto. Qed.

Lemma ext_node_at st st' i : Ext st st' -> node_at (cfile st) i -> node_at (cfile st') i.
Proof.
  intros (_ & _ & _ & _ & _ & H) (x & Hx & Hn). destruct (H i x Hx) as (x' & Hx' & K).
  exists x'. split; [exact Hx'|]. destruct K as (_ & _ & _ & _ & _ & _ & _ & _ & _ & K).
  destruct (anode (snd x)) as [[[[s l] cl] cs]|] eqn:E; [|congruence].
  destruct (K _ _ _ _ eq_refl) as (l' & cl' & ->). discriminate.
Qed.

Lemma node_at_block f i : node_at f i ->
  exists b s l cl cs, vget (blocks (fh f)) i = Some b /\ anode (heap f (uid b)) = Some (s, l, cl, cs).
Proof.
  intros ([b a] & Hx & Hn). apply obs_iff in Hx. destruct Hx as [Hg ->]. cbn [snd] in Hn.
  destruct (anode (heap f (uid b))) as [[[[s l] cl] cs]|] eqn:E; [|congruence]. exists b, s, l, cl, cs. auto.
Qed.

Lemma ptarget_node d root o : node_at d root -> node_at d (ptarget d root o).
Proof.
  intros H. unfold ptarget. destruct o as [pn|]; [|exact H]. destruct (find_node d pn) as [[pi b]|] eqn:E; [|exact H].
  destruct (find_node_some _ _ _ _ E) as (Hg & Hn & _). exists (b, heap d (uid b)). split; [apply obs_iff; auto|].
  cbn [snd]. unfold is_node in Hn. destruct (anode (heap d (uid b))); [discriminate|discriminate Hn].
Qed.

Section Total.
Variable s : file.
Hypothesis Hsw : SrcWin s.
Hypothesis Hnb : nblocks (fh s) <= vlen (blocks (fh s)).
Hypothesis Hnamed : forall i b, vget (blocks (fh s)) i = Some b -> is_node s b = true -> name_of s b <> None.
Variable root : N.

Lemma add_child_node_ok f pt id : node_at f pt -> exists f', add_child f pt id = Ok f'.
Proof. intros H. destruct (node_at_block _ _ H) as (b & s0 & l & cl & cs & Hg & Ha). eapply add_child_ok; eauto. Qed.

Lemma step_total st sn snb :
  HWF st -> node_at (cfile st) root -> vget (blocks (fh s)) sn = Some snb -> is_node s snb = true ->
  exists st' ks, clone_node_step (Some s) st root sn = Ok (st', ks).
Proof.
  intros HH Hroot Hsn Hn. rewrite clone_node_step_eq. cbn [src_of]. cbv zeta. rewrite Hsn.
  destruct (name_of s snb) as [bone|] eqn:Eb; [|exfalso; exact (Hnamed _ _ Hsn Hn Eb)].
  pose proof (ptarget_node (cfile st) root (spn s sn) Hroot) as Hpt.
  set (pt := ptarget (cfile st) root (spn s sn)) in *.
  destruct (find_node (cfile st) bone) as [[bid b]|] eqn:Ef.
  - destruct (get_parent (cfile st) bid) as [[opi ob]|] eqn:Egp; [|cbn [bind src_of]; eauto].
    destruct (negb (opi =? pt) && negb (pt =? root))%bool eqn:Ec; [|cbn [bind src_of]; eauto].
    apply andb_true_iff in Ec. destruct Ec as [Ec _]. apply negb_true_iff in Ec. apply N.eqb_neq in Ec.
    destruct (get_parent_some _ _ _ _ Egp) as (Hgo & _).
    destruct (upd_block_ok (cfile st) opi (clear_refs_to bid) ob Hgo) as (f1 & E1). rewrite E1. cbn [bind].
    destruct (clear_spec _ _ _ _ E1) as (_ & _ & _ & Hk & _).
    assert (Hpt1 : node_at f1 pt).
    { destruct Hpt as (x & Hx & Hxn). exists x. split; [rewrite Hk; auto|exact Hxn]. }
    destruct (add_child_node_ok f1 pt bid Hpt1) as (f2 & ->). cbn [bind src_of]. eauto.
  - assert (Hpt1 : forall st1 bid, clone_named_node (Some s) st bone = (st1, bid) -> node_at (cfile st1) pt).
    { intros st1 bid Ec. unfold clone_named_node in Ec. cbn [src_of] in Ec.
      destruct (find_node s bone) as [[i sb]|]; [|inversion Ec; subst; exact Hpt].
      destruct (anode (heap s (uid sb))) as [[[[s0 l0] cl] cs]|]; [|inversion Ec; subst; exact Hpt].
      match type of Ec with add_object st ?tn ?cr ?pp ?a = _ =>
        pose proof (add_object_obs st tn cr pp a (h_wf _ HH)) as Ho; cbv zeta in Ho; rewrite Ec in Ho; cbn [fst] in Ho end.
      destruct Ho as (Ho & _). destruct Hpt as (x & Hx & Hxn). exists x. split; [|exact Hxn].
      rewrite Ho; [exact Hx|]. eapply obs_some_lt; eauto. }
    destruct (clone_named_node (Some s) st bone) as [st1 bid] eqn:Ec.
    destruct (add_child_node_ok (cfile st1) pt bid (Hpt1 st1 bid eq_refl)) as (f2 & ->). cbn [bind src_of]. eauto.
Qed.

(* the node tree below a source node has depth at most d *)
Fixpoint sfin (d : nat) (sn : N) : Prop :=
  match d with
  | O => False
  | S d' => forall k, In k (kids_at s sn) -> src_node s k = true -> sfin d' k
  end.

Lemma src_get_total k : exists o, src_get s k = Ok o.
Proof.
  unfold src_get. destruct (negb (k =? NPOS) && (k <? nblocks (fh s)))%bool eqn:E; [|eauto].
  apply andb_true_iff in E. destruct E as [_ E]. apply N.ltb_lt in E.
  destruct (vget_lt (blocks (fh s)) k ltac:(lia)) as (b & ->). eauto.
Qed.

Lemma after_run st vs st' :
  Run s root st vs st' -> HWF st -> node_at (cfile st) root -> HWF st' /\ node_at (cfile st') root.
Proof.
  intros HR HH Hr. pose proof (run_steps s Hsw root _ _ _ HR HH (node_at_lt _ _ Hr)) as HS.
  split; [exact (proj1 (steps_hwf s root _ _ _ HS))|]. eapply ext_node_at; [eapply steps_ext; eauto|exact Hr].
Qed.

Lemma walk_total f
  (IH : forall st sn snb, HWF st -> node_at (cfile st) root -> vget (blocks (fh s)) sn = Some snb ->
          is_node s snb = true -> sfin f sn -> exists st', clone_nodes (Some s) f st root sn = Ok st') :
  forall ks st, HWF st -> node_at (cfile st) root ->
  (forall k, In k ks -> src_node s k = true -> sfin f k) ->
  exists st', walk_kids (Some s) (fun st k => clone_nodes (Some s) f st root k) ks st = Ok st'.
Proof.
  induction ks as [|k ks IHk]; intros st HH Hr Hf; cbn [walk_kids]; [eauto|]. cbn [src_of].
  assert (Hf' : forall k', In k' ks -> src_node s k' = true -> sfin f k') by (intros; apply Hf; [right|]; auto).
  destruct (src_get_total k) as (o & Eg). pose proof (Hf k (or_introl eq_refl)) as Hk. unfold src_node in Hk.
  rewrite Eg in *. cbn [bind]. destruct o as [kb|]; [|apply IHk; auto].
  destruct (is_node s kb) eqn:En; [|apply IHk; auto].
  pose proof (src_get_some _ _ _ Eg) as Hkb.
  destruct (IH st k kb HH Hr Hkb En (Hk eq_refl)) as (st1 & E1). rewrite E1. cbn [bind].
  destruct (after_run _ _ _ (clone_nodes_run s root f st k kb st1 Hkb En E1) HH Hr) as (HH1 & Hr1).
  apply IHk; auto.
Qed.

Theorem clone_nodes_total : forall fuel st sn snb,
  HWF st -> node_at (cfile st) root -> vget (blocks (fh s)) sn = Some snb -> is_node s snb = true ->
  sfin fuel sn -> exists st', clone_nodes (Some s) fuel st root sn = Ok st'.
Proof.
  induction fuel as [|f IH]; intros st sn snb HH Hr Hsn Hn Hfin; [contradiction|].
  rewrite clone_nodes_unfold.
  destruct (step_total st sn snb HH Hr Hsn Hn) as (st1 & ks & Es). rewrite Es. cbn [bind].
  assert (HR : Run s root st [sn] st1) by (econstructor; eauto; constructor).
  destruct (after_run _ _ _ HR HH Hr) as (HH1 & Hr1).
  rewrite (step_kids s root _ _ _ _ _ Hsn Es). apply (walk_total f IH); auto.
  intros k Hk Hsk. cbn [sfin] in Hfin. apply (Hfin k); [|exact Hsk]. unfold kids_at. rewrite Hsn. exact Hk.
Qed.

Theorem walk_kids_total fuel ks st :
  HWF st -> node_at (cfile st) root ->
  (forall k, In k ks -> src_node s k = true -> sfin fuel k) ->
  exists st', walk_kids (Some s) (fun st k => clone_nodes (Some s) fuel st root k) ks st = Ok st'.
Proof. apply walk_total. intros. eapply clone_nodes_total; eauto. Qed.

End Total.
