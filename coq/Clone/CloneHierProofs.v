(* What the cloneNodes walk of CloneShape (src/NifFile.cpp:1373-1426) leaves in the destination, for
   every source and destination model (no size bound), source = ANOTHER model:
     - the walk is the sequence of cloneNodes steps over the pre-order listing of the source's node
       tree below the source root ([clone_nodes_run], [walk_run]);
     - nothing that existed is removed, renamed or has its pointers / strings / payload changed, blocks
       that are not nodes are left exactly as they were ([run_ext]);
     - every visited source node's name exists afterwards ([run_found]); the created nodes carry
       pairwise different names that no other block of the destination carries ([run_new_unique]);
     - a created node hangs under the first destination node named like its source parent, the root
       otherwise ([run_new_parent]);
     - only nodes that carry the name of a visited source node can change parent ([run_parent_kept]);
     - the created nodes reference destination blocks only ([run_closed], [run_new_ptrs]).
   Source = the destination itself: with pairwise different node names the walk changes nothing
   ([same_model_identity]). *)
From NiflyVerif Require Import Res GraphModel GraphInv GraphDelete GraphAdd GraphOrder CopyModel CopyProofs CloneModel CloneProofs CloneExtras CloneHier.
From Coq Require Import ZifyBool ZifyNat ZifyN.
Local Open Scope N_scope.

(* ---------------------------------------------------------------------------------------- *)
(* the walk over the children of a source node, named *)
Definition walk_kids (src : option file) (rec : cst -> N -> res cst) : list N -> cst -> res cst :=
  fix go (ks : list N) (st : cst) : res cst :=
    match ks with
    | [] => Ok st
    | k :: ks' =>
      bind (src_get (src_of src st) k) (fun o =>
        match o with
        | Some kb => if is_node (src_of src st) kb
                     then bind (rec st k) (fun st' => go ks' st')
                     else go ks' st
        | None => go ks' st
        end)
    end.

(* it IS the model's term *)
Lemma clone_nodes_unfold src fuel st root sn :
  clone_nodes src (S fuel) st root sn =
  bind (clone_node_step src st root sn) (fun r =>
    let '(st1, kids) := r in walk_kids src (fun st k => clone_nodes src fuel st root k) kids st1).
Proof. reflexivity. Qed.

(* the pre-order listing of the nodes below (and including) a source node *)
Definition src_node (s : file) (k : N) : bool :=
  match src_get s k with Ok (Some kb) => is_node s kb | _ => false end.
Fixpoint src_nodes (fuel : nat) (s : file) (sn : N) : list N :=
  match fuel with
  | O => []
  | S f => sn :: flat_map (fun k => if src_node s k then src_nodes f s k else []) (kids_at s sn)
  end.
Definition src_walk (fuel : nat) (s : file) (ks : list N) : list N :=
  flat_map (fun k => if src_node s k then src_nodes fuel s k else []) ks.

Lemma src_get_some s k kb : src_get s k = Ok (Some kb) -> vget (blocks (fh s)) k = Some kb.
Proof.
  unfold src_get. destruct (negb (k =? NPOS) && (k <? nblocks (fh s)))%bool; [|discriminate].
  destruct (vget (blocks (fh s)) k); [|discriminate]. intros H. inversion H. reflexivity.
Qed.

Section Other.
Variable s : file.
Variable root : N.

(* a run: the cloneNodes steps for a list of source nodes, one after the other *)
Inductive Run : cst -> list N -> cst -> Prop :=
| Run_nil st : Run st [] st
| Run_cons st sn snb st1 ks vs st' :
    vget (blocks (fh s)) sn = Some snb -> is_node s snb = true ->
    clone_node_step (Some s) st root sn = Ok (st1, ks) ->
    Run st1 vs st' -> Run st (sn :: vs) st'.

Lemma Run_app st1 vs1 st2 vs2 st3 : Run st1 vs1 st2 -> Run st2 vs2 st3 -> Run st1 (vs1 ++ vs2) st3.
Proof. induction 1; intros HR; cbn [app]; [exact HR|]. econstructor; eauto. Qed.

Lemma step_kids st sn snb st1 ks :
  vget (blocks (fh s)) sn = Some snb -> clone_node_step (Some s) st root sn = Ok (st1, ks) -> ks = node_children s snb.
Proof.
  intros Hsn E. rewrite clone_node_step_eq in E. cbn [src_of] in E. cbv zeta in E. rewrite Hsn in E.
  destruct (name_of s snb); [|discriminate].
  match type of E with bind ?M _ = _ => destruct M as [stx| |] end; cbn [bind] in E; try discriminate.
  inversion E. reflexivity.
Qed.

Lemma walk_run f
  (IH : forall st sn snb st', vget (blocks (fh s)) sn = Some snb -> is_node s snb = true ->
          clone_nodes (Some s) f st root sn = Ok st' -> Run st (src_nodes f s sn) st') :
  forall ks st st',
  walk_kids (Some s) (fun st k => clone_nodes (Some s) f st root k) ks st = Ok st' ->
  Run st (src_walk f s ks) st'.
Proof.
  induction ks as [|k ks IHk]; intros st st' E; cbn [walk_kids] in E.
  - inversion E. constructor.
  - cbn [src_of] in E. unfold src_walk. cbn [flat_map]. fold (src_walk f s ks). unfold src_node.
    destruct (src_get s k) as [[kb|]| |] eqn:Eg; cbn [bind] in E; try discriminate.
    + destruct (is_node s kb) eqn:En.
      * destruct (clone_nodes (Some s) f st root k) as [st1| |] eqn:Ec; cbn [bind] in E; try discriminate.
        eapply Run_app; [|apply IHk; exact E]. eapply IH; eauto. apply src_get_some. exact Eg.
      * cbn [app]. apply IHk. exact E.
    + cbn [app]. apply IHk. exact E.
Qed.

Theorem clone_nodes_run : forall fuel st sn snb st',
  vget (blocks (fh s)) sn = Some snb -> is_node s snb = true ->
  clone_nodes (Some s) fuel st root sn = Ok st' -> Run st (src_nodes fuel s sn) st'.
Proof.
  induction fuel as [|f IH]; intros st sn snb st' Hsn Hn E; [discriminate|].
  rewrite clone_nodes_unfold in E.
  destruct (clone_node_step (Some s) st root sn) as [[st1 ks]| |] eqn:Es; cbn [bind] in E; try discriminate.
  cbn [src_nodes]. econstructor; eauto.
  rewrite (step_kids _ _ _ _ _ Hsn Es) in E. unfold kids_at. rewrite Hsn.
  apply (walk_run f IH). exact E.
Qed.

Theorem walk_kids_run fuel ks st st' :
  walk_kids (Some s) (fun st k => clone_nodes (Some s) fuel st root k) ks st = Ok st' ->
  Run st (src_walk fuel s ks) st'.
Proof. apply walk_run. intros. eapply clone_nodes_run; eauto. Qed.

End Other.

(* ---------------------------------------------------------------------------------------- *)
(* what a step may change of a block that exists: nothing but, for a node, its reference list and
   the bookkeeping of where childRefs sits in it *)
Definition keeps (x x' : block * aux) : Prop :=
  uid (fst x') = uid (fst x) /\ tname (fst x') = tname (fst x) /\ ptrs (fst x') = ptrs (fst x) /\
  astrs (snd x') = astrs (snd x) /\ atok (snd x') = atok (snd x) /\ acached (snd x') = acached (snd x) /\
  anamepos (snd x') = anamepos (snd x) /\ abones (snd x') = abones (snd x) /\
  (anode (snd x) = None -> x' = x) /\
  (forall s l cl cs, anode (snd x) = Some (s, l, cl, cs) -> exists l' cl', anode (snd x') = Some (s, l', cl', cs)).

Lemma keeps_refl x : keeps x x.
Proof. unfold keeps. repeat split; auto. intros. eauto. Qed.

Lemma keeps_trans x y z : keeps x y -> keeps y z -> keeps x z.
Proof.
  intros (A1 & A2 & A3 & A4 & A5 & A6 & A7 & A8 & A9 & A10) (B1 & B2 & B3 & B4 & B5 & B6 & B7 & B8 & B9 & B10).
  unfold keeps. repeat split; try congruence.
  - intros H. specialize (A9 H). subst y. auto.
  - intros s l cl cs H. destruct (A10 _ _ _ _ H) as (l' & cl' & H'). eauto.
Qed.

Lemma keeps_name x x' : keeps x x' -> x_name x' = x_name x.
Proof.
  intros (_ & _ & _ & A4 & _ & _ & A7 & _ & A9 & A10). unfold x_name.
  destruct (anode (snd x)) as [[[[s l] cl] cs]|] eqn:E.
  - destruct (A10 _ _ _ _ eq_refl) as (l' & cl' & ->). rewrite A4, A7. reflexivity.
  - rewrite (A9 eq_refl), E. reflexivity.
Qed.

Definition Ext (st st' : cst) : Prop :=
  vlen (bl st) <= vlen (bl st') /\ cnext st <= cnext st' /\
  fstrs (cfile st') = fstrs (cfile st) /\ fid (cfile st') = fid (cfile st) /\ hown (cfile st') = hown (cfile st) /\
  forall i x, obs (cfile st) i = Some x -> exists x', obs (cfile st') i = Some x' /\ keeps x x'.

Lemma ext_refl st : Ext st st.
Proof. unfold Ext. repeat split; auto; try lia. intros i x H. exists x. split; [exact H|apply keeps_refl]. Qed.

Lemma ext_trans a b c : Ext a b -> Ext b c -> Ext a c.
Proof.
  intros (A1 & A2 & A3 & A4 & A5 & A6) (B1 & B2 & B3 & B4 & B5 & B6). unfold Ext.
  repeat split; try lia; try congruence.
  intros i x H. destruct (A6 i x H) as (y & Hy & Ky). destruct (B6 i y Hy) as (z & Hz & Kz).
  exists z. split; [exact Hz|eapply keeps_trans; eauto].
Qed.

Lemma obs_none f i : vlen (blocks (fh f)) <= i -> obs f i = None.
Proof.
  intros H. unfold obs. destruct (vget (blocks (fh f)) i) eqn:E; [|reflexivity].
  pose proof (vget_some_lt _ _ _ E). lia.
Qed.

Lemma obs_lt f i : i < vlen (blocks (fh f)) -> exists x, obs f i = Some x.
Proof. intros H. unfold obs. destruct (vget_lt _ _ H) as (b & ->). eauto. Qed.

Lemma ext_name st st' i : Ext st st' -> i < vlen (bl st) -> node_name_at (cfile st') i = node_name_at (cfile st) i.
Proof.
  intros (_ & _ & _ & _ & _ & H) Hi. rewrite !node_name_at_obs. destruct (obs_lt _ _ Hi) as (x & Hx). rewrite Hx.
  destruct (H i x Hx) as (x' & -> & K). apply keeps_name. exact K.
Qed.

Lemma ext_name_some st st' i n : Ext st st' -> node_name_at (cfile st) i = Some n -> node_name_at (cfile st') i = Some n.
Proof. intros HE H. rewrite (ext_name st st' i HE); [exact H|]. eapply node_name_at_lt; eauto. Qed.

(* ---- views of the two changing cases ---- *)
Definition crefs_at (f : file) (i : N) : list N := match vget (blocks (fh f)) i with Some b => crefs b | None => [] end.
Definition ptrs_at (f : file) (i : N) : list N := match vget (blocks (fh f)) i with Some b => ptrs b | None => [] end.
Lemma crefs_at_obs f i : crefs_at f i = match obs f i with Some x => crefs (fst x) | None => [] end.
Proof. unfold crefs_at, obs. destruct (vget (blocks (fh f)) i); reflexivity. Qed.
Lemma ptrs_at_obs f i : ptrs_at f i = match obs f i with Some x => ptrs (fst x) | None => [] end.
Proof. unfold ptrs_at, obs. destruct (vget (blocks (fh f)) i); reflexivity. Qed.

Definition clear1 (bid r : N) : N := if r =? bid then NPOS else r.

Lemma x_kids_bins pb pa s l cl cs id : anode pa = Some (s, l, cl, cs) -> s + l <= vlen (crefs pb) ->
  x_kids (bins pb (s + l) id, abump pa s l cl cs) = x_kids (pb, pa) ++ [id].
Proof.
  intros Ha Hw. unfold x_kids, bins, abump. cbn [fst snd anode crefs]. rewrite Ha. unfold insert_at.
  replace (N.to_nat (l + 1)) with (S (N.to_nat l)) by lia. replace (N.to_nat (s + l)) with (N.to_nat s + N.to_nat l)%nat by lia.
  apply window_insert. unfold vlen in Hw. lia.
Qed.

Lemma x_kids_clear ob oa bid : x_kids (clear_refs_to bid ob, oa) = map (clear1 bid) (x_kids (ob, oa)).
Proof.
  unfold x_kids, clear_refs_to. cbn [fst snd crefs]. destruct (anode oa) as [[[[s l] cl] cs]|]; [|reflexivity].
  rewrite skipn_map, firstn_map. reflexivity.
Qed.

Lemma keeps_bins pb pa s l cl cs id : anode pa = Some (s, l, cl, cs) ->
  keeps (pb, pa) (bins pb (s + l) id, abump pa s l cl cs).
Proof.
  intros Ha. unfold keeps, bins, abump. cbn [fst snd uid tname ptrs astrs atok acached anamepos abones anode].
  repeat split; auto.
  - rewrite Ha. discriminate.
  - intros s' l' cl' cs' H. rewrite Ha in H. injection H as <- <- <- <-. eauto.
Qed.

Lemma keeps_clear ob oa bid : anode oa <> None -> keeps (ob, oa) (clear_refs_to bid ob, oa).
Proof.
  intros Ha. unfold keeps, clear_refs_to. cbn [fst snd uid tname ptrs]. repeat split; auto.
  - intros H. contradiction.
  - intros. eauto.
Qed.

Section Views.
Variables (st st' : cst).
Let d := cfile st.
Let d' := cfile st'.
Let L := vlen (bl st).

Lemma created_view pt bone srcx :
  HWF st -> Created st st' pt bone srcx ->
  Ext st st' /\ vlen (bl st') = L + 1 /\ pt < L /\
  node_name_at d' L = Some bone /\
  kids_at d' pt = kids_at d pt ++ [L] /\ kids_at d' L = [] /\
  (forall k, k <> pt -> k <> L -> kids_at d' k = kids_at d k) /\
  (forall y, In y (crefs_at d' pt) <-> y = L \/ In y (crefs_at d pt)) /\
  Forall (fun r => r = NPOS) (crefs_at d' L) /\ Forall (fun r => r = NPOS) (ptrs_at d' L) /\
  (forall k, k <> pt -> k <> L -> crefs_at d' k = crefs_at d k).
Proof.
  intros HH (Hpt & HL & Hcn & Hs & Hf & Ho & Hk & (pb & pa & s0 & l & cl & cs & Hop & Hpa & Hop') &
             (nb & na & Hon & Hu & Ht & Hcr & Hpr & _ & _ & _ & _ & _ & (cl2 & cs2 & Hna) & Hnm)).
  fold d d' L in Hpt, HL, Hs, Hf, Ho, Hk, Hop, Hop', Hon.
  assert (Hw : s0 + l <= vlen (crefs pb)).
  { apply obs_iff in Hop. destruct Hop as [Hg ->]. exact (h_win _ HH pt pb s0 l cl cs Hg Hpa). }
  assert (Hother : forall k, k <> pt -> k <> L -> obs d' k = obs d k).
  { intros k H1 H2. destruct (N.lt_ge_cases k L) as [Hlt|Hge]; [apply Hk; auto|].
    rewrite !obs_none; auto; unfold d, d'; fold (bl st) (bl st'); fold L; lia. }
  split; [|split; [exact HL|split; [exact Hpt|split; [|split; [|split; [|split; [|split; [|split; [|split]]]]]]]]].
  - unfold Ext. fold d d' L. repeat split; try lia; auto.
    intros i x Hx. pose proof (obs_some_lt _ _ _ Hx) as Hi. fold (bl st) in Hi. fold L in Hi.
    destruct (N.eq_dec i pt) as [->|Hne].
    + rewrite Hop in Hx. injection Hx as <-. eexists. split; [exact Hop'|]. apply keeps_bins. exact Hpa.
    + exists x. split; [rewrite Hk; auto|apply keeps_refl].
  - rewrite node_name_at_obs. rewrite Hon. exact Hnm.
  - rewrite !kids_at_obs. rewrite Hop, Hop'. apply x_kids_bins; auto.
  - rewrite kids_at_obs, Hon. unfold x_kids. cbn [snd]. rewrite Hna. reflexivity.
  - intros k H1 H2. rewrite !kids_at_obs, Hother; auto.
  - intros y. rewrite !crefs_at_obs, Hop, Hop'. cbn [fst bins crefs]. apply insert_at_in.
  - rewrite crefs_at_obs, Hon. exact Hcr.
  - rewrite ptrs_at_obs, Hon. exact Hpr.
  - intros k H1 H2. rewrite !crefs_at_obs, Hother; auto.
Qed.

Lemma moved_view opi pt bid :
  HWF st -> Moved st st' opi pt bid ->
  Ext st st' /\ vlen (bl st') = L /\ pt < L /\ opi < L /\ bid < L /\ opi <> pt /\
  kids_at d' opi = map (clear1 bid) (kids_at d opi) /\
  kids_at d' pt = kids_at d pt ++ [bid] /\
  (forall k, k <> opi -> k <> pt -> kids_at d' k = kids_at d k) /\
  crefs_at d' opi = map (clear1 bid) (crefs_at d opi) /\
  (forall y, In y (crefs_at d' pt) <-> y = bid \/ In y (crefs_at d pt)) /\
  (forall k, k <> opi -> k <> pt -> crefs_at d' k = crefs_at d k).
Proof.
  intros HH (Hpt & Hopi & Hbid & Hne & HL & Hcn & Hs & Hf & Ho & Hk & (ob & oa & Hoo & Hoa & Hoo') &
             (pb & pa & s0 & l & cl & cs & Hop & Hpa & Hop')).
  fold d d' L in Hpt, Hopi, Hbid, HL, Hs, Hf, Ho, Hk, Hoo, Hoo', Hop, Hop'.
  assert (Hw : s0 + l <= vlen (crefs pb)).
  { apply obs_iff in Hop. destruct Hop as [Hg ->]. exact (h_win _ HH pt pb s0 l cl cs Hg Hpa). }
  split; [|repeat split; auto].
  - unfold Ext. fold d d' L. repeat split; try lia; auto.
    intros i x Hx. destruct (N.eq_dec i pt) as [->|Hn1]; [|destruct (N.eq_dec i opi) as [->|Hn2]].
    + rewrite Hop in Hx. injection Hx as <-. eexists. split; [exact Hop'|]. apply keeps_bins. exact Hpa.
    + rewrite Hoo in Hx. injection Hx as <-. eexists. split; [exact Hoo'|]. apply keeps_clear. exact Hoa.
    + exists x. split; [rewrite Hk; auto|apply keeps_refl].
  - rewrite !kids_at_obs, Hoo, Hoo'. apply x_kids_clear.
  - rewrite !kids_at_obs, Hop, Hop'. apply x_kids_bins; auto.
  - intros k H1 H2. rewrite !kids_at_obs, Hk; auto.
  - rewrite !crefs_at_obs, Hoo, Hoo'. reflexivity.
  - rewrite !crefs_at_obs, Hop, Hop'. cbn [fst bins crefs]. apply insert_at_in.
  - rewrite !crefs_at_obs, Hop, Hop'. cbn [fst bins crefs]. apply insert_at_in.
  - intros k H1 H2. rewrite !crefs_at_obs, Hk; auto.
Qed.
End Views.

Lemma in_map_clear1 bid c l : c <> bid -> c <> NPOS -> (In c (map (clear1 bid) l) <-> In c l).
Proof.
  intros H1 H2. rewrite in_map_iff. unfold clear1. split.
  - intros (r & Hr & Hin). destruct (N.eqb_spec r bid); [congruence|]. subst. exact Hin.
  - intros Hin. exists c. split; [|exact Hin]. destruct (N.eqb_spec c bid); [congruence|reflexivity].
Qed.

Lemma in_map_clear1_fwd bid c l : c <> bid -> In c l -> In c (map (clear1 bid) l).
Proof.
  intros H1 Hin. apply in_map_iff. exists c. split; [|exact Hin]. unfold clear1. destruct (N.eqb_spec c bid); [congruence|reflexivity].
Qed.

Lemma ext_ptrs st st' i : Ext st st' -> i < vlen (bl st) -> ptrs_at (cfile st') i = ptrs_at (cfile st) i.
Proof.
  intros (_ & _ & _ & _ & _ & H) Hi. rewrite !ptrs_at_obs. destruct (obs_lt _ _ Hi) as (x & Hx). rewrite Hx.
  destruct (H i x Hx) as (x' & -> & (_ & _ & K & _)). exact K.
Qed.

(* ---------------------------------------------------------------------------------------- *)
Section Theorems.
Variable s : file.
Hypothesis Hsw : SrcWin s.
Variable root : N.

Lemma cases_inv st st1 sn bone :
  HWF st -> StepCases s st st1 root sn bone ->
  Ext st st1 /\
  ((find_node (cfile st) bone = None /\ vlen (bl st1) = vlen (bl st) + 1 /\
    node_name_at (cfile st1) (vlen (bl st)) = Some bone) \/
   (find_node (cfile st) bone <> None /\ vlen (bl st1) = vlen (bl st))).
Proof.
  intros HH [(Hf & i & sb & _ & HC)|[(bid & b & opi & ob & Hf & _ & _ & _ & HM)|(Hf & ->)]].
  - destruct (created_view _ _ _ _ _ HH HC) as (HE & HL & _ & Hn & _). split; [exact HE|]. left. auto.
  - destruct (moved_view _ _ _ _ _ HH HM) as (HE & HL & _). split; [exact HE|]. right. split; [congruence|exact HL].
  - split; [apply ext_refl|]. right. auto.
Qed.

Lemma cases_found st st1 sn bone :
  HWF st -> StepCases s st st1 root sn bone -> exists i, node_name_at (cfile st1) i = Some bone.
Proof.
  intros HH HC. destruct (cases_inv _ _ _ _ HH HC) as (HE & [(_ & _ & Hn)|(Hf & _)]); [eauto|].
  destruct (find_node (cfile st) bone) as [[bid b]|] eqn:E; [|congruence].
  destruct (find_node_some _ _ _ _ E) as (_ & _ & _ & Hn & _). exists bid. eapply ext_name_some; eauto.
Qed.

(* the steps of a run, with the invariant at every step *)
Inductive Steps : cst -> list N -> cst -> Prop :=
| Steps_nil st : HWF st -> root < vlen (bl st) -> Steps st [] st
| Steps_cons st sn bone st1 vs st' :
    HWF st -> root < vlen (bl st) -> node_name_at s sn = Some bone ->
    StepCases s st st1 root sn bone -> Steps st1 vs st' -> Steps st (sn :: vs) st'.

Theorem run_steps st vs st' : Run s root st vs st' -> HWF st -> root < vlen (bl st) -> Steps st vs st'.
Proof.
  induction 1 as [st|st sn snb st1 ks vs st' Hsn Hn E HR IH]; intros HH Hr; [constructor; auto|].
  destruct (step_other s Hsw st root sn snb st1 ks HH Hr Hsn Hn E) as (_ & HH1 & bone & Hb & HC).
  destruct (cases_inv _ _ _ _ HH HC) as ((HL & _) & _).
  econstructor; eauto.
  - unfold node_name_at. rewrite Hsn, Hn. exact Hb.
  - apply IH; [exact HH1|lia].
Qed.

Lemma steps_app_inv vs1 : forall st vs2 st', Steps st (vs1 ++ vs2) st' -> exists stm, Steps st vs1 stm /\ Steps stm vs2 st'.
Proof.
  induction vs1 as [|sn vs1 IH]; intros st vs2 st' H; cbn [app] in H.
  - exists st. split; [|exact H]. inversion H; subst; constructor; auto.
  - inversion H; subst. destruct (IH _ _ _ H8) as (stm & Ha & Hb). exists stm. split; [|exact Hb]. econstructor; eauto.
Qed.

(* (c) nothing that existed is removed, renamed or otherwise rewritten; the invariant holds at the end *)
Theorem steps_ext st vs st' : Steps st vs st' -> Ext st st'.
Proof.
  induction 1 as [st|st sn bone st1 vs st' HH Hr Hb HC HS IH]; [apply ext_refl|].
  destruct (cases_inv _ _ _ _ HH HC) as (HE & _). eapply ext_trans; eauto.
Qed.

Theorem steps_hwf st vs st' : Steps st vs st' -> HWF st' /\ root < vlen (bl st').
Proof. induction 1; auto. Qed.

(* (a) every visited source node's name is carried by a node of the destination afterwards *)
Theorem steps_found st vs st' : Steps st vs st' ->
  forall sn bone, In sn vs -> node_name_at s sn = Some bone -> find_node (cfile st') bone <> None.
Proof.
  induction 1 as [st|st sn0 bone0 st1 vs st' HH Hr Hb HC HS IH]; intros sn bone Hin Hn; [contradiction|].
  destruct Hin as [->|Hin]; [|eauto].
  assert (bone0 = bone) by congruence. subst bone0.
  destruct (cases_found _ _ _ _ HH HC) as (i & Hi).
  apply (find_node_found _ _ i). eapply ext_name_some; [eapply steps_ext; eauto|exact Hi].
Qed.

(* (a) "exactly once": every block appended by the walk is a node that carries the name of a visited
   source node, and NO other block of the destination carries that name *)
Theorem steps_new_unique st vs st' : Steps st vs st' ->
  forall n, vlen (bl st) <= n < vlen (bl st') ->
  exists sn bone, In sn vs /\ node_name_at s sn = Some bone /\
    node_name_at (cfile st') n = Some bone /\
    (forall i, node_name_at (cfile st') i = Some bone -> i = n).
Proof.
  induction 1 as [st|st sn0 bone0 st1 vs st' HH Hr Hb HC HS IH]; intros n Hn; [lia|].
  pose proof (steps_ext _ _ _ HS) as HE1.
  destruct (N.lt_ge_cases n (vlen (bl st1))) as [Hlt|Hge].
  - (* created by this very step *)
    destruct (cases_inv _ _ _ _ HH HC) as (HE & [(Hf & HL & Hnm)|(_ & HL)]); [|lia].
    assert (n = vlen (bl st)) by lia. subst n.
    exists sn0, bone0. split; [left; reflexivity|]. split; [exact Hb|]. split; [eapply ext_name_some; eauto|].
    intros i Hi. destruct (N.lt_ge_cases i (vlen (bl st1))) as [Hi1|Hi1].
    + rewrite (ext_name _ _ i HE1 Hi1) in Hi.
      destruct (N.eq_dec i (vlen (bl st))) as [->|Hne]; [reflexivity|]. exfalso.
      assert (Hi0 : i < vlen (bl st)) by lia. rewrite (ext_name _ _ i HE Hi0) in Hi.
      exact (find_node_none _ _ Hf i Hi).
    + exfalso. pose proof (node_name_at_lt _ _ _ Hi) as Hi'. fold (bl st') in Hi'.
      destruct (IH i ltac:(lia)) as (sn' & bone' & _ & _ & Hnm' & Hu). rewrite Hi in Hnm'. injection Hnm' as <-.
      assert (Hx : node_name_at (cfile st') (vlen (bl st)) = Some bone0) by (eapply ext_name_some; eauto).
      specialize (Hu _ Hx). lia.
  - destruct (IH n ltac:(lia)) as (sn' & bone' & Hin & H1 & H2 & H3). exists sn', bone'. split; [right; exact Hin|auto].
Qed.

(* a name that is absent and not visited stays absent *)
Lemma steps_absent st vs st' bone : Steps st vs st' ->
  find_node (cfile st) bone = None -> (forall sn, In sn vs -> node_name_at s sn <> Some bone) ->
  find_node (cfile st') bone = None.
Proof.
  intros HS Hf Hv. destruct (find_node (cfile st') bone) as [[i b]|] eqn:E; [|reflexivity]. exfalso.
  destruct (find_node_some _ _ _ _ E) as (_ & _ & _ & Hn & _).
  pose proof (node_name_at_lt _ _ _ Hn) as Hi. fold (bl st') in Hi.
  destruct (N.lt_ge_cases i (vlen (bl st))) as [Hlt|Hge].
  - rewrite (ext_name _ _ i (steps_ext _ _ _ HS) Hlt) in Hn. exact (find_node_none _ _ Hf i Hn).
  - destruct (steps_new_unique _ _ _ HS i ltac:(lia)) as (sn & bone' & Hin & H1 & H2 & _).
    rewrite Hn in H2. injection H2 as <-. exact (Hv sn Hin H1).
Qed.

(* the search result for a name that is present does not change *)
Lemma ext_find st st' n i b : Ext st st' -> find_node (cfile st) n = Some (i, b) -> exists b', find_node (cfile st') n = Some (i, b').
Proof.
  intros HE E. apply (find_node_stable _ _ _ _ _ E). intros j Hj.
  destruct (find_node_some _ _ _ _ E) as (Hg & _). pose proof (vget_some_lt _ _ _ Hg). fold (bl st) in *.
  apply ext_name; [exact HE|lia].
Qed.

(* a child stays where it is as long as no later step is about a node of its name *)
Lemma steps_child_stays st vs st' : Steps st vs st' ->
  forall c p, c < vlen (bl st) ->
  (forall sn bone, In sn vs -> node_name_at s sn = Some bone -> node_name_at (cfile st) c <> Some bone) ->
  In c (kids_at (cfile st) p) -> In c (kids_at (cfile st') p).
Proof.
  induction 1 as [st|st sn0 bone0 st1 vs st' HH Hr Hb HC HS IH]; intros c p Hc Hv Hin; [exact Hin|].
  destruct (cases_inv _ _ _ _ HH HC) as (HE & _).
  apply IH.
  - destruct HE as (HL & _). lia.
  - intros sn bone Hi Hn. rewrite (ext_name _ _ c HE Hc). apply (Hv sn bone); [right; exact Hi|exact Hn].
  - specialize (Hv sn0 bone0 (or_introl eq_refl) Hb).
    destruct HC as [(Hf & i & sb & _ & HCr)|[(bid & b & opi & ob & Hf & _ & _ & _ & HM)|(Hf & ->)]]; [| |exact Hin].
    + destruct (created_view _ _ _ _ _ HH HCr) as (_ & _ & Hpt & _ & Hk1 & Hk2 & Hk3 & _).
      destruct (N.eq_dec p (ptarget (cfile st) root (spn s sn0))) as [->|Hne]; [rewrite Hk1; apply in_or_app; auto|].
      destruct (N.eq_dec p (vlen (bl st))) as [->|Hne2]; [|rewrite Hk3; auto].
      exfalso. unfold kids_at in Hin. destruct (vget (blocks (fh (cfile st))) (vlen (bl st))) eqn:Eg; [|exact Hin].
      pose proof (vget_some_lt _ _ _ Eg). unfold bl in *. lia.
    + destruct (moved_view _ _ _ _ _ HH HM) as (_ & _ & _ & _ & _ & _ & Hk1 & Hk2 & Hk3 & _).
      destruct (find_node_some _ _ _ _ Hf) as (_ & _ & _ & Hnb & _).
      assert (c <> bid) by (intros ->; congruence).
      destruct (N.eq_dec p (ptarget (cfile st) root (spn s sn0))) as [->|Hne]; [rewrite Hk2; apply in_or_app; auto|].
      destruct (N.eq_dec p opi) as [->|Hne2]; [rewrite Hk1; apply in_map_clear1_fwd; auto|rewrite Hk3; auto].
Qed.

(* (c) the parents of everything that does not carry a visited name are what they were *)
Theorem steps_parent_kept st vs st' : Steps st vs st' ->
  forall c, c <> NPOS -> c < vlen (bl st) ->
  (forall sn bone, In sn vs -> node_name_at s sn = Some bone -> node_name_at (cfile st) c <> Some bone) ->
  forall p, In c (kids_at (cfile st') p) <-> In c (kids_at (cfile st) p).
Proof.
  induction 1 as [st|st sn0 bone0 st1 vs st' HH Hr Hb HC HS IH]; intros c Hnp Hc Hv p; [reflexivity|].
  destruct (cases_inv _ _ _ _ HH HC) as (HE & _).
  rewrite IH; auto.
  - specialize (Hv sn0 bone0 (or_introl eq_refl) Hb).
    destruct HC as [(Hf & i & sb & _ & HCr)|[(bid & b & opi & ob & Hf & _ & _ & _ & HM)|(Hf & ->)]]; [| |reflexivity].
    + destruct (created_view _ _ _ _ _ HH HCr) as (_ & _ & Hpt & _ & Hk1 & Hk2 & Hk3 & _).
      destruct (N.eq_dec p (ptarget (cfile st) root (spn s sn0))) as [->|Hne].
      { rewrite Hk1, in_app_iff. cbn [In]. intuition lia. }
      destruct (N.eq_dec p (vlen (bl st))) as [->|Hne2]; [|rewrite Hk3; tauto].
      rewrite Hk2. unfold kids_at. destruct (vget (blocks (fh (cfile st))) (vlen (bl st))) eqn:Eg; [|reflexivity].
      pose proof (vget_some_lt _ _ _ Eg). unfold bl in *. lia.
    + destruct (moved_view _ _ _ _ _ HH HM) as (_ & _ & _ & _ & _ & _ & Hk1 & Hk2 & Hk3 & _).
      destruct (find_node_some _ _ _ _ Hf) as (_ & _ & _ & Hnb & _).
      assert (c <> bid) by (intros ->; congruence).
      destruct (N.eq_dec p (ptarget (cfile st) root (spn s sn0))) as [->|Hne].
      { rewrite Hk2, in_app_iff. cbn [In]. intuition congruence. }
      destruct (N.eq_dec p opi) as [->|Hne2]; [rewrite Hk1; apply in_map_clear1; auto|rewrite Hk3; tauto].
  - destruct HE as (HL & _). lia.
  - intros sn bone Hi Hn. rewrite (ext_name _ _ c HE Hc). apply (Hv sn bone); [right; exact Hi|exact Hn].
Qed.

(* (b) a created node hangs under the first destination node named like the source node's parent
   (GetParentNode in the source), under the destination root when there is none; stated on the
   FINAL destination. The name must be visited once, and the parent's name must not be created after
   the node (in a tree the parent is visited before its children) *)
Theorem steps_new_parent st vs st' : Steps st vs st' ->
  forall vs1 sn vs2 bone, vs = vs1 ++ sn :: vs2 -> node_name_at s sn = Some bone ->
  find_node (cfile st) bone = None ->
  (forall sn', In sn' (vs1 ++ vs2) -> node_name_at s sn' <> Some bone) ->
  (forall pn sn', spn s sn = Some pn -> In sn' (sn :: vs2) -> node_name_at s sn' <> Some pn) ->
  exists n, vlen (bl st) <= n < vlen (bl st') /\ node_name_at (cfile st') n = Some bone /\
            In n (kids_at (cfile st') (ptarget (cfile st') root (spn s sn))).
Proof.
  intros HS vs1 sn vs2 bone -> Hb Hf Hv Hp.
  destruct (steps_app_inv _ _ _ _ HS) as (stm & HS1 & HS2).
  assert (Hfm : find_node (cfile stm) bone = None).
  { apply (steps_absent _ _ _ _ HS1 Hf). intros sn' Hi. apply Hv. apply in_or_app. auto. }
  pose proof (steps_ext _ _ _ HS1) as (HL1 & _).
  inversion HS2 as [|? ? bone0 st1 ? ? HHm Hrm Hb0 HC HS3]; subst.
  assert (bone0 = bone) by congruence. subst bone0.
  pose proof (steps_ext _ _ _ HS3) as HE3. pose proof HE3 as (HL3 & _).
  destruct HC as [(_ & i & sb & _ & HCr)|[(bid & b & opi & ob & Hf' & _)|(Hf' & _)]]; [|congruence|congruence].
  destruct (created_view _ _ _ _ _ HHm HCr) as (HE & HL & Hpt & Hnm & Hk1 & _).
  set (ptm := ptarget (cfile stm) root (spn s sn)) in *.
  exists (vlen (bl stm)). split; [lia|]. split; [eapply ext_name_some; eauto|].
  assert (Hsame : ptarget (cfile st') root (spn s sn) = ptm).
  { unfold ptm, ptarget. destruct (spn s sn) as [pn|] eqn:Ep; [|reflexivity].
    destruct (find_node (cfile stm) pn) as [[pi pb]|] eqn:Efp.
    - destruct (ext_find stm st' pn pi pb (ext_trans _ _ _ HE HE3) Efp) as (b' & ->). reflexivity.
    - rewrite (steps_absent _ _ _ pn HS2 Efp); [reflexivity|]. intros sn' Hi. exact (Hp pn sn' eq_refl Hi). }
  rewrite Hsame. apply (steps_child_stays _ _ _ HS3); [lia| |rewrite Hk1; apply in_or_app; right; left; reflexivity].
  intros sn' bone' Hi Hn'. rewrite Hnm. intros He. injection He as <-. apply (Hv sn'); [apply in_or_app; auto|exact Hn'].
Qed.

(* (e) the references of the destination stay inside the destination; the created nodes hold no
   pointer at all *)
Theorem steps_closed st vs st' lo : Steps st vs st' ->
  (forall i, lo <= i -> Forall (ref_ok (vlen (bl st))) (crefs_at (cfile st) i)) ->
  (forall i, lo <= i -> Forall (ref_ok (vlen (bl st'))) (crefs_at (cfile st') i)).
Proof.
  induction 1 as [st|st sn0 bone0 st1 vs st' HH Hr Hb HC HS IH]; intros Hcl; [exact Hcl|].
  apply IH. intros i Hi. specialize (Hcl i Hi). rewrite Forall_forall in *.
  destruct HC as [(Hf & i0 & sb & _ & HCr)|[(bid & b & opi & ob & Hf & _ & _ & _ & HM)|(Hf & ->)]]; [| |exact Hcl].
  - destruct (created_view _ _ _ _ _ HH HCr) as (_ & HL & Hpt & _ & _ & _ & _ & Hc1 & Hc2 & _ & Hc3).
    rewrite HL. intros y Hy.
    assert (Hmono : forall y, ref_ok (vlen (bl st)) y -> ref_ok (vlen (bl st) + 1) y) by (unfold ref_ok; intros ? [?|?]; [left; auto|right; lia]).
    destruct (N.eq_dec i (ptarget (cfile st) root (spn s sn0))) as [->|Hne].
    + apply Hc1 in Hy. destruct Hy as [->|Hy]; [right; lia|auto].
    + destruct (N.eq_dec i (vlen (bl st))) as [->|Hne2].
      * rewrite Forall_forall in Hc2. left. auto.
      * rewrite Hc3 in Hy by auto. auto.
  - destruct (moved_view _ _ _ _ _ HH HM) as (_ & HL & Hpt & Hopi & Hbid & _ & _ & _ & _ & Hc1 & Hc2 & Hc3).
    rewrite HL. intros y Hy.
    destruct (N.eq_dec i (ptarget (cfile st) root (spn s sn0))) as [->|Hne].
    + apply Hc2 in Hy. destruct Hy as [->|Hy]; [right; exact Hbid|auto].
    + destruct (N.eq_dec i opi) as [->|Hne2].
      * rewrite Hc1 in Hy. apply in_map_iff in Hy. destruct Hy as (r & <- & Hrr). unfold clear1.
        destruct (r =? bid); [left; reflexivity|auto].
      * rewrite Hc3 in Hy by auto. auto.
Qed.

Theorem steps_new_ptrs st vs st' : Steps st vs st' ->
  forall n, vlen (bl st) <= n < vlen (bl st') -> Forall (fun r => r = NPOS) (ptrs_at (cfile st') n).
Proof.
  induction 1 as [st|st sn0 bone0 st1 vs st' HH Hr Hb HC HS IH]; intros n Hn; [lia|].
  destruct (N.lt_ge_cases n (vlen (bl st1))) as [Hlt|Hge]; [|apply IH; lia].
  rewrite (ext_ptrs _ _ n (steps_ext _ _ _ HS) Hlt).
  destruct HC as [(Hf & i0 & sb & _ & HCr)|[(bid & b & opi & ob & Hf & _ & _ & _ & HM)|(Hf & ->)]]; [| |lia].
  - destruct (created_view _ _ _ _ _ HH HCr) as (_ & HL & _ & _ & _ & _ & _ & _ & _ & Hp & _).
    assert (n = vlen (bl st)) by lia. subst n. exact Hp.
  - destruct (moved_view _ _ _ _ _ HH HM) as (_ & HL & _). lia.
Qed.

End Theorems.

(* ---------------------------------------------------------------------------------------- *)
(* source = the destination itself (srcNif == this): every source node is found by its own name, so
   with pairwise different node names no step does anything *)
Definition names_unique (f : file) : Prop :=
  forall i j n, node_name_at f i = Some n -> node_name_at f j = Some n -> i = j.

Lemma step_same st root sn snb st' ks :
  names_unique (cfile st) -> vget (bl st) sn = Some snb -> is_node (cfile st) snb = true ->
  clone_node_step None st root sn = Ok (st', ks) -> st' = st /\ ks = node_children (cfile st) snb.
Proof.
  intros HU Hsn Hn E. rewrite clone_node_step_eq in E. cbn [src_of] in E. cbv zeta in E. unfold bl in Hsn. rewrite Hsn in E.
  destruct (name_of (cfile st) snb) as [bone|] eqn:Eb; [|discriminate].
  assert (Hname : node_name_at (cfile st) sn = Some bone) by (unfold node_name_at; rewrite Hsn, Hn; exact Eb).
  assert (Hdone : forall stx, stx = st ->
            match vget (blocks (fh (cfile stx))) sn with
            | Some snb' => Ok (stx, node_children (cfile stx) snb') | None => Fault end = Ok (st', ks) ->
            st' = st /\ ks = node_children (cfile st) snb).
  { intros stx -> H. rewrite Hsn in H. inversion H. auto. }
  destruct (find_node (cfile st) bone) as [[bid b]|] eqn:Ef; [|exfalso; exact (find_node_found _ _ _ Hname Ef)].
  destruct (find_node_some _ _ _ _ Ef) as (_ & _ & _ & Hnb & _).
  assert (bid = sn) by (eapply HU; eauto). subst bid.
  destruct (get_parent (cfile st) sn) as [[opi ob]|] eqn:Egp; [|cbn [bind] in E; eapply Hdone; eauto].
  assert (Hpt : ptarget (cfile st) root (spn (cfile st) sn) = opi \/ ptarget (cfile st) root (spn (cfile st) sn) = root).
  { unfold ptarget, spn. rewrite Egp. destruct (name_of (cfile st) ob) as [pn|] eqn:Epn; [|auto].
    destruct (get_parent_some _ _ _ _ Egp) as (Hgo & Hno & _).
    assert (Hpn : node_name_at (cfile st) opi = Some pn) by (unfold node_name_at; rewrite Hgo, Hno; exact Epn).
    destruct (find_node (cfile st) pn) as [[pi pb]|] eqn:Efp; [|auto].
    destruct (find_node_some _ _ _ _ Efp) as (_ & _ & _ & Hnp & _). left. eapply HU; eauto. }
  assert (Hc : (negb (opi =? ptarget (cfile st) root (spn (cfile st) sn)) && negb (ptarget (cfile st) root (spn (cfile st) sn) =? root))%bool = false).
  { destruct Hpt as [-> | ->]; rewrite N.eqb_refl; cbn; [reflexivity|apply andb_false_r]. }
  rewrite Hc in E. cbn [bind] in E. eapply Hdone; eauto.
Qed.

Theorem same_model_identity : forall fuel st root sn snb st',
  names_unique (cfile st) -> vget (bl st) sn = Some snb -> is_node (cfile st) snb = true ->
  clone_nodes None fuel st root sn = Ok st' -> st' = st.
Proof.
  induction fuel as [|f IH]; intros st root sn snb st' HU Hsn Hn E; [discriminate|].
  rewrite clone_nodes_unfold in E.
  destruct (clone_node_step None st root sn) as [[st1 ks]| |] eqn:Es; cbn [bind] in E; try discriminate.
  destruct (step_same _ _ _ _ _ _ HU Hsn Hn Es) as (-> & _). clear Es.
  revert E. generalize ks. induction ks0 as [|k ks0 IHk]; intros E; cbn [walk_kids] in E; [inversion E; reflexivity|].
  cbn [src_of] in E. destruct (src_get (cfile st) k) as [[kb|]| |] eqn:Eg; cbn [bind] in E; try discriminate; auto.
  destruct (is_node (cfile st) kb) eqn:En; auto.
  destruct (clone_nodes None f st root k) as [st1| |] eqn:Ec; cbn [bind] in E; try discriminate.
  rewrite (IH st root k kb st1 HU (src_get_some _ _ _ Eg) En Ec) in E. auto.
Qed.

Theorem same_model_walk_identity fuel root ks st st' :
  names_unique (cfile st) ->
  walk_kids None (fun st k => clone_nodes None fuel st root k) ks st = Ok st' -> st' = st.
Proof.
  intros HU. induction ks as [|k ks IHk]; intros E; cbn [walk_kids] in E; [inversion E; reflexivity|].
  cbn [src_of] in E. destruct (src_get (cfile st) k) as [[kb|]| |] eqn:Eg; cbn [bind] in E; try discriminate; auto.
  destruct (is_node (cfile st) kb) eqn:En; auto.
  destruct (clone_nodes None fuel st root k) as [st1| |] eqn:Ec; cbn [bind] in E; try discriminate.
  rewrite (same_model_identity fuel st root k kb st1 HU (src_get_some _ _ _ Eg) En Ec) in E. auto.
Qed.

(* ---------------------------------------------------------------------------------------- *)
(* where the walk sits inside CloneShape: from the state [st5] reached after the geometry, its
   children and the emptied bone list, the walk over the children of the source root yields [st6],
   and the bone list is rebuilt in [st6] from the source shape's bone names *)
Theorem clone_shape_other_stages compat s empty enum fuel st si name st' did ri rb sri srb0 :
  get_root (cfile st) = Some (ri, rb) -> get_root s = Some (sri, srb0) ->
  clone_shape compat (Some s) empty enum fuel st si name = Ok (st', did) ->
  exists (sb : block) (st5 st6 : cst) (cont : option (N * block * N * N)),
    vget (blocks (fh s)) si = Some sb /\
    walk_kids (Some s) (fun st k => clone_nodes (Some s) fuel st ri k) (kids_at s sri) st5 = Ok st6 /\
    match cont with
    | Some (ci, _, _, _) => set_bone_ptrs (cfile st6) ci (rebuild_bones (cfile st6) (shape_bone_names s sb))
    | None => Ok (cfile st6)
    end = Ok (cfile st') /\ cnext st' = cnext st6.
Proof.
  intros Hr Hsr E. unfold clone_shape in E. cbn [src_of] in E. rewrite Hr, Hsr in E.
  destruct (vget (blocks (fh s)) si) as [sb|] eqn:Esb; [|discriminate].
  destruct (add_object st (tname sb) (crefs sb) (ptrs sb) (set_name (heap s (uid sb)) name)) as [st1 did0] eqn:Ea.
  destruct (add_child (cfile st1) ri did0) as [f2| |]; cbn [bind] in E; try discriminate.
  destruct (clone_children (Some s) empty enum fuel (mkCst f2 (cnext st1)) did0) as [st3| |]; cbn [bind] in E; try discriminate.
  match type of E with bind ?M _ = _ => destruct M as [hp4| |] end; cbn [bind] in E; try discriminate.
  cbn [src_of] in E. try rewrite Esb in E.
  destruct (vget (blocks (fh (set_heap (cfile st3) hp4))) did0) as [db|]; [|discriminate].
  set (cont := bone_container (set_heap (cfile st3) hp4) db) in *.
  match type of E with bind ?M _ = _ => destruct M as [f5| |] end; cbn [bind] in E; try discriminate.
  cbn [src_of] in E. destruct (vget (blocks (fh s)) sri) as [srb|] eqn:Esr; [|discriminate].
  match type of E with bind ?M _ = _ => destruct M as [st6| |] eqn:Ew end; cbn [bind] in E; try discriminate.
  exists sb, (mkCst f5 (cnext st3)), st6, cont. split; [reflexivity|]. split.
  - unfold kids_at. rewrite Esr. exact Ew.
  - destruct cont as [[[[ci cb] cs] cl]|].
    + match type of E with bind ?M _ = _ => destruct M as [f7| |] end; cbn [bind] in E; try discriminate.
      inversion E. auto.
    + cbn [bind] in E. inversion E. auto.
Qed.

(* the list the skin's bone pointers are rebuilt from: when every bone name of the source shape is
   the name of a visited source node, it names the same bones, in the same order, and each of them
   is a node of the destination *)
Theorem bones_exist_after_walk s (Hsw : SrcWin s) root st vs st' names :
  Steps s root st vs st' ->
  (forall n, In n names -> exists sn, In sn vs /\ node_name_at s sn = Some n) ->
  map (node_name_at (cfile st')) (rebuild_bones (cfile st') names) = map Some names.
Proof.
  intros HS Hall. apply rebuild_bones_all. intros n Hn. destruct (Hall n Hn) as (sn & Hin & Hnm).
  exact (steps_found s root _ _ _ HS sn n Hin Hnm).
Qed.

(* ---------------------------------------------------------------------------------------- *)
(* the invariant [HWF] holds where the walk starts inside CloneShape: it is kept by AddBlock,
   AddBlockRef, CloneChildren, SetGeomData and boneRefs.Clear() *)
Definition SrcWinB (s : file) : Prop :=
  forall i b s0 l cl cs, vget (blocks (fh s)) i = Some b ->
    anode (heap s (uid b)) = Some (s0, l, cl, cs) -> s0 + l <= vlen (crefs b) /\ cs <= vlen cl.

Lemma SrcWinB_SrcWin s : SrcWinB s -> SrcWin s.
Proof. intros H i b s0 l cl cs Hb Ha. exact (proj2 (H i b s0 l cl cs Hb Ha)). Qed.

Lemma hwf_upd st i g f' :
  HWF st -> upd_block (cfile st) i g = Ok f' ->
  (forall b, uid (g b) = uid b /\ length (crefs (g b)) = length (crefs b)) ->
  HWF (mkCst f' (cnext st)).
Proof.
  intros [HW Hnd Hw] E Hg. destruct (upd_block_spec _ _ _ _ E) as (b & Hb & Hk & Hl & Hn & Hh & _).
  constructor.
  - apply (wf_upd st f' i g HW E). intros c. apply Hg.
  - unfold bl. cbn [cfile]. rewrite (upd_block_uids _ _ _ _ E); [exact Hnd|]. intros c. apply Hg.
  - unfold bl. cbn [cfile]. intros k c s l cl cs Hc Ha. rewrite Hh in Ha. rewrite Hk in Hc.
    destruct (N.eqb_spec k i) as [->|_]; [|eauto].
    inversion Hc; subst c. destruct (Hg b) as [Hu Hlen]. rewrite Hu in Ha.
    specialize (Hw i b s l cl cs Hb Ha). unfold vlen in *. rewrite Hlen. exact Hw.
Qed.

Lemma hwf_heap st hp :
  HWF st -> (forall u, anode (hp u) = anode (heap (cfile st) u)) -> HWF (mkCst (set_heap (cfile st) hp) (cnext st)).
Proof.
  intros [[Hnb Hu] Hnd Hw] Ha. constructor; [constructor|..]; unfold bl in *; cbn [cfile cnext set_heap fh heap]; auto.
  intros i b s l cl cs Hb Hab. rewrite Ha in Hab. eauto.
Qed.

Lemma hwf_strs st l : HWF st -> HWF (mkCst (set_strs (cfile st) l) (cnext st)).
Proof. intros [[Hnb Hu] Hnd Hw]. constructor; [constructor|..]; auto. Qed.

Lemma set_cref_len j x b : length (crefs (set_cref j x b)) = length (crefs b).
Proof.
  unfold set_cref. cbn [crefs]. destruct (vset (crefs b) j x) as [l|] eqn:E; [|reflexivity]. apply (vset_len _ _ _ _ E).
Qed.

Lemma upd_block_obs f i g f' : upd_block f i g = Ok f' -> forall k, k <> i -> obs f' k = obs f k.
Proof.
  intros E k Hk. destruct (upd_block_spec _ _ _ _ E) as (b0 & _ & Hv & _ & _ & Hh & _). unfold obs. rewrite Hv, Hh.
  destruct (N.eqb_spec k i); [congruence|reflexivity].
Qed.

(* CloneChildren keeps the invariant and leaves every other block that existed exactly as it was
   (block record and object fields); source = another model or the destination itself *)
Section ChildrenInv.
Variable src : option file.
Variable empty : N.
Variable enum : N -> nat -> list N.
Hypothesis Hsrc : forall st r sb s0 l cl cs, HWF st ->
  vget (blocks (fh (src_of src st))) r = Some sb ->
  anode (heap (src_of src st) (uid sb)) = Some (s0, l, cl, cs) -> s0 + l <= vlen (crefs sb).

Definition KeepsInv (rec : cst -> N -> N -> N -> res cst) : Prop :=
  forall st bi pold pnew st', HWF st -> rec st bi pold pnew = Ok st' ->
    HWF st' /\ vlen (bl st) <= vlen (bl st') /\
    (forall k, k < vlen (bl st) -> k <> bi -> obs (cfile st') k = obs (cfile st) k).

Lemma clone_one_inv rec (IH : KeepsInv rec) st bi j pold pnew st' :
  HWF st -> clone_one src empty rec st bi j pold pnew = Ok st' ->
  HWF st' /\ vlen (bl st) <= vlen (bl st') /\
  (forall k, k < vlen (bl st) -> k <> bi -> obs (cfile st') k = obs (cfile st) k).
Proof.
  intros HH E. unfold clone_one in E. destruct (vget (blocks (fh (cfile st))) bi) as [b|]; [|discriminate].
  destruct (vget (crefs b) j) as [r|]; [|discriminate].
  destruct (src_get (src_of src st) r) as [[sb|]| |] eqn:Eg; cbn [bind] in E; try discriminate;
    [|inversion E; subst; split; [auto|split; [lia|auto]]].
  pose proof (src_get_some _ _ _ Eg) as Hsb.
  set (sa := heap (src_of src st) (uid sb)) in *.
  destruct (add_object st (tname sb) (crefs sb) (ptrs sb) sa) as [st1 destId] eqn:Ea.
  assert (HH1 : HWF st1).
  { pose proof (hwf_add_object st (tname sb) (crefs sb) (ptrs sb) sa HH) as H. rewrite Ea in H. apply H.
    intros s0 l cl cs Ha. exact (Hsrc st r sb s0 l cl cs HH Hsb Ha). }
  pose proof (add_object_spec st (tname sb) (crefs sb) (ptrs sb) sa (h_wf _ HH)) as Hadd.
  pose proof (add_object_obs st (tname sb) (crefs sb) (ptrs sb) sa (h_wf _ HH)) as Hobs.
  cbv zeta in Hadd, Hobs. rewrite Ea in Hadd, Hobs. cbn [fst snd] in Hadd, Hobs.
  destruct Hadd as (_ & Eb1 & Eid & _). destruct Hobs as (Ho1 & _).
  assert (HL1 : vlen (bl st1) = vlen (bl st) + 1) by (rewrite Eb1, vlen_app; reflexivity).
  destruct (upd_block (cfile st1) bi (set_cref j destId)) as [f2| |] eqn:E2; cbn [bind] in E; try discriminate.
  pose proof (hwf_upd st1 bi _ f2 HH1 E2 ltac:(intros c; split; [reflexivity|apply set_cref_len])) as HH2.
  assert (HL2 : vlen (blocks (fh f2)) = vlen (bl st1)).
  { destruct (upd_block_spec _ _ _ _ E2) as (_ & _ & _ & Hl & _). unfold vlen, bl. rewrite Hl. reflexivity. }
  pose proof (upd_block_obs _ _ _ _ E2) as Ho2.
  pose proof (hwf_strs _ (register_strings empty (fstrs f2) (astrs sa)) HH2) as HH3. cbn [cfile cnext] in HH3.
  set (f3 := set_strs f2 (register_strings empty (fstrs f2) (astrs sa))) in *.
  assert (Ho3 : forall k, obs f3 k = obs f2 k) by (intros; reflexivity).
  destruct (negb (pold =? NPOS)).
  - destruct (upd_block f3 destId (rebind_ptrs pold pnew)) as [f4| |] eqn:E4; cbn [bind] in E; try discriminate.
    pose proof (hwf_upd (mkCst f3 (cnext st1)) destId _ f4 HH3 E4 ltac:(intros c; split; reflexivity)) as HH4. cbn [cnext] in HH4.
    pose proof (upd_block_obs _ _ _ _ E4) as Ho4.
    destruct (IH _ _ _ _ _ HH4 E) as (HH' & HL' & HF'). split; [exact HH'|].
    destruct (upd_block_spec _ _ _ _ E4) as (_ & _ & _ & Hl & _). unfold bl in *. cbn [cfile] in *.
    change (blocks (fh f3)) with (blocks (fh f2)) in Hl.
    assert (HL4 : vlen (blocks (fh f4)) = vlen (blocks (fh f2))) by (unfold vlen; rewrite Hl; reflexivity).
    split; [lia|]. intros k Hk Hne. rewrite HF' by lia. rewrite Ho4 by lia. rewrite Ho3, Ho2 by exact Hne. apply Ho1. exact Hk.
  - destruct (IH _ _ _ _ _ HH3 E) as (HH' & HL' & HF'). split; [exact HH'|]. unfold bl in *. cbn [cfile] in *.
    change (blocks (fh f3)) with (blocks (fh f2)) in HL', HF'. split; [lia|].
    intros k Hk Hne. rewrite HF' by lia. rewrite Ho3, Ho2 by exact Hne. apply Ho1. exact Hk.
Qed.

Lemma clone_loop_inv rec (IH : KeepsInv rec) bi pold pnew : forall js st st',
  HWF st -> clone_loop src empty rec js st bi pold pnew = Ok st' ->
  HWF st' /\ vlen (bl st) <= vlen (bl st') /\
  (forall k, k < vlen (bl st) -> k <> bi -> obs (cfile st') k = obs (cfile st) k).
Proof.
  induction js as [|j js IHj]; intros st st' HH E; cbn [clone_loop] in E; [inversion E; subst; split; [auto|split; [lia|auto]]|].
  destruct (clone_one src empty rec st bi j pold pnew) as [st1| |] eqn:E1; cbn [bind] in E; try discriminate.
  destruct (clone_one_inv rec IH _ _ _ _ _ _ HH E1) as (HH1 & HL1 & HF1).
  destruct (IHj _ _ HH1 E) as (HH' & HL' & HF'). split; [exact HH'|]. split; [lia|].
  intros k Hk Hne. rewrite HF' by lia. apply HF1; auto.
Qed.

Lemma clone_rec_inv : forall fuel, KeepsInv (clone_rec src empty enum fuel).
Proof.
  induction fuel as [|f IH]; intros st bi pold pnew st' HH E; [discriminate|]. cbn [clone_rec] in E.
  destruct (vget (blocks (fh (cfile st))) bi) as [b|]; [|discriminate].
  eapply clone_loop_inv; eauto.
Qed.
End ChildrenInv.

Lemma hsrc_other s : SrcWinB s -> forall st r sb s0 l cl cs, HWF st ->
  vget (blocks (fh (src_of (Some s) st))) r = Some sb ->
  anode (heap (src_of (Some s) st) (uid sb)) = Some (s0, l, cl, cs) -> s0 + l <= vlen (crefs sb).
Proof. intros Hs st r sb s0 l cl cs _ Hv Ha. cbn [src_of] in *. exact (proj1 (Hs r sb s0 l cl cs Hv Ha)). Qed.

Lemma hsrc_same : forall st r sb s0 l cl cs, HWF st ->
  vget (blocks (fh (src_of None st))) r = Some sb ->
  anode (heap (src_of None st) (uid sb)) = Some (s0, l, cl, cs) -> s0 + l <= vlen (crefs sb).
Proof. intros st r sb s0 l cl cs HH Hv Ha. cbn [src_of] in *. exact (h_win _ HH r sb s0 l cl cs Hv Ha). Qed.

Lemma link_one_anode compat me bls nb b hp0 hp :
  link_one compat me bls nb b hp0 = Ok hp -> forall u, anode (hp u) = anode (hp0 u).
Proof.
  unfold link_one. destruct (adslot (hp0 (uid b))) as [k|]; [|intros H; inversion H; reflexivity].
  destruct (vget (crefs b) k) as [r|]; [|discriminate].
  destruct (negb (r =? NPOS) && (r <? nb))%bool; [|intros H; inversion H; reflexivity].
  destruct (vget bls r) as [d|]; [|discriminate].
  destruct (compat (tname b) (tname d)); intros H; inversion H; [|reflexivity].
  intros u. unfold upd. destruct (u =? uid b) eqn:E; [|reflexivity]. apply N.eqb_eq in E. subst. reflexivity.
Qed.

Lemma hwf_set_bone_ptrs st ci ids f' : HWF st -> set_bone_ptrs (cfile st) ci ids = Ok f' ->
  HWF (mkCst f' (cnext st)) /\ vlen (blocks (fh f')) = vlen (bl st).
Proof.
  intros HH E. unfold set_bone_ptrs in E. destruct (vget (blocks (fh (cfile st))) ci) as [c|]; [|discriminate].
  destruct (abones (heap (cfile st) (uid c))) as [[s0 l]|]; [|discriminate].
  match type of E with bind (upd_block _ _ ?g) _ = _ => set (G := g) in * end.
  destruct (upd_block (cfile st) ci G) as [f1| |] eqn:E1; cbn [bind] in E; try discriminate.
  inversion E; subst f'; clear E.
  pose proof (hwf_upd st ci G f1 HH E1 ltac:(intros b; split; reflexivity)) as HH1.
  destruct (upd_block_spec _ _ _ _ E1) as (_ & _ & _ & Hl & _ & Hh & _).
  split.
  - apply (hwf_heap (mkCst f1 (cnext st))); [exact HH1|]. cbn [cfile]. intros u. unfold upd.
    destruct (u =? uid c) eqn:Eu; [|reflexivity]. apply N.eqb_eq in Eu. subst u. cbn [anode]. rewrite Hh. reflexivity.
  - cbn [set_heap fh]. unfold vlen, bl. rewrite Hl. reflexivity.
Qed.

(* the stages again, now with the invariant carried from the call of CloneShape to the walk *)
Theorem clone_shape_other_stages_hwf compat s empty enum fuel st si name st' did ri rb sri srb0 :
  get_root (cfile st) = Some (ri, rb) -> get_root s = Some (sri, srb0) ->
  HWF st -> SrcWinB s ->
  clone_shape compat (Some s) empty enum fuel st si name = Ok (st', did) ->
  exists (sb : block) (st5 st6 : cst) (cont : option (N * block * N * N)),
    vget (blocks (fh s)) si = Some sb /\
    HWF st5 /\ ri < vlen (bl st5) /\ vlen (bl st) < vlen (bl st5) /\
    walk_kids (Some s) (fun st k => clone_nodes (Some s) fuel st ri k) (kids_at s sri) st5 = Ok st6 /\
    Steps s ri st5 (src_walk fuel s (kids_at s sri)) st6 /\
    match cont with
    | Some (ci, _, _, _) => set_bone_ptrs (cfile st6) ci (rebuild_bones (cfile st6) (shape_bone_names s sb))
    | None => Ok (cfile st6)
    end = Ok (cfile st') /\ cnext st' = cnext st6.
Proof.
  intros Hr Hsr HH HsB E. unfold clone_shape in E. cbn [src_of] in E. rewrite Hr, Hsr in E.
  assert (Hri : ri < vlen (bl st)).
  { unfold get_root in Hr. 
    assert (Hff : forall l i0 i x, find_from (is_node (cfile st)) i0 l = Some (i, x) -> i - i0 < vlen l).
    { intros l i0 i x H. destruct (find_from_spec _ _ _ _ _ H) as (_ & Hg & _). eapply vget_some_lt; eauto. }
    destruct (vget (blocks (fh (cfile st))) 0) as [b0|] eqn:E0.
    - destruct (is_node (cfile st) b0 && (0 <? nblocks (fh (cfile st))))%bool.
      + inversion Hr; subst. eapply vget_some_lt; eauto.
      + specialize (Hff _ _ _ _ Hr). unfold bl. lia.
    - specialize (Hff _ _ _ _ Hr). unfold bl. lia. }
  destruct (vget (blocks (fh s)) si) as [sb|] eqn:Esb; [|discriminate].
  destruct (add_object st (tname sb) (crefs sb) (ptrs sb) (set_name (heap s (uid sb)) name)) as [st1 did0] eqn:Ea.
  assert (HH1 : HWF st1 /\ vlen (bl st1) = vlen (bl st) + 1).
  { pose proof (hwf_add_object st (tname sb) (crefs sb) (ptrs sb) (set_name (heap s (uid sb)) name) HH) as H.
    pose proof (add_object_spec st (tname sb) (crefs sb) (ptrs sb) (set_name (heap s (uid sb)) name) (h_wf _ HH)) as H2.
    rewrite Ea in H, H2. cbn [fst] in H, H2. split.
    - apply H. intros s0 l cl cs Ha. apply (proj1 (HsB si sb s0 l cl cs Esb ltac:(
        unfold set_name in Ha; destruct (anamepos (heap s (uid sb))); exact Ha))).
    - destruct H2 as (_ & -> & _). rewrite vlen_app. reflexivity. }
  destruct HH1 as (HH1 & HL1).
  destruct (add_child (cfile st1) ri did0) as [f2| |] eqn:E2; cbn [bind] in E; try discriminate.
  pose proof (hwf_add_child st1 ri did0 f2 HH1 E2) as HH2.
  assert (HL2 : vlen (blocks (fh f2)) = vlen (bl st1)).
  { destruct (add_child_spec _ _ _ _ (h_nodup _ HH1) E2) as (_ & _ & _ & _ & _ & _ & _ & _ & _ & Hl & _). unfold vlen, bl. rewrite Hl. reflexivity. }
  destruct (clone_children (Some s) empty enum fuel (mkCst f2 (cnext st1)) did0) as [st3| |] eqn:E3; cbn [bind] in E; try discriminate.
  destruct (clone_rec_inv (Some s) empty enum (hsrc_other s HsB) fuel _ _ _ _ _ HH2 E3) as (HH3 & HL3 & _). unfold bl in HL3 at 1. cbn [cfile] in HL3.
  match type of E with bind ?M _ = _ => destruct M as [hp4| |] eqn:E4 end; cbn [bind] in E; try discriminate.
  assert (HH4 : HWF (mkCst (set_heap (cfile st3) hp4) (cnext st3))).
  { apply hwf_heap; [exact HH3|]. destruct (vget (blocks (fh (cfile st3))) did0) as [db0|]; [|discriminate].
    eapply link_one_anode; eauto. }
  cbn [src_of] in E. try rewrite Esb in E.
  destruct (vget (blocks (fh (set_heap (cfile st3) hp4))) did0) as [db|]; [|discriminate].
  set (cont := bone_container (set_heap (cfile st3) hp4) db) in *.
  match type of E with bind ?M _ = _ => destruct M as [f5| |] eqn:E5 end; cbn [bind] in E; try discriminate.
  assert (HH5 : HWF (mkCst f5 (cnext st3)) /\ vlen (blocks (fh f5)) = vlen (bl st3)).
  { destruct cont as [[[[ci cb] cs] cl]|].
    - exact (hwf_set_bone_ptrs _ ci [] f5 HH4 E5).
    - inversion E5; subst f5. split; [exact HH4|reflexivity]. }
  destruct HH5 as (HH5 & HL5).
  cbn [src_of] in E. destruct (vget (blocks (fh s)) sri) as [srb|] eqn:Esr; [|discriminate].
  match type of E with bind ?M _ = _ => destruct M as [st6| |] eqn:Ew end; cbn [bind] in E; try discriminate.
  assert (Hlen : vlen (bl st) < vlen (bl (mkCst f5 (cnext st3)))) by (unfold bl in *; cbn [cfile]; lia).
  assert (Hwalk : walk_kids (Some s) (fun st k => clone_nodes (Some s) fuel st ri k) (kids_at s sri) (mkCst f5 (cnext st3)) = Ok st6).
  { unfold kids_at. rewrite Esr. exact Ew. }
  exists sb, (mkCst f5 (cnext st3)), st6, cont. split; [reflexivity|]. split; [exact HH5|]. split; [lia|]. split; [exact Hlen|].
  split; [exact Hwalk|]. split.
  - apply run_steps; [apply SrcWinB_SrcWin; exact HsB| |exact HH5|lia]. apply walk_kids_run. exact Hwalk.
  - destruct cont as [[[[ci cb] cs] cl]|].
    + match type of E with bind ?M _ = _ => destruct M as [f7| |] end; cbn [bind] in E; try discriminate.
      inversion E. auto.
    + cbn [bind] in E. inversion E. auto.
Qed.

(* ---------------------------------------------------------------------------------------- *)
(* the run of one cloneNodes call / of the walk, with the invariant: ready-made forms *)
Theorem clone_nodes_steps s (Hsw : SrcWin s) root fuel st sn snb st' :
  HWF st -> root < vlen (bl st) ->
  vget (blocks (fh s)) sn = Some snb -> is_node s snb = true ->
  clone_nodes (Some s) fuel st root sn = Ok st' -> Steps s root st (src_nodes fuel s sn) st'.
Proof. intros HH Hr Hsn Hn E. apply run_steps; auto. eapply clone_nodes_run; eauto. Qed.

Theorem walk_kids_steps s (Hsw : SrcWin s) root fuel ks st st' :
  HWF st -> root < vlen (bl st) ->
  walk_kids (Some s) (fun st k => clone_nodes (Some s) fuel st root k) ks st = Ok st' ->
  Steps s root st (src_walk fuel s ks) st'.
Proof. intros HH Hr E. apply run_steps; auto. apply walk_kids_run. exact E. Qed.

(* (c) in plain terms: every block that existed is still there, at the same index, the same object of
   the same class with the same pointers, strings and payload, a node iff it was one, under the same
   name; a block that is not a node is exactly what it was; the header strings are untouched *)
Theorem steps_existing_kept s root st vs st' : Steps s root st vs st' ->
  vlen (bl st) <= vlen (bl st') /\ fstrs (cfile st') = fstrs (cfile st) /\
  forall i b, vget (bl st) i = Some b ->
    exists b', vget (bl st') i = Some b' /\ uid b' = uid b /\ tname b' = tname b /\ ptrs b' = ptrs b /\
      astrs (heap (cfile st') (uid b')) = astrs (heap (cfile st) (uid b)) /\
      atok (heap (cfile st') (uid b')) = atok (heap (cfile st) (uid b)) /\
      is_node (cfile st') b' = is_node (cfile st) b /\ name_of (cfile st') b' = name_of (cfile st) b /\
      (is_node (cfile st) b = false -> b' = b /\ heap (cfile st') (uid b') = heap (cfile st) (uid b)).
Proof.
  intros HS. destruct (steps_ext _ _ _ _ _ HS) as (HL & _ & Hs & _ & _ & H). split; [exact HL|]. split; [exact Hs|].
  intros i b Hb. assert (Hx : obs (cfile st) i = Some (b, heap (cfile st) (uid b))) by (apply obs_iff; auto).
  destruct (H _ _ Hx) as ([b' a'] & Hx' & K). apply obs_iff in Hx'. destruct Hx' as [Hb' ->].
  destruct K as (K1 & K2 & K3 & K4 & K5 & _ & K7 & _ & K9 & K10). cbn [fst snd] in *.
  exists b'. split; [exact Hb'|]. repeat split; auto.
  - unfold is_node. destruct (anode (heap (cfile st) (uid b))) as [[[[s0 l] cl] cs]|] eqn:E.
    + destruct (K10 _ _ _ _ eq_refl) as (l' & cl' & ->). reflexivity.
    + specialize (K9 eq_refl). injection K9 as -> Hh. rewrite Hh, E. reflexivity.
  - unfold name_of. rewrite K4, K7. reflexivity.
  - unfold is_node in H0. destruct (anode (heap (cfile st) (uid b))) eqn:E; [discriminate|].
    specialize (K9 eq_refl). injection K9 as -> _. reflexivity.
  - unfold is_node in H0. destruct (anode (heap (cfile st) (uid b))) eqn:E; [discriminate|].
    specialize (K9 eq_refl). injection K9 as -> Hh. exact Hh.
Qed.

(* ---------------------------------------------------------------------------------------- *)
(* source = the destination itself (srcNif == this), as repaired: CloneShape performs NO walk. For ALL
   models (no hypothesis on names): every block that existed keeps its name and its children, except
   that the clone is appended to the children of the source shape's parent *)
Definition hview (f : file) (i : N) : option N * list N := (node_name_at f i, kids_at f i).

Lemma hview_obs f f' i : obs f' i = obs f i -> hview f' i = hview f i.
Proof. intros H. unfold hview. rewrite !node_name_at_obs, !kids_at_obs, H. reflexivity. Qed.

Lemma hview_heap f hp :
  (forall u, anode (hp u) = anode (heap f u) /\ astrs (hp u) = astrs (heap f u) /\ anamepos (hp u) = anamepos (heap f u)) ->
  forall i, hview (set_heap f hp) i = hview f i.
Proof.
  intros H i. unfold hview, node_name_at, kids_at, is_node, name_of, node_children. cbn [set_heap fh heap].
  destruct (vget (blocks (fh f)) i) as [b|]; [|reflexivity]. destruct (H (uid b)) as (-> & -> & ->). reflexivity.
Qed.

Lemma link_one_fields compat me bls nb b hp0 hp :
  link_one compat me bls nb b hp0 = Ok hp ->
  forall u, anode (hp u) = anode (hp0 u) /\ astrs (hp u) = astrs (hp0 u) /\ anamepos (hp u) = anamepos (hp0 u).
Proof.
  unfold link_one. destruct (adslot (hp0 (uid b))) as [k|]; [|intros H; inversion H; auto].
  destruct (vget (crefs b) k) as [r|]; [|discriminate].
  destruct (negb (r =? NPOS) && (r <? nb))%bool; [|intros H; inversion H; auto].
  destruct (vget bls r) as [d|]; [|discriminate].
  destruct (compat (tname b) (tname d)); intros H; inversion H; [|auto].
  intros u. unfold upd. destruct (u =? uid b) eqn:E; [|auto]. apply N.eqb_eq in E. subst. auto.
Qed.

Lemma set_bone_ptrs_hier f ci ids f' : set_bone_ptrs f ci ids = Ok f' ->
  vlen (blocks (fh f')) = vlen (blocks (fh f)) /\ forall i, hview f' i = hview f i.
Proof.
  intros E. unfold set_bone_ptrs in E. destruct (vget (blocks (fh f)) ci) as [c|] eqn:Ec; [|discriminate].
  destruct (abones (heap f (uid c))) as [[s0 l]|]; [|discriminate].
  match type of E with bind (upd_block _ _ ?g) _ = _ => set (G := g) in * end.
  destruct (upd_block f ci G) as [f1| |] eqn:E1; cbn [bind] in E; try discriminate.
  inversion E; subst f'; clear E.
  destruct (upd_block_spec _ _ _ _ E1) as (c0 & Hc0 & Hk & Hl & _ & Hh & _).
  rewrite Ec in Hc0. inversion Hc0; subst c0; clear Hc0.
  split; [cbn [set_heap fh]; unfold vlen; rewrite Hl; reflexivity|].
  intros i. unfold hview, node_name_at, kids_at, is_node, name_of, node_children. cbn [set_heap fh heap]. rewrite Hk, Hh.
  assert (Hf : forall u, anode (upd (heap f) (uid c)
                 (mkAux (astrs (heap f (uid c))) (atok (heap f (uid c))) (adslot (heap f (uid c))) (acached (heap f (uid c)))
                        (anamepos (heap f (uid c))) (anode (heap f (uid c))) (askin (heap f (uid c))) (Some (s0, vlen ids))) u) = anode (heap f u) /\
               astrs (upd (heap f) (uid c)
                 (mkAux (astrs (heap f (uid c))) (atok (heap f (uid c))) (adslot (heap f (uid c))) (acached (heap f (uid c)))
                        (anamepos (heap f (uid c))) (anode (heap f (uid c))) (askin (heap f (uid c))) (Some (s0, vlen ids))) u) = astrs (heap f u) /\
               anamepos (upd (heap f) (uid c)
                 (mkAux (astrs (heap f (uid c))) (atok (heap f (uid c))) (adslot (heap f (uid c))) (acached (heap f (uid c)))
                        (anamepos (heap f (uid c))) (anode (heap f (uid c))) (askin (heap f (uid c))) (Some (s0, vlen ids))) u) = anamepos (heap f u)).
  { intros u. unfold upd. destruct (u =? uid c) eqn:Eu; [|auto]. apply N.eqb_eq in Eu. subst u. auto. }
  destruct (N.eqb_spec i ci) as [->|_].
  - rewrite Ec. unfold G. cbn [uid crefs]. destruct (Hf (uid c)) as (-> & -> & ->). reflexivity.
  - destruct (vget (blocks (fh f)) i) as [b|]; [|reflexivity]. destruct (Hf (uid b)) as (-> & -> & ->). reflexivity.
Qed.

Theorem same_model_hierarchy_kept compat empty enum fuel st si name st' did :
  HWF st -> clone_shape compat None empty enum fuel st si name = Ok (st', did) ->
  did = vlen (bl st) /\ vlen (bl st) < vlen (bl st') /\
  (forall i, i < vlen (bl st) -> node_name_at (cfile st') i = node_name_at (cfile st) i) /\
  exists po : option N,
    (forall p, po = Some p -> p < vlen (bl st) -> In si (kids_at (cfile st) p)) /\
    (forall i, i < vlen (bl st) ->
       kids_at (cfile st') i = kids_at (cfile st) i ++ match po with Some p => if i =? p then [did] else [] | None => [] end).
Proof.
  intros HH E. unfold clone_shape in E. cbn [src_of] in E.
  destruct (vget (blocks (fh (cfile st))) si) as [sb|] eqn:Esb; [|discriminate].
  set (sa := set_name (heap (cfile st) (uid sb)) name) in *.
  destruct (add_object st (tname sb) (crefs sb) (ptrs sb) sa) as [st1 did0] eqn:Ea.
  pose proof (add_object_spec st (tname sb) (crefs sb) (ptrs sb) sa (h_wf _ HH)) as Hadd.
  pose proof (add_object_obs st (tname sb) (crefs sb) (ptrs sb) sa (h_wf _ HH)) as Hobs.
  pose proof (hwf_add_object st (tname sb) (crefs sb) (ptrs sb) sa HH) as HH1.
  cbv zeta in Hadd, Hobs. rewrite Ea in Hadd, Hobs, HH1. cbn [fst snd] in Hadd, Hobs, HH1.
  destruct Hadd as (_ & Eb1 & Eid & _). destruct Hobs as (Ho1 & _).
  assert (HL1 : vlen (bl st1) = vlen (bl st) + 1) by (rewrite Eb1, vlen_app; reflexivity).
  assert (HH1' : HWF st1).
  { apply HH1. intros s0 l cl cs Ha. apply (h_win _ HH si sb s0 l cl cs Esb).
    unfold sa, set_name in Ha. destruct (anamepos (heap (cfile st) (uid sb))); exact Ha. }
  clear HH1. rename HH1' into HH1.
  set (L := vlen (bl st)) in *.
  (* the parent of the source shape takes the clone as a further child *)
  assert (Hstage2 : exists f2 (po : option N),
            match get_parent (cfile st1) si with
            | Some (pi, _) => add_child (cfile st1) pi did0
            | None => Ok (cfile st1)
            end = Ok f2 /\ HWF (mkCst f2 (cnext st1)) /\ vlen (blocks (fh f2)) = L + 1 /\
            (forall p, po = Some p -> p < L -> In si (kids_at (cfile st) p)) /\
            (forall i, i < L -> node_name_at f2 i = node_name_at (cfile st) i /\
               kids_at f2 i = kids_at (cfile st) i ++ match po with Some p => if i =? p then [did0] else [] | None => [] end)).
  { destruct (get_parent (cfile st1) si) as [[pi pb]|] eqn:Egp.
    - destruct (add_child (cfile st1) pi did0) as [f2| |] eqn:E2; cbn [bind] in E; try discriminate.
      exists f2, (Some pi). split; [reflexivity|]. split; [exact (hwf_add_child st1 pi did0 f2 HH1 E2)|].
      destruct (add_child_spec _ _ _ _ (h_nodup _ HH1) E2) as (b & s0 & l & cl & cs & Hb & Ha & Hp & Hk & Hl & _).
      split; [unfold vlen in *; rewrite Hl; exact HL1|]. split.
      + intros p Hp' Hlt. injection Hp' as <-. destruct (get_parent_some _ _ _ _ Egp) as (_ & _ & Hin).
        rewrite kids_at_obs in *. rewrite Ho1 in Hin by exact Hlt. exact Hin.
      + intros i Hi. destruct (N.eqb_spec i pi) as [->|Hne].
        * assert (Hx : obs (cfile st1) pi = Some (b, heap (cfile st1) (uid b))) by (apply obs_iff; auto).
          split.
          -- rewrite !node_name_at_obs, Hp, <- (Ho1 pi Hi), Hx. apply keeps_name. apply keeps_bins. exact Ha.
          -- rewrite !kids_at_obs, Hp, <- (Ho1 pi Hi), Hx. apply x_kids_bins; [exact Ha|].
             exact (h_win _ HH1 pi b s0 l cl cs Hb Ha).
        * rewrite app_nil_r. rewrite !node_name_at_obs, !kids_at_obs, (Hk i Hne), (Ho1 i Hi). auto.
    - exists (cfile st1), None. split; [reflexivity|]. split; [destruct st1; exact HH1|]. split; [exact HL1|].
      split; [discriminate|]. intros i Hi. rewrite app_nil_r. rewrite !node_name_at_obs, !kids_at_obs, (Ho1 i Hi). auto. }
  destruct Hstage2 as (f2 & po & E2 & HH2 & HL2 & Hpo & Hv2). rewrite E2 in E. cbn [bind] in E.
  destruct (clone_children None empty enum fuel (mkCst f2 (cnext st1)) did0) as [st3| |] eqn:E3; cbn [bind] in E; try discriminate.
  destruct (clone_rec_inv None empty enum hsrc_same fuel _ _ _ _ _ HH2 E3) as (HH3 & HL3 & HF3).
  unfold bl in HL3 at 1. unfold bl in HF3 at 1. cbn [cfile] in HL3, HF3.
  match type of E with bind ?M _ = _ => destruct M as [hp4| |] eqn:E4 end; cbn [bind] in E; try discriminate.
  assert (Hv4 : forall i, hview (set_heap (cfile st3) hp4) i = hview (cfile st3) i).
  { apply hview_heap. destruct (vget (blocks (fh (cfile st3))) did0) as [db0|]; [|discriminate].
    eapply link_one_fields; eauto. }
  cbn [src_of cfile] in E.
  destruct (vget (blocks (fh (set_heap (cfile st3) hp4))) si) as [sb'|]; [|discriminate].
  destruct (vget (blocks (fh (set_heap (cfile st3) hp4))) did0) as [db|]; [|discriminate].
  match type of E with bind ?M _ = _ => destruct M as [f5| |] eqn:E5 end; cbn [bind] in E; try discriminate.
  assert (Hv5 : vlen (blocks (fh f5)) = vlen (bl st3) /\ forall i, hview f5 i = hview (set_heap (cfile st3) hp4) i).
  { match type of E5 with match ?c with _ => _ end = _ => destruct c as [[[[ci cb] cs] cl]|] end.
    - exact (set_bone_ptrs_hier _ _ _ _ E5).
    - inversion E5; subst. auto. }
  destruct Hv5 as (HL5 & Hv5). cbn [cfile cnext] in E.
  match type of E with bind ?M _ = _ => destruct M as [f7| |] eqn:E7 end; cbn [bind] in E; try discriminate.
  inversion E; subst st' did; clear E.
  assert (Hv7 : vlen (blocks (fh f7)) = vlen (blocks (fh f5)) /\ forall i, hview f7 i = hview f5 i).
  { match type of E7 with match ?c with _ => _ end = _ => destruct c as [[[[ci cb] cs] cl]|] end.
    - exact (set_bone_ptrs_hier _ _ _ _ E7).
    - inversion E7; subst. auto. }
  destruct Hv7 as (HL7 & Hv7).
  split; [exact Eid|]. split; [unfold bl in *; cbn [cfile] in *; lia|].
  assert (Hall : forall i, i < L -> hview f7 i = hview f2 i).
  { intros i Hi. rewrite Hv7, Hv5, Hv4. apply hview_obs. apply HF3; lia. }
  split.
  - intros i Hi. pose proof (Hall i Hi) as H. unfold hview in H. injection H as H _. cbn [cfile]. rewrite H. exact (proj1 (Hv2 i Hi)).
  - exists po. split; [exact Hpo|]. intros i Hi. pose proof (Hall i Hi) as H. unfold hview in H. injection H as _ H.
    cbn [cfile]. rewrite H. exact (proj2 (Hv2 i Hi)).
Qed.
