(* The node hierarchy that CloneShape rebuilds in the destination (the cloneNodes lambda,
   src/NifFile.cpp:1373-1426, model: CloneModel.clone_node_step / clone_nodes / the walk inside
   clone_shape): vocabulary, the lookups, and what ONE cloneNodes call does to the destination.

   Nothing of CloneModel.v is changed here; the walk over the children of a source node (an anonymous
   `fix` in the model) gets a name ([walk_kids]) and is shown to be the model's own term by
   reflexivity. *)
From NiflyVerif Require Import Res GraphModel GraphInv GraphDelete GraphAdd GraphOrder CopyModel CopyProofs CloneModel CloneProofs CloneExtras.
From Coq Require Import ZifyBool ZifyNat ZifyN.
Local Open Scope N_scope.

(* ---------------------------------------------------------------------------------------- *)
(* what a model shows at one block index: the block record and the object's fields *)
Definition obs (f : file) (i : N) : option (block * aux) :=
  match vget (blocks (fh f)) i with Some b => Some (b, heap f (uid b)) | None => None end.

(* the childRefs array of the node at index i ([] when there is no node) *)
Definition kids_at (f : file) (i : N) : list N :=
  match vget (blocks (fh f)) i with Some b => node_children f b | None => [] end.

Definition x_name (x : block * aux) : option N :=
  match anode (snd x) with
  | Some _ => match anamepos (snd x) with Some p => vget (astrs (snd x)) p | None => None end
  | None => None
  end.
Definition x_kids (x : block * aux) : list N :=
  match anode (snd x) with
  | Some (s, l, _, _) => firstn (N.to_nat l) (skipn (N.to_nat s) (crefs (fst x)))
  | None => []
  end.

Lemma node_name_at_obs f i : node_name_at f i = match obs f i with Some x => x_name x | None => None end.
Proof.
  unfold node_name_at, obs, x_name, is_node, name_of. destruct (vget (blocks (fh f)) i) as [b|]; [|reflexivity].
  cbn [snd]. destruct (anode (heap f (uid b))); reflexivity.
Qed.

Lemma kids_at_obs f i : kids_at f i = match obs f i with Some x => x_kids x | None => [] end.
Proof.
  unfold kids_at, obs, x_kids, node_children. destruct (vget (blocks (fh f)) i) as [b|]; reflexivity.
Qed.

Lemma obs_some_lt f i x : obs f i = Some x -> i < vlen (blocks (fh f)).
Proof. unfold obs. destruct (vget (blocks (fh f)) i) eqn:E; [|discriminate]. intros _. eapply vget_some_lt; eauto. Qed.

Lemma node_name_at_lt f i n : node_name_at f i = Some n -> i < vlen (blocks (fh f)).
Proof.
  unfold node_name_at. destruct (vget (blocks (fh f)) i) eqn:E; [|discriminate]. intros _. eapply vget_some_lt; eauto.
Qed.

(* ---------------------------------------------------------------------------------------- *)
(* first-match search *)
Lemma find_from_first {A} (p : A -> bool) : forall l i0 i x,
  find_from p i0 l = Some (i, x) -> forall j y, i0 <= j -> j < i -> vget l (j - i0) = Some y -> p y = false.
Proof.
  induction l as [|a l IH]; intros i0 i x H j y Hj Hlt Hy; cbn [find_from] in H; [discriminate|].
  destruct (p a) eqn:Ep.
  - inversion H; subst. lia.
  - destruct (N.eq_dec j i0) as [->|Hne].
    + rewrite N.sub_diag in Hy. cbn in Hy. inversion Hy; subst. exact Ep.
    + apply (IH _ _ _ H j y); try lia.
      unfold vget in *. replace (N.to_nat (j - i0)) with (S (N.to_nat (j - (i0 + 1)))) in Hy by lia. exact Hy.
Qed.

Lemma find_from_none {A} (p : A -> bool) : forall l i0, find_from p i0 l = None -> forall x, In x l -> p x = false.
Proof.
  induction l as [|a l IH]; intros i0 H x Hx; [contradiction|]. cbn [find_from] in H.
  destruct (p a) eqn:Ep; [discriminate|]. destruct Hx as [<-|Hx]; [exact Ep|eauto].
Qed.

Definition name_is (f : file) (n : N) (b : block) : bool :=
  (is_node f b && match name_of f b with Some m => m =? n | None => false end)%bool.

Lemma name_is_true f n b : name_is f n b = true <-> is_node f b = true /\ name_of f b = Some n.
Proof.
  unfold name_is. rewrite andb_true_iff. split; intros [H1 H2]; split; auto.
  - destruct (name_of f b); [|discriminate]. apply N.eqb_eq in H2. congruence.
  - rewrite H2. apply N.eqb_refl.
Qed.

Lemma node_name_at_iff f i n :
  node_name_at f i = Some n <-> exists b, vget (blocks (fh f)) i = Some b /\ name_is f n b = true.
Proof.
  unfold node_name_at. split.
  - destruct (vget (blocks (fh f)) i) as [b|]; [|discriminate]. intros H. exists b. split; [reflexivity|].
    apply name_is_true. destruct (is_node f b); [auto|discriminate].
  - intros (b & -> & H). apply name_is_true in H. destruct H as [-> H]. exact H.
Qed.

(* FindBlockByName<NiNode>: the FIRST node of that name *)
Lemma find_node_some f n i b :
  find_node f n = Some (i, b) ->
  vget (blocks (fh f)) i = Some b /\ is_node f b = true /\ name_of f b = Some n /\
  node_name_at f i = Some n /\ (forall j, j < i -> node_name_at f j <> Some n).
Proof.
  unfold find_node. intros H. change (find_from (name_is f n) 0 (blocks (fh f)) = Some (i, b)) in H.
  destruct (find_from_spec _ _ _ _ _ H) as (_ & Hg & Hp). rewrite N.sub_0_r in Hg.
  pose proof (proj1 (name_is_true _ _ _) Hp) as [Hn Hm]. repeat split; auto.
  - apply node_name_at_iff. eauto.
  - intros j Hj Hc. apply node_name_at_iff in Hc. destruct Hc as (y & Hy & Hpy).
    assert (Hf : name_is f n y = false).
    { apply (find_from_first _ _ _ _ _ H j y); try lia. rewrite N.sub_0_r. exact Hy. }
    congruence.
Qed.

Lemma find_node_none f n : find_node f n = None -> forall i, node_name_at f i <> Some n.
Proof.
  unfold find_node. intros H i Hc. change (find_from (name_is f n) 0 (blocks (fh f)) = None) in H.
  apply node_name_at_iff in Hc. destruct Hc as (b & Hb & Hp).
  rewrite (find_from_none _ _ _ H b (in_vget _ _ _ Hb)) in Hp. discriminate.
Qed.

Lemma find_node_intro f n i :
  node_name_at f i = Some n -> (forall j, j < i -> node_name_at f j <> Some n) ->
  exists b, find_node f n = Some (i, b).
Proof.
  intros Hi Hfirst. destruct (find_node f n) as [[i' b']|] eqn:E.
  - destruct (find_node_some _ _ _ _ E) as (_ & _ & _ & Hn' & Hf').
    destruct (N.lt_trichotomy i' i) as [Hlt|[->|Hgt]].
    + exfalso. exact (Hfirst i' Hlt Hn').
    + eauto.
    + exfalso. exact (Hf' i Hgt Hi).
  - exfalso. exact (find_node_none _ _ E i Hi).
Qed.

Lemma find_node_found f n i : node_name_at f i = Some n -> find_node f n <> None.
Proof. intros H E. exact (find_node_none _ _ E i H). Qed.

(* two models that show the same node names below a bound, the second one having none of that name
   at or above it... : the search result is stable as long as names are preserved *)
Lemma find_node_stable f f' n i b :
  find_node f n = Some (i, b) ->
  (forall j, j <= i -> node_name_at f' j = node_name_at f j) ->
  exists b', find_node f' n = Some (i, b').
Proof.
  intros E H. destruct (find_node_some _ _ _ _ E) as (_ & _ & _ & Hn & Hf).
  apply find_node_intro.
  - rewrite H by lia. exact Hn.
  - intros j Hj. rewrite H by lia. auto.
Qed.

(* GetParentNode *)
Definition parent_is (f : file) (c : N) (b : block) : bool :=
  (is_node f b && existsb (N.eqb c) (node_children f b))%bool.

Lemma existsb_eqb_in c l : existsb (N.eqb c) l = true <-> In c l.
Proof.
  rewrite existsb_exists. split.
  - intros (x & Hx & He). apply N.eqb_eq in He. subst. exact Hx.
  - intros H. exists c. split; [exact H|apply N.eqb_refl].
Qed.

Lemma get_parent_some f c i b :
  get_parent f c = Some (i, b) ->
  vget (blocks (fh f)) i = Some b /\ is_node f b = true /\ In c (kids_at f i).
Proof.
  unfold get_parent. intros H. destruct (find_from_spec _ _ _ _ _ H) as (_ & Hg & Hp). rewrite N.sub_0_r in Hg.
  apply andb_true_iff in Hp. destruct Hp as [Hn Hc]. repeat split; auto.
  unfold kids_at. rewrite Hg. apply existsb_eqb_in. exact Hc.
Qed.

Lemma get_parent_first f c i b j :
  get_parent f c = Some (i, b) -> j < i -> node_name_at f j <> None -> ~ In c (kids_at f j).
Proof.
  unfold get_parent. intros H Hj Hn Hin. unfold node_name_at, kids_at in *.
  destruct (vget (blocks (fh f)) j) as [y|] eqn:Ey; [|contradiction].
  pose proof (find_from_first _ _ _ _ _ H j y ltac:(lia) Hj ltac:(rewrite N.sub_0_r; exact Ey)) as Hp.
  cbn beta in Hp. destruct (is_node f y); [|congruence]. cbn in Hp.
  apply existsb_eqb_in in Hin. congruence.
Qed.

(* ---------------------------------------------------------------------------------------- *)
(* list facts for AddBlockRef on a window of the reference list *)
Lemma window_insert {A} (cr : list A) (s l : nat) (x : A) : (s + l <= length cr)%nat ->
  firstn (S l) (skipn s (firstn (s + l) cr ++ x :: skipn (s + l) cr)) = firstn l (skipn s cr) ++ [x].
Proof.
  intros H. rewrite skipn_app. rewrite firstn_length_le by lia.
  replace (s - (s + l))%nat with 0%nat by lia. cbn [skipn].
  rewrite <- firstn_skipn_comm.
  assert (Hl : length (firstn l (skipn s cr)) = l) by (rewrite firstn_length_le; [reflexivity|rewrite skipn_length; lia]).
  rewrite firstn_app, Hl. replace (S l - l)%nat with 1%nat by lia. rewrite firstn_all2 by (rewrite Hl; lia).
  reflexivity.
Qed.

Lemma insert_at_length {A} (l : list A) i x : length (insert_at l i x) = S (length l).
Proof.
  unfold insert_at. rewrite app_length. cbn [length].
  rewrite <- (firstn_skipn (N.to_nat i) l) at 3. rewrite app_length. lia.
Qed.

Lemma insert_at_in {A} (l : list A) i x y : In y (insert_at l i x) <-> y = x \/ In y l.
Proof.
  unfold insert_at. rewrite in_app_iff. cbn [In]. rewrite <- (firstn_skipn (N.to_nat i) l) at 3. rewrite in_app_iff.
  intuition congruence.
Qed.

Lemma nth_error_ext' {A} : forall (l l' : list A), (forall n, nth_error l n = nth_error l' n) -> l = l'.
Proof.
  induction l as [|a l IH]; intros [|b l'] H; auto.
  - specialize (H 0%nat). discriminate.
  - specialize (H 0%nat). discriminate.
  - pose proof (H 0%nat) as H0. cbn in H0. inversion H0; subst. f_equal. apply IH. intros n. exact (H (S n)).
Qed.

Lemma NoDup_uid_inj (l : list block) i j b b' :
  NoDup (map uid l) -> vget l i = Some b -> vget l j = Some b' -> uid b = uid b' -> i = j.
Proof.
  intros Hnd Hi Hj He. unfold vget in *.
  assert (N.to_nat i = N.to_nat j); [|lia].
  apply (proj1 (NoDup_nth_error (map uid l)) Hnd).
  - rewrite map_length. apply nth_error_Some. congruence.
  - rewrite !nth_error_map, Hi, Hj. cbn. congruence.
Qed.

(* ---------------------------------------------------------------------------------------- *)
(* the invariant of the destination while nodes are cloned: the counters agree, no object sits in
   two slots, and the childRefs window of every node lies inside its reference list *)
Record HWF (st : cst) : Prop := mkHWF {
  h_wf : WF st;
  h_nodup : NoDup (map uid (bl st));
  h_win : forall i b s l cl cs, vget (bl st) i = Some b ->
            anode (heap (cfile st) (uid b)) = Some (s, l, cl, cs) -> s + l <= vlen (crefs b)
}.

(* the source's nodes: where the (emptied) childRefs of a CloneNamedNode result sits lies inside the
   result's reference list *)
Definition SrcWin (s : file) : Prop :=
  forall i b s0 l cl cs, vget (blocks (fh s)) i = Some b ->
    anode (heap s (uid b)) = Some (s0, l, cl, cs) -> cs <= vlen cl.

Lemma obs_iff f i b a : obs f i = Some (b, a) <-> vget (blocks (fh f)) i = Some b /\ a = heap f (uid b).
Proof.
  unfold obs. destruct (vget (blocks (fh f)) i) as [b'|]; split.
  - intros H. inversion H; subst. auto.
  - intros [H ->]. inversion H; subst. reflexivity.
  - discriminate.
  - intros [H _]. discriminate.
Qed.

(* parent->childRefs.AddBlockRef(id) *)
Definition bins (b : block) (pos id : N) : block := mkBlock (uid b) (tname b) (insert_at (crefs b) pos id) (ptrs b).
Definition shiftk (p k : N) : N := if p <=? k then k + 1 else k.
Definition abump (a : aux) (s l : N) (cl : list (option N)) (cs : N) : aux :=
  mkAux (astrs a) (atok a) (option_map (shiftk (s + l)) (adslot a)) (acached a) (anamepos a)
        (Some (s, l + 1, map (option_map (shiftk (s + l))) cl, cs)) (option_map (shiftk (s + l)) (askin a)) (abones a).

Lemma upd_block_uids f i g f' :
  upd_block f i g = Ok f' -> (forall b, uid (g b) = uid b) -> map uid (blocks (fh f')) = map uid (blocks (fh f)).
Proof.
  intros E Hg. destruct (upd_block_spec _ _ _ _ E) as (b & Hb & Hk & _).
  apply nth_error_ext'. intros n. rewrite !nth_error_map.
  specialize (Hk (N.of_nat n)). unfold vget in Hk, Hb. rewrite Nat2N.id in Hk. rewrite Hk.
  destruct (N.eqb_spec (N.of_nat n) i) as [<-|_]; [|reflexivity].
  rewrite Nat2N.id in Hb. rewrite Hb. cbn. rewrite Hg. reflexivity.
Qed.

Lemma add_child_spec f pi id f' :
  NoDup (map uid (blocks (fh f))) ->
  add_child f pi id = Ok f' ->
  exists b s l cl cs,
    vget (blocks (fh f)) pi = Some b /\ anode (heap f (uid b)) = Some (s, l, cl, cs) /\
    obs f' pi = Some (bins b (s + l) id, abump (heap f (uid b)) s l cl cs) /\
    (forall k, k <> pi -> obs f' k = obs f k) /\
    length (blocks (fh f')) = length (blocks (fh f)) /\ nblocks (fh f') = nblocks (fh f) /\
    map uid (blocks (fh f')) = map uid (blocks (fh f)) /\
    fstrs f' = fstrs f /\ fid f' = fid f /\ hown f' = hown f.
Proof.
  intros Hnd E. unfold add_child in E. destruct (vget (blocks (fh f)) pi) as [b|] eqn:Eb; [|discriminate].
  destruct (anode (heap f (uid b))) as [[[[s l] cl] cs]|] eqn:Ean; [|discriminate].
  match type of E with bind (upd_block f pi ?g) _ = _ => set (G := g) in * end.
  destruct (upd_block f pi G) as [f1| |] eqn:E1; cbn [bind] in E; try discriminate.
  inversion E; subst f'; clear E.
  destruct (upd_block_spec _ _ _ _ E1) as (b0 & Hb0 & Hk & Hl & Hn & Hh & Hs & Hf & Ho).
  rewrite Eb in Hb0. inversion Hb0; subst b0; clear Hb0.
  exists b, s, l, cl, cs. split; [reflexivity|]. split; [exact Ean|]. split; [|split; [|split; [|split; [|split]]]].
  - unfold obs. cbn [set_heap fh heap]. rewrite Hk, N.eqb_refl. unfold G. cbn [uid]. unfold upd. rewrite N.eqb_refl. reflexivity.
  - intros k Hne. unfold obs. cbn [set_heap fh heap]. rewrite Hk. destruct (N.eqb_spec k pi); [congruence|].
    destruct (vget (blocks (fh f)) k) as [bk|] eqn:Ek; [|reflexivity]. unfold upd.
    destruct (N.eqb_spec (uid bk) (uid b)) as [He|_]; [|rewrite Hh; reflexivity].
    exfalso. apply Hne. eapply NoDup_uid_inj; eauto.
  - exact Hl.
  - exact Hn.
  - apply (upd_block_uids _ _ _ _ E1). intros; reflexivity.
  - cbn. auto.
Qed.

Lemma add_child_ok f pi id b s l cl cs :
  vget (blocks (fh f)) pi = Some b -> anode (heap f (uid b)) = Some (s, l, cl, cs) -> exists f', add_child f pi id = Ok f'.
Proof.
  intros Hb Ha. unfold add_child. rewrite Hb, Ha.
  match goal with |- exists _, bind (upd_block f pi ?g) _ = _ => destruct (upd_block_ok f pi g b Hb) as (f1 & ->) end.
  cbn [bind]. eauto.
Qed.

Lemma in_map_uid (l : list block) u : In u (map uid l) -> exists b, In b l /\ uid b = u.
Proof. intros H. apply in_map_iff in H. destruct H as (b & <- & Hb). eauto. Qed.

Lemma hwf_add_child st pi id f' : HWF st -> add_child (cfile st) pi id = Ok f' -> HWF (mkCst f' (cnext st)).
Proof.
  intros [[Hnb Hu] Hnd Hw] E. unfold bl in *.
  destruct (add_child_spec _ _ _ _ Hnd E) as (b & s & l & cl & cs & Hb & Ha & Hp & Hk & Hl & Hn & Hm & _).
  constructor; [constructor|..]; unfold bl; cbn [cfile cnext].
  - rewrite Hn, Hnb. unfold vlen. rewrite Hl. reflexivity.
  - intros c Hc. apply (in_map uid) in Hc. rewrite Hm in Hc. destruct (in_map_uid _ _ Hc) as (c0 & Hc0 & <-). auto.
  - rewrite Hm. exact Hnd.
  - intros i c s' l' cl' cs' Hc Hac. destruct (N.eq_dec i pi) as [->|Hne].
    + apply obs_iff in Hp. destruct Hp as [Hp1 Hp2]. rewrite Hp1 in Hc. inversion Hc; subst c. cbn [bins uid] in *.
      rewrite <- Hp2 in Hac. cbn [abump anode] in Hac. injection Hac as <- <- <- <-. cbn [crefs].
      specialize (Hw pi b s l cl cs Hb Ha). unfold vlen in *. cbn [bins crefs]. rewrite insert_at_length. lia.
    + specialize (Hk i Hne). assert (Ho : obs f' i = Some (c, heap f' (uid c))) by (apply obs_iff; auto).
      rewrite Hk in Ho. apply obs_iff in Ho. destruct Ho as [Ho1 Ho2]. rewrite Ho2 in Hac. eauto.
Qed.

(* clearing, in the old parent, every child reference that designates the moved node *)
Lemma clear_spec f opi bid f1 :
  upd_block f opi (clear_refs_to bid) = Ok f1 ->
  exists ob, vget (blocks (fh f)) opi = Some ob /\
    obs f1 opi = Some (clear_refs_to bid ob, heap f (uid ob)) /\
    (forall k, k <> opi -> obs f1 k = obs f k) /\
    length (blocks (fh f1)) = length (blocks (fh f)) /\ nblocks (fh f1) = nblocks (fh f) /\
    map uid (blocks (fh f1)) = map uid (blocks (fh f)) /\ heap f1 = heap f /\
    fstrs f1 = fstrs f /\ fid f1 = fid f /\ hown f1 = hown f.
Proof.
  intros E. destruct (upd_block_spec _ _ _ _ E) as (ob & Hob & Hk & Hl & Hn & Hh & Hs & Hf & Ho).
  exists ob. split; [exact Hob|]. split; [|split; [|split; [|split; [|split]]]]; auto.
  - unfold obs. rewrite Hk, N.eqb_refl, Hh. reflexivity.
  - intros k Hne. unfold obs. rewrite Hk, Hh. destruct (N.eqb_spec k opi); [congruence|reflexivity].
  - apply (upd_block_uids _ _ _ _ E). intros; reflexivity.
Qed.

Lemma hwf_clear st opi bid f1 : HWF st -> upd_block (cfile st) opi (clear_refs_to bid) = Ok f1 -> HWF (mkCst f1 (cnext st)).
Proof.
  intros [HW Hnd Hw] E. destruct (clear_spec _ _ _ _ E) as (ob & Hob & Ho & Hk & Hl & Hn & Hm & Hh & _).
  constructor.
  - apply (wf_upd st f1 opi (clear_refs_to bid) HW E). intros; reflexivity.
  - unfold bl. cbn [cfile]. rewrite Hm. exact Hnd.
  - unfold bl. cbn [cfile]. intros i c s l cl cs Hc Hac. rewrite Hh in Hac. destruct (N.eq_dec i opi) as [->|Hne].
    + apply obs_iff in Ho. destruct Ho as [Ho1 _]. rewrite Ho1 in Hc. inversion Hc; subst c. cbn [clear_refs_to uid crefs] in *.
      specialize (Hw opi ob s l cl cs Hob Hac). unfold vlen in *. rewrite map_length. exact Hw.
    + specialize (Hk i Hne). assert (Hx : obs f1 i = Some (c, heap f1 (uid c))) by (apply obs_iff; auto).
      rewrite Hk in Hx. apply obs_iff in Hx. destruct Hx as [Hx1 _]. eauto.
Qed.

(* the parent a cloned / reused node is put under: the first destination node that carries the name of
   the source node's parent, the destination root otherwise *)
Definition spn (s : file) (sn : N) : option N :=
  match get_parent s sn with Some (_, spb) => name_of s spb | None => None end.
Definition ptarget (d : file) (root : N) (o : option N) : N :=
  match o with
  | Some pn => match find_node d pn with Some (pi, _) => pi | None => root end
  | None => root
  end.

Lemma ptarget_lt d root o : root < vlen (blocks (fh d)) -> ptarget d root o < vlen (blocks (fh d)).
Proof.
  intros H. unfold ptarget. destruct o as [pn|]; [|exact H].
  destruct (find_node d pn) as [[pi b]|] eqn:E; [|exact H].
  destruct (find_node_some _ _ _ _ E) as (Hg & _). eapply vget_some_lt; eauto.
Qed.

(* ---- what one cloneNodes call does to the destination, case by case ---- *)
(* the name is absent: a clone of the source's first node of that name is appended (all references
   and pointers empty, no children) and becomes the last child of [pt] *)
Definition Created (st st' : cst) (pt bone : N) (srcx : block * aux) : Prop :=
  let d := cfile st in let d' := cfile st' in let L := vlen (bl st) in
  pt < L /\ vlen (bl st') = L + 1 /\ cnext st' = cnext st + 1 /\
  fstrs d' = fstrs d /\ fid d' = fid d /\ hown d' = hown d /\
  (forall k, k < L -> k <> pt -> obs d' k = obs d k) /\
  (exists pb pa s l cl cs, obs d pt = Some (pb, pa) /\ anode pa = Some (s, l, cl, cs) /\
       obs d' pt = Some (bins pb (s + l) L, abump pa s l cl cs)) /\
  (exists nb na, obs d' L = Some (nb, na) /\ uid nb = cnext st /\ tname nb = tname (fst srcx) /\
       Forall (fun r => r = NPOS) (crefs nb) /\ Forall (fun r => r = NPOS) (ptrs nb) /\
       astrs na = astrs (snd srcx) /\ atok na = atok (snd srcx) /\ anamepos na = anamepos (snd srcx) /\
       abones na = abones (snd srcx) /\ acached na = None /\
       (exists cl cs, anode na = Some (cs, 0, cl, cs)) /\ x_name (nb, na) = Some bone).

(* the name exists under another parent and the target is not the root: the node [bid] is taken out
   of its old parent [opi] (every reference to it emptied) and becomes the last child of [pt] *)
Definition Moved (st st' : cst) (opi pt bid : N) : Prop :=
  let d := cfile st in let d' := cfile st' in let L := vlen (bl st) in
  pt < L /\ opi < L /\ bid < L /\ opi <> pt /\ vlen (bl st') = L /\ cnext st' = cnext st /\
  fstrs d' = fstrs d /\ fid d' = fid d /\ hown d' = hown d /\
  (forall k, k <> opi -> k <> pt -> obs d' k = obs d k) /\
  (exists ob oa, obs d opi = Some (ob, oa) /\ anode oa <> None /\ obs d' opi = Some (clear_refs_to bid ob, oa)) /\
  (exists pb pa s l cl cs, obs d pt = Some (pb, pa) /\ anode pa = Some (s, l, cl, cs) /\
       obs d' pt = Some (bins pb (s + l) bid, abump pa s l cl cs)).

Definition StepCases (s : file) (st st' : cst) (root sn bone : N) : Prop :=
  let d := cfile st in
  let pt := ptarget d root (spn s sn) in
  (find_node d bone = None /\
     exists i sb, find_node s bone = Some (i, sb) /\ Created st st' pt bone (sb, heap s (uid sb))) \/
  (exists bid b opi ob, find_node d bone = Some (bid, b) /\ get_parent d bid = Some (opi, ob) /\
     opi <> pt /\ pt <> root /\ Moved st st' opi pt bid) \/
  (find_node d bone <> None /\ st' = st).

(* ---------------------------------------------------------------------------------------- *)
(* the model's step, with the parent target named *)
Lemma clone_node_step_eq src st root sn :
  clone_node_step src st root sn =
  let s := src_of src st in
  match vget (blocks (fh s)) sn with
  | None => Fault
  | Some snb =>
    match name_of s snb with
    | None => Fault
    | Some bone =>
      let d := cfile st in
      let pt := ptarget d root (spn s sn) in
      bind
        (match find_node d bone with
         | None =>
           let '(st1, bid) := clone_named_node src st bone in
           bind (add_child (cfile st1) pt bid) (fun f => Ok (mkCst f (cnext st1)))
         | Some (bid, _) =>
           match get_parent d bid with
           | Some (opi, _) =>
             if (negb (opi =? pt) && negb (pt =? root))%bool then
               bind (upd_block d opi (clear_refs_to bid)) (fun f1 =>
               bind (add_child f1 pt bid) (fun f2 => Ok (mkCst f2 (cnext st))))
             else Ok st
           | None => Ok st
           end
         end)
        (fun st' =>
           match vget (blocks (fh (src_of src st'))) sn with
           | Some snb' => Ok (st', node_children (src_of src st') snb')
           | None => Fault
           end)
    end
  end.
Proof.
  unfold clone_node_step, ptarget, spn. cbv zeta.
  destruct (vget (blocks (fh (src_of src st))) sn) as [snb|]; [|reflexivity].
  destruct (name_of (src_of src st) snb) as [bone|]; [|reflexivity].
  destruct (get_parent (src_of src st) sn) as [[? spb]|]; [destruct (name_of (src_of src st) spb)|]; reflexivity.
Qed.

From Coq Require Import Permutation.

Lemma add_object_obs st tn cr pt a : WF st ->
  let st1 := fst (add_object st tn cr pt a) in
  (forall k, k < vlen (bl st) -> obs (cfile st1) k = obs (cfile st) k) /\
  obs (cfile st1) (vlen (bl st)) = Some (mkBlock (cnext st) tn cr pt, a).
Proof.
  intros HW. destruct (add_object_spec st tn cr pt a HW) as (_ & Eb & _ & _ & _ & Eh & _). cbv zeta.
  set (st1 := fst (add_object st tn cr pt a)) in *. unfold bl in Eb. split.
  - intros k Hk. unfold obs. rewrite Eb, vget_app1 by exact Hk.
    destruct (vget (blocks (fh (cfile st))) k) as [bk|] eqn:Ek; [|reflexivity]. rewrite Eh.
    destruct (N.eqb_spec (uid bk) (cnext st)) as [He|_]; [|reflexivity].
    exfalso. pose proof (wf_uid _ HW bk (in_vget _ _ _ Ek)). lia.
  - unfold obs. rewrite Eb. unfold bl. rewrite vget_app_last. cbn [uid]. rewrite Eh, N.eqb_refl. reflexivity.
Qed.

Lemma hwf_add_object st tn cr pt a :
  HWF st -> (forall s l cl cs, anode a = Some (s, l, cl, cs) -> s + l <= vlen cr) ->
  HWF (fst (add_object st tn cr pt a)).
Proof.
  intros [HW Hnd Hw] Ha. destruct (add_object_spec st tn cr pt a HW) as (HW1 & Eb & _ & _ & _ & Eh & _).
  destruct (add_object_obs st tn cr pt a HW) as (Ho1 & Ho2).
  set (st1 := fst (add_object st tn cr pt a)) in *. constructor; [exact HW1|..].
  - rewrite Eb, map_app. cbn [map uid]. eapply Permutation_NoDup; [apply Permutation_cons_append|].
    constructor; [|exact Hnd]. intros Hin. destruct (in_map_uid _ _ Hin) as (b & Hb & He).
    pose proof (wf_uid _ HW b Hb). lia.
  - intros i b s l cl cs Hb Hab.
    assert (Hx : obs (cfile st1) i = Some (b, heap (cfile st1) (uid b))) by (apply obs_iff; auto).
    pose proof (vget_some_lt _ _ _ Hb) as Hlt. rewrite Eb, vlen_app in Hlt. change (vlen [_]) with 1 in Hlt.
    destruct (N.eq_dec i (vlen (bl st))) as [->|Hne].
    + rewrite Ho2 in Hx. injection Hx as Hx1 _. subst b. rewrite Eh in Hab. cbn [uid crefs] in *. rewrite N.eqb_refl in Hab. eauto.
    + rewrite Ho1 in Hx by lia. apply obs_iff in Hx. destruct Hx as [Hx1 Hx2]. rewrite Hx2 in Hab. eauto.
Qed.

(* ---- one cloneNodes call when the source is ANOTHER model ---- *)
Section StepOther.
Variable s : file.
Hypothesis Hsw : SrcWin s.

Lemma step_other st root sn snb st' ks :
  HWF st -> root < vlen (bl st) ->
  vget (blocks (fh s)) sn = Some snb -> is_node s snb = true ->
  clone_node_step (Some s) st root sn = Ok (st', ks) ->
  ks = node_children s snb /\ HWF st' /\
  exists bone, name_of s snb = Some bone /\ StepCases s st st' root sn bone.
Proof.
  intros HH Hroot Hsn Hnode E. rewrite clone_node_step_eq in E. cbn [src_of] in E. cbv zeta in E. rewrite Hsn in E.
  destruct (name_of s snb) as [bone|] eqn:Ebone; [|discriminate].
  pose proof (ptarget_lt (cfile st) root (spn s sn) Hroot) as Hpt.
  set (pt := ptarget (cfile st) root (spn s sn)) in *.
  unfold StepCases. cbv zeta. fold pt.
  destruct (find_node (cfile st) bone) as [[bid b]|] eqn:Ef.
  - (* the name exists in the destination *)
    assert (Hsame : forall stx, Ok st = Ok stx -> stx = st) by (intros stx Hx; inversion Hx; reflexivity).
    destruct (get_parent (cfile st) bid) as [[opi ob]|] eqn:Egp.
    + destruct (negb (opi =? pt) && negb (pt =? root))%bool eqn:Ec.
      * (* moved *)
        destruct (upd_block (cfile st) opi (clear_refs_to bid)) as [f1| |] eqn:E1; cbn [bind] in E; try discriminate.
        destruct (add_child f1 pt bid) as [f2| |] eqn:E2; cbn [bind] in E; try discriminate.
        inversion E; subst st' ks; clear E.
        apply andb_true_iff in Ec. destruct Ec as [Ec1 Ec2]. apply negb_true_iff in Ec1, Ec2.
        apply N.eqb_neq in Ec1, Ec2.
        pose proof (hwf_clear st opi bid f1 HH E1) as HH1.
        pose proof (hwf_add_child (mkCst f1 (cnext st)) pt bid f2 HH1 E2) as HH2. cbn [cnext] in HH2.
        split; [reflexivity|]. split; [exact HH2|]. exists bone. split; [reflexivity|].
        right. left. exists bid, b, opi, ob. split; [exact Ef|]. split; [exact Egp|]. split; [exact Ec1|]. split; [exact Ec2|].
        destruct (clear_spec _ _ _ _ E1) as (ob' & Hob' & Ho1 & Hk1 & Hl1 & Hn1 & Hm1 & Hh1 & Hs1 & Hf1 & Hw1).
        destruct (add_child_spec f1 pt bid f2 (h_nodup _ HH1) E2) as (pb & s0 & l & cl & cs & Hpb & Hpa & Hp2 & Hk2 & Hl2 & Hn2 & Hm2 & Hs2 & Hf2 & Hw2).
        destruct (get_parent_some _ _ _ _ Egp) as (Hgo & Hno & _). rewrite Hgo in Hob'. inversion Hob'; subst ob'; clear Hob'.
        destruct (find_node_some _ _ _ _ Ef) as (Hgb & _).
        unfold Moved. cbv zeta. unfold bl. cbn [cfile cnext].
        split; [exact Hpt|]. split; [eapply vget_some_lt; eauto|]. split; [eapply vget_some_lt; eauto|]. split; [exact Ec1|].
        split; [unfold vlen; rewrite Hl2, Hl1; reflexivity|]. split; [reflexivity|].
        split; [congruence|]. split; [congruence|]. split; [congruence|]. split; [|split].
        -- intros k Hk Hk'. rewrite Hk2 by exact Hk'. apply Hk1. exact Hk.
        -- exists ob, (heap (cfile st) (uid ob)). split; [apply obs_iff; auto|]. split.
           { unfold is_node in Hno. destruct (anode (heap (cfile st) (uid ob))); [discriminate|discriminate Hno]. }
           rewrite Hk2 by exact Ec1. exact Ho1.
        -- assert (Hx : obs f1 pt = Some (pb, heap f1 (uid pb))) by (apply obs_iff; auto).
           rewrite Hk1 in Hx by (intros ->; congruence).
           exists pb, (heap f1 (uid pb)), s0, l, cl, cs. split; [exact Hx|]. split; [exact Hpa|exact Hp2].
      * cbn [bind] in E. inversion E; subst.
        split; [reflexivity|]. split; [exact HH|]. exists bone. split; [reflexivity|]. right. right. split; [congruence|reflexivity].
    + cbn [bind] in E. inversion E; subst.
      split; [reflexivity|]. split; [exact HH|]. exists bone. split; [reflexivity|]. right. right. split; [congruence|reflexivity].
  - (* the name is absent: CloneNamedNode, AddBlockRef *)
    assert (Hsname : node_name_at s sn = Some bone) by (unfold node_name_at; rewrite Hsn, Hnode; exact Ebone).
    destruct (find_node s bone) as [[i sb]|] eqn:Efs; [|exfalso; exact (find_node_found _ _ _ Hsname Efs)].
    destruct (find_node_some _ _ _ _ Efs) as (Hgsb & Hnsb & Hname & _).
    destruct (clone_named_node (Some s) st bone) as [st1 bid] eqn:Ecn.
    unfold clone_named_node in Ecn. cbn [src_of] in Ecn. rewrite Efs in Ecn.
    unfold is_node in Hnsb. destruct (anode (heap s (uid sb))) as [[[[s0 l0] cl] cs]|] eqn:Ean; [|discriminate].
    set (sa := heap s (uid sb)) in *.
    match type of Ecn with add_object st ?tn ?cr ?pp ?a = _ => set (ncr := cr) in *; set (npt := pp) in *; set (na := a) in * end.
    assert (Hncr : Forall (fun r => r = NPOS) ncr /\ length ncr = length cl).
    { unfold ncr. split; [|rewrite !map_length; reflexivity].
      apply Forall_forall. intros r Hr. apply in_map_iff in Hr. destruct Hr as (? & <- & _). reflexivity. }
    assert (Hnpt : Forall (fun r => r = NPOS) npt).
    { apply Forall_forall. intros r Hr. apply in_map_iff in Hr. destruct Hr as (? & <- & _). reflexivity. }
    pose proof (h_wf _ HH) as HW.
    pose proof (add_object_spec st (tname sb) ncr npt na HW) as Hadd.
    pose proof (add_object_obs st (tname sb) ncr npt na HW) as Hobs.
    assert (HH1 : HWF (fst (add_object st (tname sb) ncr npt na))).
    { apply hwf_add_object; [exact HH|]. intros s' l' cl' cs' Ha. unfold na in Ha. cbn [anode] in Ha.
      injection Ha as <- <- <- <-. unfold vlen. rewrite (proj2 Hncr). pose proof (Hsw i sb s0 l0 cl cs Hgsb Ean). unfold vlen in *. lia. }
    cbv zeta in Hadd, Hobs. rewrite Ecn in Hadd, Hobs, HH1. cbn [fst snd] in Hadd, Hobs, HH1.
    destruct Hadd as (HW1 & Eb1 & Eid & En1 & Es1 & Eh1 & Ef1 & Eo1). destruct Hobs as (Ho1 & Ho2).
    destruct (add_child (cfile st1) pt bid) as [f2| |] eqn:E2; cbn [bind] in E; try discriminate.
    inversion E; subst st' ks; clear E.
    pose proof (hwf_add_child st1 pt bid f2 HH1 E2) as HH2.
    split; [reflexivity|]. split; [exact HH2|]. exists bone. split; [reflexivity|].
    left. split; [exact Ef|]. exists i, sb. split; [exact Efs|].
    destruct (add_child_spec (cfile st1) pt bid f2 (h_nodup _ HH1) E2) as (pb & s1 & l & cl1 & cs1 & Hpb & Hpa & Hp2 & Hk2 & Hl2 & Hn2 & Hm2 & Hs2 & Hf2 & Hw2).
    assert (HL1 : vlen (bl st1) = vlen (bl st) + 1) by (rewrite Eb1, vlen_app; reflexivity).
    unfold Created. cbv zeta. unfold bl in *. cbn [cfile cnext fst snd].
    split; [exact Hpt|]. split; [unfold vlen in *; rewrite Hl2; exact HL1|]. split; [exact En1|].
    split; [congruence|]. split; [congruence|]. split; [congruence|]. split; [|split].
    + intros k Hk Hne. rewrite Hk2 by exact Hne. apply Ho1. exact Hk.
    + assert (Hx : obs (cfile st1) pt = Some (pb, heap (cfile st1) (uid pb))) by (apply obs_iff; auto).
      rewrite Ho1 in Hx by exact Hpt.
      exists pb, (heap (cfile st1) (uid pb)), s1, l, cl1, cs1. rewrite <- Eid. split; [exact Hx|]. split; [exact Hpa|exact Hp2].
    + exists (mkBlock (cnext st) (tname sb) ncr npt), na. rewrite Hk2 by lia. split; [exact Ho2|]. cbn [uid tname crefs ptrs].
      split; [reflexivity|]. split; [reflexivity|]. split; [exact (proj1 Hncr)|]. split; [exact Hnpt|].
      unfold na. cbn [astrs atok anamepos abones acached anode].
      split; [reflexivity|]. split; [reflexivity|]. split; [reflexivity|]. split; [reflexivity|]. split; [reflexivity|].
      split; [eauto|]. unfold x_name. cbn [snd anode anamepos astrs]. unfold name_of in Hname. exact Hname.
Qed.
End StepOther.
