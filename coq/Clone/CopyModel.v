(* Two-file heap model of whole-model copying:
   NifFile::CopyFrom / copy constructor / operator= (src/NifFile.cpp:96-114), NifFile::LinkGeomData
   (src/NifFile.cpp:116-127), NiTriShape::SetGeomData and siblings (src/Geometry.cpp:2073-2081,
   2246-2256, 2270-2280, 2312-2320, 2329-2337), the CRTP Clone() (include/BasicTypes.hpp:451-510:
   `new Derived(asDer())`, i.e. the implicit member-wise copy constructor).

   A NifFile is a header (the block table of Graph/GraphModel.v, whose blocks carry a ghost object
   identity [uid] = the address of the C++ object) plus, per object, the fields that are not block
   references: string values, a token for every other serialised byte, and - for NiGeometry
   shapes - the position of DataRef() among the child references and the CACHED RAW POINTER to the
   geometry data object (NiTriShape::shapeData, ...). A raw pointer is (file, object): the model
   whose block vector owned the object when the pointer was taken, and the object's identity.
   Index shifts (DeleteBlock, SetBlockOrder) rewrite references, never raw pointers. *)
From NiflyVerif Require Export Res GraphModel GraphInv.
Local Open Scope N_scope.

Record aux := mkAux {
  astrs   : list N;            (* NiStringRef values in Put order *)
  atok    : N;                 (* every other byte Put writes (references masked) *)
  adslot  : option N;          (* dynamic_cast<NiGeometry*> succeeds: position of DataRef() in crefs *)
  acached : option (N * N);    (* shapeData / stripsData / linesData / elemData; None = nullptr *)
  (* used by the shape-cloning model (CloneModel.v) only *)
  anamepos : option N;         (* NiObjectNET: position of `name` among the strings *)
  anode   : option (N * N * list (option N) * N);
                               (* dynamic_cast<NiNode*> succeeds: childRefs = crefs[start, start+len); the child
                                  references of the CloneNamedNode result (collision, controller, children,
                                  effects cleared): Some p = the reference at position p survives, None = a
                                  cleared member reference; and where its (empty) childRefs then sits *)
  askin   : option N;          (* NiShape: position of SkinInstanceRef() in crefs *)
  abones  : option (N * N)     (* NiBoneContainer: boneRefs = ptrs[start, start+len) *)
}.
Definition aux0 : aux := mkAux [] 0 None None None None None None.
Definition set_cached (a : aux) (p : option (N * N)) : aux :=
  mkAux (astrs a) (atok a) (adslot a) p (anamepos a) (anode a) (askin a) (abones a).

Record file := mkFile {
  fid   : N;                   (* ghost identity of the NifFile object *)
  fh    : hdr;                 (* NiHeader tables and the block vector *)
  hown  : N;                   (* the NifFile whose vector hdr.blocks points to (SetBlockReference) *)
  fstrs : list N;              (* header string table *)
  heap  : N -> aux             (* object identity -> non-reference fields *)
}.

Definition upd (hp : N -> aux) (u : N) (a : aux) : N -> aux := fun x => if x =? u then a else hp x.

(* [compat shape_type data_type]: the dynamic_cast inside SetGeomData of the shape's class accepts
   an object of the data block's class (NiTriShape/BSLODTriShape: NiTriShapeData and derived,
   NiTriStrips: NiTriStripsData, NiLines: NiLinesData, NiScreenElements: NiScreenElementsData) *)
Section Copy.
Variable compat : N -> N -> bool.

(* ---- blocks[i] = other.blocks[i]->Clone()  for i = 0 .. nBlocks-1 ----
   the clone is a new object (identity base+i) with member-wise copied fields *)
Fixpoint clone_all (base i : N) (bl : list block) : list block :=
  match bl with
  | [] => []
  | b :: r => mkBlock (base + i) (tname b) (crefs b) (ptrs b) :: clone_all base (i + 1) r
  end.

(* the fields of the new objects: copied verbatim, the cached pointer included *)
Definition clone_heap (base : N) (bl : list block) (hp : N -> aux) : N -> aux :=
  fun u => if ((base <=? u) && (u <? base + vlen bl))%bool
           then match vget bl (u - base) with Some b => hp (uid b) | None => aux0 end
           else aux0.

(* ---- LinkGeomData, one iteration of `for (auto& block : blocks)` ----
   geom = dynamic_cast<NiGeometry*>(block)            -> adslot is Some
   geomData = hdr.GetBlock(geom->DataRef())           -> index != NPOS && index < numBlocks, then
                                                          blocks->at(index) (Fault outside the vector)
   if (geomData) geom->SetGeomData(geomData)          -> stored only when the dynamic_cast succeeds *)
Definition link_one (me : N) (bl : list block) (nb : N) (b : block) (hp : N -> aux) : res (N -> aux) :=
  let a := hp (uid b) in
  match adslot a with
  | None => Ok hp
  | Some k =>
    match vget (crefs b) k with
    | None => Fault                                   (* DataRef() is always one of the child refs *)
    | Some r =>
      if (negb (r =? NPOS) && (r <? nb))%bool then
        match vget bl r with
        | None => Fault
        | Some d => if compat (tname b) (tname d)
                    then Ok (upd hp (uid b) (set_cached a (Some (me, uid d))))
                    else Ok hp
        end
      else Ok hp
    end
  end.

Fixpoint link_loop (me : N) (bl : list block) (nb : N) (todo : list block) (hp : N -> aux) : res (N -> aux) :=
  match todo with
  | [] => Ok hp
  | b :: r => bind (link_one me bl nb b hp) (fun hp' => link_loop me bl nb r hp')
  end.

Definition link_geom_data (f : file) : res file :=
  bind (link_loop (hown f) (blocks (fh f)) (nblocks (fh f)) (blocks (fh f)) (heap f)) (fun hp =>
    Ok (mkFile (fid f) (fh f) (hown f) (fstrs f) hp)).

(* ---- CopyFrom ----
   if (isValid) Clear();  hdr = NiHeader(other.hdr);  blocks.resize(n);  clone loop;
   hdr.SetBlockReference(&blocks);  LinkGeomData();
   [me] = identity of the destination NifFile, [base] = first identity handed out by operator new *)
Definition copy_from (me base : N) (other : file) : res file :=
  let h := fh other in
  let bl' := clone_all base 0 (blocks h) in
  let h' := mkHdr bl' (nblocks h) (tnames h) (ntypes h) (tidx h) (sizes h) (has_sizes h) in
  link_geom_data (mkFile me h' me (fstrs other) (clone_heap base (blocks h) (heap other))).

(* the copied header still points to the OTHER model's vector until SetBlockReference runs; this is
   the state in between (nothing dereferences hdr.blocks there) *)
Definition copy_from_before_rebind (me base : N) (other : file) : file :=
  let h := fh other in
  mkFile me (mkHdr (clone_all base 0 (blocks h)) (nblocks h) (tnames h) (ntypes h) (tidx h) (sizes h) (has_sizes h))
         (hown other) (fstrs other) (clone_heap base (blocks h) (heap other)).

(* ---- what Save writes, as far as the model can see it: header tables, string table and per
   block its class, references, strings and payload token - not the identities, not the cached
   pointers ---- *)
Definition bview := (N * list N * list N * list N * N)%type.
Definition block_view (hp : N -> aux) (b : block) : bview :=
  (tname b, crefs b, ptrs b, astrs (hp (uid b)), atok (hp (uid b))).
Definition save_view (f : file) :=
  (nblocks (fh f), tnames (fh f), ntypes (fh f), tidx (fh f), sizes (fh f), has_sizes (fh f), fstrs f,
   map (block_view (heap f)) (blocks (fh f))).

(* ---- edits of one model ---- *)
Definition with_hdr (f : file) (h : hdr) : file := mkFile (fid f) h (hown f) (fstrs f) (heap f).

(* hdr.AddBlock(new object with fields a, no cached pointer yet) *)
Definition f_add (f : file) (b : block) (a : aux) : file :=
  mkFile (fid f) (fst (add_block (fh f) b)) (hown f) (fstrs f) (upd (heap f) (uid b) (set_cached a None)).
Definition f_delete (f : file) (id : N) : res file := bind (delete_block (fh f) id) (fun h => Ok (with_hdr f h)).
Definition f_order (f : file) (order : list N) : res file := bind (set_block_order (fh f) order) (fun h => Ok (with_hdr f h)).
(* any change of the non-reference fields of one object (vertex deletion, SetVertsForShape, texture
   path edit, renaming): strings and payload change, the cached pointer does not *)
Definition f_payload (f : file) (u : N) (strs : list N) (tok : N) : file :=
  mkFile (fid f) (fh f) (hown f) (fstrs f)
         (upd (heap f) u (let a := heap f u in mkAux strs tok (adslot a) (acached a) (anamepos a) (anode a) (askin a) (abones a))).

(* ---- the two-model world and what one model shows through its accessors ----
   geometry accessors of a NiGeometry shape dereference the cached pointer *)
Definition world := N -> option file.
Definition deref (W : world) (p : N * N) : option N :=
  match W (fst p) with
  | Some g => if existsb (N.eqb (snd p)) (map uid (blocks (fh g))) then Some (atok (heap g (snd p))) else None
  | None => None                                       (* the owner was destroyed: dangling *)
  end.
Definition geom_seen (W : world) (f : file) : list (option (option N)) :=
  map (fun b => option_map (deref W) (acached (heap f (uid b)))) (blocks (fh f)).
Definition observe (W : world) (f : file) := (save_view f, geom_seen W f).

Definition wset (W : world) (k : N) (o : option file) : world := fun x => if x =? k then o else W x.

(* ---- the ownership invariant ---- *)
Definition linked (me : N) (v : list entry) (hp : N -> aux) (e : entry) : Prop :=
  let '(u, t, cs, ps) := e in
  match adslot (hp u) with
  | None => acached (hp u) = None
  | Some k => acached (hp u) = None \/
              exists w tw cw pw, vget cs k = Some (Some w) /\ In (w, tw, cw, pw) v /\
                                 compat t tw = true /\ acached (hp u) = Some (me, w)
  end.
Definition LinkInv (f : file) : Prop :=
  hown f = fid f /\ Forall (linked (fid f) (view (fh f)) (heap f)) (view (fh f)).

(* decidable form used on the implementation's dumps *)
Definition linked_b (me : N) (v : list entry) (hp : N -> aux) (e : entry) : bool :=
  let '(u, t, cs, ps) := e in
  match acached (hp u) with
  | None => true
  | Some (o, w) =>
    match adslot (hp u) with
    | None => false
    | Some k =>
      ((o =? me) &&
       match vget cs k with
       | Some (Some w') => (w' =? w) && existsb (fun e' => let '(u', t', _, _) := e' in (u' =? w) && compat t t') v
       | _ => false
       end)%bool
    end
  end.
Definition link_inv_b (f : file) : bool :=
  ((hown f =? fid f) && forallb (linked_b (fid f) (view (fh f)) (heap f)) (view (fh f)))%bool.

End Copy.
