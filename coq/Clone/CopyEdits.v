(* The ownership invariant under edits of one model, what it buys (observations of one model do
   not depend on the other), and what happens without it. *)
From NiflyVerif Require Import Res GraphModel GraphInv GraphDelete GraphAdd GraphOrder GraphSteps CopyModel CopyProofs.
From Coq Require Import ZifyBool ZifyNat ZifyN.
Local Open Scope N_scope.

Section CopyEdits.
Variable compat : N -> N -> bool.

(* ---- boolean form of the invariant ---- *)
Lemma linked_b_iff me v hp e : linked_b compat me v hp e = true <-> linked compat me v hp e.
Proof.
  destruct e as [[[u t] cs] ps]. unfold linked_b, linked.
  destruct (acached (hp u)) as [[o w]|] eqn:Ec.
  - destruct (adslot (hp u)) as [k|] eqn:Ek.
    + split.
      * intros H. apply andb_true_iff in H. destruct H as [Ho H]. apply N.eqb_eq in Ho. subst o.
        destruct (vget cs k) as [[w'|]|] eqn:Eg; try discriminate.
        apply andb_true_iff in H. destruct H as [Hw H]. apply N.eqb_eq in Hw. subst w'.
        apply existsb_exists in H. destruct H as ([[[u' t'] c'] p'] & Hin & H).
        apply andb_true_iff in H. destruct H as [Hu Hc]. apply N.eqb_eq in Hu. subst u'.
        right. exists w, t', c', p'. auto.
      * intros [H|(w' & tw & cw & pw & Hg & Hin & Hc & Ha)]; [discriminate|].
        inversion Ha; subst. rewrite N.eqb_refl, Hg, N.eqb_refl. cbn.
        apply existsb_exists. exists (w', tw, cw, pw). split; [exact Hin|].
        rewrite N.eqb_refl. exact Hc.
    + split; [discriminate|]. intros H. discriminate.
  - split; [|reflexivity]. intros _. destruct (adslot (hp u)); auto.
Qed.

Theorem link_inv_b_iff f : link_inv_b compat f = true <-> LinkInv compat f.
Proof.
  unfold link_inv_b, LinkInv. rewrite andb_true_iff, N.eqb_eq, forallb_forall, Forall_forall.
  split; intros [H1 H2]; split; auto; intros e He; apply linked_b_iff; auto.
Qed.

(* ---- locality of observation ---- *)
Theorem observe_local (W W' : world) f :
  LinkInv compat f -> W (fid f) = W' (fid f) -> observe W f = observe W' f.
Proof.
  intros HL HW. unfold observe. f_equal. unfold geom_seen. apply map_ext_in. intros b Hb.
  destruct (acached (heap f (uid b))) as [[o w]|] eqn:Ec; [|reflexivity].
  destruct (link_inv_owned compat f HL b o w Hb Ec) as [-> _].
  cbn. unfold deref. cbn [fst snd]. rewrite HW. reflexivity.
Qed.

(* whatever happens to the other model g (any edit, or its destruction: g' = None), what f writes
   and what its geometry accessors reach is unchanged *)
Theorem other_model_invisible (W : world) f k g' :
  LinkInv compat f -> k <> fid f -> observe (wset W k g') f = observe W f.
Proof.
  intros HL Hne. apply observe_local; [exact HL|]. unfold wset.
  destruct (N.eqb_spec (fid f) k); [congruence|reflexivity].
Qed.

(* ---- edits of one model ---- *)
Lemma linked_in_equiv me v v' hp e :
  (forall x, In x v -> In x v') -> linked compat me v hp e -> linked compat me v' hp e.
Proof.
  intros Hsub. destruct e as [[[u t] cs] ps]. unfold linked.
  destruct (adslot (hp u)); auto. intros [H|(w & tw & cw & pw & A & B & C & D)]; [left; auto|].
  right. exists w, tw, cw, pw. auto.
Qed.

Theorem f_payload_link f u strs tok : LinkInv compat f -> LinkInv compat (f_payload f u strs tok).
Proof.
  intros [Ho HL]. split; [exact Ho|]. cbn [f_payload fid fh heap].
  rewrite Forall_forall in *. intros e He. specialize (HL e He).
  destruct e as [[[x t] cs] ps]. unfold linked in *. unfold upd.
  destruct (N.eqb_spec x u) as [->|_]; cbn [adslot acached]; exact HL.
Qed.

Theorem f_add_link f b a :
  Inv (fh f) -> valid_add (fh f) b -> LinkInv compat f ->
  LinkInv compat (f_add f b a) /\ Inv (fh (f_add f b a)).
Proof.
  intros HI Hv [Ho HL].
  destruct (add_block_spec (fh f) b HI Hv) as (HI' & _ & _ & _ & Hview).
  split; [|exact HI']. split; [exact Ho|]. cbn [f_add fid fh heap]. rewrite Hview.
  destruct Hv as (Hfresh & _ & _).
  apply Forall_app. split.
  - rewrite Forall_forall in *. intros e He. specialize (HL e He).
    apply (linked_in_equiv _ (view (fh f))); [intros x Hx; apply in_or_app; auto|].
    destruct e as [[[u t] cs] ps]. unfold linked in *. unfold upd.
    destruct (N.eqb_spec u (uid b)) as [->|_]; [|exact HL].
    exfalso. apply Hfresh. destruct (view_in_block _ _ He) as (c & Hc & Hv). unfold view_block in Hv.
    inversion Hv as [Hu]. rewrite Hu. apply in_map. exact Hc.
  - constructor; [|constructor]. unfold view_block, linked, upd. rewrite N.eqb_refl. cbn [adslot acached set_cached].
    destruct (adslot a); auto.
Qed.

(* DeleteBlock keeps the invariant provided no surviving shape caches a pointer to the deleted
   object. (BlockDeleted empties the shape's data REFERENCE; nothing touches the raw pointer.) *)
Theorem f_delete_link f id :
  Inv (fh f) -> LinkInv compat f -> id < vlen (blocks (fh f)) ->
  (forall x b o, vget (blocks (fh f)) id = Some x -> In b (blocks (fh f)) -> uid b <> uid x ->
                 acached (heap f (uid b)) <> Some (o, uid x)) ->
  exists f', f_delete f id = Ok f' /\ LinkInv compat f' /\ Inv (fh f').
Proof.
  intros HI [Ho HL] Hid Hfree.
  destruct (delete_block_spec (fh f) id HI Hid) as (h' & pre & x & post & Hrun & HI' & Hb & Hpl & _ & _ & Hview).
  unfold f_delete. rewrite Hrun. cbn [bind]. eexists. split; [reflexivity|]. split; [|exact HI'].
  split; [exact Ho|]. cbn [with_hdr fid fh heap]. rewrite Hview.
  assert (Hx : vget (blocks (fh f)) id = Some x) by (rewrite Hb, <- Hpl; apply vget_mid).
  pose proof (inv_uids _ HI) as Hnd. rewrite Hb in Hnd.
  assert (Hsurv : forall c, In c (pre ++ post) -> uid c <> uid x /\ In c (blocks (fh f))).
  { intros c Hc. split.
    - intros He. rewrite map_app, map_cons in Hnd. apply NoDup_remove_2 in Hnd. apply Hnd.
      rewrite <- He, <- map_app. apply in_map. exact Hc.
    - rewrite Hb. apply in_app_or in Hc. apply in_or_app. destruct Hc; [left|right; right]; auto. }
  rewrite Forall_forall in *. intros e' He'.
  apply in_map_iff in He'. destruct He' as (e & <- & He).
  apply in_map_iff in He. destruct He as (c & <- & Hc).
  destruct (Hsurv c Hc) as [Hcu Hcin].
  specialize (HL _ (block_in_view _ _ Hcin)). unfold view_block, kill, linked in *.
  destruct (adslot (heap f (uid c))) as [k|]; [|exact HL].
  destruct HL as [Hn|(w & tw & cw & pw & Hg & Hin & Hcm & Hca)]; [left; exact Hn|]. right.
  assert (Hwx : w <> uid x) by (intros ->; exact (Hfree x c (fid f) Hx Hcin Hcu Hca)).
  exists w, tw, (map (kill_ref (uid x)) cw), (map (kill_ref (uid x)) pw). repeat split; auto.
  - rewrite vget_map, Hg. cbn. destruct (N.eqb_spec w (uid x)); [congruence|reflexivity].
  - destruct (view_in_block _ _ Hin) as (d & Hd & Hv).
    apply in_map_iff. exists (w, tw, cw, pw). split; [reflexivity|].
    rewrite Hv. apply in_map. unfold view_block in Hv. inversion Hv; subst.
    rewrite Hb in Hd. apply in_app_or in Hd. apply in_or_app.
    destruct Hd as [Hd|[Hd|Hd]]; [left; auto|subst; congruence|right; auto].
Qed.

(* SetBlockOrder with a permutation: references are renumbered, raw pointers still designate
   the same objects *)
Theorem f_order_link f order :
  Inv (fh f) -> LinkInv compat f -> is_perm order (vlen (blocks (fh f))) ->
  exists f', f_order f order = Ok f' /\ LinkInv compat f' /\ Inv (fh f').
Proof.
  intros HI [Ho HL] Hp.
  destruct (set_block_order_spec (fh f) order HI Hp) as (h' & Hrun & HI' & _ & Hlen & Hmove).
  unfold f_order. rewrite Hrun. cbn [bind]. eexists. split; [reflexivity|]. split; [|exact HI'].
  split; [exact Ho|]. cbn [with_hdr fid fh heap].
  assert (Hvl : vlen (view h') = vlen (view (fh f))) by (unfold view; rewrite !vlen_map; exact Hlen).
  assert (Hto : forall e, In e (view h') -> In e (view (fh f))).
  { intros e He. destruct (in_vget_ex _ _ He) as (o & Hoe).
    pose proof (vget_some_lt' _ _ _ Hoe) as Hlt. rewrite Hvl in Hlt. unfold view in Hlt. rewrite vlen_map in Hlt.
    destruct (perm_surj order _ Hp o Hlt) as (k & Hk). rewrite (Hmove k o Hk) in Hoe. eapply in_vget; eauto. }
  assert (Hfrom : forall e, In e (view (fh f)) -> In e (view h')).
  { intros e He. destruct (in_vget_ex _ _ He) as (i & Hie).
    pose proof (vget_some_lt' _ _ _ Hie) as Hlt. unfold view in Hlt. rewrite vlen_map in Hlt.
    destruct Hp as (_ & _ & Hol). rewrite <- Hol in Hlt. destruct (vget_lt _ _ Hlt) as (o & Hoi).
    rewrite <- (Hmove i o Hoi) in Hie. eapply in_vget; eauto. }
  rewrite Forall_forall in *. intros e He. apply (linked_in_equiv _ (view (fh f))); auto.
Qed.

End CopyEdits.

(* ---- what happens without the invariant: concrete witnesses ---- *)
Definition all_compat : N -> N -> bool := fun _ _ => true.

(* a geometry data block (class 2) and a shape (class 1, data reference in slot 0), linked *)
Definition w_data  : block := mkBlock 11 2 [] [].
Definition w_shape : block := mkBlock 10 1 [0] [].
Definition w_hdr : hdr := fst (add_block (fst (add_block (empty_hdr true) w_data)) w_shape).
Definition w_heap : N -> aux := fun u =>
  if u =? 10 then mkAux [] 77 (Some 0) (Some (0, 11)) None None None None else if u =? 11 then mkAux [] 88 None None None None None None else aux0.
Definition w_file : file := mkFile 0 w_hdr 0 [] w_heap.

Lemma w_inv : Inv (fh w_file).
Proof.
  cbn [fh w_file]. unfold w_hdr.
  assert (H1 : Inv (fst (add_block (empty_hdr true) w_data))).
  { apply add_block_spec; [apply inv_empty|]. unfold valid_add, block_ok, w_data. cbn.
    repeat split; try constructor; auto; try lia. }
  apply add_block_spec; [exact H1|]. unfold valid_add, block_ok, ref_ok. cbn.
  repeat split; try constructor; auto; try lia.
Qed.

Lemma w_link : LinkInv all_compat w_file.
Proof. apply link_inv_b_iff. vm_compute. reflexivity. Qed.

(* DeleteBlock of the geometry data block: the data reference of the shape is emptied, the cached
   raw pointer still designates the destroyed object; copying that model yields a model whose
   shape points into the SOURCE's freed memory *)
Theorem delete_data_breaks_link_refuted :
  exists f id f', Inv (fh f) /\ LinkInv all_compat f /\ id < vlen (blocks (fh f)) /\
    f_delete f id = Ok f' /\ ~ LinkInv all_compat f' /\
    exists c b w, copy_from all_compat 1 100 f' = Ok c /\ In b (blocks (fh c)) /\
      acached (heap c (uid b)) = Some (fid f, w) /\ fid c <> fid f /\
      ~ In w (map uid (blocks (fh f'))) /\ ~ In w (map uid (blocks (fh c))).
Proof.
  exists w_file, 0.
  assert (E : exists f', f_delete w_file 0 = Ok f') by (vm_compute; eauto).
  destruct E as (f' & E). exists f'. split; [exact w_inv|]. split; [exact w_link|].
  split; [vm_compute; reflexivity|]. split; [exact E|].
  vm_compute in E. inversion E; subst f'; clear E.
  split.
  - intros H. apply link_inv_b_iff in H. vm_compute in H. discriminate.
  - eexists. exists (mkBlock 100 1 [NPOS] []), 11. split; [vm_compute; reflexivity|].
    split; [left; reflexivity|]. split; [vm_compute; reflexivity|]. split; [vm_compute; discriminate|].
    split; vm_compute; intuition discriminate.
Qed.

(* without the invariant an observation of one model depends on the other: destroying the model
   a stale pointer designates changes what the accessors reach *)
Theorem observe_nonlocal_refuted :
  exists (W : world) f k g', k <> fid f /\ observe (wset W k g') f <> observe W f.
Proof.
  pose (g := mkFile 1 (fst (add_block (empty_hdr true) (mkBlock 11 2 [] []))) 1 []
                    (fun u => if u =? 11 then mkAux [] 88 None None None None None None else aux0)).
  pose (f := mkFile 0 (fst (add_block (empty_hdr true) (mkBlock 10 1 [NPOS] []))) 0 []
                    (fun u => if u =? 10 then mkAux [] 77 (Some 0) (Some (1, 11)) None None None None else aux0)).
  exists (fun k => if k =? 1 then Some g else if k =? 0 then Some f else None), f, 1, None.
  split; [vm_compute; discriminate|]. vm_compute. intros H. inversion H.
Qed.

(* ---------------------------------------------------------------------------------------- *)
(* NifFile::DeleteShape (repaired): the geometry data block is deleted only when the shape is its
   only referrer (GetBlockRefCount(data, false) == 1), then - after shader, skin, properties, extra
   data, none of which is ever the target of a cached pointer - the shape itself. In between the
   shape's own cached pointer dangles, which nobody can observe; afterwards the invariant holds. *)
Section DeleteShape.
Variable compat : N -> N -> bool.

Definition euid (e : entry) : N := let '(u, _, _, _) := e in u.

(* the invariant for every object but [u] *)
Definition LinkInvBut (f : file) (u : N) : Prop :=
  hown f = fid f /\
  Forall (fun e => euid e = u \/ linked compat (fid f) (view (fh f)) (heap f) e) (view (fh f)).

Lemma link_inv_but_of f u : LinkInv compat f -> LinkInvBut f u.
Proof. intros [Ho HL]. split; [exact Ho|]. eapply Forall_impl; [|exact HL]. intros e He. right. exact He. Qed.

Lemma link_inv_of_but f u : LinkInvBut f u -> ~ In u (map uid (blocks (fh f))) -> LinkInv compat f.
Proof.
  intros [Ho HL] Hni. split; [exact Ho|]. rewrite Forall_forall in *. intros e He.
  destruct (HL e He) as [Hu|H]; [|exact H]. exfalso. apply Hni.
  destruct (view_in_block _ _ He) as (b & Hb & ->). cbn in Hu. subst u. apply in_map. exact Hb.
Qed.

Theorem f_delete_link_but f id u :
  Inv (fh f) -> LinkInvBut f u -> id < vlen (blocks (fh f)) ->
  (forall x b o, vget (blocks (fh f)) id = Some x -> In b (blocks (fh f)) -> uid b <> uid x -> uid b <> u ->
                 acached (heap f (uid b)) <> Some (o, uid x)) ->
  exists f' x, f_delete f id = Ok f' /\ LinkInvBut f' u /\ Inv (fh f') /\
    vget (blocks (fh f)) id = Some x /\
    (forall w, In w (map uid (blocks (fh f'))) <-> (In w (map uid (blocks (fh f))) /\ w <> uid x)) /\
    heap f' = heap f /\ fid f' = fid f.
Proof.
  intros HI [Ho HL] Hid Hfree.
  destruct (delete_block_spec (fh f) id HI Hid) as (h' & pre & x & post & Hrun & HI' & Hb & Hpl & Hbl' & _ & Hview).
  unfold f_delete. rewrite Hrun. cbn [bind]. eexists. exists x. split; [reflexivity|].
  assert (Hx : vget (blocks (fh f)) id = Some x) by (rewrite Hb, <- Hpl; apply vget_mid).
  pose proof (inv_uids _ HI) as Hnd. rewrite Hb in Hnd.
  assert (Hsurv : forall c, In c (pre ++ post) -> uid c <> uid x /\ In c (blocks (fh f))).
  { intros c Hc. split.
    - intros He. rewrite map_app, map_cons in Hnd. apply NoDup_remove_2 in Hnd. apply Hnd.
      rewrite <- He, <- map_app. apply in_map. exact Hc.
    - rewrite Hb. apply in_app_or in Hc. apply in_or_app. destruct Hc; [left|right; right]; auto. }
  split; [|split; [exact HI'|split; [exact Hx|split; [|split; reflexivity]]]].
  - split; [exact Ho|]. cbn [with_hdr fid fh heap]. rewrite Hview.
    rewrite Forall_forall in *. intros e' He'.
    apply in_map_iff in He'. destruct He' as (e & <- & He).
    apply in_map_iff in He. destruct He as (c & <- & Hc).
    destruct (Hsurv c Hc) as [Hcu Hcin].
    destruct (N.eq_dec (uid c) u) as [Hu|Hu]; [left; exact Hu|]. right.
    destruct (HL _ (block_in_view _ _ Hcin)) as [Hbad|HLc]; [cbn in Hbad; congruence|].
    unfold view_block, kill, linked in *.
    destruct (adslot (heap f (uid c))) as [k|]; [|exact HLc].
    destruct HLc as [Hn|(w & tw & cw & pw & Hg & Hin & Hcm & Hca)]; [left; exact Hn|]. right.
    assert (Hwx : w <> uid x) by (intros ->; exact (Hfree x c (fid f) Hx Hcin Hcu Hu Hca)).
    exists w, tw, (map (kill_ref (uid x)) cw), (map (kill_ref (uid x)) pw). repeat split; auto.
    + rewrite vget_map, Hg. cbn. destruct (N.eqb_spec w (uid x)); [congruence|reflexivity].
    + destruct (view_in_block _ _ Hin) as (d & Hd & Hv).
      apply in_map_iff. exists (w, tw, cw, pw). split; [reflexivity|].
      rewrite Hv. apply in_map. unfold view_block in Hv. inversion Hv; subst.
      rewrite Hb in Hd. apply in_app_or in Hd. apply in_or_app.
      destruct Hd as [Hd|[Hd|Hd]]; [left; auto|subst; congruence|right; auto].
  - intros w. cbn [with_hdr fh]. rewrite Hbl', map_map. cbn [block_deleted uid].
    change (map (fun b => uid b) (pre ++ post)) with (map uid (pre ++ post)). rewrite Hb.
    rewrite !map_app, map_cons, !in_app_iff. cbn [In]. split.
    + intros Hw. split; [tauto|]. intros ->.
      rewrite map_app, map_cons in Hnd. apply NoDup_remove_2 in Hnd. apply Hnd. apply in_or_app. exact Hw.
    + intros [[H|[H|H]] Hne]; auto. congruence.
Qed.

Theorem delete_shape_link f si id bs x :
  Inv (fh f) -> LinkInv compat f ->
  vget (blocks (fh f)) si = Some bs -> vget (blocks (fh f)) id = Some x -> uid bs <> uid x ->
  (* only the shape caches a pointer to the data block; nobody caches a pointer to the shape *)
  (forall b o, In b (blocks (fh f)) -> uid b <> uid bs -> acached (heap f (uid b)) <> Some (o, uid x)) ->
  (forall b o, In b (blocks (fh f)) -> uid b <> uid bs -> acached (heap f (uid b)) <> Some (o, uid bs)) ->
  exists f1, f_delete f id = Ok f1 /\
    exists si', (exists b', vget (blocks (fh f1)) si' = Some b' /\ uid b' = uid bs) /\
    exists f2, f_delete f1 si' = Ok f2 /\ LinkInv compat f2 /\ Inv (fh f2).
Proof.
  intros HI HL Hs Hx Hne Honly Hnobody.
  destruct (f_delete_link_but f id (uid bs) HI (link_inv_but_of f (uid bs) HL) (vget_some_lt' _ _ _ Hx))
    as (f1 & x' & E1 & HL1 & HI1 & Hx' & Hu1 & Hh1 & Hf1).
  { intros x0 b o Hx0 Hb Hbx Hbs. rewrite Hx in Hx0. inversion Hx0; subst x0. apply Honly; auto. }
  rewrite Hx in Hx'. inversion Hx'; subst x'. exists f1. split; [exact E1|].
  assert (Hin1 : In (uid bs) (map uid (blocks (fh f1)))).
  { apply Hu1. split; [apply in_map; eapply in_vget; eauto|exact Hne]. }
  apply in_map_iff in Hin1. destruct Hin1 as (b' & Hub' & Hb'). destruct (in_vget_ex _ _ Hb') as (si' & Hsi').
  exists si'. split; [eauto|].
  destruct (f_delete_link_but f1 si' (uid bs) HI1 HL1 (vget_some_lt' _ _ _ Hsi'))
    as (f2 & y & E2 & HL2 & HI2 & Hy & Hu2 & _).
  { intros x0 b o Hx0 Hb _ Hbs. rewrite Hsi' in Hx0. inversion Hx0; subst x0. rewrite Hub', Hh1.
    assert (Hbu : In (uid b) (map uid (blocks (fh f)))) by (apply Hu1; apply in_map; exact Hb).
    apply in_map_iff in Hbu. destruct Hbu as (b0 & Hub0 & Hb0). rewrite <- Hub0. apply Hnobody; auto. congruence. }
  exists f2. split; [exact E2|]. split; [|exact HI2].
  apply (link_inv_of_but f2 (uid bs) HL2). intros Hin. apply Hu2 in Hin. destruct Hin as [_ Hn].
  rewrite Hsi' in Hy. inversion Hy; subst y. congruence.
Qed.

(* the guard of the repaired DeleteShape: when the shape is the ONLY block referencing the data
   block (reference count 1, pointers not counted), no other shape caches a pointer to it *)
Definition cnt (id : N) (b : block) : N := count_eq id (crefs b).
Fixpoint sumc (id : N) (l : list block) : N :=
  match l with [] => 0 | b :: r => cnt id b + sumc id r end.

Lemma fold_sumc id : forall l acc,
  fold_left (fun a b => a + count_eq id (refs_of false b)) l acc = acc + sumc id l.
Proof.
  induction l as [|b l IH]; intros acc; cbn [fold_left sumc]; [lia|]. rewrite IH. unfold cnt, refs_of. lia.
Qed.

Lemma sumc_in id b : forall l, In b l -> cnt id b <= sumc id l.
Proof.
  induction l as [|a l IH]; intros H; [contradiction|]. cbn [sumc]. destruct H as [->|H]; [lia|].
  specialize (IH H). lia.
Qed.

Lemma sumc_two id b c : forall l, In b l -> In c l -> b <> c -> cnt id b + cnt id c <= sumc id l.
Proof.
  induction l as [|a l IH]; intros Hb Hc Hne; [contradiction|]. cbn [sumc].
  destruct Hb as [->|Hb], Hc as [->|Hc]; try congruence.
  - pose proof (sumc_in id c l Hc). lia.
  - pose proof (sumc_in id b l Hb). lia.
  - specialize (IH Hb Hc Hne). lia.
Qed.

Lemma count_eq_in x l : In x l -> 1 <= count_eq x l.
Proof.
  unfold count_eq, vlen. induction l as [|a l IH]; intros H; [contradiction|]. cbn [filter].
  destruct H as [->|H].
  - rewrite N.eqb_refl. cbn [length]. lia.
  - destruct (x =? a); cbn [length]; specialize (IH H); lia.
Qed.

Lemma vget_uid_inj bl i j b : NoDup (map uid bl) -> vget bl i = Some b -> vget bl j = Some b -> i = j.
Proof.
  intros Hnd Hi Hj. unfold vget in *.
  assert (N.to_nat i = N.to_nat j); [|lia].
  rewrite NoDup_nth_error in Hnd. apply Hnd.
  - rewrite map_length. apply nth_error_Some. congruence.
  - rewrite !nth_error_map, Hi, Hj. reflexivity.
Qed.

Theorem sole_referrer_sole_cacher f si id bs x :
  Inv (fh f) -> LinkInv compat f ->
  vget (blocks (fh f)) si = Some bs -> vget (blocks (fh f)) id = Some x ->
  In id (crefs bs) -> ref_count (fh f) id false = 1 ->
  forall b o, In b (blocks (fh f)) -> uid b <> uid bs -> acached (heap f (uid b)) <> Some (o, uid x).
Proof.
  intros HI [_ HL] Hs Hx Hidc Hrc b o Hb Hne Hca.
  rewrite Forall_forall in HL. specialize (HL _ (block_in_view _ _ Hb)). unfold view_block, linked in HL.
  destruct (adslot (heap f (uid b))) as [k|]; [|congruence].
  destruct HL as [Hn|(w & tw & cw & pw & Hg & _ & _ & Hca')]; [congruence|].
  rewrite Hca in Hca'. inversion Hca'; subst o w.
  rewrite vget_map in Hg. destruct (vget (crefs b) k) as [r|] eqn:Hr; cbn in Hg; [|discriminate].
  inversion Hg as [Hres]. destruct (resolve_some _ _ _ Hres) as (Hrn & d & Hd & Hdu).
  assert (d = x) by (eapply uid_inj_in; eauto using in_vget, inv_uids). subst d.
  assert (r = id) by (eapply vget_uid_inj; eauto using inv_uids). subst r.
  (* both b and bs reference id: the count is at least 2 *)
  unfold ref_count in Hrc. destruct (id =? NPOS); [discriminate|].
  rewrite fold_sumc in Hrc.
  assert (Hbs : In bs (blocks (fh f))) by (eapply in_vget; eauto).
  assert (b <> bs) by congruence.
  pose proof (sumc_two id b bs _ Hb Hbs H).
  pose proof (count_eq_in id (crefs b) (in_vget _ _ _ Hr)). pose proof (count_eq_in id (crefs bs) Hidc).
  unfold cnt in *. lia.
Qed.

End DeleteShape.
