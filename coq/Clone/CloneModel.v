(* Shape cloning: NifFile::CloneChildren (src/NifFile.cpp:1262-1307), CloneShape (1309-1427),
   CloneNamedNode (1429-1454), with the lookups they use (GetRootNode 2321-2335, GetParentNode
   28-44, FindBlockByName<NiNode> NifFile.hpp:225-233, GetShapeBoneList 2416-2433,
   NiHeader::AddOrFindStringId BasicTypes.cpp:459-476).

   The destination model and the counter handing out identities to new objects are threaded as a
   state; the source is either another model ([Some s]) or the destination itself ([None]: the C++
   then reads `srcNif->hdr` from the model it is appending to).
   Child references of a block are enumerated in the order of the block record (the dumps use Put
   order; the C++ iterates a std::set<NiRef*>, i.e. in address order, which only permutes the
   order in which the clones are appended). *)
From NiflyVerif Require Export Res GraphModel GraphInv CopyModel.
Local Open Scope N_scope.

Record cst := mkCst { cfile : file; cnext : N }.

Fixpoint ref_positions (start : N) (len : nat) : list N :=
  match len with O => [] | S l => start :: ref_positions (start + 1) l end.
(* the record order itself *)
Definition enum_canon : N -> nat -> list N := fun _ n => ref_positions 0 n.

Definition set_hdr_blocks (h : hdr) (bl : list block) : hdr :=
  mkHdr bl (nblocks h) (tnames h) (ntypes h) (tidx h) (sizes h) (has_sizes h).
Definition set_blocks (f : file) (bl : list block) : file :=
  mkFile (fid f) (set_hdr_blocks (fh f) bl) (hown f) (fstrs f) (heap f).
Definition set_heap (f : file) (hp : N -> aux) : file := mkFile (fid f) (fh f) (hown f) (fstrs f) hp.
Definition set_strs (f : file) (s : list N) : file := mkFile (fid f) (fh f) (hown f) s (heap f).

(* rewrite one block in place (the C++ mutates the object behind the unique_ptr) *)
Definition upd_block (f : file) (i : N) (g : block -> block) : res file :=
  match vget (blocks (fh f)) i with
  | None => Fault
  | Some b => match vset (blocks (fh f)) i (g b) with
              | Some bl => Ok (set_blocks f bl)
              | None => Fault
              end
  end.

Definition set_cref (j r : N) (b : block) : block :=
  mkBlock (uid b) (tname b) (match vset (crefs b) j r with Some c => c | None => crefs b end) (ptrs b).
Definition rebind (pold pnew p : N) : N := if p =? pold then pnew else p.
Definition rebind_ptrs (pold pnew : N) (b : block) : block :=
  mkBlock (uid b) (tname b) (crefs b) (map (rebind pold pnew) (ptrs b)).

(* ---- hdr.AddOrFindStringId(str) with addEmpty = false; [empty] is the token of "" ---- *)
Definition add_or_find_string (empty : N) (strs : list N) (s : N) : list N :=
  match find_type_from 0 strs s with
  | Some _ => strs
  | None => if s =? empty then strs else strs ++ [s]
  end.
Definition register_strings (empty : N) (strs : list N) (l : list N) : list N :=
  fold_left (add_or_find_string empty) l strs.

(* ---- srcChild->Clone(); hdr.AddBlock(std::move(clone)) ----
   a new object with member-wise copied fields [a]; returns the new block id *)
Definition add_object (st : cst) (tn : N) (cr pt : list N) (a : aux) : cst * N :=
  let f := cfile st in
  let u := cnext st in
  let r := add_block (fh f) (mkBlock u tn cr pt) in
  (mkCst (mkFile (fid f) (fst r) (hown f) (fstrs f) (upd (heap f) u a)) (u + 1), snd r).

Section Clone.
Variable src : option file.        (* None: srcNif == this *)
Variable empty : N.                (* token of the empty string *)
Variable enum : N -> nat -> list N.
  (* [enum u n]: the order in which `std::set<NiRef*> refs; b->GetChildRefs(refs); for (auto& r : refs)`
     visits the n child references of the object u, as positions of the block record. The set is
     ordered by the ADDRESSES of the reference objects, so the order is a property of the heap
     layout; every position is visited exactly once (hypothesis [enum_ok] of the theorems). *)

Definition src_of (st : cst) : file := match src with Some s => s | None => cfile st end.

(* srcNif->hdr.GetBlock<NiObject>(r) *)
Definition src_get (s : file) (r : N) : res (option block) :=
  if (negb (r =? NPOS) && (r <? nblocks (fh s)))%bool
  then match vget (blocks (fh s)) r with Some b => Ok (Some b) | None => Fault end
  else Ok None.

(* one iteration of `for (auto& r : refs)` inside cloneBlock(b, parentOldId, parentNewId);
   b is block [bi] of the destination, r its j-th child reference *)
Definition clone_one (rec : cst -> N -> N -> N -> res cst) (st : cst) (bi j pold pnew : N) : res cst :=
  match vget (blocks (fh (cfile st))) bi with
  | None => Fault
  | Some b =>
    match vget (crefs b) j with
    | None => Fault
    | Some r =>
      let s := src_of st in
      bind (src_get s r) (fun o =>
        match o with
        | None => Ok st                                           (* if (srcChild) *)
        | Some sb =>
          let sa := heap s (uid sb) in
          let '(st1, destId) := add_object st (tname sb) (crefs sb) (ptrs sb) sa in
          (* oldId = r->index; r->index = destId; *)
          bind (upd_block (cfile st1) bi (set_cref j destId)) (fun f2 =>
            (* strId = hdr.AddOrFindStringId(str->get()) for every string of the clone *)
            let f3 := set_strs f2 (register_strings empty (fstrs f2) (astrs sa)) in
            if negb (pold =? NPOS) then
              (* rebind the clone's pointers to the old parent; recurse with the SAME pair *)
              bind (upd_block f3 destId (rebind_ptrs pold pnew)) (fun f4 =>
                rec (mkCst f4 (cnext st1)) destId pold pnew)
            else rec (mkCst f3 (cnext st1)) destId r destId)
        end)
    end
  end.

Fixpoint clone_loop (rec : cst -> N -> N -> N -> res cst) (js : list N) (st : cst) (bi pold pnew : N) : res cst :=
  match js with
  | [] => Ok st
  | j :: js' => bind (clone_one rec st bi j pold pnew) (fun st' => clone_loop rec js' st' bi pold pnew)
  end.


(* cloneBlock: the recursion of the std::function, on explicit fuel *)
Fixpoint clone_rec (fuel : nat) (st : cst) (bi pold pnew : N) : res cst :=
  match fuel with
  | O => OutOfFuel
  | S f =>
    match vget (blocks (fh (cfile st))) bi with
    | None => Fault
    | Some b => clone_loop (clone_rec f) (enum (uid b) (length (crefs b))) st bi pold pnew
    end
  end.

(* CloneChildren(block, srcNif): cloneBlock(block, NIF_NPOS, NIF_NPOS) *)
Definition clone_children (fuel : nat) (st : cst) (bi : N) : res cst := clone_rec fuel st bi NPOS NPOS.

(* ---------------------------------------------------------------------------------------- *)
(* lookups *)
Definition is_node (f : file) (b : block) : bool :=
  match anode (heap f (uid b)) with Some _ => true | None => false end.
Definition name_of (f : file) (b : block) : option N :=
  match anamepos (heap f (uid b)) with Some p => vget (astrs (heap f (uid b))) p | None => None end.
Definition node_children (f : file) (b : block) : list N :=
  match anode (heap f (uid b)) with
  | Some (s, l, _, _) => firstn (N.to_nat l) (skipn (N.to_nat s) (crefs b))
  | None => []
  end.

Fixpoint find_from {A} (p : A -> bool) (i : N) (l : list A) : option (N * A) :=
  match l with
  | [] => None
  | x :: r => if p x then Some (i, x) else find_from p (i + 1) r
  end.

(* FindBlockByName<NiNode>(name) *)
Definition find_node (f : file) (name : N) : option (N * block) :=
  find_from (fun b => is_node f b && match name_of f b with Some n => n =? name | None => false end)%bool
            0 (blocks (fh f)).
(* GetRootNode(): block 0 when it is a node, else the first node *)
Definition get_root (f : file) : option (N * block) :=
  match vget (blocks (fh f)) 0 with
  | Some b => if (is_node f b && (0 <? nblocks (fh f)))%bool then Some (0, b) else find_from (is_node f) 0 (blocks (fh f))
  | None => find_from (is_node f) 0 (blocks (fh f))
  end.
(* GetParentNode(child): the first node one of whose childRefs is the child's id *)
Definition get_parent (f : file) (child : N) : option (N * block) :=
  find_from (fun b => is_node f b && existsb (N.eqb child) (node_children f b))%bool 0 (blocks (fh f)).

(* node->childRefs.AddBlockRef(id): the array grows by one at its end *)
Definition insert_at {A} (l : list A) (i : N) (x : A) : list A :=
  firstn (N.to_nat i) l ++ x :: skipn (N.to_nat i) l.
Definition add_child (f : file) (pi id : N) : res file :=
  match vget (blocks (fh f)) pi with
  | None => Fault
  | Some b =>
    match anode (heap f (uid b)) with
    | None => Fault
    | Some (s, l, cl, cs) =>
      bind (upd_block f pi (fun b => mkBlock (uid b) (tname b) (insert_at (crefs b) (s + l) id) (ptrs b))) (fun f' =>
        let a := heap f (uid b) in
        Ok (set_heap f' (upd (heap f') (uid b)
              (mkAux (astrs a) (atok a) (option_map (fun k => if s + l <=? k then k + 1 else k) (adslot a)) (acached a)
                     (anamepos a)
                     (Some (s, l + 1, map (option_map (fun k => if s + l <=? k then k + 1 else k)) cl, cs))
                     (option_map (fun k => if s + l <=? k then k + 1 else k) (askin a)) (abones a)))))
    end
  end.

(* ---- CloneNamedNode(nodeName, srcNif) ---- *)
Fixpoint renumber (i : N) (l : list (option N)) : list (option N) :=
  match l with
  | [] => []
  | Some _ :: r => Some i :: renumber (i + 1) r
  | None :: r => None :: renumber (i + 1) r
  end.
Definition clone_named_node (st : cst) (name : N) : cst * N :=
  match find_node (src_of st) name with
  | None => (st, NPOS)
  | Some (_, sb) =>
    let sa := heap (src_of st) (uid sb) in
    match anode sa with
    | None => (st, NPOS)
    | Some (_, _, cleared, cstart) =>
      (* Clone(); name = nodeName; collisionRef, controllerRef, childRefs, effectRefs cleared;
         if (srcNif != this) every remaining child reference and pointer is emptied (they are block
         indices of the other file) *)
      let kept := map (fun o => match o with
                                | Some p => match vget (crefs sb) p with Some r => r | None => NPOS end
                                | None => NPOS
                                end) cleared in
      add_object st (tname sb)
        (match src with Some _ => map (fun _ => NPOS) kept | None => kept end)
        (match src with Some _ => map (fun _ => NPOS) (ptrs sb) | None => ptrs sb end)
        (mkAux (astrs sa) (atok sa) None None (anamepos sa)
               (Some (cstart, 0, renumber 0 cleared, cstart)) None (abones sa))
    end
  end.

(* ---- the cloneNodes lambda of CloneShape ---- *)
Definition clear_refs_to (id : N) (b : block) : block :=
  mkBlock (uid b) (tname b) (map (fun r => if r =? id then NPOS else r) (crefs b)) (ptrs b).

Definition clone_node_step (st : cst) (root : N) (sn : N) : res (cst * list N) :=
  let s := src_of st in
  match vget (blocks (fh s)) sn with
  | None => Fault
  | Some snb =>
    match name_of s snb with
    | None => Fault
    | Some bone =>
      let d := cfile st in
      (* insert as root child by default; an existing node named like the source parent instead *)
      let node_parent :=
        match get_parent s sn with
        | Some (_, spb) =>
          match name_of s spb with
          | Some pn => match find_node d pn with Some (pi, _) => pi | None => root end
          | None => root
          end
        | None => root
        end in
      bind
        (match find_node d bone with
         | None =>
           let '(st1, bid) := clone_named_node st bone in
           bind (add_child (cfile st1) node_parent bid) (fun f => Ok (mkCst f (cnext st1)))
         | Some (bid, _) =>
           match get_parent d bid with
           | Some (opi, _) =>
             if (negb (opi =? node_parent) && negb (node_parent =? root))%bool then
               bind (upd_block d opi (clear_refs_to bid)) (fun f1 =>
               bind (add_child f1 node_parent bid) (fun f2 => Ok (mkCst f2 (cnext st))))
             else Ok st
           | None => Ok st
           end
         end)
        (fun st' =>
           (* the children of the source node, read after the step (srcNif may be this model) *)
           match vget (blocks (fh (src_of st'))) sn with
           | Some snb' => Ok (st', node_children (src_of st') snb')
           | None => Fault
           end)
    end
  end.

Fixpoint clone_nodes (fuel : nat) (st : cst) (root sn : N) : res cst :=
  match fuel with
  | O => OutOfFuel
  | S f =>
    bind (clone_node_step st root sn) (fun r =>
      let '(st1, kids) := r in
      (fix go (ks : list N) (st : cst) : res cst :=
         match ks with
         | [] => Ok st
         | k :: ks' =>
           bind (src_get (src_of st) k) (fun o =>
             match o with
             | Some kb => if is_node (src_of st) kb
                          then bind (clone_nodes f st root k) (fun st' => go ks' st')
                          else go ks' st
             | None => go ks' st
             end)
         end) kids st1)
  end.

(* ---- bone lists ---- *)
Definition bone_container (f : file) (shape : block) : option (N * block * N * N) :=
  match askin (heap f (uid shape)) with
  | None => None
  | Some k =>
    match vget (crefs shape) k with
    | None => None
    | Some r =>
      if (negb (r =? NPOS) && (r <? nblocks (fh f)))%bool then
        match vget (blocks (fh f)) r with
        | Some c => match abones (heap f (uid c)) with Some (s, l) => Some (r, c, s, l) | None => None end
        | None => None
        end
      else None
    end
  end.

(* GetShapeBoneList: names of the nodes the bone pointers designate *)
Definition shape_bone_names (f : file) (shape : block) : list N :=
  match bone_container f shape with
  | None => []
  | Some (_, c, s, l) =>
    flat_map (fun p =>
      if (negb (p =? NPOS) && (p <? nblocks (fh f)))%bool then
        match vget (blocks (fh f)) p with
        | Some nb => if is_node f nb then match name_of f nb with Some n => [n] | None => [] end else []
        | None => []
        end
      else []) (firstn (N.to_nat l) (skipn (N.to_nat s) (ptrs c)))
  end.

(* boneRefs.Clear() / boneRefs.AddBlockRef(id) on the container at index [ci] *)
Definition set_bone_ptrs (f : file) (ci : N) (ids : list N) : res file :=
  match vget (blocks (fh f)) ci with
  | None => Fault
  | Some c =>
    match abones (heap f (uid c)) with
    | None => Fault
    | Some (s, l) =>
      bind (upd_block f ci (fun b => mkBlock (uid b) (tname b) (crefs b)
              (firstn (N.to_nat s) (ptrs b) ++ ids ++ skipn (N.to_nat (s + l)) (ptrs b)))) (fun f' =>
        let a := heap f (uid c) in
        Ok (set_heap f' (upd (heap f') (uid c)
              (mkAux (astrs a) (atok a) (adslot a) (acached a) (anamepos a) (anode a) (askin a) (Some (s, vlen ids))))))
    end
  end.

(* for boneName in srcBoneList: node = FindBlockByName<NiNode>(boneName); if (node) AddBlockRef(id) *)
Definition rebuild_bones (f : file) (names : list N) : list N :=
  flat_map (fun n => match find_node f n with Some (i, _) => [i] | None => [] end) names.

End Clone.

Section CloneShape.
Variable compat : N -> N -> bool.
Variable src : option file.
Variable empty : N.
Variable enum : N -> nat -> list N.

Definition set_name (a : aux) (name : N) : aux :=
  match anamepos a with
  | Some p => mkAux (match vset (astrs a) p name with Some l => l | None => astrs a end) (atok a) (adslot a) (acached a)
                    (anamepos a) (anode a) (askin a) (abones a)
  | None => a
  end.

(* CloneShape(srcShape, destShapeName, srcNif); [si] = index of srcShape in the source;
   returns the state and the id of the clone *)
Definition clone_shape (fuel : nat) (st : cst) (si name : N) : res (cst * N) :=
  let s := src_of src st in
  let root := get_root (cfile st) in
  let sroot := get_root s in
  match vget (blocks (fh s)) si with
  | None => Fault
  | Some sb =>
    let sa := heap s (uid sb) in
    (* destShape = srcShape->Clone(); name = destShapeName; destId = hdr.AddBlock(...) *)
    let '(st1, did) := add_object st (tname sb) (crefs sb) (ptrs sb) (set_name sa name) in
    bind
      (match src with
       | None => match get_parent (cfile st1) si with
                 | Some (pi, _) => add_child (cfile st1) pi did
                 | None => Ok (cfile st1)
                 end
       | Some _ => match root with
                   | Some (ri, _) => add_child (cfile st1) ri did
                   | None => Ok (cfile st1)
                   end
       end) (fun f2 =>
    (* CloneChildren(destShape, srcNif) *)
    bind (clone_children src empty enum fuel (mkCst f2 (cnext st1)) did) (fun st3 =>
    (* destShape->SetGeomData(hdr.GetBlock<NiTriBasedGeomData>(destShape->DataRef())) *)
    bind (match vget (blocks (fh (cfile st3))) did with
          | Some db => link_one compat (hown (cfile st3)) (blocks (fh (cfile st3))) (nblocks (fh (cfile st3))) db (heap (cfile st3))
          | None => Fault
          end) (fun hp4 =>
    let f4 := set_heap (cfile st3) hp4 in
    (* srcNif->GetShapeBoneList(srcShape, srcBoneList) *)
    match vget (blocks (fh (src_of src (mkCst f4 (cnext st3))))) si with
    | None => Fault
    | Some sb' =>
      let names := shape_bone_names (src_of src (mkCst f4 (cnext st3))) sb' in
      match vget (blocks (fh f4)) did with
      | None => Fault
      | Some db =>
        let cont := bone_container f4 db in
        (* destBoneCont->boneRefs.Clear() *)
        bind (match cont with Some (ci, _, _, _) => set_bone_ptrs f4 ci [] | None => Ok f4 end) (fun f5 =>
        (* the node hierarchy below the source root; within the same file (srcNif == this) every node
           already is where it belongs: no walk *)
        bind (match src, root, sroot with
              | Some _, Some (ri, _), Some (sri, _) =>
                match vget (blocks (fh (src_of src (mkCst f5 (cnext st3))))) sri with
                | Some srb =>
                  (fix go (ks : list N) (st : cst) : res cst :=
                     match ks with
                     | [] => Ok st
                     | k :: ks' =>
                       bind (src_get (src_of src st) k) (fun o =>
                         match o with
                         | Some kb => if is_node (src_of src st) kb
                                      then bind (clone_nodes src fuel st ri k) (fun st' => go ks' st')
                                      else go ks' st
                         | None => go ks' st
                         end)
                     end) (node_children (src_of src (mkCst f5 (cnext st3))) srb) (mkCst f5 (cnext st3))
                | None => Fault
                end
              | _, _, _ => Ok (mkCst f5 (cnext st3))
              end) (fun st6 =>
        (* add bones to the container *)
        bind (match cont with
              | Some (ci, _, _, _) => set_bone_ptrs (cfile st6) ci (rebuild_bones (cfile st6) names)
              | None => Ok (cfile st6)
              end) (fun f7 => Ok (mkCst f7 (cnext st6), did))))
      end
    end)))
  end.

End CloneShape.
