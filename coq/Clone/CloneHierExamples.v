(* Instances for the hierarchy theorems of CloneHierProofs.v: the hypotheses are satisfiable on a
   three-level bone chain with one bone already present in the destination, and three statements
   one might expect are FALSE of the faithful model (witnesses by computation). *)
From NiflyVerif Require Import Res GraphModel GraphInv GraphDelete GraphAdd GraphOrder CopyModel CopyProofs CloneModel CloneProofs CloneExtras CloneHier CloneHierProofs CloneHierTotal.
Local Open Scope N_scope.

Definition hx_hdr (bl : list block) : hdr := fold_left (fun h b => fst (add_block h b)) bl (empty_hdr true).
Definition hx_heap (base : N) (l : list aux) : N -> aux :=
  fun u => if u <? base then aux0 else nth (N.to_nat (u - base)) l aux0.
(* a NiNode whose only references are its childRefs *)
Definition hx_node (name len : N) : aux := mkAux [name] 0 None None (Some 0) (Some (0, len, [], 0)) None None.
(* a shape: one reference (the skin instance) when skinned *)
Definition hx_shape (name : N) (skin : option N) : aux := mkAux [name] 7 None None (Some 0) None skin None.
(* a skin instance: pointer 0 = skeleton root, then the bones *)
Definition hx_skin (nbones : N) : aux := mkAux [] 9 None None None None None (Some (1, nbones)).

(* ---- source: Root(100) -> B1(101) -> B2(102) -> B3(103), a shape (block 4) skinned to B1 B2 B3 ---- *)
Definition ex_src : file :=
  mkFile 0 (hx_hdr [mkBlock 0 1 [1; 4] []; mkBlock 1 1 [2] []; mkBlock 2 1 [3] []; mkBlock 3 1 [] [];
                    mkBlock 4 2 [5] []; mkBlock 5 3 [] [0; 1; 2; 3]]) 0 [100; 101; 102; 103; 200]
    (hx_heap 0 [hx_node 100 2; hx_node 101 1; hx_node 102 1; hx_node 103 0; hx_shape 200 (Some 0); hx_skin 3]).
(* ---- destination: Root(100) -> B2(102): the middle bone exists already, directly under the root ---- *)
Definition ex_dst : cst :=
  mkCst (mkFile 1 (hx_hdr [mkBlock 10 1 [1] []; mkBlock 11 1 [] []]) 1 [100; 102]
          (hx_heap 10 [hx_node 100 1; hx_node 102 0])) 12.

Ltac hx_in H := vm_compute in H; repeat (destruct H as [H|H]; [subst|]); try contradiction.

Lemma ex_dst_hwf : HWF ex_dst.
Proof.
  constructor.
  - constructor; [reflexivity|]. intros b H. hx_in H; vm_compute; reflexivity.
  - vm_compute. repeat constructor; intros H; repeat (destruct H as [H|H]; try discriminate); auto.
  - intros i b s l cl cs Hb Ha. apply in_vget in Hb. hx_in Hb; vm_compute in Ha; injection Ha as <- <- <- <-; vm_compute; congruence.
Qed.

Lemma ex_src_winb : SrcWinB ex_src.
Proof.
  intros i b s l cl cs Hb Ha. apply in_vget in Hb.
  hx_in Hb; vm_compute in Ha; try discriminate; injection Ha as <- <- <- <-; vm_compute; split; congruence.
Qed.

(* the walk below the source root visits B1, B2, B3 in this order *)
Example ex_preorder : src_walk 5 ex_src (kids_at ex_src 0) = [1; 2; 3].
Proof. vm_compute. reflexivity. Qed.

(* the state the walk ends in: B1 created under the root (block 2), the existing B2 (block 1) moved
   below it, B3 created below B2 (block 3) *)
Definition ex_final : cst :=
  match walk_kids (Some ex_src) (fun st k => clone_nodes (Some ex_src) 5 st 0 k) (kids_at ex_src 0) ex_dst with
  | Ok st => st | _ => ex_dst end.

Example ex_walk_returns :
  walk_kids (Some ex_src) (fun st k => clone_nodes (Some ex_src) 5 st 0 k) (kids_at ex_src 0) ex_dst = Ok ex_final.
Proof. vm_compute. reflexivity. Qed.

Example ex_final_hierarchy :
  map (fun i => (node_name_at (cfile ex_final) i, kids_at (cfile ex_final) i)) [0; 1; 2; 3] =
  [(Some 100, [NPOS; 2]); (Some 102, [3]); (Some 101, [1]); (Some 103, [])].
Proof. vm_compute. reflexivity. Qed.

(* the hypotheses of the theorems over [Steps] hold for this instance *)
Example ex_steps : Steps ex_src 0 ex_dst [1; 2; 3] ex_final.
Proof.
  rewrite <- ex_preorder. apply run_steps.
  - apply SrcWinB_SrcWin. exact ex_src_winb.
  - apply walk_kids_run. exact ex_walk_returns.
  - exact ex_dst_hwf.
  - vm_compute. reflexivity.
Qed.

(* steps_new_parent applies to B3 (visited last, absent before, its source parent B2 reused): the
   created node hangs under the destination's B2 *)
Example ex_new_parent_applies :
  exists n, vlen (bl ex_dst) <= n < vlen (bl ex_final) /\ node_name_at (cfile ex_final) n = Some 103 /\
            In n (kids_at (cfile ex_final) 1).
Proof.
  assert (Hp : ptarget (cfile ex_final) 0 (spn ex_src 3) = 1) by (vm_compute; reflexivity).
  rewrite <- Hp.
  apply (steps_new_parent ex_src 0 ex_dst [1; 2; 3] ex_final ex_steps [1; 2] 3 [] 103); try (vm_compute; reflexivity).
  - intros sn' H. hx_in H; vm_compute; congruence.
  - intros pn sn' Hs H. vm_compute in Hs. injection Hs as <-. hx_in H. vm_compute. congruence.
Qed.

(* ... and to B1 (visited first, source parent = the source root, whose name the destination root carries) *)
Example ex_new_parent_applies_root :
  exists n, vlen (bl ex_dst) <= n < vlen (bl ex_final) /\ node_name_at (cfile ex_final) n = Some 101 /\
            In n (kids_at (cfile ex_final) 0).
Proof.
  assert (Hp : ptarget (cfile ex_final) 0 (spn ex_src 1) = 0) by (vm_compute; reflexivity).
  rewrite <- Hp.
  apply (steps_new_parent ex_src 0 ex_dst [1; 2; 3] ex_final ex_steps [] 1 [2; 3] 101); try (vm_compute; reflexivity).
  - intros sn' H. hx_in H; vm_compute; congruence.
  - intros pn sn' Hs H. vm_compute in Hs. injection Hs as <-. hx_in H; vm_compute; congruence.
Qed.

(* the whole of CloneShape on the instance: the hypotheses of clone_shape_other_stages_hwf hold, it
   returns, and the clone's bone list names B1 B2 B3 *)
Example ex_clone_shape :
  exists ri rb sri srb st' did db,
    get_root (cfile ex_dst) = Some (ri, rb) /\ get_root ex_src = Some (sri, srb) /\
    HWF ex_dst /\ SrcWinB ex_src /\
    clone_shape (fun _ _ => false) (Some ex_src) 0 enum_canon 5 ex_dst 4 300 = Ok (st', did) /\
    vget (bl st') did = Some db /\ shape_bone_names (cfile st') db = [101; 102; 103].
Proof.
  do 7 eexists. split; [vm_compute; reflexivity|]. split; [vm_compute; reflexivity|].
  split; [exact ex_dst_hwf|]. split; [exact ex_src_winb|].
  split; [vm_compute; reflexivity|]. split; vm_compute; reflexivity.
Qed.

(* the hypotheses of the totality theorem hold for the instance: depth 3 below B1, fuel 3 *)
Example ex_total_applies :
  exists st', walk_kids (Some ex_src) (fun st k => clone_nodes (Some ex_src) 3 st 0 k) (kids_at ex_src 0) ex_dst = Ok st'.
Proof.
  apply (walk_kids_total ex_src (SrcWinB_SrcWin _ ex_src_winb)).
  - vm_compute. congruence.
  - intros i b Hb Hn. apply in_vget in Hb. hx_in Hb; vm_compute in Hn; try discriminate; vm_compute; congruence.
  - exact ex_dst_hwf.
  - eexists. split; [vm_compute; reflexivity|]. vm_compute. congruence.
  - intros k Hk Hs. hx_in Hk; [|vm_compute in Hs; discriminate].
    intros k2 Hk2 _. hx_in Hk2. intros k3 Hk3 _. hx_in Hk3. intros k4 Hk4 _. hx_in Hk4.
Qed.

(* ---------------------------------------------------------------------------------------- *)
(* REFUTED: "no node that existed in the destination is re-parented". The destination's B2 hung under
   the root; after the walk it hangs under the created B1 and the root's reference to it is empty
   (the C++ does this on purpose: "Move existing node to non-root parent") *)
Theorem existing_node_reparented_refuted :
  exists s st vs st' root c p p',
    HWF st /\ SrcWin s /\ Steps s root st vs st' /\
    c < vlen (bl st) /\ In c (kids_at (cfile st) p) /\ ~ In c (kids_at (cfile st') p) /\
    p' <> p /\ In c (kids_at (cfile st') p').
Proof.
  exists ex_src, ex_dst, [1; 2; 3], ex_final, 0, 1, 0, 2.
  split; [exact ex_dst_hwf|]. split; [apply SrcWinB_SrcWin; exact ex_src_winb|]. split; [exact ex_steps|].
  split; [vm_compute; reflexivity|]. split; [vm_compute; auto|]. split.
  - vm_compute. intros [H|[H|[]]]; discriminate.
  - split; [discriminate|]. vm_compute. auto.
Qed.

(* ---------------------------------------------------------------------------------------- *)
(* cloning inside ONE model with two nodes of one name (7 below; e.g. two unnamed nodes):
   Root(100) -> X(7), A(8), shape; A -> X'(7). Before the repair of
   C14-same-model-duplicate-names-reparented the walk moved the first X below A; now no walk is
   performed: the root gains the clone as a child and nothing else changes *)
Definition dup_st : cst :=
  mkCst (mkFile 1 (hx_hdr [mkBlock 0 1 [1; 2; 4] []; mkBlock 1 1 [] []; mkBlock 2 1 [3] []; mkBlock 3 1 [] [];
                           mkBlock 4 2 [] []]) 1 [100; 7; 8; 200]
          (hx_heap 0 [hx_node 100 3; hx_node 7 0; hx_node 8 1; hx_node 7 0; hx_shape 200 None])) 5.

Lemma dup_st_hwf : HWF dup_st.
Proof.
  constructor.
  - constructor; [reflexivity|]. intros b H. hx_in H; vm_compute; reflexivity.
  - vm_compute. repeat constructor; intros H; repeat (destruct H as [H|H]; try discriminate); auto.
  - intros i b s l cl cs Hb Ha. apply in_vget in Hb.
    hx_in Hb; vm_compute in Ha; try discriminate; injection Ha as <- <- <- <-; vm_compute; congruence.
Qed.

Example same_model_duplicate_names_kept :
  exists st' did,
    HWF dup_st /\ ~ names_unique (cfile dup_st) /\
    clone_shape (fun _ _ => false) None 0 enum_canon 5 dup_st 4 300 = Ok (st', did) /\ did = 5 /\
    map (kids_at (cfile dup_st)) [0; 1; 2; 3] = [[1; 2; 4]; []; [3]; []] /\
    map (kids_at (cfile st')) [0; 1; 2; 3] = [[1; 2; 4; did]; []; [3]; []] /\
    map (node_name_at (cfile st')) [0; 1; 2; 3] = map (node_name_at (cfile dup_st)) [0; 1; 2; 3].
Proof.
  do 2 eexists. split; [exact dup_st_hwf|]. split.
  { intros H. specialize (H 1 3 7 ltac:(vm_compute; reflexivity) ltac:(vm_compute; reflexivity)). discriminate. }
  split; [vm_compute; reflexivity|]. repeat split; vm_compute; reflexivity.
Qed.

(* ---------------------------------------------------------------------------------------- *)
(* REFUTED: "the clone's bone list names the same bones" for a bone that is not below the source
   root: only the node tree below the source root is walked, the bone is not cloned, and the rebuilt
   list silently drops it. Root(100) -> shape(2) -> skin(3) -> bone B(101), B attached to nothing. *)
Definition ub_src : file :=
  mkFile 0 (hx_hdr [mkBlock 0 1 [2] []; mkBlock 1 1 [] []; mkBlock 2 2 [3] []; mkBlock 3 3 [] [0; 1]]) 0 [100; 101; 200]
    (hx_heap 0 [hx_node 100 1; hx_node 101 0; hx_shape 200 (Some 0); hx_skin 1]).
Definition ub_dst : cst := mkCst (mkFile 1 (hx_hdr [mkBlock 10 1 [] []]) 1 [100] (hx_heap 10 [hx_node 100 0])) 11.

Theorem unreachable_bone_dropped_refuted :
  exists s st sb st' did db,
    vget (blocks (fh s)) 2 = Some sb /\ shape_bone_names s sb = [101] /\
    clone_shape (fun _ _ => false) (Some s) 0 enum_canon 5 st 2 300 = Ok (st', did) /\
    vget (bl st') did = Some db /\ shape_bone_names (cfile st') db = [] /\
    find_node (cfile st') 101 = None.
Proof.
  exists ub_src, ub_dst. do 4 eexists. split; [vm_compute; reflexivity|]. split; [vm_compute; reflexivity|].
  split; [vm_compute; reflexivity|]. split; vm_compute; auto.
Qed.
