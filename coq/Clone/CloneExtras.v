(* CloneChildren in its two modes (another model / the same model), what goes wrong on cyclic
   sources and with pointers, and the rebuilt bone list of CloneShape. *)
From NiflyVerif Require Import Res GraphModel GraphInv GraphDelete GraphAdd GraphOrder GraphSteps CopyModel CopyProofs CloneModel CloneProofs.
From Coq Require Import ZifyBool ZifyNat ZifyN.
Local Open Scope N_scope.

Definition enum_ok (enum : N -> nat -> list N) : Prop :=
  forall u n, NoDup (enum u n) /\ forall j, In j (enum u n) <-> j < N.of_nat n.

Lemma ref_positions_in : forall n s j, In j (ref_positions s n) <-> s <= j < s + N.of_nat n.
Proof.
  induction n as [|n IH]; intros s j; cbn [ref_positions In].
  - lia.
  - rewrite IH. lia.
Qed.

Lemma ref_positions_nodup : forall n s, NoDup (ref_positions s n).
Proof.
  induction n as [|n IH]; intros s; cbn [ref_positions]; constructor; auto.
  rewrite ref_positions_in. lia.
Qed.

Lemma enum_canon_ok : enum_ok enum_canon.
Proof. intros u n. split; [apply ref_positions_nodup|]. intros j. unfold enum_canon. rewrite ref_positions_in. lia. Qed.

(* ---- cloning from ANOTHER model [s]: the source is the whole model ---- *)
Section Other.
Variable s : file.
Variable empty : N.
Variable enum : N -> nat -> list N.
Hypothesis Henum : enum_ok enum.
Hypothesis Hinv : Inv (fh s).

Let sb := vlen (blocks (fh s)).

Lemma other_len : sb <= vlen (blocks (fh s)). Proof. unfold sb. lia. Qed.
Lemma other_closed : forall r b, r < sb -> vget (blocks (fh s)) r = Some b -> Forall (ref_ok sb) (crefs b).
Proof.
  intros r b _ Hb. pose proof (inv_refs _ Hinv) as H. rewrite Forall_forall in H.
  destruct (H b (in_vget _ _ _ Hb)) as [Hc _]. exact Hc.
Qed.
Lemma other_agree st : Agree (Some s) s sb st.
Proof. unfold Agree. split; [reflexivity|]. split; [apply (inv_nblocks _ Hinv)|reflexivity]. Qed.

(* closedness, string registration, frame: whenever CloneChildren returns *)
Theorem clone_children_other fuel st bi b st' :
  WF st -> vget (bl st) bi = Some b -> Forall (ref_ok sb) (crefs b) ->
  clone_children (Some s) empty enum fuel st bi = Ok st' ->
  Post (Some s) empty s sb (pred fuel) st bi NPOS NPOS b st'.
Proof.
  intros HW Hb Hcl E.
  eapply (clone_children_post (Some s) empty enum Henum s sb other_len other_closed); eauto.
  - apply other_agree.
  - discriminate.
Qed.

Theorem clone_total_other fuel d st bi b :
  WF st -> vget (bl st) bi = Some b -> Forall (ref_ok sb) (crefs b) ->
  Forall (fin s sb d) (crefs b) -> (d < fuel)%nat ->
  exists st', clone_children (Some s) empty enum fuel st bi = Ok st' /\
              Post (Some s) empty s sb (pred fuel) st bi NPOS NPOS b st'.
Proof.
  intros HW Hb Hcl Hfin Hlt.
  eapply (clone_total (Some s) empty enum Henum s sb other_len other_closed); eauto.
  - apply other_agree.
  - discriminate.
Qed.

Theorem clone_total_acyclic_other rank fuel st bi b :
  ranked s sb rank ->
  WF st -> vget (bl st) bi = Some b -> Forall (ref_ok sb) (crefs b) ->
  (0 < fuel)%nat -> (forall c, In c (crefs b) -> (S (rank c) < fuel)%nat) ->
  exists st', clone_children (Some s) empty enum fuel st bi = Ok st' /\
              Post (Some s) empty s sb (pred fuel) st bi NPOS NPOS b st'.
Proof.
  intros HR HW Hb Hcl Hpos Hbound.
  eapply (clone_total_acyclic (Some s) empty enum Henum s sb other_len other_closed); eauto.
  - apply other_agree.
  - discriminate.
Qed.
End Other.

(* ---- cloning inside ONE model: the source blocks are those in front of the clone root [bi]
   (CloneShape appends the cloned shape, then calls CloneChildren on it) ---- *)
Section Same.
Variable empty : N.
Variable enum : N -> nat -> list N.
Hypothesis Henum : enum_ok enum.
Variable st0 : cst.
Variable bi : N.
Hypothesis Hbi : bi <= vlen (bl st0).
Hypothesis Hclosed : forall r c, r < bi -> vget (bl st0) r = Some c -> Forall (ref_ok bi) (crefs c).

Lemma same_agree : Agree None (cfile st0) bi st0.
Proof. unfold Agree. split; [exact Hbi|]. split; auto. Qed.

Theorem clone_children_same fuel b st' :
  WF st0 -> vget (bl st0) bi = Some b -> Forall (ref_ok bi) (crefs b) ->
  clone_children None empty enum fuel st0 bi = Ok st' ->
  Post None empty (cfile st0) bi (pred fuel) st0 bi NPOS NPOS b st'.
Proof.
  intros HW Hb Hcl E.
  eapply (clone_children_post None empty enum Henum (cfile st0) bi Hbi Hclosed); eauto.
  - apply same_agree.
  - intros _. lia.
Qed.

Theorem clone_total_same fuel d b :
  WF st0 -> vget (bl st0) bi = Some b -> Forall (ref_ok bi) (crefs b) ->
  Forall (fin (cfile st0) bi d) (crefs b) -> (d < fuel)%nat ->
  exists st', clone_children None empty enum fuel st0 bi = Ok st' /\
              Post None empty (cfile st0) bi (pred fuel) st0 bi NPOS NPOS b st'.
Proof.
  intros HW Hb Hcl Hfin Hlt.
  eapply (clone_total None empty enum Henum (cfile st0) bi Hbi Hclosed); eauto.
  - apply same_agree.
  - intros _. lia.
Qed.

(* source_unchanged, also when the source is the destination: every block in front of the
   clone root, and every field of every object that existed, is what it was *)
Theorem source_unchanged_same fuel b st' :
  WF st0 -> vget (bl st0) bi = Some b -> Forall (ref_ok bi) (crefs b) ->
  clone_children None empty enum fuel st0 bi = Ok st' ->
  (forall k, k < vlen (bl st0) -> k <> bi -> vget (bl st') k = vget (bl st0) k) /\
  (forall u, u < cnext st0 -> heap (cfile st') u = heap (cfile st0) u) /\
  (forall x, In x (fstrs (cfile st0)) -> In x (fstrs (cfile st'))).
Proof.
  intros HW Hb Hcl E. destruct (clone_children_same fuel b st' HW Hb Hcl E) as (_ & _ & (F1 & F2 & _ & _ & F5 & _) & _).
  auto.
Qed.
End Same.

(* ---------------------------------------------------------------------------------------- *)
(* cyclic child references: no fuel suffices *)
Definition cy_block : block := mkBlock 0 7 [0] [].           (* a controller whose next controller is itself *)
Definition cy_src : file :=
  mkFile 0 (fst (add_block (empty_hdr true) cy_block)) 0 [] (fun _ => aux0).

(* one loop iteration on a resolvable reference always reaches the recursive call, on a state in
   which the new block carries the source block's child references *)
Lemma clone_one_reaches src empty (rec : cst -> N -> N -> N -> res cst) st bi j pold pnew b r sb :
  nblocks (fh (cfile st)) = vlen (bl st) -> vget (bl st) bi = Some b -> vget (crefs b) j = Some r ->
  src_get (src_of src st) r = Ok (Some sb) ->
  exists stX pp1 pp2 nb,
    clone_one src empty rec st bi j pold pnew = rec stX (vlen (bl st)) pp1 pp2 /\
    nblocks (fh (cfile stX)) = vlen (bl stX) /\ vget (bl stX) (vlen (bl st)) = Some nb /\ crefs nb = crefs sb.
Proof.
  intros Hnb Hb Hj Hg. unfold clone_one. unfold bl in Hb. rewrite Hb, Hj, Hg. cbn [bind]. fold (bl st) in Hb.
  pose proof (vget_some_lt _ _ _ Hb) as Hbi.
  set (sa := heap (src_of src st) (uid sb)).
  destruct (add_object st (tname sb) (crefs sb) (ptrs sb) sa) as [st1 destId] eqn:Ea.
  assert (Hst1 : bl st1 = bl st ++ [mkBlock (cnext st) (tname sb) (crefs sb) (ptrs sb)] /\
                 nblocks (fh (cfile st1)) = nblocks (fh (cfile st)) + 1 /\ destId = nblocks (fh (cfile st))).
  { unfold add_object in Ea. inversion Ea; subst. unfold bl. cbn [cfile fh].
    apply add_block_blocks. }
  destruct Hst1 as (Eb1 & En1 & Eid). rewrite Hnb in Eid, En1. subst destId.
  assert (Hb1 : vget (blocks (fh (cfile st1))) bi = Some b) by (fold (bl st1); rewrite Eb1; rewrite vget_app1; auto).
  destruct (upd_block_ok (cfile st1) bi (set_cref j (vlen (bl st))) b Hb1) as (f2 & E2). rewrite E2. cbn [bind].
  destruct (upd_block_spec _ _ _ _ E2) as (b0 & _ & Hk2 & Hl2 & Hn2 & _).
  assert (Hnew : vget (blocks (fh f2)) (vlen (bl st)) = Some (mkBlock (cnext st) (tname sb) (crefs sb) (ptrs sb))).
  { rewrite Hk2. destruct (N.eqb_spec (vlen (bl st)) bi); [lia|]. fold (bl st1). rewrite Eb1. apply vget_app_last. }
  assert (Hlen2 : nblocks (fh f2) = vlen (blocks (fh f2))).
  { rewrite Hn2, En1. unfold vlen. rewrite Hl2. fold (bl st1). rewrite Eb1, app_length. cbn. unfold vlen. lia. }
  destruct (negb (pold =? NPOS)).
  - set (f3 := set_strs f2 (register_strings empty (fstrs f2) (astrs sa))).
    assert (Hnew3 : vget (blocks (fh f3)) (vlen (bl st)) = Some (mkBlock (cnext st) (tname sb) (crefs sb) (ptrs sb))) by exact Hnew.
    destruct (upd_block_ok f3 (vlen (bl st)) (rebind_ptrs pold pnew) _ Hnew3) as (f4 & E4). rewrite E4. cbn [bind].
    destruct (upd_block_spec _ _ _ _ E4) as (b4 & Hb4 & Hk4 & Hl4 & Hn4 & _).
    rewrite Hnew3 in Hb4. inversion Hb4; subst b4.
    eexists (mkCst f4 (cnext st1)), pold, pnew, _. split; [reflexivity|]. unfold bl. cbn [cfile]. split; [|split].
    + rewrite Hn4. change (nblocks (fh f3)) with (nblocks (fh f2)). rewrite Hlen2. unfold vlen. rewrite Hl4. reflexivity.
    + rewrite Hk4, N.eqb_refl. reflexivity.
    + reflexivity.
  - eexists (mkCst _ (cnext st1)), r, (vlen (bl st)), _. split; [reflexivity|]. unfold bl. cbn [cfile set_strs fh].
    split; [exact Hlen2|]. split; [exact Hnew|reflexivity].
Qed.

Lemma cy_step : forall fuel st bi pold pnew b,
  nblocks (fh (cfile st)) = vlen (bl st) -> vget (bl st) bi = Some b -> crefs b = [0] ->
  clone_rec (Some cy_src) 0 enum_canon fuel st bi pold pnew = OutOfFuel.
Proof.
  induction fuel as [|f IH]; intros st bi pold pnew b Hnb Hb Hc; [reflexivity|].
  cbn [clone_rec]. pose proof Hb as Hb'. unfold bl in Hb'. rewrite Hb'. rewrite Hc. cbn [length enum_canon ref_positions clone_loop].
  destruct (clone_one_reaches (Some cy_src) 0 (clone_rec (Some cy_src) 0 enum_canon f) st bi 0 pold pnew b 0 cy_block Hnb Hb)
    as (stX & pp1 & pp2 & nb & E & HnX & HbX & HcX); [rewrite Hc; reflexivity|reflexivity|].
  rewrite E. rewrite (IH stX (vlen (bl st)) pp1 pp2 nb HnX HbX HcX). reflexivity.
Qed.

(* a model with a self-referencing block below the clone root: CloneChildren runs out of every fuel
   (the C++ recursion does not end: stack overflow) *)
Theorem cyclic_source_refuted :
  exists (s : file) (st : cst) (bi : N) (b : block),
    Inv (fh s) /\ WF st /\ vget (bl st) bi = Some b /\ Forall (ref_ok (vlen (blocks (fh s)))) (crefs b) /\
    forall fuel, clone_children (Some s) 0 enum_canon fuel st bi = OutOfFuel.
Proof.
  exists cy_src.
  exists (mkCst (mkFile 1 (fst (add_block (empty_hdr true) (mkBlock 5 3 [0] []))) 1 [] (fun _ => aux0)) 6).
  exists 0, (mkBlock 5 3 [0] []).
  split.
  { cbn [cy_src fh]. apply add_block_spec; [apply inv_empty|]. unfold valid_add, block_ok, cy_block, ref_ok. cbn.
    repeat split; try constructor; auto; try lia. }
  split.
  { constructor; [reflexivity|]. intros b [<-|[]]. cbn. lia. }
  split; [reflexivity|]. split.
  { constructor; [|constructor]. right. vm_compute. reflexivity. }
  intros fuel. unfold clone_children. eapply cy_step; [reflexivity|reflexivity|reflexivity].
Qed.

(* ---------------------------------------------------------------------------------------- *)
(* pointers: a block directly below the cloned block that points back at it keeps the SOURCE index *)
Definition pt_src : file :=
  (* 0: the shape (child reference to 1); 1: a controller whose pointer designates the shape *)
  mkFile 0 (fst (add_block (fst (add_block (empty_hdr true) (mkBlock 0 1 [1] []))) (mkBlock 1 2 [] [0]))) 0 []
         (fun _ => aux0).
Definition pt_dst : cst :=
  (* a destination of three unrelated blocks and, appended, the member-wise clone of the shape *)
  mkCst (mkFile 1 (fst (add_block (fst (add_block (fst (add_block (fst (add_block (empty_hdr true)
            (mkBlock 10 9 [] []))) (mkBlock 11 9 [] []))) (mkBlock 12 9 [] []))) (mkBlock 13 1 [1] []))) 1 []
               (fun _ => aux0)) 14.

Theorem first_level_pointer_not_rebound_refuted :
  exists st' child,
    clone_children (Some pt_src) 0 enum_canon 3 pt_dst 3 = Ok st' /\
    vget (bl st') 3 = Some (mkBlock 13 1 [4] []) /\          (* the clone's reference now designates block 4 *)
    vget (bl st') 4 = Some child /\ tname child = 2 /\       (* the cloned controller *)
    ptrs child = [0] /\                                      (* still the SOURCE shape's index *)
    ptrs child <> [3].                                       (* not the cloned shape *)
Proof.
  eexists. eexists. split; [vm_compute; reflexivity|]. split; [vm_compute; reflexivity|].
  split; [vm_compute; reflexivity|]. split; [reflexivity|]. split; [reflexivity|]. discriminate.
Qed.

(* ---------------------------------------------------------------------------------------- *)
(* the bone list CloneShape rebuilds: one entry per source bone name found in the destination, in
   order, each designating a node of that name *)
Lemma find_from_spec {A} (p : A -> bool) : forall l i0 i x,
  find_from p i0 l = Some (i, x) -> i0 <= i /\ vget l (i - i0) = Some x /\ p x = true.
Proof.
  induction l as [|a l IH]; intros i0 i x H; cbn [find_from] in H; [discriminate|].
  destruct (p a) eqn:Ep.
  - inversion H; subst. rewrite N.sub_diag. repeat split; auto. lia.
  - destruct (IH _ _ _ H) as (Hle & Hg & Hp). split; [lia|]. split; [|exact Hp].
    replace (i - i0) with ((i - (i0 + 1)) + 1) by lia. unfold vget in *.
    replace (N.to_nat (i - (i0 + 1) + 1)) with (S (N.to_nat (i - (i0 + 1)))) by lia. exact Hg.
Qed.

Definition node_name_at (f : file) (i : N) : option N :=
  match vget (blocks (fh f)) i with Some b => if is_node f b then name_of f b else None | None => None end.

Lemma find_node_name f n i b : find_node f n = Some (i, b) -> node_name_at f i = Some n.
Proof.
  unfold find_node. intros H. destruct (find_from_spec _ _ _ _ _ H) as (_ & Hg & Hp).
  rewrite N.sub_0_r in Hg. unfold node_name_at. rewrite Hg.
  apply andb_true_iff in Hp. destruct Hp as [Hn Hm]. rewrite Hn.
  destruct (name_of f b) as [m|]; [|discriminate]. apply N.eqb_eq in Hm. congruence.
Qed.

Theorem rebuild_bones_names f : forall names,
  map (node_name_at f) (rebuild_bones f names) =
  map Some (filter (fun n => match find_node f n with Some _ => true | None => false end) names).
Proof.
  induction names as [|n names IH]; [reflexivity|].
  unfold rebuild_bones in *. cbn [flat_map filter].
  destruct (find_node f n) as [[i b]|] eqn:E; cbn [app map].
  - rewrite (find_node_name f n i b E). f_equal. exact IH.
  - exact IH.
Qed.

(* when every source bone name exists in the destination the clone's bone list names the same
   bones, in the same order *)
Corollary rebuild_bones_all f names :
  (forall n, In n names -> find_node f n <> None) ->
  map (node_name_at f) (rebuild_bones f names) = map Some names.
Proof.
  intros H. rewrite rebuild_bones_names. f_equal.
  induction names as [|n names IH]; [reflexivity|]. cbn [filter].
  destruct (find_node f n) eqn:E.
  - f_equal. apply IH. intros m Hm. apply H. right. exact Hm.
  - exfalso. apply (H n); [left; reflexivity|exact E].
Qed.

(* ---------------------------------------------------------------------------------------- *)
(* what the mirror relation says, one level at a time, in plain terms: a resolvable source
   reference r became r', which resolves in the destination, to a NEW block (index in [lo, hi)) of
   the same class whose non-reference fields are the source block's, whose strings are registered
   in the destination's header, whose pointers are the source's up to the rebinding pair, and whose
   child references are related to the source block's in the same way *)
Theorem crel_unfold empty S0 sbound dst lo hi d pold pnew r r' sb :
  sget0 S0 sbound r = Some sb ->
  crel empty S0 sbound dst lo hi d pold pnew r r' ->
  exists d' db, d = S d' /\ vget (blocks (fh dst)) r' = Some db /\ lo <= r' < hi /\
    tname db = tname sb /\ heap dst (uid db) = heap S0 (uid sb) /\
    ptrs db = (if pold =? NPOS then ptrs sb else map (rebind pold pnew) (ptrs sb)) /\
    (forall x, In x (astrs (heap S0 (uid sb))) -> x <> empty -> In x (fstrs dst)) /\
    Forall2 (crel empty S0 sbound dst lo hi d' (if pold =? NPOS then r else pold) (if pold =? NPOS then r' else pnew))
            (crefs sb) (crefs db).
Proof.
  intros Hs H. unfold crel in H. rewrite Hs in H. destruct d as [|d']; [contradiction|].
  cbn [mir] in H. destruct H as (sb' & db & H1 & H2 & H3 & H4 & H5 & H6 & H7 & H8).
  rewrite Hs in H1. inversion H1; subst sb'. exists d', db. repeat split; auto; lia.
Qed.

(* an empty or unresolvable source reference is copied as it is *)
Theorem crel_unresolved empty S0 sbound dst lo hi d pold pnew r r' :
  sget0 S0 sbound r = None -> crel empty S0 sbound dst lo hi d pold pnew r r' -> r' = r.
Proof. intros Hs H. unfold crel in H. rewrite Hs in H. exact H. Qed.

(* the hypotheses are satisfiable: the two-block source and the four-block destination above *)
Lemma pt_src_inv : Inv (fh pt_src).
Proof.
  constructor; try (vm_compute; reflexivity).
  - vm_compute. repeat constructor.
  - vm_compute. repeat constructor; intros H; repeat (destruct H as [H|H]; try discriminate); auto.
  - intros t Ht. vm_compute in Ht. assert (t = 0 \/ t = 1)%nat as [->| ->] by lia; vm_compute; auto.
  - vm_compute. repeat constructor; intros H; repeat (destruct H as [H|H]; try discriminate); auto.
  - vm_compute. repeat constructor; auto; right; reflexivity.
Qed.

(* ---------------------------------------------------------------------------------------- *)
(* CloneNamedNode from ANOTHER model (repaired code): the cloned node carries no reference at all,
   so it cannot designate anything of the source or anything unrelated in the destination *)
Theorem clone_named_node_clean s st name st' id :
  WF st -> clone_named_node (Some s) st name = (st', id) -> id <> NPOS \/ st' <> st ->
  exists b, id = vlen (bl st) /\ vget (bl st') id = Some b /\
            Forall (fun r => r = NPOS) (crefs b) /\ Forall (fun r => r = NPOS) (ptrs b) /\
            bl st' = bl st ++ [b] /\ WF st'.
Proof.
  intros HW E Hnew. unfold clone_named_node in E.
  destruct (find_node (src_of (Some s) st) name) as [[i sb]|]; [|inversion E; subst; destruct Hnew; congruence].
  destruct (anode (heap (src_of (Some s) st) (uid sb))) as [[[[a b0] cleared] cstart]|];
    [|inversion E; subst; destruct Hnew; congruence].
  match type of E with add_object ?st0 ?tn ?cr ?pt ?a = _ =>
    pose proof (add_object_spec st0 tn cr pt a HW) as H; rewrite E in H; cbn [fst snd] in H;
    destruct H as (HW' & Eb & Eid & _) end.
  eexists. split; [exact Eid|]. split; [rewrite Eb, Eid; apply vget_app_last|].
  cbn [crefs ptrs]. split; [|split; [|split; [exact Eb|exact HW']]].
  - apply Forall_forall. intros r Hr. apply in_map_iff in Hr. destruct Hr as (? & <- & _). reflexivity.
  - apply Forall_forall. intros r Hr. apply in_map_iff in Hr. destruct Hr as (? & <- & _). reflexivity.
Qed.
