(* "Sorting an already sorted model changes nothing" (C04), for every graph.
   Part 1 (this file, first half): facts about one run of PrettySortBlocks' index computation -
   a numbered block keeps its number, visited blocks stay visited, the loop over the parentless nodes
   as a chain of effective roots.
   Part 2: the run on the reordered graph, compared through SorterRename.run_equivariant. *)
From NiflyVerif Require Import Res CompactProofs GraphModel GraphInv GraphDelete GraphAdd GraphOrder
  SorterModel SorterInv SorterChildren SorterIdem SorterSort SorterRename.
From Coq Require Import ZifyBool ZifyNat ZifyN Permutation Sorted.
Local Open Scope N_scope.

(* ---- a numbered block keeps its number (root_at of SorterSort.v for any value) ---- *)
Definition num_at (r v : N) (S : list N) (st : sstate) : Prop :=
  vget (st_nidx st) r = Some v /\ In r (st_vis st) /\ ~ In r S.

Lemma num_at_assign r v S i : preserves (num_at r v S) (assign i).
Proof.
  intros st st' H (Hv & Hin & HS). destruct (assign_cases _ _ _ H) as [(_ & ->)|(Hnot & w & Hs & ->)]; [repeat split; assumption|].
  split; [|split; [right; exact Hin|exact HS]]. cbn [st_nidx].
  rewrite (vget_vset _ _ _ _ _ Hs). destruct (N.eqb_spec r i) as [->|_]; [contradiction|exact Hv].
Qed.

Lemma num_at_mark r v S i st : num_at r v S st -> visited st i = false -> num_at r v (i :: S) (s_mark i st).
Proof.
  intros (Hv & Hin & HS) V. apply visited_false in V.
  split; [exact Hv|]. split; [right; exact Hin|]. intros [->|Hc]; contradiction.
Qed.

Lemma num_at_index r v S i st st' : num_at r v (i :: S) st -> s_set_index i st = Ok st' -> num_at r v S st'.
Proof.
  intros (Hv & Hin & HS) H. unfold s_set_index in H.
  destruct (vset (st_nidx st) i (st_next st)) as [w|] eqn:Es; [|discriminate]. inversion H; subst st'.
  split; [|split; [exact Hin|intros Hc; apply HS; right; exact Hc]]. cbn [st_nidx].
  rewrite (vget_vset _ _ _ _ _ Es). destruct (N.eqb_spec r i) as [->|_]; [exfalso; apply HS; left; reflexivity|exact Hv].
Qed.

Lemma num_at_rebuild ob rso r v S i st : num_at r v S st -> num_at r v S (rebuild_at ob rso i st).
Proof. intros (H1 & H2 & H3). destruct (rebuild_at_fields ob rso i st) as (E1 & E2 & _). repeat split; rewrite ?E1, ?E2; assumption. Qed.

Lemma run_num_at ob rso fuel c r v S : preserves (num_at r v S) (sort_run ob rso fuel c).
Proof.
  apply (run_preserves (num_at r v) ob rso).
  - intros S0 i. apply num_at_assign.
  - intros S0 i st. apply num_at_mark.
  - intros S0 i st st'. apply num_at_index.
  - intros S0 i st. apply num_at_rebuild.
Qed.

(* ---- visited blocks stay visited ---- *)
Definition vis_at (r : N) (st : sstate) : Prop := visited st r = true.

Lemma vis_at_assign r i : preserves (vis_at r) (assign i).
Proof.
  intros st st' H V. unfold vis_at in *. apply visited_in in V. apply visited_in.
  destruct (assign_vis_mono _ _ _ H) as (Hinc & _). apply Hinc, V.
Qed.

Lemma run_vis_at ob rso fuel c r : preserves (vis_at r) (sort_run ob rso fuel c).
Proof.
  apply (run_preserves_unary (vis_at r) ob rso).
  - intros i. apply vis_at_assign.
  - intros i st V. unfold vis_at, visited in *. cbn [s_mark st_vis existsb]. rewrite V. apply orb_true_r.
  - intros i st st' H V. unfold s_set_index in H. destruct (vset _ _ _); [|discriminate]. inversion H. exact V.
  - intros i st V. unfold vis_at, visited in *. destruct (rebuild_at_fields ob rso i st) as (E1 & _). rewrite E1. exact V.
Qed.

(* SetSortIndices on an unvisited block that is not a collision object numbers it first *)
Lemma cset_numbers ob rso fuel st r b s1 :
  sort_run ob rso fuel (CSet r) st = Ok s1 ->
  getb (st_gr st) r = Some b -> has_kind K_COLL b = false -> visited st r = false ->
  num_at r (st_next st) [] s1.
Proof.
  intros H Hb Hc V. destruct fuel as [|f]; [discriminate|].
  cbn [sort_run] in H. unfold s_rd at 1 in H. rewrite Hb, V in H. cbv iota in H. rewrite Hc in H.
  unfold seq2 at 1 in H.
  destruct (assign r st) as [s0| |] eqn:Ea; cbn [bind] in H; try discriminate.
  assert (H0 : num_at r (st_next st) [] s0).
  { destruct (assign_cases _ _ _ Ea) as [(Hin & _)|(_ & v & Hv & ->)].
    - apply visited_in in Hin. congruence.
    - split; cbn [st_nidx st_vis]; [|split; [left; reflexivity|intros []]].
      rewrite (vget_vset _ _ _ _ _ Hv), N.eqb_refl. reflexivity. }
  revert H H0. generalize s0 s1. change (preserves (num_at r (st_next st) [])
    (if has_kind K_NODE b then sort_run ob rso f (CGraph r)
     else if has_kind K_SHAPE b then sort_run ob rso f (CShape r)
     else if has_kind K_CTRL b then sort_run ob rso f (CCtrl r)
     else if has_kind K_SHADER b then sort_run ob rso f (CNet r);; sort_run ob rso f (CSet (s_texset b))
     else s_rd (fun st => match getb (st_gr st) r with Some b' => kids b' | None => [] end)
             (fun l => s_foreach l (fun i0 => sort_run ob rso f (CSet i0))))).
  pose proof (num_at_assign r (st_next st)) as HA. pose proof (num_at_mark r (st_next st)) as HM.
  pose proof (num_at_index r (st_next st)) as HX.
  pose proof (fun S i s => num_at_rebuild ob rso r (st_next st) S i s) as HR.
  pres HA HM HX HR.
Qed.

(* SetSortIndices on a visited or absent block does nothing *)
Lemma cset_noop ob rso fuel st r :
  visited st r = true \/ getb (st_gr st) r = None -> sort_run ob rso (S fuel) (CSet r) st = Ok st.
Proof.
  intros H. cbn [sort_run]. unfold s_rd. destruct (getb (st_gr st) r) as [b|]; [|reflexivity].
  destruct H as [->|H]; [reflexivity|discriminate].
Qed.

(* ---- GetParentNode only looks at kinds and at the set of children ---- *)
Lemma has_parent_grel g0 g i : grel g0 g -> has_parent g i = has_parent g0 i.
Proof.
  unfold grel, has_parent. generalize (fun y : N => kind_at g0 y K_SHAPE) as shp. intros shp H.
  induction H as [|b0 b l0 l (Hs & (Hin & _)) _ IH]; cbn [existsb]; [reflexivity|].
  rewrite IH, (same_but_kind b0 b K_NODE Hs). f_equal. f_equal.
  apply eq_true_iff_eq. rewrite !contains_in. apply Hin.
Qed.

(* ---- GetNodes: the node indices in increasing order ---- *)
Lemma indices_where_in p : forall g k i,
  In i (indices_where p k g) <-> k <= i /\ exists b, vget g (i - k) = Some b /\ p b = true.
Proof.
  intros g k i. split; [intros H; destruct (indices_where_spec p g k i H) as (H1 & H2); split; [lia|exact H2]|].
  revert k i. induction g as [|b g IH]; intros k i (Hk & b' & Hb & Pb); cbn [indices_where].
  - unfold vget in Hb. destruct (N.to_nat (i - k)); discriminate.
  - apply in_or_app. destruct (N.eq_dec i k) as [->|Hne].
    + left. rewrite N.sub_diag in Hb. cbn in Hb. inversion Hb; subst b'. rewrite Pb. left. reflexivity.
    + right. apply IH. split; [lia|]. exists b'. split; [|exact Pb]. unfold vget in *.
      replace (N.to_nat (i - k)) with (S (N.to_nat (i - (k + 1)))) in Hb by lia. exact Hb.
Qed.

Lemma indices_where_sorted p : forall g k, StronglySorted N.lt (indices_where p k g).
Proof.
  induction g as [|b g IH]; intros k; cbn [indices_where]; [constructor|].
  destruct (p b); cbn [app]; [|apply IH]. constructor; [apply IH|].
  apply Forall_forall. intros x Hx. apply indices_where_spec in Hx. lia.
Qed.

Lemma sorted_before (l1 : list N) x l2 y : StronglySorted N.lt (l1 ++ x :: l2) -> In y (l1 ++ x :: l2) -> y < x -> In y l1.
Proof.
  induction l1 as [|a l1 IH]; cbn [app]; intros Hs Hin Hlt.
  - inversion Hs as [|? ? _ Hall]; subst. destruct Hin as [->|Hin]; [lia|].
    rewrite Forall_forall in Hall. specialize (Hall y Hin). lia.
  - inversion Hs as [|? ? Hs' _]; subst. destruct Hin as [->|Hin]; [left; reflexivity|right; apply IH; assumption].
Qed.

(* ---- the completing loop on a state that is the identity numbering of 0..m-1 ---- *)
Definition ident_upto (n m : N) (st : sstate) : Prop :=
  vlen (st_nidx st) = n /\ st_next st = m /\ m <= n /\
  (forall x, visited st x = true <-> x < m) /\ (forall x, x < m -> vget (st_nidx st) x = Some x).

Lemma leftover_identity n : n < 4294967296 -> forall cnt k m st,
  ident_upto n m st -> N.of_nat k <= m -> (k + cnt)%nat = N.to_nat n ->
  exists st', s_foreach (map N.of_nat (seq k cnt)) assign st = Ok st' /\ ident_upto n n st' /\ st_gr st' = st_gr st.
Proof.
  intros Hn. induction cnt as [|cnt IH]; intros k m st HI Hk Hkc.
  - cbn. exists st. split; [reflexivity|]. split; [|reflexivity].
    assert (Hm : m = n) by (destruct HI as (_ & _ & H3 & _); lia). rewrite Hm in HI. exact HI.
  - cbn [seq map s_foreach]. unfold seq2. destruct HI as (H1 & H2 & H3 & H4 & H5).
    unfold assign at 1. destruct (visited st (N.of_nat k)) eqn:V.
    + cbn [bind]. apply (IH (S k) m st); [repeat split; auto; apply H4| |lia].
      apply H4 in V. lia.
    + assert (Hkm : N.of_nat k = m).
      { destruct (N.ltb_spec (N.of_nat k) m) as [Hlt|Hge]; [apply H4 in Hlt; congruence|lia]. }
      assert (Hmn : m < n) by lia.
      destruct (vset_ok (st_nidx st) (N.of_nat k) (st_next st)) as (v & Hv); [lia|].
      rewrite Hv. cbn [bind].
      destruct (IH (S k) (m + 1) (mkSt (N.of_nat k :: st_vis st) v (wrapN 32 (st_next st + 1)) (st_gr st))) as (st' & E & HI' & G); [|lia|lia|].
      * split; [cbn [st_nidx]; unfold vlen; rewrite (vset_len _ _ _ _ Hv); exact H1|].
        split; [cbn [st_next]; rewrite H2; apply wrap32_small; lia|]. split; [lia|]. split.
        -- intros x. rewrite visited_cons. rewrite Hkm. destruct (N.eqb_spec x m) as [->|Hne]; cbn [orb]; [split; [lia|reflexivity]|].
           rewrite H4. lia.
        -- intros x Hx. cbn [st_nidx]. rewrite (vget_vset _ _ _ _ _ Hv), Hkm, H2.
           destruct (N.eqb_spec x m) as [->|Hne]; [reflexivity|]. apply H5. lia.
      * exists st'. split; [exact E|]. split; [exact HI'|exact G].
Qed.

(* ---- the loop over the parentless nodes ---- *)
Lemma foreach_app {A} (l1 l2 : list A) body st :
  s_foreach (l1 ++ l2) body st = bind (s_foreach l1 body st) (s_foreach l2 body).
Proof.
  revert st. induction l1 as [|x l1 IH]; intros st; cbn [app s_foreach]; [reflexivity|].
  unfold seq2. destruct (body x st) as [s1| |]; cbn [bind]; [apply IH|reflexivity|reflexivity].
Qed.

Lemma roots_loop_app ob fuel l1 l2 st :
  roots_loop ob fuel (l1 ++ l2) st = bind (roots_loop ob fuel l1 st) (roots_loop ob fuel l2).
Proof. apply foreach_app. Qed.

Lemma roots_sinv ob fuel l n st st' : n < 4294967296 ->
  roots_loop ob fuel l st = Ok st' -> SInv n 0 [] st -> SInv n 0 [] st'.
Proof.
  intros Hn. apply (roots_loop_preserves (SInv n 0) ob fuel l []).
  - intros S i s s' Ha HI. eapply assign_inv; eauto.
  - intros S i s. apply mark_inv.
  - intros S i s s' HI Hx. eapply set_index_inv; eauto.
  - intros S i s. apply rebuild_at_sinv.
Qed.

Lemma roots_grel ob fuel l h st st' : refs_in_range h -> node_shape_excl h ->
  roots_loop ob fuel l st = Ok st' -> grel h (st_gr st) -> grel h (st_gr st').
Proof.
  intros Hr He. apply (roots_loop_preserves_unary (fun s => grel h (st_gr s))).
  - intros i s s' Ha HG. rewrite (assign_gr _ _ _ Ha). exact HG.
  - auto.
  - intros i s s' Ha HG. rewrite (set_index_gr _ _ _ Ha). exact HG.
  - intros i s. apply rebuild_at_grel; assumption.
Qed.

Lemma roots_num_at ob fuel l r v : preserves (num_at r v []) (roots_loop ob fuel l).
Proof.
  apply (roots_loop_preserves (num_at r v) ob fuel l []).
  - intros S i. apply num_at_assign.
  - intros S i st. apply num_at_mark.
  - intros S i st st'. apply num_at_index.
  - intros S i st. apply num_at_rebuild.
Qed.

Lemma roots_vis_at ob fuel l r : preserves (vis_at r) (roots_loop ob fuel l).
Proof.
  apply (roots_loop_preserves_unary (vis_at r)).
  - intros i. apply vis_at_assign.
  - intros i st V. unfold vis_at, visited in *. cbn [s_mark st_vis existsb]. rewrite V. apply orb_true_r.
  - intros i st st' H V. unfold s_set_index in H. destruct (vset _ _ _); [|discriminate]. inversion H. exact V.
  - intros i st V. unfold vis_at, visited in *. destruct (rebuild_at_fields ob [] i st) as (E1 & _). rewrite E1. exact V.
Qed.

Lemma leftover_num_at n r v : preserves (num_at r v []) (leftover n).
Proof. apply (leftover_preserves (num_at r v)). intros S i. apply num_at_assign. Qed.

Definition node_coll_excl (g : list sblock) : Prop :=
  Forall (fun b => has_kind K_NODE b = true -> has_kind K_COLL b = false) g.

Section First.
  Variable ob : bool.
  Variable f : nat.
  Variable h : list sblock.
  Variable stF : sstate.
  Hypothesis Hsmall : vlen h < NPOS.
  Hypothesis Hrange : refs_in_range h.
  Hypothesis Hexcl : node_shape_excl h.
  Hypothesis Hrun : pretty_indices f ob h = Ok stF.
  Let n := vlen h.
  Let L := indices_where (has_kind K_NODE) 0 h.
  Let pil := st_nidx stF.
  Let init := init_state h 0.

  Lemma n_small : 0 + n < 4294967296.
  Proof. unfold n. pose proof NPOS_lt. lia. Qed.

  (* a state between two rounds of the loop *)
  Definition bnd (Lpre Lsuf : list N) (s : sstate) : Prop :=
    L = Lpre ++ Lsuf /\ roots_loop ob f Lpre init = Ok s.

  Lemma bnd_facts Lpre Lsuf s : bnd Lpre Lsuf s ->
    SInv n 0 [] s /\ grel h (st_gr s) /\
    exists sr, roots_loop ob f Lsuf s = Ok sr /\ leftover (length h) sr = Ok stF.
  Proof.
    intros (HL & Hs). split; [|split].
    - eapply roots_sinv; [apply n_small|exact Hs|apply init_inv].
    - eapply roots_grel; eauto. apply grel_refl.
    - pose proof Hrun as H. rewrite pretty_indices_unfold in H. fold L init in H. rewrite HL, roots_loop_app, Hs in H.
      cbn [bind] in H. destruct (roots_loop ob f Lsuf s) as [sr| |]; cbn [bind] in H; try discriminate.
      exists sr. split; [reflexivity|exact H].
  Qed.

  Lemma bnd_final_number Lpre Lsuf s r v : bnd Lpre Lsuf s -> num_at r v [] s -> vget pil r = Some v.
  Proof.
    intros HB HN. destruct (bnd_facts _ _ _ HB) as (_ & _ & sr & H1 & H2).
    pose proof (roots_num_at ob f Lsuf r v _ _ H1 HN) as N1.
    pose proof (leftover_num_at _ r v _ _ H2 N1) as N2. apply N2.
  Qed.

  Lemma task_static x s : grel h (st_gr s) ->
    s_rd (fun st => has_parent (st_gr st) x) (fun p => if p then s_skip else sort_run ob [] f (CSet x)) s =
    if has_parent h x then Ok s else sort_run ob [] f (CSet x) s.
  Proof. intros HG. unfold s_rd. rewrite (has_parent_grel h _ x HG). destruct (has_parent h x); reflexivity. Qed.

  Lemma roots_cons x l s : grel h (st_gr s) ->
    roots_loop ob f (x :: l) s = bind (if has_parent h x then Ok s else sort_run ob [] f (CSet x) s) (roots_loop ob f l).
  Proof. intros HG. unfold roots_loop at 1. cbn [s_foreach]. unfold seq2. rewrite (task_static x s HG). reflexivity. Qed.

  Lemma pil_perm : is_perm pil n.
  Proof. apply (pretty_perm f ob h stF Hsmall Hrun). Qed.

  Lemma bnd_visited_low Lpre Lsuf s y : bnd Lpre Lsuf s -> visited s y = true ->
    exists v, v < st_next s /\ vget pil y = Some v.
  Proof.
    intros HB V. destruct (bnd_facts _ _ _ HB) as ([_ (asg & Hnd & Hvis & _ & Hnext & Hvals)] & _).
    apply visited_in in V. pose proof V as V'. apply Hvis in V'. cbn [app] in V'. apply In_nth_error in V'. destruct V' as (k & Hk).
    exists (N.of_nat k). split.
    - assert (k < length asg)%nat by (apply nth_error_Some; congruence). unfold vlen in Hnext. lia.
    - apply (bnd_final_number _ _ _ _ _ HB). split; [rewrite (Hvals _ _ Hk); f_equal; lia|]. split; [exact V|intros []].
  Qed.

  Lemma bnd_unvisited_high Lpre Lsuf s y : bnd Lpre Lsuf s -> y < n -> visited s y = false ->
    exists v, vget pil y = Some v /\ st_next s <= v.
  Proof.
    intros HB Hy V. pose proof pil_perm as Hp.
    destruct (vget_lt pil y) as (v & Hv); [destruct Hp as (_ & _ & ->); exact Hy|].
    exists v. split; [exact Hv|]. destruct (N.leb_spec (st_next s) v) as [|Hlt]; [assumption|exfalso].
    destruct (bnd_facts _ _ _ HB) as ([_ (asg & Hnd & Hvis & _ & Hnext & Hvals)] & _).
    destruct (nth_error asg (N.to_nat v)) as [z|] eqn:Ez.
    2:{ apply nth_error_None in Ez. unfold vlen in Hnext. lia. }
    assert (Hz : In z (st_vis s)) by (apply Hvis; cbn [app]; eapply nth_error_In; eauto).
    assert (Hzv : vget pil z = Some v).
    { apply (bnd_final_number _ _ _ _ _ HB). split; [rewrite (Hvals _ _ Ez); f_equal; lia|]. split; [exact Hz|intros []]. }
    assert (z = y) by (eapply perm_inj; eauto). subst z. apply visited_in in Hz. congruence.
  Qed.

  Hypothesis Hcoll : node_coll_excl h.

  Lemma L_node x : In x L -> x < n /\ x <> NPOS /\ exists b, getb h x = Some b /\ has_kind K_NODE b = true /\ has_kind K_COLL b = false.
  Proof.
    intros Hx. apply indices_where_in in Hx. destruct Hx as (_ & b & Hb & Kb). rewrite N.sub_0_r in Hb.
    pose proof (vget_some_lt' _ _ _ Hb) as Hlt. fold n in Hlt. split; [exact Hlt|].
    assert (x <> NPOS) by (unfold n in *; lia). split; [assumption|]. exists b. split.
    - unfold getb. destruct (N.eqb_spec x NPOS); [contradiction|]. destruct (N.ltb_spec x (vlen h)); [exact Hb|unfold n in *; lia].
    - split; [exact Kb|]. unfold node_coll_excl in Hcoll. rewrite Forall_forall in Hcoll. apply Hcoll; [eapply in_vget; eauto|exact Kb].
  Qed.

  Lemma fuel_pos x : In x L -> has_parent h x = false -> f <> 0%nat.
  Proof.
    intros Hx Hp Hf. apply in_split in Hx. destruct Hx as (L1 & L2 & HL).
    pose proof Hrun as H. rewrite pretty_indices_unfold in H. fold L init in H. rewrite HL, roots_loop_app in H.
    destruct (roots_loop ob f L1 init) as [s1| |] eqn:E1; cbn [bind] in H; try discriminate.
    assert (HG : grel h (st_gr s1)) by (eapply roots_grel; eauto; apply grel_refl).
    rewrite (roots_cons x L2 s1 HG), Hp, Hf in H. cbn in H. discriminate.
  Qed.

  Definition np (s : sstate) (a : N) : Prop := has_parent h a = true \/ visited s a = true.

  Lemma bnd_skip Lpre a Lsuf s : bnd Lpre (a :: Lsuf) s -> np s a -> bnd (Lpre ++ [a]) Lsuf s.
  Proof.
    intros HB Hnp. pose proof HB as (HL & Hs). split; [rewrite <- app_assoc; exact HL|].
    rewrite roots_loop_app, Hs. cbn [bind].
    destruct (bnd_facts _ _ _ HB) as (_ & HG & _). rewrite (roots_cons a [] s HG).
    destruct (has_parent h a) eqn:Hp; [reflexivity|]. destruct Hnp as [Hc|V]; [congruence|].
    assert (Hf : f <> 0%nat) by (apply (fuel_pos a); [rewrite HL; apply in_or_app; right; left; reflexivity|exact Hp]).
    assert (Hn : forall f0, f0 <> 0%nat -> sort_run ob [] f0 (CSet a) s = Ok s).
    { intros [|f0] H0; [contradiction|]. apply cset_noop. left. exact V. }
    rewrite (Hn f Hf). reflexivity.
  Qed.

  Lemma bnd_skip_all A : forall Lpre Lsuf s, bnd Lpre (A ++ Lsuf) s -> (forall a, In a A -> np s a) -> bnd (Lpre ++ A) Lsuf s.
  Proof.
    induction A as [|a A IH]; intros Lpre Lsuf s HB Hall; [rewrite app_nil_r; exact HB|].
    replace (Lpre ++ a :: A) with ((Lpre ++ [a]) ++ A) by (rewrite <- app_assoc; reflexivity).
    apply IH; [|intros; apply Hall; right; assumption]. apply bnd_skip; [exact HB|apply Hall; left; reflexivity].
  Qed.

  Lemma bnd_step Lpre e Lsuf s : bnd Lpre (e :: Lsuf) s -> has_parent h e = false -> visited s e = false ->
    exists s', sort_run ob [] f (CSet e) s = Ok s' /\ bnd (Lpre ++ [e]) Lsuf s' /\
               vget pil e = Some (st_next s) /\ visited s' e = true.
  Proof.
    intros HB Hp V. pose proof HB as (HL & Hs).
    destruct (bnd_facts _ _ _ HB) as (_ & HG & sr & Hr & _).
    rewrite (roots_cons e Lsuf s HG), Hp in Hr.
    destruct (sort_run ob [] f (CSet e) s) as [s'| |] eqn:Ec; cbn [bind] in Hr; try discriminate.
    exists s'. split; [reflexivity|].
    assert (HB' : bnd (Lpre ++ [e]) Lsuf s').
    { split; [rewrite <- app_assoc; exact HL|]. rewrite roots_loop_app, Hs. cbn [bind].
      rewrite (roots_cons e [] s HG), Hp, Ec. reflexivity. }
    split; [exact HB'|].
    destruct (L_node e) as (_ & _ & b & Hb & Kn & Kc); [rewrite HL; apply in_or_app; right; left; reflexivity|].
    pose proof (grel_getb h (st_gr s) e HG) as R. rewrite Hb in R.
    destruct (getb (st_gr s) e) as [b'|] eqn:Eb'; [|contradiction]. destruct R as (R & _).
    assert (Kc' : has_kind K_COLL b' = false) by (rewrite (same_but_kind b b' K_COLL R); exact Kc).
    pose proof (cset_numbers ob [] f s e b' s' Ec Eb' Kc' V) as HN.
    split; [apply (bnd_final_number _ _ _ _ _ HB' HN)|]. apply visited_in. apply HN.
  Qed.

  Lemma first_false (P : N -> bool) : forall l, (forall a, In a l -> P a = true) \/
    exists A1 e A2, l = A1 ++ e :: A2 /\ P e = false /\ forall a, In a A1 -> P a = true.
  Proof.
    induction l as [|x l IH]; [left; intros a []|]. destruct (P x) eqn:Px.
    - destruct IH as [IH|(A1 & e & A2 & -> & He & HA)].
      + left. intros a [<-|Ha]; auto.
      + right. exists (x :: A1), e, A2. split; [reflexivity|]. split; [exact He|]. intros a [<-|Ha]; auto.
    - right. exists [], x, l. split; [reflexivity|]. split; [exact Px|intros a []].
  Qed.

  Lemma np_bool s a : np s a <-> (has_parent h a || visited s a)%bool = true.
  Proof. unfold np. rewrite orb_true_iff. tauto. Qed.

  (* every node the loop has been through is visited or has a parent *)
  Lemma roots_done : forall l st st', (forall y, In y l -> In y L) -> grel h (st_gr st) ->
    roots_loop ob f l st = Ok st' -> forall y, In y l -> np st' y.
  Proof.
    induction l as [|x l IH]; intros st st' Hsub HG H y Hy; [destruct Hy|].
    rewrite (roots_cons x l st HG) in H.
    destruct (has_parent h x) eqn:Hp; cbn [bind] in H.
    - destruct Hy as [<-|Hy]; [left; exact Hp|]. eapply IH; eauto. intros; apply Hsub; right; assumption.
    - destruct (sort_run ob [] f (CSet x) st) as [s1| |] eqn:Ec; cbn [bind] in H; try discriminate.
      assert (HG1 : grel h (st_gr s1)) by (eapply run_children; eauto).
      destruct Hy as [<-|Hy]; [|eapply IH; eauto; intros; apply Hsub; right; assumption].
      right. apply (roots_vis_at ob f l x _ _ H). unfold vis_at.
      destruct (visited st x) eqn:V; [apply (run_vis_at ob [] f (CSet x) x _ _ Ec V)|].
      destruct (L_node x) as (_ & _ & b & Hb & Kn & Kc); [apply Hsub; left; reflexivity|].
      pose proof (grel_getb h (st_gr st) x HG) as R. rewrite Hb in R.
      destruct (getb (st_gr st) x) as [b'|] eqn:Eb'; [|contradiction]. destruct R as (R & _).
      assert (Kc' : has_kind K_COLL b' = false) by (rewrite (same_but_kind b b' K_COLL R); exact Kc).
      apply visited_in. apply (cset_numbers ob [] f st x b' s1 Ec Eb' Kc' V).
  Qed.

  Lemma bnd_done Lpre Lsuf s y : bnd Lpre Lsuf s -> In y Lpre -> np s y.
  Proof.
    intros (HL & Hs) Hy. apply (roots_done Lpre init s); auto.
    - intros z Hz. rewrite HL. apply in_or_app. left. exact Hz.
    - apply grel_refl.
  Qed.

  Lemma L_nodup : NoDup L.
  Proof.
    assert (H : StronglySorted N.lt L) by apply indices_where_sorted. clear -H.
    induction H as [|a l _ IH Hall]; constructor; [|exact IH].
    intros Hin. rewrite Forall_forall in Hall. specialize (Hall a Hin). lia.
  Qed.

  (* the node with the lowest final index among the unvisited parentless ones is the next one the
     loop starts from: everything in front of it is skipped *)
  Lemma bnd_next_root Lpre Lsuf s x vx : bnd Lpre Lsuf s -> In x L ->
    has_parent h x = false -> visited s x = false -> vget pil x = Some vx ->
    (forall y vy, In y L -> vget pil y = Some vy -> vy < vx -> np s y) ->
    exists A B, Lsuf = A ++ x :: B /\ forall a, In a A -> np s a.
  Proof.
    intros HB Hx Hp V Hvx Hlow. pose proof HB as (HL & Hs).
    assert (Hxs : In x Lsuf).
    { rewrite HL in Hx. apply in_app_or in Hx. destruct Hx as [Hx|Hx]; [|exact Hx].
      destruct (bnd_done _ _ _ x HB Hx) as [Hc|Hc]; congruence. }
    apply in_split in Hxs. destruct Hxs as (A & B & HA). exists A, B. split; [exact HA|].
    destruct (first_false (fun a => (has_parent h a || visited s a)%bool) A) as [Hall|(A1 & e & A2 & -> & He & HA1)].
    { intros a Ha. apply np_bool. apply Hall. exact Ha. }
    exfalso. apply orb_false_iff in He. destruct He as (Hpe & Ve).
    rewrite HA in HB. rewrite <- app_assoc in HB. cbn [app] in HB.
    assert (HB1 : bnd (Lpre ++ A1) (e :: A2 ++ x :: B) s).
    { apply bnd_skip_all; [exact HB|]. intros a Ha. apply np_bool. apply HA1. exact Ha. }
    destruct (bnd_step _ _ _ _ HB1 Hpe Ve) as (s' & _ & _ & Hpe' & _).
    assert (HeL : In e L).
    { rewrite HL, HA. apply in_or_app. right. apply in_or_app. left. apply in_or_app. right. left. reflexivity. }
    destruct (L_node x Hx) as (Hxn & _).
    destruct (bnd_unvisited_high _ _ _ x HB1 Hxn V) as (v & Hv & Hge).
    assert (v = vx) by congruence. subst v.
    assert (Hne : e <> x).
    { intros ->. pose proof L_nodup as Hnd. rewrite HL, HA in Hnd. apply NoDup_app_r in Hnd.
      rewrite <- app_assoc in Hnd. cbn [app] in Hnd. apply NoDup_app_r in Hnd.
      inversion Hnd as [|? ? Hni _]; subst. apply Hni. apply in_or_app. right. left. reflexivity. }
    assert (Hlt : st_next s < vx).
    { destruct (N.eq_dec (st_next s) vx) as [E|E]; [|lia]. exfalso. apply Hne.
      eapply (perm_inj pil n pil_perm); [exact Hpe'|rewrite E; exact Hvx]. }
    destruct (Hlow e (st_next s) HeL Hpe' Hlt) as [Hc|Hc]; congruence.
  Qed.
End First.

(* ---- the renumbering applied by SetBlockOrder ---- *)
Section Remap.
  Variable order : list N.
  Variable n : N.
  Hypothesis Hp : is_perm order n.
  Hypothesis Hn : n < NPOS.

  Lemma remap_lt i v : vget order i = Some v -> remap_ref order i = v.
  Proof.
    intros H. pose proof (vget_some_lt' _ _ _ H) as Hi. destruct Hp as (_ & _ & Hl). unfold remap_ref.
    destruct (N.eqb_spec i NPOS); [lia|]. destruct (N.ltb_spec i (vlen order)); [|lia]. rewrite H. reflexivity.
  Qed.

  Lemma remap_ge i : n <= i -> remap_ref order i = i.
  Proof.
    intros H. destruct Hp as (_ & _ & Hl). unfold remap_ref. destruct (i =? NPOS); [reflexivity|].
    destruct (N.ltb_spec i (vlen order)); [lia|reflexivity].
  Qed.

  Lemma remap_range i : remap_ref order i < n <-> i < n.
  Proof.
    destruct (N.ltb_spec i n) as [Hi|Hi].
    - destruct (vget_lt order i) as (v & Hv); [destruct Hp as (_ & _ & ->); exact Hi|].
      rewrite (remap_lt i v Hv). destruct Hp as (_ & Hall & _). rewrite Forall_forall in Hall.
      specialize (Hall v (in_vget _ _ _ Hv)). tauto.
    - rewrite (remap_ge i Hi). tauto.
  Qed.

  Lemma remap_inj a b : remap_ref order a = remap_ref order b -> a = b.
  Proof.
    intros E. destruct (N.ltb_spec a n) as [Ha|Ha]; destruct (N.ltb_spec b n) as [Hb|Hb].
    - destruct (vget_lt order a) as (va & Hva); [destruct Hp as (_ & _ & ->); exact Ha|].
      destruct (vget_lt order b) as (vb & Hvb); [destruct Hp as (_ & _ & ->); exact Hb|].
      rewrite (remap_lt a va Hva), (remap_lt b vb Hvb) in E. subst vb. eapply perm_inj; eauto.
    - assert (remap_ref order a < n) by (apply remap_range; exact Ha). rewrite E, (remap_ge b Hb) in H. lia.
    - assert (remap_ref order b < n) by (apply remap_range; exact Hb). rewrite <- E, (remap_ge a Ha) in H. lia.
    - rewrite (remap_ge a Ha), (remap_ge b Hb) in E. exact E.
  Qed.

  Lemma remap_npos : remap_ref order NPOS = NPOS.
  Proof. reflexivity. Qed.

  Lemma remap_surj j : j < n -> exists i, remap_ref order i = j.
  Proof. intros Hj. destruct (perm_surj order n Hp j Hj) as (k & Hk). exists k. apply remap_lt. exact Hk. Qed.
End Remap.

(* ---- the second run: on the graph renumbered by the first run's order ---- *)
Section Second.
  Variable ob : bool.
  Variable f : nat.
  Variable h : list sblock.
  Variable stF : sstate.
  Hypothesis Hsmall : vlen h < NPOS.
  Hypothesis Hrange : refs_in_range h.
  Hypothesis Hexcl : node_shape_excl h.
  Hypothesis Hcoll : node_coll_excl h.
  Hypothesis Hrun : pretty_indices f ob h = Ok stF.
  Let n := vlen h.
  Let L := indices_where (has_kind K_NODE) 0 h.
  Let pil := st_nidx stF.
  Let pi := remap_ref pil.
  Variable h2 : list sblock.
  Hypothesis Hlen2 : vlen h2 = n.
  Hypothesis Hh2 : forall i, vget h2 (pi i) = option_map (map_refs pi) (vget h i).
  Let L2 := indices_where (has_kind K_NODE) 0 h2.

  Let Hperm : is_perm pil n := pil_perm ob f h stF Hsmall Hrun.
  Let pi_inj := remap_inj pil n Hperm Hsmall.
  Let pi_range := remap_range pil n Hperm Hsmall.
  Let pi_surj := remap_surj pil n Hperm Hsmall.
  Let BF := bnd_facts ob f h stF Hsmall Hrange Hexcl Hrun.
  Let BN := bnd_final_number ob f h stF Hsmall Hrange Hexcl Hrun.

  Lemma bnd_visited_nidx Lpre Lsuf s z : bnd ob f h Lpre Lsuf s -> visited s z = true ->
    exists v, v < st_next s /\ vget (st_nidx s) z = Some v /\ vget pil z = Some v /\ pi z = v.
  Proof.
    intros HB V. destruct (BF _ _ _ HB) as ([_ (asg & Hnd & Hvis & _ & Hnext & Hvals)] & _).
    apply visited_in in V. pose proof V as V'. apply Hvis in V'. cbn [app] in V'. apply In_nth_error in V'. destruct V' as (k & Hk).
    exists (N.of_nat k).
    assert (Hkl : (k < length asg)%nat) by (apply nth_error_Some; congruence).
    assert (Hs : vget (st_nidx s) z = Some (N.of_nat k)) by (rewrite (Hvals _ _ Hk); f_equal; lia).
    assert (Hf : vget pil z = Some (N.of_nat k)) by (apply (BN _ _ _ _ _ HB); split; [exact Hs|split; [exact V|intros []]]).
    split; [unfold vlen in Hnext; lia|]. split; [exact Hs|]. split; [exact Hf|]. apply (remap_lt pil n Hperm Hsmall). exact Hf.
  Qed.

  Lemma bnd_low_visited Lpre Lsuf s v : bnd ob f h Lpre Lsuf s -> v < st_next s -> st_next s <= n ->
    exists z, visited s z = true /\ pi z = v.
  Proof.
    intros HB Hv Hle. destruct (perm_surj pil n Hperm v ltac:(lia)) as (z & Hz). exists z.
    split; [|apply (remap_lt pil n Hperm Hsmall); exact Hz].
    destruct (visited s z) eqn:V; [reflexivity|exfalso].
    assert (Hl : vlen pil = n) by apply Hperm.
    assert (Hzn : z < n) by (apply vget_some_lt' in Hz; lia).
    destruct (bnd_unvisited_high ob f h stF Hsmall Hrange Hexcl Hrun _ _ _ z HB Hzn V) as (w & Hw & Hge).
    fold pil in Hw. assert (w = v) by congruence. lia.
  Qed.

  Lemma L2_preimage x : In x L2 -> exists x', x = pi x' /\ In x' L.
  Proof.
    intros Hx. apply indices_where_in in Hx. destruct Hx as (_ & b2 & Hb & Kb). rewrite N.sub_0_r in Hb.
    assert (Hxn : x < n) by (rewrite <- Hlen2; eapply vget_some_lt'; eauto).
    destruct (pi_surj x Hxn) as (x' & Hx'). exists x'. split; [symmetry; exact Hx'|].
    fold pi in Hx'. rewrite <- Hx', Hh2 in Hb. destruct (vget h x') as [b|] eqn:Eb; [|discriminate].
    inversion Hb; subst b2. apply indices_where_in. split; [lia|]. exists b. rewrite N.sub_0_r. split; [exact Eb|exact Kb].
  Qed.

  Lemma L2_image y : In y L -> In (pi y) L2.
  Proof.
    intros Hy. apply indices_where_in in Hy. destruct Hy as (_ & b & Hb & Kb). rewrite N.sub_0_r in Hb.
    apply indices_where_in. split; [lia|]. exists (map_refs pi b). rewrite N.sub_0_r, Hh2, Hb. split; [reflexivity|exact Kb].
  Qed.

  Definition invC (P2 : list N) (st2 : sstate) : Prop :=
    exists Lpre Lsuf s, bnd ob f h Lpre Lsuf s /\ rel pi n [] s st2 /\
      forall y, In y L -> In (pi y) P2 -> np h s y.

  Lemma second_step P2 x rest st2 : L2 = P2 ++ x :: rest -> invC P2 st2 ->
    exists st2', s_rd (fun st => has_parent (st_gr st) x) (fun p => if p then s_skip else sort_run ob [] f (CSet x)) st2 = Ok st2' /\
                 invC (P2 ++ [x]) st2'.
  Proof.
    intros HL2 (Lpre & Lsuf & s & HB & HR & HF).
    destruct (L2_preimage x) as (x' & -> & Hx'); [fold L2; rewrite HL2; apply in_or_app; right; left; reflexivity|].
    destruct (BF _ _ _ HB) as (_ & HG & _).
    unfold s_rd. rewrite (has_parent_pi pi n pi_inj pi_surj [] s st2 x' HR), (has_parent_grel h _ x' HG).
    destruct (has_parent h x') eqn:Hp.
    - exists st2. split; [reflexivity|]. exists Lpre, Lsuf, s. split; [exact HB|]. split; [exact HR|].
      intros y Hy Hin. apply in_app_or in Hin. destruct Hin as [Hin|[E|[]]]; [auto|].
      apply pi_inj in E. subst y. left. exact Hp.
    - destruct (visited s x') eqn:V.
      + assert (Hf : f <> 0%nat) by (apply (fuel_pos ob f h stF Hrange Hexcl Hrun x' Hx' Hp)).
        assert (Hn : forall f0, f0 <> 0%nat -> sort_run ob [] f0 (CSet (pi x')) st2 = Ok st2).
        { intros [|f0] H0; [contradiction|]. apply cset_noop. left. rewrite (rel_visited pi n pi_inj _ _ x' _ HR). exact V. }
        exists st2. split; [apply Hn, Hf|]. exists Lpre, Lsuf, s. split; [exact HB|]. split; [exact HR|].
        intros y Hy Hin. apply in_app_or in Hin. destruct Hin as [Hin|[E|[]]]; [auto|].
        apply pi_inj in E. subst y. right. exact V.
      + destruct (L_node h Hsmall Hcoll x' Hx') as (Hxn & _).
        assert (Hl : vlen pil = n) by apply Hperm.
        destruct (vget_lt pil x') as (vx & Hvx); [lia|].
        destruct (bnd_next_root ob f h stF Hsmall Hrange Hexcl Hrun Hcoll Lpre Lsuf s x' vx HB Hx' Hp V Hvx) as (A & B & -> & HA).
        { intros y vy Hy Hvy Hlt. apply HF; [exact Hy|].
          apply (sorted_before P2 (pi x') rest).
          - rewrite <- HL2. apply indices_where_sorted.
          - rewrite <- HL2. apply L2_image. exact Hy.
          - unfold pi. rewrite (remap_lt pil n Hperm Hsmall y vy Hvy), (remap_lt pil n Hperm Hsmall x' vx Hvx). exact Hlt. }
        pose proof (bnd_skip_all ob f h stF Hsmall Hrange Hexcl Hrun A Lpre (x' :: B) s HB HA) as HB1.
        destruct (bnd_step ob f h stF Hsmall Hrange Hexcl Hrun Hcoll _ _ _ _ HB1 Hp V) as (s' & Ec & HB' & _ & V').
        destruct (run_equivariant pi n pi_inj (remap_npos pil) pi_range ob f (CSet x') [] s st2 HR s' Ec) as (st2' & E2 & HR').
        exists st2'. split; [exact E2|]. exists ((Lpre ++ A) ++ [x']), B, s'. split; [exact HB'|]. split; [exact HR'|].
        intros y Hy Hin. apply in_app_or in Hin. destruct Hin as [Hin|[E|[]]].
        * destruct (HF y Hy Hin) as [Hc|Hc]; [left; exact Hc|right]. apply (run_vis_at ob [] f (CSet x') y _ _ Ec Hc).
        * apply pi_inj in E. subst y. right. exact V'.
  Qed.

  Lemma second_loop : forall rest P2 st2, L2 = P2 ++ rest -> invC P2 st2 ->
    exists st2', roots_loop ob f rest st2 = Ok st2' /\ invC L2 st2'.
  Proof.
    induction rest as [|x rest IH]; intros P2 st2 HL2 HI.
    - exists st2. split; [reflexivity|]. rewrite HL2, app_nil_r. exact HI.
    - destruct (second_step P2 x rest st2 HL2 HI) as (st2a & Ea & HIa).
      destruct (IH (P2 ++ [x]) st2a) as (st2' & E & HI'); [rewrite <- app_assoc; exact HL2|exact HIa|].
      exists st2'. split; [|exact HI']. unfold roots_loop in *. cbn [s_foreach]. unfold seq2. rewrite Ea. exact E.
  Qed.

  Lemma leftover_gr k st st' : leftover k st = Ok st' -> st_gr st' = st_gr st.
  Proof.
    intros H. apply (leftover_preserves_unary (fun s => st_gr s = st_gr st)) with (n := k) (st := st); [|exact H|reflexivity].
    intros i s s' Ha E. rewrite (assign_gr _ _ _ Ha). exact E.
  Qed.

  Lemma init_rel : rel pi n [] (init_state h 0) (init_state h2 0).
  Proof.
    constructor; cbn [init_state st_vis st_nidx st_next st_gr].
    - reflexivity.
    - reflexivity.
    - unfold vlen. rewrite map_length, seq_length. reflexivity.
    - unfold vlen. rewrite map_length, seq_length. exact Hlen2.
    - intros i V. discriminate.
    - reflexivity.
    - exact Hlen2.
    - exact Hh2.
  Qed.

  Theorem second_run : exists st2F,
    pretty_indices f ob h2 = Ok st2F /\
    st_nidx st2F = map N.of_nat (seq 0 (length h2)) /\
    vlen (st_gr st2F) = n /\
    forall i, vget (st_gr st2F) (pi i) = option_map (map_refs pi) (vget (st_gr stF) i).
  Proof.
    assert (HI0 : invC [] (init_state h2 0)).
    { exists [], L, (init_state h 0). split; [split; reflexivity|]. split; [exact init_rel|]. intros y _ []. }
    destruct (second_loop L2 [] _ eq_refl HI0) as (st2r & Er & (Lpre & Lsuf & s & HB & HR & HF)).
    assert (HB1 : bnd ob f h (Lpre ++ Lsuf) [] s).
    { apply (bnd_skip_all ob f h stF Hsmall Hrange Hexcl Hrun); [rewrite app_nil_r; exact HB|].
      intros a Ha. assert (HaL : In a L) by (destruct HB as (HL & _); unfold L; rewrite HL; apply in_or_app; right; exact Ha).
      apply HF; [exact HaL|apply L2_image; exact HaL]. }
    destruct (BF _ _ _ HB1) as ([Hnl (asg & Hnd & Hvis & Hlt & Hnext & Hvals)] & _ & sr & Hsr & Hleft).
    inversion Hsr; subst sr. clear Hsr.
    assert (Hle : st_next s <= n).
    { cbn [app] in Hnd. pose proof (NoDup_lt_length asg (vlen h) Hnd Hlt) as Hc. rewrite Hnext. unfold n. clear - Hc. lia. }
    assert (Hn32 : n < 4294967296) by (unfold n; pose proof NPOS_lt; lia).
    assert (HI : ident_upto n (st_next s) st2r).
    { split; [apply (r_nlen2 _ _ _ _ _ HR)|]. split; [apply (r_next _ _ _ _ _ HR)|]. split; [exact Hle|]. split.
      - intros x. split.
        + intros V. unfold visited in V. rewrite (r_vis _ _ _ _ _ HR) in V. apply existsb_exists in V.
          destruct V as (y & Hy & E). apply N.eqb_eq in E. subst y. apply in_map_iff in Hy. destruct Hy as (z & <- & Hz).
          apply visited_in in Hz. destruct (bnd_visited_nidx _ _ _ z HB1 Hz) as (v & Hv & _ & _ & ->). exact Hv.
        + intros Hx. destruct (bnd_low_visited _ _ _ x HB1 Hx Hle) as (z & Vz & <-).
          rewrite (rel_visited pi n pi_inj _ _ z _ HR). exact Vz.
      - intros x Hx. destruct (bnd_low_visited _ _ _ x HB1 Hx Hle) as (z & Vz & Ez).
        destruct (bnd_visited_nidx _ _ _ z HB1 Vz) as (v & _ & Hs & _ & Ev).
        rewrite <- Ez at 1. rewrite (r_nidx _ _ _ _ _ HR z Vz (fun F => F)), Hs. congruence. }
    destruct (leftover_identity n Hn32 (N.to_nat n) 0%nat (st_next s) st2r HI ltac:(lia) ltac:(lia)) as (st2F & El & (I1 & I2 & I3 & I4 & I5) & G).
    assert (Hl2 : length h2 = N.to_nat n) by (unfold vlen in Hlen2; lia).
    exists st2F. split; [|split; [|split]].
    - rewrite pretty_indices_unfold. fold L2. rewrite Er. cbn [bind]. unfold leftover. rewrite Hl2. exact El.
    - apply vget_ext. intros i. destruct (N.ltb_spec i n) as [Hi|Hi].
      + rewrite (I5 i Hi), vget_iota by lia. reflexivity.
      + rewrite !vget_none_ge; [reflexivity| |lia]. unfold vlen. rewrite map_length, seq_length. lia.
    - rewrite G. apply (r_glen2 _ _ _ _ _ HR).
    - intros i. rewrite G, (r_gr _ _ _ _ _ HR), (leftover_gr _ _ _ Hleft). reflexivity.
  Qed.
End Second.

(* ---- SetBlockOrder with the identity order ---- *)
Lemma iota_perm k : is_perm (map N.of_nat (seq 0 k)) (N.of_nat k).
Proof.
  split; [|split].
  - apply FinFun.Injective_map_NoDup; [intros a b E; lia|apply seq_NoDup].
  - apply Forall_forall. intros x Hx. apply in_map_iff in Hx. destruct Hx as (j & <- & Hj). apply in_seq in Hj. lia.
  - unfold vlen. rewrite map_length, seq_length. reflexivity.
Qed.

Lemma remap_iota k r : remap_ref (map N.of_nat (seq 0 k)) r = r.
Proof.
  unfold remap_ref. destruct (r =? NPOS); [reflexivity|].
  destruct (N.ltb_spec r (vlen (map N.of_nat (seq 0 k)))) as [H|H]; [|reflexivity].
  unfold vlen in H. rewrite map_length, seq_length in H. rewrite vget_iota by exact H. reflexivity.
Qed.

Lemma map_id_ext {A} (fn : A -> A) l : (forall x, fn x = x) -> map fn l = l.
Proof. intros H. rewrite (map_ext fn (fun x => x)) by exact H. apply map_id. Qed.

Lemma map_refs_id fn b : (forall r, fn r = r) -> map_refs fn b = b.
Proof.
  intros H. destruct b. unfold map_refs. cbn.
  rewrite !H, !(map_id_ext fn) by exact H.
  rewrite (map_id_ext (fun p : N * N => (fn (fst p), fn (snd p)))); [reflexivity|].
  intros [a c]. cbn. rewrite !H. reflexivity.
Qed.

Lemma reorder_identity g : reorder_g (map N.of_nat (seq 0 (length g))) g = Ok g.
Proof.
  destruct (reorder_g_spec (map N.of_nat (seq 0 (length g))) g (iota_perm (length g))) as (g' & E & Hl & Hget).
  rewrite E. f_equal. apply vget_ext. intros i. destruct (N.ltb_spec i (vlen g)) as [Hi|Hi].
  - destruct (vget_lt g i Hi) as (b & Hb). rewrite Hb.
    rewrite (Hget i i b); [|apply vget_iota; exact Hi|exact Hb].
    f_equal. apply map_refs_id. apply remap_iota.
  - rewrite !vget_none_ge by lia. reflexivity.
Qed.

(* the reordered block vector, in the form [second_run] wants *)
Lemma reorder_pointwise order g g2 : vlen g < NPOS -> is_perm order (vlen g) -> reorder_g order g = Ok g2 ->
  vlen g2 = vlen g /\
  forall i, vget g2 (remap_ref order i) = option_map (map_refs (remap_ref order)) (vget g i).
Proof.
  intros Hs Hp Hr. destruct (reorder_g_spec order g Hp) as (g' & E & Hl & Hget).
  rewrite Hr in E. inversion E; subst g'. split; [exact Hl|]. intros i.
  destruct (N.ltb_spec i (vlen g)) as [Hi|Hi].
  - destruct (vget_lt g i Hi) as (b & Hb). destruct (vget_lt order i) as (o & Ho); [destruct Hp as (_ & _ & ->); exact Hi|].
    rewrite (remap_lt order (vlen g) Hp Hs i o Ho), Hb. cbn [option_map]. apply (Hget i o b Ho Hb).
  - rewrite (remap_ge order (vlen g) Hp Hs i Hi), !vget_none_ge by lia. reflexivity.
Qed.

(* Idempotence when the first sort did not have to rebuild any child array: PrettySortBlocks applied
   to its own result changes nothing. *)
Theorem sort_idem_canonical fuel m m' st :
  vlen (sm_g m) < NPOS -> refs_in_range (sm_g m) -> node_shape_excl (sm_g m) -> node_coll_excl (sm_g m) ->
  pretty_indices fuel (sm_ob m) (sm_g m) = Ok st -> st_gr st = sm_g m ->
  pretty_sort fuel m = Ok m' -> pretty_sort fuel m' = Ok m'.
Proof.
  intros Hs Hr He Hc Hrun Hfix H. unfold pretty_sort in H.
  destruct (sm_unk m) eqn:Hu; [inversion H; subst m'; unfold pretty_sort; rewrite Hu; reflexivity|].
  destruct (sm_g m) as [|b0 g0] eqn:Eg; [inversion H; subst m'; unfold pretty_sort; rewrite Hu, Eg; reflexivity|].
  rewrite <- Eg in *. rewrite Hrun in H. cbn [bind] in H. rewrite Hfix in H.
  destruct (reorder_g (st_nidx st) (sm_g m)) as [g2| |] eqn:Er; cbn [bind] in H; try discriminate.
  inversion H; subst m'. clear H.
  pose proof (pil_perm (sm_ob m) fuel (sm_g m) st Hs Hrun) as Hp.
  destruct (reorder_pointwise _ _ _ Hs Hp Er) as (Hl2 & Hpt).
  destruct (second_run (sm_ob m) fuel (sm_g m) st Hs Hr He Hc Hrun g2 Hl2 Hpt) as (st2 & E2 & N2 & G2l & G2).
  assert (HG : st_gr st2 = g2).
  { apply vget_ext. intros j. destruct (N.ltb_spec j (vlen (sm_g m))) as [Hj|Hj].
    - destruct (remap_surj _ _ Hp Hs j Hj) as (i & <-). rewrite G2, Hpt, Hfix. reflexivity.
    - rewrite !vget_none_ge by lia. reflexivity. }
  unfold pretty_sort. cbn [with_g sm_unk sm_g sm_ob]. rewrite Hu.
  destruct g2 as [|c0 g2'] eqn:Eg2; [reflexivity|]. rewrite <- Eg2 in *.
  rewrite E2. cbn [bind]. rewrite N2, HG, reorder_identity. reflexivity.
Qed.
