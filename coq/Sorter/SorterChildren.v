(* SortGraph's rebuild of a node's child array: same set of children, none more often than
   before, the shape children permuted (exactly a permutation of the whole array when no
   non-node, non-shape child is listed twice); lifted over every traversal. *)
From NiflyVerif Require Import Res CompactProofs GraphModel GraphInv GraphDelete GraphAdd GraphOrder SorterModel SorterInv.
From Coq Require Import ZifyBool ZifyNat ZifyN Permutation.
Local Open Scope N_scope.

Notation cnt := (count_occ N.eq_dec).

(* ---- list helpers ---- *)
Lemma count_filter (p : N -> bool) l x : cnt (filter p l) x = if p x then cnt l x else 0%nat.
Proof.
  induction l as [|a l IH]; cbn [filter]; [destruct (p x); reflexivity|].
  destruct (p a) eqn:Pa; cbn [count_occ]; destruct (N.eq_dec a x) as [->|Hne]; rewrite ?Pa in *; rewrite IH;
    destruct (p x); try reflexivity; congruence.
Qed.

Lemma filter_none {A} (p : A -> bool) l : (forall x, In x l -> p x = false) -> filter p l = [].
Proof.
  induction l as [|a l IH]; intros H; cbn; [reflexivity|].
  rewrite (H a (or_introl eq_refl)). apply IH. intros; apply H; right; assumption.
Qed.

Lemma filter_all {A} (p : A -> bool) l : (forall x, In x l -> p x = true) -> filter p l = l.
Proof.
  induction l as [|a l IH]; intros H; cbn; [reflexivity|].
  rewrite (H a (or_introl eq_refl)). f_equal. apply IH. intros; apply H; right; assumption.
Qed.

Lemma Permutation_filter {A} (p : A -> bool) l l' : Permutation l l' -> Permutation (filter p l) (filter p l').
Proof.
  induction 1; cbn.
  - constructor.
  - destruct (p x); [constructor|]; assumption.
  - destruct (p x), (p y); try apply Permutation_refl. apply perm_swap.
  - eapply Permutation_trans; eauto.
Qed.

Lemma contains_in l x : s_contains l x = true <-> In x l.
Proof.
  unfold s_contains. rewrite existsb_exists. split.
  - intros (y & Hy & E). apply N.eqb_eq in E. subst. exact Hy.
  - intros H. exists x. split; [exact H|apply N.eqb_refl].
Qed.

(* ---- block lookup ---- *)
Lemma getb_npos g : getb g NPOS = None.
Proof. unfold getb. rewrite N.eqb_refl. reflexivity. Qed.

Lemma getb_some g x b : getb g x = Some b -> x <> NPOS /\ x < vlen g /\ vget g x = Some b.
Proof.
  unfold getb. destruct (N.eqb_spec x NPOS); [discriminate|].
  destruct (N.ltb_spec x (vlen g)); [auto|discriminate].
Qed.

Lemma getb_in_range g x : x <> NPOS -> x < vlen g -> exists b, getb g x = Some b.
Proof.
  intros H1 H2. unfold getb. destruct (N.eqb_spec x NPOS); [contradiction|].
  destruct (N.ltb_spec x (vlen g)); [|lia]. apply vget_lt. exact H2.
Qed.

Lemma kind_at_some g x k : kind_at g x k = true -> exists b, getb g x = Some b /\ has_kind k b = true.
Proof. unfold kind_at. destruct (getb g x) as [b|]; [eauto|discriminate]. Qed.

Lemma node_first_node ob g x : node_first ob g x = true -> kind_at g x K_NODE = true.
Proof. unfold node_first. destruct ob; [|auto]. intros H. apply andb_prop in H. apply H. Qed.

(* ---- "add missing others" ---- *)
Lemma add_missing_spec g : forall ch acc, exists ext,
  add_missing g ch acc = acc ++ ext /\ NoDup ext /\
  (forall x, In x ext -> In x ch /\ ~ In x acc /\ getb g x <> None) /\
  (forall x, In x ch -> getb g x <> None -> In x (acc ++ ext)).
Proof.
  induction ch as [|a ch IH]; intros acc; cbn [add_missing].
  - exists []. rewrite app_nil_r. split; [reflexivity|]. split; [constructor|]. split; [intros x []|intros x []].
  - destruct (s_contains acc a) eqn:Ca; cbn [negb andb].
    + destruct (IH acc) as (ext & E & Hnd & Hin & Hall). exists ext. split; [exact E|]. split; [exact Hnd|]. split.
      * intros x Hx. destruct (Hin x Hx) as (H1 & H2 & H3). auto with datatypes.
      * intros x [<-|Hx] Hg; [apply in_or_app; left; apply contains_in; exact Ca|auto].
    + destruct (getb g a) as [b|] eqn:Ga.
      * destruct (IH (acc ++ [a])) as (ext & E & Hnd & Hin & Hall).
        assert (Hna : ~ In a acc) by (rewrite <- contains_in; congruence).
        exists (a :: ext). split; [rewrite E, <- app_assoc; reflexivity|]. split.
        { constructor; [|exact Hnd]. intros Ha. destruct (Hin a Ha) as (_ & H2 & _). apply H2. apply in_or_app. right. left. reflexivity. }
        split.
        { intros x [<-|Hx]; [split; [left; reflexivity|split; [exact Hna|congruence]]|].
          destruct (Hin x Hx) as (H1 & H2 & H3). split; [right; exact H1|]. split; [|exact H3].
          intros Hc. apply H2. apply in_or_app. left. exact Hc. }
        { intros x [<-|Hx] Hg.
          - apply in_or_app. right. left. reflexivity.
          - specialize (Hall x Hx Hg). rewrite <- app_assoc in Hall. exact Hall. }
      * destruct (IH acc) as (ext & E & Hnd & Hin & Hall). exists ext. split; [exact E|]. split; [exact Hnd|]. split.
        { intros x Hx. destruct (Hin x Hx) as (H1 & H2 & H3). auto with datatypes. }
        { intros x [<-|Hx] Hg; [congruence|auto]. }
Qed.

(* ---- the relation between a child array and a later state of it ---- *)
Definition crel (shp : N -> bool) (ch0 ch : list N) : Prop :=
  (forall x, In x ch <-> In x ch0) /\
  (forall x, (cnt ch x <= cnt ch0 x)%nat) /\
  Permutation (filter shp ch) (filter shp ch0).

Lemma crel_refl shp ch : crel shp ch ch.
Proof. split; [tauto|]. split; [intros; lia|apply Permutation_refl]. Qed.

Lemma crel_trans shp a b c : crel shp a b -> crel shp b c -> crel shp a c.
Proof.
  intros (A1 & A2 & A3) (B1 & B2 & B3). split; [intros x; rewrite B1; apply A1|].
  split; [intros x; specialize (A2 x); specialize (B2 x); lia|eapply Permutation_trans; eauto].
Qed.

(* no child lost, and exactly a permutation when no count dropped *)
Lemma crel_perm shp ch0 ch : crel shp ch0 ch -> (forall x, cnt ch x = cnt ch0 x) -> Permutation ch ch0.
Proof. intros _ H. apply (Permutation_count_occ N.eq_dec). exact H. Qed.

(* ---- std::is_permutation ---- *)
Lemma count_eq_occ x l : count_eq x l = N.of_nat (cnt l x).
Proof.
  unfold count_eq, vlen. induction l as [|a l IH]; cbn [filter count_occ]; [reflexivity|].
  destruct (N.eqb_spec x a) as [Heq|Hne]; destruct (N.eq_dec a x) as [E|E]; try congruence; cbn [length]; lia.
Qed.

Lemma is_permutation_b_sound a b : is_permutation_b a b = true -> Permutation a b.
Proof.
  intros H. apply (Permutation_count_occ N.eq_dec). intros x.
  unfold is_permutation_b in H. rewrite forallb_forall in H.
  destruct (in_dec N.eq_dec x (a ++ b)) as [Hin|Hnin].
  - specialize (H x Hin). apply N.eqb_eq in H. rewrite !count_eq_occ in H. lia.
  - assert (~ In x a /\ ~ In x b) as (Ha & Hb) by (split; intros Hc; apply Hnin, in_or_app; auto).
    apply (count_occ_not_In N.eq_dec) in Ha, Hb. lia.
Qed.

Lemma is_permutation_b_complete a b : Permutation a b -> is_permutation_b a b = true.
Proof.
  intros H. unfold is_permutation_b. apply forallb_forall. intros x _. apply N.eqb_eq.
  rewrite !count_eq_occ. f_equal. apply (Permutation_count_occ N.eq_dec). exact H.
Qed.

Section Rebuild.
  Variable ob : bool.
  Variable rso : list N.
  Variable g : list sblock.
  Let shp := fun x => kind_at g x K_SHAPE.

  (* the rootShapeOrder branch (NifFile.cpp:544-553 / 586-595) only ever permutes the shapes *)
  Lemma shape_order_perm shapes : Permutation (shape_order rso shapes) shapes.
  Proof.
    unfold shape_order.
    destruct ((vlen rso =? vlen shapes) && is_permutation_b shapes rso)%bool eqn:E; [|apply Permutation_refl].
    apply andb_prop in E. destruct E as (_ & Hp). apply is_permutation_b_sound in Hp.
    replace (map (fun r => if s_contains shapes r then r else 0) rso) with rso; [apply Permutation_sym; exact Hp|].
    symmetry. erewrite map_ext_in; [apply map_id|]. intros r Hr. cbn.
    assert (In r shapes) by (eapply Permutation_in; [apply Permutation_sym; exact Hp|exact Hr]).
    apply contains_in in H. rewrite H. reflexivity.
  Qed.

  Theorem rebuild_spec is_root ch :
    (forall x, In x ch -> x = NPOS \/ x < vlen g) ->                         (* references empty or in range *)
    (forall x, kind_at g x K_NODE = true -> kind_at g x K_SHAPE = false) ->   (* no object is both a node and a shape *)
    crel shp ch (rebuild ob rso is_root g ch).
  Proof.
    intros Hrange Hexcl. unfold rebuild.
    set (nodes := filter (node_first ob g) ch).
    set (shapes := filter (fun x => kind_at g x K_SHAPE) ch).
    set (shapes' := if is_root then shape_order rso shapes else shapes).
    set (emp := filter (N.eqb NPOS) ch).
    assert (Hsp : Permutation shapes' shapes).
    { unfold shapes'. destruct is_root; [apply shape_order_perm|apply Permutation_refl]. }
    destruct (add_missing_spec g ch (nodes ++ shapes')) as (ext & -> & Hnd & Hext & Hall).
    assert (Hnodes : forall x, In x nodes <-> In x ch /\ node_first ob g x = true) by (intros; apply filter_In).
    assert (Hshapes : forall x, In x shapes' <-> In x ch /\ shp x = true).
    { intros x. rewrite <- (filter_In shp). split; apply Permutation_in; [exact Hsp|apply Permutation_sym; exact Hsp]. }
    assert (Hemp : forall x, In x emp <-> In x ch /\ x = NPOS).
    { intros x. unfold emp. rewrite filter_In. rewrite N.eqb_eq. intuition congruence. }
    assert (Hnpos_shape : shp NPOS = false) by (unfold shp, kind_at; rewrite getb_npos; reflexivity).
    assert (Hnpos_node : node_first ob g NPOS = false).
    { destruct (node_first ob g NPOS) eqn:E; [|reflexivity]. apply node_first_node in E.
      unfold kind_at in E. rewrite getb_npos in E. discriminate. }
    split; [|split].
    - (* same set *)
      intros x. rewrite !in_app_iff. split.
      + intros [[[H|H]|H]|H].
        * apply Hnodes in H. apply H.
        * apply Hshapes in H. apply H.
        * apply Hext in H. apply H.
        * apply Hemp in H. apply H.
      + intros Hx. destruct (Hrange x Hx) as [->|Hlt].
        * right. apply Hemp. auto.
        * destruct (N.eq_dec x NPOS) as [->|Hne]; [right; apply Hemp; auto|].
          left. rewrite <- !in_app_iff. apply Hall; [exact Hx|].
          destruct (getb_in_range g x Hne Hlt) as (b & ->). discriminate.
    - (* no child more often than before *)
      intros x. rewrite !count_occ_app.
      unfold nodes, emp. rewrite !count_filter.
      assert (Hs : cnt shapes' x = if shp x then cnt ch x else 0%nat).
      { rewrite <- count_filter. apply (Permutation_count_occ N.eq_dec). exact Hsp. }
      rewrite Hs.
      assert (Hext1 : (cnt ext x <= 1)%nat) by (apply (NoDup_count_occ N.eq_dec); exact Hnd).
      assert (Hext0 : In x (nodes ++ shapes') \/ getb g x = None \/ ~ In x ch -> cnt ext x = 0%nat).
      { intros H. apply count_occ_not_In. intros Hx. destruct (Hext x Hx) as (H1 & H2 & H3).
        destruct H as [H|[H|H]]; auto. }
      destruct (N.eqb_spec NPOS x) as [<-|Hne].
      + rewrite Hnpos_node, Hnpos_shape. rewrite Hext0; [lia|]. right. left. apply getb_npos.
      + destruct (node_first ob g x) eqn:Nf.
        * assert (shp x = false) by (apply Hexcl, node_first_node with ob; exact Nf). rewrite H.
          destruct (in_dec N.eq_dec x ch) as [Hin|Hnin].
          -- rewrite Hext0; [lia|]. left. apply in_or_app. left. apply Hnodes. auto.
          -- rewrite Hext0; [lia|]. auto.
        * destruct (shp x) eqn:Sx.
          -- destruct (in_dec N.eq_dec x ch) as [Hin|Hnin].
             ++ rewrite Hext0; [lia|]. left. apply in_or_app. right. apply Hshapes. auto.
             ++ rewrite Hext0; [lia|]. auto.
          -- destruct (in_dec N.eq_dec x ch) as [Hin|Hnin].
             ++ apply (count_occ_In N.eq_dec) in Hin. lia.
             ++ rewrite Hext0; [lia|]. auto.
    - (* the shape children are permuted *)
      rewrite !filter_app.
      rewrite (filter_none shp nodes).
      2:{ intros x Hx. apply Hnodes in Hx. apply Hexcl, node_first_node with ob. apply Hx. }
      rewrite (filter_none shp ext).
      2:{ intros x Hx. destruct (Hext x Hx) as (H1 & H2 & _). destruct (shp x) eqn:Sx; [|reflexivity].
          exfalso. apply H2. apply in_or_app. right. apply Hshapes. auto. }
      rewrite (filter_none shp emp).
      2:{ intros x Hx. apply Hemp in Hx. destruct Hx as (_ & ->). exact Hnpos_shape. }
      rewrite !app_nil_r. cbn [app].
      eapply Permutation_trans; [apply Permutation_filter; exact Hsp|].
      unfold shapes. fold shp. rewrite (filter_all shp (filter shp ch)); [apply Permutation_refl|].
      intros x Hx. apply filter_In in Hx. apply Hx.
  Qed.

  (* when no non-node, non-shape child is listed twice the new array is a permutation of the old one *)
  Corollary rebuild_permutation is_root ch :
    (forall x, In x ch -> x = NPOS \/ x < vlen g) ->
    (forall x, kind_at g x K_NODE = true -> kind_at g x K_SHAPE = false) ->
    (forall x, x <> NPOS -> node_first ob g x = false -> shp x = false -> (cnt ch x <= 1)%nat) ->
    Permutation (rebuild ob rso is_root g ch) ch.
  Proof.
    intros Hrange Hexcl Hdup.
    pose proof (rebuild_spec is_root ch Hrange Hexcl) as (Hin & Hle & Hp).
    apply (Permutation_count_occ N.eq_dec). intros x.
    specialize (Hle x).
    destruct (N.eq_dec x NPOS) as [->|Hne].
    - (* empty refs: all of them are appended at the end *)
      unfold rebuild in *. rewrite count_occ_app, count_filter, N.eqb_refl in *. lia.
    - destruct (node_first ob g x) eqn:Nf.
      + unfold rebuild. rewrite count_occ_app.
        destruct (add_missing_spec g ch (filter (node_first ob g) ch ++
                   (if is_root then shape_order rso (filter (fun x => kind_at g x K_SHAPE) ch)
                    else filter (fun x => kind_at g x K_SHAPE) ch))) as (ext & E & _). rewrite E.
        unfold rebuild in Hle. rewrite E in Hle.
        rewrite !count_occ_app, count_filter, Nf in *. lia.
      + destruct (shp x) eqn:Sx.
        * (* a shape: counted through the permutation of the shape children *)
          assert (E : cnt (filter shp (rebuild ob rso is_root g ch)) x = cnt (filter shp ch) x)
            by (apply (Permutation_count_occ N.eq_dec); exact Hp).
          rewrite !count_filter, Sx in E. exact E.
        * specialize (Hdup x Hne Nf Sx).
          destruct (in_dec N.eq_dec x ch) as [Hi|Hni].
          -- pose proof Hi as Hi'. apply Hin in Hi'. apply (count_occ_In N.eq_dec) in Hi, Hi'. lia.
          -- apply (count_occ_not_In N.eq_dec) in Hni. lia.
  Qed.
End Rebuild.

(* ---- the block vector during a traversal: every block is the original one up to its child array ---- *)
Definition same_but_children (b0 b : sblock) : Prop := b = with_children b0 (s_children b).

Definition grel (g0 g : list sblock) : Prop :=
  Forall2 (fun b0 b => same_but_children b0 b /\
                       crel (fun x => kind_at g0 x K_SHAPE) (s_children b0) (s_children b)) g0 g.

Lemma same_but_refl b : same_but_children b b.
Proof. destruct b; reflexivity. Qed.

Lemma grel_refl g : grel g g.
Proof.
  unfold grel. generalize (fun x : N => kind_at g x K_SHAPE) as shp. intros shp.
  induction g as [|b g IH]; constructor; [|exact IH]. split; [apply same_but_refl|apply crel_refl].
Qed.

Lemma grel_len g0 g : grel g0 g -> vlen g = vlen g0.
Proof. intros H. apply Forall2_len in H. unfold vlen. lia. Qed.

Lemma grel_getb g0 g x : grel g0 g ->
  match getb g0 x, getb g x with
  | Some b0, Some b => same_but_children b0 b /\ crel (fun y => kind_at g0 y K_SHAPE) (s_children b0) (s_children b)
  | None, None => True
  | _, _ => False
  end.
Proof.
  intros H. pose proof (grel_len _ _ H) as Hl. unfold getb. rewrite Hl.
  destruct (x =? NPOS); [exact I|]. destruct (N.ltb_spec x (vlen g0)); [|exact I].
  destruct (vget_lt g0 x H0) as (b0 & E0). destruct (vget_lt g x ltac:(lia)) as (b & E).
  rewrite E0, E. exact (Forall2_vget _ _ _ H x b0 b E0 E).
Qed.

Lemma same_but_kind b0 b k : same_but_children b0 b -> has_kind k b = has_kind k b0.
Proof. intros ->. reflexivity. Qed.

Lemma grel_kind g0 g x k : grel g0 g -> kind_at g x k = kind_at g0 x k.
Proof.
  intros H. pose proof (grel_getb g0 g x H) as R. unfold kind_at.
  destruct (getb g0 x), (getb g x); try contradiction; [|reflexivity].
  destruct R as (R & _). apply same_but_kind. exact R.
Qed.

(* well-formedness of the original graph that the child theorem needs *)
Definition refs_in_range (g : list sblock) : Prop :=
  Forall (fun b => Forall (fun r => r = NPOS \/ r < vlen g) (s_children b)) g.
Definition node_shape_excl (g : list sblock) : Prop :=
  Forall (fun b => has_kind K_NODE b = true -> has_kind K_SHAPE b = false) g.

Lemma excl_at g x : node_shape_excl g -> kind_at g x K_NODE = true -> kind_at g x K_SHAPE = false.
Proof.
  intros H Hn. unfold kind_at in *. destruct (getb g x) as [b|] eqn:E; [|reflexivity].
  apply getb_some in E. destruct E as (_ & _ & E). apply in_vget in E.
  unfold node_shape_excl in H. rewrite Forall_forall in H. apply H; assumption.
Qed.

Section Children.
  Variable ob : bool.
  Variable rso : list N.
  Variable g0 : list sblock.
  Hypothesis Hrange : refs_in_range g0.
  Hypothesis Hexcl : node_shape_excl g0.

  Lemma rebuild_at_grel i st : grel g0 (st_gr st) -> grel g0 (st_gr (rebuild_at ob rso i st)).
  Proof.
    intros HG. unfold rebuild_at, set_children, children_of.
    pose proof (grel_getb g0 (st_gr st) i HG) as R.
    destruct (getb (st_gr st) i) as [b|] eqn:Eb; [|exact HG].
    destruct (getb g0 i) as [b0|] eqn:E0; [|contradiction].
    destruct R as (Rs & Rc).
    set (ch' := rebuild ob rso (i =? 0) (st_gr st) (s_children b)).
    destruct (vset (st_gr st) i (with_children b ch')) as [g'|] eqn:Ev; [|exact HG].
    cbn [st_gr].
    apply getb_some in Eb. destruct Eb as (_ & _ & Eb). apply getb_some in E0. destruct E0 as (_ & Hi0 & E0).
    (* facts about the current child array *)
    assert (Hspec : crel (fun x => kind_at (st_gr st) x K_SHAPE) (s_children b) ch').
    { apply rebuild_spec.
      - intros x Hx. apply Rc in Hx. unfold refs_in_range in Hrange. rewrite Forall_forall in Hrange.
        specialize (Hrange b0 (in_vget _ _ _ E0)). rewrite Forall_forall in Hrange.
        rewrite (grel_len _ _ HG). auto.
      - intros x Hx. rewrite (grel_kind _ _ x K_NODE HG) in Hx. rewrite (grel_kind _ _ x K_SHAPE HG). apply excl_at; assumption. }
    assert (Hspec0 : crel (fun x => kind_at g0 x K_SHAPE) (s_children b) ch').
    { destruct Hspec as (S1 & S2 & S3). split; [exact S1|]. split; [exact S2|].
      erewrite !(filter_ext (fun x => kind_at g0 x K_SHAPE)) by (intros; symmetry; apply grel_kind; exact HG).
      exact S3. }
    apply Forall2_pointwise.
    - rewrite (vset_len _ _ _ _ Ev). apply Forall2_len in HG. exact HG.
    - intros j a c Ha Hc. rewrite (vget_vset _ _ _ _ _ Ev) in Hc.
      destruct (N.eqb_spec j i) as [->|Hne].
      + inversion Hc; subst c. assert (a = b0) by congruence. subst a. split.
        * unfold same_but_children in *. rewrite Rs. destruct b0; reflexivity.
        * cbn [s_children with_children]. eapply crel_trans; [exact Rc|exact Hspec0].
      + exact (Forall2_vget _ _ _ HG j a c Ha Hc).
  Qed.

  Lemma assign_gr i st st' : assign i st = Ok st' -> st_gr st' = st_gr st.
  Proof. intros H. destruct (assign_cases _ _ _ H) as [(_ & ->)|(_ & v & _ & ->)]; reflexivity. Qed.

  (* every traversal keeps every block equal to the original up to its child array, and the child
     array in the relation [crel] with the original one *)
  Theorem run_children fuel c st st' :
    sort_run ob rso fuel c st = Ok st' -> grel g0 (st_gr st) -> grel g0 (st_gr st').
  Proof.
    apply (run_preserves_unary (fun s => grel g0 (st_gr s)) ob rso).
    - intros i s s' H HG. rewrite (assign_gr _ _ _ H). exact HG.
    - intros i s HG. exact HG.
    - intros i s s' H HG. rewrite (set_index_gr _ _ _ H). exact HG.
    - intros i s. apply rebuild_at_grel.
  Qed.

  Lemma leftover_children n st st' : leftover n st = Ok st' -> grel g0 (st_gr st) -> grel g0 (st_gr st').
  Proof.
    apply (leftover_preserves_unary (fun s => grel g0 (st_gr s))).
    intros i s s' H HG. rewrite (assign_gr _ _ _ H). exact HG.
  Qed.
End Children.
