(* Statements in the form quoted by Properties_C04.v, witnesses outside the hypotheses, and the
   tie of the sorter's pruning to Graph's delete_unreferenced. *)
From NiflyVerif Require Import Res CompactProofs GraphModel GraphInv GraphDelete GraphAdd GraphOrder
  SorterModel SorterInv SorterChildren SorterSort SorterShapeOrder.
From Coq Require Import ZifyBool ZifyNat ZifyN Permutation.
Local Open Scope N_scope.

Theorem sort_perm fuel ob g st :
  vlen g < NPOS -> pretty_indices fuel ob g = Ok st -> is_perm (st_nidx st) (vlen g).
Proof. intros Hn H. apply (pretty_perm fuel ob g st Hn H). Qed.

(* the rebuilt child array of every node, as a statement about one node *)
Theorem sort_graph_children fuel ob g st i b0 b :
  refs_in_range g -> node_shape_excl g -> pretty_indices fuel ob g = Ok st ->
  vget g i = Some b0 -> vget (st_gr st) i = Some b ->
  b = with_children b0 (s_children b) /\
  (forall x, In x (s_children b) <-> In x (s_children b0)) /\
  (forall x, (cnt (s_children b) x <= cnt (s_children b0) x)%nat) /\
  Permutation (filter (fun x => kind_at g x K_SHAPE) (s_children b)) (filter (fun x => kind_at g x K_SHAPE) (s_children b0)).
Proof.
  intros Hr He H H0 H1. pose proof (pretty_children _ _ _ _ Hr He H) as HG.
  destruct (Forall2_vget _ _ _ HG i b0 b H0 H1) as (Hs & Hc). split; [exact Hs|exact Hc].
Qed.

(* ---- witnesses ---- *)
Ltac range_tac := unfold refs_in_range; repeat (apply Forall_cons || apply Forall_nil);
  try (right; vm_compute; reflexivity); try (left; reflexivity).
Ltac excl_tac := unfold node_shape_excl; repeat (apply Forall_cons || apply Forall_nil); vm_compute; congruence.
Definition fuel100 : nat := 100.

(* ---- pruning: the sorter's view of DeleteUnreferencedBlocks is Graph's delete_unreferenced ---- *)
Lemma to_block_shift id b : to_block (map_refs (shift_ref id) b) = block_deleted id (to_block b).
Proof. unfold to_block, map_refs, block_deleted. cbn. rewrite map_app. reflexivity. Qed.

Lemma existsb_map' {A B} (f : A -> B) p l : existsb p (map f l) = existsb (fun x => p (f x)) l.
Proof. induction l as [|a l IH]; cbn; [reflexivity|]. rewrite IH. reflexivity. Qed.

Lemma existsb_ext' {A} (p q : A -> bool) l : (forall x, p x = q x) -> existsb p l = existsb q l.
Proof. intros H. induction l as [|a l IH]; cbn; [reflexivity|]. rewrite H, IH. reflexivity. Qed.

Lemma g_referenced_is h g id : blocks h = map to_block g -> is_referenced h id true = g_referenced g id.
Proof.
  intros Hb. unfold is_referenced, g_referenced. rewrite Hb. destruct (id =? NPOS); [reflexivity|].
  rewrite existsb_map'. apply existsb_ext'. intros b. unfold refs_of, to_block. cbn. rewrite <- app_assoc. reflexivity.
Qed.

Lemma first_unref_commutes h g root : blocks h = map to_block g -> forall bl i,
  first_unreferenced (fun _ => true) h root i (map to_block bl) = first_unref_g g root i bl.
Proof.
  intros Hb. induction bl as [|b bl IH]; intros i; cbn [map first_unreferenced first_unref_g]; [reflexivity|].
  rewrite (g_referenced_is h g i Hb). rewrite andb_true_r. rewrite IH. reflexivity.
Qed.

Lemma delete_commutes h g id h' :
  Inv h -> blocks h = map to_block g -> id < vlen g -> delete_block h id = Ok h' ->
  exists g', delete_g g id = Ok g' /\ blocks h' = map to_block g'.
Proof.
  intros HI Hb Hid Hd.
  assert (Hid' : id < vlen (blocks h)) by (rewrite Hb, vlen_map; exact Hid).
  destruct (delete_block_spec h id HI Hid') as (hx & pre & b & post & Hrun & _ & Hsplit & Hpre & Hbl & _).
  rewrite Hd in Hrun. inversion Hrun; subst hx.
  unfold delete_g.
  assert (Hne : id <> NPOS).
  { destruct HI as [_ _ _ _ _ _ _ _ Hs]. intros ->. lia. }
  destruct (N.eqb_spec id NPOS); [contradiction|].
  unfold verase. destruct (N.ltb_spec id (vlen g)); [|lia].
  eexists. split; [reflexivity|]. rewrite Hbl.
  match goal with |- _ = map to_block (map _ ?L) =>
    replace (map to_block (map (map_refs (shift_ref id)) L)) with (map (block_deleted id) (map to_block L)) end.
  2:{ rewrite !map_map. apply map_ext. intros a. symmetry. apply to_block_shift. }
  f_equal.
  (* pre ++ post = map to_block (firstn id g ++ skipn (S id) g) *)
  rewrite map_app, <- firstn_map, <- skipn_map, <- Hb, Hsplit.
  assert (Hl : length pre = N.to_nat id) by (unfold vlen in Hpre; lia).
  rewrite firstn_app, <- Hl, Nat.sub_diag, firstn_all. cbn [firstn]. rewrite app_nil_r. f_equal.
  change (S (length pre)) with (1 + length pre)%nat. replace (1 + length pre)%nat with (length pre + 1)%nat by lia.
  rewrite skipn_app, skipn_all2 by lia. replace (length pre + 1 - length pre)%nat with 1%nat by lia. reflexivity.
Qed.

(* the pruning of the sorter model is the chain of DeleteBlock calls of Graph's model, for which
   GraphAdd.prune_full proves: every deleted block was referenced by no block at that moment, and the
   header stays consistent *)
Theorem prune_commutes : forall fuel h g root c,
  Inv h -> blocks h = map to_block g -> (length g < fuel)%nat ->
  exists h' c' g', delete_unreferenced fuel (fun _ => true) h root c = Ok (h', c') /\
                   prune_g fuel g root = Ok g' /\ blocks h' = map to_block g' /\
                   del_chain unreferenced h h' /\ Inv h'.
Proof.
  induction fuel as [|f IH]; intros h g root c HI Hb Hf; [lia|].
  cbn [delete_unreferenced prune_g].
  destruct (root =? NPOS).
  { exists h, c, g. split; [reflexivity|split; [reflexivity|split; [exact Hb|split; [constructor|exact HI]]]]. }
  assert (Hn : firstn (N.to_nat (nblocks h)) (blocks h) = map to_block g).
  { rewrite (inv_nblocks h HI). unfold vlen. rewrite Nat2N.id, firstn_all. exact Hb. }
  rewrite Hn, (first_unref_commutes h g root Hb g 0).
  destruct (first_unref_g g root 0 g) as [i|] eqn:Hfu.
  2:{ exists h, c, g. split; [reflexivity|split; [reflexivity|split; [exact Hb|split; [constructor|exact HI]]]]. }
  assert (Hfu' : first_unreferenced (fun _ => true) h root 0 (map to_block g) = Some i)
    by (rewrite (first_unref_commutes h g root Hb g 0); exact Hfu).
  apply first_unreferenced_spec in Hfu'. destruct Hfu' as (_ & Hlt & _ & Hunref).
  rewrite vlen_map in Hlt.
  assert (Hi : i < vlen (blocks h)) by (rewrite Hb, vlen_map; lia).
  destruct (delete_block_spec h i HI Hi) as (h1 & pre & b & post & Hrun & HI1 & Hsp & _ & Hb1 & _).
  destruct (delete_commutes h g i h1 HI Hb ltac:(lia) Hrun) as (g1 & Hg1 & Hb1').
  rewrite Hrun, Hg1. cbn [bind].
  destruct (IH h1 g1 (if i <? root then root - 1 else root) (c + 1) HI1 Hb1') as (h' & c' & g' & H1 & H2 & H3 & H4 & H5).
  { assert (length (blocks h1) = length g1) by (rewrite Hb1', map_length; reflexivity).
    assert (length (blocks h) = length g) by (rewrite Hb, map_length; reflexivity).
    rewrite Hb1, map_length in H. rewrite Hsp in H0. rewrite !app_length in *. cbn [length] in H0. lia. }
  exists h', c', g'. split; [exact H1|split; [exact H2|split; [exact H3|split; [econstructor; eauto|exact H5]]]].
Qed.
