(* Invariants of the sort state.
   Part A: any property of the state that survives [assign] and [rebuild_at] survives every
           traversal ([sort_run], any call, any fuel, any graph).
   Part B: the numbering invariant of [assign] and what the completing loop adds: the final
           newIndices is a permutation of 0..n-1 (counter started at 0). *)
From NiflyVerif Require Import Res CompactProofs GraphModel GraphInv GraphDelete GraphAdd GraphOrder SorterModel.
From Coq Require Import ZifyBool ZifyNat ZifyN Permutation.
Local Open Scope N_scope.

(* ---------------------------------------------------------------- Part A *)
(* [P S st]: a property of the sort state indexed by the list S of blocks that SortCollision has
   inserted into the visited set and not yet numbered (the collision routines on the call stack). *)
Section Preserve.
  Variable P : sstate -> Prop.
  Definition preserves (a : s_act) : Prop := forall st st', a st = Ok st' -> P st -> P st'.

  Lemma pres_skip : preserves s_skip.
  Proof. intros st st' H. inversion H. auto. Qed.

  Lemma pres_seq a b : preserves a -> preserves b -> preserves (a ;; b).
  Proof.
    intros Ha Hb st st' H HP. unfold seq2 in H. destruct (a st) as [s1| |] eqn:E; cbn in H; try discriminate.
    eapply Hb; eauto.
  Qed.

  Lemma pres_rd {A} (f : sstate -> A) k : (forall x, preserves (k x)) -> preserves (s_rd f k).
  Proof. intros H st st' E. unfold s_rd in E. eapply H; eauto. Qed.

  Lemma pres_foreach {A} (l : list A) body : (forall x, In x l -> preserves (body x)) -> preserves (s_foreach l body).
  Proof.
    induction l as [|x l IH]; intros H; cbn [s_foreach]; [apply pres_skip|].
    apply pres_seq; [apply H; left; reflexivity|apply IH; intros; apply H; right; assumption].
  Qed.

  Lemma pres_pure f : (forall st, P st -> P (f st)) -> preserves (pure_upd f).
  Proof. intros H st st' E. inversion E. auto. Qed.
End Preserve.

Section PreserveRun.
  Variable P : list N -> sstate -> Prop.
  Variable ob : bool.
  Variable rso : list N.
  Hypothesis Hassign : forall S i, preserves (P S) (assign i).
  Hypothesis Hmark : forall S i st, P S st -> visited st i = false -> P (i :: S) (s_mark i st).
  Hypothesis Hindex : forall S i st st', P (i :: S) st -> s_set_index i st = Ok st' -> P S st'.
  Hypothesis Hrebuild : forall S i st, P S st -> P S (rebuild_at ob rso i st).

  Lemma pres_bracket {A} S i pre (rdf : sstate -> A) before after :
    (forall S', preserves (P S') pre) -> (forall S' l, preserves (P S') (before l)) ->
    (forall l, preserves (P S) (after l)) ->
    preserves (P S) (s_bracket i pre rdf before after).
  Proof.
    intros Hpre Hbef Haft st st' H HP. unfold s_bracket in H. destruct (visited st i) eqn:V.
    - revert H HP. apply pres_seq; [apply Hpre|]. apply pres_rd. intros l. apply pres_seq; [apply Hbef|apply Haft].
    - pose proof (Hmark S i st HP V) as HM. revert H HM. generalize (s_mark i st). intros s0 H HM.
      unfold seq2 at 1 in H. destruct (pre s0) as [s1| |] eqn:E1; cbn [bind] in H; try discriminate.
      pose proof (Hpre (i :: S) _ _ E1 HM) as H1.
      unfold s_rd, seq2 in H.
      destruct (before (rdf s1) s1) as [s2| |] eqn:E2; cbn [bind] in H; try discriminate.
      pose proof (Hbef (i :: S) _ _ _ E2 H1) as H2.
      destruct (s_set_index i s2) as [s3| |] eqn:E3; cbn [bind] in H; try discriminate.
      pose proof (Hindex S i _ _ H2 E3) as H3.
      exact (Haft _ _ _ H H3).
  Qed.

  Ltac pres IH :=
    repeat match goal with
      | |- preserves _ (sort_run _ _ _ _) => apply IH
      | |- preserves _ s_skip => apply pres_skip
      | |- preserves _ (assign _) => apply Hassign
      | |- preserves _ (seq2 _ _) => apply pres_seq
      | |- preserves _ (s_foreach _ _) => apply pres_foreach; intros
      | |- preserves _ (s_rd _ _) => apply pres_rd; intros
      | |- preserves _ (pure_upd _) => apply pres_pure; apply Hrebuild
      | |- preserves _ (s_bracket _ _ _ _ _) => apply pres_bracket; intros
      | |- preserves _ (match ?x with _ => _ end) => destruct x
      end.

  Theorem run_preserves : forall fuel S c, preserves (P S) (sort_run ob rso fuel c).
  Proof.
    induction fuel as [|f IH]; intros S c; [intros st st' H; discriminate|].
    destruct c; cbn [sort_run]; pres IH.
  Qed.

  Lemma leftover_preserves S n : preserves (P S) (leftover n).
  Proof. unfold leftover. apply pres_foreach. intros. apply Hassign. Qed.
End PreserveRun.

(* properties that do not depend on the pending list *)
Section PreserveUnary.
  Variable Q : sstate -> Prop.
  Variable ob : bool.
  Variable rso : list N.
  Hypothesis Hassign : forall i, preserves Q (assign i).
  Hypothesis Hmark : forall i st, Q st -> Q (s_mark i st).
  Hypothesis Hindex : forall i, preserves Q (s_set_index i).
  Hypothesis Hrebuild : forall i st, Q st -> Q (rebuild_at ob rso i st).

  Lemma leftover_preserves_unary n : preserves Q (leftover n).
  Proof. unfold leftover. apply pres_foreach. intros. apply Hassign. Qed.

  Theorem run_preserves_unary fuel c : preserves Q (sort_run ob rso fuel c).
  Proof.
    refine (run_preserves (fun _ => Q) ob rso _ _ _ _ fuel [] c).
    - intros _ i. apply Hassign.
    - intros _ i st H _. apply Hmark. exact H.
    - intros _ i st st' H E. eapply Hindex; eauto.
    - intros _ i st. apply Hrebuild.
  Qed.
End PreserveUnary.

(* ---------------------------------------------------------------- Part B *)
(* [base] is the value the counter started with. [asg] (ghost) lists the numbered blocks in the order
   of numbering: the k-th carries base + k; the visited set is asg plus the pending blocks S. *)
Record SInv (n base : N) (S : list N) (st : sstate) : Prop := mkSInv {
  si_len : vlen (st_nidx st) = n;
  si_asg : exists asg,
    NoDup (S ++ asg) /\ (forall x, In x (st_vis st) <-> In x (S ++ asg)) /\
    Forall (fun i => i < n) asg /\ st_next st = base + vlen asg /\
    (forall k i, nth_error asg k = Some i -> vget (st_nidx st) i = Some (base + N.of_nat k))
}.

Lemma visited_in st i : visited st i = true <-> In i (st_vis st).
Proof.
  unfold visited. rewrite existsb_exists. split.
  - intros (x & Hx & E). apply N.eqb_eq in E. subst. exact Hx.
  - intros H. exists i. split; [exact H|apply N.eqb_refl].
Qed.

Lemma visited_false st i : visited st i = false <-> ~ In i (st_vis st).
Proof. rewrite <- visited_in. destruct (visited st i); split; congruence. Qed.

Lemma assign_cases i st st' : assign i st = Ok st' ->
  (In i (st_vis st) /\ st' = st) \/
  (~ In i (st_vis st) /\ exists v, vset (st_nidx st) i (st_next st) = Some v /\
     st' = mkSt (i :: st_vis st) v (wrapN 32 (st_next st + 1)) (st_gr st)).
Proof.
  unfold assign. destruct (visited st i) eqn:V.
  - intros H. inversion H; subst st'. left. split; [apply visited_in; exact V|reflexivity].
  - destruct (vset (st_nidx st) i (st_next st)) as [v|] eqn:E; [|discriminate].
    intros H. inversion H. right. split; [apply visited_false; exact V|]. eauto.
Qed.

Lemma vset_some_lt {A} (v v' : list A) i x : vset v i x = Some v' -> i < vlen v.
Proof. unfold vset, vlen. destruct (N.ltb_spec i (N.of_nat (length v))); [auto|discriminate]. Qed.

Lemma wrap32_small x : x < 4294967296 -> wrapN 32 x = x.
Proof. intros H. unfold wrapN. apply N.mod_small. exact H. Qed.

Lemma NoDup_lt_length (l : list N) n : NoDup l -> Forall (fun i => i < n) l -> vlen l <= n.
Proof.
  intros Hnd Hlt.
  assert (H : incl l (map N.of_nat (seq 0 (N.to_nat n)))).
  { intros x Hx. rewrite Forall_forall in Hlt. specialize (Hlt x Hx).
    apply in_map_iff. exists (N.to_nat x). split; [lia|]. apply in_seq. lia. }
  apply NoDup_incl_length in H; [|exact Hnd]. rewrite map_length, seq_length in H. unfold vlen. lia.
Qed.

Lemma NoDup_app_r {A} (l l' : list A) : NoDup (l ++ l') -> NoDup l'.
Proof. induction l as [|a l IH]; cbn; [auto|]. intros H. inversion H; auto. Qed.

(* numbering one more block: the common step of the fused assignment and of SortCollision's
   deferred one *)
Lemma number_step n base S asg i st v :
  base + n < 4294967296 ->
  vlen (st_nidx st) = n -> NoDup (S ++ asg ++ [i]) -> Forall (fun j => j < n) asg ->
  st_next st = base + vlen asg ->
  (forall k j, nth_error asg k = Some j -> vget (st_nidx st) j = Some (base + N.of_nat k)) ->
  vset (st_nidx st) i (st_next st) = Some v ->
  vlen v = n /\ Forall (fun j => j < n) (asg ++ [i]) /\
  wrapN 32 (st_next st + 1) = base + vlen (asg ++ [i]) /\
  (forall k j, nth_error (asg ++ [i]) k = Some j -> vget v j = Some (base + N.of_nat k)).
Proof.
  intros Hsmall Hlen Hnd Hrange Hnext Hvals Hv.
  pose proof (vset_some_lt _ _ _ _ Hv) as Hi. rewrite Hlen in Hi.
  assert (Hnd2 : NoDup (asg ++ [i])) by (apply NoDup_app_r in Hnd; exact Hnd).
  assert (Hr2 : Forall (fun j => j < n) (asg ++ [i])).
  { apply Forall_app. split; [exact Hrange|constructor; [exact Hi|constructor]]. }
  assert (Hcard : vlen (asg ++ [i]) <= n) by (apply NoDup_lt_length; assumption).
  assert (Hni : ~ In i asg).
  { intros Hc. apply NoDup_remove_2 in Hnd2. rewrite app_nil_r in Hnd2. contradiction. }
  rewrite vlen_app in *. change (vlen [i]) with 1 in *.
  split; [unfold vlen in *; rewrite (vset_len _ _ _ _ Hv); exact Hlen|].
  split; [exact Hr2|]. split; [rewrite Hnext, wrap32_small; lia|].
  intros k j Hk. rewrite (vget_vset _ _ _ _ _ Hv).
  destruct (Nat.lt_ge_cases k (length asg)) as [Hlt|Hge].
  - rewrite nth_error_app1 in Hk by lia.
    destruct (N.eqb_spec j i) as [->|_]; [exfalso; apply Hni; eapply nth_error_In; eauto|].
    apply Hvals; exact Hk.
  - rewrite nth_error_app2 in Hk by lia.
    destruct (k - length asg)%nat as [|m] eqn:Em; cbn in Hk; [|destruct m; discriminate].
    inversion Hk; subst j. rewrite N.eqb_refl. f_equal. rewrite Hnext. unfold vlen. lia.
Qed.

Theorem assign_inv n base S i st st' :
  base + n < 4294967296 -> SInv n base S st -> assign i st = Ok st' -> SInv n base S st'.
Proof.
  intros Hsmall [Hlen (asg & Hnd & Hvis & Hrange & Hnext & Hvals)] H.
  destruct (assign_cases _ _ _ H) as [(_ & ->)|(Hnot & v & Hv & ->)]; [constructor; [assumption|exists asg; auto]|].
  assert (Hnd' : NoDup (S ++ asg ++ [i])).
  { rewrite app_assoc. apply NoDup_snoc; [exact Hnd|]. intros Hc. apply Hnot, Hvis. exact Hc. }
  destruct (number_step n base S asg i st v Hsmall Hlen Hnd' Hrange Hnext Hvals Hv) as (H1 & H2 & H3 & H4).
  constructor; cbn [st_nidx st_vis st_next st_gr]; [exact H1|]. exists (asg ++ [i]).
  split; [exact Hnd'|]. split; [|auto].
  intros x. cbn [In]. rewrite Hvis, !in_app_iff. cbn [In]. tauto.
Qed.

(* SortCollision's entry: the parent joins the visited set and the pending list *)
Theorem mark_inv n base S i st :
  SInv n base S st -> visited st i = false -> SInv n base (i :: S) (s_mark i st).
Proof.
  intros [Hlen (asg & Hnd & Hvis & Hrange & Hnext & Hvals)] V. apply visited_false in V.
  constructor; cbn [s_mark st_nidx st_vis st_next]; [exact Hlen|]. exists asg.
  split; [cbn [app]; constructor; [intros Hc; apply V, Hvis; exact Hc|exact Hnd]|].
  split; [|auto]. intros x. cbn [In app]. rewrite Hvis. tauto.
Qed.

(* ... and its deferred numbering: the parent leaves the pending list *)
Theorem set_index_inv n base S i st st' :
  base + n < 4294967296 -> SInv n base (i :: S) st -> s_set_index i st = Ok st' -> SInv n base S st'.
Proof.
  intros Hsmall [Hlen (asg & Hnd & Hvis & Hrange & Hnext & Hvals)] H.
  unfold s_set_index in H. destruct (vset (st_nidx st) i (st_next st)) as [v|] eqn:Hv; [|discriminate].
  inversion H; subst st'. clear H.
  assert (Hnd' : NoDup (S ++ asg ++ [i])).
  { rewrite app_assoc. apply NoDup_snoc.
    - cbn [app] in Hnd. inversion Hnd; assumption.
    - cbn [app] in Hnd. inversion Hnd; assumption. }
  destruct (number_step n base S asg i st v Hsmall Hlen Hnd' Hrange Hnext Hvals Hv) as (H1 & H2 & H3 & H4).
  constructor; cbn [st_nidx st_vis st_next st_gr]; [exact H1|]. exists (asg ++ [i]).
  split; [exact Hnd'|]. split; [|auto].
  intros x. rewrite Hvis. cbn [In app]. rewrite !in_app_iff. cbn [In]. tauto.
Qed.

Lemma assign_vis_mono i st st' : assign i st = Ok st' -> incl (st_vis st) (st_vis st') /\ In i (st_vis st').
Proof.
  intros H. destruct (assign_cases _ _ _ H) as [(Hin & ->)|(_ & v & _ & ->)].
  - split; [apply incl_refl|exact Hin].
  - cbn. split; [apply incl_tl, incl_refl|left; reflexivity].
Qed.

Lemma foreach_assign n base : base + n < 4294967296 -> forall l st st',
  s_foreach l assign st = Ok st' -> SInv n base [] st ->
  SInv n base [] st' /\ incl (st_vis st) (st_vis st') /\ (forall i, In i l -> In i (st_vis st')).
Proof.
  intros Hsmall. induction l as [|x l IH]; intros st st' H HI.
  - inversion H; subst. split; [exact HI|]. split; [apply incl_refl|intros i []].
  - cbn [s_foreach] in H. unfold seq2 in H. destruct (assign x st) as [s1| |] eqn:E; cbn in H; try discriminate.
    destruct (IH _ _ H (assign_inv _ _ _ _ _ _ Hsmall HI E)) as (HI' & Hinc & Hall).
    destruct (assign_vis_mono _ _ _ E) as (Hinc1 & Hx).
    split; [exact HI'|]. split; [eapply incl_tran; eauto|].
    intros i [<-|Hi]; [apply Hinc, Hx|apply Hall, Hi].
Qed.

(* the state when every index below n has been visited and nothing is pending *)
Definition complete (n : N) (st : sstate) : Prop := forall i, i < n -> In i (st_vis st).

Theorem complete_perm n st : SInv n 0 [] st -> complete n st -> is_perm (st_nidx st) n.
Proof.
  intros [Hlen (asg & Hnd & Hvis & Hrange & Hnext & Hvals)] Hc. cbn [app] in *.
  assert (Hcard : vlen asg = n).
  { pose proof (NoDup_lt_length _ _ Hnd Hrange) as Hle.
    assert (H : incl (map N.of_nat (seq 0 (N.to_nat n))) asg).
    { intros x Hx. apply in_map_iff in Hx. destruct Hx as (k & <- & Hk). apply in_seq in Hk. apply Hvis, Hc. lia. }
    apply NoDup_incl_length in H.
    - rewrite map_length, seq_length in H. unfold vlen in *. lia.
    - apply FinFun.Injective_map_NoDup; [intros a b E; lia|apply seq_NoDup]. }
  assert (Hpos : forall i, i < n -> exists k, nth_error asg k = Some i /\ (k < N.to_nat n)%nat).
  { intros i Hi. specialize (Hc i Hi). apply Hvis in Hc. apply In_nth_error in Hc.
    destruct Hc as (k & Hk). exists k. split; [exact Hk|].
    assert (k < length asg)%nat by (apply nth_error_Some; congruence). unfold vlen in Hcard. lia. }
  split; [|split; [|exact Hlen]].
  - apply NoDup_nth_error. intros a b Ha E.
    assert (Hb : (b < length (st_nidx st))%nat).
    { apply nth_error_Some. rewrite <- E. apply nth_error_Some. exact Ha. }
    unfold vlen in Hlen.
    destruct (Hpos (N.of_nat a) ltac:(lia)) as (ka & Hka & _).
    destruct (Hpos (N.of_nat b) ltac:(lia)) as (kb & Hkb & _).
    pose proof (Hvals _ _ Hka) as Va. pose proof (Hvals _ _ Hkb) as Vb.
    unfold vget in Va, Vb. rewrite Nat2N.id in Va, Vb.
    assert (ka = kb) by (rewrite Va, Vb in E; inversion E; lia). subst kb.
    assert (N.of_nat a = N.of_nat b) by congruence. lia.
  - apply Forall_forall. intros v Hv. apply In_nth_error in Hv. destruct Hv as (a & Ha).
    assert (Hlt : (a < length (st_nidx st))%nat) by (apply nth_error_Some; congruence).
    unfold vlen in Hlen.
    destruct (Hpos (N.of_nat a) ltac:(lia)) as (ka & Hka & Hkl).
    pose proof (Hvals _ _ Hka) as Va. unfold vget in Va. rewrite Nat2N.id in Va.
    assert (v = 0 + N.of_nat ka) by congruence. lia.
Qed.

Lemma init_inv g base : SInv (vlen g) base [] (init_state g base).
Proof.
  constructor; cbn.
  - unfold vlen. rewrite map_length, seq_length. reflexivity.
  - exists []. cbn. split; [constructor|]. split; [tauto|]. split; [constructor|]. split; [lia|].
    intros k i H. destruct k; discriminate.
Qed.

Lemma leftover_complete n base st st' : base + n < 4294967296 ->
  leftover (N.to_nat n) st = Ok st' -> SInv n base [] st -> SInv n base [] st' /\ complete n st'.
Proof.
  intros Hs H HI. unfold leftover in H.
  destruct (foreach_assign n base Hs _ _ _ H HI) as (HI' & _ & Hall).
  split; [exact HI'|]. intros i Hi. apply Hall. apply in_map_iff. exists (N.to_nat i). split; [lia|]. apply in_seq. lia.
Qed.

(* ---- the same compositional reasoning, usable outside the sections ---- *)
Ltac pres HA HM HX HR :=
  repeat match goal with
  | |- preserves _ (sort_run _ _ _ _) => apply run_preserves; [exact HA|exact HM|exact HX|exact HR]
  | |- preserves _ s_skip => apply pres_skip
  | |- preserves _ (assign _) => apply HA
  | |- preserves _ (seq2 _ _) => apply pres_seq
  | |- preserves _ (s_foreach _ _) => apply pres_foreach; intros
  | |- preserves _ (s_rd _ _) => apply pres_rd; intros
  | |- preserves _ (leftover _) => apply leftover_preserves; exact HA
  | |- preserves _ (match ?x with _ => _ end) => destruct x
  end.

Lemma rebuild_at_fields ob rso i st :
  st_vis (rebuild_at ob rso i st) = st_vis st /\ st_nidx (rebuild_at ob rso i st) = st_nidx st /\
  st_next (rebuild_at ob rso i st) = st_next st.
Proof.
  unfold rebuild_at, set_children. destruct (getb (st_gr st) i); [|auto].
  destruct (vset (st_gr st) i _); auto.
Qed.

Lemma rebuild_at_sinv ob rso n base S i st : SInv n base S st -> SInv n base S (rebuild_at ob rso i st).
Proof.
  intros [H1 H2]. destruct (rebuild_at_fields ob rso i st) as (E1 & E2 & E3).
  constructor; rewrite ?E1, ?E2, ?E3; assumption.
Qed.

(* sort_perm for any traversal: whatever calls are made (any graph, any fuel, any root shape order,
   any pending list), a state satisfying the numbering invariant still satisfies it afterwards *)
Theorem run_sinv ob rso n base S fuel c st st' :
  base + n < 4294967296 -> sort_run ob rso fuel c st = Ok st' -> SInv n base S st -> SInv n base S st'.
Proof.
  intros Hs. apply (run_preserves (SInv n base) ob rso).
  - intros S0 i s s' H HI. eapply assign_inv; eauto.
  - intros S0 i s. apply mark_inv.
  - intros S0 i s s' HI H. eapply set_index_inv; eauto.
  - intros S0 i s. apply rebuild_at_sinv.
Qed.

(* the two halves of SortCollision's assignment leave the block vector alone *)
Lemma mark_gr i st : st_gr (s_mark i st) = st_gr st.
Proof. reflexivity. Qed.

Lemma set_index_gr i st st' : s_set_index i st = Ok st' -> st_gr st' = st_gr st.
Proof. unfold s_set_index. destruct (vset _ _ _); [|discriminate]. intros H. inversion H. reflexivity. Qed.
