(* Invariants of the sort state.
   Part A: any property of the state that survives [assign] and [rebuild_at] survives every
           traversal ([sort_run], any call, any fuel, any graph).
   Part B: the numbering invariant of [assign] and what the completing loop adds: the final
           newIndices is a permutation of 0..n-1 (counter started at 0). *)
From NiflyVerif Require Import Res CompactProofs GraphModel GraphInv GraphDelete GraphAdd GraphOrder SorterModel.
From Coq Require Import ZifyBool ZifyNat ZifyN Permutation.
Local Open Scope N_scope.

(* ---------------------------------------------------------------- Part A *)
Section Preserve.
  Variable P : sstate -> Prop.
  Definition preserves (a : s_act) : Prop := forall st st', a st = Ok st' -> P st -> P st'.

  Lemma pres_skip : preserves s_skip.
  Proof. intros st st' H. inversion H. auto. Qed.

  Lemma pres_seq a b : preserves a -> preserves b -> preserves (a ;; b).
  Proof.
    intros Ha Hb st st' H HP. unfold seq2 in H. destruct (a st) as [s1| |] eqn:E; cbn in H; try discriminate.
    eapply Hb; eauto.
  Qed.

  Lemma pres_rd {A} (f : sstate -> A) k : (forall x, preserves (k x)) -> preserves (s_rd f k).
  Proof. intros H st st' E. unfold s_rd in E. eapply H; eauto. Qed.

  Lemma pres_foreach {A} (l : list A) body : (forall x, In x l -> preserves (body x)) -> preserves (s_foreach l body).
  Proof.
    induction l as [|x l IH]; intros H; cbn [s_foreach]; [apply pres_skip|].
    apply pres_seq; [apply H; left; reflexivity|apply IH; intros; apply H; right; assumption].
  Qed.

  Lemma pres_pure f : (forall st, P st -> P (f st)) -> preserves (pure_upd f).
  Proof. intros H st st' E. inversion E. auto. Qed.

  Variable ob : bool.
  Variable rso : list N.
  Hypothesis Hassign : forall i, preserves (assign i).
  Hypothesis Hrebuild : forall i st, P st -> P (rebuild_at ob rso i st).

  Ltac pres IH :=
    repeat match goal with
      | |- preserves (sort_run _ _ _ _) => apply IH
      | |- preserves s_skip => apply pres_skip
      | |- preserves (assign _) => apply Hassign
      | |- preserves (seq2 _ _) => apply pres_seq
      | |- preserves (s_foreach _ _) => apply pres_foreach; intros
      | |- preserves (s_rd _ _) => apply pres_rd; intros
      | |- preserves (pure_upd _) => apply pres_pure; apply Hrebuild
      | |- preserves (match ?x with _ => _ end) => destruct x
      end.

  Theorem run_preserves : forall fuel c, preserves (sort_run ob rso fuel c).
  Proof.
    induction fuel as [|f IH]; intros c; [intros st st' H; discriminate|].
    destruct c; cbn [sort_run]; pres IH.
  Qed.

  Lemma leftover_preserves n : preserves (leftover n).
  Proof. unfold leftover. apply pres_foreach. intros. apply Hassign. Qed.
End Preserve.

(* ---------------------------------------------------------------- Part B *)
(* [base] is the value the counter started with (0 in PrettySortBlocks). The visited list is in
   reverse order of visit; the k-th visited block carries base + k. *)
Record SInv (n base : N) (st : sstate) : Prop := mkSInv {
  si_len : vlen (st_nidx st) = n;
  si_nodup : NoDup (st_vis st);
  si_range : Forall (fun i => i < n) (st_vis st);
  si_next : st_next st = base + vlen (st_vis st);
  si_vals : forall k i, nth_error (rev (st_vis st)) k = Some i -> vget (st_nidx st) i = Some (base + N.of_nat k)
}.

Lemma visited_in st i : visited st i = true <-> In i (st_vis st).
Proof.
  unfold visited. rewrite existsb_exists. split.
  - intros (x & Hx & E). apply N.eqb_eq in E. subst. exact Hx.
  - intros H. exists i. split; [exact H|apply N.eqb_refl].
Qed.

Lemma visited_false st i : visited st i = false <-> ~ In i (st_vis st).
Proof. rewrite <- visited_in. destruct (visited st i); split; congruence. Qed.

Lemma assign_cases i st st' : assign i st = Ok st' ->
  (In i (st_vis st) /\ st' = st) \/
  (~ In i (st_vis st) /\ exists v, vset (st_nidx st) i (st_next st) = Some v /\
     st' = mkSt (i :: st_vis st) v (wrapN 32 (st_next st + 1)) (st_gr st)).
Proof.
  unfold assign. destruct (visited st i) eqn:V.
  - intros H. inversion H; subst st'. left. split; [apply visited_in; exact V|reflexivity].
  - destruct (vset (st_nidx st) i (st_next st)) as [v|] eqn:E; [|discriminate].
    intros H. inversion H. right. split; [apply visited_false; exact V|]. eauto.
Qed.

Lemma vset_some_lt {A} (v v' : list A) i x : vset v i x = Some v' -> i < vlen v.
Proof. unfold vset, vlen. destruct (N.ltb_spec i (N.of_nat (length v))); [auto|discriminate]. Qed.

Lemma wrap32_small x : x < 4294967296 -> wrapN 32 x = x.
Proof. intros H. unfold wrapN. apply N.mod_small. exact H. Qed.

Lemma NoDup_lt_length (l : list N) n : NoDup l -> Forall (fun i => i < n) l -> vlen l <= n.
Proof.
  intros Hnd Hlt.
  assert (H : incl l (map N.of_nat (seq 0 (N.to_nat n)))).
  { intros x Hx. rewrite Forall_forall in Hlt. specialize (Hlt x Hx).
    apply in_map_iff. exists (N.to_nat x). split; [lia|]. apply in_seq. lia. }
  apply NoDup_incl_length in H; [|exact Hnd]. rewrite map_length, seq_length in H. unfold vlen. lia.
Qed.

Theorem assign_inv n base i st st' :
  base + n < 4294967296 -> SInv n base st -> assign i st = Ok st' -> SInv n base st'.
Proof.
  intros Hsmall [Hlen Hnd Hrange Hnext Hvals] H.
  destruct (assign_cases _ _ _ H) as [(_ & ->)|(Hnot & v & Hv & ->)]; [constructor; assumption|].
  pose proof (vset_some_lt _ _ _ _ Hv) as Hi. rewrite Hlen in Hi.
  assert (Hcard : vlen (i :: st_vis st) <= n).
  { apply NoDup_lt_length; [constructor; assumption|constructor; assumption]. }
  rewrite vlen_cons in Hcard.
  constructor; cbn [st_nidx st_vis st_next st_gr].
  - unfold vlen in *. rewrite (vset_len _ _ _ _ Hv). exact Hlen.
  - constructor; assumption.
  - constructor; assumption.
  - rewrite vlen_cons, Hnext. rewrite wrap32_small; lia.
  - intros k j Hk. cbn [rev] in Hk. rewrite (vget_vset _ _ _ _ _ Hv).
    assert (Hl : length (rev (st_vis st)) = length (st_vis st)) by apply rev_length.
    destruct (Nat.lt_ge_cases k (length (st_vis st))) as [Hlt|Hge].
    + rewrite nth_error_app1 in Hk by lia.
      destruct (N.eqb_spec j i) as [->|_].
      * exfalso. apply Hnot. apply in_rev. eapply nth_error_In; eauto.
      * apply Hvals; exact Hk.
    + rewrite nth_error_app2 in Hk by lia. rewrite Hl in Hk.
      destruct (k - length (st_vis st))%nat as [|m] eqn:Em; cbn in Hk; [|destruct m; discriminate].
      inversion Hk; subst j. rewrite N.eqb_refl. f_equal. rewrite Hnext. unfold vlen. lia.
Qed.

(* an in-range assignment never faults *)
Lemma assign_ok n base i st : SInv n base st -> i < n -> exists st', assign i st = Ok st'.
Proof.
  intros [Hlen _ _ _ _] Hi. unfold assign. destruct (visited st i); [eauto|].
  destruct (vset_ok (st_nidx st) i (st_next st)) as (v & ->); [lia|]. eauto.
Qed.

Lemma assign_vis_mono i st st' : assign i st = Ok st' -> incl (st_vis st) (st_vis st') /\ In i (st_vis st').
Proof.
  intros H. destruct (assign_cases _ _ _ H) as [(Hin & ->)|(_ & v & _ & ->)].
  - split; [apply incl_refl|exact Hin].
  - cbn. split; [apply incl_tl, incl_refl|left; reflexivity].
Qed.

Lemma foreach_assign n base : base + n < 4294967296 -> forall l st st',
  s_foreach l assign st = Ok st' -> SInv n base st ->
  SInv n base st' /\ incl (st_vis st) (st_vis st') /\ (forall i, In i l -> In i (st_vis st')).
Proof.
  intros Hsmall. induction l as [|x l IH]; intros st st' H HI.
  - inversion H; subst. split; [exact HI|]. split; [apply incl_refl|intros i []].
  - cbn [s_foreach] in H. unfold seq2 in H. destruct (assign x st) as [s1| |] eqn:E; cbn in H; try discriminate.
    destruct (IH _ _ H (assign_inv _ _ _ _ _ Hsmall HI E)) as (HI' & Hinc & Hall).
    destruct (assign_vis_mono _ _ _ E) as (Hinc1 & Hx).
    split; [exact HI'|]. split; [eapply incl_tran; eauto|].
    intros i [<-|Hi]; [apply Hinc, Hx|apply Hall, Hi].
Qed.

(* the state when every index below n has been visited: newIndices = base + (position in visit order) *)
Definition complete (n : N) (st : sstate) : Prop := forall i, i < n -> In i (st_vis st).

Lemma complete_card n base st : SInv n base st -> complete n st -> vlen (st_vis st) = n.
Proof.
  intros [_ Hnd Hrange _ _] Hc.
  pose proof (NoDup_lt_length _ _ Hnd Hrange) as Hle.
  assert (H : incl (map N.of_nat (seq 0 (N.to_nat n))) (st_vis st)).
  { intros x Hx. apply in_map_iff in Hx. destruct Hx as (k & <- & Hk). apply in_seq in Hk. apply Hc. lia. }
  apply NoDup_incl_length in H.
  - rewrite map_length, seq_length in H. unfold vlen in *. lia.
  - apply FinFun.Injective_map_NoDup; [intros a b E; lia|apply seq_NoDup].
Qed.

Theorem complete_perm n st : SInv n 0 st -> complete n st -> is_perm (st_nidx st) n.
Proof.
  intros HI Hc. pose proof (complete_card _ _ _ HI Hc) as Hcard.
  destruct HI as [Hlen Hnd Hrange Hnext Hvals].
  set (L := rev (st_vis st)).
  assert (HLlen : length L = N.to_nat n) by (unfold L; rewrite rev_length; unfold vlen in Hcard; lia).
  assert (Hpos : forall i, i < n -> exists k, nth_error L k = Some i /\ (k < N.to_nat n)%nat).
  { intros i Hi. specialize (Hc i Hi). apply in_rev in Hc. fold L in Hc. apply In_nth_error in Hc.
    destruct Hc as (k & Hk). exists k. split; [exact Hk|]. rewrite <- HLlen. apply nth_error_Some. congruence. }
  split; [|split; [|exact Hlen]].
  - apply NoDup_nth_error. intros a b Ha E.
    assert (Hb : (b < length (st_nidx st))%nat).
    { apply nth_error_Some. rewrite <- E. apply nth_error_Some. exact Ha. }
    unfold vlen in Hlen.
    destruct (Hpos (N.of_nat a) ltac:(lia)) as (ka & Hka & _).
    destruct (Hpos (N.of_nat b) ltac:(lia)) as (kb & Hkb & _).
    pose proof (Hvals _ _ Hka) as Va. pose proof (Hvals _ _ Hkb) as Vb.
    unfold vget in Va, Vb. rewrite Nat2N.id in Va, Vb.
    assert (ka = kb) by (rewrite Va, Vb in E; inversion E; lia). subst kb.
    assert (N.of_nat a = N.of_nat b) by congruence. lia.
  - apply Forall_forall. intros v Hv. apply In_nth_error in Hv. destruct Hv as (a & Ha).
    assert (Hlt : (a < length (st_nidx st))%nat) by (apply nth_error_Some; congruence).
    unfold vlen in Hlen.
    destruct (Hpos (N.of_nat a) ltac:(lia)) as (ka & Hka & Hkl).
    pose proof (Hvals _ _ Hka) as Va. unfold vget in Va. rewrite Nat2N.id in Va.
    assert (v = 0 + N.of_nat ka) by congruence. lia.
Qed.

(* a counter that did not start at 0 numbers the blocks base .. base+n-1: the largest is out of range *)
Theorem complete_shifted n base st : SInv n base st -> complete n st -> 0 < n ->
  exists i, i < n /\ vget (st_nidx st) i = Some (base + n - 1).
Proof.
  intros HI Hc Hn. pose proof (complete_card _ _ _ HI Hc) as Hcard.
  destruct HI as [Hlen Hnd Hrange Hnext Hvals].
  assert (Hl : length (rev (st_vis st)) = N.to_nat n) by (rewrite rev_length; unfold vlen in Hcard; lia).
  destruct (nth_error (rev (st_vis st)) (N.to_nat n - 1)) as [i|] eqn:E.
  - exists i. split.
    + rewrite Forall_forall in Hrange. apply Hrange. apply in_rev. eapply nth_error_In; eauto.
    + rewrite (Hvals _ _ E). f_equal. lia.
  - apply nth_error_None in E. lia.
Qed.

Lemma init_inv g base : SInv (vlen g) base (init_state g base).
Proof.
  constructor; cbn.
  - unfold vlen. rewrite map_length, seq_length. reflexivity.
  - constructor.
  - constructor.
  - lia.
  - intros k i H. destruct k; discriminate.
Qed.

Lemma leftover_complete n base st st' : base + n < 4294967296 ->
  leftover (N.to_nat n) st = Ok st' -> SInv n base st -> SInv n base st' /\ complete n st'.
Proof.
  intros Hs H HI. unfold leftover in H.
  destruct (foreach_assign n base Hs _ _ _ H HI) as (HI' & _ & Hall).
  split; [exact HI'|]. intros i Hi. apply Hall. apply in_map_iff. exists (N.to_nat i). split; [lia|]. apply in_seq. lia.
Qed.

(* ---- the same compositional reasoning, usable outside the section ---- *)
Ltac pres HA HR :=
  repeat match goal with
  | |- preserves _ (sort_run _ _ _ _) => apply run_preserves; [exact HA|exact HR]
  | |- preserves _ s_skip => apply pres_skip
  | |- preserves _ (assign _) => apply HA
  | |- preserves _ (seq2 _ _) => apply pres_seq
  | |- preserves _ (s_foreach _ _) => apply pres_foreach; intros
  | |- preserves _ (s_rd _ _) => apply pres_rd; intros
  | |- preserves _ (leftover _) => apply leftover_preserves; exact HA
  | |- preserves _ (match ?x with _ => _ end) => destruct x
  end.

Lemma rebuild_at_fields ob rso i st :
  st_vis (rebuild_at ob rso i st) = st_vis st /\ st_nidx (rebuild_at ob rso i st) = st_nidx st /\
  st_next (rebuild_at ob rso i st) = st_next st.
Proof.
  unfold rebuild_at, set_children. destruct (getb (st_gr st) i); [|auto].
  destruct (vset (st_gr st) i _); auto.
Qed.

Lemma rebuild_at_sinv ob rso n base i st : SInv n base st -> SInv n base (rebuild_at ob rso i st).
Proof.
  intros [H1 H2 H3 H4 H5]. destruct (rebuild_at_fields ob rso i st) as (E1 & E2 & E3).
  constructor; rewrite ?E1, ?E2, ?E3; assumption.
Qed.

(* sort_perm for any traversal: whatever calls are made (any graph, any fuel, any root shape order),
   a state satisfying the numbering invariant still satisfies it afterwards *)
Theorem run_sinv ob rso n base fuel c st st' :
  base + n < 4294967296 -> sort_run ob rso fuel c st = Ok st' -> SInv n base st -> SInv n base st'.
Proof.
  intros Hs. apply (run_preserves (SInv n base) ob rso).
  - intros i s s' H HI. eapply assign_inv; eauto.
  - intros i s. apply rebuild_at_sinv.
Qed.
