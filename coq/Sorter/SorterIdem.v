(* A component of idempotence that holds for every graph: with an empty rootShapeOrder
   (PrettySortBlocks) a child array produced by SortGraph's rebuild is a fixed point of the rebuild. *)
From NiflyVerif Require Import Res CompactProofs GraphModel GraphInv GraphDelete GraphAdd GraphOrder SorterModel SorterInv SorterChildren.
From Coq Require Import ZifyBool ZifyNat ZifyN Permutation.
Local Open Scope N_scope.

Lemma shape_order_nil shapes : shape_order [] shapes = shapes.
Proof.
  unfold shape_order. destruct shapes as [|a l]; [reflexivity|].
  destruct (N.eqb_spec (vlen (@nil N)) (vlen (a :: l))) as [E|_]; [|reflexivity].
  unfold vlen in E. cbn in E. lia.
Qed.

Lemma add_missing_app g : forall l1 l2 acc, add_missing g (l1 ++ l2) acc = add_missing g l2 (add_missing g l1 acc).
Proof.
  induction l1 as [|x l1 IH]; intros l2 acc; cbn [app add_missing]; [reflexivity|].
  destruct (negb (s_contains acc x) && _)%bool; apply IH.
Qed.

Lemma add_missing_fixed g : forall l acc, (forall x, In x l -> In x acc \/ getb g x = None) -> add_missing g l acc = acc.
Proof.
  induction l as [|x l IH]; intros acc H; cbn [add_missing]; [reflexivity|].
  destruct (H x (or_introl eq_refl)) as [Hin|Hn].
  - apply contains_in in Hin. rewrite Hin. cbn. apply IH. intros; apply H; right; assumption.
  - rewrite Hn, andb_false_r. apply IH. intros; apply H; right; assumption.
Qed.

Lemma add_missing_ext g : forall ext acc, NoDup ext ->
  (forall x, In x ext -> ~ In x acc /\ getb g x <> None) -> add_missing g ext acc = acc ++ ext.
Proof.
  induction ext as [|x ext IH]; intros acc Hnd H; cbn [add_missing]; [rewrite app_nil_r; reflexivity|].
  inversion Hnd as [|? ? Hx Hnd']; subst.
  destruct (H x (or_introl eq_refl)) as (Hna & Hg).
  assert (Hc : s_contains acc x = false).
  { destruct (s_contains acc x) eqn:E; [|reflexivity]. apply contains_in in E. contradiction. }
  rewrite Hc. destruct (getb g x) as [b|]; [|congruence]. cbn.
  rewrite IH; [rewrite <- app_assoc; reflexivity|exact Hnd'|].
  intros y Hy. destruct (H y (or_intror Hy)) as (H1 & H2). split; [|exact H2].
  intros Hi. apply in_app_or in Hi. destruct Hi as [Hi|[<-|[]]]; [contradiction|contradiction].
Qed.

Theorem rebuild_fixed_point ob g is_root ch :
  (forall x, kind_at g x K_NODE = true -> kind_at g x K_SHAPE = false) ->
  rebuild ob [] is_root g (rebuild ob [] is_root g ch) = rebuild ob [] is_root g ch.
Proof.
  intros Hexcl.
  set (shp := fun x => kind_at g x K_SHAPE).
  set (nf := node_first ob g).
  assert (Hso : forall s, (if is_root then shape_order [] s else s) = s) by (intros; destruct is_root; [apply shape_order_nil|reflexivity]).
  set (nodes := filter nf ch). set (shapes := filter shp ch). set (emp := filter (N.eqb NPOS) ch).
  destruct (add_missing_spec g ch (nodes ++ shapes)) as (ext & E & Hnd & Hext & _).
  assert (R : rebuild ob [] is_root g ch = ((nodes ++ shapes) ++ ext) ++ emp).
  { unfold rebuild. rewrite Hso. fold shp nf. fold nodes shapes emp. rewrite E. reflexivity. }
  rewrite R.
  assert (Hnpos_shape : shp NPOS = false) by (unfold shp, kind_at; rewrite getb_npos; reflexivity).
  assert (Hnpos_node : nf NPOS = false).
  { destruct (nf NPOS) eqn:En; [|reflexivity]. apply node_first_node in En. unfold kind_at in En. rewrite getb_npos in En. discriminate. }
  assert (Hn_nf : forall x, In x nodes -> nf x = true /\ In x ch) by (intros x Hx; apply filter_In in Hx; tauto).
  assert (Hs_shp : forall x, In x shapes -> shp x = true /\ In x ch) by (intros x Hx; apply filter_In in Hx; tauto).
  assert (Hnf_shp : forall x, nf x = true -> shp x = false) by (intros x Hx; apply Hexcl, node_first_node with ob; exact Hx).
  assert (He_emp : forall x, In x emp -> x = NPOS).
  { intros x Hx. apply filter_In in Hx. destruct Hx as (_ & Hx). apply N.eqb_eq in Hx. auto. }
  (* the filters of the rebuilt array give back its segments *)
  assert (Fn : filter nf (((nodes ++ shapes) ++ ext) ++ emp) = nodes).
  { rewrite !filter_app. rewrite (filter_all nf nodes) by (intros x Hx; apply Hn_nf; exact Hx).
    rewrite (filter_none nf shapes).
    2:{ intros x Hx. destruct (Hs_shp x Hx) as (Hs & _). destruct (nf x) eqn:En; [|reflexivity]. rewrite (Hnf_shp x En) in Hs. discriminate. }
    rewrite (filter_none nf ext).
    2:{ intros x Hx. destruct (Hext x Hx) as (H1 & H2 & _). destruct (nf x) eqn:En; [|reflexivity].
        exfalso. apply H2. apply in_or_app. left. apply filter_In. auto. }
    rewrite (filter_none nf emp) by (intros x Hx; rewrite (He_emp x Hx); exact Hnpos_node).
    rewrite !app_nil_r. reflexivity. }
  assert (Fs : filter shp (((nodes ++ shapes) ++ ext) ++ emp) = shapes).
  { rewrite !filter_app. rewrite (filter_none shp nodes) by (intros x Hx; apply Hnf_shp, Hn_nf; exact Hx).
    rewrite (filter_all shp shapes) by (intros x Hx; apply Hs_shp; exact Hx).
    rewrite (filter_none shp ext).
    2:{ intros x Hx. destruct (Hext x Hx) as (H1 & H2 & _). destruct (shp x) eqn:En; [|reflexivity].
        exfalso. apply H2. apply in_or_app. right. apply filter_In. auto. }
    rewrite (filter_none shp emp) by (intros x Hx; rewrite (He_emp x Hx); exact Hnpos_shape).
    rewrite !app_nil_r. reflexivity. }
  assert (Fe : filter (N.eqb NPOS) (((nodes ++ shapes) ++ ext) ++ emp) = emp).
  { rewrite !filter_app.
    rewrite (filter_none (N.eqb NPOS) nodes).
    2:{ intros x Hx. destruct (N.eqb_spec NPOS x) as [<-|]; [|reflexivity]. destruct (Hn_nf _ Hx) as (Hc & _). congruence. }
    rewrite (filter_none (N.eqb NPOS) shapes).
    2:{ intros x Hx. destruct (N.eqb_spec NPOS x) as [<-|]; [|reflexivity]. destruct (Hs_shp _ Hx) as (Hc & _). congruence. }
    rewrite (filter_none (N.eqb NPOS) ext).
    2:{ intros x Hx. destruct (N.eqb_spec NPOS x) as [<-|]; [|reflexivity]. destruct (Hext _ Hx) as (_ & _ & Hc). rewrite getb_npos in Hc. congruence. }
    rewrite (filter_all (N.eqb NPOS) emp) by (intros x Hx; rewrite (He_emp x Hx); apply N.eqb_refl).
    reflexivity. }
  unfold rebuild. rewrite Hso. fold shp nf. rewrite Fn, Fs, Fe. f_equal.
  rewrite !add_missing_app.
  rewrite (add_missing_fixed g nodes) by (intros x Hx; left; apply in_or_app; left; exact Hx).
  rewrite (add_missing_fixed g shapes) by (intros x Hx; left; apply in_or_app; right; exact Hx).
  rewrite (add_missing_ext g ext (nodes ++ shapes) Hnd) by (intros x Hx; destruct (Hext x Hx) as (_ & H2 & H3); auto).
  apply add_missing_fixed. intros x Hx. right. rewrite (He_emp x Hx). apply getb_npos.
Qed.
