(* PrettySortBlocks and SetShapeOrder as a whole: the computed order is a permutation, the first
   parentless node gets index 0, child arrays keep their contents, and applying the order through
   SetBlockOrder (Graph/GraphOrder.v) moves every object to its new slot with every reference
   still designating the same object. *)
From NiflyVerif Require Import Res CompactProofs GraphModel GraphInv GraphDelete GraphAdd GraphOrder
  SorterModel SorterInv SorterChildren.
From Coq Require Import ZifyBool ZifyNat ZifyN Permutation.
Local Open Scope N_scope.

Lemma NPOS_lt : NPOS < 4294967296.
Proof. reflexivity. Qed.

(* ---- the loop over the parentless nodes ---- *)
Definition roots_loop (ob : bool) (fuel : nat) (l : list N) : s_act :=
  s_foreach l (fun i => s_rd (fun st => has_parent (st_gr st) i) (fun p => if p then s_skip else sort_run ob [] fuel (CSet i))).

Lemma pretty_indices_unfold fuel ob g :
  pretty_indices fuel ob g =
  bind (roots_loop ob fuel (indices_where (has_kind K_NODE) 0 g) (init_state g 0)) (leftover (length g)).
Proof. reflexivity. Qed.

Lemma roots_loop_preserves (P : list N -> sstate -> Prop) ob fuel l S :
  (forall S i, preserves (P S) (assign i)) ->
  (forall S i st, P S st -> visited st i = false -> P (i :: S) (s_mark i st)) ->
  (forall S i st st', P (i :: S) st -> s_set_index i st = Ok st' -> P S st') ->
  (forall S i st, P S st -> P S (rebuild_at ob [] i st)) ->
  preserves (P S) (roots_loop ob fuel l).
Proof. intros HA HM HX HR. unfold roots_loop. pres HA HM HX HR. Qed.

Lemma roots_loop_preserves_unary (Q : sstate -> Prop) ob fuel l :
  (forall i, preserves Q (assign i)) -> (forall i st, Q st -> Q (s_mark i st)) ->
  (forall i, preserves Q (s_set_index i)) -> (forall i st, Q st -> Q (rebuild_at ob [] i st)) ->
  preserves Q (roots_loop ob fuel l).
Proof.
  intros HA HM HX HR. apply (roots_loop_preserves (fun _ => Q) ob fuel l []).
  - intros _ i. apply HA.
  - intros _ i st H _. apply HM. exact H.
  - intros _ i st st' H E. eapply HX; eauto.
  - intros _ i st. apply HR.
Qed.

(* ---- sort_perm ---- *)
Theorem pretty_perm fuel ob g st :
  vlen g < NPOS -> pretty_indices fuel ob g = Ok st -> is_perm (st_nidx st) (vlen g) /\ SInv (vlen g) 0 [] st.
Proof.
  intros Hn H. rewrite pretty_indices_unfold in H.
  destruct (roots_loop ob fuel _ (init_state g 0)) as [s1| |] eqn:E; cbn [bind] in H; try discriminate.
  assert (Hs : 0 + vlen g < 4294967296) by (pose proof NPOS_lt; lia).
  assert (H1 : SInv (vlen g) 0 [] s1).
  { eapply (roots_loop_preserves (SInv (vlen g) 0)); [| | | |exact E|apply init_inv].
    - intros S i s s' Ha HI. eapply assign_inv; eauto.
    - intros S i s. apply mark_inv.
    - intros S i s s' HI Hx. eapply set_index_inv; eauto.
    - intros S i s. apply rebuild_at_sinv. }
  replace (length g) with (N.to_nat (vlen g)) in H by (unfold vlen; lia).
  destruct (leftover_complete _ _ _ _ Hs H H1) as (HI & Hc).
  split; [apply complete_perm; assumption|exact HI].
Qed.

(* ---- root_first ---- *)
Lemma indices_where_spec p : forall g k i, In i (indices_where p k g) ->
  k <= i < k + vlen g /\ exists b, vget g (i - k) = Some b /\ p b = true.
Proof.
  induction g as [|b g IH]; intros k i H; cbn [indices_where] in H; [destruct H|].
  apply in_app_or in H. destruct H as [H|H].
  - destruct (p b) eqn:Pb; [|destruct H]. destruct H as [<-|[]]. rewrite vlen_cons. split; [lia|].
    exists b. rewrite N.sub_diag. split; [reflexivity|exact Pb].
  - destruct (IH _ _ H) as (Hr & b' & Hb & Pb). rewrite vlen_cons. split; [lia|].
    exists b'. split; [|exact Pb]. unfold vget in *.
    replace (N.to_nat (i - k)) with (S (N.to_nat (i - (k + 1)))) by lia. exact Hb.
Qed.

(* the first node (block order) that no node lists as a child *)
Definition first_root (g : list sblock) : option N :=
  find (fun i => negb (has_parent g i)) (indices_where (has_kind K_NODE) 0 g).

(* the root is numbered 0 and is not one of the pending collision blocks *)
Definition root_at (r : N) (S : list N) (st : sstate) : Prop :=
  vget (st_nidx st) r = Some 0 /\ In r (st_vis st) /\ ~ In r S.

Lemma root_at_assign r S i : preserves (root_at r S) (assign i).
Proof.
  intros st st' H (Hv & Hin & HS). destruct (assign_cases _ _ _ H) as [(_ & ->)|(Hnot & v & Hs & ->)]; [repeat split; assumption|].
  split; [|split; [right; exact Hin|exact HS]]. cbn [st_nidx].
  rewrite (vget_vset _ _ _ _ _ Hs). destruct (N.eqb_spec r i) as [->|_]; [contradiction|exact Hv].
Qed.

Lemma root_at_mark r S i st : root_at r S st -> visited st i = false -> root_at r (i :: S) (s_mark i st).
Proof.
  intros (Hv & Hin & HS) V. apply visited_false in V.
  split; [exact Hv|]. split; [right; exact Hin|]. intros [->|Hc]; contradiction.
Qed.

Lemma root_at_index r S i st st' : root_at r (i :: S) st -> s_set_index i st = Ok st' -> root_at r S st'.
Proof.
  intros (Hv & Hin & HS) H. unfold s_set_index in H.
  destruct (vset (st_nidx st) i (st_next st)) as [v|] eqn:Es; [|discriminate]. inversion H; subst st'.
  split; [|split; [exact Hin|intros Hc; apply HS; right; exact Hc]]. cbn [st_nidx].
  rewrite (vget_vset _ _ _ _ _ Es). destruct (N.eqb_spec r i) as [->|_]; [exfalso; apply HS; left; reflexivity|exact Hv].
Qed.

Lemma root_at_rebuild ob rso r S i st : root_at r S st -> root_at r S (rebuild_at ob rso i st).
Proof. intros (H1 & H2 & H3). destruct (rebuild_at_fields ob rso i st) as (E1 & E2 & _). repeat split; rewrite ?E1, ?E2; assumption. Qed.

Lemma vget_iota n r : r < N.of_nat n -> vget (map N.of_nat (seq 0 n)) r = Some r.
Proof.
  intros H. unfold vget. rewrite nth_error_map. rewrite nth_error_nth' with (d := 0%nat) by (rewrite seq_length; lia).
  rewrite seq_nth by lia. cbn. f_equal. lia.
Qed.

Lemma cset_root ob rso fuel g r b s1 :
  sort_run ob rso fuel (CSet r) (init_state g 0) = Ok s1 ->
  getb g r = Some b -> has_kind K_COLL b = false -> root_at r [] s1.
Proof.
  intros H Hb Hc. destruct fuel as [|f]; [discriminate|].
  cbn [sort_run] in H. unfold s_rd at 1 in H. cbn [st_gr init_state] in H. rewrite Hb in H.
  change (visited (init_state g 0) r) with false in H. cbv iota in H. rewrite Hc in H.
  unfold seq2 at 1 in H.
  destruct (assign r (init_state g 0)) as [s0| |] eqn:Ea; cbn [bind] in H; try discriminate.
  assert (H0 : root_at r [] s0).
  { destruct (assign_cases _ _ _ Ea) as [([] & _)|(_ & v & Hv & ->)]. cbn [st_nidx st_next init_state] in Hv.
    split; cbn [st_nidx st_vis]; [|split; [left; reflexivity|intros []]].
    rewrite (vget_vset _ _ _ _ _ Hv), N.eqb_refl. reflexivity. }
  revert H H0. generalize s0 s1. change (preserves (root_at r [])
    (if has_kind K_NODE b then sort_run ob rso f (CGraph r)
     else if has_kind K_SHAPE b then sort_run ob rso f (CShape r)
     else if has_kind K_CTRL b then sort_run ob rso f (CCtrl r)
     else if has_kind K_SHADER b then sort_run ob rso f (CNet r);; sort_run ob rso f (CSet (s_texset b))
     else s_rd (fun st => match getb (st_gr st) r with Some b' => kids b' | None => [] end)
             (fun l => s_foreach l (fun i0 => sort_run ob rso f (CSet i0))))).
  pose proof (root_at_assign r) as HA. pose proof (root_at_mark r) as HM. pose proof (root_at_index r) as HX.
  pose proof (fun S i st => root_at_rebuild ob rso r S i st) as HR.
  pres HA HM HX HR.
Qed.

Theorem root_first fuel ob g st r :
  vlen g < NPOS -> pretty_indices fuel ob g = Ok st ->
  first_root g = Some r -> kind_at g r K_COLL = false ->
  vget (st_nidx st) r = Some 0.
Proof.
  intros Hn H Hr Hc. rewrite pretty_indices_unfold in H.
  destruct (roots_loop ob fuel _ (init_state g 0)) as [s1| |] eqn:E; cbn [bind] in H; try discriminate.
  pose proof (root_at_assign r) as HA. pose proof (root_at_mark r) as HM. pose proof (root_at_index r) as HX.
  pose proof (fun S i st => root_at_rebuild ob [] r S i st) as HR.
  assert (H1 : root_at r [] s1).
  { unfold first_root in Hr. revert E Hr.
    assert (Hall : forall i, In i (indices_where (has_kind K_NODE) 0 g) -> i < vlen g).
    { intros i Hi. apply indices_where_spec in Hi. lia. }
    revert Hall. generalize (indices_where (has_kind K_NODE) 0 g) as l.
    induction l as [|x l IH]; intros Hall E Hr; [discriminate|].
    cbn [find] in Hr. unfold roots_loop in E. cbn [s_foreach] in E. unfold seq2 at 1 in E.
    unfold s_rd at 1 in E. cbn [st_gr init_state] in E.
    destruct (has_parent g x) eqn:Hp; cbn [negb] in Hr.
    - cbn [s_skip bind] in E. apply IH; auto. intros; apply Hall; right; assumption.
    - inversion Hr; subst x.
      destruct (sort_run ob [] fuel (CSet r) (init_state g 0)) as [s0| |] eqn:Er; cbn [bind] in E; try discriminate.
      assert (Hb : exists b, getb g r = Some b).
      { apply getb_in_range; [|apply Hall; left; reflexivity]. specialize (Hall r (or_introl eq_refl)). lia. }
      destruct Hb as (b & Hb).
      assert (H0 : root_at r [] s0).
      { eapply cset_root; eauto. unfold kind_at in Hc. rewrite Hb in Hc. exact Hc. }
      revert E H0. apply (roots_loop_preserves (root_at r) ob fuel l [] HA HM HX HR). }
  assert (H2 : root_at r [] st) by (eapply (leftover_preserves (root_at r)); eauto).
  apply H2.
Qed.

(* ---- children ---- *)
Theorem pretty_children fuel ob g st :
  refs_in_range g -> node_shape_excl g -> pretty_indices fuel ob g = Ok st -> grel g (st_gr st).
Proof.
  intros Hr He H. rewrite pretty_indices_unfold in H.
  destruct (roots_loop ob fuel _ (init_state g 0)) as [s1| |] eqn:E; cbn [bind] in H; try discriminate.
  assert (HA : forall i, preserves (fun s => grel g (st_gr s)) (assign i)).
  { intros i s s' Ha HG. rewrite (assign_gr _ _ _ Ha). exact HG. }
  assert (HX : forall i, preserves (fun s => grel g (st_gr s)) (s_set_index i)).
  { intros i s s' Ha HG. rewrite (set_index_gr _ _ _ Ha). exact HG. }
  assert (HR : forall i s, grel g (st_gr s) -> grel g (st_gr (rebuild_at ob [] i s))).
  { intros i s. apply rebuild_at_grel; assumption. }
  assert (H1 : grel g (st_gr s1)).
  { eapply (roots_loop_preserves_unary (fun s => grel g (st_gr s))); [exact HA|auto|exact HX|exact HR|exact E|apply grel_refl]. }
  eapply (leftover_preserves_unary (fun s => grel g (st_gr s))); eauto.
Qed.

(* ---- SetBlockOrder on the sorter's blocks ---- *)
Lemma vget_ext {A} : forall (l l' : list A), (forall i, vget l i = vget l' i) -> l = l'.
Proof.
  induction l as [|x l IH]; intros [|y l'] H.
  - reflexivity.
  - specialize (H 0). discriminate.
  - specialize (H 0). discriminate.
  - pose proof (H 0) as H0. cbn in H0. inversion H0; subst y. f_equal. apply IH. intros i.
    specialize (H (i + 1)). unfold vget in *. replace (N.to_nat (i + 1)) with (S (N.to_nat i)) in H by lia. exact H.
Qed.

Lemma vget_none_ge {A} (l : list A) i : vlen l <= i -> vget l i = None.
Proof. unfold vget, vlen. intros H. apply nth_error_None. lia. Qed.

Theorem reorder_g_spec order g :
  is_perm order (vlen g) ->
  exists g', reorder_g order g = Ok g' /\ vlen g' = vlen g /\
    (forall i o b, vget order i = Some o -> vget g i = Some b ->
                   vget g' o = Some (map_refs (remap_ref order) b)).
Proof.
  intros Hp. unfold reorder_g.
  assert (Hl : vlen order = vlen g) by apply Hp.
  rewrite Hl, N.eqb_refl. cbn [negb].
  destruct (scatter_spec order g (vlen g) Hp eq_refl) as (l & Hrun & Hlen & Hget).
  rewrite Hrun. cbn [bind]. rewrite all_some_map. eexists. split; [reflexivity|].
  split; [rewrite vlen_map; exact Hlen|].
  intros i o b Ho Hb. rewrite vget_map, (Hget i o b Ho Hb). reflexivity.
Qed.

(* every reference slot of the reordered blocks designates the same object as before *)
Corollary reorder_g_referent order g g' r :
  vlen g < NPOS -> is_perm order (vlen g) -> reorder_g order g = Ok g' -> r = NPOS \/ r < vlen g ->
  option_map s_uid (getb g' (remap_ref order r)) = option_map s_uid (getb g r).
Proof.
  intros Hsmall Hp Hr Hin. destruct (reorder_g_spec order g Hp) as (g2 & E & Hlen & Hget).
  rewrite Hr in E. inversion E; subst g2. clear E.
  destruct Hin as [->|Hlt].
  - unfold remap_ref. rewrite N.eqb_refl. rewrite !getb_npos. reflexivity.
  - assert (Hl : vlen order = vlen g) by apply Hp.
    destruct (vget_lt order r ltac:(lia)) as (o & Ho).
    destruct (vget_lt g r Hlt) as (b & Hb).
    assert (Hon : o < vlen g).
    { destruct Hp as (_ & Hall & _). rewrite Forall_forall in Hall. apply Hall. eapply in_vget; eauto. }
    unfold remap_ref. destruct (N.eqb_spec r NPOS) as [->|Hne]; [lia|].
    destruct (N.ltb_spec r (vlen order)); [|lia]. rewrite Ho.
    unfold getb. rewrite Hlen.
    destruct (N.eqb_spec o NPOS); [lia|]. destruct (N.eqb_spec r NPOS); [contradiction|].
    destruct (N.ltb_spec o (vlen g)); [|lia]. destruct (N.ltb_spec r (vlen g)); [|lia].
    rewrite Hb, (Hget r o b Ho Hb). reflexivity.
Qed.

(* ---- composition with NiHeader::SetBlockOrder (Graph/GraphOrder.v) ---- *)
(* the header whose block vector is the sorter's view of the blocks *)
Definition hdr_with (h : hdr) (g : list sblock) : hdr :=
  mkHdr (map to_block g) (nblocks h) (tnames h) (ntypes h) (tidx h) (sizes h) (has_sizes h).

Lemma to_block_map_refs f b : to_block (map_refs f b) = mkBlock (s_uid b) (s_tname b) (map f (s_children b ++ s_crefs b)) (map f (s_ptrs b)).
Proof. unfold to_block, map_refs. cbn. rewrite map_app. reflexivity. Qed.

Lemma set_block_order_blocks h order h' :
  set_block_order h order = Ok h' -> vlen order = nblocks h ->
  exists nbl bl, scatter (S (length order)) (nblocks h) order (blocks h) (repeat None (length (blocks h))) 0 = Ok nbl /\
                 all_some nbl = Some bl /\ blocks h' = map (block_reordered order) bl.
Proof.
  intros H Hl. unfold set_block_order in H. rewrite Hl, N.eqb_refl in H. cbn [negb] in H.
  destruct (scatter _ _ order (tidx h) _ 0) as [nti| |]; cbn [bind] in H; try discriminate.
  destruct (scatter _ _ order (blocks h) _ 0) as [nbl| |]; cbn [bind] in H; try discriminate.
  destruct (if has_sizes h then _ else _) as [nsz| |]; cbn [bind] in H; try discriminate.
  destruct (all_some nbl) as [bl|] eqn:E; [|discriminate].
  inversion H. exists nbl, bl. auto.
Qed.

(* SetBlockOrder on the header and the reordering of the sorter's blocks are the same operation *)
Theorem reorder_commutes h g order h' :
  blocks h = map to_block g -> is_perm order (vlen g) -> nblocks h = vlen g ->
  set_block_order h order = Ok h' ->
  exists g', reorder_g order g = Ok g' /\ blocks h' = map to_block g'.
Proof.
  intros Hb Hp Hn H.
  assert (Hl : vlen order = vlen g) by apply Hp.
  destruct (set_block_order_blocks h order h' H ltac:(lia)) as (nbl & bl & Hs & Ha & Hbl).
  destruct (reorder_g_spec order g Hp) as (g' & Hr & Hlen & Hget).
  exists g'. split; [exact Hr|]. rewrite Hbl.
  (* both scatter loops, characterised pointwise *)
  rewrite Hb, Hn in Hs.
  assert (Hml : vlen (map to_block g) = vlen g) by apply vlen_map.
  destruct (scatter_spec order (map to_block g) (vlen g) Hp Hml) as (lb & Hrun & Hlbl & Hlb).
  rewrite Hrun in Hs. inversion Hs; subst nbl. rewrite all_some_map in Ha. inversion Ha; subst bl.
  apply vget_ext. intros o. rewrite !vget_map.
  destruct (N.ltb_spec o (vlen g)) as [Ho|Ho].
  - destruct (perm_surj order (vlen g) Hp o Ho) as (k & Hk).
    destruct (vget_lt g k) as (b & Hbk); [apply vget_some_lt' in Hk; lia|].
    rewrite (Hget k o b Hk Hbk).
    assert (Hm : vget (map to_block g) k = Some (to_block b)) by (rewrite vget_map, Hbk; reflexivity).
    rewrite (Hlb k o _ Hk Hm). cbn [option_map]. f_equal.
    rewrite to_block_map_refs. reflexivity.
  - rewrite (vget_none_ge lb) by lia. rewrite (vget_none_ge g') by lia. reflexivity.
Qed.

(* the sorter's intermediate block vector is still a consistent header *)
Lemma grel_map {A} (f : sblock -> A) g0 g :
  (forall b0 b, same_but_children b0 b -> f b = f b0) -> grel g0 g -> map f g = map f g0.
Proof.
  intros Hf H. unfold grel in H. induction H as [|b0 b l0 l (Hs & _) _ IH]; cbn; [reflexivity|].
  rewrite IH, (Hf b0 b Hs). reflexivity.
Qed.

Lemma inv_hdr_with h g0 g :
  Inv h -> blocks h = map to_block g0 -> grel g0 g -> Inv (hdr_with h g).
Proof.
  intros [Hnb Hnt Hty Hnd Hused Hsz Huid Hrefs Hsmall] Hb HG.
  pose proof (grel_len _ _ HG) as Hlen.
  assert (Hl0 : vlen (blocks h) = vlen g0) by (rewrite Hb; apply vlen_map).
  assert (Htn : map tname (map to_block g) = map tname (blocks h)).
  { rewrite Hb, !map_map. cbn [tname to_block]. apply grel_map; [|exact HG]. intros b0 b ->. reflexivity. }
  constructor; cbn [hdr_with blocks nblocks tnames ntypes tidx sizes has_sizes].
  - rewrite vlen_map. lia.
  - exact Hnt.
  - (* type names are unchanged *)
    apply Forall2_pointwise.
    + rewrite map_length. apply Forall2_len in Hty. unfold vlen in *. lia.
    + intros i a t Ha Ht.
      destruct (vget_lt (blocks h) i) as (a0 & Ha0).
      { apply vget_some_lt' in Ha. rewrite vlen_map in Ha. lia. }
      pose proof (Forall2_vget _ _ _ Hty i a0 t Ha0 Ht) as Hok. unfold type_ok in *.
      assert (tname a = tname a0).
      { assert (E : vget (map tname (map to_block g)) i = vget (map tname (blocks h)) i) by (rewrite Htn; reflexivity).
        rewrite (vget_map tname (map to_block g)), (vget_map tname (blocks h)), Ha, Ha0 in E. cbn in E. congruence. }
      congruence.
  - exact Hnd.
  - exact Hused.
  - intros Hs. rewrite map_length. specialize (Hsz Hs). unfold vlen in *. lia.
  - replace (map uid (map to_block g)) with (map uid (blocks h)); [exact Huid|].
    rewrite Hb, !map_map. cbn [uid to_block]. symmetry. apply grel_map; [|exact HG]. intros b0 b ->. reflexivity.
  - rewrite vlen_map, Hlen, <- Hl0.
    apply Forall_forall. intros a Ha. apply in_map_iff in Ha. destruct Ha as (b & <- & Hbin).
    destruct (in_vget_ex _ _ Hbin) as (i & Hi).
    pose proof (grel_getb g0 g i HG) as R.
    assert (Hilt : i < vlen g) by (apply vget_some_lt' in Hi; exact Hi).
    destruct (vget_lt g0 i ltac:(lia)) as (b0 & Hi0).
    assert (HR : same_but_children b0 b /\ crel (fun y => kind_at g0 y K_SHAPE) (s_children b0) (s_children b))
      by exact (Forall2_vget _ _ _ HG i b0 b Hi0 Hi).
    destruct HR as (Hs & (Hin & _)).
    rewrite Forall_forall in Hrefs.
    assert (Hb0 : In (to_block b0) (blocks h)) by (rewrite Hb; apply in_map; eapply in_vget; eauto).
    destruct (Hrefs _ Hb0) as (Hc & Hp). cbn [crefs ptrs to_block] in *.
    rewrite Forall_forall in Hc, Hp.
    split; cbn [crefs ptrs to_block]; apply Forall_forall; intros r Hr.
    + apply in_app_or in Hr. destruct Hr as [Hr|Hr].
      * apply Hc. apply in_or_app. left. apply Hin. exact Hr.
      * apply Hc. apply in_or_app. right. rewrite Hs in Hr. exact Hr.
    + apply Hp. rewrite Hs in Hr. exact Hr.
  - rewrite vlen_map. lia.
Qed.

(* PrettySortBlocks on a consistent model: the blocks are permuted by a bijection, the header stays
   consistent, slot i of the model (with SortGraph's child arrays) is slot order[i] afterwards with
   every reference designating the same object. *)
Theorem pretty_sort_view fuel m m' h :
  Inv h -> blocks h = map to_block (sm_g m) -> refs_in_range (sm_g m) -> node_shape_excl (sm_g m) ->
  sm_unk m = false -> sm_g m <> [] ->
  pretty_sort fuel m = Ok m' ->
  exists st h',
    pretty_indices fuel (sm_ob m) (sm_g m) = Ok st /\
    is_perm (st_nidx st) (vlen (sm_g m)) /\
    grel (sm_g m) (st_gr st) /\
    set_block_order (hdr_with h (st_gr st)) (st_nidx st) = Ok h' /\
    Inv h' /\ blocks h' = map to_block (sm_g m') /\
    (forall i o, vget (st_nidx st) i = Some o ->
       vget (view h') o = vget (view (hdr_with h (st_gr st))) i).
Proof.
  intros HI Hb Hr He Hu Hne H. unfold pretty_sort in H. rewrite Hu in H.
  destruct (sm_g m) as [|b0 g0] eqn:Eg; [contradiction|]. rewrite <- Eg in *.
  destruct (pretty_indices fuel (sm_ob m) (sm_g m)) as [st| |] eqn:Ep; cbn [bind] in H; try discriminate.
  destruct (reorder_g (st_nidx st) (st_gr st)) as [g'| |] eqn:Er; cbn [bind] in H; try discriminate.
  inversion H; subst m'. cbn [sm_g with_g].
  assert (Hsmall : vlen (sm_g m) < NPOS).
  { destruct HI as [_ _ _ _ _ _ _ _ Hs]. rewrite Hb, vlen_map in Hs. exact Hs. }
  destruct (pretty_perm _ _ _ _ Hsmall Ep) as (Hperm & _).
  pose proof (pretty_children _ _ _ _ Hr He Ep) as HG.
  pose proof (inv_hdr_with h _ _ HI Hb HG) as HI2.
  pose proof (grel_len _ _ HG) as Hlen.
  assert (Hperm2 : is_perm (st_nidx st) (vlen (blocks (hdr_with h (st_gr st))))).
  { cbn [hdr_with blocks]. rewrite vlen_map, Hlen. exact Hperm. }
  destruct (set_block_order_spec _ _ HI2 Hperm2) as (h' & Hrun & HI' & _ & _ & Hview).
  exists st, h'. split; [reflexivity|]. split; [exact Hperm|]. split; [exact HG|]. split; [exact Hrun|].
  split; [exact HI'|]. split; [|exact Hview].
  destruct (reorder_commutes (hdr_with h (st_gr st)) (st_gr st) (st_nidx st) h') as (g2 & Hr2 & Hb2).
  - reflexivity.
  - rewrite Hlen. exact Hperm.
  - cbn [hdr_with nblocks]. destruct HI as [Hnb _ _ _ _ _ _ _ _]. rewrite Hnb, Hb, vlen_map. lia.
  - exact Hrun.
  - rewrite Er in Hr2. inversion Hr2; subst g2. exact Hb2.
Qed.
