(* Hand model of the block sorter of NifFile (src/NifFile.cpp:241-662):
   SetShapeOrder, SetSortIndices, SortNiObjectNET, SortAVObject, SortController, SortCollision,
   SortShape, SortGraph, PrettySortBlocks, and NifFile::DeleteUnreferencedBlocks / Optimize
   (src/NifFile.cpp:1496-1501, include/NifFile.hpp:206-214) on top of the header model of
   Graph/GraphModel.v (set_block_order, delete_block, delete_unreferenced).

   A block carries one bit per dynamic_cast the sorter performs ([s_kind]), the reference fields
   each routine reads, the generic GetChildIndices list (split around the child array of a node,
   which SortGraph rewrites), and - not read by the sorter - its identity, type name and the
   slots enumerated by GetChildRefs / GetPtrs, which is what NiHeader::SetBlockOrder and
   DeleteBlock rewrite.

   The C++ routines are one mutual recursion; here they are the constructors of [s_call] and one
   function [sort_run] recursing on explicit fuel (= depth of the C++ call stack). Every routine is
   written with the combinators [;;], [s_foreach], [s_rd], so that a property of the sort state that
   survives the two primitive updates [assign] and [set_children] survives any traversal
   (SorterInv.v). *)
From NiflyVerif Require Export Res GraphModel.
Local Open Scope N_scope.

(* ---- one bit per class test (dynamic_cast / HasType / GetBlock<T>) used by the sorter ---- *)
Definition K_COLL : N := 0.        (* NiCollisionObject *)
Definition K_NODE : N := 1.        (* NiNode *)
Definition K_ORDERED : N := 2.     (* BSOrderedNode *)
Definition K_SHAPE : N := 3.       (* NiShape *)
Definition K_CTRL : N := 4.        (* NiTimeController *)
Definition K_SHADER : N := 5.      (* NiShader *)
Definition K_SEQ : N := 6.         (* NiControllerSequence *)
Definition K_INTERP : N := 7.      (* NiInterpolator *)
Definition K_NOTES : N := 8.       (* BSAnimNotes *)
Definition K_NISKIN : N := 9.      (* NiSkinInstance *)
Definition K_BSSKIN : N := 10.     (* BSSkinInstance *)
Definition K_CONSTRAINT : N := 11. (* bhkConstraint *)
Definition K_CHAIN : N := 12.      (* bhkBallSocketConstraintChain *)
Definition K_BHKREF : N := 13.     (* bhkRefObject *)

Record sblock := mkSB {
  s_uid : N;                  (* ghost identity *)
  s_tname : N;                (* block type name *)
  s_name : N;                 (* the name member compared by FindBlockByName (an id of the string) *)
  s_kind : N;                 (* bit set of the K_ tests that succeed on this object *)
  s_extra : list N;           (* NiObjectNET::extraDataRefs *)
  s_ctrl : N;                 (* NiObjectNET::controllerRef *)
  s_props : list N;           (* NiAVObject::propertyRefs *)
  s_coll : N;                 (* NiAVObject::collisionRef *)
  s_children : list N;        (* NiNode::childRefs *)
  s_gdata : N;                (* NiShape::DataRef(), NPOS when the accessor returns null *)
  s_skin : N;                 (* NiShape::SkinInstanceRef() *)
  s_shader : N;               (* NiShape::ShaderPropertyRef() *)
  s_alpha : N;                (* NiShape::AlphaPropertyRef() *)
  s_skdata : N;               (* NiSkinInstance::dataRef *)
  s_skpart : N;               (* NiSkinInstance::skinPartitionRef *)
  s_bsdata : N;               (* BSSkinInstance::dataRef *)
  s_texset : N;               (* NiShader::TextureSetRef() *)
  s_cblocks : list (N * N);   (* NiControllerSequence::controlledBlocks (interpolatorRef, controllerRef) *)
  s_textkey : N;              (* NiControllerSequence::textKeyRef *)
  s_animnotes : N;            (* NiControllerSequence::animNotesRef *)
  s_animnotes_l : list N;     (* NiControllerSequence::animNotesRefs *)
  s_notes : list N;           (* BSAnimNotes::animNoteRefs *)
  s_entities : list N;        (* bhkConstraint::entityRefs *)
  s_chained : list N;         (* bhkBallSocketConstraintChain::chainedEntityRefs *)
  s_entA : N;                 (* bhkBallSocketConstraintChain::entityARef *)
  s_entB : N;                 (* bhkBallSocketConstraintChain::entityBRef *)
  s_kpre : list N;            (* GetChildIndices before the child array (the whole list for a non-node) *)
  s_kpost : list N;           (* GetChildIndices behind the child array *)
  s_crefs : list N;           (* GetChildRefs slots other than the child array *)
  s_ptrs : list N             (* GetPtrs slots *)
}.

Definition kids (b : sblock) : list N := s_kpre b ++ s_children b ++ s_kpost b.
Definition has_kind (k : N) (b : sblock) : bool := N.testbit (s_kind b) k.

Definition with_children (b : sblock) (ch : list N) : sblock :=
  mkSB (s_uid b) (s_tname b) (s_name b) (s_kind b) (s_extra b) (s_ctrl b) (s_props b) (s_coll b) ch
       (s_gdata b) (s_skin b) (s_shader b) (s_alpha b) (s_skdata b) (s_skpart b) (s_bsdata b) (s_texset b)
       (s_cblocks b) (s_textkey b) (s_animnotes b) (s_animnotes_l b) (s_notes b) (s_entities b)
       (s_chained b) (s_entA b) (s_entB b) (s_kpre b) (s_kpost b) (s_crefs b) (s_ptrs b).

(* the same function applied to every reference field *)
Definition map_refs (f : N -> N) (b : sblock) : sblock :=
  mkSB (s_uid b) (s_tname b) (s_name b) (s_kind b) (map f (s_extra b)) (f (s_ctrl b)) (map f (s_props b))
       (f (s_coll b)) (map f (s_children b))
       (f (s_gdata b)) (f (s_skin b)) (f (s_shader b)) (f (s_alpha b)) (f (s_skdata b)) (f (s_skpart b))
       (f (s_bsdata b)) (f (s_texset b))
       (map (fun p => (f (fst p), f (snd p))) (s_cblocks b)) (f (s_textkey b)) (f (s_animnotes b))
       (map f (s_animnotes_l b)) (map f (s_notes b)) (map f (s_entities b))
       (map f (s_chained b)) (f (s_entA b)) (f (s_entB b)) (map f (s_kpre b)) (map f (s_kpost b))
       (map f (s_crefs b)) (map f (s_ptrs b)).

(* what NiHeader sees of a block: GetChildRefs = child array + the other slots, GetPtrs *)
Definition to_block (b : sblock) : block :=
  mkBlock (s_uid b) (s_tname b) (s_children b ++ s_crefs b) (s_ptrs b).

(* hdr.GetBlock<NiObject>(i): null for NPOS and beyond numBlocks (= the vector size) *)
Definition getb (g : list sblock) (i : N) : option sblock :=
  if i =? NPOS then None else if i <? vlen g then vget g i else None.

Definition kind_at (g : list sblock) (i : N) (k : N) : bool :=
  match getb g i with Some b => has_kind k b | None => false end.

(* ---- SortState (include/NifFile.hpp:163-168) plus the block vector (SortGraph edits child arrays) ---- *)
Record sstate := mkSt {
  st_vis : list N;      (* visitedIndices (a std::set: membership and insert only) *)
  st_nidx : list N;     (* newIndices *)
  st_next : N;          (* newIndex, uint32_t *)
  st_gr : list sblock
}.

Definition visited (st : sstate) (i : N) : bool := existsb (N.eqb i) (st_vis st).

(* the fused shape of index assignment (SetSortIndices NifFile.cpp:304-305, the completing loops
   269-272 / 653-656): if (visited.count(i) == 0) { newIndices[i] = newIndex++; visited.insert(i); } *)
Definition assign (i : N) (st : sstate) : res sstate :=
  if visited st i then Ok st
  else match vset (st_nidx st) i (st_next st) with
       | Some v => Ok (mkSt (i :: st_vis st) v (wrapN 32 (st_next st + 1)) (st_gr st))
       | None => Fault
       end.

(* SortCollision splits it (NifFile.cpp:418-423, 463-465): the parent is inserted into the visited set on
   entry - bool assignIndex = visitedIndices.insert(parentIndex).second - and only numbered after the
   blocks that have to come before it: if (assignIndex) newIndices[parentIndex] = newIndex++; *)
Definition s_mark (i : N) (st : sstate) : sstate :=
  mkSt (i :: st_vis st) (st_nidx st) (st_next st) (st_gr st).

Definition s_set_index (i : N) (st : sstate) : res sstate :=
  match vset (st_nidx st) i (st_next st) with
  | Some v => Ok (mkSt (st_vis st) v (wrapN 32 (st_next st + 1)) (st_gr st))
  | None => Fault
  end.

(* root->childRefs = newChildRefs *)
Definition set_children (i : N) (ch : list N) (st : sstate) : sstate :=
  match getb (st_gr st) i with
  | Some b => match vset (st_gr st) i (with_children b ch) with
              | Some g' => mkSt (st_vis st) (st_nidx st) (st_next st) g'
              | None => st
              end
  | None => st
  end.

(* ---- combinators: sequential code over the sort state ---- *)
Definition s_act := sstate -> res sstate.
Definition s_skip : s_act := fun st => Ok st.
Definition seq2 (a b : s_act) : s_act := fun st => bind (a st) b.
Notation "a ;; b" := (seq2 a b) (at level 61, right associativity).
(* read something from the current state *)
Definition s_rd {A} (f : sstate -> A) (k : A -> s_act) : s_act := fun st => k (f st) st.
Fixpoint s_foreach {A} (l : list A) (body : A -> s_act) : s_act :=
  match l with
  | [] => s_skip
  | x :: r => body x ;; s_foreach r body
  end.
Definition pure_upd (f : sstate -> sstate) : s_act := fun st => Ok (f st).

(* the frame of SortCollision: assignIndex = insert(i).second; pre; l = read; before l;
   if (assignIndex) number i; after l *)
Definition s_bracket {A} (i : N) (pre : s_act) (rdf : sstate -> A) (before after : A -> s_act) : s_act :=
  fun st =>
    if visited st i
    then (pre ;; s_rd rdf (fun l => before l ;; after l)) st
    else (pre ;; s_rd rdf (fun l => before l ;; s_set_index i ;; after l)) (s_mark i st).

(* ---- SortGraph's new child array (NifFile.cpp:512-623) ---- *)
Definition s_contains (l : list N) (x : N) : bool := existsb (N.eqb x) l.

Definition child_count (g : list sblock) (i : N) : N :=
  match getb g i with Some b => vlen (s_children b) | None => 0 end.

Definition children_of (g : list sblock) (i : N) : list N :=
  match getb g i with Some b => s_children b | None => [] end.

(* OB / FO3: nodes with children; otherwise: nodes *)
Definition node_first (ob : bool) (g : list sblock) (x : N) : bool :=
  if ob then (kind_at g x K_NODE && (0 <? child_count g x))%bool else kind_at g x K_NODE.

(* std::is_permutation(shapeIndices.begin(), shapeIndices.end(), rootShapeOrder.begin()) on two ranges
   of the same length: true iff one is a rearrangement of the other *)
Definition is_permutation_b (a b : list N) : bool :=
  forallb (fun x => count_eq x a =? count_eq x b) (a ++ b).

(* the order is applied only when it has the size of the shape children and is a permutation of them;
   newShapeIndices: value-initialised, slot si := rootShapeOrder[si] when that id is among the shapes *)
Definition shape_order (rso shapes : list N) : list N :=
  if ((vlen rso =? vlen shapes) && is_permutation_b shapes rso)%bool
  then map (fun r => if s_contains shapes r then r else 0) rso
  else shapes.

(* "Add missing others": for index in childIndices: if !s_contains(new, index) && GetBlock(index) *)
Fixpoint add_missing (g : list sblock) (ch acc : list N) : list N :=
  match ch with
  | [] => acc
  | x :: r =>
    if (negb (s_contains acc x) && match getb g x with Some _ => true | None => false end)%bool
    then add_missing g r (acc ++ [x])
    else add_missing g r acc
  end.

Definition rebuild (ob : bool) (rso : list N) (is_root : bool) (g : list sblock) (ch : list N) : list N :=
  let nodes := filter (node_first ob g) ch in
  let shapes := filter (fun x => kind_at g x K_SHAPE) ch in
  let shapes' := if is_root then shape_order rso shapes else shapes in
  add_missing g ch (nodes ++ shapes') ++ filter (N.eqb NPOS) ch.

(* ---- the traversal ---- *)
Inductive s_call :=
| CSet (i : N)      (* SetSortIndices(i) *)
| CNet (i : N)      (* SortNiObjectNET(block i) *)
| CAV (i : N)       (* SortAVObject(block i) *)
| CCtrl (i : N)     (* SortController(block i) *)
| CColl (i : N)     (* SortCollision(block i, i) *)
| CShape (i : N)    (* SortShape(block i) *)
| CGraph (i : N).   (* SortGraph(block i) *)

Definition before_parent (b : sblock) : bool :=
  (has_kind K_BHKREF b && negb (has_kind K_CONSTRAINT b) && negb (has_kind K_CHAIN b))%bool.

Section Run.
  Variable ob : bool.           (* hdr.GetVersion().IsOB() || IsFO3() *)
  Variable rso : list N.        (* sortState.rootShapeOrder *)

  (* childIndices = root->childRefs; ...; root->childRefs = newChildRefs (isRootNode: block id 0) *)
  Definition rebuild_at (i : N) (st : sstate) : sstate :=
    set_children i (rebuild ob rso (i =? 0) (st_gr st) (children_of (st_gr st) i)) st.

  Fixpoint sort_run (fuel : nat) (c : s_call) : s_act :=
    match fuel with
    | O => fun _ => OutOfFuel
    | S f =>
      let sset := fun i => sort_run f (CSet i) in
      (* auto x = hdr.GetBlock<T>(i); if (x) ... *)
      let if_kind := fun (i k : N) (a : s_act) =>
        s_rd (fun st => kind_at (st_gr st) i k) (fun yes => if yes then a else s_skip) in
      (* auto e = hdr.GetBlock<NiObject>(i); if (e && visited.count(i) == 0) SortCollision(e, i) *)
      let coll_unvisited := fun i =>
        s_rd (fun st => (getb (st_gr st) i, visited st i)) (fun p =>
          match p with (Some _, false) => sort_run f (CColl i) | _ => s_skip end) in
      (* animNotes = GetBlock<BSAnimNotes>(r); if (animNotes) { SetSortIndices(r); for an: SetSortIndices(an) } *)
      let notes := fun r =>
        s_rd (fun st => getb (st_gr st) r) (fun o =>
          match o with
          | Some nb => if has_kind K_NOTES nb then sset r ;; s_foreach (s_notes nb) sset else s_skip
          | None => s_skip
          end) in
      match c with
      | CSet i =>                                             (* NifFile.cpp:289-352 *)
        s_rd (fun st => (getb (st_gr st) i, visited st i)) (fun p =>
          match p with
          | (None, _) => s_skip
          | (Some _, true) => s_skip
          | (Some b, false) =>
            if has_kind K_COLL b then sort_run f (CColl i)
            else assign i ;;
              (if has_kind K_NODE b then sort_run f (CGraph i)
               else if has_kind K_SHAPE b then sort_run f (CShape i)
               else if has_kind K_CTRL b then sort_run f (CCtrl i)
               else if has_kind K_SHADER b then sort_run f (CNet i) ;; sset (s_texset b)
               else s_rd (fun st => match getb (st_gr st) i with Some b' => kids b' | None => [] end)
                       (fun l => s_foreach l sset))
          end)
      | CNet i =>                                             (* NifFile.cpp:354-363 *)
        s_rd (fun st => getb (st_gr st) i) (fun o =>
          match o with
          | None => s_skip
          | Some b =>
            s_foreach (s_extra b) sset ;;
            sset (s_ctrl b) ;;
            if_kind (s_ctrl b) K_CTRL (sort_run f (CCtrl (s_ctrl b)))
          end)
      | CAV i =>                                              (* NifFile.cpp:365-374 *)
        s_rd (fun st => getb (st_gr st) i) (fun o =>
          match o with
          | None => s_skip
          | Some b =>
            sort_run f (CNet i) ;;
            s_foreach (s_props b) sset ;;
            if_kind (s_coll b) K_COLL (sort_run f (CColl (s_coll b)))
          end)
      | CCtrl i =>                                            (* NifFile.cpp:376-416 *)
        s_rd (fun st => match getb (st_gr st) i with Some b => kids b | None => [] end) (fun l =>
          s_foreach l (fun index =>
            sset index ;;
            s_rd (fun st => getb (st_gr st) index) (fun o =>
              match o with
              | Some sq =>
                if has_kind K_SEQ sq then
                  s_foreach (s_cblocks sq) (fun cb =>
                    if_kind (fst cb) K_INTERP (sset (fst cb)) ;;
                    if_kind (snd cb) K_CTRL (sset (snd cb))) ;;
                  sset (s_textkey sq) ;;
                  notes (s_animnotes sq) ;;
                  s_foreach (s_animnotes_l sq) notes
                else s_skip
              | None => s_skip
              end)))
      | CColl i =>                                            (* NifFile.cpp:418-476 *)
        s_rd (fun st => getb (st_gr st) i) (fun o =>
          match o with
          | None => s_skip
          | Some b =>
            s_bracket i
              ((if has_kind K_CONSTRAINT b then s_foreach (s_entities b) coll_unvisited else s_skip) ;;
               (if has_kind K_CHAIN b
                then s_foreach (s_chained b) coll_unvisited ;; coll_unvisited (s_entA b) ;; coll_unvisited (s_entB b)
                else s_skip))
              (fun st => match getb (st_gr st) i with Some b' => kids b' | None => [] end)
              (fun l =>
                s_foreach l (fun id =>
                  s_rd (fun st => (getb (st_gr st) id, visited st id)) (fun p =>
                    match p with
                    | (Some cb, false) => if before_parent cb then sort_run f (CColl id) else s_skip
                    | _ => s_skip
                    end)))
              (fun l =>
                s_foreach l (fun id =>
                  s_rd (fun st => (getb (st_gr st) id, visited st id)) (fun p =>
                    match p with
                    | (Some cb, false) => if before_parent cb then s_skip else sort_run f (CColl id)
                    | _ => s_skip
                    end)))
          end)
      | CShape i =>                                           (* NifFile.cpp:475-500 *)
        s_rd (fun st => getb (st_gr st) i) (fun o =>
          match o with
          | None => s_skip
          | Some b =>
            sort_run f (CAV i) ;;
            sset (s_gdata b) ;;
            sset (s_skin b) ;;
            s_rd (fun st => getb (st_gr st) (s_skin b)) (fun o =>
              match o with
              | Some sk => if has_kind K_NISKIN sk then sset (s_skdata sk) ;; sset (s_skpart sk) else s_skip
              | None => s_skip
              end) ;;
            s_rd (fun st => getb (st_gr st) (s_skin b)) (fun o =>
              match o with
              | Some sk => if has_kind K_BSSKIN sk then sset (s_bsdata sk) else s_skip
              | None => s_skip
              end) ;;
            sset (s_shader b) ;;
            sset (s_alpha b) ;;
            s_rd (fun st => match getb (st_gr st) i with Some b' => kids b' | None => [] end)
               (fun l => s_foreach l sset)
          end)
      | CGraph i =>                                           (* NifFile.cpp:502-631 *)
        sort_run f (CAV i) ;;
        s_rd (fun st => getb (st_gr st) i) (fun o =>
          match o with
          | None => s_skip
          | Some b =>
            match s_children b with
            | [] => s_skip
            | _ :: _ =>
              (if has_kind K_ORDERED b then s_skip else pure_upd (rebuild_at i)) ;;
              s_rd (fun st => match getb (st_gr st) i with Some b' => kids b' | None => [] end)
                 (fun l => s_foreach l sset)
            end
          end)
      end
    end.

  (* the loop that completes the numbering (NifFile.cpp:269-275, 653-659) *)
  Definition leftover (n : nat) : s_act := s_foreach (map N.of_nat (seq 0 n)) assign.
End Run.

(* newIndices[i] = i for all i *)
Definition init_state (g : list sblock) (start : N) : sstate :=
  mkSt [] (map N.of_nat (seq 0 (length g))) start g.

(* GetParentNode(block i) != nullptr: some NiNode lists i as a child *)
Definition has_parent (g : list sblock) (i : N) : bool :=
  existsb (fun b => (has_kind K_NODE b && s_contains (s_children b) i)%bool) g.

(* indices of the blocks passing a class test, in block order (GetNodes, GetShapes) *)
Fixpoint indices_where (p : sblock -> bool) (i : N) (g : list sblock) : list N :=
  match g with
  | [] => []
  | b :: r => (if p b then [i] else []) ++ indices_where p (i + 1) r
  end.

(* ---- PrettySortBlocks: the index computation (NifFile.cpp:637-659) ---- *)
Definition pretty_indices (fuel : nat) (ob : bool) (g : list sblock) : res sstate :=
  (s_foreach (indices_where (has_kind K_NODE) 0 g) (fun i =>
     s_rd (fun st => has_parent (st_gr st) i) (fun p => if p then s_skip else sort_run ob [] fuel (CSet i))) ;;
   leftover (length g)) (init_state g 0).

(* ---- SetBlockOrder on the sorter's blocks: the same scatter loop as GraphModel.set_block_order,
        and every reference slot remapped (the structured fields are some of the GetChildRefs /
        GetPtrs slots) ---- *)
Definition reorder_g (order : list N) (g : list sblock) : res (list sblock) :=
  if negb (vlen order =? vlen g) then Ok g
  else
    bind (scatter (S (length order)) (vlen g) order g (repeat None (length g)) 0) (fun nbl =>
      match all_some nbl with
      | None => Fault
      | Some bl => Ok (map (map_refs (remap_ref order)) bl)
      end).

Record smodel := mkSM {
  sm_g : list sblock;
  sm_ob : bool;          (* version is OB or FO3 *)
  sm_unk : bool          (* hasUnknown *)
}.

Definition with_g (m : smodel) (g : list sblock) : smodel := mkSM g (sm_ob m) (sm_unk m).

Definition pretty_sort (fuel : nat) (m : smodel) : res smodel :=
  if sm_unk m then Ok m
  else match sm_g m with
       | [] => Ok m
       | _ :: _ =>
         bind (pretty_indices fuel (sm_ob m) (sm_g m)) (fun st =>
         bind (reorder_g (st_nidx st) (st_gr st)) (fun g' => Ok (with_g m g')))
       end.

(* ---- SetShapeOrder (NifFile.cpp:241-278) ---- *)
(* FindBlockByName<NiShape>(s): the first shape whose name is s *)
Fixpoint find_shape (g : list sblock) (i : N) (name : N) : option N :=
  match g with
  | [] => None
  | b :: r => if (has_kind K_SHAPE b && (s_name b =? name))%bool then Some i else find_shape r (i + 1) name
  end.

(* GetRootNode: block 0 when it is a node, else the first node *)
Definition root_node (g : list sblock) : option N :=
  match indices_where (has_kind K_NODE) 0 g with
  | [] => None
  | i :: _ => Some i
  end.

Definition shape_ids (g : list sblock) (names : list N) : list N :=
  flat_map (fun s => match find_shape g 0 s with Some i => [i] | None => [] end) names.

Definition shape_order_indices (fuel : nat) (ob : bool) (names : list N) (g : list sblock) : res sstate :=
  let rso := shape_ids g names in
  match root_node g with
  | Some r =>
    (* SetSortIndices(GetBlockID(root), sortState); the counter stays 0 *)
    (sort_run ob rso fuel (CSet r) ;; leftover (length g)) (init_state g 0)
  | None => leftover (length g) (init_state g 0)
  end.

Definition set_shape_order (fuel : nat) (names : list N) (m : smodel) : res smodel :=
  if sm_unk m then Ok m
  else match names with
       | [] => Ok m
       | _ :: _ =>
         if negb (vlen names =? vlen (indices_where (has_kind K_SHAPE) 0 (sm_g m))) then Ok m
         else
           bind (shape_order_indices fuel (sm_ob m) names (sm_g m)) (fun st =>
           bind (reorder_g (st_nidx st) (st_gr st)) (fun g' => Ok (with_g m g')))
       end.

(* ---- DeleteUnreferencedBlocks<NiObject> (Optimize without the bounds update) ---- *)
(* BlockDeleted on every slot of the sorter's view *)
Definition delete_g (g : list sblock) (id : N) : res (list sblock) :=
  if id =? NPOS then Ok g
  else match verase g id with
       | Some g' => Ok (map (map_refs (shift_ref id)) g')
       | None => Fault
       end.

Definition g_referenced (g : list sblock) (id : N) : bool :=
  if id =? NPOS then false
  else existsb (fun b => existsb (N.eqb id) (s_children b ++ s_crefs b ++ s_ptrs b)) g.

Fixpoint first_unref_g (g : list sblock) (root : N) (i : N) (bl : list sblock) : option N :=
  match bl with
  | [] => None
  | b :: r => if (negb (i =? root) && negb (g_referenced g i))%bool then Some i
              else first_unref_g g root (i + 1) r
  end.

Fixpoint prune_g (fuel : nat) (g : list sblock) (root : N) : res (list sblock) :=
  match fuel with
  | O => OutOfFuel
  | S f =>
    if root =? NPOS then Ok g
    else match first_unref_g g root 0 g with
         | None => Ok g
         | Some i => bind (delete_g g i) (fun g' => prune_g f g' (if i <? root then root - 1 else root))
         end
  end.

Definition optimize_m (m : smodel) : res smodel :=
  if sm_unk m then Ok m
  else
    (* GetBlockID(GetRootNode()): NPOS without a node *)
    let root := match root_node (sm_g m) with Some r => r | None => NPOS end in
    bind (prune_g (S (length (sm_g m))) (sm_g m) root) (fun g' => Ok (with_g m g')).

(* Save with default options: Optimize, then PrettySortBlocks (FinalizeData and the bounds update
   are outside this model) *)
Definition default_save (fuel : nat) (m : smodel) : res smodel :=
  bind (optimize_m m) (pretty_sort fuel).
