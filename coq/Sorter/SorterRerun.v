(* Running PrettySortBlocks' index computation again on the graph it leaves behind (child arrays
   rebuilt, blocks not yet permuted) gives the same order and rebuilds nothing; with
   SorterIdemFull.sort_idem_canonical this is idempotence of the whole sort for every graph. *)
From NiflyVerif Require Import Res CompactProofs GraphModel GraphInv GraphDelete GraphAdd GraphOrder
  SorterModel SorterInv SorterChildren SorterIdem SorterSort SorterRename SorterIdemFull.
From Coq Require Import ZifyBool ZifyNat ZifyN Permutation.
Local Open Scope N_scope.

(* ---- a visited block is only ever changed by the SortGraph call on it ---- *)
Definition frozen_at (i : N) (b0 : option sblock) (st : sstate) : Prop :=
  visited st i = true /\ getb (st_gr st) i = b0.

Definition preservesp (P : sstate -> Prop) (a : s_act) (st : sstate) : Prop :=
  forall st', a st = Ok st' -> P st -> P st'.

Lemma pres_rd_p {A} (P : sstate -> Prop) (rf : sstate -> A) k :
  (forall st, P st -> preservesp P (k (rf st)) st) -> preserves P (s_rd rf k).
Proof. intros H st st' E HP. unfold s_rd in E. exact (H st HP st' E HP). Qed.

Lemma getb_vset_other g g' i j (x : sblock) : vset g i x = Some g' -> j <> i -> getb g' j = getb g j.
Proof.
  intros H Hne. unfold getb. unfold vlen. rewrite (vset_len _ _ _ _ H). rewrite (vget_vset _ _ _ _ _ H).
  destruct (N.eqb_spec j i); [contradiction|reflexivity].
Qed.

Lemma rebuild_at_other ob rso j st i : j <> i -> getb (st_gr (rebuild_at ob rso j st)) i = getb (st_gr st) i.
Proof.
  intros Hne. unfold rebuild_at, set_children. destruct (getb (st_gr st) j) as [b|]; [|reflexivity].
  destruct (vset (st_gr st) j _) as [g'|] eqn:E; [|reflexivity]. cbn [st_gr]. eapply getb_vset_other; eauto.
Qed.

Lemma rebuild_at_visited ob rso j st i : visited (rebuild_at ob rso j st) i = visited st i.
Proof. unfold visited. destruct (rebuild_at_fields ob rso j st) as (-> & _). reflexivity. Qed.

Lemma frozen_assign i b0 x : preserves (frozen_at i b0) (assign x).
Proof.
  intros st st' H (V & G). split; [apply (vis_at_assign i x _ _ H V)|]. rewrite (assign_gr _ _ _ H). exact G.
Qed.

Lemma frozen_mark i b0 x st : frozen_at i b0 st -> frozen_at i b0 (s_mark x st).
Proof. intros (V & G). split; [|exact G]. unfold visited in *. cbn [s_mark st_vis existsb]. rewrite V. apply orb_true_r. Qed.

Lemma frozen_index i b0 x : preserves (frozen_at i b0) (s_set_index x).
Proof.
  intros st st' H (V & G). unfold s_set_index in H. destruct (vset _ _ _); [|discriminate]. inversion H; subst st'. split; assumption.
Qed.

Lemma frozen_rebuild ob rso i b0 j st : j <> i -> frozen_at i b0 st -> frozen_at i b0 (rebuild_at ob rso j st).
Proof. intros Hne (V & G). split; [rewrite rebuild_at_visited; exact V|rewrite rebuild_at_other by exact Hne; exact G]. Qed.

Lemma frozen_bracket {A} i b0 x pre (rdf : sstate -> A) before after :
  preserves (frozen_at i b0) pre -> (forall l, preserves (frozen_at i b0) (before l)) ->
  (forall l, preserves (frozen_at i b0) (after l)) ->
  preserves (frozen_at i b0) (s_bracket x pre rdf before after).
Proof.
  intros Hp Hb Ha.
  apply (pres_bracket (fun _ : list N => frozen_at i b0) (fun _ y st H _ => frozen_mark i b0 y st H)
           (fun _ y st st' H E => frozen_index i b0 y st st' E H) []); auto.
Qed.

Lemma preservesp_of P a st : preserves P a -> preservesp P a st.
Proof. intros H st' E HP. eapply H; eauto. Qed.

Ltac frz IH Hne :=
  repeat match goal with
  | |- preserves _ (sort_run _ _ _ (CGraph _)) => apply IH; intros ? [=]; subst; exact Hne
  | |- preserves _ (sort_run _ _ _ _) => apply IH; intros ? [=]
  | |- preserves _ s_skip => apply pres_skip
  | |- preserves _ (assign _) => apply frozen_assign
  | |- preserves _ (s_set_index _) => apply frozen_index
  | |- preserves _ (seq2 _ _) => apply pres_seq
  | |- preserves _ (s_foreach _ _) => apply pres_foreach; intros
  | |- preserves _ (s_rd _ _) => apply pres_rd; intros
  | |- preserves _ (pure_upd _) => apply pres_pure; intros; apply frozen_rebuild; [exact Hne|assumption]
  | |- preserves _ (s_bracket _ _ _ _ _) => apply frozen_bracket; intros
  | |- preserves _ (match ?x with _ => _ end) => destruct x
  end.

Theorem run_frozen ob rso : forall fuel c i b0, (forall j, c = CGraph j -> j <> i) ->
  preserves (frozen_at i b0) (sort_run ob rso fuel c).
Proof.
  induction fuel as [|f IH]; intros c i b0 Hc; [intros st st' H; discriminate|].
  destruct c as [x|x|x|x|x|x|x]; cbn [sort_run].
  - apply pres_rd_p. intros st (V & G).
    destruct (getb (st_gr st) x) as [b|]; [|apply preservesp_of, pres_skip].
    destruct (visited st x) eqn:Vx; [apply preservesp_of, pres_skip|].
    assert (Hne : x <> i) by (intros ->; congruence).
    apply preservesp_of. frz IH Hne.
  - assert (Hne : True) by exact I. frz IH Hne.
  - assert (Hne : True) by exact I. frz IH Hne.
  - assert (Hne : True) by exact I. frz IH Hne.
  - assert (Hne : True) by exact I. frz IH Hne.
  - assert (Hne : True) by exact I. frz IH Hne.
  - assert (Hne : x <> i) by (apply Hc; reflexivity). frz IH Hne.
Qed.

(* SortCollision never rebuilds the block it is called on, visited or not *)
Lemma coll_frozen ob rso fuel x st st' b :
  sort_run ob rso fuel (CColl x) st = Ok st' -> getb (st_gr st) x = Some b -> frozen_at x (Some b) st'.
Proof.
  destruct fuel as [|f]; [discriminate|]. intros H Hb. cbn [sort_run] in H. unfold s_rd at 1 in H. rewrite Hb in H.
  unfold s_bracket in H. assert (Hne : True) by exact I.
  pose proof (run_frozen ob rso f) as IH.
  destruct (visited st x) eqn:V.
  - assert (H0 : frozen_at x (Some b) st) by (split; assumption).
    match type of H with ?a st = Ok st' => assert (HP : preserves (frozen_at x (Some b)) a) by (frz IH Hne) end.
    exact (HP _ _ H H0).
  - assert (H0 : frozen_at x (Some b) (s_mark x st)).
    { split; [unfold visited; cbn [s_mark st_vis existsb]; rewrite N.eqb_refl; reflexivity|exact Hb]. }
    match type of H with ?a (s_mark x st) = Ok st' => assert (HP : preserves (frozen_at x (Some b)) a) by (frz IH Hne) end.
    exact (HP _ _ H H0).
Qed.

(* ---- the rebuild looks at the graph only through kinds, presence and emptiness of child arrays ---- *)
Definition geq (gA gB : list sblock) : Prop :=
  forall y, match getb gA y, getb gB y with
            | Some a, Some b => (forall k, has_kind k a = has_kind k b) /\ (s_children a = [] <-> s_children b = [])
            | None, None => True
            | _, _ => False
            end.

Lemma geq_kind gA gB y k : geq gA gB -> kind_at gA y k = kind_at gB y k.
Proof. intros H. specialize (H y). unfold kind_at. destruct (getb gA y), (getb gB y); try contradiction; [apply H|reflexivity]. Qed.

Lemma geq_count gA gB y : geq gA gB -> (0 <? child_count gA y) = (0 <? child_count gB y).
Proof.
  intros H. specialize (H y). unfold child_count. destruct (getb gA y) as [a|], (getb gB y) as [b|]; try contradiction; [|reflexivity].
  destruct H as (_ & He). destruct (s_children a) as [|c l], (s_children b) as [|c' l']; try reflexivity.
  - destruct He as (He & _). specialize (He eq_refl). discriminate.
  - destruct He as (_ & He). specialize (He eq_refl). discriminate.
Qed.

Lemma add_missing_geq gA gB : geq gA gB -> forall ch acc, add_missing gA ch acc = add_missing gB ch acc.
Proof.
  intros H. induction ch as [|x ch IH]; intros acc; cbn [add_missing]; [reflexivity|].
  pose proof (H x) as Hx. destruct (getb gA x), (getb gB x); try contradiction; rewrite !IH; reflexivity.
Qed.

Lemma rebuild_geq ob rso r gA gB ch : geq gA gB -> rebuild ob rso r gA ch = rebuild ob rso r gB ch.
Proof.
  intros H. unfold rebuild.
  rewrite (filter_ext (node_first ob gA) (node_first ob gB)).
  2:{ intros y. unfold node_first. rewrite (geq_kind gA gB y K_NODE H), (geq_count gA gB y H). reflexivity. }
  rewrite (filter_ext (fun x => kind_at gA x K_SHAPE) (fun x => kind_at gB x K_SHAPE)) by (intros y; apply geq_kind; exact H).
  rewrite (add_missing_geq gA gB H). reflexivity.
Qed.

Lemma vset_same {A} (v : list A) i x : vget v i = Some x -> vset v i x = Some v.
Proof.
  intros H. pose proof (vget_some_lt' _ _ _ H) as Hlt. destruct (vset_ok v i x Hlt) as (v' & Hv). rewrite Hv. f_equal.
  apply vget_ext. intros j. rewrite (vget_vset _ _ _ _ _ Hv). destruct (N.eqb_spec j i) as [->|]; [symmetry; exact H|reflexivity].
Qed.

Lemma with_children_same b : with_children b (s_children b) = b.
Proof. destruct b; reflexivity. Qed.

Definition node_excl (g : list sblock) : Prop :=
  Forall (fun b => has_kind K_NODE b = true ->
            has_kind K_SHAPE b = false /\ has_kind K_COLL b = false /\ has_kind K_CTRL b = false) g.

Section Rerun.
  Variable ob : bool.
  Variables g g1 : list sblock.
  Hypothesis Hrange : refs_in_range g.
  Hypothesis Hexcl : node_excl g.
  Hypothesis HG1 : grel g g1.

  Definition hat (s : sstate) : sstate := mkSt (st_vis s) (st_nidx s) (st_next s) g1.

  Definition clean (s : sstate) (i : N) : Prop := getb (st_gr s) i = getb g1 i.
  Definition dirty (s : sstate) (i : N) : Prop :=
    exists b, getb (st_gr s) i = Some b /\ has_kind K_NODE b = true /\ has_kind K_ORDERED b = false /\
              s_children b <> [] /\
              getb g1 i = Some (with_children b (rebuild ob [] (i =? 0) g1 (s_children b))).

  Definition IA (D : list N) (s : sstate) : Prop :=
    grel g (st_gr s) /\ (forall i, In i D -> visited s i = true) /\
    forall i, clean s i \/ ((In i D \/ visited s i = false) /\ dirty s i).

  Definition Fin (D : list N) (s : sstate) : Prop :=
    forall i, visited s i = true -> ~ In i D -> clean s i.

  Lemma excl_shape : node_shape_excl g.
  Proof. unfold node_shape_excl, node_excl in *. eapply Forall_impl; [|exact Hexcl]. intros b H Hn. apply H, Hn. Qed.

  Lemma excl_kind i : kind_at g i K_NODE = true ->
    kind_at g i K_SHAPE = false /\ kind_at g i K_COLL = false /\ kind_at g i K_CTRL = false.
  Proof.
    unfold kind_at. destruct (getb g i) as [b|] eqn:E; [|discriminate]. intros Hn.
    apply getb_some in E. destruct E as (_ & _ & E). apply in_vget in E.
    unfold node_excl in Hexcl. rewrite Forall_forall in Hexcl. apply Hexcl; assumption.
  Qed.

  Lemma IA_kind D s i k : IA D s -> kind_at (st_gr s) i k = kind_at g i k.
  Proof. intros (HG & _). apply grel_kind. exact HG. Qed.

  Lemma g1_kind i k : kind_at g1 i k = kind_at g i k.
  Proof. apply grel_kind. exact HG1. Qed.

  (* a block of the current graph and the same block of the final graph *)
  Lemma IA_getb D s i : IA D s ->
    match getb (st_gr s) i, getb g1 i with
    | Some b, Some b1 => b1 = with_children b (s_children b1) /\ (s_children b = [] <-> s_children b1 = []) /\
                         (forall k, has_kind k b = kind_at g i k)
    | None, None => True
    | _, _ => False
    end.
  Proof.
    intros (HG & _). pose proof (grel_getb g (st_gr s) i HG) as R. pose proof (grel_getb g g1 i HG1) as R1.
    destruct (getb g i) as [b0|] eqn:E0; destruct (getb (st_gr s) i) as [b|]; try contradiction;
      destruct (getb g1 i) as [b1|]; try contradiction; [|exact I].
    destruct R as (Rs & (Rin & _)). destruct R1 as (R1s & (R1in & _)).
    split; [unfold same_but_children in *; rewrite R1s, Rs; destruct b0; reflexivity|]. split.
    - split; intros E.
      + destruct (s_children b1) as [|c l] eqn:E1; [reflexivity|exfalso].
        assert (Hc : In c (s_children b)) by (apply Rin, R1in; left; reflexivity). rewrite E in Hc. destruct Hc.
      + destruct (s_children b) as [|c l] eqn:E1; [reflexivity|exfalso].
        assert (Hc : In c (s_children b1)) by (apply R1in, Rin; left; reflexivity). rewrite E in Hc. destruct Hc.
    - intros k. unfold kind_at. rewrite E0. apply same_but_kind. exact Rs.
  Qed.

  Lemma dirty_node D s i : IA D s -> dirty s i -> kind_at g i K_NODE = true.
  Proof.
    intros HI (b & Hb & Kn & _). pose proof (IA_getb D s i HI) as R. rewrite Hb in R.
    destruct (getb g1 i); [|contradiction]. destruct R as (_ & _ & Hk). rewrite <- Hk. exact Kn.
  Qed.

  Lemma IA_clean_nonnode D s i : IA D s -> kind_at g i K_NODE = false -> clean s i.
  Proof.
    intros HI Hk. destruct HI as (HG & HD & Hall). destruct (Hall i) as [Hc|(_ & Hd)]; [exact Hc|].
    pose proof (dirty_node D s i (conj HG (conj HD Hall)) Hd). congruence.
  Qed.

  Lemma IA_clean_visited D s i : IA D s -> visited s i = true -> ~ In i D -> clean s i.
  Proof. intros (_ & _ & Hall) V Hn. destruct (Hall i) as [Hc|([Hc|Hc] & _)]; [exact Hc|contradiction|congruence]. Qed.

  (* ---- simulation of the run on the current graph by the run on the final graph ---- *)
  Definition CAp (D D' : list N) (a a' : s_act) (s : sstate) : Prop :=
    forall s', a s = Ok s' -> Fin D' s' -> a' (hat s) = Ok (hat s') /\ IA D' s'.
  Definition CA2 (D D' : list N) (a a' : s_act) : Prop := forall s, IA D s -> CAp D D' a a' s.
  Definition frzD (D : list N) (b : s_act) : Prop := forall i b0, ~ In i D -> preserves (frozen_at i b0) b.

  Lemma fin_back D b s s' : frzD D b -> b s = Ok s' -> Fin D s' -> Fin D s.
  Proof.
    intros Hf E HF i V Hn. assert (H0 : frozen_at i (getb (st_gr s) i) s) by (split; [exact V|reflexivity]).
    destruct (Hf i _ Hn _ _ E H0) as (V' & G'). unfold clean in *. rewrite <- G'. apply HF; assumption.
  Qed.

  Lemma fin_weaken D D' s : Fin D s -> incl D D' -> Fin D' s.
  Proof. intros HF Hi i V Hn. apply HF; [exact V|]. intros Hc. apply Hn, Hi, Hc. Qed.

  Lemma ca_skip D : CA2 D D s_skip s_skip.
  Proof. intros s HI s' E _. inversion E; subst. split; [reflexivity|exact HI]. Qed.

  Lemma ca_seq D D1 D' a a' b b' : CA2 D D1 a a' -> CA2 D1 D' b b' -> frzD D1 b -> incl D' D1 ->
    CA2 D D' (a ;; b) (a' ;; b').
  Proof.
    intros Ha Hb Hf Hi s HI s' E HF. unfold seq2 in *.
    destruct (a s) as [s1| |] eqn:E1; cbn [bind] in E; try discriminate.
    assert (HF1 : Fin D1 s1) by (eapply fin_back; [exact Hf|exact E|]; eapply fin_weaken; eauto).
    destruct (Ha s HI s1 E1 HF1) as (E1' & HI1). rewrite E1'. cbn [bind]. exact (Hb s1 HI1 s' E HF).
  Qed.

  Lemma frz_skip D : frzD D s_skip.
  Proof. intros i b0 _. apply pres_skip. Qed.

  Lemma frz_seq D a b : frzD D a -> frzD D b -> frzD D (a ;; b).
  Proof. intros Ha Hb i b0 Hn. apply pres_seq; [apply Ha|apply Hb]; exact Hn. Qed.

  Lemma frz_foreach {A} D (l : list A) body : (forall x, frzD D (body x)) -> frzD D (s_foreach l body).
  Proof. intros H i b0 Hn. apply pres_foreach. intros x _. apply H. exact Hn. Qed.

  Lemma frz_rd {A} D (rf : sstate -> A) k : (forall x, frzD D (k x)) -> frzD D (s_rd rf k).
  Proof. intros H i b0 Hn. apply pres_rd. intros x. apply H. exact Hn. Qed.

  Lemma ca_foreach {A} D (l : list A) body body' :
    (forall x, In x l -> CA2 D D (body x) (body' x)) -> (forall x, frzD D (body x)) ->
    CA2 D D (s_foreach l body) (s_foreach l body').
  Proof.
    intros H Hf. induction l as [|x l IH]; cbn [s_foreach]; [apply ca_skip|].
    apply (ca_seq D D D); [apply H; left; reflexivity| |apply frz_foreach; exact Hf|apply incl_refl].
    apply IH. intros y Hy. apply H. right. exact Hy.
  Qed.

  Lemma ca_rd {A B} D D' (rf : sstate -> A) (rf' : sstate -> B) k k' :
    (forall s, IA D s -> CAp D D' (k (rf s)) (k' (rf' (hat s))) s) -> CA2 D D' (s_rd rf k) (s_rd rf' k').
  Proof. intros H s HI. unfold s_rd. apply H. exact HI. Qed.

  Definition frzAll (b : s_act) : Prop := forall i b0, preserves (frozen_at i b0) b.
  Lemma frzAll_D D b : frzAll b -> frzD D b.
  Proof. intros H i b0 _. apply H. Qed.

  (* ---- the primitive steps ---- *)
  Lemma hat_visited s x : visited (hat s) x = visited s x.
  Proof. reflexivity. Qed.

  Lemma assign_hat x s s' : assign x s = Ok s' -> assign x (hat s) = Ok (hat s').
  Proof.
    unfold assign. rewrite hat_visited. destruct (visited s x); [intros H; inversion H; reflexivity|].
    cbn [hat st_nidx st_next st_vis st_gr]. destruct (vset (st_nidx s) x (st_next s)); [|discriminate].
    intros H. inversion H. reflexivity.
  Qed.

  Lemma assign_visited x s s' i : assign x s = Ok s' -> visited s' i = ((i =? x) || visited s i)%bool.
  Proof.
    intros H. destruct (assign_cases _ _ _ H) as [(Hin & ->)|(_ & v & _ & ->)].
    - apply visited_in in Hin. destruct (N.eqb_spec i x) as [->|]; [rewrite Hin; reflexivity|reflexivity].
    - reflexivity.
  Qed.

  Lemma IA_same_graph D D' s s' : IA D s -> st_gr s' = st_gr s ->
    (forall i, In i D' -> visited s' i = true) ->
    (forall i, clean s i \/ ((In i D \/ visited s i = false) /\ dirty s i) ->
               clean s i \/ ((In i D' \/ visited s' i = false) /\ dirty s i)) ->
    IA D' s'.
  Proof.
    intros (HG & HD & Hall) Eg HD' Hstep. split; [rewrite Eg; exact HG|]. split; [exact HD'|].
    intros i. specialize (Hstep i (Hall i)). unfold clean, dirty in *. rewrite Eg. exact Hstep.
  Qed.

  Lemma ap_assign D x s : IA D s -> visited s x = true \/ clean s x -> CAp D D (assign x) (assign x) s.
  Proof.
    intros HI Hx s' E _. split; [apply assign_hat; exact E|].
    apply (IA_same_graph D D s s' HI (assign_gr _ _ _ E)).
    - intros i Hi. rewrite (assign_visited _ _ _ i E). destruct HI as (_ & HD & _). rewrite (HD i Hi). apply orb_true_r.
    - intros i [Hc|([Hd|Hv] & Hdirty)]; [left; exact Hc|right; split; [left; exact Hd|exact Hdirty]|].
      rewrite (assign_visited _ _ _ i E). destruct (N.eqb_spec i x) as [->|Hne].
      + destruct Hx as [Hx|Hx]; [congruence|left; exact Hx].
      + right. split; [right; exact Hv|exact Hdirty].
  Qed.

  Lemma ap_assign_node D x s s' : IA D s -> assign x s = Ok s' ->
    assign x (hat s) = Ok (hat s') /\ IA (x :: D) s'.
  Proof.
    intros HI E. split; [apply assign_hat; exact E|].
    apply (IA_same_graph D (x :: D) s s' HI (assign_gr _ _ _ E)).
    - intros i Hi. rewrite (assign_visited _ _ _ i E). destruct Hi as [->|Hi]; [rewrite N.eqb_refl; reflexivity|].
      destruct HI as (_ & HD & _). rewrite (HD i Hi). apply orb_true_r.
    - intros i [Hc|([Hd|Hv] & Hdirty)]; [left; exact Hc|right; split; [left; right; exact Hd|exact Hdirty]|].
      rewrite (assign_visited _ _ _ i E). right. split; [|exact Hdirty]. destruct (N.eqb_spec i x) as [->|Hne]; [left; left; reflexivity|right; exact Hv].
  Qed.

  Lemma mark_visited x s i : visited (s_mark x s) i = ((i =? x) || visited s i)%bool.
  Proof. reflexivity. Qed.

  Lemma IA_mark D x s : IA D s -> clean s x -> IA D (s_mark x s).
  Proof.
    intros HI Hx. apply (IA_same_graph D D s (s_mark x s) HI eq_refl).
    - intros i Hi. rewrite mark_visited. destruct HI as (_ & HD & _). rewrite (HD i Hi). apply orb_true_r.
    - intros i [Hc|([Hd|Hv] & Hdirty)]; [left; exact Hc|right; split; [left; exact Hd|exact Hdirty]|].
      rewrite mark_visited. destruct (N.eqb_spec i x) as [->|Hne]; [left; exact Hx|right; split; [right; exact Hv|exact Hdirty]].
  Qed.

  Lemma ap_set_index D x s s' : IA D s -> s_set_index x s = Ok s' -> s_set_index x (hat s) = Ok (hat s') /\ IA D s'.
  Proof.
    intros HI E. unfold s_set_index in *. cbn [hat st_nidx st_next st_vis st_gr].
    destruct (vset (st_nidx s) x (st_next s)) as [v|]; [|discriminate]. inversion E; subst s'. split; [reflexivity|].
    apply (IA_same_graph D D s _ HI eq_refl); [apply HI|]. intros i H. exact H.
  Qed.

  Lemma clean_kids s x : clean s x ->
    match getb (st_gr (hat s)) x with Some b' => kids b' | None => [] end =
    match getb (st_gr s) x with Some b' => kids b' | None => [] end.
  Proof. intros H. cbn [hat st_gr]. unfold clean in H. rewrite H. reflexivity. Qed.

  Lemma frozen_clean x s : frozen_at x (getb g1 x) s -> clean s x.
  Proof. intros (_ & H). exact H. Qed.

  (* ---- SortCollision's frame ---- *)
  Definition kids_at (x : N) (st : sstate) : list N :=
    match getb (st_gr st) x with Some b' => kids b' | None => [] end.

  Lemma ap_bracket_body D x pre pre' before before' mid mid' after after' s0 :
    CA2 D D pre pre' -> frzAll pre ->
    (forall l, CA2 D D (before l) (before' l)) -> (forall l, frzAll (before l)) ->
    CA2 D D mid mid' -> frzAll mid ->
    (forall l, CA2 D D (after l) (after' l)) -> (forall l, frzAll (after l)) ->
    IA D s0 -> frozen_at x (getb g1 x) s0 ->
    CAp D D (pre ;; s_rd (kids_at x) (fun l => before l ;; mid ;; after l))
            (pre' ;; s_rd (kids_at x) (fun l => before' l ;; mid' ;; after' l)) s0.
  Proof.
    intros Hp Hpf Hb Hbf Hm Hmf Ha Haf HI HZ s' E HF. unfold seq2 at 1 in E. unfold seq2 at 1.
    destruct (pre s0) as [s1| |] eqn:E1; cbn [bind] in E; try discriminate.
    assert (Htail : forall l, frzAll (before l ;; mid ;; after l)).
    { intros l i b0. apply pres_seq; [apply Hbf|apply pres_seq; [apply Hmf|apply Haf]]. }
    assert (HF1 : Fin D s1).
    { eapply (fin_back D _ s1 s'); [|exact E|exact HF]. apply frzAll_D. intros i b0. apply pres_rd. intros l. apply Htail. }
    destruct (Hp s0 HI s1 E1 HF1) as (E1' & HI1). rewrite E1'. cbn [bind].
    pose proof (Hpf x _ _ _ E1 HZ) as HZ1. unfold s_rd in *.
    assert (Hk : kids_at x (hat s1) = kids_at x s1) by (apply clean_kids, frozen_clean; exact HZ1).
    rewrite Hk.
    assert (HC : CA2 D D (before (kids_at x s1) ;; mid ;; after (kids_at x s1)) (before' (kids_at x s1) ;; mid' ;; after' (kids_at x s1))).
    { apply (ca_seq D D D); [apply Hb| |apply frzAll_D; intros i b0; apply pres_seq; [apply Hmf|apply Haf]|apply incl_refl].
      apply (ca_seq D D D); [exact Hm|apply Ha|apply frzAll_D, Haf|apply incl_refl]. }
    exact (HC s1 HI1 s' E HF).
  Qed.

  Lemma ca_set_index D x : CA2 D D (s_set_index x) (s_set_index x).
  Proof. intros s HI s' E _. apply ap_set_index; assumption. Qed.

  Lemma ap_bracket D x pre pre' before before' after after' s :
    CA2 D D pre pre' -> frzAll pre ->
    (forall l, CA2 D D (before l) (before' l)) -> (forall l, frzAll (before l)) ->
    (forall l, CA2 D D (after l) (after' l)) -> (forall l, frzAll (after l)) ->
    IA D s -> clean s x ->
    CAp D D (s_bracket x pre (kids_at x) before after) (s_bracket x pre' (kids_at x) before' after') s.
  Proof.
    intros Hp Hpf Hb Hbf Ha Haf HI Hx s' E HF. unfold s_bracket in *. rewrite hat_visited.
    destruct (visited s x) eqn:V.
    - apply (ap_bracket_body D x pre pre' before before' s_skip s_skip after after' s); auto.
      + apply ca_skip.
      + intros i b0. apply pres_skip.
      + split; [exact V|exact Hx].
    - change (s_mark x (hat s)) with (hat (s_mark x s)).
      apply (ap_bracket_body D x pre pre' before before' (s_set_index x) (s_set_index x) after after' (s_mark x s)); auto.
      + apply ca_set_index.
      + intros i b0. apply frozen_index.
      + apply IA_mark; assumption.
      + split; [rewrite mark_visited, N.eqb_refl; reflexivity|exact Hx].
  Qed.

  (* ---- the routines, one level of the recursion ---- *)
  Definition dpre (c : s_call) (D : list N) : list N := match c with CGraph i => i :: D | _ => D end.
  Definition cpre (c : s_call) (D : list N) (s : sstate) : Prop :=
    match c with
    | CCtrl i | CShape i => kind_at g i K_NODE = false
    | CColl i => kind_at g i K_NODE = false \/ visited s i = false
    | CGraph i => ~ In i D
    | _ => True
    end.

  Section Level.
    Variable f : nat.
    Notation run := (sort_run ob [] f).
    Hypothesis IH : forall c D s, IA (dpre c D) s -> cpre c D s -> CAp (dpre c D) D (run c) (run c) s.

    Lemma ih_set D x : CA2 D D (run (CSet x)) (run (CSet x)).
    Proof. intros s HI. apply (IH (CSet x) D s HI I). Qed.
    Lemma ih_net D x : CA2 D D (run (CNet x)) (run (CNet x)).
    Proof. intros s HI. apply (IH (CNet x) D s HI I). Qed.
    Lemma ih_av D x : CA2 D D (run (CAV x)) (run (CAV x)).
    Proof. intros s HI. apply (IH (CAV x) D s HI I). Qed.
    Lemma ih_ctrl D x : kind_at g x K_NODE = false -> CA2 D D (run (CCtrl x)) (run (CCtrl x)).
    Proof. intros Hk s HI. apply (IH (CCtrl x) D s HI Hk). Qed.
    Lemma ih_shape D x : kind_at g x K_NODE = false -> CA2 D D (run (CShape x)) (run (CShape x)).
    Proof. intros Hk s HI. apply (IH (CShape x) D s HI Hk). Qed.
    Lemma ih_coll D x : kind_at g x K_NODE = false -> CA2 D D (run (CColl x)) (run (CColl x)).
    Proof. intros Hk s HI. apply (IH (CColl x) D s HI (or_introl Hk)). Qed.

    Lemma frz_run c : (forall j, c <> CGraph j) -> frzAll (run c).
    Proof. intros H i b0. apply run_frozen. intros j E. exfalso. exact (H j E). Qed.

    Lemma nonnode_of k x : kind_at g x k = true -> k = K_COLL \/ k = K_CTRL \/ k = K_SHAPE -> kind_at g x K_NODE = false.
    Proof.
      intros Hk Hor. destruct (kind_at g x K_NODE) eqn:Hn; [|reflexivity].
      destruct (excl_kind x Hn) as (H1 & H2 & H3). destruct Hor as [E|[E|E]]; subst k; congruence.
    Qed.

    Lemma ca_if_kind D x k a a' : (kind_at g x k = true -> CA2 D D a a') ->
      CA2 D D (s_rd (fun st => kind_at (st_gr st) x k) (fun yes => if yes then a else s_skip))
              (s_rd (fun st => kind_at (st_gr st) x k) (fun yes => if yes then a' else s_skip)).
    Proof.
      intros H. apply ca_rd. intros s HI. cbn [hat st_gr]. rewrite g1_kind, (IA_kind D s x k HI).
      destruct (kind_at g x k) eqn:Hk; [apply H; [reflexivity|exact HI]|apply ca_skip; exact HI].
    Qed.

    Lemma ca_coll_unv D x :
      CA2 D D (s_rd (fun st => (getb (st_gr st) x, visited st x))
                 (fun p => match p with (Some _, false) => run (CColl x) | _ => s_skip end))
              (s_rd (fun st => (getb (st_gr st) x, visited st x))
                 (fun p => match p with (Some _, false) => run (CColl x) | _ => s_skip end)).
    Proof.
      apply ca_rd. intros s HI. rewrite hat_visited. cbn [hat st_gr].
      pose proof (IA_getb D s x HI) as R.
      destruct (getb (st_gr s) x) as [b|]; destruct (getb g1 x) as [b1|]; try contradiction; [|apply ca_skip; exact HI].
      destruct (visited s x) eqn:V; [apply ca_skip; exact HI|].
      apply (IH (CColl x) D s HI). right. exact V.
    Qed.

    Ltac fz := try apply frzAll_D; let i := fresh "i" in let b0 := fresh "b0" in
      intros i b0; let Hne := constr:(I) in frz (run_frozen ob [] f) Hne.

    Ltac nonnode :=
      match goal with
      | Hk : kind_at g ?x _ = true |- kind_at g ?x K_NODE = false =>
          apply (nonnode_of _ x Hk); auto
      | _ => assumption
      end.

    Ltac ca :=
      repeat match goal with
      | |- CA2 ?D ?D s_skip s_skip => apply ca_skip
      | |- CA2 ?D ?D (seq2 _ _) (seq2 _ _) => apply (ca_seq D D D); [ | |fz|apply incl_refl]
      | |- CA2 ?D ?D (s_foreach _ _) (s_foreach _ _) => apply ca_foreach; [intros|intros; fz]
      | |- CA2 _ _ (s_rd (fun st => kind_at (st_gr st) _ _) _) _ => apply ca_if_kind; intros
      | |- CA2 _ _ (s_rd (fun st => (getb (st_gr st) _, visited st _)) _) _ => apply ca_coll_unv
      | |- CA2 _ _ (sort_run _ _ _ (CSet _)) _ => apply ih_set
      | |- CA2 _ _ (sort_run _ _ _ (CNet _)) _ => apply ih_net
      | |- CA2 _ _ (sort_run _ _ _ (CAV _)) _ => apply ih_av
      | |- CA2 _ _ (sort_run _ _ _ (CCtrl _)) _ => apply ih_ctrl; nonnode
      | |- CA2 _ _ (sort_run _ _ _ (CShape _)) _ => apply ih_shape; nonnode
      | |- CA2 _ _ (sort_run _ _ _ (CColl _)) _ => apply ih_coll; nonnode
      | |- CA2 _ _ (if ?x then _ else _) _ => destruct x
      end.

    Ltac to_ca2 HI := match goal with |- CAp ?D ?D' ?a ?a' ?s => apply (fun H : CA2 D D' a a' => H s HI) end.

    Ltac wc := cbn [with_children s_kind s_extra s_ctrl s_props s_coll s_children s_gdata s_skin s_shader s_alpha
      s_skdata s_skpart s_bsdata s_texset s_cblocks s_textkey s_animnotes s_animnotes_l s_notes s_entities s_chained
      s_entA s_entB s_kpre s_kpost].

    Lemma has_kind_wc k b ch : has_kind k (with_children b ch) = has_kind k b.
    Proof. reflexivity. Qed.

    (* reading block x: the final graph holds the same block up to its child array *)
    Ltac rd_block D s x HI b b1 R :=
      cbn [hat st_gr]; pose proof (IA_getb D s x HI) as R;
      destruct (getb (st_gr s) x) as [b|]; destruct (getb g1 x) as [b1|]; try contradiction; [|apply ca_skip; exact HI].

    Ltac ca' :=
      repeat (ca; match goal with
      | |- CA2 ?D ?D (s_rd (fun st => getb (st_gr st) ?x) _) _ =>
          let s := fresh "s" in let HI := fresh "HI" in let b := fresh "b" in let b1 := fresh "b1" in let R := fresh "R" in
          apply ca_rd; intros s HI; rd_block D s x HI b b1 R; destruct R as (R & _ & _); try rewrite R; wc;
          rewrite ?has_kind_wc; to_ca2 HI; clear R HI s
      | |- CA2 ?D ?D (s_rd (fun st => match getb (st_gr st) ?x with Some b' => kids b' | None => [] end) _) _ =>
          let s := fresh "s" in let HI := fresh "HI" in
          apply ca_rd; intros s HI; rewrite (clean_kids s x) by (eapply IA_clean_nonnode; eauto); to_ca2 HI; clear HI
      | |- CA2 _ _ (match ?x with _ => _ end) _ => destruct x
      end).

    Lemma lvl_net D x : CA2 D D (sort_run ob [] (S f) (CNet x)) (sort_run ob [] (S f) (CNet x)).
    Proof.
      cbn [sort_run]. apply ca_rd. intros s HI. rd_block D s x HI b b1 R.
      destruct R as (Rb & _ & _). rewrite Rb. wc. to_ca2 HI. ca.
    Qed.

    Lemma lvl_av D x : CA2 D D (sort_run ob [] (S f) (CAV x)) (sort_run ob [] (S f) (CAV x)).
    Proof.
      cbn [sort_run]. apply ca_rd. intros s HI. rd_block D s x HI b b1 R.
      destruct R as (Rb & _ & _). rewrite Rb. wc. to_ca2 HI. ca.
    Qed.

    Lemma lvl_ctrl D x : kind_at g x K_NODE = false ->
      CA2 D D (sort_run ob [] (S f) (CCtrl x)) (sort_run ob [] (S f) (CCtrl x)).
    Proof.
      intros Hk. cbn [sort_run]. apply ca_rd. intros s HI.
      rewrite (clean_kids s x) by (eapply IA_clean_nonnode; eauto). to_ca2 HI. ca'.
    Qed.

    Lemma lvl_shape D x : kind_at g x K_NODE = false ->
      CA2 D D (sort_run ob [] (S f) (CShape x)) (sort_run ob [] (S f) (CShape x)).
    Proof. intros Hk. cbn [sort_run]. ca'. Qed.

    Lemma before_parent_wc b ch : before_parent (with_children b ch) = before_parent b.
    Proof. reflexivity. Qed.

    Lemma ca_kid_before D x :
      CA2 D D (s_rd (fun st => (getb (st_gr st) x, visited st x))
                 (fun p => match p with (Some cb, false) => if before_parent cb then run (CColl x) else s_skip | _ => s_skip end))
              (s_rd (fun st => (getb (st_gr st) x, visited st x))
                 (fun p => match p with (Some cb, false) => if before_parent cb then run (CColl x) else s_skip | _ => s_skip end)).
    Proof.
      apply ca_rd. intros s HI. rewrite hat_visited. cbn [hat st_gr].
      pose proof (IA_getb D s x HI) as R.
      destruct (getb (st_gr s) x) as [b|]; destruct (getb g1 x) as [b1|]; try contradiction; [|apply ca_skip; exact HI].
      destruct R as (R & _ & _). rewrite R, before_parent_wc.
      destruct (visited s x) eqn:V; [apply ca_skip; exact HI|].
      destruct (before_parent b); [|apply ca_skip; exact HI].
      apply (IH (CColl x) D s HI). right. exact V.
    Qed.

    Lemma ca_kid_after D x :
      CA2 D D (s_rd (fun st => (getb (st_gr st) x, visited st x))
                 (fun p => match p with (Some cb, false) => if before_parent cb then s_skip else run (CColl x) | _ => s_skip end))
              (s_rd (fun st => (getb (st_gr st) x, visited st x))
                 (fun p => match p with (Some cb, false) => if before_parent cb then s_skip else run (CColl x) | _ => s_skip end)).
    Proof.
      apply ca_rd. intros s HI. rewrite hat_visited. cbn [hat st_gr].
      pose proof (IA_getb D s x HI) as R.
      destruct (getb (st_gr s) x) as [b|]; destruct (getb g1 x) as [b1|]; try contradiction; [|apply ca_skip; exact HI].
      destruct R as (R & _ & _). rewrite R, before_parent_wc.
      destruct (visited s x) eqn:V; [apply ca_skip; exact HI|].
      destruct (before_parent b); [apply ca_skip; exact HI|].
      apply (IH (CColl x) D s HI). right. exact V.
    Qed.

    Lemma lvl_coll D x s : IA D s -> kind_at g x K_NODE = false \/ visited s x = false ->
      CAp D D (sort_run ob [] (S f) (CColl x)) (sort_run ob [] (S f) (CColl x)) s.
    Proof.
      intros HI Hx s' E HF.
      assert (Hc : clean s x).
      { destruct Hx as [Hk|V]; [eapply IA_clean_nonnode; eauto|].
        pose proof (IA_getb D s x HI) as R. unfold clean.
        destruct (getb (st_gr s) x) as [b|] eqn:Eb; destruct (getb g1 x) as [b1|] eqn:Eb1; try contradiction; [|reflexivity].
        destruct (coll_frozen ob [] (S f) x s s' b E Eb) as (V' & G').
        assert (Hn : ~ In x D) by (intros Hin; destruct HI as (_ & HD & _); rewrite (HD x Hin) in V; discriminate).
        pose proof (HF x V' Hn) as Hc'. unfold clean in Hc'. rewrite G', Eb1 in Hc'. exact Hc'. }
      cbn [sort_run] in E |- *. unfold s_rd at 1 in E. unfold s_rd at 1. change (st_gr (hat s)) with g1.
      pose proof Hc as Hc2. unfold clean in Hc2. rewrite <- Hc2.
      destruct (getb (st_gr s) x) as [b|]; [|inversion E; subst s'; split; [reflexivity|exact HI]].
      revert s' E HF. apply (ap_bracket D x); try exact HI; try exact Hc.
      - ca.
      - fz.
      - intros l. apply ca_foreach; [intros; apply ca_kid_before|intros; fz].
      - intros l. fz.
      - intros l. apply ca_foreach; [intros; apply ca_kid_after|intros; fz].
      - intros l. fz.
    Qed.

    (* ---- SortGraph's rebuild step ---- *)
    Lemma IA_geq D s : IA D s -> geq (st_gr s) g1.
    Proof.
      intros HI y. pose proof (IA_getb D s y HI) as R.
      destruct (getb (st_gr s) y) as [b|]; destruct (getb g1 y) as [b1|]; try contradiction; [|exact I].
      destruct R as (R & He & _). split; [intros k; rewrite R; reflexivity|exact He].
    Qed.

    Lemma rebuild_noop_hat x b1 s : getb g1 x = Some b1 ->
      rebuild ob [] (x =? 0) g1 (s_children b1) = s_children b1 -> rebuild_at ob [] x (hat s) = hat s.
    Proof.
      intros Hb Hr. unfold rebuild_at, set_children, children_of. cbn [hat st_gr]. rewrite Hb, Hr, with_children_same.
      apply getb_some in Hb. destruct Hb as (_ & _ & Hb). rewrite (vset_same _ _ _ Hb). reflexivity.
    Qed.

    Lemma IA_drop D x s : IA (x :: D) s -> clean s x -> IA D s.
    Proof.
      intros (HG & HD & Hall) Hx. split; [exact HG|]. split; [intros i Hi; apply HD; right; exact Hi|].
      intros i. destruct (N.eq_dec i x) as [->|Hne]; [left; exact Hx|].
      destruct (Hall i) as [Hc|([[Hc|Hc]|Hc] & Hd)]; [left; exact Hc|congruence|right; split; [left; exact Hc|exact Hd]|right; split; [right; exact Hc|exact Hd]].
    Qed.

    Lemma g1_excl y : kind_at g1 y K_NODE = true -> kind_at g1 y K_SHAPE = false.
    Proof. rewrite !g1_kind. intros H. apply (excl_kind y H). Qed.

    Lemma rebuild_step D x s b : IA (x :: D) s -> ~ In x D -> getb (st_gr s) x = Some b ->
      Fin D (rebuild_at ob [] x s) ->
      rebuild_at ob [] x (hat s) = hat (rebuild_at ob [] x s) /\ IA D (rebuild_at ob [] x s).
    Proof.
      intros HI Hn Hb HF. set (s_b := rebuild_at ob [] x s) in *.
      destruct (rebuild_at_fields ob [] x s) as (F1 & F2 & F3). fold s_b in F1, F2, F3.
      assert (Hhat : hat s_b = hat s) by (unfold hat; rewrite F1, F2, F3; reflexivity).
      assert (Vx : visited s_b x = true).
      { unfold s_b. rewrite rebuild_at_visited. destruct HI as (_ & HD & _). apply HD. left. reflexivity. }
      pose proof (HF x Vx Hn) as Hcb.
      pose proof (IA_geq _ _ HI) as Hgeq.
      (* the block after the rebuild *)
      assert (Hi : x < vlen (st_gr s)) by (apply getb_some in Hb; apply Hb).
      set (ch' := rebuild ob [] (x =? 0) (st_gr s) (s_children b)).
      destruct (vset_ok (st_gr s) x (with_children b ch') Hi) as (g' & Hg').
      assert (Hsb : st_gr s_b = g').
      { unfold s_b, rebuild_at, set_children, children_of. rewrite Hb. fold ch'. rewrite Hg'. reflexivity. }
      assert (Hbx : getb (st_gr s_b) x = Some (with_children b ch')).
      { rewrite Hsb. unfold getb. apply getb_some in Hb. destruct Hb as (Hx1 & _ & _).
        destruct (N.eqb_spec x NPOS); [contradiction|]. unfold vlen. rewrite (vset_len _ _ _ _ Hg'). fold (vlen (st_gr s)).
        destruct (N.ltb_spec x (vlen (st_gr s))); [|lia]. rewrite (vget_vset _ _ _ _ _ Hg'), N.eqb_refl. reflexivity. }
      unfold clean in Hcb. rewrite Hbx in Hcb.
      split.
      - rewrite Hhat. destruct HI as (HG & HD & Hall). destruct (Hall x) as [Hc|(_ & (b' & Hb' & _ & _ & _ & Hd))].
        + unfold clean in Hc. rewrite Hb in Hc. rewrite <- Hc in Hcb. inversion Hcb as [Hcc].
          assert (Hch : s_children (with_children b ch') = s_children b) by (rewrite Hcc; reflexivity).
          cbn [with_children s_children] in Hch.
          apply (rebuild_noop_hat x b s (eq_sym Hc)). unfold ch' in Hch. rewrite <- (rebuild_geq ob [] (x =? 0) _ _ (s_children b) Hgeq). exact Hch.
        + rewrite Hb in Hb'. inversion Hb'; subst b'.
          apply (rebuild_noop_hat x _ s Hd). cbn [with_children s_children]. apply rebuild_fixed_point. exact g1_excl.
      - destruct HI as (HG & HD & Hall). split; [apply rebuild_at_grel; [exact Hrange|exact excl_shape|exact HG]|].
        split; [intros i Hi'; unfold s_b; rewrite rebuild_at_visited; apply HD; right; exact Hi'|].
        intros i. destruct (N.eq_dec i x) as [->|Hne]; [left; unfold clean; rewrite Hbx; exact Hcb|].
        unfold clean, dirty. unfold s_b. rewrite rebuild_at_visited, (rebuild_at_other ob [] x s i) by (intros E; apply Hne; symmetry; exact E).
        destruct (Hall i) as [Hc|([[Hc|Hc]|Hc] & Hd)]; [left; exact Hc|congruence|right; split; [left; exact Hc|exact Hd]|right; split; [right; exact Hc|exact Hd]].
    Qed.

    Lemma ca_kids_loop D x s : IA D s -> clean s x ->
      CAp D D (s_rd (fun st => match getb (st_gr st) x with Some b' => kids b' | None => [] end) (fun l => s_foreach l (fun i0 => run (CSet i0))))
              (s_rd (fun st => match getb (st_gr st) x with Some b' => kids b' | None => [] end) (fun l => s_foreach l (fun i0 => run (CSet i0)))) s.
    Proof.
      intros HI Hc s' E HF. unfold s_rd in E |- *. rewrite (clean_kids s x Hc).
      assert (HC : forall l, CA2 D D (s_foreach l (fun i0 => run (CSet i0))) (s_foreach l (fun i0 => run (CSet i0)))) by (intros l; ca).
      exact (HC _ s HI s' E HF).
    Qed.

    Lemma kids_loop_frz x : frzAll (s_rd (fun st => match getb (st_gr st) x with Some b' => kids b' | None => [] end) (fun l => s_foreach l (fun i0 => run (CSet i0)))).
    Proof. fz. Qed.

    Lemma lvl_graph D x s : IA (x :: D) s -> ~ In x D ->
      CAp (x :: D) D (sort_run ob [] (S f) (CGraph x)) (sort_run ob [] (S f) (CGraph x)) s.
    Proof.
      intros HI Hn s' E HF. cbn [sort_run] in E |- *. unfold seq2 at 1 in E. unfold seq2 at 1.
      destruct (run (CAV x) s) as [s_a| |] eqn:Ea; cbn [bind] in E; try discriminate.
      assert (HFa : Fin (x :: D) s_a).
      { match type of E with ?T s_a = Ok s' => apply (fin_back (x :: D) T s_a s') end; [|exact E|eapply fin_weaken; [exact HF|apply incl_tl, incl_refl]].
        intros i b0 Hni. assert (Hne : x <> i) by (intros ->; apply Hni; left; reflexivity). frz (run_frozen ob [] f) Hne. }
      destruct (ih_av (x :: D) x s HI s_a Ea HFa) as (Ea' & HIa). rewrite Ea'. cbn [bind].
      unfold s_rd at 1 in E. unfold s_rd at 1. change (st_gr (hat s_a)) with g1.
      pose proof (IA_getb (x :: D) s_a x HIa) as R.
      destruct (getb (st_gr s_a) x) as [b|] eqn:Eb; destruct (getb g1 x) as [b1|] eqn:Eb1; try contradiction.
      2:{ inversion E; subst s'. split; [reflexivity|]. apply (IA_drop D x); [exact HIa|]. unfold clean. rewrite Eb, Eb1. reflexivity. }
      destruct R as (Rb & Rem & Rk).
      destruct (s_children b) as [|c l] eqn:Ech.
      - assert (H1 : s_children b1 = []) by (apply Rem; reflexivity). rewrite H1. inversion E; subst s'. split; [reflexivity|].
        apply (IA_drop D x); [exact HIa|]. unfold clean. rewrite Eb, Eb1. f_equal. rewrite Rb, H1, <- Ech. symmetry. apply with_children_same.
      - destruct (s_children b1) as [|c1 l1] eqn:Ech1; [destruct Rem as (_ & Rem); specialize (Rem eq_refl); discriminate|].
        assert (Ko1 : has_kind K_ORDERED b1 = has_kind K_ORDERED b) by (rewrite Rb; reflexivity). rewrite Ko1.
        assert (Vx : visited s_a x = true) by (destruct HIa as (_ & HD & _); apply HD; left; reflexivity).
        unfold seq2 at 1 in E. unfold seq2 at 1.
        destruct (has_kind K_ORDERED b) eqn:Ko.
        + cbn [s_skip bind] in E |- *.
          assert (Hc : clean s_a x).
          { destruct HIa as (_ & _ & Hall). destruct (Hall x) as [Hc|(_ & (b' & Hb' & _ & Ko' & _))]; [exact Hc|].
            rewrite Eb in Hb'. inversion Hb'; subst b'. congruence. }
          apply (ca_kids_loop D x s_a); [apply (IA_drop D x); assumption|exact Hc|exact E|exact HF].
        + unfold pure_upd at 1 in E. unfold pure_upd at 1. cbn [bind] in E |- *.
          assert (HFb : Fin D (rebuild_at ob [] x s_a)).
          { eapply fin_back; [apply frzAll_D, (kids_loop_frz x)|exact E|exact HF]. }
          destruct (rebuild_step D x s_a b HIa Hn Eb HFb) as (Eh & HIb). rewrite Eh.
          apply (ca_kids_loop D x _ HIb); [|exact E|exact HF].
          apply (IA_clean_visited D _ x HIb); [rewrite rebuild_at_visited; exact Vx|exact Hn].
    Qed.

    Lemma lvl_set D x s : IA D s -> CAp D D (sort_run ob [] (S f) (CSet x)) (sort_run ob [] (S f) (CSet x)) s.
    Proof.
      intros HI s' E HF. cbn [sort_run] in E |- *. unfold s_rd at 1 in E. unfold s_rd at 1.
      rewrite hat_visited. change (st_gr (hat s)) with g1.
      pose proof (IA_getb D s x HI) as R.
      destruct (getb (st_gr s) x) as [b|] eqn:Eb; destruct (getb g1 x) as [b1|] eqn:Eb1; try contradiction.
      2:{ inversion E; subst s'. split; [reflexivity|exact HI]. }
      destruct (visited s x) eqn:V; [inversion E; subst s'; split; [reflexivity|exact HI]|].
      destruct R as (Rb & _ & Rk). rewrite Rb. wc. rewrite !has_kind_wc. clear Rb Eb1 b1.
      destruct (has_kind K_COLL b) eqn:Kc.
      { apply (IH (CColl x) D s HI); [right; exact V|exact E|exact HF]. }
      destruct (has_kind K_NODE b) eqn:Kn.
      - unfold seq2 in E |- *. destruct (assign x s) as [s1| |] eqn:Ea; cbn [bind] in E; try discriminate.
        destruct (ap_assign_node D x s s1 HI Ea) as (Ea' & HI1). rewrite Ea'. cbn [bind].
        apply (IH (CGraph x) D s1 HI1); [|exact E|exact HF].
        intros Hin. destruct HI as (_ & HD & _). rewrite (HD x Hin) in V. discriminate.
      - assert (Hk : kind_at g x K_NODE = false) by (rewrite <- Rk; exact Kn).
        assert (Hc : clean s x) by (eapply IA_clean_nonnode; eauto).
        revert s' E HF.
        match goal with |- forall s', (assign x ;; ?r) s = Ok s' -> _ =>
          assert (HC : CA2 D D r r) by ca'; assert (HZ : frzAll r) by fz end.
        intros s' E HF. unfold seq2 in E |- *. destruct (assign x s) as [s1| |] eqn:Ea; cbn [bind] in E; try discriminate.
        assert (HF1 : Fin D s1) by (eapply fin_back; [apply frzAll_D, HZ|exact E|exact HF]).
        destruct (ap_assign D x s HI (or_intror Hc) s1 Ea HF1) as (Ea' & HI1). rewrite Ea'. cbn [bind].
        exact (HC s1 HI1 s' E HF).
    Qed.
  End Level.

  Theorem run_rerun : forall f c D s, IA (dpre c D) s -> cpre c D s ->
    CAp (dpre c D) D (sort_run ob [] f c) (sort_run ob [] f c) s.
  Proof.
    induction f as [|f IH]; intros c D s HI Hc; [intros s' E; discriminate|].
    destruct c as [x|x|x|x|x|x|x]; cbn [dpre cpre] in *.
    - apply (lvl_set f IH); exact HI.
    - apply (lvl_net f IH); exact HI.
    - apply (lvl_av f IH); exact HI.
    - apply (lvl_ctrl f IH); assumption.
    - apply (lvl_coll f IH); assumption.
    - apply (lvl_shape f IH); assumption.
    - apply (lvl_graph f IH); assumption.
  Qed.
End Rerun.

(* ---- what one run does to the block vector: a block is left alone, or it is a node (not an ordered
   node) with children whose child array is replaced by its rebuild ---- *)
Section Changed.
  Variable ob : bool.
  Variable g : list sblock.
  Hypothesis Hrange : refs_in_range g.
  Hypothesis Hexcl : node_shape_excl g.

  Definition proper (i : N) (st : sstate) : Prop :=
    exists b0, getb g i = Some b0 /\ has_kind K_NODE b0 = true /\ has_kind K_ORDERED b0 = false /\ s_children b0 <> [] /\
               getb (st_gr st) i = Some (with_children b0 (rebuild ob [] (i =? 0) g (s_children b0))).
  Definition W (st : sstate) : Prop :=
    grel g (st_gr st) /\ forall i, getb (st_gr st) i = getb g i \/ proper i st.

  Lemma grel_geq g' : grel g g' -> geq g' g.
  Proof.
    intros HG y. pose proof (grel_getb g g' y HG) as R.
    destruct (getb g y) as [b0|], (getb g' y) as [b|]; try contradiction; [|exact I].
    destruct R as (Rs & (Rin & _)). split; [intros k; apply same_but_kind; exact Rs|].
    split; intros E.
    - destruct (s_children b0) as [|c l] eqn:E1; [reflexivity|exfalso].
      assert (Hc : In c (s_children b)) by (apply Rin; left; reflexivity). rewrite E in Hc. destruct Hc.
    - destruct (s_children b) as [|c l] eqn:E1; [reflexivity|exfalso].
      assert (Hc : In c (s_children b0)) by (apply Rin; left; reflexivity). rewrite E in Hc. destruct Hc.
  Qed.

  Lemma W_same_graph st st' : st_gr st' = st_gr st -> W st -> W st'.
  Proof. intros E (HG & Hall). unfold W, proper. rewrite E. split; assumption. Qed.

  Lemma W_assign x : preserves W (assign x).
  Proof. intros st st' H. apply W_same_graph. apply (assign_gr _ _ _ H). Qed.
  Lemma W_index x : preserves W (s_set_index x).
  Proof. intros st st' H. apply W_same_graph. apply (set_index_gr _ _ _ H). Qed.

  (* the rebuild of block x, when x is a node, not ordered, with children *)
  Lemma W_rebuild x st b : W st -> getb (st_gr st) x = Some b -> kind_at g x K_NODE = true ->
    has_kind K_ORDERED b = false -> s_children b <> [] -> W (rebuild_at ob [] x st).
  Proof.
    intros (HG & Hall) Hb Kn Ko Hne. split; [apply rebuild_at_grel; assumption|].
    intros i. destruct (N.eq_dec i x) as [->|Hni].
    2:{ unfold proper. rewrite (rebuild_at_other ob [] x st i) by (intros E; apply Hni; symmetry; exact E). apply Hall. }
    right. pose proof (grel_geq _ HG) as Hgeq.
    assert (Hi : x < vlen (st_gr st)) by (apply getb_some in Hb; apply Hb).
    set (ch' := rebuild ob [] (x =? 0) (st_gr st) (s_children b)).
    destruct (vset_ok (st_gr st) x (with_children b ch') Hi) as (g' & Hg').
    assert (Hbx : getb (st_gr (rebuild_at ob [] x st)) x = Some (with_children b ch')).
    { unfold rebuild_at, set_children, children_of. rewrite Hb. fold ch'. rewrite Hg'. cbn [st_gr].
      unfold getb. apply getb_some in Hb. destruct Hb as (Hx1 & _ & _).
      destruct (N.eqb_spec x NPOS); [contradiction|]. unfold vlen. rewrite (vset_len _ _ _ _ Hg'). fold (vlen (st_gr st)).
      destruct (N.ltb_spec x (vlen (st_gr st))); [|lia]. rewrite (vget_vset _ _ _ _ _ Hg'), N.eqb_refl. reflexivity. }
    unfold proper. rewrite Hbx.
    assert (Hex : forall y, kind_at g y K_NODE = true -> kind_at g y K_SHAPE = false) by (intros y; apply excl_at; exact Hexcl).
    destruct (Hall x) as [Hu|(b0 & Hb0 & K1 & K2 & K3 & Hp)].
    - rewrite Hb in Hu. exists b. split; [symmetry; exact Hu|].
      split; [unfold kind_at in Kn; rewrite <- Hu in Kn; exact Kn|]. split; [exact Ko|]. split; [exact Hne|].
      unfold ch'. rewrite (rebuild_geq ob [] (x =? 0) _ _ (s_children b) Hgeq). reflexivity.
    - rewrite Hb in Hp. inversion Hp; subst b. exists b0. split; [exact Hb0|]. split; [exact K1|]. split; [exact K2|]. split; [exact K3|].
      unfold ch'. cbn [with_children s_children]. rewrite (rebuild_geq ob [] (x =? 0) _ _ _ Hgeq).
      rewrite (rebuild_fixed_point ob g (x =? 0) (s_children b0) Hex). reflexivity.
  Qed.

  Lemma W_bracket {A} x pre (rdf : sstate -> A) before after :
    preserves W pre -> (forall l, preserves W (before l)) -> (forall l, preserves W (after l)) ->
    preserves W (s_bracket x pre rdf before after).
  Proof.
    intros Hp Hb Ha.
    apply (pres_bracket (fun _ : list N => W) (fun _ y st H _ => W_same_graph st (s_mark y st) eq_refl H)
             (fun _ y st st' H E => W_index y st st' E H) []); auto.
  Qed.

  Ltac wt IH :=
    repeat match goal with
    | |- preserves _ (sort_run _ _ _ _) => apply IH; intros ? [=]
    | |- preserves _ s_skip => apply pres_skip
    | |- preserves _ (assign _) => apply W_assign
    | |- preserves _ (s_set_index _) => apply W_index
    | |- preserves _ (seq2 _ _) => apply pres_seq
    | |- preserves _ (s_foreach _ _) => apply pres_foreach; intros
    | |- preserves _ (s_rd _ _) => apply pres_rd; intros
    | |- preserves _ (s_bracket _ _ _ _ _) => apply W_bracket; intros
    | |- preserves _ (match ?x with _ => _ end) => destruct x
    end.

  Theorem run_W : forall fuel c, (forall j, c = CGraph j -> kind_at g j K_NODE = true) ->
    preserves W (sort_run ob [] fuel c).
  Proof.
    induction fuel as [|f IH]; intros c Hc; [intros st st' H; discriminate|].
    destruct c as [x|x|x|x|x|x|x]; cbn [sort_run]; try solve [wt IH].
    - apply pres_rd_p. intros st HW.
      destruct (getb (st_gr st) x) as [b|] eqn:Eb; [|apply preservesp_of, pres_skip].
      destruct (visited st x); [apply preservesp_of, pres_skip|].
      destruct (has_kind K_COLL b); [apply preservesp_of; wt IH|].
      destruct (has_kind K_NODE b) eqn:Kn; [|apply preservesp_of; wt IH].
      apply preservesp_of. apply pres_seq; [apply W_assign|]. apply IH. intros j [=]. subst j.
      destruct HW as (HG & _). rewrite <- (grel_kind g (st_gr st) x K_NODE HG). unfold kind_at. rewrite Eb. exact Kn.
    - assert (Kn : kind_at g x K_NODE = true) by (apply Hc; reflexivity).
      apply pres_seq; [wt IH|]. apply pres_rd_p. intros st HW.
      destruct (getb (st_gr st) x) as [b|] eqn:Eb; [|apply preservesp_of, pres_skip].
      destruct (s_children b) as [|c l] eqn:Ech; [apply preservesp_of, pres_skip|].
      intros st' E _. unfold seq2 at 1 in E.
      assert (HK : preserves W (s_rd (fun st0 => match getb (st_gr st0) x with Some b' => kids b' | None => [] end)
                                  (fun l0 => s_foreach l0 (fun i0 => sort_run ob [] f (CSet i0))))) by wt IH.
      destruct (has_kind K_ORDERED b) eqn:Ko.
      + cbn [s_skip bind] in E. exact (HK _ _ E HW).
      + unfold pure_upd in E. cbn [bind] in E. apply (HK _ _ E).
        apply (W_rebuild x st b HW Eb Kn Ko). rewrite Ech. discriminate.
  Qed.
End Changed.

(* ---- the whole index computation, run again on the graph it left ---- *)
Lemma indices_where_map p : forall g g' k, map p g = map p g' -> indices_where p k g = indices_where p k g'.
Proof.
  induction g as [|b g IH]; intros [|b' g'] k H; cbn in H; try discriminate; [reflexivity|].
  inversion H as [[H1 H2]]. cbn [indices_where]. rewrite H1, (IH g' (k + 1) H2). reflexivity.
Qed.

Lemma node_excl_shape g : node_excl g -> node_shape_excl g.
Proof. unfold node_shape_excl, node_excl. intros H. eapply Forall_impl; [|exact H]. intros b Hb Hn. apply Hb, Hn. Qed.

Lemma leftover_gr' k st st' : leftover k st = Ok st' -> st_gr st' = st_gr st.
Proof.
  intros H. apply (leftover_preserves_unary (fun s => st_gr s = st_gr st)) with (n := k) (st := st); [|exact H|reflexivity].
  intros i s s' Ha E. rewrite (assign_gr _ _ _ Ha). exact E.
Qed.

Theorem rerun_final ob f g st1 :
  refs_in_range g -> node_excl g -> pretty_indices f ob g = Ok st1 ->
  pretty_indices f ob (st_gr st1) = Ok st1.
Proof.
  intros Hr He Hrun. pose proof (node_excl_shape g He) as Hes.
  set (g1 := st_gr st1).
  assert (HG1 : grel g g1) by (apply (pretty_children f ob g st1 Hr Hes Hrun)).
  pose proof Hrun as H. rewrite pretty_indices_unfold in H.
  set (L := indices_where (has_kind K_NODE) 0 g) in *.
  destruct (roots_loop ob f L (init_state g 0)) as [sr| |] eqn:Er; cbn [bind] in H; try discriminate.
  assert (Hsr : st_gr sr = g1) by (symmetry; apply (leftover_gr' _ _ _ H)).
  (* what the first run did to each block *)
  assert (HW : W ob g sr).
  { assert (W0 : W ob g (init_state g 0)) by (split; [apply grel_refl|intros i; left; reflexivity]).
    assert (HP : preserves (W ob g) (roots_loop ob f L)); [|exact (HP _ _ Er W0)]. unfold roots_loop.
    apply pres_foreach. intros x _. apply pres_rd. intros p. destruct p; [apply pres_skip|].
    apply (run_W ob g Hr Hes). intros j [=]. }
  assert (HI0 : IA ob g g1 [] (init_state g 0)).
  { split; [apply grel_refl|]. split; [intros i []|]. intros i. destruct HW as (_ & Hall).
    destruct (Hall i) as [Hu|(b0 & Hb0 & K1 & K2 & K3 & Hp)]; rewrite Hsr in *.
    - left. unfold clean. cbn [init_state st_gr]. symmetry. exact Hu.
    - right. split; [right; reflexivity|]. exists b0. cbn [init_state st_gr]. split; [exact Hb0|]. split; [exact K1|]. split; [exact K2|].
      split; [exact K3|]. rewrite Hp. rewrite (rebuild_geq ob [] (i =? 0) g1 g _ (grel_geq g g1 HG1)). reflexivity. }
  assert (HC : CA2 ob g g1 [] [] (roots_loop ob f L) (roots_loop ob f L)).
  { unfold roots_loop. apply ca_foreach.
    - intros x _. apply ca_rd. intros s HI. cbn [hat st_gr].
      destruct HI as (HG & HD & Hall). rewrite (has_parent_grel g _ x HG), (has_parent_grel g _ x HG1).
      destruct (has_parent g x); [apply ca_skip; split; [exact HG|split; assumption]|].
      apply (run_rerun ob g g1 Hr He HG1 f (CSet x) [] s); [split; [exact HG|split; assumption]|exact I].
    - intros x. apply frzAll_D. intros i b0. apply pres_rd. intros p. destruct p; [apply pres_skip|].
      apply run_frozen. intros j [=]. }
  assert (HF : Fin g1 [] sr) by (intros i _ _; unfold clean; rewrite Hsr; reflexivity).
  destruct (HC _ HI0 sr Er HF) as (Er' & _).
  assert (Hlen : length g1 = length g) by (pose proof (grel_len _ _ HG1) as Hl; unfold vlen in Hl; lia).
  rewrite pretty_indices_unfold. fold g1.
  rewrite (indices_where_map (has_kind K_NODE) g1 g 0).
  2:{ apply grel_map; [|exact HG1]. intros b0 b ->. reflexivity. }
  fold L. replace (init_state g1 0) with (hat g1 (init_state g 0)) by (unfold hat, init_state; cbn; rewrite Hlen; reflexivity).
  rewrite Er'. cbn [bind]. replace (hat g1 sr) with sr by (unfold hat; rewrite <- Hsr; destruct sr; reflexivity).
  rewrite Hlen. exact H.
Qed.

(* ---- well-formedness carries over to the graph with rebuilt child arrays ---- *)
Lemma grel_forall_kind (P : sblock -> Prop) g g1 :
  (forall b0 b, same_but_children b0 b -> P b0 -> P b) -> grel g g1 -> Forall P g -> Forall P g1.
Proof.
  intros HP HG. unfold grel in HG. induction HG as [|b0 b l0 l (Hs & _) _ IH]; intros HF; [constructor|].
  inversion HF; subst. constructor; [eapply HP; eauto|apply IH; assumption].
Qed.

Lemma grel_refs_in_range g g1 : grel g g1 -> refs_in_range g -> refs_in_range g1.
Proof.
  intros HG Hr. unfold refs_in_range in *. rewrite (grel_len _ _ HG).
  unfold grel in HG. revert Hr. generalize (vlen g) as n. intros n.
  induction HG as [|b0 b l0 l (_ & (Hin & _)) _ IH]; intros HF; [constructor|].
  inversion HF as [|? ? H1 H2]; subst. constructor; [|apply IH; exact H2].
  rewrite Forall_forall in *. intros r Hrr. apply H1, Hin, Hrr.
Qed.

Lemma grel_shape_excl g g1 : grel g g1 -> node_shape_excl g -> node_shape_excl g1.
Proof.
  intros HG. apply (grel_forall_kind _ g g1); [|exact HG]. intros b0 b Hb H Hn.
  rewrite (same_but_kind b0 b K_NODE Hb) in Hn. rewrite (same_but_kind b0 b K_SHAPE Hb). apply H, Hn.
Qed.

Lemma grel_coll_excl g g1 : grel g g1 -> node_coll_excl g -> node_coll_excl g1.
Proof.
  intros HG. apply (grel_forall_kind _ g g1); [|exact HG]. intros b0 b Hb H Hn.
  rewrite (same_but_kind b0 b K_NODE Hb) in Hn. rewrite (same_but_kind b0 b K_COLL Hb). apply H, Hn.
Qed.

Theorem sort_idem fuel m m' :
  vlen (sm_g m) < NPOS -> refs_in_range (sm_g m) -> node_excl (sm_g m) ->
  pretty_sort fuel m = Ok m' -> pretty_sort fuel m' = Ok m'.
Proof.
  intros Hs Hr He H. pose proof (node_excl_shape _ He) as Hes. unfold pretty_sort in H.
  destruct (sm_unk m) eqn:Hu; [inversion H; subst m'; unfold pretty_sort; rewrite Hu; reflexivity|].
  destruct (sm_g m) as [|b0 g0] eqn:Eg; [inversion H; subst m'; unfold pretty_sort; rewrite Hu, Eg; reflexivity|].
  rewrite <- Eg in *.
  destruct (pretty_indices fuel (sm_ob m) (sm_g m)) as [st| |] eqn:Ep; cbn [bind] in H; try discriminate.
  destruct (reorder_g (st_nidx st) (st_gr st)) as [g2| |] eqn:Er; cbn [bind] in H; try discriminate.
  inversion H; subst m'. clear H.
  pose proof (pretty_children _ _ _ _ Hr Hes Ep) as HG.
  pose proof (rerun_final _ _ _ _ Hr He Ep) as Ep1.
  set (m1 := with_g m (st_gr st)).
  assert (Hl : vlen (st_gr st) = vlen (sm_g m)) by (apply grel_len; exact HG).
  apply (sort_idem_canonical fuel m1 (with_g m g2) st); cbn [m1 with_g sm_g sm_ob sm_unk].
  - rewrite Hl. exact Hs.
  - apply (grel_refs_in_range _ _ HG Hr).
  - apply (grel_shape_excl _ _ HG Hes).
  - apply (grel_coll_excl _ _ HG). unfold node_coll_excl, node_excl in *. eapply Forall_impl; [|exact He]. intros b Hb Hn. apply Hb, Hn.
  - exact Ep1.
  - reflexivity.
  - unfold pretty_sort. cbn [m1 with_g sm_g sm_ob sm_unk]. rewrite Hu.
    destruct (st_gr st) as [|c0 g1'] eqn:Eg1.
    { rewrite Eg in Hl. unfold vlen in Hl. cbn in Hl. lia. }
    rewrite <- Eg1 in *. rewrite Ep1. cbn [bind]. rewrite Er. reflexivity.
Qed.

(* ---- the hypotheses as boolean checks ---- *)
Definition refs_in_range_b (g : list sblock) : bool :=
  forallb (fun b => forallb (fun r => (r =? NPOS) || (r <? vlen g))%bool (s_children b)) g.
Definition node_excl_b (g : list sblock) : bool :=
  forallb (fun b => (negb (has_kind K_NODE b) ||
                     (negb (has_kind K_SHAPE b) && negb (has_kind K_COLL b) && negb (has_kind K_CTRL b)))%bool) g.
Definition sortable_b (g : list sblock) : bool :=
  ((vlen g <? NPOS) && refs_in_range_b g && node_excl_b g)%bool.

Lemma refs_in_range_b_ok g : refs_in_range_b g = true -> refs_in_range g.
Proof.
  unfold refs_in_range_b, refs_in_range. rewrite forallb_forall, Forall_forall. intros H b Hb.
  specialize (H b Hb). rewrite forallb_forall in H. apply Forall_forall. intros r Hr. specialize (H r Hr).
  apply orb_true_iff in H. destruct H as [H|H]; [left; apply N.eqb_eq; exact H|right; apply N.ltb_lt; exact H].
Qed.

Lemma node_excl_b_ok g : node_excl_b g = true -> node_excl g.
Proof.
  unfold node_excl_b, node_excl. rewrite forallb_forall, Forall_forall. intros H b Hb Hn.
  specialize (H b Hb). rewrite Hn in H. cbn [negb orb] in H.
  apply andb_true_iff in H. destruct H as (H & H3). apply andb_true_iff in H. destruct H as (H1 & H2).
  repeat split; apply negb_true_iff; assumption.
Qed.

Theorem sort_idem_b fuel m m' :
  sortable_b (sm_g m) = true -> pretty_sort fuel m = Ok m' -> pretty_sort fuel m' = Ok m'.
Proof.
  intros H. unfold sortable_b in H. apply andb_true_iff in H. destruct H as (H & H3).
  apply andb_true_iff in H. destruct H as (H1 & H2).
  apply sort_idem; [apply N.ltb_lt; exact H1|apply refs_in_range_b_ok; exact H2|apply node_excl_b_ok; exact H3].
Qed.

(* ---- outside the hypotheses the statement is false of the model ---- *)
Definition rk (kind : N) (ctrl : N) (children : list N) : sblock :=
  mkSB 0 kind 0 kind [] ctrl [] NPOS children NPOS NPOS NPOS NPOS NPOS NPOS NPOS NPOS [] NPOS NPOS [] []
       [] [] NPOS NPOS [] [] [] [].

(* a dangling child reference, OB / FO3 ordering: node 1 lists the out-of-range index 9; the first sort
   drops it, so for the second sort node 1 is no longer a "node with children" and moves behind shape 2 *)
Definition idem_dangling : smodel := mkSM [rk 2 NPOS [1; 2]; rk 2 NPOS [9]; rk 8 NPOS []] true false.

Theorem sort_idem_refuted_dangling_ref :
  exists fuel m m', pretty_sort fuel m = Ok m' /\ pretty_sort fuel m' <> Ok m' /\
    vlen (sm_g m) < NPOS /\ node_excl_b (sm_g m) = true /\ refs_in_range_b (sm_g m) = false.
Proof.
  exists 100%nat, idem_dangling. eexists. split; [vm_compute; reflexivity|].
  split; [vm_compute; discriminate|]. split; [reflexivity|]. split; vm_compute; reflexivity.
Qed.

(* an object that is both NiNode and NiTimeController (no C++ class is): block 1 is the controller of
   shader 4, which is block 1's own controller; its child array is read before SortGraph rebuilds it *)
Definition idem_node_ctrl : smodel :=
  mkSM [rk 2 NPOS [1]; rk 18 4 [3; 2]; rk 2 NPOS []; rk 8 NPOS []; rk 32 1 []] false false.

Theorem sort_idem_refuted_node_controller :
  exists fuel m m', pretty_sort fuel m = Ok m' /\ pretty_sort fuel m' <> Ok m' /\
    vlen (sm_g m) < NPOS /\ refs_in_range_b (sm_g m) = true /\ node_excl_b (sm_g m) = false.
Proof.
  exists 100%nat, idem_node_ctrl. eexists. split; [vm_compute; reflexivity|].
  split; [vm_compute; discriminate|]. split; [reflexivity|]. split; vm_compute; reflexivity.
Qed.

(* ---- a model on which the hypotheses hold and the sort is not the identity: the root node is block 2
   with shapes 4 and 0 as children, controller 3 and collision object 1 (-> rigid body 5) ---- *)
Definition idem_ex_node : sblock :=
  mkSB 2 2 0 2 [] 3 [] 1 [4; 0] NPOS NPOS NPOS NPOS NPOS NPOS NPOS NPOS [] NPOS NPOS [] [] [] [] NPOS NPOS [3; 1] [] [3; 1] [].
Definition idem_ex_blk (uid kind : N) (kpre : list N) : sblock :=
  mkSB uid kind 0 kind [] NPOS [] NPOS [] NPOS NPOS NPOS NPOS NPOS NPOS NPOS NPOS [] NPOS NPOS [] [] [] [] NPOS NPOS kpre [] kpre [].
Definition idem_ex : smodel :=
  mkSM [idem_ex_blk 0 8 []; idem_ex_blk 1 1 [5]; idem_ex_node; idem_ex_blk 3 16 []; idem_ex_blk 4 8 []; idem_ex_blk 5 8192 []]
       false false.

Example sort_idem_example :
  sortable_b (sm_g idem_ex) = true /\
  match pretty_sort 100 idem_ex with
  | Ok m' => map s_uid (sm_g m') = [2; 3; 5; 1; 4; 0] /\ map s_children (sm_g m') = [[4; 5]; []; []; []; []; []] /\
             pretty_sort 100 m' = Ok m'
  | _ => False
  end.
Proof. split; [vm_compute; reflexivity|]. vm_compute. repeat split; reflexivity. Qed.
